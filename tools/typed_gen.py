"""Typed program generator for the type-checker properties (C02, C03, C04, C05, C08).

Programs are generated *with their types*, so that the base program is well typed by construction
(the real compiler is nevertheless asked, bases it rejects are dropped and counted).  The result is a
template: program text with markers

    «S12|pos»                     a statement slot (own line): a planter may put statements here
    «E7|role|type»expr«/E7»     an expression slot: a planter may replace the expression
    «A3|kind»full«|»erased«/A3»  an annotation site (C08)
    «L5|type»literal«/L5»       a literal (C02 perturbation)

`render(tmpl, ...)` produces the base program or one variant.  Everything is driven by one
`random.Random`; nothing here touches /repo.

Programs use no std: they declare the externals they need themselves (PRELUDE)."""
import re

# ------------------------------------------------------------------------------------------------
# templates

MARK = re.compile(r"«(/?)([SEAL])(\d+)(?:\|([^»]*))?»|«\|»")


_parse_cache = {}


def parse_template(t):
    if t not in _parse_cache:
        if len(_parse_cache) > 64:
            _parse_cache.clear()
        _parse_cache[t] = _parse_template(t)
    return _parse_cache[t]


def _parse_template(t):
    """-> nested list: strings and dicts {k: 'S'|'E'|'A'|'L', id, info, body:[...], alt:[...]}"""
    pos = 0
    root = []
    stack = [root]
    open_nodes = []
    for m in MARK.finditer(t):
        if m.start() > pos:
            stack[-1].append(t[pos:m.start()])
        pos = m.end()
        if m.group(0) == "«|»":
            node = open_nodes[-1]
            node["alt"] = []
            stack[-1] = node["alt"]
            continue
        closing, k, i, info = m.group(1), m.group(2), int(m.group(3)), m.group(4)
        if closing:
            open_nodes.pop()
            stack.pop()
        elif k == "S":
            stack[-1].append({"k": "S", "id": i, "info": info or "", "body": [], "alt": None})
        else:
            node = {"k": k, "id": i, "info": info or "", "body": [], "alt": None}
            stack[-1].append(node)
            open_nodes.append(node)
            stack.append(node["body"])
    if pos < len(t):
        stack[-1].append(t[pos:])
    return root


def slots(tmpl, kind):
    """[(id, info)] of all markers of a kind, in order of appearance"""
    out = []

    def walk(ns):
        for n in ns:
            if isinstance(n, dict):
                if n["k"] == kind:
                    out.append((n["id"], n["info"]))
                walk(n["body"])
                if n["alt"]:
                    walk(n["alt"])
    walk(parse_template(tmpl))
    return out


def render(tmpl, plant_s=None, plant_e=None, erase=(), perturb=None):
    """plant_s = (id, [lines]) puts statements into a statement slot; plant_e = (id, text) replaces an
    expression; erase = ids of annotation sites rendered in their erased form; perturb = {id: text}"""
    perturb = perturb or {}
    erase = set(erase)

    def go(ns):
        out = []
        for n in ns:
            if isinstance(n, str):
                out.append(n)
            elif n["k"] == "S":
                if plant_s and plant_s[0] == n["id"]:
                    out.append("\x00PLANT\x00")
            elif n["k"] == "E":
                if plant_e and plant_e[0] == n["id"]:
                    out.append(plant_e[1])
                else:
                    out.append(go(n["body"]))
            elif n["k"] == "A":
                out.append(go(n["alt"] or []) if n["id"] in erase else go(n["body"]))
            elif n["k"] == "L":
                out.append(perturb[n["id"]] if n["id"] in perturb else go(n["body"]))
        return "".join(out)

    text = go(parse_template(tmpl))
    lines = []
    for line in text.split("\n"):
        if "\x00PLANT\x00" in line:
            ind = line[:len(line) - len(line.lstrip(" "))]
            for pl in plant_s[1]:
                for sub in pl.split("\n"):
                    lines.append(ind + sub)
        elif line.strip() == "" and line != "":
            continue       # a line that held only an unused statement slot
        else:
            lines.append(line)
    return "\n".join(lines)


# ------------------------------------------------------------------------------------------------
# types

INT, FLOAT, STR, BOOL, VOID = "int", "float", "str", "bool", "void"
BASE = [INT, FLOAT, STR, BOOL]


def tup(*ts):
    return ("tup", tuple(ts))


def lst(t):
    return ("list", t)


def fn(args, ret, pure=False):
    return ("fn", tuple(args), ret, pure)


def is_fn(t):
    return isinstance(t, tuple) and t[0] == "fn"


def ty_str(t):
    if isinstance(t, str):
        return t
    if t[0] == "tup":
        if len(t[1]) == 1:
            return "(%s,)" % ty_str(t[1][0])
        return "(" + ", ".join(ty_str(x) for x in t[1]) + ")"
    if t[0] == "list":
        return "[%s]" % ty_str(t[1])
    if t[0] == "fn":
        head = "pu" if t[3] else "fn"
        a = ", ".join(ty_str(x) for x in t[1])
        return "%s %s-> %s" % (head, a + " " if a else "", ty_str(t[2]))
    if t[0] in ("blob", "enum"):
        return t[1]
    raise ValueError(t)


def ground(t):
    """annotation of ground type: int float str bool, tuples / lists of them"""
    if isinstance(t, str):
        return t in BASE
    if t[0] == "tup":
        return all(ground(x) for x in t[1])
    if t[0] == "list":
        return ground(t[1])
    return False


PRELUDE = """print: fn *X -> void : external
zimp :: fn x: int -> int do
    x + 1
end
zpur :: pu x: int -> int do
    x + 2
end
zvoid :: fn do
end
zapply :: fn f: fn int -> int, v: int -> int do
    f(v)
end
zhl :: fn f: fn (int, int) -> int, v: int -> int do
    f((v, v))
end
Zbl :: blob {
    f: fn [int] -> [int],
    g: int,
}
ztakes_pu :: fn f: pu int -> int -> int do
    f(1)
end
ZC :: 7
zm := 8
zmb := "g"
zgadd :: fn p, q -> do
    p + q
end
zgtup :: fn p, q -> do
    (p, 1) + (q, 2)
end
zgneg :: fn p -> do
    (-(p, 1))
end
zgcmp :: fn p, q -> do
    (p, 1.0) < (q, 2.0)
end
zglocal :: fn p do
    zgx := (p, 1)
    zgy := zgx + (2, 3)
end
zgneg2 :: fn p do
    (-(p, 1))
end
zglt :: fn p, q -> do
    p < q
end
zggt :: fn p, q -> do
    (p, 1) > (q, 2)
end
zgdiv :: fn p -> do
    (p, 1) / 2
end
zgdiv2 :: fn p, q -> do
    (p, 1) / (q, 2)
end
zgdiv3 :: fn p do
    zgd := (p, 1) / 2
end
Zs :: blob {
    n: int,
    get: fn -> int,
}
ZT :: (1, 2)
Zb :: blob {
    a: int,
    b: str,
}
Ze :: enum
    P int,
    Q,
end
ZBV :: Zb { a: 1, b: "x" }
ZEV :: Ze.P 3
Zx :: externblob {
    a: int,
}
Zg :: blob(*T) {
    g: *T,
}
Zo :: enum(*T)
    Som *T,
    Non,
end
Zbx :: blob {
    v: *,
}
Zbn :: blob {
    l: [*],
    h: fn * -> void,
}
Zex :: enum
    Wrap *,
    Nil2,
end
Zbo :: blob {
    inner: Zbx,
}
zgneg1 :: fn x -> do
    (-x)
end
zgdbl :: fn x -> do
    x + x
end
ztwice :: fn f: fn str -> str, s: str -> str do
    f(f(s))
end
zgbump :: fn p -> do
    p.b + 1
end
zgbumpa :: fn p -> do
    p.a + 1
end
zrunt :: fn fs: (fn Zb -> int, int) -> int do
    fs[0](ZBV) + fs[1]
end
Zhf :: blob {
    h: fn str -> str,
}
zrunb :: fn b: Zhf -> str do
    b.h("ab")
end
ztakesb :: fn q: Zb -> int do
    q.a
end
Zin :: blob {
    v: int,
}
Zout :: blob {
    get: fn -> int,
    child: Zin,
}
"""


class Var:
    def __init__(self, name, ty, mutable, is_global, is_param=False):
        self.name, self.ty, self.mutable, self.is_global, self.is_param = name, ty, mutable, is_global, is_param


class Ctx:
    def __init__(self, ret=None, pure=False, in_loop=False, encl_loop=False, path="", depth=0, params=(), counter=None):
        self.ret, self.pure, self.in_loop, self.encl_loop = ret, pure, in_loop, encl_loop
        self.path, self.depth, self.params, self.counter = path, depth, params, counter

    def sub(self, **kw):
        c = Ctx(self.ret, self.pure, self.in_loop, self.encl_loop, self.path, self.depth, self.params, self.counter)
        for k, v in kw.items():
            setattr(c, k, v)
        return c

    def info(self, where):
        return "%s;path=%s;pure=%d;loop=%d;encl=%d;ret=%s;params=%s" % (
            where, self.path or "top", int(self.pure), int(self.in_loop), int(self.encl_loop),
            ty_str(self.ret) if self.ret else "-", ",".join(self.params))


class Gen:
    """One generated program.  size ~ number of top-level functions."""

    def __init__(self, rng, size=4, features=("blob", "enum", "pure", "closure", "hof", "list", "tuple")):
        self.r = rng
        self.size = size
        self.features = set(features)
        self.n = 0
        self.mid = 0
        self.scopes = [[]]
        self.blobs = {}      # name -> [(field, type)]
        self.enums = {}      # name -> [(variant, type or None)]
        self.funcs = []      # Var of fn type, global
        self.lines = []
        self.stats = {}

    # ---- helpers
    def fresh(self, p="v"):
        self.n += 1
        return "%s%d" % (p, self.n)

    def m(self):
        self.mid += 1
        return self.mid

    def count(self, k):
        self.stats[k] = self.stats.get(k, 0) + 1

    def visible(self, ctx, pred):
        out = []
        for sc in self.scopes:
            for v in sc:
                if ctx.pure and v.mutable:
                    continue
                if pred(v):
                    out.append(v)
        return out

    def E(self, role, t, text, ctx):
        return "«E%d|%s|%s»%s«/E%d»" % ((i := self.m()), ctx.info(role), ty_str(t), text, i)

    def L(self, t, text):
        return "«L%d|%s»%s«/L%d»" % ((i := self.m()), t, text, i)

    def S(self, where, ctx, ind):
        return "%s«S%d|%s»" % (ind, self.m(), ctx.info(where))

    # ---- types
    def rand_type(self, d=0, allow_fn=False):
        r = self.r
        x = r.random()
        if d >= 2 or x < 0.55:
            return r.choice(BASE)
        if x < 0.70 and "tuple" in self.features:
            return tup(*[self.rand_type(d + 1) for _ in range(r.randint(2, 3))])
        if x < 0.80 and "list" in self.features:
            return lst(self.rand_type(d + 1))
        if x < 0.88 and self.blobs:
            return ("blob", r.choice(sorted(self.blobs)))
        if x < 0.94 and self.enums:
            return ("enum", r.choice(sorted(self.enums)))
        if allow_fn and "hof" in self.features:
            return fn([self.sig_type() for _ in range(r.randint(0, 2))], self.sig_type())
        return r.choice(BASE)

    def sig_type(self):
        """a parameter / return type of a function type: a base type, or a tuple / list of base types (their
        annotations close a bracket inside the signature)"""
        r = self.r
        x = r.random()
        if x < 0.6 or "tuple" not in self.features:
            return r.choice(BASE)
        if x < 0.85:
            return tup(*[r.choice(BASE) for _ in range(r.randint(2, 3))])
        return lst(r.choice(BASE))

    # ---- expressions
    def literal(self, t):
        r = self.r
        if t == INT:
            return self.L(INT, str(r.randint(0, 9)))
        if t == FLOAT:
            return self.L(FLOAT, "%d.%d" % (r.randint(0, 9), r.choice([0, 5, 25])))
        if t == STR:
            return self.L(STR, '"%s"' % r.choice(["a", "bc", "", "xyz", "q r"]))
        if t == BOOL:
            return self.L(BOOL, r.choice(["true", "false"]))
        raise ValueError(t)

    def expr(self, t, ctx, d=0, role="operand"):
        return self.E(role, t, self.expr0(t, ctx, d), ctx)

    def expr0(self, t, ctx, d):
        r = self.r
        cands = self.visible(ctx, lambda v: v.ty == t)
        # calls of functions returning t
        fcands = self.visible(ctx, lambda v: is_fn(v.ty) and v.ty[2] == t and (not ctx.pure or v.ty[3]))
        if d >= 2:
            if cands and r.random() < 0.6:
                return r.choice(cands).name
            return self.simple(t, ctx, d)
        x = r.random()
        if cands and x < 0.25:
            self.count("read")
            return r.choice(cands).name
        if fcands and x < 0.40:
            return self.call(r.choice(fcands), ctx, d)
        # tuple index / field access producing t
        if x < 0.48:
            tv = self.visible(ctx, lambda v: isinstance(v.ty, tuple) and v.ty[0] == "tup" and t in v.ty[1])
            if tv:
                v = r.choice(tv)
                idx = [i for i, u in enumerate(v.ty[1]) if u == t]
                self.count("tuple-index")
                return "%s[%d]" % (v.name, r.choice(idx))
            mv = self.visible(ctx, lambda v: isinstance(v.ty, tuple) and v.ty[0] == "blob"
                              and any(is_fn(ft) and ft[2] == t and (not ctx.pure or ft[3]) for _, ft in self.blobs[v.ty[1]]))
            if mv and r.random() < 0.7:
                v = r.choice(mv)
                f, ft = r.choice([(f, ft) for f, ft in self.blobs[v.ty[1]] if is_fn(ft) and ft[2] == t and (not ctx.pure or ft[3])])
                self.count("method-call")
                return "%s.%s(%s)" % (v.name, f, ", ".join(self.expr(a, ctx, d + 1, "arg") for a in ft[1]))
            bv = self.visible(ctx, lambda v: isinstance(v.ty, tuple) and v.ty[0] == "blob"
                              and any(ft == t for _, ft in self.blobs[v.ty[1]]))
            if bv:
                v = r.choice(bv)
                self.count("field-access")
                return "%s.%s" % (v.name, r.choice([f for f, ft in self.blobs[v.ty[1]] if ft == t]))
        if x < 0.56 and not is_fn(t):
            self.count("if-expr")
            return "(if %s do %s else %s end)" % (self.expr(BOOL, ctx, d + 1, "cond"), self.expr(t, ctx, d + 1, "branch-value"),
                                                  self.expr(t, ctx, d + 1, "branch-value"))
        if x < 0.60 and self.enums and not is_fn(t) and "enum" in self.features:
            return self.case_expr(t, ctx, d)
        return self.simple(t, ctx, d)

    def call(self, f, ctx, d):
        self.count("call")
        args = []
        for i, a in enumerate(f.ty[1]):
            if i == 0 and getattr(f, "recursive", False):
                args.append(self.L(INT, str(self.r.randint(0, 2))))
            else:
                args.append(self.expr(a, ctx, d + 1, "arg"))
        if any("\n" in a for a in args):
            # a function literal among the arguments: the argument list is written over several lines
            self.count("multi-line-args")
            return "%s(\n%s\n)" % (f.name, ",\n".join(args))
        return "%s(%s)" % (f.name, ", ".join(args))

    def simple(self, t, ctx, d):
        r = self.r
        if d >= 3:
            return self.atom(t, ctx)
        if t == INT:
            x = r.random()
            if x < 0.35:
                return self.literal(INT)
            if x < 0.85:
                self.count("arith")
                return "(%s %s %s)" % (self.expr(INT, ctx, d + 1), r.choice(["+", "-", "*"]), self.expr(INT, ctx, d + 1))
            self.count("neg")
            return "(-%s)" % self.expr(INT, ctx, d + 1)
        if t == FLOAT:
            x = r.random()
            if x < 0.4:
                return self.literal(FLOAT)
            if x < 0.8:
                self.count("arith")
                return "(%s %s %s)" % (self.expr(FLOAT, ctx, d + 1), r.choice(["+", "-", "*", "/"]), self.expr(FLOAT, ctx, d + 1))
            if x < 0.9:
                self.count("int-div")
                return "(%s / %s)" % (self.expr(INT, ctx, d + 1), self.L(INT, str(r.randint(1, 9))))
            return "(-%s)" % self.expr(FLOAT, ctx, d + 1)
        if t == STR:
            if r.random() < 0.6:
                return self.literal(STR)
            self.count("concat")
            return "(%s + %s)" % (self.expr(STR, ctx, d + 1), self.expr(STR, ctx, d + 1))
        if t == BOOL:
            x = r.random()
            if x < 0.25:
                return self.literal(BOOL)
            if x < 0.5:
                u = r.choice([INT, FLOAT, STR])
                self.count("compare")
                return "(%s %s %s)" % (self.expr(u, ctx, d + 1), r.choice(["<", ">", "<=", ">="]), self.expr(u, ctx, d + 1))
            if x < 0.7:
                u = r.choice(BASE)
                self.count("equality")
                return "(%s %s %s)" % (self.expr(u, ctx, d + 1), r.choice(["==", "!="]), self.expr(u, ctx, d + 1))
            if x < 0.85:
                self.count("bool-op")
                return "(%s %s %s)" % (self.expr(BOOL, ctx, d + 1), r.choice(["and", "or"]), self.expr(BOOL, ctx, d + 1))
            self.count("not")
            return "(not %s)" % self.expr(BOOL, ctx, d + 1)
        return self.atom(t, ctx, d)

    def atom(self, t, ctx, d=4):
        r = self.r
        if isinstance(t, str):
            return self.literal(t)
        cands = self.visible(ctx, lambda v: v.ty == t)
        if cands and (d >= 3 or r.random() < 0.3):
            return r.choice(cands).name
        if t[0] == "tup":
            self.count("tuple")
            if len(t[1]) == 1:
                return "(%s,)" % self.expr(t[1][0], ctx, d + 1, "elem")
            return "(" + ", ".join(self.expr(x, ctx, d + 1, "elem") for x in t[1]) + ")"
        if t[0] == "list":
            self.count("list")
            return "[" + ", ".join(self.expr(t[1], ctx, d + 1, "elem") for _ in range(r.randint(1, 2))) + "]"
        if t[0] == "blob":
            self.count("blob-inst")
            fs = list(self.blobs[t[1]])
            r.shuffle(fs)
            # parenthesised: a blob instance directly followed by `else` is a syntax error
            inits = ["%s: %s" % (f, self.expr(ft, ctx, d + 1, "field-init")) for f, ft in fs]
            if any("\n" in i for i in inits):
                self.count("multi-line-blob")
                return "(%s {\n%s,\n})" % (t[1], ",\n".join(inits))
            return "(%s { %s })" % (t[1], ", ".join(inits))
        if t[0] == "enum":
            self.count("variant")
            v, vt = r.choice(self.enums[t[1]])
            if vt is None:
                return "%s.%s" % (t[1], v)
            return "(%s.%s %s)" % (t[1], v, self.expr(vt, ctx, d + 1, "variant-arg"))
        if t[0] == "fn":
            return self.lambda_(t, ctx, d)
        raise ValueError(t)

    def case_expr(self, t, ctx, d):
        r = self.r
        en = r.choice(sorted(self.enums))
        self.count("case-expr")
        scrut = self.expr(("enum", en), ctx, d + 1, "scrutinee")
        arms = []
        vs = list(self.enums[en])
        use_else = r.random() < 0.4
        if use_else:
            vs = vs[:r.randint(0, len(vs) - 1)]
        for v, vt in vs:
            if vt is not None and r.random() < 0.7:
                b = self.fresh("c")
                self.scopes.append([Var(b, vt, False, False)])
                arms.append("%s %s -> %s end" % (v, b, self.expr(t, ctx, d + 2, "case-arm")))
                self.scopes.pop()
            else:
                arms.append("%s -> %s end" % (v, self.expr(t, ctx, d + 2, "case-arm")))
        if use_else:
            arms.append("else %s end" % self.expr(t, ctx, d + 2, "case-arm"))
        elif r.random() < 0.25:
            # a repeated arm: still total, still accepted
            self.count("case-repeated-arm")
            v, vt = r.choice(self.enums[en])
            arms.insert(r.randrange(len(arms) + 1), "%s -> %s end" % (v, self.expr(t, ctx, d + 2, "case-arm")))
        return "(case %s do %s end)" % (scrut, " ".join(arms))

    def lambda_(self, t, ctx, d):
        self.count("lambda")
        params = [Var(self.fresh("p"), a, False, False, True) for a in t[1]]
        pure = t[3]
        body_ctx = ctx.sub(ret=t[2], pure=ctx.pure or pure, in_loop=False, encl_loop=ctx.in_loop or ctx.encl_loop,
                           path=ctx.path + "/closure", depth=ctx.depth + 1,
                           params=tuple("%s:%s" % (p.name, ty_str(p.ty)) for p in params), counter=None)
        return self.function_text(params, t[2], pure, body_ctx, "    " * (ctx.depth + 1), small=True)

    def function_text(self, params, ret, pure, ctx, ind, small=False, rec=None):
        """`fn p: T, ... -> R do <body> end` (multi-line), annotation sites marked"""
        ps = []
        for p in params:
            if is_fn(p.ty):
                ps.append("%s: %s" % (p.name, ty_str(p.ty)))
            else:
                i = self.m()
                ps.append("%s«A%d|param;%s»: %s«|»«/A%d»" % (p.name, i, "g" if ground(p.ty) else "n", ty_str(p.ty), i))
        head = ("pu" if pure else "fn") + (" " + ", ".join(ps) if ps else "")
        if ret == VOID:
            head += " do"
        else:
            i = self.m()
            head += " ->«A%d|ret;%s» %s«|»«/A%d» do" % (i, "g" if ground(ret) else "n", ty_str(ret), i)
        self.scopes.append(list(params))
        extra = []
        for p in params:
            # call the function-typed fields of blob-typed parameters (needs the parameter's annotation: C08)
            if isinstance(p.ty, tuple) and p.ty[0] == "blob" and self.r.random() < 0.8:
                for f, ft in self.blobs[p.ty[1]]:
                    if is_fn(ft) and (not ctx.pure or ft[3]):
                        self.count("method-call-on-param")
                        extra.append("%s    %s.%s(%s)" % (ind, p.name, f, ", ".join(self.expr(a, ctx, 2, "arg") for a in ft[1])))
        body = self.block(ctx, ind + "    ", (0 if ctx.depth >= 3 else self.r.randint(0, 1)) if small else self.r.randint(1, 3), ret=ret, rec=rec)
        if rec is not None:
            body = body[:3] + extra + body[3:]
        else:
            body = extra + body
        self.scopes.pop()
        return head + "\n" + "\n".join(body) + "\n" + ind + "end"

    # ---- statements
    def block(self, ctx, ind, n, ret=None, rec=None, enddef=False):
        """list of lines; the scope of the block is pushed/popped here"""
        self.scopes.append([])
        out = []
        if rec is not None:
            # recursion guard: the first parameter decreases
            out.append("%sif %s <= 0 do" % (ind, rec.params[0].name))
            out.append("%s    ret %s" % (ind, self.expr(rec.ty[2], ctx.sub(path=ctx.path + "/branchN"), 2, "ret-value")) if rec.ty[2] != VOID
                       else "%s    ret" % ind)
            out.append("%send" % ind)
        for _ in range(n):
            out.append(self.S("block", ctx, ind))
            out.extend(self.stmt(ctx, ind, rec))
        out.append(self.S("block-end", ctx, ind))
        if enddef:
            out.append("%s%s :: 0" % (ind, self.fresh("e")))
        if ret is not None and ret != VOID:
            if self.r.random() < 0.5:
                out.append("%sret %s" % (ind, self.expr(ret, ctx, 1, "ret-value")))
            else:
                self.count("implicit-ret")
                out.append("%s%s" % (ind, self.expr(ret, ctx, 1, "implicit-ret")))
        self.scopes.pop()
        return out

    def define(self, ctx, ind, t=None, force_const=None):
        r = self.r
        t = t or self.rand_type(allow_fn=("closure" in self.features and ctx.depth < 2))
        name = self.fresh("v")
        const = force_const if force_const is not None else (ctx.pure or r.random() < 0.45)
        is_global = ctx.depth == 0 and ctx.path == ""
        if is_fn(t):
            const = True
            val = self.atom(t, ctx)
            line = "%s%s :: %s" % (ind, name, val)
        else:
            val = self.expr(t, ctx, 0, "global-init" if is_global else "local-init")
            i = self.m()
            g = "g" if ground(t) else "n"
            if const:
                line = "%s%s«A%d|var;%s»: %s :«|» ::«/A%d» %s" % (ind, name, i, g, ty_str(t), i, val)
            else:
                line = "%s%s«A%d|var;%s»: %s =«|» :=«/A%d» %s" % (ind, name, i, g, ty_str(t), i, val)
            if r.random() < 0.5:
                # un-annotated in the base program: swap the alternatives
                line = re.sub(r"«A%d\|([^»]*)»(.*?)«\|»(.*?)«/A%d»" % (i, i),
                              lambda mm: "«A%d|%s;un»%s«|»%s«/A%d»" % (i, mm.group(1), mm.group(3), mm.group(2), i), line)
        self.count("def-const" if const else "def-mut")
        self.scopes[-1].append(Var(name, t, not const, is_global))
        return [line]

    def define_generic(self, ctx, ind):
        """a variable of a GENERIC blob / enum type, annotated with the bare type name: every mention of the type
        must be a fresh instance (two such variables at different element types in one program)"""
        r = self.r
        name = self.fresh("v")
        et = r.choice(BASE)
        val = self.expr(et, ctx, 1, "field-init")
        i = self.m()
        if r.random() < 0.5:
            tyname, init = "Zg", "(Zg { g: %s })" % val
        else:
            tyname, init = "Zo", "(Zo.Som %s)" % val
        self.count("generic-annotation")
        line = "%s%s«A%d|var;n»: %s :«|» ::«/A%d» %s" % (ind, name, i, tyname, i, init)
        if r.random() < 0.5:
            line = "%s%s«A%d|var;n;un» ::«|»: %s :«/A%d» %s" % (ind, name, i, tyname, i, init)
        return [line]

    def stmt(self, ctx, ind, rec=None):
        r = self.r
        x = r.random()
        if x < 0.05:
            return self.define_generic(ctx, ind)
        if x < 0.30:
            return self.define(ctx, ind)
        if x < 0.42 and not ctx.pure:
            mv = self.visible(ctx, lambda v: v.mutable and not is_fn(v.ty) and v.ty != "counter")
            if mv:
                v = r.choice(mv)
                self.count("assign")
                if v.ty in (INT, FLOAT) and r.random() < 0.4:
                    return ["%s%s %s %s" % (ind, v.name, r.choice(["+=", "-=", "*="]), self.expr(v.ty, ctx, 1, "assign-rhs"))]
                if v.ty == STR and r.random() < 0.3:
                    return ["%s%s += %s" % (ind, v.name, self.expr(STR, ctx, 1, "assign-rhs"))]
                return ["%s%s = %s" % (ind, v.name, self.expr(v.ty, ctx, 1, "assign-rhs"))]
        if x < 0.50 and not ctx.pure:
            bv = self.visible(ctx, lambda v: isinstance(v.ty, tuple) and v.ty[0] == "blob")
            if bv:
                v = r.choice(bv)
                f, ft = r.choice(self.blobs[v.ty[1]])
                if not is_fn(ft):
                    self.count("field-assign")
                    return ["%s%s.%s = %s" % (ind, v.name, f, self.expr(ft, ctx, 1, "assign-rhs"))]
        if x < 0.60 and len(ctx.path.split("/")) < 4:
            self.count("if-stmt")
            y = r.random()
            # with an `else` the values of the branches are unified: end every branch with a definition
            ed = y < 0.6
            # branchE: branch of an `if` that has an `else`; branchN: of one that has none
            c2 = ctx.sub(path=ctx.path + ("/branchE" if ed else "/branchN"))
            out = ["%sif %s do" % (ind, self.expr(BOOL, ctx, 1, "cond"))]
            out += self.block(c2, ind + "    ", 1, enddef=ed)
            if y < 0.3:
                out.append("%selif %s do" % (ind, self.expr(BOOL, ctx, 1, "cond")))
                out += self.block(c2, ind + "    ", 1, enddef=ed)
            if y < 0.6:
                out.append("%selse do" % ind)
                out += self.block(c2, ind + "    ", 1, enddef=ed)
            out.append("%send" % ind)
            return out
        if x < 0.68 and len(ctx.path.split("/")) < 4 and not ctx.pure:
            self.count("loop")
            cn = self.fresh("i")
            lim = r.randint(1, 3)
            c2 = ctx.sub(in_loop=True, path=ctx.path + "/loop", counter=cn)
            out = ["%s%s := 0" % (ind, cn), "%sloop %s < %d do" % (ind, cn, lim), "%s    %s += 1" % (ind, cn)]
            self.scopes[-1].append(Var(cn, "counter", True, False))
            body = self.block(c2, ind + "    ", 1)
            if r.random() < 0.5:
                self.count("break/continue")
                body.append("%s    if %s do %s end" % (ind, self.expr(BOOL, c2, 2, "cond"), r.choice(["break", "continue"])))
            out += body
            out.append("%send" % ind)
            return out
        if x < 0.80 and not ctx.pure:
            self.count("print")
            return ["%sprint(%s)" % (ind, self.expr(self.rand_type(), ctx, 1, "arg"))]
        if x < 0.86:
            self.count("assert")
            t = r.choice(BASE)
            e = self.expr(t, ctx, 1, "operand")
            if ctx.pure or r.random() < 0.8:
                # the same expression on both sides (second copy without markers): the assertion holds
                return ["%s%s <=> %s" % (ind, e, render(e))]
            return ["%s%s <=> %s" % (ind, e, self.expr(t, ctx, 1, "operand"))]
        if x < 0.92:
            self.count("unused-expr")
            t = self.rand_type()
            return ["%s%s" % (ind, self.expr(t, ctx, 1, "unused"))]
        if x < 0.97 and "closure" in self.features and ctx.depth < 2:
            t = fn([self.sig_type() for _ in range(r.randint(0, 2))], r.choice([VOID] + BASE + [self.sig_type()]), pure=ctx.pure or ("pure" in self.features and r.random() < 0.3))
            return self.define(ctx, ind, t)
        if rec is not None and rec.ty[2] == VOID or (rec is not None and r.random() < 0.5):
            pass
        return self.define(ctx, ind)

    # ---- top level
    def program(self):
        r = self.r
        top = []
        if "blob" in self.features:
            for _ in range(r.randint(1, 2)):
                name = self.fresh("B")
                fields = [(self.fresh("f"), (self.rand_type(1) if r.random() < 0.8 or "hof" not in self.features
                                             else fn([self.sig_type() for _ in range(r.randint(0, 1))], r.choice(BASE))))
                          for _ in range(r.randint(1, 4))]
                self.blobs[name] = fields
                top.append("%s :: blob {\n%s}" % (name, "".join("    %s: %s,\n" % (f, ty_str(t)) for f, t in fields)))
        if "enum" in self.features:
            for _ in range(r.randint(1, 2)):
                name = self.fresh("E")
                vs = [(self.fresh("K"), (self.rand_type(1) if r.random() < 0.6 else None)) for _ in range(r.randint(1, 4))]
                self.enums[name] = vs
                top.append("%s :: enum\n%send" % (name, "".join("    %s%s,\n" % (v, " " + ty_str(t) if t else "") for v, t in vs)))
        gctx = Ctx()
        for _ in range(r.randint(1, 3)):
            top.append("«S%d|%s»" % (self.m(), "global"))
            top += self.define(gctx, "", force_const=None if r.random() < 0.5 else True)
        for k in range(self.size):
            pure = "pure" in self.features and r.random() < 0.3
            nparams = r.randint(0, 3)
            recursive = r.random() < 0.3
            ptys = [self.rand_type(1, allow_fn=(r.random() < 0.3)) for _ in range(nparams)]
            if recursive:
                ptys = [INT] + ptys
            ret = r.choice([VOID, VOID] + BASE + [self.rand_type(1)])
            name = self.fresh("fun")
            fv = Var(name, fn(ptys, ret, pure), False, True)
            fv.recursive = recursive
            params = [Var(self.fresh("p"), a, False, False, True) for a in ptys]
            fv.params = params
            if pure:
                ptys2 = [a if not is_fn(a) else fn(a[1], a[2], True) for a in ptys]
                fv.ty = fn(ptys2, ret, True)
                for p, a in zip(params, ptys2):
                    p.ty = a
            ctx = Ctx(ret=ret, pure=pure, path="fn", depth=1, params=tuple("%s:%s" % (p.name, ty_str(p.ty)) for p in params))
            if recursive:
                self.scopes[0].append(fv)
            text = self.function_text(params, ret, pure, ctx, "", rec=fv if recursive else None)
            if not recursive:
                self.scopes[0].append(fv)
            self.funcs.append(fv)
            self.count("pure-fn" if pure else "fn")
            if recursive:
                self.count("recursive-fn")
            top.append("%s :: %s" % (name, text))
        # start
        sctx = Ctx(ret=VOID, path="fn", depth=1)
        self.scopes.append([])
        body = self.block(sctx, "    ", r.randint(1, 3))
        i1, i2 = self.m(), self.m()
        body.append("    zga«A%d|var;n»: Zg :«|» ::«/A%d» (Zg { g: 1 })" % (i1, i1))
        body.append("    zgb«A%d|var;n»: Zg :«|» ::«/A%d» (Zg { g: \"s\" })" % (i2, i2))
        # function literals with tuple / list typed signatures inside multi-line argument lists and blob literals
        a1, a2, a3, a4 = self.m(), self.m(), self.m(), self.m()
        body += ["    zhl(",
                 "        fn p«A%d|param;g»: (int, int)«|»«/A%d» ->«A%d|ret;g» int«|»«/A%d» do" % (a1, a1, a2, a2),
                 "            p[0] + 1",
                 "        end,",
                 "        3",
                 "    )",
                 "    zbl :: Zbl {",
                 "        f: fn q«A%d|param;g»: [int]«|»«/A%d» ->«A%d|ret;g» [int]«|»«/A%d» do" % (a3, a3, a4, a4),
                 "            q",
                 "        end,",
                 "        g: 1,",
                 "    }"]
        self.count("bracketed-lambda")
        # ordering of tuples with mixed int / float components (legal component-wise): the annotations of the tuple
        # parameters are erasable one by one, the arguments are of the other numeric kind than the other operand
        b = [self.m() for _ in range(6)]
        body += ["    zbefore :: fn p«A%d|param;g»: (float, int)«|»«/A%d», hi«A%d|param;g»: (int, float)«|»«/A%d» ->«A%d|ret;g» bool«|»«/A%d» do"
                 % (b[0], b[0], b[1], b[1], b[2], b[2]),
                 "        p < hi",
                 "    end",
                 "    zbefore((0.5, 1), (1, 1.5))",
                 "    zafter :: fn lo«A%d|param;g»: (int, (float, int))«|»«/A%d», p«A%d|param;g»: (float, (int, float))«|»«/A%d» ->«A%d|ret;g» bool«|»«/A%d» do"
                 % (b[3], b[3], b[4], b[4], b[5], b[5]),
                 "        lo > p",
                 "    end",
                 "    zafter((1, (1.5, 2)), (0.5, (1, 2.5)))"]
        self.count("mixed-tuple-ordering")
        for f in self.funcs:
            if r.random() < 0.8:
                body.append("    " + self.E("unused", f.ty[2], self.call(f, sctx, 1), sctx) if f.ty[2] != VOID else "    " + self.call(f, sctx, 1))
        self.scopes.pop()
        top.append("start :: fn do\n%s\nend" % "\n".join(body))
        return PRELUDE + "\n".join(top) + "\n"


def gen_program(rng, size=4, features=None):
    g = Gen(rng, size, features or ("blob", "enum", "pure", "closure", "hof", "list", "tuple"))
    t = g.program()
    return t, g


# ------------------------------------------------------------------------------------------------
# planters.  Each kind gives (a) an expression that may replace any expression slot and/or (b) statements
# that may be put into any statement slot (possibly restricted by the slot's context).

def info_dict(info):
    parts = info.split(";")
    d = {"where": parts[0]}
    for p in parts[1:]:
        if "=" in p:
            k, v = p.split("=", 1)
            d[k] = v
    return d


# C03: definite type mismatches.  name -> (expression or None, statements or None)
C03_KINDS = {
    "int+str":        ('(1 + "a")', None),
    "int==float":     ('(1 == 1.0)', None),
    "not-nonbool":    ('(not 1)', None),
    "and-nonbool":    ('(true and 1)', None),
    "neg-str":        ('(-"abc")', None),
    "arity":          ('zimp(1, 2)', None),
    "arg-type":       ('zimp("a")', None),
    "call-nonfn":     ('ZC(1)', None),
    "hetero-list":    ('[1, "a"]', None),
    "cond-nonbool":   ('(if 1 do 2 else 3 end)', ['if 1 do', 'end']),
    "loop-cond":      (None, ['loop 1 do', '    break', 'end']),
    "var-type":       (None, ['zz9: int = "a"']),
    "var-type-const": (None, ['zz9: str : 1']),
    "assign-type":    (None, ['zz8 := 1', 'zz8 = "a"']),
    "field-type":     ('(Zb { a: "s", b: "x" })', None),
    "param-type":     (None, ['zz7 :: fn q: int do', 'end', 'zz7(true)']),
    "void-store":     (None, ['zz6 := zvoid()']),
    # mismatches that only show when a generic (un-annotated) function is instantiated at the call
    "generic-add":        ('zgadd(1, "a")', None),
    "generic-tuple-add":  ('zgtup("a", true)', None),
    "generic-tuple-add2": ('zgtup(1, 2.0)', None),
    "generic-tuple-neg":  ('zgneg("a")', None),
    "generic-tuple-cmp":  ('zgcmp(true, false)', None),
    "generic-local-tuple-add": (None, ['zglocal("a")']),
    "generic-tuple-neg-unused": (None, ['zgneg2("a")']),
    # `/` pushed down to tuple components whose type is only known at the call (98fbc93): tuple / scalar, tuple / tuple
    "generic-tuple-div":        ('zgdiv("a")', None),
    "generic-tuple-div-pair-r": ('zgdiv2(1, "a")', None),
    "generic-tuple-div-pair-l": ('zgdiv2(true, 1)', None),
    "generic-tuple-div-unused": (None, ['zgdiv3("a")']),
    "ok:generic-tuple-div":     (None, ['zgdiv(1)', 'zgdiv2(1, 2.0)', 'zgdiv3(1.5)', 'zgdiv((1, 2))']),
    "ret-type":       (None, None),      # needs the slot's return type: see c03_plants
}


def _implicit_kinds():
    """blobs / enums with IMPLICIT type parameters (a field typed `*`, also nested: `[*]`, `fn * -> void`, an enum
    payload `*`): two different instantiations that both went through an annotation of the bare type name meet in
    every unification site.  Must be rejected; the same with one instantiation must be accepted (kind "ok:...")."""
    bad = ['zi1: Zbx : Zbx { v: 1 }', 'zi2: Zbx : Zbx { v: "one" }']
    good = ['zi1: Zbx : Zbx { v: 1 }', 'zi2: Zbx : Zbx { v: 2 }']

    def sites(d):
        return {
            "list":     d + ['zi3 :: [zi1, zi2]'],
            "assign":   [d[0].replace(" : Zbx {", " = Zbx {"), d[1], 'zi1 = zi2'],
            "branch":   d + ['zi3 :: (if true do zi1 else zi2 end)'],
            "arg-pair": d + ['zif :: fn p: Zbx, q: Zbx do', '    zl :: [p, q]', 'end', 'zif(zi1, zi2)'],
            "arg-use":  [d[1], 'zig :: fn p: Zbx -> int do', '    p.v + 1', 'end', 'zig(zi2)'],
            "return":   d + ['zir :: fn b: bool -> Zbx do', '    if b do', '        ret zi1', '    end', '    ret zi2', 'end'],
            "equ":      d + ['zi1 == zi2'],
            "field":    d + ['zo1 :: Zbo { inner: zi1 }', 'zo2 :: Zbo { inner: zi2 }', 'zi3 :: [zo1, zo2]'],
            "use-after": d + ['zi3 :: [zi1, zi2]', 'zi2.v + 1'],
        }
    out = {}
    for k, v in sites(bad).items():
        out["implicit-" + k] = (None, v)
    for k, v in sites(good).items():
        out["ok:implicit-" + k] = (None, v)
    hf = 'h: fn x: int do end'
    out["implicit-nested-list"] = (None, ['zj1: Zbn : Zbn { l: [1], %s }' % hf, 'zj2: Zbn : Zbn { l: ["s"], %s }' % hf, 'zj3 :: [zj1, zj2]'])
    out["implicit-nested-fn"] = (None, ['zj1: Zbn : Zbn { l: [1], %s }' % hf, 'zj2: Zbn : Zbn { l: [2], h: fn x: str do end }', 'zj3 :: [zj1, zj2]'])
    out["ok:implicit-nested"] = (None, ['zj1: Zbn : Zbn { l: [1], %s }' % hf, 'zj2: Zbn : Zbn { l: [2], %s }' % hf, 'zj3 :: [zj1, zj2]'])
    out["implicit-enum-payload"] = (None, ['ze1: Zex : Zex.Wrap 1', 'ze2: Zex : Zex.Wrap "s"', 'ze3 :: [ze1, ze2]'])
    out["ok:implicit-enum-payload"] = (None, ['ze1: Zex : Zex.Wrap 1', 'ze2: Zex : Zex.Wrap 2', 'ze3 :: [ze1, ze2, Zex.Nil2]'])
    return out


C03_KINDS.update(_implicit_kinds())
C03_KINDS.update({
    # `-` and `*` on tuples follow the rules of `-` and `*` component by component (not those of `+`: strings add, they do
    # not subtract or multiply), also one level down, in compound assignments and when the component is only known at a call
    "tuple-sub-str":        ('(("a", 1) - ("b", 2))', None),
    "tuple-mul-str-nested": ('((1.0, (2, "two")) * (3.0, (4, "four")))', None),
    "tuple-sub-bool":       ('((true, 1) - (false, 2))', None),
    "tuple-sub-assign":     (None, ['zt1 := ("b", 2)', 'zt1 -= ("a", 1)']),
    "tuple-mul-assign":     (None, ['zt2 := (1, "x")', 'zt2 *= (2, "y")']),
    "generic-tuple-sub":    (None, ['zts :: fn p, q -> do', '    (p, 1) - (q, 2)', 'end', 'zts("a", "b")']),
    "generic-tuple-mul":    (None, ['ztm :: fn p, q -> do', '    (p, 1) * (q, 2)', 'end', 'ztm("a", "b")']),
    "ok:tuple-sub-mul":     (None, ['zt3 :: (1, 2.0) - (3, 4.0)', 'zt4 :: (1, (2, 3)) * (4, (5, 6))', 'zt5 :: ("a", 1) + ("b", 2)']),
})
C03_KINDS.update({
    # an if / case expression one of whose branches ends without a value has no value (2b939af): using it is a mismatch
    "valueless-else":      (None, ['zv1 := 0', 'zv2 := if false do', '    1', 'else do', '    zv1 = 2', 'end', 'zv2 + 1']),
    "valueless-then":      (None, ['zv1 := 0', 'zv2 := if true do', '    zv1 = 2', 'else do', '    1', 'end', 'zv2 + 1']),
    "valueless-elif":      (None, ['zv2 := if true do', '    1', 'elif false do', '    zq :: 3', 'else do', '    2', 'end']),
    "valueless-fn-ret":    (None, ['zvf :: fn c: bool -> int do', '    if c do', '        1', '    else do', '        zq :: 2', '    end', 'end']),
    "valueless-case-arm":  (None, ['zv3 := case ZEV do', '    P x -> zq :: x end', '    Q -> 1 end', 'end']),
    "valueless-case-else": (None, ['zv3 := case ZEV do', '    P x -> x end', '    else zq :: 1 end', 'end']),
    "valueless-arg":       (None, ['zimp(if true do', '    1', 'else do', '    zq :: 2', 'end)']),
    "ok:valueless-valued": (None, ['zv2 := if true do', '    1', 'else do', '    zq :: 2', '    3', 'end', 'zv2 + 1']),
    "ok:valueless-unused": (None, ['if true do', '    1', 'else do', '    zq :: 2', 'end']),
    "ok:valueless-ret-branch": (None, ['zvf :: fn c: bool -> int do', '    if c do', '        1', '    else do', '        ret 2', '    end', 'end']),
    "ok:valueless-case-valued": (None, ['zv3 := case ZEV do', '    P x -> x end', '    else 1 end', 'end', 'zv3 + 1']),
})
C03_KINDS.update({
    # a branch whose LAST statement is a nested `do ... end` block ends without a value, whatever the block ends in
    "valueless-nested-block":      (None, ['zv2 := if false do', '    1', 'else do', '    do', '        2', '    end', 'end', 'zv2 + 1']),
    "valueless-nested-block-then": (None, ['zv2 := if true do', '    do', '        2', '    end', 'else do', '    1', 'end', 'zv2 + 1']),
    "valueless-nested-block-deep": (None, ['zv2 := if false do', '    1', 'else do', '    do', '        do', '            2', '        end',
                                           '    end', 'end', 'zv2 + 1']),
    "valueless-nested-block-case": (None, ['zv3 := case ZEV do', '    P x ->', '        do', '            x', '        end', '    end',
                                           '    Q -> 1 end', 'end', 'zv3 + 1']),
    "valueless-nested-block-fn":   (None, ['zvf :: fn c: bool -> int do', '    if c do', '        1', '    else do', '        do',
                                           '            2', '        end', '    end', 'end']),
    "valueless-nested-block-arg":  (None, ['zimp(if true do', '    1', 'else do', '    do', '        2', '    end', 'end)']),
    "ok:valueless-nested-unused":  (None, ['if true do', '    1', 'else do', '    do', '        2', '    end', 'end']),
    "ok:valueless-nested-valued":  (None, ['zv2 := if true do', '    1', 'else do', '    do', '        zq :: 2', '    end', '    3', 'end',
                                           'zv2 + 1']),
    # ordering of tuples of different lengths (all four operators; directly, nested and through generic helpers)
    "tuple-cmp-length-lt":      ('((1, 2, 3) < (1, 2))', None),
    "tuple-cmp-length-gt":      ('((1, 2) > (1, 2, 3))', None),
    "tuple-cmp-length-le":      ('((1, 2, 3) <= (1, 2))', None),
    "tuple-cmp-length-ge":      ('((1, 2) >= (1, 2, 3))', None),
    "tuple-cmp-length-nested":  ('(((1, 2, 3), 1) < ((1, 2), 1))', None),
    "tuple-cmp-length-var":     (None, ['zt1 :: (1, 2, 3)', 'zt2 :: (1, 2)', 'zt1 > zt2']),
    "tuple-cmp-component":      ('((1, "a") < (1, 2))', None),
    "generic-tuple-cmp-length":   ('zglt((1, 2, 3), (1, 2))', None),
    "generic-tuple-cmp-length-gt": ('zggt((1, 2), (1, 2, 3))', None),
    "generic-tuple-cmp-length2":  ('zgcmp((1, 2), (1, 2, 3))', None),
    "ok:generic-tuple-cmp":     (None, ['(1, 2) < (1, 3)', '(1, 2.5) > (1, 3)', '(1, 2) >= (1, 3)', 'zglt((1, 2), (3, 4))', 'zglt(1, 2.0)', 'zggt("a", "b")']),
})
C03_KINDS.update({
    # a tuple type that would contain itself (occurs check, 1d60c01); lists in between are allowed
    "cyclic-tuple-assign":  (None, ['zcy :: fn x do', '    y := x', '    y = (y, 1)', 'end']),
    "cyclic-tuple-used":    (None, ['zcy :: fn x do', '    y := x', '    y = (y, 1)', '    z := y + y', 'end']),
    "cyclic-tuple-mutual":  (None, ['zcy :: fn a, b do', '    p := a', '    q := b', '    p = (q, 1)', '    q = (p, 2)', 'end']),
    "cyclic-tuple-equ":     (None, ['zcy :: fn v do', '    b := v == (v, 1)', 'end']),
    "cyclic-tuple-nested":  (None, ['zcy :: fn x do', '    y := x', '    y = ((y, 2), 1)', 'end']),
    "cyclic-tuple-list":    (None, ['zcy :: fn x do', '    y := x', '    zl :: [y, (y, 1)]', 'end']),
    "cyclic-tuple-ret":     (None, ['zcy :: fn x -> do', '    if false do', '        ret (x, 1)', '    end', '    x', 'end']),
    # the result of dividing a tuple unified with a component of the dividend (356c2fa: `/` was the one operator whose
    # constraint solving could grow a type; before the fix a native stack overflow)
    "cyclic-tuple-div":     (None, ['zcy :: fn u do', '    a := (u, 1.0)', '    c := a / 2.0', '    zl :: [u, c]', 'end']),
    "cyclic-tuple-div-tuple": (None, ['zcy :: fn u do', '    a := (u, 1.0)', '    c := a / (2.0, 2.0)', '    zl :: [u, c]', 'end']),
    "cyclic-tuple-div-assign": (None, ['zcy :: fn u do', '    a := (u, 1.0)', '    c := a / 2.0', '    w := u', '    w = c', 'end']),
    "cyclic-tuple-div-nested": (None, ['zcy :: fn u do', '    a := ((u, 2.0), 1.0)', '    c := a / 2.0', '    zl :: [u, c]', 'end']),
    "ok:tuple-div-unknown": (None, ['zcy :: fn u do', '    a := (u, 1.0)', '    c := a / 2.0', '    zl :: [c, c]', 'end']),
    "ok:cyclic-through-list": (None, ['zcy :: fn x do', '    y := x', '    y = [(y, 1)]', 'end']),
    "ok:cyclic-list":       (None, ['zcy :: fn x do', '    y := x', '    y = [y]', 'end']),
    "ok:tuple-reassigned":  (None, ['zcy :: fn x do', '    y := (x, 1)', '    y = (x, 2)', '    z := y + y', 'end']),
})
C03_KINDS.update({
    # `self` inside a method has the type of the instance being created (6a11bb8)
    "self-field-add":      (None, ['zs5 :: Zs { n: 1, get: fn -> int do self.n + "a" end }']),
    "self-field-assign":   (None, ['zs5 :: Zs { n: 1, get: fn -> int do', '    self.n = "a"', '    1', 'end }']),
    "self-field-ret":      (None, ['zs5 :: Zs { n: 1, get: fn -> str do self.n end }']),
    "self-field-nested":   (None, ['zs5 :: Zs { n: 1, get: fn -> int do', '    zg :: fn -> int do', '        zh :: fn -> int do self.n + "a" end',
                                   '        zh()', '    end', '    zg()', 'end }']),
    "self-field-arg":      (None, ['zs5 :: Zs { n: 1, get: fn -> int do', '    zimp(self.get)', 'end }']),
    "ok:self-field-add":   (None, ['zs5 :: Zs { n: 1, get: fn -> int do self.n + 1 end }']),
    "ok:self-field-assign": (None, ['zs5 :: Zs { n: 1, get: fn -> int do', '    self.n = 2', '    zimp(self.n)', 'end }']),
    "ok:self-field-nested": (None, ['zs5 :: Zs { n: 1, get: fn -> int do', '    zg :: fn -> int do', '        zh :: fn -> int do self.n + 1 end',
                                    '        zh()', '    end', '    zg()', 'end }']),
})
C03_KINDS.update({
    # compound assignment on a type without that operator, also with the SAME variable on both sides
    "compound-self-bool-add": (None, ['zc1 := true', 'zc1 += zc1']),
    "compound-self-str-sub":  (None, ['zc2 := "s"', 'zc2 -= zc2']),
    "compound-self-str-mul":  (None, ['zc2 := "s"', 'zc2 *= zc2']),
    "compound-self-bool-div": (None, ['zc6 := true', 'zc6 /= zc6']),
    "compound-str-sub":       (None, ['zc3 := "s"', 'zc3 -= "b"']),
    "compound-str-mul":       (None, ['zc4 := "s"', 'zc4 *= "b"']),
    "compound-str-div":       (None, ['zc7 := "s"', 'zc7 /= "b"']),
    "compound-bool-add":      (None, ['zc5 := true', 'zc5 += false']),
    "compound-bool-sub":      (None, ['zc5 := true', 'zc5 -= false']),
    "compound-field-self":    (None, ['zc8 := Zb { a: 1, b: "x" }', 'zc8.b -= zc8.b']),
    "compound-field":         (None, ['zc8 := Zb { a: 1, b: "x" }', 'zc8.b *= "y"']),
    "compound-captured-self": (None, ['zc9 := "s"', 'zf9 :: fn do', '    zc9 -= zc9', 'end']),
    "compound-captured":      (None, ['zc9 := true', 'zf9 :: fn do', '    zc9 += true', 'end']),
    "compound-global-self":   (None, ['zmb -= zmb']),
})


C03_KINDS.update({
    # a generic helper whose body needs an operator / a field of its parameter, instantiated at a type that does not have it
    # through NESTED unification only: passed as a higher-order argument, inside a tuple / a blob field / a list, bound to an
    # annotated variable, returned (the deferred constraint sits on a variable inside the function type)
    "generic-hof-neg":        ('ztwice(zgneg1, "ab")', None),
    "generic-hof-lambda":     ('ztwice(fn x -> do (-x) end, "ab")', None),
    "generic-hof-tuple":      ('zrunt((zgbump, 0))', None),
    "generic-hof-blob-field": ('zrunb(Zhf { h: zgneg1 })', None),
    "generic-hof-list":       (None, ['zhl1: [fn str -> str] : [zgneg1]']),
    "generic-hof-var":        (None, ['zhv1: fn str -> str : zgneg1']),
    "generic-hof-ret":        (None, ['zhr1 :: fn -> fn str -> str do', '    zgneg1', 'end']),
    "generic-hof-assign":     (None, ['zhv2 := zgdbl', 'zhv3: fn str -> str = zhv2', 'zhv3 = zgneg1']),
    "generic-hof-tuple-var":  (None, ['zht1: (fn Zb -> int, int) : (zgbump, 0)']),
    "ok:generic-hof":         (None, ['ztwice(zgdbl, "ab") <=> "abababab"', 'zrunt((zgbumpa, 0)) <=> 2', 'zrunb(Zhf { h: zgdbl }) <=> "abab"',
                                      'zhl1: [fn str -> str] : [zgdbl]', 'zhv1: fn str -> str : zgdbl']),
})


def c03_plants(tmpl, kinds=None):
    """[(kind, 'S'|'E', slot id, info, payload)] -- every placement of every mismatch kind"""
    out = []
    ss = slots(tmpl, "S")
    es = slots(tmpl, "E")
    for k, (ex, st) in C03_KINDS.items():
        if kinds and k not in kinds:
            continue
        if ex:
            for i, info in es:
                d = info_dict(info)
                if d.get("pure") == "1" and (k in ("arity", "arg-type") or k.startswith("generic")):
                    continue        # calling an impure function in a pure function is rejected for another reason
                out.append((k, "E", i, info, ex))
            for i, info in ss:
                d = info_dict(info)
                if d["where"] == "global":
                    continue
                if d.get("pure") == "1" and (k in ("arity", "arg-type") or k.startswith("generic")):
                    continue
                out.append((k, "S", i, info, [ex]))       # unused expression statement
        if st:
            for i, info in ss:
                d = info_dict(info)
                if d["where"] == "global":
                    if k in ("var-type", "var-type-const"):
                        out.append((k, "S", i, info, st))
                    continue
                if d.get("pure") == "1" and (k in ("loop-cond", "assign-type", "void-store", "param-type", "var-type")
                                             or k.startswith("compound") or "generic" in k
                                             or "implicit" in k or "valueless" in k or "self-" in k or "cyclic" in k or k in ("ok:tuple-reassigned", "ok:tuple-div-unknown")):
                    continue        # mutable definitions / impure calls are rejected in pure functions anyway
                out.append((k, "S", i, info, st))
        if k == "ret-type":
            for i, info in ss:
                d = info_dict(info)
                if d["where"] == "global" or d.get("ret") in (None, "-"):
                    continue
                rt = d["ret"]
                bad = '"a"' if rt != "str" else "1"
                out.append((k, "S", i, info, ["ret %s" % bad]))
    return out + after_terminator(out, kinds)


# statements that follow a `ret` / `break` / `continue` in the same block are checked like any other statement
TERMINATORS = {
    # name: (lines before, lines after, indentation of the planted lines, needs an impure position)
    "after-ret":        (['zaf :: fn do', '    ret'], ['end'], "    "),
    "after-ret-value":  (['zaf :: fn -> int do', '    ret 1'], ['    2', 'end'], "    "),
    "after-ret-branch": (['zaf :: fn do', '    if true do', '        ret'], ['    end', 'end'], "        "),
    "after-break":      (['loop true do', '    break'], ['end'], "    "),
    "after-continue":   (['loop false do', '    continue'], ['end'], "    "),
    "after-break-case": (['loop true do', '    case ZEV do', '        P zx ->', '            break'], ['        end', '        else end', '    end', '    break', 'end'],
                         "            "),
}


def after_terminator(plants, kinds=None, per=2):
    """for every kind and payload of the statement plants: the same statements placed AFTER a ret / break / continue of
    the same block (inside a fresh local function or loop, so that the terminator itself is legal), at `per` of the
    positions.  The kind is `<kind>@<terminator>`; positive controls (`ok:`) stay positive controls."""
    import random
    groups = {}
    for p in plants:
        if p[1] != "S" or p[0] == "ret-type" or "@" in p[0]:
            continue
        groups.setdefault((p[0], tuple(p[4])), []).append(p)
    rr = random.Random(7919 * len(plants) + len(groups))
    out = []
    for (k, pay), ps in sorted(groups.items()):
        for w, (pre, post, ind) in TERMINATORS.items():
            if w.startswith(("after-break", "after-continue")) and k in ("break-outside", "continue-outside"):
                continue            # the wrapper's loop would make them legal
            name = "%s@%s" % (k, w)
            if kinds and name not in kinds and k not in kinds:
                continue
            for p in rr.sample(ps, min(per, len(ps))):
                out.append((name, "S", p[2], p[3], pre + [ind + l for l in pay] + post))
    return out


C04_KINDS = {
    # constants: any context
    "assign-global-const":  (["ZC = 2"], "any"),
    "assign-const-local":   (["zk1 :: 1", "zk1 = 2"], "any"),
    "assign-const-alias":   (["zk2 :: ZC", "zk2 = 3"], "any"),
    "assign-fn-const":      (["zimp = zimp"], "impure"),
    "assign-param":         (None, "param"),
    "assign-case-binding":  (["case ZEV do", "    P zb1 ->", "        zb1 = 2", "    end", "    else end", "end"], "any"),
    # inside pure functions
    "pure-assign":          (["zm = 2"], "pure"),
    "pure-mut-def":         (["zq1 := 1"], "pure"),
    "pure-read-mut":        (["zq2 :: zm + 1"], "pure"),
    "pure-call-impure":     (["zimp(1)"], "pure"),
    "pure-call-impure-alias": (["zq3 :: zimp", "zq3(1)"], "pure"),
    "pure-call-print":      (["print(1)"], "pure"),
    "pure-nested-closure":  (["zq4 :: fn do", "    zm = 3", "end"], "pure"),
    "pure-nested-branch":   (["if true do", "    if false do", "        zq5 := 2", "    end", "end"], "pure"),
    # a pure closure nested in an IMPURE function reads / captures a mutable local (or parameter-derived mutable) of that
    # function: directly, one pure closure deeper, inside a branch, and through a local alias
    "pure-closure-reads-outer-local":   (["zol := 1", "zpk :: pu -> int do", "    zol", "end", "zol = 2"], "impure"),
    "pure-closure-reads-outer-nested":  (["zol := 1", "zpk :: pu -> int do", "    zin :: pu -> int do", "        if true do", "            ret zol", "        end",
                                          "        0", "    end", "    zin()", "end"], "impure"),
    "pure-closure-reads-outer-expr":    (["zol := 1", "zpk :: pu x: int -> int do", "    x + zol * 2", "end"], "impure"),
    "pure-literal-reads-outer-local":   (["zol := 1", "zpk :: (pu -> int do", "    zol", "end)"], "impure"),
    "ok:pure-closure-reads-outer-const": (["zoc :: 1", "zpk :: pu -> int do", "    zoc", "end", "zpk()"], "impure"),
    # assignments THROUGH a field / an index inside pure functions: of a parameter, of a `::` global, of a case binding,
    # from a closure nested in the pure function; plain and compound (self-contained: the pure function is part of the plant)
    "pure-assign-param-field":     (["zpf :: pu q: Zb -> int do", "    q.a = 2", "    1", "end"], "any"),
    "pure-assign-param-field-op":  (["zpf :: pu q: Zb -> int do", "    q.a += 2", "    1", "end"], "any"),
    "pure-assign-param-index":     (["zpf :: pu q: (int, int) -> int do", "    q[0] = 2", "    1", "end"], "any"),
    "pure-assign-param-index-op":  (["zpf :: pu q: (int, int) -> int do", "    q[1] *= 2", "    1", "end"], "any"),
    "pure-assign-param-nested-field": (["zpf :: pu q: Zbo -> int do", "    q.inner.v = 2", "    1", "end"], "any"),
    "pure-assign-global-field":    (["zpf :: pu -> int do", "    ZBV.a = 2", "    1", "end"], "any"),
    "pure-assign-global-index":    (["zpf :: pu -> int do", "    ZT[0] = 2", "    1", "end"], "any"),
    "pure-assign-case-binding-field": (["zpf :: pu q: Zo(Zb) -> int do", "    case q do", "        Som zb1 ->", "            zb1.a = 2", "        end",
                                        "        else end", "    end", "    1", "end"], "any"),
    "pure-assign-field-in-closure": (["zpf :: pu q: Zb -> int do", "    zin :: fn do", "        q.a = 3", "    end", "    1", "end"], "any"),
    "pure-assign-field-in-branch": (["zpf :: pu q: Zb -> int do", "    if true do", "        loop false do", "            q.b = \"y\"", "        end",
                                     "    end", "    1", "end"], "any"),
    "pure-assign-field-here":      (["ZBV.a = 2"], "pure"),
    "pure-assign-field-here-op":   (["ZBV.a -= 2"], "pure"),
    "pure-assign-index-here":      (["ZT[1] = 2"], "pure"),
    "ok:impure-assign-param-field": (["zpf :: fn q: Zb -> int do", "    q.a = 2", "    q.a += 1", "    1", "end"], "impure"),
    "ok:impure-assign-param-index": (["zpf :: fn q: (int, int) -> int do", "    q[0] = 2", "    q[1] *= 2", "    1", "end"], "impure"),
    "ok:impure-assign-global-field": (["ZBV.a = 2", "ZT[0] = 3"], "impure"),
    "ok:pure-reads-field":         (["zpf :: pu q: Zb -> int do", "    q.a + ZBV.a + ZT[0]", "end"], "any"),
    # a pure function calls its UN-ANNOTATED parameter, an impure function is passed at the call site: directly, and from a
    # nested pure closure in a branch of a case (nothing is known of the callee where it is called)
    "pure-call-unannotated-param": (["zpa :: pu f, x: int -> int do", "    f(x)", "end", "zpa(zimp, 1)"], "impure"),
    "pure-call-unannotated-nested": (["zpa :: pu f, q: Ze -> int do", "    case q do", "        P v ->", "            zin :: pu y: int -> int do",
                                      "                if y > 0 do", "                    ret f(y) + y", "                end", "                0",
                                      "            end", "            zin(v)", "        end", "        Q ->", "            0", "        end", "    end", "end",
                                      "zpa(zimp, ZEV)"], "impure"),
    "pure-call-unannotated-closure": (["zpa :: pu f -> int do", "    zin :: pu -> int do", "        f(1)", "    end", "    zin()", "end", "zpa(zimp)"], "impure"),
    # impure where pu declared
    "impure-as-pu-var":     (["zq6: pu int -> int : zimp"], "any"),
    "impure-as-pu-arg":     (["ztakes_pu(zimp)"], "impure"),
    "impure-lambda-as-pu":  (["zq7: pu int -> int : fn x: int -> int do", "    x", "end"], "any"),
    "impure-laundered":     (["zq8: fn int -> int : zimp", "ztakes_pu(zq8)"], "impure"),
}


def c04_plants(tmpl, kinds=None):
    out = []
    for i, info in slots(tmpl, "S"):
        d = info_dict(info)
        if d["where"] == "global":
            continue
        for k, (st, where) in C04_KINDS.items():
            if kinds and k not in kinds:
                continue
            pure = d.get("pure") == "1"
            if where == "pure" and not pure:
                continue
            if where == "impure" and pure:
                continue
            if k == "assign-param":
                ps = [p for p in d.get("params", "").split(",") if p]
                if not ps:
                    continue
                name, pty = ps[0].split(":", 1)
                val = {"int": "1", "float": "1.0", "str": '"s"', "bool": "true"}.get(pty)
                if val is None:
                    val = name
                out.append((k, "S", i, info, ["%s = %s" % (name, val)]))
                continue
            out.append((k, "S", i, info, st))
    return out + after_terminator(out, kinds)


def closed_expr(t, g, r, d=0):
    """an expression of type t built from literals only"""
    if t == INT:
        return str(r.randint(0, 9))
    if t == FLOAT:
        return "%d.5" % r.randint(0, 9)
    if t == STR:
        return '"%s"' % r.choice(["a", "b", ""])
    if t == BOOL:
        return r.choice(["true", "false"])
    if t[0] == "tup":
        if len(t[1]) == 1:
            return "(%s,)" % closed_expr(t[1][0], g, r, d + 1)
        return "(" + ", ".join(closed_expr(x, g, r, d + 1) for x in t[1]) + ")"
    if t[0] == "list":
        return "[%s]" % closed_expr(t[1], g, r, d + 1)
    if t[0] == "blob":
        return "%s { %s }" % (t[1], ", ".join("%s: %s" % (f, closed_expr(ft, g, r, d + 1)) for f, ft in g.blobs[t[1]]))
    if t[0] == "enum":
        v, vt = g.enums[t[1]][0]
        return "%s.%s" % (t[1], v) if vt is None else "(%s.%s %s)" % (t[1], v, closed_expr(vt, g, r, d + 1))
    if t[0] == "fn":
        ps = ", ".join("q%d: %s" % (i, ty_str(a)) for i, a in enumerate(t[1]))
        head = ("pu" if t[3] else "fn") + (" " + ps if ps else "")
        if t[2] == VOID:
            return "%s do end" % head
        return "%s -> %s do %s end" % (head, ty_str(t[2]), closed_expr(t[2], g, r, d + 1))
    raise ValueError(t)


def c05_plants(tmpl, g, r, kinds=None):
    """shape-rule violations; uses the program's own random blob / enum declarations as well as Zb / Ze"""
    ex = {}     # kind -> list of expressions
    st = {}     # kind -> list of statement lists
    blobs = dict(g.blobs)
    blobs["Zb"] = [("a", INT), ("b", STR)]
    enums = dict(g.enums)
    enums["Ze"] = [("P", INT), ("Q", None)]

    class _Decls:
        pass
    g = _Decls()
    g.blobs, g.enums = blobs, enums
    for bn in sorted(blobs):
        fs = blobs[bn]
        inits = ["%s: %s" % (f, closed_expr(ft, g, r)) for f, ft in fs]
        drop = r.randrange(len(fs))
        ex.setdefault("blob-missing-field", []).append("(%s { %s })" % (bn, ", ".join(x for j, x in enumerate(inits) if j != drop)))
        ex.setdefault("blob-unknown-field", []).append("(%s { %s })" % (bn, ", ".join(inits + ["nope_field: 1"])))
        ex.setdefault("blob-absent-access", []).append("(%s { %s }).nope_field" % (bn, ", ".join(inits)))
        st.setdefault("blob-absent-access", []).append(["zs1 :: %s { %s }" % (bn, ", ".join(inits)), "zs1.nope_field"])
    for en in sorted(enums):
        vs = enums[en]
        ex.setdefault("enum-unknown-variant", []).append("(%s.Nope 1)" % en)
        ex.setdefault("enum-unknown-variant", []).append("%s.Nope" % en)
        val = closed_expr(("enum", en), g, r)
        st.setdefault("case-unknown-variant", []).append(["case %s do" % val, "    Nope -> end", "    else end", "end"])
        if len(vs) >= 2:
            arms = ["    %s -> end" % v for v, _ in vs[:-1]]
            st.setdefault("case-missing-arm", []).append(["case %s do" % val] + arms + ["end"])
        arms = ["    %s -> end" % v for v, _ in vs] + ["    Nope -> end"]
        st.setdefault("case-extra-arm", []).append(["case %s do" % val] + arms + ["end"])
        if len(vs) >= 2:
            first = "    %s -> end" % vs[0][0]
            most = ["    %s -> end" % v for v, _ in vs[:-1]]
            # as many arms as variants, one variant missing (an arm is repeated)
            st.setdefault("case-dup-missing", []).append(["case %s do" % val] + most + [first] + ["end"])
            # more arms than variants, one variant still missing
            st.setdefault("case-dup-more", []).append(["case %s do" % val] + most + [first, first] + ["end"])
            # the same through an un-annotated parameter: the enum is only known at the call site
            st.setdefault("case-dup-missing-param", []).append(
                ["zcf :: fn zs do", "    case zs do"] + ["    " + a for a in most + [first]] + ["    end", "end", "zcf(%s)" % val])
            last = closed_expr(("enum", en), g, r) if False else val
        # every variant covered plus a duplicate: must still be ACCEPTED (positive control, kind prefix "ok:")
        allarms = ["    %s -> end" % v for v, _ in vs]
        st.setdefault("ok:case-dup-total", []).append(["case %s do" % val] + allarms + [allarms[0]] + ["end"])
        st.setdefault("ok:case-dup-total-param", []).append(
            ["zcg :: fn zs do", "    case zs do"] + ["    " + a for a in allarms + [allarms[-1]]] + ["    end", "end", "zcg(%s)" % val])
    # break / continue in the CONDITION of a loop (a loop condition is not part of any loop body: fcfe8d3); the slots inside
    # loop bodies give the nested form, where the statement used to be taken for the enclosing loop
    st["loop-cond-break"] = [['loop (if true do', '    break', 'else do', '    false', 'end) do', '    break', 'end'],
                             ['loop true do', '    loop (if true do', '        break', '    else do', '        false', '    end) do',
                              '        break', '    end', '    break', 'end'],
                             ['loop true do', '    loop (case ZEV do', '        P x -> break end', '        else false end', '    end) do',
                              '        break', '    end', '    break', 'end']]
    st["loop-cond-continue"] = [['loop (if false do', '    continue', 'else do', '    false', 'end) do', '    break', 'end'],
                                ['loop true do', '    loop (if false do', '        continue', '    else do', '        false', '    end) do',
                                 '        break', '    end', '    break', 'end']]
    st["ok:loop-body-break"] = [['loop true do', '    loop (if true do', '        true', '    else do', '        false', '    end) do',
                                 '        break', '    end', '    break', 'end']]
    # a field the blob does not have, reached through `self` in a method (6a11bb8), also from closures nested in the method
    hd = 'zs5 :: Zs { n: 1, get: fn -> int do'
    st["self-absent-field"] = [['zs5 :: Zs { n: 1, get: fn -> int do self.nope_field end }'],
                               [hd, '    self.nope_field', 'end }'],
                               [hd, '    zg :: fn -> int do self.nope_field end', '    zg()', 'end }'],
                               [hd, '    zg :: fn -> int do', '        zh :: fn -> int do self.nope_field end', '        zh()', '    end',
                                '    zg()', 'end }'],
                               [hd, '    self.nope_field = 2', '    1', 'end }'],
                               [hd, '    if self.n == 0 do', '        ret self.nope_field', '    end', '    1', 'end }']]
    st["ok:self-present-field"] = [['zs5 :: Zs { n: 1, get: fn -> int do self.n + 1 end }'],
                                   [hd, '    zg :: fn -> int do', '        zh :: fn -> int do self.n + 1 end', '        zh()', '    end',
                                    '    zg()', 'end }'],
                                   [hd, '    self.n = 2', '    1', 'end }']]
    # a field the blob does not have, read from a value whose type is still UNKNOWN where the access is written and becomes
    # known later: a method written BEFORE the field it reads through `self`; an un-annotated parameter annotated / passed /
    # stored / assigned afterwards
    st["late-absent-field"] = [['zo5 :: Zout { get: fn -> int do', '    self.child.nope_field', 'end, child: Zin { v: 1 } }'],
                               ['zo5 :: Zout { child: Zin { v: 1 }, get: fn -> int do', '    self.child.nope_field', 'end }'],
                               ['zo5 :: Zout { get: fn -> int do', '    zg :: fn -> int do self.child.nope_field end', '    zg()',
                                'end, child: Zin { v: 1 } }'],
                               ['zlf :: fn p do', '    zq :: p.nope_field', '    zr: Zb : p', 'end'],
                               ['zlf :: fn p do', '    zq :: p.nope_field', '    ztakesb(p)', 'end'],
                               ['zlf :: fn p do', '    zq :: p.nope_field', '    zl :: [p, ZBV]', 'end'],
                               ['zlf :: fn p do', '    zq :: p.nope_field', '    p == ZBV', 'end'],
                               ['zlf :: fn p, q do', '    zq :: p.child.nope_field', '    zr: Zout : p', 'end'],
                               ['zlf :: fn p do', '    zq :: p.nope_field', 'end', 'zlf(ZBV)']]
    st["ok:late-present-field"] = [['zo5 :: Zout { get: fn -> int do', '    self.child.v', 'end, child: Zin { v: 1 } }'],
                                   ['zlf :: fn p do', '    zq :: p.a', '    zr: Zb : p', 'end'],
                                   ['zlf :: fn p do', '    zq :: p.b', '    ztakesb(p)', '    zl :: [p, ZBV]', 'end'],
                                   ['zlf :: fn p do', '    zq :: p.a', 'end', 'zlf(ZBV)']]
    # the name of a blob / an enum is a type, it has no value (9c09349)
    tnames = ["Zb", "Ze", "Zg", "Zx", "Zbx"] + sorted(g.blobs)[:2] + sorted(g.enums)[:2]
    ex["type-name-as-value"] = list(dict.fromkeys(tnames))
    st["type-name-as-value"] = [["zt1 := Zb"], ["zt1 :: Ze"], ["Zb.a = 3"], ["zt5 :: Zb.a + 1"], ["zimp(Zb)"], ["print(Ze)"],
                                ["zt2 :: [Zb]"], ["zt3 :: (Ze, 1)"], ["zt4 :: Zb == Zb"], ["zt6 :: fn -> do", "    Zb", "end"],
                                ["zt7: Zb : Zb"], ["case Ze do", "    P x -> end", "    else end", "end"]]
    st["ok:type-name-as-type"] = [['zt1 :: Zb { a: 1, b: "x" }', 'zt2 :: Ze.P 1', 'zt3: Zb : zt1', 'zt4: Ze : Ze.Q',
                                   'zt5 :: fn q: Zb -> Ze do', '    Ze.Q', 'end', 'zt6 :: zt1.a + 1']]
    ex["tuple-index-range"] = ["ZT[2]", "(1, 2, 3)[7]"]
    st["tuple-length"] = [["zs2: (int, int) = (1, 2, 3)"], ["zs3 := (1, 2)", "zs3 = (1, 2, 3)"]]
    ex["tuple-length"] = ["((1, 2) == (1, 2, 3))", "((1, 2, 3) < (1, 2))", "((1, 2) > (1, 2, 3))", "((1, 2, 3) <= (1, 2))",
                          "((1, 2) >= (1, 2, 3))", "((1, 2) != (1, 2, 3))", "zglt((1, 2, 3), (1, 2))", "zggt((1, 2), (1, 2, 3))"]
    st["ok:tuple-same-length"] = [["(1, 2) < (1, 3)", "zglt((1, 2), (3, 4))", "zggt(1, 2)", "zs3 :: (1, 2)", "zs3 == (3, 4)"]]
    ex["externblob-inst"] = ["(Zx { a: 1 })"]
    out = []
    ss = slots(tmpl, "S")
    es = slots(tmpl, "E")
    for k in sorted(set(ex) | set(st) | {"break-outside", "continue-outside"}):
        if kinds and k not in kinds:
            continue
        for e in ex.get(k, []):
            impure_call = "zglt(" in e or "zggt(" in e
            for i, info in es:
                if impure_call and info_dict(info).get("pure") == "1":
                    continue
                out.append((k, "E", i, info, e))
            for i, info in ss:
                d = info_dict(info)
                if d["where"] != "global" and not (impure_call and d.get("pure") == "1"):
                    out.append((k, "S", i, info, [e]))
        for s in st.get(k, []):
            for i, info in ss:
                d = info_dict(info)
                if d["where"] == "global":
                    continue
                if d.get("pure") == "1" and any(":=" in l or "zcf" in l or "zcg" in l or "zlf" in l or "self." in l or "zglt(" in l or "zggt(" in l or "zimp(" in l or "print(" in l
                                             for l in s):
                    continue        # mutable definitions / calls of impure local functions are rejected in pure functions anyway
                out.append((k, "S", i, info, s))
        if k in ("break-outside", "continue-outside"):
            word = k.split("-")[0]
            for i, info in ss:
                d = info_dict(info)
                if d["where"] == "global" or d.get("loop") == "1":
                    continue
                # loop=0: not inside a loop of the same function (encl=1: a loop of an enclosing function)
                out.append((k, "S", i, info, [word]))
    return out + after_terminator(out, kinds)


def start_variants(base):
    """programs without a proper `start :: fn -> void` in the main file (C05 entry-point rule)"""
    out = []
    i = base.rfind("start :: fn do")
    if i < 0:
        return out
    out.append(("no-start", base[:i] + "zstart :: fn do" + base[i + len("start :: fn do"):]))
    out.append(("start-with-param", base[:i] + "start :: fn zarg: int do" + base[i + len("start :: fn do"):]))
    out.append(("start-not-fn", base[:i] + "zstart :: fn do" + base[i + len("start :: fn do"):] + "start :: 1\n"))
    out.append(("start-returns", base[:i] + "zstart :: fn do" + base[i + len("start :: fn do"):] + "start :: fn -> int do\n    1\nend\n"))
    return out


def multi_file_blob_cases(r, n=12):
    """[(description, main source, {path: source}, must_be_rejected)]: two modules each declare a blob of the SAME
    name with different (or equal) field sets; a value of one is passed where the other is declared"""
    out = []
    names = ["Point", "Item", "Cfg"]
    fields = ["x", "y", "z", "w"]
    lit = {"int": "1", "str": '"s"', "float": "1.5", "bool": "true"}
    for _ in range(n):
        bn = r.choice(names)
        fa = r.sample(fields, r.randint(1, 3))
        ta = {f: r.choice(["int", "str", "float", "bool"]) for f in fa}
        mode = r.choice(["extra-field", "missing-field", "retyped-field", "same"])
        fb, tb = list(fa), dict(ta)
        if mode == "extra-field":
            nf = r.choice([f for f in fields if f not in fa])
            fb.append(nf)
            tb[nf] = "int"
        elif mode == "missing-field" and len(fb) > 1:
            fb = fb[:-1]
        elif mode == "retyped-field":
            f0 = r.choice(fb)
            tb[f0] = r.choice([x for x in ["int", "str", "float", "bool"] if x != ta[f0]])
        elif mode == "missing-field":
            mode = "same"
        a = "%s :: blob {\n%s}\norigin :: fn -> %s do\n    %s { %s }\nend\n" % (
            bn, "".join("    %s: %s,\n" % (f, ta[f]) for f in fa), bn, bn, ", ".join("%s: %s" % (f, lit[ta[f]]) for f in fa))
        uses = " ".join("print(p.%s)" % f for f in fb[:1])
        m = ("use a\nprint: fn *X -> void : external\n%s :: blob {\n%s}\nsum :: fn p: %s do\n    %s\nend\nstart :: fn do\n    sum(a.origin())\nend\n"
             % (bn, "".join("    %s: %s,\n" % (f, tb[f]) for f in fb), bn,
                "\n    ".join("print(%s)" % {"int": "p.%s + 1", "float": "p.%s + 1.0", "str": 'p.%s + "s"', "bool": "not p.%s"}[tb[f]] % f
                               for f in fb)))
        out.append(("same-named blob in two modules: " + mode, m, {"/m/a.sy": a}, mode != "same"))
    return out


# ------------------------------------------------------------------------------------------------
# C08: annotation erasure

def annotation_sites(tmpl):
    return slots(tmpl, "A")


def erasure_variants(tmpl, r, max_exhaustive=6, nrandom=24):
    """subsets of annotation sites: all subsets when there are at most max_exhaustive sites, otherwise
    every single site, the full set and random subsets"""
    ids = [i for i, _ in annotation_sites(tmpl)]
    subsets = []
    if len(ids) <= max_exhaustive:
        for m in range(1 << len(ids)):
            subsets.append([ids[j] for j in range(len(ids)) if m >> j & 1])
    else:
        subsets.append([])
        subsets.append(list(ids))
        for i in ids:
            subsets.append([i])
        for _ in range(nrandom):
            subsets.append([i for i in ids if r.random() < 0.5])
    return subsets


# ------------------------------------------------------------------------------------------------
# C02: type perturbations (almost-well-typed programs)

OTHER = {"int": ['"p"', "1.5", "true"], "float": ["2", '"p"', "false"], "str": ["3", "0.5", "true"],
         "bool": ["4", '"p"', "2.5"]}


def perturbations(tmpl, r, n=8):
    """[(description, perturb dict)]: swap the type of one literal"""
    ls = slots(tmpl, "L")
    out = []
    if not ls:
        return out
    for _ in range(n):
        i, t = r.choice(ls)
        out.append(("literal %s -> %s" % (t, "other"), {i: r.choice(OTHER[t])}))
    return out


# ------------------------------------------------------------------------------------------------
# shared by the plug-ins tools/props/c02.py ... c08.py: running the real compiler and the extracted
# type-checker model on the same programs

MAIN = "/m/main.sy"


def case_line(src, std=False, main=MAIN, extra=None):
    import vlib
    parts = ["std" if std else "nostd", main, "%s=%s" % (main, vlib.hexs(src))]
    for p, s in (extra or {}).items():
        parts.append("%s=%s" % (p, vlib.hexs(s)))
    return "\t".join(parts)


def build_model():
    import vlib
    return vlib.build_ocaml("types", "ExtractTypes.v", "types_driver.ml", "typesmodel", includes=["rast_reader.ml"])


def real_verdict(line):
    """compile / compileb / phases-tail line -> ('OK',) | ('ERR', kind, file, line, nerrors, bytes) | ('PANIC', msg) | ('TIMEOUT',)"""
    import vlib
    if line.startswith("OK"):
        return ("OK",)
    if line.startswith("PANIC"):
        try:
            return ("PANIC", vlib.unhex(line[6:]).decode("utf-8", "replace")[:120])
        except ValueError:
            return ("PANIC", line[:80])
    if line.startswith("ERR"):
        parts = line.split(" ")[1:]
        nbytes = None
        if parts and parts[0].startswith("bytes="):
            nbytes = int(parts[0][6:])
            parts = parts[1:]
        if not parts or parts[0] == "EMPTY":
            return ("ERR", "EMPTY", "", 0, 0, nbytes)
        f = parts[0].split("|")
        return ("ERR", f[0], f[1], int(f[2]), len(parts), nbytes)
    return (line.split(" ")[0],)


def _convert_one(l):
    import resolved_io
    if not l.startswith("PH"):
        return ("other", "", "")
    d, tail = resolved_io.parse_phases_line(l)
    if "ordered" not in d:
        return ("not-reached", "", tail)
    try:
        return ("ok", resolved_io.resolved_sexp(d["vars"], d["ordered"]), tail)
    except Exception as e:
        return ("unconvertible", str(e)[:80], tail)


def _convert_all(ph):
    """Rust Debug text -> S-expressions, in parallel (pure Python parsing dominates otherwise)"""
    import concurrent.futures
    import vlib
    if len(ph) < 64:
        return [_convert_one(l) for l in ph]
    with concurrent.futures.ProcessPoolExecutor(max_workers=vlib.NCPU) as ex:
        return list(ex.map(_convert_one, ph, chunksize=max(1, len(ph) // (4 * vlib.NCPU))))


MODEL_CASE_LIMIT = 4.0     # seconds of wall time the extracted model may spend on one case


def _model_shard(exe, cases, limit):
    """one driver process over `cases`; a case that produces no line within `limit` seconds is reported as TIMEOUT
    (the process is killed and restarted on the next case).  The eager-representative union of the model is
    quadratic, so a few very large generated programs take minutes where the real checker takes milliseconds."""
    import os
    import select
    import subprocess
    import time
    import vlib
    out = []
    start = 0
    while start < len(cases):
        path = vlib.tmpfile(".cases")
        with open(path, "w") as f:
            f.write("\n".join(cases[start:]) + "\n")
        p = subprocess.Popen([exe, "id", path], stdout=subprocess.PIPE, stderr=subprocess.DEVNULL)
        buf = b""
        got = 0
        timed_out = False
        deadline = time.time() + limit + 2.0        # start-up allowance for the first case
        try:
            while start + got < len(cases):
                nl = buf.find(b"\n")
                if nl >= 0:
                    out.append(buf[:nl].decode("ascii", "replace"))
                    buf = buf[nl + 1:]
                    got += 1
                    deadline = time.time() + limit
                    continue
                remaining = deadline - time.time()
                if remaining <= 0:
                    timed_out = True
                    break
                r, _, _ = select.select([p.stdout], [], [], remaining)
                if not r:
                    timed_out = True
                    break
                chunk = os.read(p.stdout.fileno(), 65536)
                if not chunk:
                    break           # the process ended (crash) before all cases were answered
                buf += chunk
        finally:
            p.kill()
            p.wait()
            try:
                os.remove(path)
            except OSError:
                pass
        start += got
        if start < len(cases):
            out.append("TIMEOUT" if timed_out else "CRASH")
            start += 1
    return out


def run_model(exe, cases, limit=None):
    import vlib
    lim = limit or MODEL_CASE_LIMIT
    return vlib.sharded(lambda cs: _model_shard(exe, cs, lim), cases)


def tie_cases(exe, cases, chunk=1500):
    """cases: [(label, case_line)].  Runs `phases` (real front end + real type checker) and, for every case that
    reached the type checker, the extracted model on the real compiler's own `vars` + `ordered` dump.
    -> list of dict(label, reached, real, model, agree) in the order of `cases`.  Processed in chunks: the Debug
    dumps of a few thousand programs are several hundred megabytes."""
    out = []
    for i in range(0, len(cases), chunk):
        out.extend(_tie_chunk(exe, cases[i:i + chunk]))
    return out


def _tie_chunk(exe, cases):
    import vlib
    import resolved_io
    lines = [c for _, c in cases]
    ph = vlib.harness("phases", lines)
    sx, idx, out = [], [], []
    conv = _convert_all(ph)
    for i, l in enumerate(ph):
        rec = {"label": cases[i][0], "reached": False, "real": None, "model": None, "agree": None}
        out.append(rec)
        if l.startswith("PANIC"):
            rec["real"] = real_verdict(l)
            continue
        if not l.startswith("PH"):
            rec["real"] = (l[:40],)
            continue
        status, text, tail = conv[i]
        if status == "not-reached":
            rec["real"] = ("not-reached", tail[:60])
            continue
        if status == "unconvertible":       # a construct the shared reader does not know
            rec["real"] = ("unconvertible", text)
            continue
        sx.append(text)
        idx.append(i)
        rec["reached"] = True
        rec["real"] = real_verdict(tail)
    mod = run_model(exe, sx) if sx else []
    need_map = []
    for i, m in zip(idx, mod):
        rec = out[i]
        rec["input_ok"] = True
        if m.endswith(" !INPUT"):
            # NoPanic.input_ok (the hypothesis of C07_checker_no_panic) is false of the real compiler's own dump
            rec["input_ok"] = False
            m = m[:-len(" !INPUT")]
        if m in ("TIMEOUT", "CRASH"):
            # the model did not answer in time: the case is skipped (counted, never taken as agreement)
            rec["model"] = (m,)
            rec["reached"] = False
            rec["real"] = ("model-" + m.lower(),) + tuple(rec["real"])
            continue
        if m.startswith("ERR"):
            f = m.split(" ")[1].split("|")
            rec["model"] = ("ERR", f[0], int(f[1]), int(f[2]))
        else:
            rec["model"] = tuple(m.split(" ")[:2])
        r = rec["real"]
        if r[0] == "OK":
            rec["agree"] = rec["model"][0] == "OK"
        elif r[0] == "ERR":
            rec["agree"] = rec["model"][0] == "ERR" and rec["model"][1] == r[1] and rec["model"][3] == r[3]
            if rec["agree"]:
                need_map.append(i)
        else:
            rec["agree"] = False
        if not rec["input_ok"]:
            # the computable hypothesis of C07_checker_no_panic does not hold of what name resolution produced
            rec["agree"] = False
            rec["model"] = tuple(rec["model"]) + ("input_ok=false",)
    # file of the first error: the model reports the file id of the span, the compiler the path
    if need_map:
        tr = vlib.harness("tree", [lines[i] for i in need_map])
        for i, l in zip(need_map, tr):
            rec = out[i]
            if not l.startswith("TREE"):
                continue
            s = vlib.unhex(l[5:]).decode("utf-8", "replace")
            ids = {int(b): a for a, b in re.findall(r"\(module (\S+) (\d+)", s)}
            name = ids.get(rec["model"][2], "?")
            name = name[5:] if name.startswith("file:") else name
            if name != rec["real"][2]:
                rec["agree"] = False
                rec["model"] = rec["model"] + ("file=" + name,)
    return out


# ------------------------------------------------------------------------------------------------
# resolved S-expression (tools/resolved_io.py) -> Coq term of type Syntax.Resolved.resolved, for
# refutation witnesses and Examples in coq/Types/*.v and coq/Props/*.v

def sexp_to_coq(text):
    toks = re.findall(r"\(|\)|[^\s()]+", text)
    pos = [0]

    def parse():
        t = toks[pos[0]]
        pos[0] += 1
        if t == "(":
            items = []
            while toks[pos[0]] != ")":
                items.append(parse())
            pos[0] += 1
            return items
        return t

    def s(a):
        assert a.startswith("s:")
        b = bytes.fromhex(a[2:]) if a[2:] != "-" else b""
        return '"%s"' % b.decode("utf-8").replace('"', '""')

    def lst(x, f):
        assert x[0] == "l"
        return "[" + "; ".join(f(y) for y in x[1:]) + "]"

    def sp(x):
        return "(mkSpan %s %s %s %s %s)" % tuple(x[1:6])

    def opt(x, f):
        return "None" if x == "none" else "(Some %s)" % f(x[1])

    def bl(x):
        return "true" if x == "t" else "false"

    def n(x):
        return "%s%%N" % x

    def ty(x):
        k = x[0]
        if k == "TUser":
            return "(TUser %s %s %s)" % (n(x[1]), lst(x[2], ty), sp(x[3]))
        if k == "TImplied":
            return "(TImplied %s)" % sp(x[1])
        if k == "TResolved":
            return "(TResolved %s %s)" % (x[1], sp(x[2]))
        if k == "TGeneric":
            return "(TGeneric %s %s)" % (s(x[1]), sp(x[2]))
        if k == "TTuple":
            return "(TTuple %s %s)" % (lst(x[1], ty), sp(x[2]))
        if k == "TList":
            return "(TList %s %s)" % (ty(x[1]), sp(x[2]))
        if k == "TFn":
            cons = lst(x[1], lambda c: "(%s, %s)" % (s(c[1]), lst(c[2], lambda tc: "(mkTC %s %s)" % (s(tc[1]), lst(tc[2], s)))))
            return "(TFn %s %s %s %s %s)" % (cons, lst(x[2], ty), ty(x[3]), bl(x[4]), sp(x[5]))
        raise ValueError(k)

    def expr(x):
        k = x[0]
        if k == "ERead":
            return "(ERead %s %s)" % (n(x[1]), sp(x[2]))
        if k == "EVariant":
            return "(EVariant %s %s %s %s)" % (n(x[1]), s(x[2]), expr(x[3]), sp(x[4]))
        if k == "ECall":
            return "(ECall %s %s %s)" % (expr(x[1]), lst(x[2], expr), sp(x[3]))
        if k == "EBlobAccess":
            return "(EBlobAccess %s %s %s)" % (expr(x[1]), s(x[2]), sp(x[3]))
        if k == "EIndex":
            return "(EIndex %s %s %s)" % (expr(x[1]), expr(x[2]), sp(x[3]))
        if k == "EBinOp":
            return "(EBinOp %s %s %s %s)" % (x[1], expr(x[2]), expr(x[3]), sp(x[4]))
        if k == "EUniOp":
            return "(EUniOp %s %s %s)" % (x[1], expr(x[2]), sp(x[3]))
        if k == "EIf":
            return "(EIf %s %s)" % (lst(x[1], lambda b: "(IfBranch %s %s %s)" % (opt(b[1], expr), stmts(b[2]), sp(b[3]))), sp(x[2]))
        if k == "ECase":
            return "(ECase %s %s %s %s)" % (
                expr(x[1]),
                lst(x[2], lambda b: "(CaseBranch %s %s %s %s %s)" % (s(b[1]), sp(b[2]), opt(b[3], n), stmts(b[4]), sp(b[5]))),
                opt(x[3], stmts), sp(x[4]))
        if k == "EFunction":
            ps = lst(x[2], lambda p: "(%s, %s, %s, %s)" % (s(p[1]), n(p[2]), sp(p[3]), ty(p[4])))
            return "(EFunction %s %s %s %s %s %s)" % (s(x[1]), ps, ty(x[3]), stmts(x[4]), bl(x[5]), sp(x[6]))
        if k == "EBlob":
            return "(EBlob %s %s %s %s)" % (n(x[1]), lst(x[2], lambda f: "(%s, %s)" % (s(f[1]), expr(f[2]))), n(x[3]), sp(x[4]))
        if k == "ECollection":
            return "(ECollection %s %s %s)" % (x[1], lst(x[2], expr), sp(x[3]))
        if k == "EFloat":
            return "(EFloat %s %s)" % (s(x[1]), sp(x[2]))
        if k == "EInt":
            return "(EInt (%s)%%Z %s)" % (x[1], sp(x[2]))
        if k == "EStr":
            return "(EStr %s %s)" % (s(x[1]), sp(x[2]))
        if k == "EBool":
            return "(EBool %s %s)" % (bl(x[1]), sp(x[2]))
        if k == "ENil":
            return "(ENil %s)" % sp(x[1])
        raise ValueError(k)

    def fields(x):
        return lst(x, lambda f: "(%s, (%s, %s))" % (s(f[1]), sp(f[2]), ty(f[3])))

    def stmt(x):
        k = x[0]
        if k == "SAssignment":
            return "(SAssignment %s %s %s %s)" % (x[1], expr(x[2]), expr(x[3]), sp(x[4]))
        if k == "SBlob":
            return "(SBlob %s %s %s %s %s %s)" % (s(x[1]), n(x[2]), sp(x[3]), lst(x[4], s), fields(x[5]), bl(x[6]))
        if k == "SEnum":
            return "(SEnum %s %s %s %s %s)" % (s(x[1]), n(x[2]), sp(x[3]), lst(x[4], s), fields(x[5]))
        if k == "SDefinition":
            return "(SDefinition %s %s %s %s %s %s)" % (s(x[1]), n(x[2]), x[3], ty(x[4]), expr(x[5]), sp(x[6]))
        if k == "SExternalDefinition":
            return "(SExternalDefinition %s %s %s %s %s)" % (s(x[1]), n(x[2]), x[3], ty(x[4]), sp(x[5]))
        if k == "SLoop":
            return "(SLoop %s %s %s)" % (expr(x[1]), stmts(x[2]), sp(x[3]))
        if k in ("SBreak", "SContinue", "SUnreachable"):
            return "(%s %s)" % (k, sp(x[1]))
        if k == "SRet":
            return "(SRet %s %s)" % (opt(x[1], expr), sp(x[2]))
        if k == "SBlock":
            return "(SBlock %s %s)" % (stmts(x[1]), sp(x[2]))
        if k == "SStatementExpression":
            return "(SStatementExpression %s %s)" % (expr(x[1]), sp(x[2]))
        raise ValueError(k)

    def stmts(x):
        return lst(x, stmt)

    def var(x):
        return "(mkVar %s %s %s %s %s)" % (n(x[1]), s(x[2]), sp(x[3]), bl(x[4]), x[5])

    root = parse()
    assert root[0] == "resolved"
    return "(mkResolved\n  %s\n  %s)" % (lst(root[1], var), stmts(root[2]))


def source_to_coq(src, std=False):
    """the resolved program the real compiler hands to its type checker, as a Coq term"""
    import vlib
    import resolved_io
    l = vlib.harness("phases", [case_line(src, std)])[0]
    d, tail = resolved_io.parse_phases_line(l)
    return sexp_to_coq(resolved_io.resolved_sexp(d["vars"], d["ordered"])), tail
