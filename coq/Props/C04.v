(* C04 -- Constants are immutable and pure functions stay pure.
   Only pinned statements, `exact`, Examples / refutation witnesses by vm_compute, and Print Assumptions. *)
From Coq Require Import String List NArith ZArith PArith Bool FMapPositive.
From Sylt Require Import Syntax.Resolved Types.TyGraph Types.Tc Types.Ctx Types.TcInv Types.Reject Types.Mismatch Types.Purity Types.Shapes
  Types.SoundE0 Types.SoundE1 Types.PureSem.
Import ListNotations.
Local Open Scope string_scope.

(* const_assign_rejected: an assignment whose target is a variable the resolver marked Const (a `::`
   definition, a parameter, a case binding) is rejected at every statement position, in every TypeCtx,
   every well-formed state and with every fuel. *)
Theorem C04_const_assign_rejected : forall kinds G (PG : gpres G) v op rsp value sp,
  PositiveMap.find (N.succ_pos v) kinds = Some Const ->
  forall f,
    (forall C ctx s, wf s -> is_shole_e C = true ->
       notok (r_expr (afix kinds G f) (plug_e (ERead v rsp) (SAssignment op (ERead v rsp) value sp) C) ctx s)) /\
    (forall C ctx s, wf s -> is_shole_s C = true ->
       notok (r_stmt (afix kinds G f) (plug_s (ERead v rsp) (SAssignment op (ERead v rsp) value sp) C) ctx s)).
Proof. exact Purity.const_assign_rejected. Qed.

(* the kinds table the checker uses is the resolver's variable table *)
Theorem C04_kinds_of_var : forall vars k v,
  nth_error vars k = Some v ->
  PositiveMap.find (N.succ_pos (N.of_nat k)) (kinds_of vars 1 (PositiveMap.empty varkind)) = Some (v_kind v).
Proof. exact Purity.kinds_of_var. Qed.

(* pure_ctx_monotone: the TypeCtx at every position inside a `pu` function has inside_pure = true *)
Theorem C04_pure_ctx : 
  (forall C ctx, inside_pure (ctx_at_e C ctx) = through_pure_e C || inside_pure ctx) /\
  (forall C ctx, inside_pure (ctx_at_s C ctx) = through_pure_s C || inside_pure ctx).
Proof. exact Shapes.pure_ctx. Qed.

(* pure_rejects: an assignment, a `:=` definition or a read of a non-Const variable anywhere inside a `pu`
   function, at any nesting depth (closures, branches, loops), is rejected *)
Theorem C04_pure_rejects : forall kinds G (PG : gpres G) (e : expr) (st : stmt),
  forbidden_in_pure_expr kinds e -> forbidden_in_pure_stmt kinds st ->
  forall f,
    (forall C ctx s, wf s -> through_pure_e C || inside_pure ctx = true ->
                     notok (r_expr (afix kinds G f) (plug_e e st C) ctx s)) /\
    (forall C ctx s, wf s -> through_pure_s C || inside_pure ctx = true ->
                     notok (r_stmt (afix kinds G f) (plug_s e st C) ctx s)).
Proof. exact Purity.pure_rejects. Qed.

(* a call under inside_pure whose callee does not have a `pu` function type is rejected *)
Theorem C04_pure_call_rejects : forall kinds G callee args sp f ctx s,
  inside_pure ctx = true ->
  (forall r fn s', r_expr (afix kinds G f) callee ctx s = Ok ((r, fn), s') ->
                   forall ps rt, head s' fn <> Some (HFn ps rt PPure)) ->
  notok (r_expr (afix kinds G (S f)) (ECall callee args sp) ctx s).
Proof. exact Purity.pure_call_local. Qed.

(* impure_not_pure: a `pu` function type does not unify with an `fn` function type *)
Theorem C04_impure_not_pure : forall g sp a b s pa ra pb rb,
  wf s -> head s a = Some (HFn pa ra PPure) -> head s b = Some (HFn pb rb PImpure) ->
  notok (unify (gfix g) sp a b s) /\ notok (unify (gfix g) sp b a s).
Proof. exact Purity.impure_not_pure. Qed.

(* The full statement "an impure function is never accepted where a `pu` type is declared" is FALSE of the
   model, as it is of the code (known finding C04-purity-laundering): purity is forgotten when the
   function goes through a variable annotated with a plain `fn` type (Purity::Undefined). *)
Definition C04_impure_where_pu_declared_statement : Prop :=
  forall fuel, typecheck fuel Purity.laundering_program <> Ok tt.
   (* laundering_program passes the `fn` function `impure` to the `pu`-typed parameter of takes_pu, through
      `y: fn int -> int = impure`; the direct call takes_pu(impure) is rejected (Purity.direct_rejected) *)

Theorem C04_impure_where_pu_declared_refuted : exists fuel, typecheck fuel Purity.laundering_program = Ok tt.
Proof. exact Purity.purity_laundering_accepted. Qed.

(* the positive direction, semantically.  A block of the E1 fragment (local definitions with or without annotation,
   assignments, reads, the E0 expressions: Types/SoundE1.v) that the checker ACCEPTS in a TypeCtx with inside_pure -- the
   body of a `pu` function and everything nested in it (C04_pure_ctx) -- with any fuel, in any state:
     (1) contains no assignment and no mutable definition, and reads only variables the resolver marked Const;
     (2) evaluated by the tagged evaluator with a store (the one of C02_E1) from ANY store, leaves that store as it is:
         the final store is the initial one with the block's own constants pushed on top (no binding is updated);
     (3) gives the same result from any two stores that agree on the variables marked Const.
   With C02_E1 (the evaluation of an accepted block of the fragment does not get stuck) this is: an accepted pure body
   of the fragment evaluates without changing the store, and its value depends on constants only. *)
Theorem C04_pure_no_store_effect : forall farith fneg fcmp of_int scmp kinds g f ctx sp ss (e : e1) s r s',
  inside_pure ctx = true ->
  expression_block (gfix g) (afix kinds (gfix g) f) sp (to_block1 sp ss e) ctx s = Ok (r, s') ->
  pure_block1 kinds ss e = true /\
  (forall st0 st1, exec_all farith fneg fcmp of_int scmp st0 ss = Some st1 ->
     exists binds, st1 = (binds ++ st0)%list /\ map fst binds = defs1 ss) /\
  (forall st0 st0', agree kinds st0 st0' ->
     run1 farith fneg fcmp of_int scmp st0 ss e = run1 farith fneg fcmp of_int scmp st0' ss e).
Proof. exact PureSem.pure_no_store_effect. Qed.

(* the definitions the statement rests on, pinned *)
Example C04_pure_block1_def : forall kinds ss e,
  pure_block1 kinds ss e = forallb (pure_stmt1 kinds) ss && reads_const kinds e.
Proof. reflexivity. Qed.
Example C04_pure_stmt1_def : forall kinds st,
  pure_stmt1 kinds st = match st with
                        | D1 _ Const _ e => reads_const kinds e
                        | D1 _ Mutable _ _ => false
                        | A1 _ _ => false
                        | X1 e => reads_const kinds e
                        end.
Proof. reflexivity. Qed.
Example C04_const_var_def : forall kinds x,
  const_var kinds x = match PositiveMap.find (N.succ_pos x) kinds with Some Const => true | _ => false end.
Proof. reflexivity. Qed.
Example C04_agree_def : forall kinds r1 r2,
  agree kinds r1 r2 = (forall x, const_var kinds x = true -> slookup r1 x = slookup r2 x).
Proof. reflexivity. Qed.
Example C04_run1_exec_all : forall farith fneg fcmp of_int scmp ss r e,
  run1 farith fneg fcmp of_int scmp r ss e =
  match exec_all farith fneg fcmp of_int scmp r ss with Some r' => eval1 farith fneg fcmp of_int scmp r' e | None => None end.
Proof. exact PureSem.run1_exec_all. Qed.

(* ---- non-vacuity *)
Definition sp0 : span := mkSpan 0 1 1 1 2.
Definition spl (l : N) : span := mkSpan 0 l l 1 2.

(* x :: 1 ; start :: pu do x = 2 end   -- rejected twice over; here: Assignability *)
Example C04_example_const :
  typecheck 40 (mkResolved [mkVar 0 "x" sp0 true Const; mkVar 1 "start" (spl 2) true Const]
     [SDefinition "x" 0 Const (TImplied sp0) (EInt 1 sp0) sp0;
      SDefinition "start" 1 Const (TImplied (spl 2))
        (EFunction "lambda" [] (TResolved BVoid (spl 2))
           [SAssignment Nop (ERead 0 (spl 3)) (EInt 2 (spl 3)) (spl 3)] false (spl 2)) (spl 2)])
  = Err (mkErr KAssignability (spl 3)) [].
Proof. vm_compute. reflexivity. Qed.

(* m := 1 ; start :: fn do p :: pu do if true do q :: m end end end  -- read of a mutable variable in a
   branch of a pure closure: Impurity *)
Example C04_example_pure_read :
  typecheck 40 (mkResolved [mkVar 0 "m" sp0 true Mutable; mkVar 1 "start" (spl 2) true Const;
                            mkVar 2 "p" (spl 3) false Const; mkVar 3 "q" (spl 5) false Const]
     [SDefinition "m" 0 Mutable (TImplied sp0) (EInt 1 sp0) sp0;
      SDefinition "start" 1 Const (TImplied (spl 2))
        (EFunction "lambda" [] (TResolved BVoid (spl 2))
           [SDefinition "p" 2 Const (TImplied (spl 3))
              (EFunction "lambda" [] (TResolved BVoid (spl 3))
                 [SStatementExpression
                    (EIf [IfBranch (Some (EBool true (spl 4)))
                            [SDefinition "q" 3 Const (TImplied (spl 5)) (ERead 0 (spl 5)) (spl 5)] (spl 4)] (spl 4)) (spl 4)]
                 true (spl 3)) (spl 3)] false (spl 2)) (spl 2)])
  = Err (mkErr KImpurity (spl 5)) [].
Proof. vm_compute. reflexivity. Qed.

(* non-vacuity of C04_pure_no_store_effect:  c :: 1 (outside) ;  in a pure body:  y: int : c + 2 ; y < c  is accepted;
   with  m := 1 (outside)  the body  y :: m + 2 ; y  is rejected (Impurity), and so is  y := 1 ; y *)
Definition kindsp : PositiveMap.t varkind :=
  PositiveMap.add (N.succ_pos 1) Const (PositiveMap.add (N.succ_pos 2) Const
    (PositiveMap.add (N.succ_pos 3) Mutable (PositiveMap.empty varkind))).
Definition pure_ctx : tctx := enter_fn true ctx_new.
Definition outer_defs : list stmt :=
  [SDefinition "c" 1 Const (TImplied sp0) (EInt 1 sp0) sp0; SDefinition "m" 3 Mutable (TImplied sp0) (EInt 1 sp0) sp0].
Definition check_pure_block (ss : list s1) (e : e1) :=
  (init_vars 4 ;;; iterM (fun st => r_stmt (afix kindsp (gfix 30) 30) st ctx_new ;;; ret tt) outer_defs ;;;
   expression_block (gfix 30) (afix kindsp (gfix 30) 30) sp0 (to_block1 sp0 ss e) pure_ctx)%tc empty_st.
Example C04_example_pure_ctx : inside_pure pure_ctx = true.
Proof. reflexivity. Qed.
Example C04_example_pure_block_accepted :
  match check_pure_block [D1 2 Const (Some TI) (Bin1 Add (R1 1) (I1 2))] (Bin1 Less (R1 2) (R1 1)) with
  | Ok _ => true | _ => false end = true.
Proof. vm_compute. reflexivity. Qed.
Example C04_example_pure_block_is_pure :
  pure_block1 kindsp [D1 2 Const (Some TI) (Bin1 Add (R1 1) (I1 2))] (Bin1 Less (R1 2) (R1 1)) = true.
Proof. reflexivity. Qed.
Example C04_example_pure_block_reads_mutable :
  match check_pure_block [D1 2 Const None (Bin1 Add (R1 3) (I1 2))] (R1 2) with
  | Err e _ => e_kind e | _ => KExotic end = KImpurity.
Proof. vm_compute. reflexivity. Qed.
Example C04_example_pure_block_mutable_def :
  match check_pure_block [D1 2 Mutable None (I1 1)] (R1 2) with
  | Err e _ => e_kind e | _ => KExotic end = KImpurity.
Proof. vm_compute. reflexivity. Qed.
Example C04_example_pure_block_assigns :
  match check_pure_block [A1 3 (I1 2)] (I1 1) with
  | Err e _ => true | _ => false end = true.
Proof. vm_compute. reflexivity. Qed.

Print Assumptions C04_const_assign_rejected.
Print Assumptions C04_pure_no_store_effect.
Print Assumptions C04_kinds_of_var.
Print Assumptions C04_pure_ctx.
Print Assumptions C04_pure_rejects.
Print Assumptions C04_pure_call_rejects.
Print Assumptions C04_impure_not_pure.
Print Assumptions C04_impure_where_pu_declared_refuted.

(* ---- source tie: the hand-written model behind these theorems mirrors the files below; the digests of their
   functions regenerated from /repo on this run equal the reviewed ones (coq/Doc/DocSrcDigest.v).  Any edit of
   such a function breaks this obligation: the differential tie and the oracle then decide (tools/check.py). *)
From Sylt Require Doc.SrcDigest Doc.DocSrcDigest Gen.GenSrcDigest.
Theorem C04_model_sources_reviewed :
  Sylt.Doc.SrcDigest.sources_reviewed ["sylt-compiler/src/typechecker.rs"%string; "sylt-compiler/src/ty.rs"%string]
    Sylt.Doc.DocSrcDigest.doc_src_digests Sylt.Gen.GenSrcDigest.src_digests = true.
Proof. vm_compute. reflexivity. Qed.
Print Assumptions C04_model_sources_reviewed.
