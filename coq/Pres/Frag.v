(* frag: the COMPUTABLE fragment of resolved programs for which C01 is a THEOREM
   (Props/C01.v: C01_fragment_preservation).  Definitions only.

   STAGE REACHED: see the comment at `frag` below (kept current).

   Shape of a fragment program (what the real resolver produces for
        print: fn *X -> void : external
        g1 :: e1  ...  gm :: em
        start :: fn do ... end ):
     r_stmts = SExternalDefinition "print" pv ... :: [SDefinition gi ...] ++ [SDefinition "start" sv ... (EFunction _ [] _ body _ _) _]
   with the global definitions and body in the statement fragment below.  Side conditions on variable ids (all true of the real
   resolver's output: ids are indices into r_vars, every definition gets a new id):
     - every defined id is < |r_vars| + 1 (where the lowering starts numbering its temporaries),
     - a definition does not reuse an id that is in scope, nor the id of `print` or `start`. *)
From Coq Require Import String List NArith ZArith Bool.
From Sylt Require Import Syntax.Resolved.
Import ListNotations.
Local Open Scope N_scope.

Definition memN (v : N) (l : list N) : bool := existsb (N.eqb v) l.

(* operators of the expression fragment *)
Definition frag_binop (op : binop) : bool :=
  match op with
  | Add | Sub | Mul | Equals | NotEquals | Greater | GreaterEqual | Less | LessEqual | AssertEq | And | Or => true
  | Nop | Div => false
  end.

(* expressions that contain no statements (no if-expression), so no break/continue can leave them: the
   condition of a loop must be one (the reference interpreter lets a break inside the CONDITION of a loop
   end the enclosing loop, the emitted Lua ends the loop itself) *)
Fixpoint noexit_expr (k : nat) (x : expr) {struct k} : bool :=
  match k with
  | O => false
  | S k =>
      match x with
      | EInt _ _ | EBool _ _ | EStr _ _ | ERead _ _ => true
      | EBinOp op a b _ => frag_binop op && noexit_expr k a && noexit_expr k b
      | EUniOp _ a _ => noexit_expr k a
      | ECall (ERead _ _) [a] _ => noexit_expr k a
      | _ => false
      end
  end.

Definition param_ids (params : list (string * N * span * ty)) : list N := map (fun p => snd (fst (fst p))) params.

(* ---- kinds: a value is PLAIN (an int, a bool, a string, nil: what print, the operators and the conditions may
   see) or a FUNCTION with the kinds of its parameters and of its result.  The kind of a parameter is read off its
   declared type; everything that is not a function type is plain. ---- *)
Inductive kind := KP | KF (args : list kind) (ret : kind).

Fixpoint kind_eqb (a b : kind) {struct a} : bool :=
  match a, b with
  | KP, KP => true
  | KF xs x, KF ys y =>
      (fix go (xs ys : list kind) {struct xs} : bool :=
         match xs, ys with
         | [], [] => true
         | x' :: xs', y' :: ys' => kind_eqb x' y' && go xs' ys'
         | _, _ => false
         end) xs ys && kind_eqb x y
  | _, _ => false
  end.

Lemma kind_eqb_eq : forall a b, kind_eqb a b = true -> a = b.
Proof.
  fix IH 1. intros [|xs x] [|ys y] H; try discriminate; [reflexivity|].
  cbn [kind_eqb] in H. apply andb_prop in H as [H1 H2]. f_equal; [|apply IH; exact H2].
  revert ys H1. induction xs as [|x' xs IHx]; intros [|y' ys] H1; try discriminate; [reflexivity|].
  apply andb_prop in H1 as [A B]. f_equal; [apply IH; exact A | apply IHx; exact B].
Qed.

Lemma kind_eqb_refl : forall a, kind_eqb a a = true.
Proof.
  fix IH 1. intros [|xs x]; [reflexivity|]. cbn [kind_eqb]. apply andb_true_intro. split; [|apply IH].
  induction xs as [|x' xs IHx]; [reflexivity|]. apply andb_true_intro. split; [apply IH | exact IHx].
Qed.

Fixpoint kind_of_ty (t : ty) : kind :=
  match t with
  | TFn _ ps r _ _ => KF (map kind_of_ty ps) (kind_of_ty r)
  | _ => KP
  end.

Definition param_kinds (params : list (string * N * span * ty)) : list kind := map (fun p => kind_of_ty (snd p)) params.

(* the scope of a function body: the plain parameters join the user variables, the function parameters the
   callable functions (in the order the call binds them) *)
Fixpoint bind_scope (ps : list N) (ks : list kind) (sc : list N) (fl : list (N * kind)) : list N * list (N * kind) :=
  match ps, ks with
  | p :: ps', KP :: ks' => bind_scope ps' ks' (p :: sc) fl
  | p :: ps', K :: ks' => bind_scope ps' ks' sc ((p, K) :: fl)
  | _, _ => (sc, fl)
  end.

Fixpoint split_last {A} (l : list A) : option (list A * A) :=
  match l with
  | [] => None
  | x :: t => match split_last t with
              | Some (i, y) => Some (x :: i, y)
              | None => Some ([], x)
              end
  end.

(* function-valued expressions from which no break / continue / ret can come: names, lambdas, calls whose arguments
   are such expressions or plain expressions without if-expressions *)
Fixpoint noexit_fexpr (k : nat) (x : expr) {struct k} : bool :=
  match k with
  | O => false
  | S k =>
      match x with
      | ERead _ _ | EFunction _ _ _ _ _ _ => true
      | ECall (ERead _ _) args _ => forallb (fun a => noexit_expr k a || noexit_fexpr k a) args
      | _ => false
      end
  end.

(* the statements before the result of a function that returns a function: local functions and definitions of
   values without if-expressions (no statement in them: nothing leaves the body before its last expression) *)
Definition simple_init_stmt (k : nat) (s : stmt) : bool :=
  match s with
  | SDefinition _ _ _ _ (EFunction _ _ _ _ _ _) _ => true
  | SDefinition _ _ _ _ v _ => noexit_expr k v
  | _ => false
  end.

(* the body of a function whose result has the kind rk: any statement list if the result is plain; for a function
   result the last statement is a function-valued expression of that kind (or `ret` of one); before it come statements
   that cannot leave the body (local functions, definitions without if-expressions) and then GUARDS
   `if c do ret <function value> end`: early returns of function values of that kind *)
(* the last statement of a function that returns a function: the function-valued expression itself, or `ret` of it *)
Definition tail_fexpr (s : stmt) : option expr :=
  match s with
  | SStatementExpression e _ => Some e
  | SRet (Some e) _ => Some e
  | _ => None
  end.

(* a guard: `if c do ret <function value> end` *)
Definition guard_parts (s : stmt) : option (expr * expr) :=
  match s with
  | SStatementExpression (EIf [IfBranch (Some c) [SRet (Some fx) _] _] _) _ => Some (c, fx)
  | _ => None
  end.

(* the statements before the first guard, and the rest *)
Fixpoint take_init (l : list stmt) : list stmt * list stmt :=
  match l with
  | [] => ([], [])
  | s :: t => match guard_parts s with
              | Some _ => ([], l)
              | None => let (i, g) := take_init t in (s :: i, g)
              end
  end.

Definition fbody_check (stmts : list stmt -> option (list N * list (N * kind)))
           (fexpr : list (N * kind) -> list N -> expr -> option kind)
           (pexpr : list (N * kind) -> list N -> expr -> bool) (k : nat) (body : list stmt) (rk : kind) : bool :=
  match rk with
  | KP => match stmts body with Some _ => true | None => false end
  | KF _ _ =>
      match split_last body with
      | Some (pre, last) =>
          match tail_fexpr last with
          | Some e =>
              let (init, guards) := take_init pre in
              forallb (simple_init_stmt k) init && noexit_fexpr k e &&
              match stmts init with
              | Some (sc1, fl1) =>
                  match fexpr fl1 sc1 e with Some K => kind_eqb K rk | None => false end &&
                  forallb (fun g => match guard_parts g with
                                    | Some (c, fx) =>
                                        noexit_expr k c && pexpr fl1 sc1 c && noexit_fexpr k fx &&
                                        match fexpr fl1 sc1 fx with Some K => kind_eqb K rk | None => false end
                                    | None => false
                                    end) guards
              | None => false
              end
          | None => false
          end
      | None => false
      end
  end.

Section Frag.
Variable pv : N.      (* the id of the external `print` *)
Variable sv : N.      (* the id of `start` *)
Variable bound : N.   (* |r_vars| + 1 *)
(* fl (an argument below) = the functions that can be called by name here -- functions defined in scope and
   function parameters --, with their kinds *)

Definition fun_kind (fl : list (N * kind)) (f : N) : option kind :=
  match find (fun fa => fst fa =? f) fl with Some fa => Some (snd fa) | None => None end.

Definition fresh_id (fl : list (N * kind)) (sc : list N) (v : N) : bool :=
  negb (memN v sc) && negb (v =? pv) && negb (v =? sv) && (v <? bound) && negb (memN v (map fst fl)).

Definition assign_op (op : binop) : bool :=
  match op with Nop | Add | Sub | Mul => true | _ => false end.

Definition is_some {A} (o : option A) : bool := match o with Some _ => true | None => false end.

(* the parameters of a function: new ids, pairwise different *)
Fixpoint params_ok (fl : list (N * kind)) (sc : list N) (ps : list N) : bool :=
  match ps with
  | [] => true
  | p :: ps' => fresh_id fl sc p && params_ok fl (p :: sc) ps'
  end.

(* PLAIN expressions; sc = the user variables in scope.
   if-expressions: an `else` branch only in last position; the bodies are statement lists in their own scope. *)
Fixpoint frag_expr (fl : list (N * kind)) (k : nat) (sc : list N) (x : expr) {struct k} : bool :=
  match k with
  | O => false
  | S k =>
      match x with
      | EInt _ _ | EBool _ _ | EStr _ _ => true
      | ERead v _ => memN v sc
      | EBinOp op a b _ => frag_binop op && frag_expr fl k sc a && frag_expr fl k sc b
      | EUniOp _ a _ => frag_expr fl k sc a
      | ECall (ERead f _) args _ =>
          if f =? pv then
            match args with [a] => negb (memN pv sc) && frag_expr fl k sc a | _ => false end      (* print(a) *)
          else                                                                              (* f(a1, ..., an) *)
            match fun_kind fl f with
            | Some (KF ks KP) =>
                (fix go (ks : list kind) (args : list expr) {struct ks} : bool :=
                   match ks, args with
                   | [], [] => true
                   | KP :: ks', a :: args' => frag_expr fl k sc a && go ks' args'
                   | K :: ks', a :: args' =>
                       match frag_fexpr fl k sc a with Some K' => kind_eqb K' K | None => false end && go ks' args'
                   | _, _ => false
                   end) ks args
            | _ => false
            end
      | ECall callee args _ =>                  (* the callee is computed: mk(1)(2), a lambda called where it is written *)
          match frag_fexpr fl k sc callee with
          | Some (KF ks KP) =>
              (fix go (ks : list kind) (args : list expr) {struct ks} : bool :=
                 match ks, args with
                 | [], [] => true
                 | KP :: ks', a :: args' => frag_expr fl k sc a && go ks' args'
                 | K :: ks', a :: args' =>
                     match frag_fexpr fl k sc a with Some K' => kind_eqb K' K | None => false end && go ks' args'
                 | _, _ => false
                 end) ks args
          | _ => false
          end
      | EIf branches _ => frag_branches fl k sc branches
      | _ => false
      end
  end

(* a function-valued argument: the name of a function in scope (a defined function or a function parameter), or a
   lambda  fn p1: T1, ..., pn: Tn -> T do ... end  whose body sees what is in scope here *)
with frag_fexpr (fl : list (N * kind)) (k : nat) (sc : list N) (x : expr) {struct k} : option kind :=
  match k with
  | O => None
  | S k =>
      match x with
      | ERead f _ => match fun_kind fl f with Some (KF a r) => Some (KF a r) | _ => None end
      | EFunction _ params ret body _ _ =>
          let ps := param_ids params in
          let ks := param_kinds params in
          let rk := kind_of_ty ret in
          if params_ok fl sc ps
             && fbody_check (frag_stmts (snd (bind_scope ps ks sc fl)) k (fst (bind_scope ps ks sc fl)))
                            (fun fl1 sc1 e => frag_fexpr fl1 k sc1 e) (fun fl1 sc1 e => frag_expr fl1 k sc1 e) k body rk
          then Some (KF ks rk) else None
      | ECall (ERead f _) args _ =>                                   (* a call that returns a function *)
          if f =? pv then None else
          match fun_kind fl f with
          | Some (KF ks (KF a r)) =>
              if (fix go (ks : list kind) (args : list expr) {struct ks} : bool :=
                    match ks, args with
                    | [], [] => true
                    | KP :: ks', a :: args' => frag_expr fl k sc a && go ks' args'
                    | K :: ks', a :: args' =>
                        match frag_fexpr fl k sc a with Some K' => kind_eqb K' K | None => false end && go ks' args'
                    | _, _ => false
                    end) ks args
              then Some (KF a r) else None
          | _ => None
          end
      | ECall callee args _ =>                  (* ... of a computed callee *)
          match frag_fexpr fl k sc callee with
          | Some (KF ks (KF a r)) =>
              if (fix go (ks : list kind) (args : list expr) {struct ks} : bool :=
                    match ks, args with
                    | [], [] => true
                    | KP :: ks', a :: args' => frag_expr fl k sc a && go ks' args'
                    | K :: ks', a :: args' =>
                        match frag_fexpr fl k sc a with Some K' => kind_eqb K' K | None => false end && go ks' args'
                    | _, _ => false
                    end) ks args
              then Some (KF a r) else None
          | _ => None
          end
      | _ => None
      end
  end

with frag_branches (fl : list (N * kind)) (k : nat) (sc : list N) (brs : list ifbranch) {struct k} : bool :=
  match k with
  | O => false
  | S k =>
      match brs with
      | [] => true
      | IfBranch (Some cond) body _ :: brs' =>
          frag_expr fl k sc cond && is_some (frag_stmts fl k sc body) && frag_branches fl k sc brs'
      | [IfBranch None body _] => is_some (frag_stmts fl k sc body)
      | IfBranch None _ _ :: _ :: _ => false
      end
  end

(* statements: the scope after the statement, None = outside the fragment *)
with frag_stmt (fl : list (N * kind)) (k : nat) (sc : list N) (s : stmt) {struct k} : option (list N) :=
  match k with
  | O => None
  | S k =>
      match s with
      | SDefinition _ var _ _ value _ =>
          match value with
          | EFunction _ _ _ _ _ _ => None                  (* a local function: see frag_stmts *)
          | _ => if fresh_id fl sc var && frag_expr fl k (var :: sc) value then Some (var :: sc) else None
          end
      | SAssignment op (ERead v _) value _ =>
          if assign_op op && memN v sc && frag_expr fl k sc value then Some sc else None
      | SStatementExpression value _ => if frag_expr fl k sc value then Some sc else None
      | SBlock ss _ =>
          match frag_stmts fl k sc ss with Some _ => Some sc | None => None end
      | SLoop cond body _ =>
          if noexit_expr k cond && frag_expr fl k sc cond && is_some (frag_stmts fl k sc body) then Some sc else None
      | SBreak _ | SContinue _ => Some sc
      | SRet (Some value) _ => if frag_expr fl k sc value then Some sc else None      (* early return *)
      | _ => None
      end
  end

(* statement lists -- the body of a function, of a block, of a loop, of an if-branch: statements of the fragment and
   definitions of LOCAL functions  f :: fn ... end.  A local function sees what is in scope where it is defined -- the
   parameters and locals of the enclosing function(s) so far (mutable ones too: it reads and assigns the same
   variables), the globals, the callable functions and itself -- and can be called by name, or passed to a function
   parameter, after its definition until the end of the list.  The result is the scope and the callable functions at
   the end of the list. *)
with frag_stmts (fl : list (N * kind)) (k : nat) (sc : list N) (ss : list stmt) {struct k} : option (list N * list (N * kind)) :=
  match k with
  | O => None
  | S k =>
      match ss with
      | [] => Some (sc, fl)
      | s :: ss' =>
          match s with
          | SDefinition _ fv _ _ (EFunction _ params ret body _ _) _ =>
              let ps := param_ids params in
              let ks := param_kinds params in
              let rk := kind_of_ty ret in
              let fl' := (fv, KF ks rk) :: fl in
              if fresh_id fl sc fv && params_ok fl' sc ps
                 && fbody_check (frag_stmts (snd (bind_scope ps ks sc fl')) k (fst (bind_scope ps ks sc fl')))
                                (fun fl1 sc1 e => frag_fexpr fl1 k sc1 e) (fun fl1 sc1 e => frag_expr fl1 k sc1 e) k body rk
              then frag_stmts fl' k sc ss' else None
          | _ =>
              match frag_stmt fl k sc s with
              | Some sc' => frag_stmts fl k sc' ss'
              | None =>
                  match s with
                  | SDefinition _ x _ _ v _ =>
                      (* x :: <a function value>: x is a function name from here on; while its value is computed the
                         name exists and cannot be used (the entry (x, KP): nothing can be done with such a name) *)
                      match frag_fexpr ((x, KP) :: fl) k sc v with
                      | Some K => if fresh_id fl sc x then frag_stmts ((x, K) :: fl) k sc ss' else None
                      | None => None
                      end
                  | SAssignment Nop (ERead h _) v _ =>
                      (* h = <a function value of the kind of h>: from here on the name h stands for that function,
                         also in the closures that captured h *)
                      match fun_kind fl h, frag_fexpr fl k sc v with
                      | Some (KF a r), Some K => if kind_eqb K (KF a r) then frag_stmts fl k sc ss' else None
                      | _, _ => None
                      end
                  | _ => None
                  end
              end
          end
      end
  end.

(* the arguments of a call against the kinds of the parameters (the same function as in frag_expr) *)
Fixpoint frag_args (fl : list (N * kind)) (k : nat) (sc : list N) (ks : list kind) (args : list expr) {struct ks} : bool :=
  match ks, args with
  | [], [] => true
  | KP :: ks', a :: args' => frag_expr fl k sc a && frag_args fl k sc ks' args'
  | K :: ks', a :: args' =>
      match frag_fexpr fl k sc a with Some K' => kind_eqb K' K | None => false end && frag_args fl k sc ks' args'
  | _, _ => false
  end.

End Frag.

Definition find_start (vars : list var) : option N :=
  match find (fun v => String.eqb (v_name v) "start" && v_global v) vars with
  | Some v => Some (v_id v)
  | None => None
  end.

(* a top-level definition whose value is not a function *)
Definition is_plain_def (s : stmt) : bool :=
  match s with
  | SDefinition _ _ _ _ (EFunction _ _ _ _ _ _) _ => false
  | SDefinition _ _ _ _ _ _ => true
  | _ => false
  end.

Definition is_def (s : stmt) : bool := match s with SDefinition _ _ _ _ _ _ => true | _ => false end.

(* the outer statements: global values and functions.
   scg = the global values so far, fl = the functions so far; a function sees the earlier globals and
   functions and itself (recursion) *)
Fixpoint frag_items (pv sv bound : N) (k : nat) (scg : list N) (fl : list (N * kind)) (items : list stmt)
  : option (list N * list (N * kind)) :=
  match items with
  | [] => Some (scg, fl)
  | s :: rest =>
      match s with
      | SDefinition _ fv _ _ (EFunction _ params ret body _ _) _ =>
          let ps := param_ids params in
          let ks := param_kinds params in
          let rk := kind_of_ty ret in
          let fl' := (fv, KF ks rk) :: fl in
          if fresh_id pv sv bound fl scg fv && params_ok pv sv bound fl' scg ps
             && fbody_check (frag_stmts pv sv bound (snd (bind_scope ps ks scg fl')) k (fst (bind_scope ps ks scg fl')))
                            (fun fl1 sc1 e => frag_fexpr pv sv bound fl1 k sc1 e) (fun fl1 sc1 e => frag_expr pv sv bound fl1 k sc1 e) k body rk
          then frag_items pv sv bound k scg fl' rest else None
      | SDefinition _ x _ _ v _ =>
          match frag_stmt pv sv bound fl k scg s with
          | Some scg' => frag_items pv sv bound k scg' fl rest
          | None =>                                       (* x :: <a function value>, as in frag_stmts *)
              match frag_fexpr pv sv bound ((x, KP) :: fl) k scg v with
              | Some K => if fresh_id pv sv bound fl scg x then frag_items pv sv bound k scg ((x, K) :: fl) rest else None
              | None => None
              end
          end
      | _ => None
      end
  end.

(* STAGE 4l (4k + ASSIGNMENT OF FUNCTION VALUES: in any statement list  h = <function value>  where h is a function name in
   scope (a variable `h := f`, also a constant, a local function or a function parameter: the type checker decides which
   of these may be assigned) and the value has the kind of h; from then on h stands for the new function, also inside
   the closures that captured h (frag_stmts);
   4k = 4j + EARLY RETURNS OF FUNCTION VALUES: in the body of a function that returns a function, after the local
   functions and definitions and before the last statement, GUARDS  `if c do ret <function value> end`  (c a plain
   condition without if-expression; the value a lambda, a function name or a call that returns a function, of the
   result kind): the first guard whose condition holds ends the call with its value (fbody_check, guard_parts);
   4j = 4i + `ret` OF A FUNCTION VALUE as the last statement of a function that returns a function: `ret fn x: int -> int do .. end`,
   `ret mk(k)`, `ret f` (fbody_check, tail_fexpr);
   4i = 4h + COMPUTED CALLEES: in a call  c(a1, ..., an)  the callee c is the name of a function (as before) or any
   other function-valued expression -- a call that returns a function: mk(1)(2), curry(1)(2)(3); a lambda called where it
   is written: (fn x: int -> int do ... end)(3) --, evaluated before the arguments;
   4h = 4g + FUNCTION-VALUED CONSTANTS  x :: <function value>  in any statement list and among the outer definitions: the value is the name of a
   function, a lambda (that is a local function), or a call that returns a function -- `c :: mkc(0)` --; from there to
   the end of the list x is a function name: it can be called and passed on like any other.  While its value is
   computed the name exists and cannot be used (frag_stmts, the entry (x, KP));
   4g = 4f + FUNCTIONS THAT RETURN FUNCTIONS: the declared result type of a function or lambda may be a function
   type; then the last statement of its body is a function-valued expression of that kind -- a lambda (a NEW CLOSURE over
   the parameters and locals of this call: every call returns its own closure with its own captured variables, which
   it keeps after the call has ended and may assign), the name of a function, or a call that returns a function -- and
   the statements before it are local functions and definitions whose values contain no if-expression (fbody_check:
   nothing leaves such a body before its last expression).  A call that returns a function is a function-valued
   expression: it can be passed to a parameter of that function kind, or be the result of a function;
   4f = 4e + LAMBDA expressions as arguments; 4e = 4d-s + FUNCTIONS AS ARGUMENTS: the name of a function -- a
   top-level function, a local closure, a function parameter -- passed to a parameter of function type, which the callee
   calls or passes on; kinds, below);
   4d-s = 4c' + STRING values: literals, + as concatenation, == != < <= > >=, <=>, print;
   4c' = 4c + local functions in ANY statement list: blocks, loop bodies, if-branches; 4c = 4b + LOCAL FUNCTIONS:
   closures over the variables of the enclosing function, mutable ones included, called by name, see frag_stmts;
   4b = 4a + outer definitions in any order the resolver allows, also after `start`; 4a = 3b + early return
   `ret e`; 3b = 3a + top-level functions and their calls, recursion included):
   the outer statements are  `print` external, then global definitions in the order the resolver gives them;
   `start :: fn do ... end` is one of them (a function without parameters, anywhere in the list) and is called after
   the last one.  (The `sv` argument of the predicates below is instantiated with `bound`, an id no definition can
   have: start is an ordinary function.)  A global definition is  g :: e  (e an expression of the fragment over the earlier globals and functions) or
   f :: fn p1: T1, ..., pn: Tn -> T do ... end  (a function: its body sees the earlier globals, the earlier functions,
   itself and its parameters; its value is the value of its last statement if that is an expression, nil otherwise).
   The body of a function (and the branches of if-expressions anywhere) consists of
     - definitions (constant or mutable) of int/bool/string-valued expressions, expression statements, nested blocks,
     - assignments  x = e, x += e, x -= e, x *= e  to variables in scope (parameters, locals and global values),
     - `ret e` anywhere in a function or in start (inside if-branches and loops too): the call ends with the value of e,
     - in any statement list (a function body, a block, the body of a loop, an if-branch): LOCAL FUNCTIONS
         lf :: fn p1: T1, ..., pn: Tn -> T do ... end
       whose body is again a function body of the fragment (local functions nested to any depth); it sees the variables
       of the enclosing function(s) that are in scope at its definition (parameters, constant and MUTABLE locals, which it
       may assign: the closure and the enclosing function share the variable, each sees the later assignments of the
       other; every activation has its own locals), the global values, the functions visible there and itself;
       it is called by name, until the end of the list it is defined in: from the rest of that list, its nested lists and
       the local functions defined later in it.  Every execution of the list (every pass of a loop) creates its own
       closure over the variables of that execution,
     - loops `loop c do ... end` with break and continue; the condition c contains no if-expression
       (noexit_expr; since /repo fcfe8d3 the type checker rejects break/continue in a loop condition, so
       this is implied by acceptance for what matters: no break/continue can leave the condition);
   expressions are int, bool and string literals, reads of variables in scope, + - * (+ on two strings concatenates),
   the six comparisons (on two ints or on two strings: byte-wise lexicographic order),
   <=> (assert-equal), and/or/not, unary minus, calls print(e), calls f(a1, ..., an) of functions by
   name (top-level, local, a function parameter or constant) or of a computed callee (mk(1)(2), a lambda; an argument ai is a plain expression or, for a parameter of
   function kind, the name of a function of that kind, a lambda expression  fn p1: T1, ... -> T do ... end  whose
   body is a function body of the fragment over what is in scope there, or a call that returns a function of that kind), and if/elif/else expressions and statements whose branches are statement lists.
   KINDS.  Every value is plain (int, bool, string, nil) or a function; the kind of a parameter and of the result of a
   function is read off its declared type (`fn T1, ..., Tn -> T` is a function kind, everything else plain).  Function
   values exist only as the values of function names (definitions `f :: fn ...`, `x :: <function value>` and parameters
   of function kind), of lambda expressions and of calls of functions whose result kind is a function kind, in argument
   position, as the value of a constant or as the result of a function; a function name can be called and passed to a parameter of the same function kind, nothing
   else: so print, the operators, the conditions and the assignments only ever see plain values.
   NOT in the fragment: `ret` without a value (it returns Sylt's nil, the table __NIL), `ret` of a function value anywhere but as the last statement or in a guard (above), blobs, tuples, lists, enums/case, floats, division. *)
Definition frag (k : nat) (r : resolved) : bool :=
  let bound := N.of_nat (length (r_vars r)) + 1 in
  match r_stmts r with
  | SExternalDefinition name pv _ _ _ :: items =>
      String.eqb name "print" && (pv <? bound)
      && match find_start (r_vars r), frag_items pv bound bound k [] [] items with
         | Some s, Some (scg, fl) => match fun_kind fl s with Some (KF [] KP) => true | _ => false end
         | _, _ => false
         end
  | _ => false
  end.
