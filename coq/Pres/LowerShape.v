(* The structural half of the simulation for expressions: the lowering of a fragment expression is a
   balanced code segment that the AST emitter turns into a block (cshape = Emits + frame of the inlining
   table), whatever the table it starts from.  Needed where the reference interpreter never evaluates a
   sub-expression (after a failed <=>) but the emitted block still contains its statements. *)
From Coq Require Import String Ascii List NArith ZArith QArith Bool Lia.
From Sylt Require Import Syntax.Resolved.
From Sylt Require Sem.Values Sem.Runtime Sem.SyltSem.
From Sylt Require Import Back.IR Back.Emit Back.ScopeProofs.
From Sylt Require Import Pres.EmitAst Pres.EmitRel Pres.Names Pres.LuaFuel Pres.LuaEv Pres.Preamble.
From Sylt Require Import Pres.Frag.
From Sylt Require Import Pres.SimDefs Pres.SimOps Pres.SimVals.
From Sylt Require Import Pres.SimExpr.
From Sylt Require Import Lua.LuaAst Lua.LuaMap Lua.LuaNum Lua.LuaProofs Lua.LuaCore.
Import ListNotations.
Local Open Scope N_scope.

Ltac frag_split H :=
  repeat match type of H with
         | (_ && _)%bool = true => let H2 := fresh "Hfr" in apply andb_prop in H as [H H2]
         end.
Ltac fresh_all := repeat match goal with H : fresh _ = Ok (_, _) |- _ => apply fresh_ok in H as [? ?]; subst end.

Ltac inj_code := match goal with H : (_, _) = (_, _) |- _ => injection H as <- <- end.

Section Sim.
Variable pv : N.
Variable sv : N.
Variable bound : N.
Variable u : counts.
Variable fl : list (N * kind).

Lemma cshape_nil' l c c' : c <= c' -> cshape u l [] [] l c c'.
Proof. intros H. eapply cshape_widen; [apply (cshape_nil u l c) | lia | exact H]. Qed.

Lemma L_expr_zero : L_expr pv sv bound u fl O.
Proof. intros k x ctx c code v c' sc l H. discriminate. Qed.

Lemma used_plain (l : alut) t (ss : list stmt) : snd (if 0 <? count_of u t then (ss, l) else ([], l)) = l.
Proof. destruct (0 <? count_of u t); reflexivity. Qed.

(* the code after the first operand of and / or *)
Lemma and_tail_shape l1 t flg va code_b vb cb0 cb1 c c' :
  (forall l0, exists b2 l2, cshape u l0 code_b b2 l2 cb0 cb1 /\ cb0 <= vb /\ vb < cb1) ->
  c <= cb0 -> cb1 <= c' -> c <= t < c' -> c <= flg < c' ->
  exists bl l', cshape u l1 ([IDefine t; IBool flg false; IAssign t flg; IIf va] ++ code_b ++ [IAssign t vb; IEnd]) bl l' c c'.
Proof.
  intros Hb2 Hc0 Hc1 Ht Hfl.
  set (l1' := snd (aiis u l1 flg EFalse)).
  destruct (Hb2 l1') as (b2 & l2 & Hs2 & ? & ?).
  eexists _, _. cbn [app].
  eapply cshape_cons'; [apply (cshape_plain u l1 (IDefine t) c c'); [lia | reflexivity | reflexivity | apply used_plain]|].
  eapply cshape_cons'; [eapply (cshape_iis u l1 (IBool flg false) flg EFalse c c'); [lia | reflexivity | reflexivity]|].
  eapply cshape_cons'; [apply (cshape_plain u l1' (IAssign t flg) c c'); [lia | reflexivity | reflexivity | apply used_plain]|].
  replace (code_b ++ [IAssign t vb; IEnd]) with ((code_b ++ [IAssign t vb]) ++ [IEnd]) by (rewrite <- app_assoc; reflexivity).
  apply cshape_if.
  eapply cshape_app'; [eapply cshape_widen; [exact Hs2 | lia | lia]|].
  apply (cshape_plain u l2 (IAssign t vb) c c'); [lia | reflexivity | reflexivity | apply used_plain].
Qed.

Lemma or_tail_shape l1 t flg na va code_b vb cb0 cb1 c c' :
  (forall l0, exists b2 l2, cshape u l0 code_b b2 l2 cb0 cb1 /\ cb0 <= vb /\ vb < cb1) ->
  c <= cb0 -> cb1 <= c' -> c <= t < c' -> c <= flg < c' -> c <= na < c' ->
  exists bl l', cshape u l1 ([IDefine t; IBool flg true; IAssign t flg; INot na va; IIf na] ++ code_b ++ [IAssign t vb; IEnd]) bl l' c c'.
Proof.
  intros Hb2 Hc0 Hc1 Ht Hfl Hna.
  set (l1' := snd (aiis u l1 flg ETrue)).
  set (l1'' := snd (aiis u l1' na (EParen (EUn UNot (aexpand l1' va))))).
  destruct (Hb2 l1'') as (b2 & l2 & Hs2 & ? & ?).
  eexists _, _. cbn [app].
  eapply cshape_cons'; [apply (cshape_plain u l1 (IDefine t) c c'); [lia | reflexivity | reflexivity | apply used_plain]|].
  eapply cshape_cons'; [eapply (cshape_iis u l1 (IBool flg true) flg ETrue c c'); [lia | reflexivity | reflexivity]|].
  eapply cshape_cons'; [apply (cshape_plain u l1' (IAssign t flg) c c'); [lia | reflexivity | reflexivity | apply used_plain]|].
  eapply cshape_cons'; [eapply (cshape_iis u l1' (INot na va) na _ c c'); [lia | reflexivity | reflexivity]|].
  replace (code_b ++ [IAssign t vb; IEnd]) with ((code_b ++ [IAssign t vb]) ++ [IEnd]) by (rewrite <- app_assoc; reflexivity).
  apply cshape_if.
  eapply cshape_app'; [eapply cshape_widen; [exact Hs2 | lia | lia]|].
  apply (cshape_plain u l2 (IAssign t vb) c c'); [lia | reflexivity | reflexivity | apply used_plain].
Qed.


End Sim.

Section Eq.
Variable pv : N.
Variable sv : N.
Variable bound : N.

(* ---- unfolding equations of the fragment predicate (cbn would expose the raw mutual fixpoint) ---- *)
Lemma frag_expr_if fl k sc brs sp : frag_expr pv sv bound fl (S k) sc (EIf brs sp) = frag_branches pv sv bound fl k sc brs.
Proof. reflexivity. Qed.
Lemma frag_branches_some fl k sc cond body sp brs :
  frag_branches pv sv bound fl (S k) sc (IfBranch (Some cond) body sp :: brs) =
  (frag_expr pv sv bound fl k sc cond && is_some (frag_stmts pv sv bound fl k sc body) && frag_branches pv sv bound fl k sc brs)%bool.
Proof. reflexivity. Qed.
Lemma frag_branches_none fl k sc body sp brs :
  frag_branches pv sv bound fl (S k) sc (IfBranch None body sp :: brs) =
  match brs with [] => is_some (frag_stmts pv sv bound fl k sc body) | _ => false end.
Proof. destruct brs; reflexivity. Qed.
Definition is_fundef (s : Resolved.stmt) : bool :=
  match s with SDefinition _ _ _ _ (EFunction _ _ _ _ _ _) _ => true | _ => false end.
Lemma frag_stmts_fun fl k sc name fv kd t n params rt body b sp sp2 rest :
  frag_stmts pv sv bound fl (S k) sc (SDefinition name fv kd t (EFunction n params rt body b sp) sp2 :: rest) =
  if (fresh_id pv sv bound fl sc fv && params_ok pv sv bound ((fv, KF (param_kinds params) (kind_of_ty rt)) :: fl) sc (param_ids params)
      && fbody_check (frag_stmts pv sv bound (snd (bind_scope (param_ids params) (param_kinds params) sc ((fv, KF (param_kinds params) (kind_of_ty rt)) :: fl))) k
                                 (fst (bind_scope (param_ids params) (param_kinds params) sc ((fv, KF (param_kinds params) (kind_of_ty rt)) :: fl))))
                     (fun fl1 sc1 e => frag_fexpr pv sv bound fl1 k sc1 e) (fun fl1 sc1 e => frag_expr pv sv bound fl1 k sc1 e) k body (kind_of_ty rt))%bool
  then frag_stmts pv sv bound ((fv, KF (param_kinds params) (kind_of_ty rt)) :: fl) k sc rest else None.
Proof. reflexivity. Qed.
Lemma frag_expr_call fl k sc f fsp args sp :
  frag_expr pv sv bound fl (S k) sc (Resolved.ECall (ERead f fsp) args sp) =
  if f =? pv then match args with [a] => (negb (memN pv sc) && frag_expr pv sv bound fl k sc a)%bool | _ => false end
  else match fun_kind fl f with Some (KF ks KP) => frag_args pv sv bound fl k sc ks args | _ => false end.
Proof.
  cbn [frag_expr]. destruct (f =? pv); [reflexivity|]. destruct (fun_kind fl f) as [[|ks [|? ?]]|]; try reflexivity.
  revert args. induction ks as [|K ks IH]; intros [|a args]; try reflexivity.
  destruct K; cbn [frag_args]; rewrite <- IH; reflexivity.
Qed.
Definition go_args (fl : list (N * kind)) (k : nat) (sc : list N) :=
  fix go (ks : list kind) (args : list Resolved.expr) {struct ks} : bool :=
     match ks, args with
     | [], [] => true
     | KP :: ks', a :: args' => frag_expr pv sv bound fl k sc a && go ks' args'
     | K :: ks', a :: args' =>
         match frag_fexpr pv sv bound fl k sc a with Some K' => kind_eqb K' K | None => false end && go ks' args'
     | _, _ => false
     end.
Lemma frag_go_eq fl k sc : forall ks args, go_args fl k sc ks args = frag_args pv sv bound fl k sc ks args.
Proof.
  induction ks as [|K ks IH]; intros [|a args]; try reflexivity.
  destruct K; cbn [frag_args go_args]; fold (go_args fl k sc); rewrite <- IH; reflexivity.
Qed.
Lemma frag_expr_call2 fl k sc callee args sp :
  (forall f fsp, callee <> ERead f fsp) ->
  frag_expr pv sv bound fl (S k) sc (Resolved.ECall callee args sp) =
  match frag_fexpr pv sv bound fl k sc callee with Some (KF ks KP) => frag_args pv sv bound fl k sc ks args | _ => false end.
Proof.
  intros Hn.
  transitivity (match frag_fexpr pv sv bound fl k sc callee with Some (KF ks KP) => go_args fl k sc ks args | _ => false end).
  - destruct callee; try (exfalso; eapply Hn; reflexivity); reflexivity.
  - destruct (frag_fexpr pv sv bound fl k sc callee) as [[|ks0 [|? ?]]|]; try reflexivity. apply frag_go_eq.
Qed.
Lemma frag_fexpr_call fl k sc f fsp args sp :
  frag_fexpr pv sv bound fl (S k) sc (Resolved.ECall (ERead f fsp) args sp) =
  if f =? pv then None
  else match fun_kind fl f with
       | Some (KF ks (KF a r)) => if frag_args pv sv bound fl k sc ks args then Some (KF a r) else None
       | _ => None
       end.
Proof.
  cbn [frag_fexpr]. destruct (f =? pv); [reflexivity|]. destruct (fun_kind fl f) as [[|ks [|ka kr]]|]; try reflexivity.
  match goal with |- (if ?x then _ else _) = (if ?y then _ else _) => replace x with y; [reflexivity|] end.
  revert args. induction ks as [|K ks IH]; intros [|a args]; try reflexivity.
  destruct K; cbn [frag_args]; rewrite IH; reflexivity.
Qed.
Lemma frag_fexpr_call2 fl k sc callee args sp :
  (forall f fsp, callee <> ERead f fsp) ->
  frag_fexpr pv sv bound fl (S k) sc (Resolved.ECall callee args sp) =
  match frag_fexpr pv sv bound fl k sc callee with
  | Some (KF ks (KF a r)) => if frag_args pv sv bound fl k sc ks args then Some (KF a r) else None
  | _ => None
  end.
Proof.
  intros Hn.
  transitivity (match frag_fexpr pv sv bound fl k sc callee with
                | Some (KF ks (KF a r)) => if go_args fl k sc ks args then Some (KF a r) else None
                | _ => None end).
  - destruct callee; try (exfalso; eapply Hn; reflexivity); reflexivity.
  - destruct (frag_fexpr pv sv bound fl k sc callee) as [[|ks0 [|ka kr]]|]; try reflexivity. rewrite frag_go_eq. reflexivity.
Qed.
(* a callee that is not a name *)
Definition not_read (x : Resolved.expr) : Prop := forall f fsp, x <> ERead f fsp.
Lemma read_dec (x : Resolved.expr) : (exists f fsp, x = ERead f fsp) \/ not_read x.
Proof. destruct x; try (right; intros f fsp H; discriminate H). left. eauto. Qed.
(* a definition whose value is a function (the result of a call, a function name): the name joins the functions *)
Definition cdef_next (fl : list (N * kind)) (k : nat) (sc : list N) (s : Resolved.stmt) (ss : list Resolved.stmt) :=
  match s with
  | SDefinition _ x _ _ v _ =>
      match frag_fexpr pv sv bound ((x, KP) :: fl) k sc v with
      | Some K => if fresh_id pv sv bound fl sc x then frag_stmts pv sv bound ((x, K) :: fl) k sc ss else None
      | None => None
      end
  | SAssignment Nop (ERead h _) v _ =>
      match fun_kind fl h, frag_fexpr pv sv bound fl k sc v with
      | Some (KF a r), Some K => if kind_eqb K (KF a r) then frag_stmts pv sv bound fl k sc ss else None
      | _, _ => None
      end
  | _ => None
  end.

Lemma frag_stmts_plain fl k sc s ss :
  is_fundef s = false ->
  frag_stmts pv sv bound fl (S k) sc (s :: ss) =
  match frag_stmt pv sv bound fl k sc s with Some sc' => frag_stmts pv sv bound fl k sc' ss | None => cdef_next fl k sc s ss end.
Proof. destruct s; try reflexivity. destruct value; try reflexivity. discriminate. Qed.
Lemma cdef_next_inv fl k sc s ss r : cdef_next fl k sc s ss = Some r ->
  (exists nm x kd t v sp K, s = SDefinition nm x kd t v sp /\ frag_fexpr pv sv bound ((x, KP) :: fl) k sc v = Some K /\
                            fresh_id pv sv bound fl sc x = true /\ frag_stmts pv sv bound ((x, K) :: fl) k sc ss = Some r) \/
  (exists h hsp v sp a rr, s = SAssignment Nop (ERead h hsp) v sp /\ fun_kind fl h = Some (KF a rr) /\
                           frag_fexpr pv sv bound fl k sc v = Some (KF a rr) /\ frag_stmts pv sv bound fl k sc ss = Some r).
Proof.
  unfold cdef_next. destruct s; try discriminate.
  - destruct op; try discriminate. destruct target; try discriminate.
    destruct (fun_kind fl var) as [[|a rr]|] eqn:Hk; try discriminate.
    destruct (frag_fexpr pv sv bound fl k sc value) as [K|] eqn:Hf; [|discriminate].
    destruct (kind_eqb K (KF a rr)) eqn:He; [|discriminate]. apply kind_eqb_eq in He. subst K.
    intros H. right. do 6 eexists. eauto.
  - destruct (frag_fexpr pv sv bound ((var, KP) :: fl) k sc value) as [K|] eqn:Hf; [|discriminate].
    destruct (fresh_id pv sv bound fl sc var) eqn:Hfr; [|discriminate]. intros H. left. do 7 eexists. eauto.
Qed.
Lemma frag_stmts_nil fl k sc : frag_stmts pv sv bound fl (S k) sc [] = Some (sc, fl).
Proof. reflexivity. Qed.
Lemma frag_stmt_block fl k sc ss sp :
  frag_stmt pv sv bound fl (S k) sc (SBlock ss sp) =
  match frag_stmts pv sv bound fl k sc ss with Some _ => Some sc | None => None end.
Proof. reflexivity. Qed.
Lemma frag_stmt_sexpr fl k sc value sp :
  frag_stmt pv sv bound fl (S k) sc (SStatementExpression value sp) = if frag_expr pv sv bound fl k sc value then Some sc else None.
Proof. reflexivity. Qed.
Lemma frag_stmt_loop fl k sc cond body sp :
  frag_stmt pv sv bound fl (S k) sc (SLoop cond body sp) =
  if (noexit_expr k cond && frag_expr pv sv bound fl k sc cond && is_some (frag_stmts pv sv bound fl k sc body))%bool then Some sc else None.
Proof. reflexivity. Qed.
Lemma frag_stmt_ret fl k sc value sp :
  frag_stmt pv sv bound fl (S k) sc (SRet (Some value) sp) = if frag_expr pv sv bound fl k sc value then Some sc else None.
Proof. reflexivity. Qed.
Lemma frag_stmt_assign fl k sc op v vsp value sp :
  frag_stmt pv sv bound fl (S k) sc (SAssignment op (ERead v vsp) value sp) =
  if (assign_op op && memN v sc && frag_expr pv sv bound fl k sc value)%bool then Some sc else None.
Proof. reflexivity. Qed.
Lemma frag_stmt_def_eq fl k sc name var kd t value sp :
  is_function value = false ->
  frag_stmt pv sv bound fl (S k) sc (SDefinition name var kd t value sp) =
  if (fresh_id pv sv bound fl sc var && frag_expr pv sv bound fl k (var :: sc) value)%bool then Some (var :: sc) else None.
Proof. destruct value; try discriminate; reflexivity. Qed.

Lemma definition_nonfun f var value ctx :
  is_function value = false ->
  definition (S f) var value ctx = (r <- expression f value ctx ;; ret ([IDefine var] ++ fst r ++ [IAssign var (snd r)])).
Proof. destruct value; try discriminate; reflexivity. Qed.

Lemma frag_stmt_def fl k sc name var kd t value sp sc' :
  frag_stmt pv sv bound fl (S k) sc (SDefinition name var kd t value sp) = Some sc' ->
  is_function value = false /\ fresh_id pv sv bound fl sc var = true /\ frag_expr pv sv bound fl k (var :: sc) value = true /\ sc' = var :: sc.
Proof.
  intros H. assert (Hnf : is_function value = false) by (destruct value; try reflexivity; discriminate H).
  rewrite (frag_stmt_def_eq _ _ _ _ _ _ _ _ _ Hnf) in H.
  destruct (fresh_id pv sv bound fl sc var); [|discriminate H]. cbn [andb] in H.
  destruct (frag_expr pv sv bound fl k (var :: sc) value); [|discriminate H]. inversion H. auto.
Qed.

Lemma frag_stmts_app : forall a k fl sc b r,
  frag_stmts pv sv bound fl k sc (a ++ b) = Some r ->
  exists sc1 fl1 k', frag_stmts pv sv bound fl k sc a = Some (sc1, fl1) /\ frag_stmts pv sv bound fl1 k' sc1 b = Some r.
Proof.
  induction a as [|s a IH]; intros k fl sc b r H.
  - exists sc, fl, k. split; [|exact H]. destruct k; [discriminate | reflexivity].
  - destruct k as [|k]; [discriminate|]. cbn [app] in H.
    destruct (is_fundef s) eqn:Hf.
    + destruct s; try discriminate Hf. destruct value; try discriminate Hf. rewrite frag_stmts_fun in H.
      match type of H with (if ?c then _ else _) = _ => destruct c eqn:Hc; [|discriminate H] end.
      destruct (IH _ _ _ _ _ H) as (sc1 & fl1 & k' & A & B). exists sc1, fl1, k'. split; [|exact B].
      rewrite frag_stmts_fun, Hc. exact A.
    + rewrite (frag_stmts_plain _ _ _ _ _ Hf) in H. destruct (frag_stmt pv sv bound fl k sc s) as [sc0|] eqn:Hs.
      * destruct (IH _ _ _ _ _ H) as (sc1 & fl1 & k' & A & B). exists sc1, fl1, k'. split; [|exact B].
        rewrite (frag_stmts_plain _ _ _ _ _ Hf), Hs. exact A.
      * destruct (cdef_next_inv _ _ _ _ _ _ H) as [(nm & x & kd & t & v & sp & K & -> & Hfe & Hfr & Hrest)|(h & hsp & v & sp & a0 & rr & -> & Hk & Hfe & Hrest)].
        -- destruct (IH _ _ _ _ _ Hrest) as (sc1 & fl1 & k' & A & B). exists sc1, fl1, k'. split; [|exact B].
           rewrite (frag_stmts_plain _ _ _ _ _ Hf), Hs. unfold cdef_next. rewrite Hfe, Hfr. exact A.
        -- destruct (IH _ _ _ _ _ Hrest) as (sc1 & fl1 & k' & A & B). exists sc1, fl1, k'. split; [|exact B].
           rewrite (frag_stmts_plain _ _ _ _ _ Hf), Hs. unfold cdef_next. rewrite Hk, Hfe. rewrite kind_eqb_refl. exact A.
Qed.

Lemma frag_stmts_flincl : forall ss k fl sc sc' flr,
  frag_stmts pv sv bound fl k sc ss = Some (sc', flr) -> incl fl flr.
Proof.
  induction ss as [|s ss IH]; intros k fl sc sc' flr H; (destruct k as [|k]; [discriminate|]).
  - cbn in H. inversion H; subst. apply incl_refl.
  - destruct (is_fundef s) eqn:Hf.
    + destruct s; try discriminate Hf. destruct value; try discriminate Hf. rewrite frag_stmts_fun in H.
      match type of H with (if ?c then _ else _) = _ => destruct c eqn:Hc; [|discriminate H] end.
      apply IH in H. intros x Hx. apply H. right. exact Hx.
    + rewrite (frag_stmts_plain _ _ _ _ _ Hf) in H. destruct (frag_stmt pv sv bound fl k sc s) as [sc0|] eqn:Hs; [eapply IH; exact H|].
      destruct (cdef_next_inv _ _ _ _ _ _ H) as [(nm & x & kd & t & v & sp & K & -> & Hfe & Hfr & Hrest)|(h & hsp & v & sp & a0 & rr & -> & Hk & Hfe & Hrest)].
      * apply IH in Hrest. intros y Hy. apply Hrest. right. exact Hy.
      * eapply IH; exact Hrest.
Qed.

Lemma frag_stmts_fnames : forall ss k fl sc sc' flr,
  frag_stmts pv sv bound fl k sc ss = Some (sc', flr) -> incl (fnames fl) (fnames flr).
Proof.
  induction ss as [|s ss IH]; intros k fl sc sc' flr H; (destruct k as [|k]; [discriminate|]).
  - cbn in H. inversion H; subst. apply incl_refl.
  - destruct (is_fundef s) eqn:Hf.
    + destruct s; try discriminate Hf. destruct value; try discriminate Hf. rewrite frag_stmts_fun in H.
      match type of H with (if ?c then _ else _) = _ => destruct c eqn:Hc; [|discriminate H] end.
      apply IH in H. intros x Hx. apply H. right. exact Hx.
    + rewrite (frag_stmts_plain _ _ _ _ _ Hf) in H. destruct (frag_stmt pv sv bound fl k sc s) as [sc0|] eqn:Hs; [eapply IH; exact H|].
      destruct (cdef_next_inv _ _ _ _ _ _ H) as [(nm & x & kd & t & v & sp & K & -> & Hfe & Hfr & Hrest)|(h & hsp & v & sp & a0 & rr & -> & Hk & Hfe & Hrest)].
      * apply IH in Hrest. intros y Hy. apply Hrest. right. exact Hy.
      * eapply IH; exact Hrest.
Qed.

End Eq.

Section Sim.
Variable pv : N.
Variable sv : N.
Variable bound : N.
Variable u : counts.
Variable fl : list (N * kind).

Notation L_stmt := (L_stmt pv sv bound u fl).
Notation L_stmts := (L_stmts pv sv bound u fl).

(* a local function:  local function V<f>(params) <body> end *)
Lemma definition_fun f var name params rt body pure sp ctx :
  definition (S f) var (EFunction name params rt body pure sp) ctx =
  (_ <- fresh ;; bc <- lower_fbody (statement f) (expression f) body ctx ;;
   IR.ret (IFunction var (param_ids params) :: bc ++ [IEnd])).
Proof. reflexivity. Qed.

Lemma cshape_fun_gen l f ps cb bb l1 c c' :
  cshape u l cb bb l1 (c + 1) c' ->
  cshape u l (IFunction f ps :: cb ++ [IEnd]) [SLocalFun (aname l f) (map fmt_var ps) bb] l1 c c'.
Proof.
  intros (H & Hc & Hf & _). split; [|split; [lia | split; [eapply lut_frame_widen; [exact Hf | lia | lia] | repeat constructor]]].
  exact (Em_fun u l f ps cb bb l1 [] [] l1 H (Em_nil u l1)).
Qed.

Lemma cshape_fun l f ps cb bb l1 c c' :
  cshape u l cb bb l1 (c + 1) c' -> alut_get l f = None ->
  cshape u l (IFunction f ps :: cb ++ [IEnd]) [SLocalFun (fmt_var f) (map fmt_var ps) bb] l1 c c'.
Proof.
  intros H Hlf. pose proof (cshape_fun_gen l f ps cb bb l1 c c' H) as He. unfold aname in He. rewrite Hlf in He. exact He.
Qed.

(* two-armed if, and the loop shape *)
Lemma cshape_ifelse l a ct bt l1 ce be l2 c c' :
  cshape u l ct bt l1 c c' -> cshape u l1 ce be l2 c c' ->
  cshape u l (IIf a :: ct ++ IElse :: ce ++ [IEnd]) [SIf (aexpand l a) bt be] l2 c c'.
Proof.
  intros (H1 & Hc1 & Hf1 & _) (H2 & Hc2 & Hf2 & _).
  split; [apply (Em_ifelse u l a ct bt l1 ce be l2 [] [] l2 H1 H2 (Em_nil u l2))|].
  split; [exact Hc1|]. split; [|repeat constructor].
  intros w Hw. rewrite Hf2 by exact Hw. apply Hf1. exact Hw.
Qed.

Lemma cshape_loop l lb cb bb l1 c c' :
  cshape u l cb bb l1 c c' ->
  cshape u l (ILoop :: ILabel lb :: cb ++ [IEnd]) [SWhile ETrue (SLabel (fmt_label lb) :: bb)] l1 c c'.
Proof.
  intros (H & Hc & Hf & _). split; [|split; [exact Hc | split; [exact Hf | repeat constructor]]].
  apply (Em_loop u l (ILabel lb :: cb) (SLabel (fmt_label lb) :: bb) l1 [] [] l1); [|apply Em_nil].
  apply (Em_op u l (ILabel lb) cb bb l1 eq_refl). exact H.
Qed.

(* the block of an if-branch / function-like block whose last expression is assigned to `out` *)
Lemma L_eblock g : (forall fl', L_expr pv sv bound u fl' g) -> L_stmts g ->
  forall k out body ctx c code c' sc scr l,
    lower_eblock (statement g) (expression g) out body ctx c = Ok (code, c') ->
    frag_stmts pv sv bound fl k sc body = Some scr ->
    exists b l', cshape u l code b l' c c'.
Proof.
  intros IHe IHs k out body ctx c code c' sc scr l Hlow Hfrag. unfold lower_eblock in Hlow.
  assert (Hwhole : lower_list (statement g) body ctx c = Ok (code, c') -> exists b l', cshape u l code b l' c c').
  { intros H. apply lower_list_ok in H as (cs & Hm & ->). eapply IHs; eassumption. }
  destruct (rev body) as [|last init_rev] eqn:Hrev; [apply Hwhole; exact Hlow|].
  destruct last; try (apply Hwhole; exact Hlow).
  assert (Hbody : body = rev init_rev ++ [SStatementExpression value sp]) by (rewrite <- (rev_involutive body), Hrev; reflexivity).
  rewrite Hbody in Hfrag. clear Hwhole Hbody Hrev.
  mon Hlow. apply lower_list_ok in Hm as (cs & Hmi & ->).
  destruct (frag_stmts_app _ _ _ _ _ _ _ _ _ Hfrag) as (sc1 & fl1 & k' & Hfi & Hfl).
  destruct k' as [|k']; [discriminate|]. rewrite (frag_stmts_plain pv sv bound fl1) in Hfl by reflexivity.
  destruct k' as [|k'']; [discriminate|]. rewrite frag_stmt_sexpr in Hfl.
  destruct (frag_expr pv sv bound fl1 k'' sc1 value) eqn:Hfe; [|discriminate Hfl].
  destruct a0 as [cv rv]. cbn [fst snd] in *.
  destruct (IHs k (rev init_rev) ctx c cs c0 sc (sc1, fl1) l Hmi Hfi) as (b1 & l1 & Hs1).
  destruct (IHe fl1 k'' value ctx c0 cv rv c' sc1 l1 Hm0 Hfe) as (b2 & l2 & Hs2 & _).
  pose proof Hs2 as (_ & ? & _).
  eexists _, _. eapply cshape_app; [exact Hs1|]. eapply cshape_app; [exact Hs2|].
  apply (cshape_plain u l2 (IAssign out rv) c' c'); [lia | reflexivity | reflexivity | apply used_plain].
Qed.

Lemma map_const_snoc {A B} (x : B) (l : list A) : map (fun _ => x) l ++ [x] = x :: map (fun _ => x) l.
Proof. induction l as [|a l IH]; cbn; [reflexivity | rewrite IH; reflexivity]. Qed.

Lemma L_branches g : (forall fl', L_expr pv sv bound u fl' g) -> L_stmts g ->
  forall brs k out ctx c codes c' sc l,
    mapM (lower_if_branch (statement g) (expression g) out ctx) brs c = Ok (codes, c') ->
    frag_branches pv sv bound fl k sc brs = true ->
    exists b l', cshape u l (concat codes ++ map (fun _ => IEnd) brs) b l' c c'.
Proof.
  intros IHe IHs. induction brs as [|[[cond|] body bsp] brs IH]; intros k out ctx c codes c' sc l Hm Hf.
  - destruct (mapM_nil_ok _ _ _ _ Hm) as [-> ->]. eexists _, _. apply cshape_nil.
  - destruct k as [|k]; [discriminate|]. rewrite frag_branches_some in Hf. frag_split Hf.
    destruct (frag_stmts pv sv bound fl k sc body) as [scb|] eqn:Hfb; [|discriminate Hfr0].
    apply mapM_cons_ok in Hm as (y & c1 & ys & Hy & Hys & ->).
    unfold lower_if_branch in Hy. mon Hy. destruct a as [code_c vc]. cbn [fst snd] in *.
    destruct (IHe fl k cond ctx c code_c vc c0 sc l Hm Hf) as (bc & l1 & Hsc & _).
    destruct (L_eblock g IHe IHs k out body ctx c0 a0 c1 sc scb l1 Hm0 Hfb) as (bb & l2 & Hsb).
    destruct (IH k out ctx c1 ys c' sc l2 Hys Hfr) as (br & l3 & Hsr).
    pose proof Hsc as (_ & ? & _). pose proof Hsb as (_ & ? & _). pose proof Hsr as (_ & ? & _).
    eexists _, _. cbn [concat map].
    match goal with |- cshape _ _ ?code _ _ _ _ =>
      replace code with (code_c ++ (IIf vc :: a0 ++ IElse :: (concat ys ++ map (fun _ : ifbranch => IEnd) brs) ++ [IEnd])) end.
    + eapply cshape_app'; [eapply cshape_widen; [exact Hsc | lia | lia]|].
      eapply cshape_ifelse; (eapply cshape_widen; [eassumption | lia | lia]).
    + rewrite <- (map_const_snoc IEnd brs). cbn [app]. rewrite <- !app_assoc. cbn [app]. rewrite <- !app_assoc. reflexivity.
  - destruct k as [|k]; [discriminate|]. rewrite frag_branches_none in Hf. destruct brs; [|discriminate Hf].
    destruct (frag_stmts pv sv bound fl k sc body) as [scb|] eqn:Hfb; [|discriminate Hf].
    apply mapM_cons_ok in Hm as (y & c1 & ys & Hy & Hys & ->). destruct (mapM_nil_ok _ _ _ _ Hys) as [-> <-].
    unfold lower_if_branch in Hy. mon Hy. fresh_all.
    set (l1 := snd (aiis u l c ETrue)).
    match goal with H : lower_eblock _ _ _ _ _ _ = Ok (?a0, _) |- _ =>
      destruct (L_eblock g IHe IHs k out body ctx (c + 1) a0 c' sc scb l1 H Hfb) as (bb & l2 & Hsb) end.
    pose proof Hsb as (_ & ? & _).
    eexists _, _. cbn [concat map app]. rewrite app_nil_r.
    eapply cshape_cons'; [eapply (cshape_iis u l (IBool c true) c ETrue c c'); [lia | reflexivity | reflexivity]|].
    apply cshape_if. eapply cshape_widen; [exact Hsb | lia | lia].
Qed.

(* the arguments of a call, one after the other: plain expressions or function-valued ones *)
Definition arg_ok (k : nat) (sc : list N) (a : Resolved.expr) : Prop :=
  frag_expr pv sv bound fl k sc a = true \/ exists K, frag_fexpr pv sv bound fl k sc a = Some K.

Lemma frag_args_ok k sc : forall ks args, frag_args pv sv bound fl k sc ks args = true -> Forall (arg_ok k sc) args.
Proof.
  induction ks as [|K ks IH]; intros [|a args] H; cbn [frag_args] in H; try discriminate; [constructor | destruct K; discriminate |].
  destruct K.
  - apply andb_prop in H as [Ha Hr]. constructor; [left; exact Ha | apply IH; exact Hr].
  - apply andb_prop in H as [Ha Hr]. constructor; [|apply IH; exact Hr].
    destruct (frag_fexpr pv sv bound fl k sc a) as [K'|] eqn:Hf; [|discriminate Ha]. right. eauto.
Qed.

Lemma L_args g : L_expr pv sv bound u fl g -> L_fexpr pv sv bound u fl g ->
  forall args k ctx c rs c' sc l,
    mapM (fun a => expression g a ctx) args c = Ok (rs, c') ->
    Forall (arg_ok k sc) args ->
    exists b l', cshape u l (concat (map fst rs)) b l' c c' /\ (forall r, In r rs -> c <= snd r < c').
Proof.
  intros IH IHF. induction args as [|a args IHa]; intros k ctx c rs c' sc l Hm Hf.
  - destruct (mapM_nil_ok _ _ _ _ Hm) as [-> ->]. eexists _, _. split; [apply cshape_nil | intros r []].
  - apply mapM_cons_ok in Hm as (y & c1 & ys & Hy & Hys & ->). inversion Hf as [|? ? Hfa Hfs]; subst.
    destruct y as [code_a va].
    assert (H1 : exists b1 l1, cshape u l code_a b1 l1 c c1 /\ c <= va /\ va < c1).
    { destruct Hfa as [Hfa|(K & Hfa)]; [exact (IH k a ctx c code_a va c1 sc l Hy Hfa) | exact (IHF k a K ctx c code_a va c1 sc l Hy Hfa)]. }
    destruct H1 as (b1 & l1 & Hs1 & Hv1 & Hv2).
    destruct (IHa k ctx c1 ys c' sc l1 Hys Hfs) as (b2 & l2 & Hs2 & Hrs).
    pose proof Hs1 as (_ & Hc1 & _). pose proof Hs2 as (_ & Hc2 & _).
    eexists _, _. split; [cbn [map concat fst]; eapply cshape_app; eassumption|].
    intros r [<-|Hr]; [cbn [snd]; lia | specialize (Hrs r Hr); lia].
Qed.

(* the callee of a call by name *)
Lemma L_read g f fsp ctx c code v c' l :
  expression g (ERead f fsp) ctx c = Ok ((code, v), c') -> exists b l', cshape u l code b l' c c' /\ c <= v /\ v < c'.
Proof.
  intros Hlow. destruct g as [|g]; [discriminate|]. cbn [expression] in Hlow. mon Hlow. fresh_all. injection H as <- <-.
  eexists _, _. split; [|lia]. apply cshape_plain; [lia | reflexivity | reflexivity | apply used_plain].
Qed.

(* a call: the callee, the arguments, the call *)
Lemma L_call g : L_expr pv sv bound u fl g -> L_fexpr pv sv bound u fl g ->
  forall callee args sp k ctx c code v c' sc l,
    expression (S g) (Resolved.ECall callee args sp) ctx c = Ok ((code, v), c') ->
    (forall l0 cf codef vf cf', expression g callee ctx cf = Ok ((codef, vf), cf') ->
       exists b l', cshape u l0 codef b l' cf cf' /\ cf <= vf /\ vf < cf') ->
    Forall (arg_ok k sc) args ->
    exists b l', cshape u l code b l' c c' /\ c <= v /\ v < c'.
Proof.
  intros IH IHF callee args sp k ctx c code v c' sc l Hlow Hcal Hargs.
  cbn [expression] in Hlow. mon Hlow. fresh_all. injection H as <- <-.
  destruct a as [codef vf]. cbn [fst snd] in *.
  destruct (Hcal l _ _ _ _ Hm) as (b_f & l0 & Hsf & _ & _).
  destruct (L_args g IH IHF args k ctx _ _ _ sc l0 Hm0 Hargs) as (b_a & l1 & Hsa & Hrs).
  pose proof Hsf as (_ & Hcf & _). pose proof Hsa as (_ & Hca & _).
  eexists _, _. split.
  - eapply cshape_app; [exact Hsf|]. eapply cshape_app; [exact Hsa|].
    apply (cshape_plain u l1 _ c1 (c1 + 1)); [lia | reflexivity | reflexivity | reflexivity].
  - lia.
Qed.

(* function-valued expressions: a function name, a lambda, a call that returns a function *)
Lemma L_fexpr_succ g : L_expr pv sv bound u fl g -> L_fexpr pv sv bound u fl g -> (forall fl', L_fb pv sv bound u fl' g) ->
  L_fexpr pv sv bound u fl (S g).
Proof.
  intros IH IHF IHB k x K ctx c code v c' sc l Hlow Hf.
  destruct k as [|k]; [discriminate|]. destruct x; try discriminate Hf.
  - (* ERead *)
    cbn [expression] in Hlow. mon Hlow. fresh_all. injection H as <- <-.
    eexists _, _. split; [|lia]. apply cshape_plain; [lia | reflexivity | reflexivity | apply used_plain].
  - (* ECall *)
    destruct (read_dec x) as [(f & fsp & ->)|Hnr].
    + rewrite frag_fexpr_call in Hf. destruct (f =? pv); [discriminate Hf|].
      destruct (fun_kind fl f) as [[|ks [|ka kr]]|]; try discriminate Hf.
      destruct (frag_args pv sv bound fl k sc ks args) eqn:Hc; [|discriminate Hf].
      eapply L_call; [exact IH | exact IHF | exact Hlow | intros l0 cf codef vf cf' Hx; eapply L_read; exact Hx | eapply frag_args_ok; exact Hc].
    + rewrite (frag_fexpr_call2 _ _ _ _ _ _ _ _ _ Hnr) in Hf.
      destruct (frag_fexpr pv sv bound fl k sc x) as [[|ks [|ka kr]]|] eqn:Hfx; try discriminate Hf.
      destruct (frag_args pv sv bound fl k sc ks args) eqn:Hc; [|discriminate Hf].
      eapply L_call; [exact IH | exact IHF | exact Hlow | intros l0 cf codef vf cf' Hx; eapply IHF; [exact Hx | exact Hfx] | eapply frag_args_ok; exact Hc].
  - (* EFunction *)
    cbn [frag_fexpr] in Hf.
    match type of Hf with (if ?b then _ else _) = _ => destruct b eqn:Hc; [|discriminate Hf] end.
    apply andb_prop in Hc as [_ Hb].
    cbn [expression] in Hlow. mon Hlow. fresh_all. injection H as <- <-.
    destruct (IHB _ k body _ ctx (c + 1) a0 c' _ l Hm0 Hb) as (bb & l1 & Hsb).
    pose proof Hsb as (_ & Hcc & _).
    eexists _, _. split; [apply cshape_fun_gen; exact Hsb | lia].
Qed.

Lemma L_expr_succ g : (forall fl', L_expr pv sv bound u fl' g) -> L_stmts g -> L_fexpr pv sv bound u fl g -> L_expr pv sv bound u fl (S g).
Proof.
  intros IHall IHs IHF. pose proof (IHall fl) as IH. intros k x ctx c code v c' sc l Hlow Hfrag.
  destruct k as [|k]; [discriminate|].
  destruct x; try discriminate Hfrag; cbn [frag_expr] in Hfrag.
  - (* ERead *)
    cbn [expression] in Hlow. mon Hlow. fresh_all. injection H as <- <-.
    eexists _, _. split; [|lia].
    apply cshape_plain; [lia | reflexivity | reflexivity | apply used_plain].
  - (* ECall: print(a), f(a1, ..., an), or a computed callee *)
    change (frag_expr pv sv bound fl (S k) sc (Resolved.ECall x args sp) = true) in Hfrag.
    destruct (read_dec x) as [(var & sp0 & ->)|Hnr].
    + rewrite frag_expr_call in Hfrag.
      assert (Hargs : Forall (arg_ok k sc) args).
      { destruct (var =? pv).
        - destruct args as [|a [|? ?]]; try discriminate Hfrag. frag_split Hfrag. constructor; [left; exact Hfr | constructor].
        - destruct (fun_kind fl var) as [[|ks [|? ?]]|]; try discriminate Hfrag. eapply frag_args_ok. exact Hfrag. }
      eapply L_call; [exact IH | exact IHF | exact Hlow | intros l0 cf codef vf cf' Hx; eapply L_read; exact Hx | exact Hargs].
    + rewrite (frag_expr_call2 _ _ _ _ _ _ _ _ _ Hnr) in Hfrag.
      destruct (frag_fexpr pv sv bound fl k sc x) as [[|ks [|? ?]]|] eqn:Hfx; try discriminate Hfrag.
      eapply L_call; [exact IH | exact IHF | exact Hlow | intros l0 cf codef vf cf' Hx; eapply IHF; [exact Hx | exact Hfx] | eapply frag_args_ok; exact Hfrag].
  - (* EBinOp *)
    frag_split Hfrag.
    destruct op; try discriminate Hfrag.
    all: cbn [expression] in Hlow; mon Hlow; fresh_all.
    all: match goal with Ha : expression _ _ _ ?c0 = Ok (?ra, ?c1), Hb' : expression _ _ _ ?c1 = Ok (?rb, _) |- _ =>
           destruct ra as [code_a va]; destruct rb as [code_b vb]; cbn [fst snd] in *;
           destruct (IH k _ _ _ _ _ _ sc l Ha Hfr0) as (b1 & l1 & Hs1 & ? & ?);
           pose proof (fun l0 => IH k _ _ _ _ _ _ sc l0 Hb' Hfr) as Hb2
         end.
    all: pose proof Hs1 as (_ & ? & _).
    (* the six comparisons, + - * : one iis instruction *)
    all: try (destruct (Hb2 l1) as (b2 & l2 & Hs2 & ? & ?); pose proof Hs2 as (_ & ? & _);
              cbn [binop_ir] in Hlow; apply ret_ok in Hlow as [Heq <-]; injection Heq as <- <-;
              eexists _, _; split; [|lia];
              eapply cshape_app; [exact Hs1|]; eapply cshape_app; [exact Hs2|];
              eapply (cshape_iis u l2 _ c1); [lia | reflexivity | reflexivity]).
    + (* <=> *)
      destruct (Hb2 l1) as (b2 & l2 & Hs2 & ? & ?); pose proof Hs2 as (_ & ? & _).
      inj_code.
      eexists _, _. split; [|lia].
      eapply cshape_app; [exact Hs1|]. eapply cshape_app; [exact Hs2|].
      eapply cshape_cons; [eapply (cshape_iis u l2 _ c1 _ c1 (c1 + 1)); [lia | reflexivity | reflexivity]|].
      apply (cshape_plain u _ (IAssert c1) (c1 + 1) (c1 + 1)); [lia | reflexivity | reflexivity | reflexivity].
    + (* and *)
      inj_code.
      set (l1' := snd (aiis u l1 (c1 + 1) EFalse)).
      destruct (Hb2 l1') as (b2 & l2 & Hs2 & ? & ?); pose proof Hs2 as (_ & ? & _).
      eexists _, _. split; [|lia].
      eapply cshape_app'; [eapply cshape_widen; [exact Hs1 | lia | lia]|].
      eapply cshape_cons'; [apply (cshape_plain u l1 (IDefine c1) c (c1 + 1 + 1)); [lia | reflexivity | reflexivity | apply used_plain]|].
      eapply cshape_cons'; [eapply (cshape_iis u l1 (IBool (c1 + 1) false) (c1 + 1) EFalse c (c1 + 1 + 1)); [lia | reflexivity | reflexivity]|].
      eapply cshape_cons'; [apply (cshape_plain u l1' (IAssign c1 (c1 + 1)) c (c1 + 1 + 1)); [lia | reflexivity | reflexivity | apply used_plain]|].
      replace (code_b ++ [IAssign c1 vb; IEnd]) with ((code_b ++ [IAssign c1 vb]) ++ [IEnd]) by (rewrite <- app_assoc; reflexivity).
      apply cshape_if.
      eapply cshape_app'; [eapply cshape_widen; [exact Hs2 | lia | lia]|].
      apply (cshape_plain u l2 (IAssign c1 vb) c (c1 + 1 + 1)); [lia | reflexivity | reflexivity | apply used_plain].
    + (* or *)
      inj_code.
      set (l1' := snd (aiis u l1 (c1 + 1 + 1) ETrue)).
      set (l1'' := snd (aiis u l1' c1 (EParen (EUn UNot (aexpand l1' va))))).
      destruct (Hb2 l1'') as (b2 & l2 & Hs2 & ? & ?); pose proof Hs2 as (_ & ? & _).
      eexists _, _. split; [|lia].
      eapply cshape_app'; [eapply cshape_widen; [exact Hs1 | lia | lia]|].
      eapply cshape_cons'; [apply (cshape_plain u l1 (IDefine (c1 + 1)) c (c1 + 1 + 1 + 1)); [lia | reflexivity | reflexivity | apply used_plain]|].
      eapply cshape_cons'; [eapply (cshape_iis u l1 (IBool (c1 + 1 + 1) true) (c1 + 1 + 1) ETrue c (c1 + 1 + 1 + 1)); [lia | reflexivity | reflexivity]|].
      eapply cshape_cons'; [apply (cshape_plain u l1' (IAssign (c1 + 1) (c1 + 1 + 1)) c (c1 + 1 + 1 + 1)); [lia | reflexivity | reflexivity | apply used_plain]|].
      eapply cshape_cons'; [eapply (cshape_iis u l1' (INot c1 va) c1 _ c (c1 + 1 + 1 + 1)); [lia | reflexivity | reflexivity]|].
      replace (code_b ++ [IAssign (c1 + 1) vb; IEnd]) with ((code_b ++ [IAssign (c1 + 1) vb]) ++ [IEnd]) by (rewrite <- app_assoc; reflexivity).
      apply cshape_if.
      eapply cshape_app'; [eapply cshape_widen; [exact Hs2 | lia | lia]|].
      apply (cshape_plain u l2 (IAssign (c1 + 1) vb) c (c1 + 1 + 1 + 1)); [lia | reflexivity | reflexivity | apply used_plain].
  - (* EUniOp *)
    destruct op; cbn [expression] in Hlow; mon Hlow; fresh_all; inj_code.
    all: match goal with Ha : expression _ _ _ _ = Ok (?ra, _) |- _ =>
           destruct ra as [code_a va]; cbn [fst snd] in *;
           destruct (IH k _ _ _ _ _ _ sc l Ha Hfrag) as (b1 & l1 & Hs1 & ? & ?)
         end.
    all: pose proof Hs1 as (_ & ? & _).
    all: eexists _, _; (split; [|lia]); (eapply cshape_app; [exact Hs1|]).
    all: eapply (cshape_iis u l1 _ c0); [lia | reflexivity | reflexivity].
  - (* EIf *)
    change (frag_branches pv sv bound fl k sc branches = true) in Hfrag.
    cbn [expression] in Hlow. mon Hlow. fresh_all. inj_code.
    destruct (L_branches g IHall IHs branches k c ctx (c + 1) a0 c' sc l Hm0 Hfrag) as (b1 & l1 & Hs1).
    pose proof Hs1 as (_ & ? & _).
    eexists _, _. split; [|lia].
    eapply cshape_cons'; [apply (cshape_plain u l (IDefine c) c c'); [lia | reflexivity | reflexivity | apply used_plain]|].
    eapply cshape_widen; [exact Hs1 | lia | lia].
  - (* EInt *)
    cbn [expression] in Hlow. mon Hlow. fresh_all. inj_code.
    eexists _, _. split; [|lia]. eapply (cshape_iis u l _ c); [lia | reflexivity | reflexivity].
  - (* EStr *)
    cbn [expression] in Hlow. mon Hlow. fresh_all. inj_code.
    eexists _, _. split; [|lia]. eapply (cshape_iis u l _ c); [lia | reflexivity | reflexivity].
  - (* EBool *)
    cbn [expression] in Hlow. mon Hlow. fresh_all. inj_code.
    eexists _, _. split; [|lia]. eapply (cshape_iis u l _ c); [lia | reflexivity | reflexivity].
Qed.


Lemma L_stmt_succ g : (forall g', (g' <= g)%nat -> L_expr pv sv bound u fl g') -> L_stmts g -> L_stmt (S g).
Proof.
  intros IHe IHs k s ctx c code c' sc sc' l Hlow Hfrag.
  destruct k as [|k]; [discriminate|].
  destruct s; try discriminate Hfrag.
  - (* SAssignment *)
    destruct target; try discriminate Hfrag. rewrite frag_stmt_assign in Hfrag.
    destruct (assign_op op && memN var sc && frag_expr pv sv bound fl k sc value)%bool eqn:Hc; [|discriminate Hfrag].
    frag_split Hc.
    cbn [statement] in Hlow. mon Hlow. fresh_all. apply ret_ok in Hm0 as [<- <-]. cbn beta iota in Hlow. mon Hlow.
    destruct a as [code_v rv]. cbn [fst snd app] in *.
    destruct (IHe g (Nat.le_refl g) k value ctx (c + 1) code_v rv c0 sc l Hm Hfr) as (b1 & l1 & Hs1 & ? & ?).
    pose proof Hs1 as (_ & ? & _).
    assert (Hop : c' = c0 /\ simple_op a0 = true /\
              ((exists ex, forall l0, agen_one u l0 a0 = aiis u l0 c (ex l0)) \/ (not_label_op a0 = true /\ forall l0, snd (agen_one u l0 a0) = l0))).
    { destruct op; try discriminate Hc; apply ret_ok in Hm0 as [<- <-]; (split; [reflexivity|]); (split; [reflexivity|]).
      - right. split; [reflexivity|]. intros l0. apply used_plain.
      - left. exists (fun l0 => acall "__ADD" [aexpand l0 var; aexpand l0 rv]). intros l0. reflexivity.
      - left. exists (fun l0 => abin OSub (aexpand l0 var) (aexpand l0 rv)). intros l0. reflexivity.
      - left. exists (fun l0 => abin OMul (aexpand l0 var) (aexpand l0 rv)). intros l0. reflexivity. }
    destruct Hop as (-> & Hsimple & Hkind).
    destruct Hkind as [(ex & Hex) | (Hnl & Hsame)]; (eexists _, _; eapply cshape_app'; [eapply cshape_widen; [exact Hs1 | lia | lia]|]).
    + eapply cshape_cons'; [eapply (cshape_iis u l1 a0 c (ex l1) c c0); [lia | exact Hsimple | apply Hex]|].
      apply (cshape_plain u _ (IAssign var c) c c0); [lia | reflexivity | reflexivity | apply used_plain].
    + eapply cshape_cons'; [apply (cshape_plain u l1 a0 c c0); [lia | exact Hsimple | exact Hnl | apply Hsame]|].
      apply (cshape_plain u l1 (IAssign var c) c c0); [lia | reflexivity | reflexivity | apply used_plain].
  - (* SDefinition *)
    destruct (frag_stmt_def _ _ _ _ _ _ _ _ _ _ _ _ _ Hfrag) as (Hnf & Hfresh & Hfe & ->).
    cbn [statement] in Hlow. destruct g as [|g']; [discriminate|].
    rewrite (definition_nonfun g' var value ctx Hnf) in Hlow. mon Hlow.
    destruct a as [code_v rv]. cbn [fst snd] in *.
    destruct (IHe g' (Nat.le_succ_diag_r g') k value ctx c code_v rv c' (var :: sc) l Hm Hfe) as (b1 & l1 & Hs1 & ? & ?).
    pose proof Hs1 as (_ & ? & _).
    eexists _, _.
    eapply cshape_cons; [apply (cshape_plain u l (IDefine var) c c); [lia | reflexivity | reflexivity | apply used_plain]|].
    eapply cshape_app; [exact Hs1|].
    apply (cshape_plain u l1 (IAssign var rv) c' c'); [lia | reflexivity | reflexivity | apply used_plain].
  - (* SLoop *)
    rewrite frag_stmt_loop in Hfrag.
    destruct (noexit_expr k condition && frag_expr pv sv bound fl k sc condition && is_some (frag_stmts pv sv bound fl k sc body))%bool eqn:Hc; [|discriminate Hfrag].
    frag_split Hc. destruct (frag_stmts pv sv bound fl k sc body) as [scb|] eqn:Hfb; [|discriminate Hfr].
    cbn [statement] in Hlow. mon Hlow. fresh_all.
    destruct a as [code_c vc]. cbn [fst snd] in *.
    apply lower_list_ok in Hm1 as (cs & Hmb & ->).
    destruct (IHe g (Nat.le_refl g) k condition ctx c code_c vc c0 sc l Hm Hfr0) as (bc & l1 & Hsc & ? & ?).
    destruct (IHs k body c0 (c0 + 1) cs c' sc scb l1 Hmb Hfb) as (bb & l2 & Hsb).
    pose proof Hsc as (_ & ? & _). pose proof Hsb as (_ & ? & _).
    eexists _, _.
    replace ([ILoop; ILabel c0] ++ code_c ++ [IIf vc; IElse; IBreak; IEnd] ++ concat cs ++ [IEnd])
      with (ILoop :: ILabel c0 :: (code_c ++ (IIf vc :: [] ++ IElse :: [IBreak] ++ [IEnd]) ++ concat cs) ++ [IEnd])
      by (cbn [app]; rewrite <- !app_assoc; reflexivity).
    apply cshape_loop.
    eapply cshape_app'; [eapply cshape_widen; [exact Hsc | lia | lia]|].
    eapply cshape_app'; [|eapply cshape_widen; [exact Hsb | lia | lia]].
    eapply cshape_ifelse; [apply cshape_nil'; lia|].
    apply (cshape_plain u l1 IBreak c c'); [lia | reflexivity | reflexivity | reflexivity].
  - (* SBreak *)
    cbn in Hlow. inversion Hlow; subst. eexists _, _.
    apply (cshape_plain u l IBreak c' c'); [lia | reflexivity | reflexivity | reflexivity].
  - (* SContinue *)
    cbn in Hlow. inversion Hlow; subst. eexists _, _.
    apply (cshape_plain u l (IGoto ctx) c' c'); [lia | reflexivity | reflexivity | reflexivity].
  - (* SRet *)
    destruct value as [value|]; [|discriminate Hfrag]. rewrite frag_stmt_ret in Hfrag. cbn [statement] in Hlow. mon Hlow.
    destruct (frag_expr pv sv bound fl k sc value) eqn:Hfe; [|discriminate Hfrag].
    destruct a as [code_v rv]. cbn [fst snd] in *.
    destruct (IHe g (Nat.le_refl g) k value ctx c code_v rv c' sc l Hm Hfe) as (b1 & l1 & Hs1 & _).
    pose proof Hs1 as (_ & Hcc & _).
    eexists _, _. eapply cshape_app; [exact Hs1|].
    apply (cshape_plain u l1 (IReturn rv) c' c'); [lia | reflexivity | reflexivity | reflexivity].
  - (* SBlock *)
    rewrite frag_stmt_block in Hfrag. cbn [statement] in Hlow. apply lower_list_ok in Hlow as (cs & Hm & ->).
    destruct (frag_stmts pv sv bound fl k sc statements) as [sc1|] eqn:Hs; [|discriminate Hfrag].
    eapply IHs; eassumption.
  - (* SStatementExpression *)
    rewrite frag_stmt_sexpr in Hfrag. cbn [statement] in Hlow. mon Hlow.
    destruct (frag_expr pv sv bound fl k sc value) eqn:Hfe; [|discriminate Hfrag].
    destruct a as [code_v rv]. cbn [fst] in *.
    destruct (IHe g (Nat.le_refl g) k value ctx c code_v rv c' sc l Hm Hfe) as (b1 & l1 & Hs1 & _).
    eexists _, _. exact Hs1.
Qed.

Lemma L_stmt_zero : L_stmt O.
Proof. intros k s ctx c code c' sc sc' l H. discriminate. Qed.

End Sim.

(* ---- statement lists, in which the callable functions change, and all levels together ---- *)
Section All.
Variable pv : N.
Variable sv : N.
Variable bound : N.
Variable u : counts.

Lemma split_last_app {A} (l : list A) x : split_last (l ++ [x]) = Some (l, x).
Proof. induction l as [|a l IH]; cbn; [reflexivity | rewrite IH; reflexivity]. Qed.

Lemma L_stmts_of g :
  (forall fl, L_stmt pv sv bound u fl g) -> (forall fl g2, g = S (S g2) -> L_fb pv sv bound u fl g2) ->
  (forall fl g2, g = S (S g2) -> L_fexpr pv sv bound u fl g2) ->
  (forall fl g1, g = S g1 -> L_fexpr pv sv bound u fl g1) ->
  forall fl, L_stmts pv sv bound u fl g.
Proof.
  intros IH IHF IHX IHX1 fl k ss. revert k fl. induction ss as [|s ss IHss]; intros k fl ctx c cs c' sc scr l Hm Hf.
  - destruct (mapM_nil_ok _ _ _ _ Hm) as [-> ->]. eexists _, _. apply cshape_nil.
  - destruct k as [|k]; [discriminate|].
    apply mapM_cons_ok in Hm as (y & c1 & ys & Hy & Hys & ->). cbn [concat].
    destruct (is_fundef s) eqn:Hfd.
    + destruct s; try discriminate Hfd. destruct value; try discriminate Hfd. rewrite frag_stmts_fun in Hf.
      match type of Hf with (if ?b then _ else _) = _ => destruct b eqn:Hc; [|discriminate Hf] end.
      apply andb_prop in Hc as [_ Hfb].
      destruct g as [|[|g2]]; [cbn in Hy; discriminate Hy | cbn in Hy; discriminate Hy |].
      cbn [statement] in Hy. rewrite definition_fun in Hy. mon Hy. fresh_all.
      destruct (IHF _ g2 eq_refl k body _ ctx (c + 1) a0 c1 _ l Hm0 Hfb) as (bb & l1 & Hsb).
      destruct (IHss k _ ctx c1 ys c' sc scr l1 Hys Hf) as (b2 & l2 & Hs2).
      eexists _, _. eapply cshape_app; [apply cshape_fun_gen; exact Hsb | exact Hs2].
    + rewrite (frag_stmts_plain _ _ _ _ _ _ _ _ Hfd) in Hf.
      destruct (frag_stmt pv sv bound fl k sc s) as [sc1|] eqn:Hs.
      * destruct (IH fl k s ctx c y c1 sc sc1 l Hy Hs) as (b1 & l1 & Hs1).
        destruct (IHss k fl ctx c1 ys c' sc1 scr l1 Hys Hf) as (b2 & l2 & Hs2).
        eexists _, _. eapply cshape_app; eassumption.
      * (* x :: <function value> *)
        destruct (cdef_next_inv _ _ _ _ _ _ _ _ _ Hf) as [(nm & x & kd & t & v & sp & K & -> & Hfe & Hfr & Hrest)|(h & hsp & v & sp & a0 & rr & -> & Hk & Hfe & Hrest)].
        2: { (* h = <function value> *)
          destruct g as [|[|g2]]; [cbn in Hy; discriminate Hy | cbn in Hy; discriminate Hy |]. cbn [statement] in Hy.
          mon Hy. fresh_all. apply ret_ok in Hm0 as [<- <-]. cbn beta iota in Hy. mon Hy. apply ret_ok in Hm0 as [<- <-].
          destruct a as [code_v rv]. cbn [fst snd app] in *.
          destruct (IHX1 fl (S g2) eq_refl k v _ ctx (c + 1) code_v rv _ sc l Hm Hfe) as (b1 & l1 & Hs1 & ? & ?).
          destruct (IHss k _ ctx _ ys c' sc scr l1 Hys Hrest) as (b2 & l2 & Hs2).
          pose proof Hs1 as (_ & ? & _).
          eexists _, _. eapply cshape_app; [|exact Hs2].
          eapply cshape_app'; [eapply cshape_widen; [exact Hs1 | lia | lia]|].
          eapply cshape_cons'; [apply (cshape_plain u l1 (ICopy c rv) c _); [lia | reflexivity | reflexivity | apply used_plain]|].
          apply (cshape_plain u l1 (IAssign h c) c _); [lia | reflexivity | reflexivity | apply used_plain]. }
        assert (Hnf : is_function v = false) by (destruct v; try reflexivity; discriminate Hfd).
        destruct g as [|[|g2]]; [cbn in Hy; discriminate Hy | cbn in Hy; discriminate Hy |]. cbn [statement] in Hy.
        rewrite (definition_nonfun g2 x v ctx Hnf) in Hy. mon Hy. destruct a as [code_v rv]. cbn [fst snd] in *.
        destruct (IHX _ g2 eq_refl k v K ctx c code_v rv c1 sc l Hm Hfe) as (b1 & l1 & Hs1 & ? & ?).
        destruct (IHss k _ ctx c1 ys c' sc scr l1 Hys Hrest) as (b2 & l2 & Hs2).
        pose proof Hs1 as (_ & ? & _).
        eexists _, _. eapply cshape_app; [|exact Hs2].
        eapply cshape_cons; [apply (cshape_plain u l (IDefine x) c c); [lia | reflexivity | reflexivity | apply used_plain]|].
        eapply cshape_app; [exact Hs1|].
        apply (cshape_plain u l1 (IAssign x rv) c1 c1); [lia | reflexivity | reflexivity | apply used_plain].
Qed.

(* guards  if c do ret <function value> end *)
Lemma guard_parts_inv s cnd fx : guard_parts s = Some (cnd, fx) ->
  exists sp1 sp2 sp3 sp4, s = SStatementExpression (EIf [IfBranch (Some cnd) [SRet (Some fx) sp1] sp2] sp3) sp4.
Proof.
  intros H. unfold guard_parts in H.
  repeat match type of H with
         | context [match ?x with _ => _ end] => is_var x; destruct x; try discriminate H
         end.
  inversion H; subst. eauto.
Qed.

Lemma take_init_app : forall l i g, take_init l = (i, g) -> l = i ++ g.
Proof.
  induction l as [|s t IH]; intros i g H; cbn [take_init] in H.
  - inversion H; reflexivity.
  - destruct (guard_parts s); [inversion H; reflexivity|].
    destruct (take_init t) as [i' g'] eqn:Ht. inversion H; subst. cbn [app]. f_equal. apply IH. reflexivity.
Qed.

Lemma mapM_app_split {A B} (f : A -> M B) a b : forall c r c',
  mapM f (a ++ b) c = Ok (r, c') ->
  exists ra c1 rb, mapM f a c = Ok (ra, c1) /\ mapM f b c1 = Ok (rb, c') /\ r = ra ++ rb.
Proof.
  induction a as [|x a IH]; intros c r c' H.
  - exists [], c, r. split; [reflexivity | split; [exact H | reflexivity]].
  - cbn [app] in H. apply mapM_cons_ok in H as (y & c2 & ys & Hy & Hys & ->).
    destruct (IH _ _ _ Hys) as (ra & c1 & rb & Ha & Hb & ->).
    exists (y :: ra), c1, rb. split; [|split; [exact Hb | reflexivity]].
    cbn [mapM]. unfold IR.bind, IR.ret. rewrite Hy, Ha. reflexivity.
Qed.

Lemma L_guard g :
  (forall g', (g' <= g)%nat -> forall fl, L_expr pv sv bound u fl g') -> (forall g', (g' <= g)%nat -> forall fl, L_fexpr pv sv bound u fl g') ->
  forall fl k s cnd fx K ctx c code c' sc l,
    guard_parts s = Some (cnd, fx) -> statement g s ctx c = Ok (code, c') ->
    frag_expr pv sv bound fl k sc cnd = true -> frag_fexpr pv sv bound fl k sc fx = Some K ->
    exists b l', cshape u l code b l' c c'.
Proof.
  intros He Hx fl k s cnd fx K ctx c code c' sc l Hg Hlow Hfc Hff.
  destruct (guard_parts_inv _ _ _ Hg) as (sp1 & sp2 & sp3 & sp4 & ->).
  destruct g as [|g1]; [discriminate Hlow|]. cbn [statement] in Hlow. mon Hlow.
  destruct g1 as [|g2]; [discriminate Hm|]. cbn [expression] in Hm. mon Hm. fresh_all. cbn [fst].
  apply mapM_cons_ok in Hm1 as (y & c1 & ys & Hy & Hnil & ->). apply mapM_nil_ok in Hnil as [-> ->].
  unfold lower_if_branch in Hy. mon Hy. destruct a as [code_c vc]. cbn [fst snd] in *.
  unfold lower_eblock in Hm0. cbn [rev app] in Hm0. unfold lower_list in Hm0. mon Hm0.
  apply mapM_cons_ok in Hm1 as (y2 & c2 & ys2 & Hy2 & Hnil & ->). apply mapM_nil_ok in Hnil as [-> ->].
  destruct g2 as [|g3]; [discriminate Hy2|]. cbn [statement] in Hy2. mon Hy2. destruct a as [code_f rv]. cbn [fst snd concat map] in *.
  rewrite !app_nil_r.
  destruct (He (S g3) ltac:(lia) fl k cnd ctx _ code_c vc _ sc l Hm Hfc) as (bc & l1 & Hsc & _).
  destruct (Hx g3 ltac:(lia) fl k fx K ctx _ code_f rv _ sc l1 Hm0 Hff) as (bf & l2 & Hsf & _).
  pose proof Hsc as (_ & ? & _). pose proof Hsf as (_ & ? & _).
  eexists _, _.
  eapply cshape_cons'; [apply (cshape_plain u l (IDefine c) c _); [lia | reflexivity | reflexivity | apply used_plain]|].
  match goal with |- cshape _ _ ?code _ _ _ _ => replace code with (code_c ++ (IIf vc :: (code_f ++ [IReturn rv]) ++ IElse :: [] ++ [IEnd])) end.
  - eapply cshape_app'; [eapply cshape_widen; [exact Hsc | lia | lia]|].
    eapply cshape_ifelse; [|apply cshape_nil'].
    + eapply cshape_app'; [eapply cshape_widen; [exact Hsf | lia | lia]|].
      apply (cshape_plain u l2 (IReturn rv) c _); [lia | reflexivity | reflexivity | reflexivity].
    + lia.
  - repeat (first [rewrite <- app_assoc | progress cbn [app]]). reflexivity.
Qed.

(* the body of a function: its last statement, if an expression, is returned *)
Lemma L_fb_of g : (forall g', (g' <= g)%nat -> forall fl, L_expr pv sv bound u fl g') -> (forall fl, L_stmts pv sv bound u fl g) ->
  (forall g', (g' <= g)%nat -> forall fl, L_fexpr pv sv bound u fl g') -> forall fl, L_fb pv sv bound u fl g.
Proof.
  intros He IHs Hx fl k body rk ctx c code c' sc l Hlow Hcheck. unfold lower_fbody in Hlow.
  pose proof (fun fl0 => He g (Nat.le_refl g) fl0) as IHe. pose proof (fun fl0 => Hx g (Nat.le_refl g) fl0) as IHX.
  destruct (rev body) as [|last init_rev] eqn:Hrev.
  - apply ret_ok in Hlow as [<- <-]. eexists _, _. apply cshape_nil.
  - assert (Hbody : body = rev init_rev ++ [last]) by (rewrite <- (rev_involutive body), Hrev; reflexivity).
    clear Hrev. mon Hlow. apply lower_list_ok in Hm as (cs & Hmi & ->).
    unfold fbody_check in Hcheck. destruct rk as [|ka kr].
    + (* a plain result *)
      match type of Hcheck with match ?x with _ => _ end = _ => destruct x as [scr|] eqn:Hfrag; [|discriminate Hcheck] end.
      destruct (frag_stmts_app _ _ _ _ _ _ _ _ _ Hfrag) as (sc1 & fl1 & k' & Hfi & Hfl).
      destruct (IHs fl k (rev init_rev) ctx c cs c0 sc (sc1, fl1) l Hmi Hfi) as (b1 & l1 & Hs1).
      assert (Hgen : forall y, statement g last ctx c0 = Ok (y, c') -> exists b l', cshape u l (concat cs ++ y) b l' c c').
      { intros y Hy. assert (Hm1 : mapM (fun s => statement g s ctx) [last] c0 = Ok ([y], c')) by (cbn [mapM]; unfold IR.bind, IR.ret; rewrite Hy; reflexivity).
        destruct (IHs fl1 k' [last] ctx c0 [y] c' sc1 scr l1 Hm1 Hfl) as (b2 & l2 & Hs2). cbn [concat] in Hs2. rewrite app_nil_r in Hs2.
        eexists _, _. eapply cshape_app; eassumption. }
      destruct last; try (apply Hgen; exact Hm0).
      clear Hgen. destruct k' as [|k']; [discriminate|]. rewrite (frag_stmts_plain pv sv bound fl1) in Hfl by reflexivity.
      destruct k' as [|k'']; [discriminate|]. rewrite frag_stmt_sexpr in Hfl.
      destruct (frag_expr pv sv bound fl1 k'' sc1 value) eqn:Hfe; [|discriminate Hfl].
      mon Hm0. destruct a as [cv rv]. cbn [fst snd] in *.
      destruct (IHe fl1 k'' value ctx c0 cv rv c' sc1 l1 Hm Hfe) as (b2 & l2 & Hs2 & _).
      pose proof Hs2 as (_ & ? & _).
      eexists _, _. eapply cshape_app; [exact Hs1|]. eapply cshape_app; [exact Hs2|].
      apply (cshape_plain u l2 (IReturn rv) c' c'); [lia | reflexivity | reflexivity | reflexivity].
    + (* a function result: statements that stay, guards, then a function-valued expression or ret of one *)
      rewrite split_last_app in Hcheck.
      destruct (tail_fexpr last) as [fx|] eqn:Htl; [|discriminate Hcheck].
      destruct (take_init (rev init_rev)) as [init guards] eqn:Hti.
      apply andb_prop in Hcheck as [_ Hcheck].
      destruct (frag_stmts pv sv bound fl k sc init) as [[sc1 fl1]|] eqn:Hfi; [|discriminate Hcheck].
      apply andb_prop in Hcheck as [Hcheck Hgs].
      destruct (frag_fexpr pv sv bound fl1 k sc1 fx) as [K|] eqn:Hfe; [|discriminate Hcheck].
      apply take_init_app in Hti. rewrite Hti in Hmi.
      apply mapM_app_split in Hmi as (cs1 & cm & cs2 & Hmi1 & Hmi2 & ->). rewrite concat_app, <- app_assoc.
      destruct (IHs fl k init ctx c cs1 cm sc (sc1, fl1) l Hmi1 Hfi) as (b1 & l1 & Hs1).
      assert (Hguards : forall l0, exists bg lg, cshape u l0 (concat cs2) bg lg cm c0).
      { clear - He Hx Hgs Hmi2. revert cs2 cm Hmi2 Hgs. induction guards as [|G gs IHg]; intros cs2 cm Hmi2 Hgs l0.
        - destruct (mapM_nil_ok _ _ _ _ Hmi2) as [-> ->]. eexists _, _. apply cshape_nil.
        - cbn [forallb] in Hgs. apply andb_prop in Hgs as [HG Hgs].
          apply mapM_cons_ok in Hmi2 as (y & c1 & ys & Hy & Hys & ->). cbn [concat].
          destruct (guard_parts G) as [[cnd gfx]|] eqn:HGp; [|discriminate HG].
          apply andb_prop in HG as [HG Hk4]. apply andb_prop in HG as [HG _]. apply andb_prop in HG as [_ Hfc].
          destruct (frag_fexpr pv sv bound fl1 k sc1 gfx) as [K'|] eqn:Hff; [|discriminate Hk4].
          destruct (L_guard g He Hx fl1 k G cnd gfx K' ctx cm y c1 sc1 l0 HGp Hy Hfc Hff) as (bg1 & lg1 & Hsg1).
          destruct (IHg ys c1 Hys Hgs lg1) as (bg2 & lg2 & Hsg2).
          eexists _, _. eapply cshape_app; eassumption. }
      destruct (Hguards l1) as (bg & lg & Hsg).
      destruct last; try discriminate Htl.
      * (* ret fx *)
        destruct value as [value|]; [|discriminate Htl]. cbn [tail_fexpr] in Htl. inversion Htl; subst fx.
        destruct g as [|g']; [discriminate Hm0|]. cbn [statement] in Hm0. mon Hm0. destruct a as [cv rv]. cbn [fst snd] in *.
        destruct (Hx g' ltac:(lia) fl1 k value K ctx c0 cv rv c' sc1 lg Hm Hfe) as (b2 & l2 & Hs2 & _).
        pose proof Hs2 as (_ & ? & _).
        eexists _, _. eapply cshape_app; [exact Hs1|]. eapply cshape_app; [exact Hsg|]. eapply cshape_app; [exact Hs2|].
        apply (cshape_plain u l2 (IReturn rv) c' c'); [lia | reflexivity | reflexivity | reflexivity].
      * cbn [tail_fexpr] in Htl. inversion Htl; subst fx.
        mon Hm0. destruct a as [cv rv]. cbn [fst snd] in *.
        destruct (IHX fl1 k value K ctx c0 cv rv c' sc1 lg Hm Hfe) as (b2 & l2 & Hs2 & _).
        pose proof Hs2 as (_ & ? & _).
        eexists _, _. eapply cshape_app; [exact Hs1|]. eapply cshape_app; [exact Hsg|]. eapply cshape_app; [exact Hs2|].
        apply (cshape_plain u l2 (IReturn rv) c' c'); [lia | reflexivity | reflexivity | reflexivity].
Qed.

Lemma L_fexpr_zero fl : L_fexpr pv sv bound u fl O.
Proof. intros k x K ctx c code v c' sc l H. discriminate. Qed.

Theorem L_all g : forall g', (g' <= g)%nat -> forall fl,
  L_expr pv sv bound u fl g' /\ L_stmt pv sv bound u fl g' /\ L_stmts pv sv bound u fl g' /\ L_fb pv sv bound u fl g' /\
  L_fexpr pv sv bound u fl g'.
Proof.
  induction g as [|g IH]; intros g' Hg.
  - assert (g' = O) by lia. subst.
    assert (Hs0 : forall fl, L_stmts pv sv bound u fl O).
    { apply L_stmts_of; [intros fl; apply L_stmt_zero | intros fl g2 H; discriminate H | intros fl g2 H; discriminate H | intros fl g2 H; discriminate H]. }
    intros fl. split; [apply L_expr_zero|]. split; [apply L_stmt_zero|]. split; [apply Hs0|].
    split; [|apply L_fexpr_zero]. apply L_fb_of; [intros g' Hg' fl'; assert (g' = O) by lia; subst; apply L_expr_zero | exact Hs0 | intros g' Hg' fl'; assert (g' = O) by lia; subst; apply L_fexpr_zero].
  - destruct (Nat.eq_dec g' (S g)) as [->|Hne]; [|apply IH; lia].
    assert (He : forall g', (g' <= g)%nat -> forall fl, L_expr pv sv bound u fl g') by (intros g'' H fl; apply IH; exact H).
    assert (Hs : forall fl, L_stmts pv sv bound u fl g) by (intros fl; apply (IH g (Nat.le_refl g) fl)).
    assert (Hx : forall fl, L_fexpr pv sv bound u fl g) by (intros fl; apply (IH g (Nat.le_refl g) fl)).
    assert (Hb : forall fl, L_fb pv sv bound u fl g) by (intros fl; apply (IH g (Nat.le_refl g) fl)).
    assert (He1 : forall fl, L_expr pv sv bound u fl (S g)) by (intros fl; apply L_expr_succ; [intros fl'; apply He; lia | apply Hs | apply Hx]).
    assert (Hst1 : forall fl, L_stmt pv sv bound u fl (S g)) by (intros fl; apply L_stmt_succ; [intros g'' H; apply He; exact H | apply Hs]).
    assert (Hx1 : forall fl, L_fexpr pv sv bound u fl (S g)) by (intros fl; apply L_fexpr_succ; [apply He; lia | apply Hx | exact Hb]).
    assert (Hss1 : forall fl, L_stmts pv sv bound u fl (S g)).
    { apply L_stmts_of; [exact Hst1 | intros fl g2 Heq; apply (IH g2); lia | intros fl g2 Heq; apply (IH g2); lia | intros fl g1 Heq; apply (IH g1); lia]. }
    intros fl. split; [apply He1|]. split; [apply Hst1|]. split; [apply Hss1|]. split; [|apply Hx1]. apply L_fb_of; try assumption.
    + intros g' Hg' fl'. destruct (Nat.eq_dec g' (S g)) as [->|Hne']; [apply He1 | apply He; lia].
    + intros g' Hg' fl'. destruct (Nat.eq_dec g' (S g)) as [->|Hne']; [apply Hx1 | apply (IH g'); lia].
Qed.

Theorem L_expr_all fl g : L_expr pv sv bound u fl g.
Proof. apply (L_all g g (Nat.le_refl g) fl). Qed.
Theorem L_stmt_all fl g : L_stmt pv sv bound u fl g.
Proof. apply (L_all g g (Nat.le_refl g) fl). Qed.
Theorem L_stmts_all fl g : L_stmts pv sv bound u fl g.
Proof. apply (L_all g g (Nat.le_refl g) fl). Qed.
Theorem L_fb_all fl g : L_fb pv sv bound u fl g.
Proof. apply (L_all g g (Nat.le_refl g) fl). Qed.
Theorem L_fexpr_all fl g : L_fexpr pv sv bound u fl g.
Proof. apply (L_all g g (Nat.le_refl g) fl). Qed.

End All.
