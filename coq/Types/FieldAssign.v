(* C03, assignment of a value of the wrong type to a field.
   After `B :: blob { .., k: t, .. }` (leaf type t) and `b := B { .. }` / `b :: B { .. }`, the class of b is a blob
   type whose field k has type t (var_field, extension-closed).  An assignment `b.k = lit` with a literal of another
   type: the target `b.k` gets a fresh class constrained to be field k of b's class, the check of that constraint
   unifies it with the field's class (type t), and the unification with the literal's class fails. *)
From Coq Require Import String List NArith ZArith PArith Bool Lia FMapPositive.
From Sylt Require Import Syntax.Resolved Types.TyGraph Types.Tc Types.Ctx Types.TcInv Types.Reject Types.Mismatch
  Types.ShapesDecl Types.CopyInst Types.Calls Types.CallsDecl Types.BlobFields.
Import ListNotations.
Local Open Scope tc_scope.

(* two declarations, then the use *)
Lemma iterM_notok_after2 {A} (f : A -> M unit) (Inv1 Inv2 : st -> Prop) pre d1 mid1 d2 mid2 x post :
  (forall y, pres (f y)) ->
  (forall s s', wf s -> ext s s' -> Inv1 s -> Inv1 s') ->
  (forall s s', wf s -> ext s s' -> Inv2 s -> Inv2 s') ->
  (forall s u s', wf s -> f d1 s = Ok (u, s') -> Inv1 s') ->
  (forall s u s', wf s -> Inv1 s -> f d2 s = Ok (u, s') -> Inv2 s') ->
  (forall s, wf s /\ Inv2 s -> notok (f x s)) ->
  forall s, wf s -> notok (iterM f (pre ++ d1 :: mid1 ++ d2 :: mid2 ++ x :: post) s).
Proof.
  intros P IE1 IE2 Hd1 Hd2 Hx.
  assert (Stage2 : forall s, wf s -> Inv1 s -> notok (iterM f (mid1 ++ d2 :: mid2 ++ x :: post) s)).
  { induction mid1 as [|m mid1 IH]; intros s W I1; cbn [app iterM].
    - apply bind_cases; [apply P|assumption|]. intros u s1 H1 W1 E1.
      apply (iterM_notok_j _ (inv_pres_closed Inv2 IE2)); [assumption|assumption|].
      split; [assumption|]. exact (Hd2 _ _ _ W I1 H1).
    - apply bind_cases; [apply P|assumption|]. intros u s1 H1 W1 E1. apply IH; [assumption|]. exact (IE1 _ _ W E1 I1). }
  induction pre as [|p pre IH]; intros s W; cbn [app iterM].
  - apply bind_cases; [apply P|assumption|]. intros u s1 H1 W1 E1. apply Stage2; [assumption|]. exact (Hd1 _ _ _ W H1).
  - apply bind_cases; [apply P|assumption|]. intros u s1 H1 W1 E1. now apply IH.
Qed.

Section VarField.
  Variable bv : N.                (* the variable *)
  Variable k : string.
  Variable b : basety.
  Hypothesis b_rigid : rigid_base b = true.
  Notation V := (N.succ_pos bv).

  Definition var_field (s : st) : Prop :=
    exists name sp fs args spk c, head s V = Some (HBlob name sp fs args) /\ flookup k fs = Some (spk, c) /\
                                  head s c = Some (base_head b).

  Lemma var_field_ext s s' : wf s -> ext s s' -> var_field s -> var_field s'.
  Proof. apply (blob_sig_ext bv k b b_rigid). Qed.
End VarField.

Section Rules.
  Variable kinds : PositiveMap.t varkind.
  Variable g : nat.
  Notation G := (gfix g).
  Notation afix := (afix kinds G).
  Let PG : gpres G := gfix_pres g.
  Let PA f : apres (afix f) := afix_pres kinds G PG f.

  Variable v : N.                 (* the blob type B *)
  Variable bv : N.                (* the variable b *)
  Variable k : string.
  Variable b : basety.
  Hypothesis b_rigid : rigid_base b = true.

  (* ---- an instantiation of B yields a blob class whose field k has the declared type *)
  Lemma blob_inst_field fields self sp f ctx s r s' :
    wf s -> blob_sig v k b s -> r_expr (afix f) (EBlob v fields self sp) ctx s = Ok (r, s') ->
    wf s' /\ ext s s' /\
    exists name bsp fs args spk c, head s' (snd r) = Some (HBlob name bsp fs args) /\ flookup k fs = Some (spk, c) /\
                                   head s' c = Some (base_head b).
  Proof.
    intros W (name & bsp & fs & bargs & spk & c & Hh & Hk & Hc) H.
    destruct (ap_expr _ (PA f) _ _ _ _ _ W H) as [W' E']. split; [assumption|]. split; [assumption|].
    destruct f as [|f]; [discriminate|]. cbn [Tc.afix astep r_expr] in H. unfold expr_body in H.
    apply bind_inv in H as ([er ex] & s1 & H1 & H). cbv beta iota in H1.
    apply bind_inv in H1 as (bt & s2 & Hv & H1). apply ShapesDecl_var_ty_inv in Hv as [-> ->].
    apply bind_inv in H1 as (blob_ty & s3 & Hcp & H1).
    destruct (copy_shape _ _ _ _ _ W Hcp) as (W3 & F3 & (h0 & h' & Hh0 & Hh' & [Sh _])).
    rewrite Hh in Hh0. injection Hh0 as <-.
    assert (K : kid (HBlob name bsp fs bargs) (KField k) = Some c) by (cbn [kid]; rewrite Hk; reflexivity).
    destruct (copy_leaf_kids g (N.succ_pos v) s blob_ty s3 _ (KField k) c (base_head b) W Hcp Hh K Hc b_rigid) as (h'' & cb & X1 & Kb & Hcb).
    rewrite Hh' in X1. injection X1 as <-.
    rewrite (bind_ok _ _ _ _ _ (find_type_ok _ _ _ Hh')) in H1.
    destruct h'; try discriminate Sh.
    apply bind_inv_pres0 in H1 as (given & s4 & Hg & W4 & E4 & H1);
      [|apply pres_foldM; intros; apply pres_bind; [apply pres_push|intros; apply pres_ret]|assumption].
    match type of H1 with (match ?l with _ => _ end) _ = _ => destruct l as [|e1 more] end; [|discriminate].
    apply bind_inv_pres0 in H1 as (given_blob & s5 & Hp & W5 & E5 & H1); [|apply pres_push|assumption].
    apply bind_inv in H1 as (sty & s6 & Hs & H1). apply ShapesDecl_var_ty_inv in Hs as [-> ->].
    apply bind_inv_pres0 in H1 as (u1 & s7 & Hu1 & W7 & E7 & H1); [|apply (TcInv.pres_unify G PG)|assumption].
    assert (W8 : wf s7) by exact W7. assert (E8 : ext s7 s7) by apply ext_refl.
    apply bind_inv_pres0 in H1 as (u2 & s9 & Hit & W9 & E9 & H1);
      [|apply pres_foldM; intros b0 y; pose proof PG; pose proof (PA f); prs; apply (ap_expr _ (PA f))|assumption].
    apply bind_inv in H1 as (uf & s10 & Hf & H1). injection H1 as <- <- <-.
    destruct (unify_result_head _ _ _ _ _ _ _ W9 Hf) as (W10 & E10 & Hru & Heq).
    assert (E3x : ext s3 s10).
    { eapply ext_trans; [exact E4|]. eapply ext_trans; [exact E5|]. eapply ext_trans; [exact E7|]. eapply ext_trans; [exact E8|].
      eapply ext_trans; [exact E9|exact E10]. }
    pose proof E3x as (_ & _ & _ & E4' & _).
    destruct (E4' _ _ Hh' eq_refl) as (hb & Hhb & Shb).
    destruct (kid_shape _ _ _ _ Shb Kb) as [cb' Kb'].
    pose proof (kid_keep _ _ _ _ _ _ _ _ _ E3x Hh' Hhb Kb Kb' Hcb b_rigid) as Hcb'.
    assert (Hu : head s10 uf = Some hb) by (rewrite Hru, Heq; exact Hhb).
    destruct hb; try discriminate Shb.
    rewrite (bind_ok _ _ _ _ _ (find_type_ok _ _ _ Hu)) in H. injection H as <- <-. cbn [snd].
    pose proof Kb' as Kb''. cbn [kid] in Kb''.
    match type of Kb'' with option_map snd (flookup k ?ff) = _ => destruct (flookup k ff) as [[spk' c0]|] eqn:Ef end; [|discriminate].
    cbn in Kb''. injection Kb'' as ->.
    do 4 eexists. exists spk', cb'. split; [exact Hu|]. split; [exact Ef|exact Hcb'].
  Qed.

  (* ---- `b := B { .. }` gives b that type *)
  Lemma var_field_established name kind dty fields self isp dsp f s u s' :
    wf s -> blob_sig v k b s ->
    outer_statement kinds G (afix f) (SDefinition name bv kind dty (EBlob v fields self isp) dsp) ctx_new s = Ok (u, s') ->
    var_field bv k b s'.
  Proof.
    intros W Sg H. unfold outer_statement in H. apply bind_inv in H as (vr & s1 & H & Hu). injection Hu as _ <-.
    unfold definition in H. cbn [ctx_new inside_pure andb] in H.
    apply bind_inv in H as (vt & s2 & Hv & H). apply ShapesDecl_var_ty_inv in Hv as [-> ->].
    rewrite (bind_ok (ret tt) _ s tt s eq_refl) in H.
    apply bind_inv_pres0 in H as (dt & s3 & _ & W3 & E3 & H); [|apply pres_resolve_type, PA|assumption].
    apply bind_inv_pres0 in H as (u4 & s4 & _ & W4 & E4 & H); [|apply pres_add_constraint|assumption].
    apply bind_inv_pres0 in H as (u5 & s5 & _ & W5 & E5 & H); [|apply (TcInv.pres_unify G PG)|assumption].
    apply bind_inv in H as ([vr0 vty] & s6 & He & H).
    assert (E05 : ext s s5) by (eapply ext_trans; [exact E3|]; eapply ext_trans; [exact E4|exact E5]).
    destruct (blob_inst_field _ _ _ _ _ _ _ _ W5 (blob_sig_ext v k b b_rigid _ _ W E05 Sg) He)
      as (W6 & E6 & (nm & bsp & fs & args & spk & c & Hh & Hk & Hc)). cbn [snd] in Hh.
    apply bind_inv in H as (u7 & s7 & Hu & H). injection H as _ <-.
    destruct (unify_result_head _ _ _ _ _ _ _ W6 Hu) as (W7 & E7 & _ & Heq).
    pose proof E7 as (_ & _ & _ & E4' & _).
    destruct (E4' _ _ Hh eq_refl) as (hb & Hhb & Shb).
    assert (K : kid (HBlob nm bsp fs args) (KField k) = Some c) by (cbn [kid]; rewrite Hk; reflexivity).
    destruct (kid_shape _ _ _ _ Shb K) as [c' K'].
    pose proof (kid_keep _ _ _ _ _ _ _ _ _ E7 Hh Hhb K K' Hc b_rigid) as Hc'.
    destruct hb; try discriminate Shb.
    pose proof K' as K''. cbn [kid] in K''.
    match type of K'' with option_map snd (flookup k ?ff) = _ => destruct (flookup k ff) as [[spk' c0]|] eqn:Ef end; [|discriminate].
    cbn in K''. injection K'' as ->.
    do 4 eexists. exists spk', c'. split; [rewrite Heq; exact Hhb|]. split; [exact Ef|exact Hc'].
  Qed.

  (* ---- what a successful check_constraints tells about one constraint of the class *)
  Lemma iterM_in_inv {A} (fn : A -> M unit) l x s u s' :
    (forall y, pres (fn y)) -> wf s -> In x l -> iterM fn l s = Ok (u, s') ->
    exists s1 s2, wf s1 /\ ext s s1 /\ fn x s1 = Ok (tt, s2) /\ wf s2 /\ ext s1 s2 /\ wf s' /\ ext s2 s'.
  Proof.
    intros P. revert s. induction l as [|p l IH]; intros s W Hin H; [destruct Hin|]. cbn [iterM] in H.
    apply bind_inv in H as ([] & s0 & H1 & H). destruct (P p _ _ _ W H1) as [W0 E0].
    destruct Hin as [->|Hin].
    - destruct (pres_iterM fn l P _ _ _ W0 H) as [W' E'].
      exists s, s0. repeat (split; [first [assumption|apply ext_refl]|]). assumption.
    - destruct (IH _ W0 Hin H) as (s1 & s2 & X1 & X2 & X3 & X4 & X5 & X6 & X7).
      exists s1, s2. split; [assumption|]. split; [eapply ext_trans; eassumption|]. auto.
  Qed.

  Lemma check_ok_con sp a c s u s' :
    wf s -> has_con s a c -> g_check G sp a s = Ok (u, s') ->
    exists g' s1 s2, wf s1 /\ ext s s1 /\ check_one (gfix g') sp a c s1 = Ok (tt, s2) /\ wf s2 /\ ext s1 s2 /\ wf s' /\ ext s2 s'.
  Proof.
    intros W (r & n & Hr & Hn & Hc) H. destruct g as [|g0]; [discriminate|].
    cbn [gfix gstep g_check] in H. unfold check_body in H.
    assert (Fn : find_node a s = Ok (n, s)).
    { unfold find_node, find, get_node, bind, ret. unfold rep, lk in *.
      destruct (PositiveMap.find a (nodes s)) as [x|]; [|discriminate]. cbn in Hr. injection Hr as ->.
      rewrite Hn. reflexivity. }
    rewrite (bind_ok _ _ _ _ _ Fn) in H.
    destruct (iterM_in_inv (check_one (gfix g0) sp a) (ncons n) c s u s') as (s1 & s2 & X);
      [intros y; apply pres_check_one, gfix_pres|assumption|assumption|assumption|].
    exists g0, s1, s2. exact X.
  Qed.

  (* ---- reading a variable whose type is not a function type gives its class, and nothing happens *)
  Lemma read_plain x sp f ctx s r s' h :
    head s (N.succ_pos x) = Some h -> (match h with HFn _ _ _ => False | _ => True end) ->
    r_expr (afix f) (ERead x sp) ctx s = Ok (r, s') -> r = (None, N.succ_pos x) /\ s' = s.
  Proof.
    intros Hh Nf H. destruct f as [|f]; [discriminate|]. cbn [Tc.afix astep r_expr] in H. unfold expr_body in H.
    apply bind_inv in H as ([er ex] & s1 & H1 & H). cbv beta iota in H1.
    apply bind_inv in H1 as (tn & s2 & Ht & H1). apply is_type_name_inv in Ht as [-> _].
    destruct tn; [discriminate|].
    apply bind_inv in H1 as (kd & s3 & Hk & H1).
    assert (s3 = s) by (unfold var_kind in Hk; destruct (PositiveMap.find _ kinds); [now injection Hk|discriminate]).
    subst s3. destruct (inside_pure ctx && negb (immutable kd)); [discriminate|].
    apply bind_inv in H1 as (t0 & s4 & Hvt & H1). apply ShapesDecl_var_ty_inv in Hvt as [-> ->].
    injection H1 as <- <- <-.
    rewrite (bind_ok _ _ _ _ _ (find_type_ok _ _ _ Hh)) in H. destruct h; try contradiction; injection H as <- <-; auto.
  Qed.

  (* ---- the assignment *)
  Lemma rej_field_assign r1 asp lit sp ta f ctx s :
    wf s -> var_field bv k b s -> lit_type lit = Some ta -> rigid ta = true -> same_shape ta (base_head b) = false ->
    notok (r_stmt (afix f) (SAssignment Nop (EBlobAccess (ERead bv r1) k asp) lit sp) ctx s).
  Proof.
    intros W VF Ll Rl Sh [r s'] H.
    destruct f as [|f]; [discriminate|]. cbn [Tc.afix astep r_stmt] in H. unfold stmt_body in H.
    apply bind_inv in H as (u0 & s0 & Hca & H). cbn [can_assign] in Hca. injection Hca as <- <-.
    destruct (inside_pure ctx); [discriminate|].
    apply bind_inv in H as ([er ety] & s1 & He & H).
    destruct (lit_spec _ _ _ lit _ _ _ _ _ Ll Rl W He) as (W1 & E1 & Hety). cbn [snd] in Hety.
    apply bind_inv in H as ([tr tty] & s2 & Ht & H).
    (* the target b.k *)
    destruct f as [|f]; [discriminate|]. cbn [Tc.afix astep r_expr] in Ht. unfold expr_body in Ht.
    apply bind_inv in Ht as ([er' ex'] & s3 & Ht1 & Ht). cbv beta iota in Ht1.
    apply bind_inv in Ht1 as ([oret outer] & s4 & Hrd & Ht1).
    destruct (var_field_ext bv k b b_rigid _ _ W E1 VF) as (nm1 & sp1 & fs1 & ar1 & spk1 & c1 & Hh1 & Hk1 & Hc1).
    destruct (read_plain _ _ _ _ _ _ _ _ Hh1 I Hrd) as [Er ->]. injection Er as -> ->.
    apply bind_inv in Ht1 as (field_ty & s5 & Hp & Ht1). destruct (push_spec _ _ _ _ W1 Hp) as (W5 & E5 & _).
    apply bind_inv in Ht1 as (u6 & s6 & H6 & Ht1).
    destruct (add_constraint_spec _ _ _ _ _ W5 H6) as (W6 & E6 & _ & _ & C6 & _).
    apply bind_inv in Ht1 as (u7 & s7 & H7 & Ht1).
    destruct (check_ok_con _ _ _ _ _ _ W6 C6 H7) as (g' & sa & sb & Wa & Ea & Hc & Wb & Eb & W7 & E7).
    (* the field constraint, checked in the state sa *)
    assert (E1a : ext s1 sa) by (eapply ext_trans; [exact E5|]; eapply ext_trans; [exact E6|exact Ea]).
    assert (VFa : var_field bv k b sa).
    { eapply var_field_ext; [exact b_rigid|exact W1|exact E1a|]. exists nm1, sp1, fs1, ar1, spk1, c1. auto. }
    destruct VFa as (nma & spa & fsa & ara & spka & ca & Hha & Hka & Hca).
    cbn [check_one] in Hc. rewrite (bind_ok _ _ _ _ _ (find_type_ok _ _ _ Hha)) in Hc. rewrite Hka in Hc.
    apply bind_inv in Hc as (uu & sc & Hun & Hc). injection Hc as <-.
    destruct (unify_result_head _ _ _ _ _ _ _ Wa Hun) as (_ & Eab & _ & Heq).
    assert (Hft7 : head s7 field_ty = Some (base_head b)).
    { eapply head_keep; [exact E7| |exact b_rigid]. rewrite Heq. exact (head_keep _ _ _ _ Eab Hca b_rigid). }
    (* the rest of the access *)
    assert (E17 : ext s1 s7) by (eapply ext_trans; [exact E1a|]; eapply ext_trans; [exact Eb|exact E7]).
    pose proof E17 as (_ & _ & _ & E4' & _). destruct (E4' _ _ Hh1 eq_refl) as (h7 & Hh7 & Sh7).
    rewrite (bind_ok _ _ _ _ _ (find_type_ok _ _ _ Hh7)) in Ht1.
    assert (Ht1' : Ok ((@None tyid, field_ty), s7) = Ok ((er', ex'), s3)).
    { destruct h7; try discriminate Sh7. cbn in Ht1. exact Ht1. }
    injection Ht1' as <- <- <-.
    rewrite (bind_ok _ _ _ _ _ (find_type_ok _ _ _ Hft7)) in Ht.
    assert (Ht' : Ok ((@None tyid, field_ty), s7) = Ok ((tr, tty), s2)).
    { unfold rigid_base in b_rigid. destruct (base_head b); try discriminate b_rigid; exact Ht. }
    injection Ht' as <- <- <-.
    (* the literal's class and the field's class do not unify *)
    rewrite (bind_ok (ret tt) _ s7 tt s7 eq_refl) in H.
    apply bind_inv in H as (u8 & s8 & H8 & _). apply bind_inv in H8 as (u9 & s9 & H9 & _).
    eapply (unify_rejects g sp ety field_ty s7 ta (base_head b) W7); try eassumption.
    - exact (head_keep _ _ _ _ E17 Hety Rl).
    - now apply rigid_known.
    - now apply rigid_known.
  Qed.
End Rules.

(* After `B :: blob { .., k: t, .. }` (field k declared with the leaf type t) and a later top-level `b := B { .. }` /
   `b :: B { .. }`, an assignment `b.k = lit` with a literal of another type, at any statement position inside the
   value of a later top-level definition, is rejected. *)
Theorem C03_field_assign_rejected name v sp tvars bfields k b bname bv bkind bdty fields self isp bdsp r1 asp lit asgsp ta :
  rigid_base b = true -> In k (map fst bfields) ->
  (forall ksp t, In (k, (ksp, t)) bfields -> exists tsp, t = TResolved b tsp) ->
  lit_type lit = Some ta -> rigid ta = true -> same_shape ta (base_head b) = false ->
  let stm := SAssignment Nop (EBlobAccess (ERead bv r1) k asp) lit asgsp in
  forall e pre mid1 mid2 post dname dvar dkind dty (C : ectx) dsp fuel vars,
    is_shole_e C = true ->
    typecheck fuel (mkResolved vars
      (pre ++ SBlob name v sp tvars bfields false :: mid1 ++
       SDefinition bname bv bkind bdty (EBlob v fields self isp) bdsp :: mid2 ++
       SDefinition dname dvar dkind dty (plug_e e stm C) dsp :: post)) <> Ok tt.
Proof.
  intros Rb Hin Ht Ll Rl Sh stm e pre mid1 mid2 post dname dvar dkind dty C dsp fuel vars HC.
  apply typecheck_notok_main. intros s W.
  set (kinds := kinds_of vars 1 (PositiveMap.empty varkind)).
  pose proof (gfix_pres fuel) as PG. pose proof (afix_pres kinds (gfix fuel) PG fuel) as PA.
  apply (iterM_notok_after2 _ (blob_sig v k b) (var_field bv k b)); try assumption.
  - intros y. now apply pres_outer_statement.
  - intros s0 s1 W0 E0. now apply blob_sig_ext.
  - intros s0 s1 W0 E0. now apply var_field_ext.
  - intros s0 u s1 W0 H0. eapply blob_field_established; eassumption.
  - intros s0 u s1 W0 I0 H0. eapply var_field_established; eassumption.
  - intros s0 J0. cbv beta.
    set (J := fun s => wf s /\ var_field bv k b s).
    assert (HJ : pres_closed J) by (apply inv_pres_closed; intros; eapply var_field_ext; eassumption).
    apply (outer_def_notok_j kinds (gfix fuel) PG J HJ e stm); [assumption|].
    assert (Rs : forall c, rej_s_j kinds (gfix fuel) J stm c).
    { intros c f s' [W' V']. eapply rej_field_assign; eassumption. }
    apply (proj1 (at_shole (rej_e_j kinds (gfix fuel) J e) (rej_s_j kinds (gfix fuel) J stm) Rs)). exact HC.
Qed.
