-- expect[5.3]: 15	23	1001.0	12	2.5	3	8.0	-2	-16
-- expect[5.3]: 9	-9	2.5	5.0	0.5	5	-5	100.0	10
-- expect[5.3]: false	attempt to perform arithmetic on a string value
-- expect[5.3]: false	attempt to perform arithmetic on a string value
-- expect[5.3]: false	attempt to perform arithmetic on a string value
-- expect[5.3]: false	attempt to perform arithmetic on a string value
-- expect[5.3]: false	attempt to perform arithmetic on a string value
-- expect[5.3]: false	attempt to perform arithmetic on a string value
-- expect[5.3]: false	attempt to perform arithmetic on a string value
-- expect[5.3]: false	attempt to perform arithmetic on a string value
-- expect[5.3]: 15	mm(10,x)	mm(x,10)	mm(x,1)	mm(2,y)	2
-- expect[5.3]: table-add	table-add	table-add
-- expect[5.3]: false	attempt to compare number with string
-- expect[5.3]: false	attempt to compare string with number
-- expect[5.3]: false	attempt to compare string with number
-- expect[5.3]: true	false	1020	1	a1.5
-- expect[5.3]: 3	10	abab	56
-- expect[jit]: 15	23	1001	12	2.5	3	8	-2	-16
-- expect[jit]: 9	-9	2.5	5	0.5	5	-5	100	10
-- expect[jit]: false	attempt to perform arithmetic on a string value
-- expect[jit]: false	attempt to perform arithmetic on a string value
-- expect[jit]: false	attempt to perform arithmetic on a string value
-- expect[jit]: false	attempt to perform arithmetic on a string value
-- expect[jit]: false	attempt to perform arithmetic on a string value
-- expect[jit]: false	attempt to perform arithmetic on a string value
-- expect[jit]: false	attempt to perform arithmetic on a string value
-- expect[jit]: false	attempt to perform arithmetic on a string value
-- expect[jit]: 15	mm(10,x)	mm(x,10)	mm(x,1)	mm(2,y)	2
-- expect[jit]: table-add	table-add	table-add
-- expect[jit]: false	attempt to compare number with string
-- expect[jit]: false	attempt to compare string with number
-- expect[jit]: false	attempt to compare string with number
-- expect[jit]: true	false	1020	1	a1.5
-- expect[jit]: 3	10	abab	56
-- arithmetic converts strings that are numerals (lexer grammar, surrounding white space allowed)
print("10" + "5", " 7 " + "0x10", "1e3" + "1", "3" * "4", "10" / "4", "7" % "4", "2" ^ "3", -"2", -" 0x10 ")
print("10" - 1, 1 - "10", "1.5" + 1, "5." + 0, ".5" + 0, "+5" + 0, "-5" + 0, "1e2" + 0, "0xA" + 0)
-- a failed conversion looks for the metamethod, else it is an error
print(pcall(function() return "abc" + 1 end))
print(pcall(function() return 1 + "1x" end))
print(pcall(function() return "" + 1 end))
print(pcall(function() return "0x" + 1 end))
print(pcall(function() return "1e" + 1 end))
print(pcall(function() return "1 2" + 1 end))
print(pcall(function() return -"abc" end))
print(pcall(function() return "- 5" + 0 end))
-- with an __add in the string metatable: numerals are still converted first
getmetatable("").__add = function(a, b) return "mm(" .. a .. "," .. b .. ")" end
print("10" + "5", "10" + "x", "x" + "10", "x" + 1, 2 + "y", "1" + 1)
-- a table operand's metamethod (first operand first)
local T = setmetatable({}, {__add = function(a, b) return "table-add" end})
print(T + "x", T + "1", 1 + T)
-- comparisons never convert; concatenation converts numbers to strings
print(pcall(function() return 1 < "2" end))
print(pcall(function() return "1" < 2 end))
print(pcall(function() return "10" <= 9 end))
print("10" < "9", "10" == 10, 10 .. 20, 1 .. "", "a" .. 1.5)
for i = "1", "2" do end
print(math.floor("3.7"), math.max("10", 9), string.rep("ab", "2"), ("5"):rep(2) + 1)
