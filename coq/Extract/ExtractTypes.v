(* Extraction of the type-checker model.  Directives: only those of ExtrOcamlBasic and ExtrOcamlString. *)
From Coq Require Import Extraction ExtrOcamlBasic ExtrOcamlString.
From Sylt Require Import Syntax.Resolved Types.TyGraph Types.Tc Types.NoPanic.
Extraction Language OCaml.
Extraction "typesmodel.ml" Tc.typecheck NoPanic.input_ok.
