#!/bin/bash
# usage: tools/seed_verify_n.sh <round> <ID>  (dirs /tmp/seed<round>-<ID>, worktree /tmp/wt-seed<round>-<ID>)
R=$1; id=$2
src=/tmp/seed${R}-$id
wt=/tmp/wt-verify${R}-$id
git -C /repo worktree remove --force $wt >/dev/null 2>&1
git -C /repo worktree add -q --detach $wt HEAD || exit 2
cd $wt
grep -rl "/tmp/wt-seed${R}-$id" $src/demo 2>/dev/null | xargs -r sed -i "s|/tmp/wt-seed${R}-$id|$wt|g"
base_demo=$( (bash $src/demo/run.sh >$src/verify_base.log 2>&1; echo $?) )
git apply $src/patch.diff || { echo '{"applies": false}'; exit 2; }
tests=$(cargo test --workspace --offline --no-fail-fast 2>&1 | grep -E "^test result" | awk '{p+=$4; f+=$6} END {print p" passed "f" failed"}')
mut_demo=$( (bash $src/demo/run.sh >$src/verify_mut.log 2>&1; echo $?) )
echo "{\"id\": \"$id\", \"applies\": true, \"tests\": \"$tests\", \"demo_exit_without_change\": $base_demo, \"demo_exit_with_change\": $mut_demo}"
cd /
git -C /repo worktree remove --force $wt
grep -rl "$wt" $src/demo 2>/dev/null | xargs -r sed -i "s|$wt|/tmp/wt-seed${R}-$id|g"
