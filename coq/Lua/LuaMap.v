(* Finite maps used by LuaCore: a binary trie over `positive` (the same structure as the standard
   library's PositiveMap, restated here so that the interpreter depends on a dozen lines only), and
   an injective coding of byte strings as positives so that names can key the same trie.
   Definitions only. *)
From Coq Require Import String Ascii PArith.

Inductive ptree (A : Type) : Type :=
| PLeaf
| PNode (l : ptree A) (o : option A) (r : ptree A).
Arguments PLeaf {A}.
Arguments PNode {A} l o r.

Fixpoint pget {A : Type} (k : positive) (m : ptree A) : option A :=
  match m with
  | PLeaf => None
  | PNode l o r =>
      match k with
      | xH => o
      | xO k' => pget k' l
      | xI k' => pget k' r
      end
  end.

Fixpoint pset {A : Type} (k : positive) (v : A) (m : ptree A) : ptree A :=
  match k with
  | xH =>
      match m with
      | PLeaf => PNode PLeaf (Some v) PLeaf
      | PNode l _ r => PNode l (Some v) r
      end
  | xO k' =>
      match m with
      | PLeaf => PNode (pset k' v PLeaf) None PLeaf
      | PNode l o r => PNode (pset k' v l) o r
      end
  | xI k' =>
      match m with
      | PLeaf => PNode PLeaf None (pset k' v PLeaf)
      | PNode l o r => PNode l o (pset k' v r)
      end
  end.

(* removal leaves empty nodes behind; only lookups matter *)
Fixpoint pdel {A : Type} (k : positive) (m : ptree A) : ptree A :=
  match m with
  | PLeaf => PLeaf
  | PNode l o r =>
      match k with
      | xH => PNode l None r
      | xO k' => PNode (pdel k' l) o r
      | xI k' => PNode l o (pdel k' r)
      end
  end.

(* ---- strings as keys: 8 bits per byte, least significant bit first, then the rest ---- *)

Definition bit (b : bool) (p : positive) : positive := if b then xI p else xO p.

Definition pos_of_ascii (c : ascii) (p : positive) : positive :=
  match c with
  | Ascii b0 b1 b2 b3 b4 b5 b6 b7 =>
      bit b0 (bit b1 (bit b2 (bit b3 (bit b4 (bit b5 (bit b6 (bit b7 p)))))))
  end.

Fixpoint pos_of_string (s : string) : positive :=
  match s with
  | EmptyString => xH
  | String c s' => pos_of_ascii c (pos_of_string s')
  end.

Definition sget {A : Type} (x : string) (m : ptree A) : option A := pget (pos_of_string x) m.
Definition sset {A : Type} (x : string) (v : A) (m : ptree A) : ptree A := pset (pos_of_string x) v m.
