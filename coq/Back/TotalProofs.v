(* lower_total: for a resolved program that passes the (fuelled) scoping/shape check rs_resolved, the
   lowering with the same fuel returns Ok: it reaches none of the unreachable!()/unwrap() sites of
   intermediate.rs (modelled as Panic) and does not run out of fuel. *)
From Coq Require Import String List NArith ZArith Bool Lia.
From Sylt Require Import Syntax.Resolved Back.IR Back.Scope Back.RScope Back.ScopeProofs.
Import ListNotations.
Local Open Scope N_scope.

Definition okM {A} (m : M A) : Prop := forall c, exists a c', m c = Ok (a, c').

Lemma ok_ret {A} (a : A) : okM (ret a).
Proof. intros c. exists a, c. reflexivity. Qed.
Lemma ok_fresh : okM fresh.
Proof. intros c. exists c, (c + 1). reflexivity. Qed.
Lemma ok_bind {A B} (m : M A) (k : A -> M B) : okM m -> (forall a, okM (k a)) -> okM (bind m k).
Proof.
  intros Hm Hk c. destruct (Hm c) as (a & c1 & E). destruct (Hk a c1) as (b & c2 & E2).
  exists b, c2. unfold bind. rewrite E. exact E2.
Qed.
Lemma ok_mapM {A B} (f : A -> M B) l : Forall (fun x => okM (f x)) l -> okM (mapM f l).
Proof.
  induction 1 as [|x l Hx _ IH]; cbn [mapM]; [apply ok_ret|].
  apply ok_bind; [exact Hx|]. intros y. apply ok_bind; [exact IH|]. intros ys. apply ok_ret.
Qed.

(* every element of a sequence that passes rs_seq passes on its own (in some scope) *)
Lemma rs_seq_all {A} (f : scopes -> A -> option (list (N * bool))) l : forall sc us,
  rs_seq f sc l = Some us -> Forall (fun x => exists sc' u, f sc' x = Some u) l.
Proof.
  induction l as [|x l IH]; intros sc us H; [constructor|].
  cbn [rs_seq] in H. apply obind_some in H as (n1 & H1 & H). apply obind_some in H as (n2 & H2 & H).
  constructor; [eauto|eapply IH; exact H2].
Qed.

Definition Texp (f : nat) : Prop := forall e sc us ctx, rs_expr f sc e = Some us -> okM (expression f e ctx).
Definition Tstm (f : nat) : Prop := forall s sc us ctx, rs_stmt f sc s = Some us -> okM (statement f s ctx).
Definition Tdef (f : nat) : Prop := forall var value sc us ctx,
  rs_definition f sc var value = Some us -> okM (definition f var value ctx).

Lemma ok_list f : Tstm f -> forall ss sc us ctx,
  rs_seq (fun sc s => rs_stmt f sc s) sc ss = Some us -> okM (lower_list (statement f) ss ctx).
Proof.
  intros IH ss sc us ctx H. unfold lower_list. apply ok_bind; [|intros; apply ok_ret].
  apply ok_mapM. eapply Forall_impl; [|eapply rs_seq_all; exact H].
  intros s (sc' & u & Hs). eapply IH; exact Hs.
Qed.

Lemma ok_exprs f : Texp f -> forall es sc us ctx,
  rs_seq (fun sc e => rs_expr f sc e) sc es = Some us -> okM (mapM (fun a => expression f a ctx) es).
Proof.
  intros IH es sc us ctx H. apply ok_mapM. eapply Forall_impl; [|eapply rs_seq_all; exact H].
  intros e (sc' & u & He). eapply IH; exact He.
Qed.

Lemma ok_eblock f : Texp f -> Tstm f -> forall out block sc us ctx,
  rs_eblock (fun sc s => rs_stmt f sc s) (fun sc e => rs_expr f sc e) sc block = Some us ->
  okM (lower_eblock (statement f) (expression f) out block ctx).
Proof.
  intros IHe IHs out block sc us ctx H. unfold lower_eblock. unfold rs_eblock in H.
  destruct (rev block) as [|last rest]; [eapply ok_list; eassumption|].
  destruct last; try (eapply ok_list; eassumption).
  apply obind_some in H as (n1 & H1 & H). apply obind_some in H as (n2 & H2 & H).
  apply ok_bind; [eapply ok_list; eassumption|]. intros ops.
  apply ok_bind; [eapply IHe; exact H2|]. intros r. apply ok_ret.
Qed.

Lemma ok_fbody f : Texp f -> Tstm f -> forall body sc us ctx,
  rs_tail (fun sc s => rs_stmt f sc s) (fun sc e => rs_expr f sc e) sc body = Some us ->
  okM (lower_fbody (statement f) (expression f) body ctx).
Proof.
  intros IHe IHs body sc us ctx H. unfold lower_fbody. unfold rs_tail in H.
  destruct (rev body) as [|last init]; [apply ok_ret|].
  apply obind_some in H as (n1 & H1 & H). apply obind_some in H as (n2 & H2 & H).
  apply ok_bind; [eapply ok_list; eassumption|]. intros b.
  apply ok_bind; [|intros; apply ok_ret].
  destruct last; try (eapply IHs; exact H2).
  apply ok_bind; [eapply IHe; exact H2|]. intros r. apply ok_ret.
Qed.

Lemma ok_if_branches f : Texp f -> Tstm f -> forall out ctx brs sc first us,
  rs_if_branches (fun sc e => rs_expr f sc e)
                 (rs_eblock (fun sc s => rs_stmt f sc s) (fun sc e => rs_expr f sc e)) sc first brs = Some us ->
  okM (mapM (lower_if_branch (statement f) (expression f) out ctx) brs).
Proof.
  intros IHe IHs out ctx. induction brs as [|br brs IH]; intros sc first us H; cbn [mapM]; [apply ok_ret|].
  destruct br as [[cond|] body sp]; cbn [rs_if_branches] in H.
  - apply obind_some in H as (nc & Hc & H). apply obind_some in H as (nb & Hb & H). apply obind_some in H as (nr & Hr & H).
    apply ok_bind; [|intros y; apply ok_bind; [eapply IH; exact Hr|intros; apply ok_ret]].
    cbn [lower_if_branch]. apply ok_bind; [eapply IHe; exact Hc|]. intros rc.
    apply ok_bind; [eapply ok_eblock; eassumption|]. intros blk. apply ok_ret.
  - apply obind_some in H as (nb & Hb & H). apply obind_some in H as (nr & Hr & H).
    apply ok_bind; [|intros y; apply ok_bind; [eapply IH; exact Hr|intros; apply ok_ret]].
    cbn [lower_if_branch]. apply ok_bind; [apply ok_fresh|]. intros v.
    apply ok_bind; [eapply ok_eblock; eassumption|]. intros blk. apply ok_ret.
Qed.

Lemma ok_case_branches f : Texp f -> Tstm f -> forall out tag value ctx ft brs sc first us,
  rs_case_branches (rs_eblock (fun sc s => rs_stmt f sc s) (fun sc e => rs_expr f sc e)) ft sc first brs = Some us ->
  okM (mapM (lower_case_branch (statement f) (expression f) out tag value ctx) brs) /\
  okM (lower_eblock (statement f) (expression f) out ft ctx).
Proof.
  intros IHe IHs out tag value ctx ft. induction brs as [|br brs IH]; intros sc first us H.
  - cbn [rs_case_branches] in H. apply obind_some in H as (nb & Hb & H).
    split; [cbn [mapM]; apply ok_ret|eapply ok_eblock; eassumption].
  - destruct br as [pat psp variable body sp]. cbn [rs_case_branches] in H.
    apply obind_some in H as (nb & Hb & H). apply obind_some in H as (nr & Hr & H).
    destruct (IH _ _ _ Hr) as [Hrest Hft]. split; [|exact Hft].
    cbn [mapM]. apply ok_bind; [|intros y; apply ok_bind; [exact Hrest|intros; apply ok_ret]].
    cbn [lower_case_branch]. apply ok_bind; [eapply ok_eblock; eassumption|]. intros blk.
    apply ok_bind; [apply ok_fresh|]. intros es. apply ok_bind; [apply ok_fresh|]. intros cmp. apply ok_ret.
Qed.

Ltac ok_step :=
  first [ apply ok_ret | apply ok_fresh
        | apply ok_bind; [|intros ?] ].

Lemma total_main : forall f, Texp f /\ Tstm f /\ Tdef f.
Proof.
  induction f as [|f (IHe & IHs & IHd)].
  - repeat split; intros *; intros H; cbn in H; discriminate.
  - split; [|split].
    + intros e sc us ctx H. cbn [expression]. cbn [rs_expr] in H.
      destruct e.
      * (* ERead *) repeat ok_step.
      * (* EVariant *) apply ok_bind; [eapply IHe; exact H|intros r]. repeat ok_step.
      * (* ECall *)
        apply obind_some in H as (nf & Hf & H). apply obind_some in H as (na & Ha & H).
        apply ok_bind; [eapply IHe; exact Hf|intros rf].
        apply ok_bind; [eapply ok_exprs; eassumption|intros rs]. repeat ok_step.
      * (* EBlobAccess *) apply ok_bind; [eapply IHe; exact H|intros r]. repeat ok_step.
      * (* EIndex *)
        apply obind_some in H as (n1 & H1 & H). apply obind_some in H as (n2 & H2 & H).
        apply ok_bind; [eapply IHe; exact H1|intros ra]. apply ok_bind; [eapply IHe; exact H2|intros rb]. repeat ok_step.
      * (* EBinOp *)
        destruct op; try discriminate H;
          (apply obind_some in H as (n1 & H1 & H); apply obind_some in H as (n2 & H2 & H);
           apply ok_bind; [eapply IHe; exact H1|intros ra]; apply ok_bind; [eapply IHe; exact H2|intros rb];
           repeat ok_step).
      * (* EUniOp *) destruct op; (apply ok_bind; [eapply IHe; exact H|intros r]; repeat ok_step).
      * (* EIf *)
        apply ok_bind; [apply ok_fresh|intros out].
        apply ok_bind; [eapply ok_if_branches; eassumption|intros code]. apply ok_ret.
      * (* ECase *)
        apply obind_some in H as (nm & Hm & H). apply obind_some in H as (r & Hr & H).
        apply ok_bind; [eapply IHe; exact Hm|intros rc].
        apply ok_bind; [apply ok_fresh|intros tag]. apply ok_bind; [apply ok_fresh|intros value].
        apply ok_bind; [apply ok_fresh|intros out].
        destruct (ok_case_branches f IHe IHs out tag value ctx _ _ _ _ _ Hr) as [Hb Hft].
        apply ok_bind; [exact Hb|intros bcode]. apply ok_bind; [exact Hft|intros ft]. repeat ok_step.
      * (* EFunction *)
        apply obind_some in H as (nb & Hb & H).
        apply ok_bind; [apply ok_fresh|intros fv].
        apply ok_bind; [eapply ok_fbody; eassumption|intros bc]. apply ok_ret.
      * (* EBlob *)
        apply obind_some in H as (nf & Hf & H).
        apply ok_bind; [|intros rs; repeat ok_step].
        apply ok_mapM. eapply Forall_impl; [|eapply rs_seq_all; exact Hf].
        intros fe (sc' & u & He). apply ok_bind; [eapply IHe; exact He|intros r; apply ok_ret].
      * (* ECollection *)
        destruct c; (apply ok_bind; [eapply ok_exprs; eassumption|intros rs]; repeat ok_step).
      * repeat ok_step.
      * repeat ok_step.
      * repeat ok_step.
      * repeat ok_step.
      * repeat ok_step.
    + intros s sc us ctx H. cbn [statement]. cbn [rs_stmt] in H.
      destruct s; try discriminate H.
      * (* SAssignment *)
        destruct (assign_op_ok op) eqn:Hop; cbn [negb] in H; [|discriminate].
        apply obind_some in H as (nt & Ht & H). apply obind_some in H as (nv & Hv & H).
        apply ok_bind; [apply ok_fresh|intros res].
        apply ok_bind.
        -- destruct target; try discriminate Ht.
           ++ apply ok_ret.
           ++ apply ok_bind; [eapply IHe; exact Ht|intros ra]. repeat ok_step.
           ++ apply obind_some in Ht as (n1 & H1 & Ht). apply obind_some in Ht as (n2 & H2 & Ht).
              apply ok_bind; [eapply IHe; exact H1|intros ra]. apply ok_bind; [eapply IHe; exact H2|intros rb].
              repeat ok_step.
        -- intros [[pre cur] post].
           apply ok_bind; [eapply IHe; exact Hv|intros rv].
           apply ok_bind; [destruct op; try discriminate Hop; apply ok_ret|intros opi]. apply ok_ret.
      * (* SDefinition *) eapply IHd; exact H.
      * (* SLoop *)
        apply obind_some in H as (nc & Hc & H). apply obind_some in H as (nb & Hb & H).
        apply ok_bind; [eapply IHe; exact Hc|intros rc]. apply ok_bind; [apply ok_fresh|intros l].
        apply ok_bind; [eapply ok_list; eassumption|intros b]. apply ok_ret.
      * apply ok_ret.
      * apply ok_ret.
      * (* SRet *)
        destruct value as [value|]; [apply ok_bind; [eapply IHe; exact H|intros r]; apply ok_ret|repeat ok_step].
      * (* SBlock *) eapply ok_list; eassumption.
      * (* SStatementExpression *) apply ok_bind; [eapply IHe; exact H|intros r]. apply ok_ret.
      * apply ok_ret.
    + intros var value sc us ctx H. cbn [definition]. cbn [rs_definition] in H.
      destruct value;
        try (apply obind_some in H as (nv & Hv & H); apply ok_bind; [eapply IHe; exact Hv|intros r]; apply ok_ret).
      apply obind_some in H as (nb & Hb & H).
      apply ok_bind; [apply ok_fresh|intros unused].
      apply ok_bind; [eapply ok_fbody; eassumption|intros bc]. apply ok_ret.
Qed.

Theorem lower_total : forall fuel r, rs_resolved fuel r = true -> exists code, lower fuel r = Ok code.
Proof.
  intros fuel r H. unfold rs_resolved in H.
  destruct (rs_seq (rs_outer fuel) [[]] (r_stmts r)) as [new|] eqn:Eseq; [|discriminate].
  destruct (find_start (r_vars r)) as [start|] eqn:Est; [|discriminate].
  destruct (total_main fuel) as (_ & _ & Td).
  assert (Hm : okM (mapM (compile_stmt fuel) (r_stmts r))).
  { apply ok_mapM. eapply Forall_impl; [|eapply rs_seq_all; exact Eseq].
    intros s (sc' & u & Hs). destruct s; cbn [compile_stmt]; try apply ok_ret.
    cbn [rs_outer] in Hs. eapply Td; exact Hs. }
  unfold lower. rewrite Est.
  match goal with |- exists code, match ?m ?c0 with _ => _ end = _ =>
    assert (Hok : okM m) by (apply ok_bind; [exact Hm|intros cs; apply ok_bind; [apply ok_fresh|intros tmp; apply ok_ret]]);
    destruct (Hok c0) as (code & c' & E); rewrite E end.
  eauto.
Qed.
