"""Seed-driven generators of Sylt expressions, programs and surface variants.

Everything here is independent of the Coq model: trees are plain Python tuples, text is produced by
printers written from the language description (README / property statements), and the expected parse
tree (the harness S-expression without spans) is computed directly from the tree.

Expression trees
    ("atom", text, sexp)            an operand; `text` is its source, `sexp` its harness S-expression
    ("un", op, e)                   op in UNOPS
    ("bin", op, l, r)               op in BINOPS
    ("paren", e)                    explicit parentheses (a Parenthesis node)

Programs: see `gen_program`, `render_program`, `layout_variants`.
"""
import itertools
import random
import re

# ------------------------------------------------------------------------------------------------
# operators (documented table: statement of C13)

BINOPS = ["<=>", "or", "and", "==", "!=", ">", ">=", "<", "<=", "+", "-", "*", "/"]
UNOPS = ["-", "not"]
DOC_RANK = {"<=>": 1, "or": 2, "and": 3, "==": 4, "!=": 4, ">": 4, ">=": 4, "<": 4, "<=": 4, "+": 5, "-": 5,
            "*": 6, "/": 6}
BIN_SEXP = {"<=>": "assert", "or": "or", "and": "and", "==": "cmp eq", "!=": "cmp ne", ">": "cmp gt",
            ">=": "cmp ge", "<": "cmp lt", "<=": "cmp le", "+": "add", "-": "sub", "*": "mul", "/": "div"}
UN_SEXP = {"-": "neg", "not": "not"}


def atom_ident(n):
    return ("atom", n, "(get (read %s))" % n)


def atom_int(i):
    return ("atom", str(i), "(int %d)" % i)


def atom_call(f, args):
    """f(a1, .., an) with atom/tree arguments printed minimally"""
    return ("call", f, list(args))


ATOM_KINDS = ["ident", "int", "call", "index", "field"]


def basic_atom(kind, k):
    """the five atom kinds of the quick tier; k varies the spelling"""
    n = "abcdxyz"[k % 7]
    if kind == "ident":
        return atom_ident(n)
    if kind == "int":
        return atom_int(k % 10)
    if kind == "call":
        return ("atom", "f(%s)" % n, "(get (call (read f) (get (read %s))))" % n)
    if kind == "index":
        return ("atom", "t[%d]" % (k % 3), "(get (index (read t) (int %d)))" % (k % 3))
    if kind == "field":
        return ("atom", "%s.q" % n, "(get (access (read %s) q))" % n)
    raise ValueError(kind)


def rich_atom(r, depth=0):
    """more atom kinds for the random tier (still something `prefix` parses as one operand)"""
    x = r.random()
    n = r.choice("abcdxyz")
    if x < 0.25:
        return atom_ident(n)
    if x < 0.4:
        return atom_int(r.randint(0, 99))
    if x < 0.5:
        return ("atom", "%s.q.w" % n, "(get (access (access (read %s) q) w))" % n)
    if x < 0.6:
        return ("atom", "t[1][0]", "(get (index (index (read t) (int 1)) (int 0)))")
    if x < 0.65:
        return ("atom", "true", "(bool true)")
    if x < 0.7:
        return ("atom", "nil", "(nil)")
    if x < 0.75:
        return ("atom", "1.5", "(float 1.5)")
    if x < 0.8:
        return ("atom", '"s"', "(str 73)")
    if x < 0.85:
        return ("atom", "g().h", "(get (access (call (read g)) h))")
    if x < 0.9:
        return ("atom", "[1, 2]", "(list (int 1) (int 2))")
    if depth < 2:
        args = [random_tree(r, r.randint(0, 2), rich=True, depth_atoms=depth + 1) for _ in range(r.randint(0, 3))]
        return ("call", "f", args)
    return atom_ident(n)


def random_tree(r, depth, rich=False, depth_atoms=0):
    if depth <= 0 or r.random() < 0.15:
        if rich:
            return rich_atom(r, depth_atoms)
        return basic_atom(r.choice(ATOM_KINDS), r.randint(0, 20))
    x = r.random()
    if x < 0.2:
        return ("un", r.choice(UNOPS), random_tree(r, depth - 1, rich, depth_atoms))
    if x < 0.27:
        return ("paren", random_tree(r, depth - 1, rich, depth_atoms))
    return ("bin", r.choice(BINOPS), random_tree(r, depth - 1, rich, depth_atoms),
            random_tree(r, depth - 1, rich, depth_atoms))


def tree_depth(t):
    k = t[0]
    if k in ("atom",):
        return 0
    if k == "call":
        return 0
    if k == "un":
        return 1 + tree_depth(t[2])
    if k == "paren":
        return tree_depth(t[1])
    return 1 + max(tree_depth(t[2]), tree_depth(t[3]))


def tree_size(t):
    k = t[0]
    if k == "atom":
        return 1
    if k == "call":
        return 1 + sum(tree_size(a) for a in t[2])
    if k == "un":
        return 1 + tree_size(t[2])
    if k == "paren":
        return 1 + tree_size(t[1])
    return 1 + tree_size(t[2]) + tree_size(t[3])


# ---- printing -----------------------------------------------------------------------------------

def need_l(op, l):
    if l[0] == "bin":
        return DOC_RANK[l[1]] < DOC_RANK[op]
    if l[0] == "un":
        return DOC_RANK[op] == 6          # unary next to * / : not ordered by the statement
    return False


def need_r(op, r):
    if r[0] == "bin":
        return DOC_RANK[r[1]] <= DOC_RANK[op]   # everything associates to the left
    if r[0] == "un":
        return DOC_RANK[op] == 6
    return False


def need_u(e):
    return e[0] == "bin"


def _wrap(b, s):
    return "(" + s + ")" if b else s


def print_min(t):
    k = t[0]
    if k == "atom":
        return t[1]
    if k == "call":
        return "%s(%s)" % (t[1], ", ".join(print_min(a) for a in t[2]))
    if k == "paren":
        return "(" + print_min(t[1]) + ")"
    if k == "un":
        sep = " " if t[1] == "not" else ""
        return t[1] + sep + _wrap(need_u(t[2]), print_min(t[2]))
    _, op, l, r = t
    return "%s %s %s" % (_wrap(need_l(op, l), print_min(l)), op, _wrap(need_r(op, r), print_min(r)))


def _is_op(t):
    return t[0] in ("bin", "un")


def print_full(t):
    k = t[0]
    if k == "atom":
        return t[1]
    if k == "call":
        return "%s(%s)" % (t[1], ", ".join(print_full(a) for a in t[2]))
    if k == "paren":
        return "(" + print_full(t[1]) + ")"
    if k == "un":
        sep = " " if t[1] == "not" else ""
        return t[1] + sep + _wrap(_is_op(t[2]), print_full(t[2]))
    _, op, l, r = t
    return "%s %s %s" % (_wrap(_is_op(l), print_full(l)), op, _wrap(_is_op(r), print_full(r)))


def expected_sexp(t):
    """harness S-expression of the tree, without spans and without parenthesis nodes"""
    k = t[0]
    if k == "atom":
        return t[2]
    if k == "call":
        return "(get (call (read %s)%s))" % (t[1], "".join(" " + expected_sexp(a) for a in t[2]))
    if k == "paren":
        return expected_sexp(t[1])
    if k == "un":
        return "(%s %s)" % (UN_SEXP[t[1]], expected_sexp(t[2]))
    _, op, l, r = t
    return "(%s %s %s)" % (BIN_SEXP[op], expected_sexp(l), expected_sexp(r))


# ---- S-expression utilities ------------------------------------------------------------------------

def sexp_parse(s):
    """nested lists of atoms"""
    toks = re.findall(r"\(|\)|[^\s()]+", s)
    pos = 0

    def go():
        nonlocal pos
        if toks[pos] == "(":
            pos += 1
            out = []
            while toks[pos] != ")":
                out.append(go())
            pos += 1
            return out
        t = toks[pos]
        pos += 1
        return t
    res = go()
    if pos != len(toks):
        raise ValueError("trailing input in sexp")
    return res


def sexp_strip_paren(x):
    if isinstance(x, list):
        if len(x) == 2 and x[0] == "paren":
            return sexp_strip_paren(x[1])
        return [sexp_strip_paren(y) for y in x]
    return x


def sexp_str(x):
    if isinstance(x, list):
        return "(" + " ".join(sexp_str(y) for y in x) + ")"
    return x


def strip_paren_text(s):
    return sexp_str(sexp_strip_paren(sexp_parse(s)))


_FLOAT = re.compile(r"\(float ([^)]*)\)")


def norm_floats(line):
    """compare floats numerically: both the harness ({:?}) and the model (source text) go through float()"""
    def f(m):
        try:
            return "(float %r)" % float(m.group(1))
        except ValueError:
            return m.group(0)
    return _FLOAT.sub(f, line)


# ---- exhaustive families -----------------------------------------------------------------------------

def shapes(depth):
    """all operator shapes of depth <= depth with holes (None) for atoms"""
    if depth == 0:
        return [None]
    sub = shapes(depth - 1)
    out = [None]
    for u in UNOPS:
        for s in sub:
            out.append(("un", u, s))
    for b in BINOPS:
        for l in sub:
            for r in sub:
                out.append(("bin", b, l, r))
    # remove duplicates of lower depth that re-appear
    seen = set()
    res = []
    for s in out:
        key = repr(s)
        if key not in seen:
            seen.add(key)
            res.append(s)
    return res


def fill(shape, atoms):
    """replace holes left to right with atoms from the iterator"""
    if shape is None:
        return next(atoms)
    if shape[0] == "un":
        return ("un", shape[1], fill(shape[2], atoms))
    return ("bin", shape[1], fill(shape[2], atoms), fill(shape[3], atoms))


def atom_cycle(offset):
    k = offset
    while True:
        yield basic_atom(ATOM_KINDS[k % len(ATOM_KINDS)], k)
        k += 1


def subtrees_for_shrinking(t):
    """smaller candidate trees: children, and the tree with one child replaced by an atom"""
    k = t[0]
    out = []
    if k == "un":
        out.append(t[2])
        out += [("un", t[1], s) for s in subtrees_for_shrinking(t[2])]
    elif k == "paren":
        out.append(t[1])
    elif k == "bin":
        out += [t[2], t[3]]
        out += [("bin", t[1], s, t[3]) for s in subtrees_for_shrinking(t[2])]
        out += [("bin", t[1], t[2], s) for s in subtrees_for_shrinking(t[3])]
        if t[2][0] != "atom":
            out.append(("bin", t[1], atom_ident("a"), t[3]))
        if t[3][0] != "atom":
            out.append(("bin", t[1], t[2], atom_ident("b")))
    elif k == "call":
        out += list(t[2])
        out.append(atom_ident("c"))
    return out
