"""GenHashSites: every iteration over a HashMap/HashSet in the five crates, with the enclosing function
and a normalised snippet of the iterating statement.  A new or changed iteration breaks
`C16_sites_covered` (Props/C16.v) so that the determinism oracle is run."""
import os
import re
import gen_tables

NAME = "GenHashSites"
CRATES = ["sylt-tokenizer/src", "sylt-parser/src", "sylt-common/src", "sylt-compiler/src", "sylt/src"]
SKIP_FILES = {"sylt/src/formatter.rs", "sylt/src/test.rs"}   # not part of compilation
ITER = r"\.(?:iter|iter_mut|keys|values|values_mut|into_iter|drain|into_keys|into_values)\s*\("


def strip_comments_and_tests(src):
    # drop #[cfg(test)] mod ... { ... } blocks and comments (keep line structure)
    out = []
    i = 0
    n = len(src)
    while i < n:
        if src.startswith("//", i):
            j = src.find("\n", i)
            j = n if j < 0 else j
            i = j
        elif src.startswith("/*", i):
            j = src.find("*/", i)
            j = n if j < 0 else j + 2
            out.append("\n" * src.count("\n", i, j))
            i = j
        elif src[i] == "'" and re.match(r"'(\\.|[^\\'])'", src[i:i + 4]):
            m = re.match(r"'(\\.|[^\\'])'", src[i:i + 4])      # a char literal such as '"' or '\\n'
            out.append("' '")
            i += m.end()
        elif src[i] == '"':
            j = i + 1
            while j < n and src[j] != '"':
                j += 2 if src[j] == "\\" else 1
            out.append('""' + "\n" * src.count("\n", i, j))
            i = j + 1
        else:
            out.append(src[i])
            i += 1
    s = "".join(out)
    m = re.search(r"#\[cfg\(test\)\]\s*mod\s+\w+\s*\{", s)
    while m:
        depth = 1
        j = m.end()
        while j < len(s) and depth:
            depth += {"{": 1, "}": -1}.get(s[j], 0)
            j += 1
        s = s[:m.start()] + "\n" * s.count("\n", m.start(), j) + s[j:]
        m = re.search(r"#\[cfg\(test\)\]\s*mod\s+\w+\s*\{", s)
    return s


def hash_names(s):
    names = set()
    for m in re.finditer(r"\b(\w+)\s*:\s*&?\s*(?:'\w+\s+)?(?:mut\s+)?(?:std::collections::)?Hash(?:Map|Set)\s*<", s):
        names.add(m.group(1))
    for m in re.finditer(r"\blet\s+(?:mut\s+)?(\w+)\s*(?::[^=;]+)?=\s*Hash(?:Map|Set)::(?:new|with_capacity)", s):
        names.add(m.group(1))
    return names


def enclosing_fn(s, pos):
    best = None
    for m in re.finditer(r"\bfn\s+(\w+)", s[:pos]):
        best = m.group(1)
    return best or "?"


def statement_at(s, pos):
    # from the start of the line to the first `;` or `{`-block end at depth 0 (max 400 chars)
    start = s.rfind("\n", 0, pos) + 1
    depth = 0
    j = pos
    while j < len(s) and j - start < 600:
        c = s[j]
        if c in "([{":
            depth += 1
        elif c in ")]}":
            depth -= 1
            if depth < 0:
                break
        elif c == ";" and depth == 0:
            break
        j += 1
    st = re.sub(r"\s+", " ", s[start:j + 1]).strip()
    # `let mut X: Vec<_> = NAME.iter().collect(); X.sort...;` -- keep the sort with the site
    m = re.match(r"let mut (\w+)\b", st)
    if m and j + 1 < len(s):
        k = j + 1
        depth = 0
        e = k
        while e < len(s) and e - k < 400:
            c = s[e]
            if c in "([{":
                depth += 1
            elif c in ")]}":
                depth -= 1
                if depth < 0:
                    break
            elif c == ";" and depth == 0:
                break
            e += 1
        nxt = re.sub(r"\s+", " ", s[k:e + 1]).strip()
        if nxt.startswith(m.group(1) + ".sort"):
            st = st + " " + nxt
    return st


def all_sources():
    for crate in CRATES:
        d = os.path.join(gen_tables.REPO, crate)
        if not os.path.isdir(d):
            raise gen_tables.Untranslatable("missing crate dir " + crate)
        for root, _, files in sorted(os.walk(d)):
            for f in sorted(files):
                if f.endswith(".rs"):
                    rel = os.path.relpath(os.path.join(root, f), gen_tables.REPO)
                    if rel not in SKIP_FILES:
                        yield rel, strip_comments_and_tests(open(os.path.join(root, f), encoding="utf-8").read())


def generate():
    sites = []
    # names bound to a hash container anywhere (values flow between files through struct fields)
    global_names = set()
    for rel, s in all_sources():
        global_names |= hash_names(s)
    for crate in CRATES:
        d = os.path.join(gen_tables.REPO, crate)
        if not os.path.isdir(d):
            raise gen_tables.Untranslatable("missing crate dir " + crate)
        for root, _, files in sorted(os.walk(d)):
            for f in sorted(files):
                if not f.endswith(".rs"):
                    continue
                rel = os.path.relpath(os.path.join(root, f), gen_tables.REPO)
                if rel in SKIP_FILES:
                    continue
                s = strip_comments_and_tests(open(os.path.join(root, f), encoding="utf-8").read())
                names = global_names
                if not names:
                    continue
                alt = "|".join(sorted(re.escape(x) for x in names))
                found = []
                # NAME.iter() / self.NAME.iter() / self.NAME[..].keys()
                for m in re.finditer(r"\b(?:self\.)?(%s)\b(?:\s*\[[^\]]*\])?\s*%s" % (alt, ITER), s):
                    found.append((m.start(), m.group(1)))
                # for PAT in [&][mut ][self.]NAME [{]
                for m in re.finditer(r"\bfor\s+[^;{]*?\bin\s+&?\s*(?:mut\s+)?(?:self\.)?(%s)\b\s*\{" % alt, s):
                    found.append((m.start(), m.group(1)))
                for pos, nm in sorted(set(found)):
                    sites.append((rel, enclosing_fn(s, pos), nm, statement_at(s, pos)))
    out = ["(* GENERATED by tools/gens/gen_hashsites.py -- do not edit *)",
           "From Coq Require Import String List.",
           "Import ListNotations.",
           "Local Open Scope string_scope.",
           "",
           "(* (file, enclosing fn, container, normalised iterating statement) *)",
           "Definition sites : list (string * string * string * string) := ["]
    rows = []
    for rel, fn, nm, st in sites:
        st = st.replace('"', "'")
        rows.append('  ("%s", "%s", "%s", "%s")' % (rel, fn, nm, st))
    out.append(";\n".join(rows))
    out.append("].")
    return "GenHashSites.v", "\n".join(out) + "\n"
