(* C03: a definite type mismatch is rejected wherever it is placed.
   Part 1 (this file, `placement_gen`): propagation.  If the checker rejects the filler in the TypeCtx it
   has at the hole (in every well-formed state, with every fuel), then it rejects the whole plugged term:
   every Ok path of the traversal visits every child, `bind` propagates non-Ok, and everything the checker
   does before it reaches the hole keeps the type graph well formed (TcInv).
   Part 2 (`Mismatch.v`): local rejection of each mismatch kind in an arbitrary well-formed state. *)
From Coq Require Import String List NArith ZArith PArith Bool Lia FMapPositive.
From Sylt Require Import Syntax.Resolved Types.TyGraph Types.Tc Types.Ctx Types.TcInv.
Import ListNotations.
Local Open Scope tc_scope.

Definition notok {A} (o : outcome A) : Prop := forall a, o <> Ok a.

Lemma notok_err {A} e more : notok (@Err A e more).
Proof. intros a; discriminate. Qed.
Lemma notok_panic {A} p : notok (@Panic A p).
Proof. intros a; discriminate. Qed.
Lemma notok_oof {A} : notok (@OutOfFuel A).
Proof. intros a; discriminate. Qed.
Lemma notok_fail {A} k sp s : notok (@fail A k sp s).
Proof. intros a; discriminate. Qed.
Lemma notok_fuel {A} s : notok (@out_of_fuel A s).
Proof. intros a; discriminate. Qed.
Lemma notok_panicm {A} p s : notok (@panic A p s).
Proof. intros a; discriminate. Qed.
Lemma notok_fail_many {A} e more s : notok (@fail_many A e more s).
Proof. intros a; discriminate. Qed.
#[export] Hint Resolve notok_err notok_panic notok_oof notok_fail notok_fuel notok_panicm notok_fail_many : notok.

Lemma bind_notok_l {A B} (m : M A) (k : A -> M B) s : notok (m s) -> notok (bind m k s).
Proof.
  unfold notok, bind. intros H a. destruct (m s) as [[x s']| | |]; try discriminate.
  exfalso; eapply H; reflexivity.
Qed.

Lemma bind_notok_r {A B} (m : M A) (k : A -> M B) s : (forall a s', notok (k a s')) -> notok (bind m k s).
Proof.
  unfold notok, bind. intros H a. destruct (m s) as [[x s']| | |]; try discriminate. apply H.
Qed.

Lemma iterM_notok {A} (f : A -> M unit) pre x post :
  (forall s, notok (f x s)) -> forall s, notok (iterM f (pre ++ x :: post) s).
Proof.
  intros H. induction pre as [|p pre IH]; intros s; cbn [app iterM].
  - apply bind_notok_l, H.
  - apply bind_notok_r. intros a s'. apply IH.
Qed.

Lemma mapM_notok {A B} (f : A -> M B) pre x post :
  (forall s, notok (f x s)) -> forall s, notok (mapM f (pre ++ x :: post) s).
Proof.
  intros H. induction pre as [|p pre IH]; intros s; cbn [app mapM].
  - apply bind_notok_l, H.
  - apply bind_notok_r. intros a s'. apply bind_notok_l, IH.
Qed.

Lemma foldM_notok {A B} (f : B -> A -> M B) pre x post :
  (forall b s, notok (f b x s)) -> forall b s, notok (foldM f (pre ++ x :: post) b s).
Proof.
  intros H. induction pre as [|p pre IH]; intros b s; cbn [app foldM].
  - apply bind_notok_l, H.
  - apply bind_notok_r. intros a s'. apply IH.
Qed.

(* the same with the invariant threaded through *)
Lemma bind_notok_rw {A B} (m : M A) (k : A -> M B) s :
  pres m -> wf s -> (forall a s', wf s' -> notok (k a s')) -> notok (bind m k s).
Proof.
  unfold notok, bind. intros P W H a. destruct (m s) as [[x s']| | |] eqn:E; try discriminate.
  apply H. eapply P; eassumption.
Qed.

Lemma iterM_notok_w {A} (f : A -> M unit) pre x post :
  (forall y, pres (f y)) -> (forall s, wf s -> notok (f x s)) -> forall s, wf s -> notok (iterM f (pre ++ x :: post) s).
Proof.
  intros P H. induction pre as [|p pre IH]; intros s W; cbn [app iterM].
  - apply bind_notok_l, H, W.
  - apply bind_notok_rw; [apply P|assumption|]. intros a s' W'. now apply IH.
Qed.

Lemma mapM_notok_w {A B} (f : A -> M B) pre x post :
  (forall y, pres (f y)) -> (forall s, wf s -> notok (f x s)) -> forall s, wf s -> notok (mapM f (pre ++ x :: post) s).
Proof.
  intros P H. induction pre as [|p pre IH]; intros s W; cbn [app mapM].
  - apply bind_notok_l, H, W.
  - apply bind_notok_rw; [apply P|assumption|]. intros a s' W'. apply bind_notok_l. now apply IH.
Qed.

Lemma foldM_notok_w {A B} (f : B -> A -> M B) pre x post :
  (forall b y, pres (f b y)) -> (forall b s, wf s -> notok (f b x s)) ->
  forall b s, wf s -> notok (foldM f (pre ++ x :: post) b s).
Proof.
  intros P H. induction pre as [|p pre IH]; intros b s W; cbn [app foldM].
  - apply bind_notok_l, H, W.
  - apply bind_notok_rw; [apply P|assumption|]. intros a s' W'. now apply IH.
Qed.

Section Propagation.
  Variable kinds : PositiveMap.t varkind.
  Variable G : grec.
  Hypothesis PG : gpres G.
  Variable he : expr.
  Variable hs : stmt.

  Notation afix := (afix kinds G).
  Notation plug_e := (plug_e he hs).
  Notation plug_s := (plug_s he hs).

  (* the filler is rejected in the given TypeCtx, in every well-formed state, with every fuel *)
  Definition rej_e (ctx : tctx) : Prop := forall f s, wf s -> notok (r_expr (afix f) he ctx s).
  Definition rej_s (ctx : tctx) : Prop := forall f s, wf s -> notok (r_stmt (afix f) hs ctx s).

  Notation at_e := (at_e rej_e rej_s).
  Notation at_s := (at_s rej_e rej_s).

  Lemma block_notok R sp pre x post ctx : apres R ->
    (forall s, wf s -> notok (r_stmt R x ctx s)) ->
    forall s, wf s -> notok (expression_block G R sp (pre ++ x :: post) ctx s).
  Proof.
    intros PR H s W. unfold expression_block. apply bind_notok_l.
    apply foldM_notok_w; [intros; prs| |assumption]. intros b s' W'. apply bind_notok_l, H, W'.
  Qed.

  Lemma call_args_notok R ctx x post (PR : apres R) (H : forall s, wf s -> notok (r_expr R x ctx s)) :
    forall pre params r s, wf s -> length (pre ++ x :: post) = length params ->
      notok (call_args G R ctx (pre ++ x :: post) params r s).
  Proof.
    induction pre as [|p pre IH]; intros params r s W Hl; destruct params as [|q params];
      cbn [app length] in Hl; try discriminate; cbn [app call_args].
    - apply bind_notok_l, H, W.
    - apply bind_notok_rw; [prs|assumption|]. intros [? ?] ? W1.
      do 4 (apply bind_notok_rw; [prs|assumption|]; intros ? ? ?).
      apply IH; [assumption|]. now injection Hl.
  Qed.

  Ltac skip := apply bind_notok_rw; [prs|assumption|]; intros ? ? ?.
  Ltac skip_pair := apply bind_notok_rw; [prs|assumption|]; intros [? ?] ? ?.
  Ltac here := apply bind_notok_l.

  Lemma placement_gen : forall f,
    (forall C ctx s, wf s -> at_e C ctx -> notok (r_expr (afix f) (plug_e C) ctx s)) /\
    (forall C ctx s, wf s -> at_s C ctx -> notok (r_stmt (afix f) (plug_s C) ctx s)).
  Proof.
    induction f as [|f [IHe IHs]]; split; intros C ctx s W Hat.
    - apply notok_fuel.
    - apply notok_fuel.
    - (* expressions *)
      pose proof (afix_pres kinds G PG f) as PA.
      destruct C; cbn [Ctx.at_e] in Hat.
      + now apply Hat.
      + (* XVariant *)
        cbn [Ctx.plug_e Tc.afix astep r_expr]. unfold expr_body. here. here. now apply IHe.
      + (* XCallF *)
        cbn [Ctx.plug_e Tc.afix astep r_expr]. unfold expr_body. here. here. now apply IHe.
      + (* XCallA *)
        cbn [Ctx.plug_e Tc.afix astep r_expr]. unfold expr_body. here. skip_pair. skip.
        destruct a; auto with notok.
        destruct (negb (Nat.eqb (length (pre ++ plug_e C :: post)) (length params))) eqn:El; auto with notok.
        destruct (inside_pure ctx && negb (is_pure_p p)); auto with notok.
        here. apply call_args_notok; [assumption| |assumption|].
        * intros s1 W1. now apply IHe.
        * apply Bool.negb_false_iff, PeanoNat.Nat.eqb_eq in El. exact El.
      + (* XAccess *)
        cbn [Ctx.plug_e Tc.afix astep r_expr]. unfold expr_body. here. here. now apply IHe.
      + (* XIndexV *)
        cbn [Ctx.plug_e Tc.afix astep r_expr]. unfold expr_body. here. here. now apply IHe.
      + (* XIndexI *)
        cbn [Ctx.plug_e Tc.afix astep r_expr]. unfold expr_body. here. skip_pair. here. now apply IHe.
      + (* XBinL *)
        cbn [Ctx.plug_e Tc.afix astep r_expr]. unfold expr_body. here.
        destruct op; auto with notok; unfold bin_op_ret, bin_op; repeat here; now apply IHe.
      + (* XBinR *)
        cbn [Ctx.plug_e Tc.afix astep r_expr]. unfold expr_body. here.
        destruct op; auto with notok; unfold bin_op_ret, bin_op;
          try (here; skip_pair; here; now apply IHe);
          try (skip_pair; here; now apply IHe).
      + (* XUni *)
        cbn [Ctx.plug_e Tc.afix astep r_expr]. unfold expr_body. here.
        destruct op; here; now apply IHe.
      + (* XIfC *)
        cbn [Ctx.plug_e Tc.afix astep r_expr]. unfold expr_body. here. here.
        apply mapM_notok_w; [intros; prs| |assumption]. intros s1 W1. unfold if_branch. here. here. now apply IHe.
      + (* XIfB *)
        cbn [Ctx.plug_e Tc.afix astep r_expr]. unfold expr_body. here. here.
        apply mapM_notok_w; [intros; prs| |assumption]. intros s1 W1. unfold if_branch.
        apply bind_notok_rw; [prs|assumption|]; intros ? ? ?. here.
        apply block_notok; [assumption| |assumption]. intros s2 W2. now apply IHs.
      + (* XCaseM *)
        cbn [Ctx.plug_e Tc.afix astep r_expr]. unfold expr_body. here. here. now apply IHe.
      + (* XCaseB *)
        cbn [Ctx.plug_e Tc.afix astep r_expr]. unfold expr_body. here. skip_pair. skip. skip. here.
        apply foldM_notok_w; [intros; prs| |assumption]. intros [[? ?] ?] s1 W1. unfold case_branch.
        do 3 (apply bind_notok_rw; [prs|assumption|]; intros ? ? ?). here.
        apply block_notok; [assumption| |assumption]. intros s2 W2. now apply IHs.
      + (* XCaseF *)
        cbn [Ctx.plug_e Tc.afix astep r_expr]. unfold expr_body. here. skip_pair. skip. skip.
        apply bind_notok_rw; [prs|assumption|]; intros [[? ?] ?] ? ?. here. here.
        apply block_notok; [assumption| |assumption]. intros s2 W2. now apply IHs.
      + (* XFun *)
        cbn [Ctx.plug_e Tc.afix astep r_expr]. unfold expr_body. here. skip_pair. here.
        apply block_notok; [assumption| |assumption]. intros s2 W2. now apply IHs.
      + (* XBlob *)
        cbn [Ctx.plug_e Tc.afix astep r_expr]. unfold expr_body. here. skip. skip. skip.
        destruct a1; auto with notok.
        skip.
        match goal with |- context [match ?l ++ ?r with _ => _ end] => destruct (l ++ r) end; auto with notok.
        skip. skip. here.
        apply iterM_notok_w; [intros; prs| |assumption]. intros s1 W1. cbn [snd]. here. now apply IHe.
      + (* XColl *)
        cbn [Ctx.plug_e Tc.afix astep r_expr]. unfold expr_body. here.
        destruct k.
        * skip. here. apply mapM_notok_w; [intros; prs| |assumption]. intros s1 W1. here. now apply IHe.
        * skip. skip. here. apply iterM_notok_w; [intros; prs| |assumption]. intros s1 W1. here. now apply IHe.
    - (* statements *)
      pose proof (afix_pres kinds G PG f) as PA.
      destruct C; cbn [Ctx.at_s] in Hat.
      + now apply Hat.
      + (* YAssignT *)
        cbn [Ctx.plug_s Tc.afix astep r_stmt]. unfold stmt_body. skip.
        destruct (inside_pure ctx); auto with notok.
        skip_pair. here. now apply IHe.
      + (* YAssignV *)
        cbn [Ctx.plug_s Tc.afix astep r_stmt]. unfold stmt_body. skip.
        destruct (inside_pure ctx); auto with notok.
        here. now apply IHe.
      + (* YDef *)
        cbn [Ctx.plug_s Tc.afix astep r_stmt]. unfold stmt_body, definition.
        destruct (inside_pure ctx && negb (immutable kind)); auto with notok.
        skip. skip. skip. skip. skip. here. now apply IHe.
      + (* YLoopC *)
        cbn [Ctx.plug_s Tc.afix astep r_stmt]. unfold stmt_body. here. now apply IHe.
      + (* YLoopB *)
        cbn [Ctx.plug_s Tc.afix astep r_stmt]. unfold stmt_body. skip_pair. skip. skip. here.
        apply block_notok; [assumption| |assumption]. intros s2 W2. now apply IHs.
      + (* YRet *)
        cbn [Ctx.plug_s Tc.afix astep r_stmt]. unfold stmt_body. here. now apply IHe.
      + (* YBlock *)
        cbn [Ctx.plug_s Tc.afix astep r_stmt]. unfold stmt_body. here.
        apply block_notok; [assumption| |assumption]. intros s2 W2. now apply IHs.
      + (* YExpr *)
        cbn [Ctx.plug_s Tc.afix astep r_stmt]. unfold stmt_body. here. now apply IHe.
  Qed.

  Theorem placement_expr f C ctx s : wf s -> at_e C ctx -> notok (r_expr (afix f) (plug_e C) ctx s).
  Proof. apply (proj1 (placement_gen f)). Qed.

  Theorem placement_stmt f C ctx s : wf s -> at_s C ctx -> notok (r_stmt (afix f) (plug_s C) ctx s).
  Proof. apply (proj2 (placement_gen f)). Qed.

  (* ---- whole programs *)

  (* a statement filler placed directly at the top level goes through `definition` exactly as an
     inner definition does; anything else panics at the top level (`Illegal outer statement`) *)
  Definition rej_top : Prop := forall f s, wf s -> notok (outer_statement kinds G (afix f) hs ctx_new s).

  Lemma outer_def_notok f name var kind t C sp s :
    wf s -> at_e C ctx_new ->
    notok (outer_statement kinds G (afix f) (SDefinition name var kind t (plug_e C) sp) ctx_new s).
  Proof.
    intros W Hat. pose proof (afix_pres kinds G PG f) as PA.
    unfold outer_statement. here. unfold definition.
    destruct (inside_pure ctx_new && negb (immutable kind)); auto with notok.
    do 5 skip. here. now apply placement_expr.
  Qed.

  Lemma solve_notok f P start s :
    wf s -> at_p rej_e rej_s rej_top P ->
    notok (solve kinds G (afix f) (plug_p he hs P) start s).
  Proof.
    intros W Hat. pose proof (afix_pres kinds G PG f) as PA.
    unfold solve. here. destruct P; cbn [plug_p at_p] in *.
    - apply iterM_notok_w; [intros; now apply pres_outer_statement| |assumption].
      intros s1 W1. cbv beta. now apply outer_def_notok.
    - apply iterM_notok_w; [intros; now apply pres_outer_statement| |assumption].
      intros s1 W1. cbv beta. now apply Hat.
  Qed.
End Propagation.

(* contexts whose hole is a statement hole need no hypothesis about the expression filler *)
Lemma at_shole (Pe Ps : tctx -> Prop) :
  (forall c, Ps c) ->
  (forall C ctx, is_shole_e C = true -> at_e Pe Ps C ctx) /\ (forall C ctx, is_shole_s C = true -> at_s Pe Ps C ctx).
Proof.
  intros Hs.
  assert (X : forall n, (forall C ctx, ectx_size C <= n -> is_shole_e C = true -> at_e Pe Ps C ctx) /\
                        (forall C ctx, sctx_size C <= n -> is_shole_s C = true -> at_s Pe Ps C ctx)).
  { induction n as [|n [IHe IHs]]; split; intros C ctx Hn Hh.
    - destruct C; cbn in Hn; lia.
    - destruct C; cbn in Hn; lia.
    - destruct C; cbn [Ctx.at_e is_shole_e] in *; cbn [ectx_size] in Hn; try discriminate;
        try (apply IHe; [lia|exact Hh]); try (apply IHs; [lia|exact Hh]).
    - destruct C; cbn [Ctx.at_s is_shole_s] in *; cbn [sctx_size] in Hn; try apply Hs;
        try (apply IHe; [lia|exact Hh]); try (apply IHs; [lia|exact Hh]). }
  split; intros C ctx; [apply (proj1 (X (ectx_size C)))|apply (proj2 (X (sctx_size C)))]; lia.
Qed.

(* the verdict of typecheck *)
Lemma typecheck_notok fuel vars stmts :
  (forall s, wf s -> notok (solve (kinds_of vars 1 (PositiveMap.empty varkind)) (gfix fuel)
                          (afix (kinds_of vars 1 (PositiveMap.empty varkind)) (gfix fuel) fuel)
                          stmts (find_start vars) s)) ->
  typecheck fuel (mkResolved vars stmts) <> Ok tt.
Proof.
  intros H. unfold typecheck. cbn [r_vars r_stmts].
  match goal with |- match ?m ?s with _ => _ end <> _ => assert (N : notok (m s)) end.
  { apply bind_notok_rw; [apply pres_init_vars|apply wf_empty|]. intros ? ? W. now apply H. }
  match goal with |- match ?o with _ => _ end <> _ => destruct o as [[? ?]| | |] end; try discriminate.
  exfalso. eapply N. reflexivity.
Qed.

(* nothing is produced unless the type checker returned Ok (compiler.rs: `typechecker::solve(..)?`
   comes before `lua::generate`) *)
Theorem no_output_on_error {L} (lower : resolved -> L) fuel r :
  (forall lua, compile_after_order lower fuel r = COk lua -> typecheck fuel r = Ok tt /\ lua = lower r) /\
  (forall e more, compile_after_order lower fuel r = CErr e more -> typecheck fuel r = Err e more) /\
  (typecheck fuel r <> Ok tt -> forall lua, compile_after_order lower fuel r <> COk lua).
Proof.
  unfold compile_after_order. destruct (typecheck fuel r) as [[]| | |]; repeat split; intros; try discriminate;
    try congruence.
Qed.
