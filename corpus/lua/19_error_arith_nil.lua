-- expect-error: attempt to perform arithmetic on
-- expect: before
local a
print("before")
local b = a + 1
