(* C14 blank lines, the cursor level.  Token lists without comments (comments are handled by CommentSim.v and put
   back at the end); [BL l l']: l' is l with more newlines next to newlines.  Two cursors over such lists are
   [Uk k]-related when the right one stands on k newlines the left list does not have (the left cursor has just
   passed the newline they belong to); [A] = [Uk 0]: aligned.  What the parser's cursor primitives do to the
   relation is proved here, once; BlankSim.v never looks inside. *)
From Coq Require Import List NArith Bool Arith Lia.
From Sylt Require Import Syntax.Ast Syntax.Tok Parse.PrecTable Parse.Parser Parse.ParserProofs.
From Sylt Require Parse.LayoutStmt.
Import ListNotations.

Definition NLt : tok := TK KNewline.

Definition nocom (l : list tok) : Prop := forallb not_comment l = true.

Inductive BL : list tok -> list tok -> Prop :=
| BL_nil : BL [] []
| BL_cons t l l' : BL l l' -> BL (t :: l) (t :: l')
| BL_dup l l' : BL (NLt :: l) (NLt :: l') -> BL (NLt :: l) (NLt :: NLt :: l').

Lemma BL_refl : forall l, BL l l.
Proof. induction l; constructor; assumption. Qed.

Fixpoint cntNL (l : list tok) : nat := match l with TK KNewline :: l' => S (cntNL l') | _ => 0 end.
Fixpoint dropNL (l : list tok) : list tok := match l with TK KNewline :: l' => dropNL l' | _ => l end.

Definition isNL (t : tok) : bool := match t with TK KNewline => true | _ => false end.

Lemma isNL_spec t : isNL t = true <-> t = NLt.
Proof.
  split; [|intros ->; reflexivity]. destruct t as [| | | | | |k|]; try discriminate. destruct k; try discriminate.
  reflexivity.
Qed.

Lemma isNL_false t : isNL t = false <-> t <> NLt.
Proof.
  split.
  - intros H E. subst t. discriminate H.
  - intros H. destruct (isNL t) eqn:E; [|reflexivity]. apply isNL_spec in E. contradiction.
Qed.

Lemma cnt_nonNL t l : isNL t = false -> cntNL (t :: l) = 0 /\ dropNL (t :: l) = t :: l.
Proof.
  intros H. destruct t as [| | | | | |k|]; try (split; reflexivity). destruct k; try (split; reflexivity). discriminate H.
Qed.

Lemma BL_nil_l r : BL [] r -> r = [].
Proof. intros H. inversion H. reflexivity. Qed.

Lemma BL_nil_r l : BL l [] -> l = [].
Proof. intros H. inversion H. reflexivity. Qed.

Lemma BL_hd l l' : BL l l' -> hd TEOF l' = hd TEOF l.
Proof. intros H. destruct H; reflexivity. Qed.

(* a token that is not a newline has its copy on the other side *)
Lemma BL_other t l r : BL (t :: l) r -> isNL t = false -> exists l', r = t :: l' /\ BL l l'.
Proof.
  intros H N. inversion H; subst.
  - eexists. split; [reflexivity|assumption].
  - discriminate N.
Qed.

(* a newline on the left: one or more on the right *)
Lemma BL_nl : forall r l, BL (NLt :: l) r -> exists k r0, r = NLt :: repeat NLt k ++ r0 /\ BL l r0.
Proof.
  intros r. remember (length r) as n eqn:En. revert r En. induction n as [n IH] using lt_wf_ind.
  intros r En l H. inversion H as [|t0 l0 l1 H1|l0 l1 H1]; subst.
  - exists 0, l1. split; [reflexivity|assumption].
  - destruct (IH (length (NLt :: l1)) ltac:(cbn [length]; lia) (NLt :: l1) eq_refl l H1) as (k & r0 & E & B).
    exists (S k), r0. split; [|exact B]. cbn [repeat app]. rewrite E. reflexivity.
Qed.

Lemma BL_repeat x x' : BL x x' -> forall a b, 1 <= a <= b -> BL (repeat NLt a ++ x) (repeat NLt b ++ x').
Proof.
  intros H a b [Ha Hb]. replace b with ((b - a) + a) by lia. generalize (b - a) as d. intros d.
  induction d as [|d IH].
  - cbn [Nat.add]. clear Hb. induction a as [|a IHa]; [lia|]. destruct a as [|a].
    + cbn [repeat app]. constructor. exact H.
    + cbn [repeat app] in *. constructor. apply IHa. lia.
  - cbn [Nat.add repeat app]. destruct a as [|a]; [lia|]. cbn [repeat app] in *.
    replace (d + S a) with (S (d + a)) in * by lia. cbn [repeat app] in *. apply BL_dup. exact IH.
Qed.

Lemma BL_runs l l' : BL l l' ->
  BL (dropNL l) (dropNL l') /\ ((cntNL l = 0 /\ cntNL l' = 0) \/ (1 <= cntNL l <= cntNL l')).
Proof.
  intros H. induction H as [|t l l' H IH|l l' H IH].
  - split; [constructor|left; split; reflexivity].
  - destruct (isNL t) eqn:E.
    + apply isNL_spec in E. subst t. cbn [dropNL cntNL NLt]. destruct IH as [D [[A B]|[A B]]]; (split; [exact D|right; lia]).
    + destruct (cnt_nonNL t l E) as [C1 D1]. destruct (cnt_nonNL t l' E) as [C2 D2]. rewrite C1, C2, D1, D2.
      split; [constructor; exact H|left; split; reflexivity].
  - cbn [dropNL cntNL NLt] in *. destruct IH as [D [[A B]|[A B]]]; [lia|]. split; [exact D|right; lia].
Qed.

(* ------------------------------------------------------------------------------------------- *)
(* the cursor primitives on lists without comments *)

Lemma nocom_cons t l : nocom (t :: l) <-> not_comment t = true /\ nocom l.
Proof. unfold nocom. cbn [forallb]. rewrite andb_true_iff. reflexivity. Qed.

Lemma nocom_app a b : nocom (a ++ b) <-> nocom a /\ nocom b.
Proof. unfold nocom. rewrite forallb_app, andb_true_iff. reflexivity. Qed.

Lemma nocom_repeat k : nocom (repeat NLt k).
Proof. induction k; [reflexivity|]. cbn [repeat]. apply nocom_cons. split; [reflexivity|exact IHk]. Qed.

Lemma repeat_shift n p : repeat NLt n ++ NLt :: p = repeat NLt (S n) ++ p.
Proof. induction n as [|n IH]; [reflexivity|]. cbn [repeat app] in *. rewrite IH. reflexivity. Qed.

Lemma adv1_nocom t l p : not_comment t = true -> adv (t :: l) 1 p = (t :: p, l, 0).
Proof. intros H. cbn [adv]. destruct t; try discriminate H; destruct l; reflexivity. Qed.

Lemma strip_false_nocom l p : nocom l -> strip false l p = (p, l).
Proof.
  intros H. destruct l as [|t l]; [reflexivity|]. apply nocom_cons in H. destruct H as [H _].
  destruct t as [| | | | | |k|]; try discriminate H; try reflexivity. destruct k; reflexivity.
Qed.

Lemma strip_true_nocom : forall l p, nocom l -> strip true l p = (repeat NLt (cntNL l) ++ p, dropNL l).
Proof.
  induction l as [|t l IH]; intros p H; [reflexivity|]. apply nocom_cons in H. destruct H as [H Hl].
  destruct (isNL t) eqn:E.
  - apply isNL_spec in E. subst t. cbn [strip cntNL dropNL NLt]. rewrite (IH _ Hl).
    f_equal. change (TK KNewline) with NLt. apply repeat_shift.
  - destruct (cnt_nonNL t l E) as [C D]. rewrite C, D. cbn [repeat app].
    destruct t as [| | | | | |k|]; try discriminate H; try reflexivity. destruct k; try reflexivity. discriminate E.
Qed.

Lemma nocom_dropNL l : nocom l -> nocom (dropNL l).
Proof.
  induction l as [|t l IH]; intros H; [exact H|]. destruct (isNL t) eqn:E.
  - apply isNL_spec in E. subst t. cbn [dropNL NLt]. apply IH. apply nocom_cons in H. exact (proj2 H).
  - rewrite (proj2 (cnt_nonNL t l E)). exact H.
Qed.

(* skip 1, spelled out *)
Definition skip1_spec (c : ctx) : ctx :=
  match post c with
  | [] => mkctx (pre c) [] (over c + 1) (nl c)
  | t :: l =>
      if nl c then mkctx (repeat NLt (cntNL l) ++ t :: pre c) (dropNL l) (over c) true
      else mkctx (t :: pre c) l (over c) false
  end.

Lemma skip1_eq c : nocom (post c) -> skip 1 c = skip1_spec c.
Proof.
  intros H. unfold skip, skip1_spec. destruct (post c) as [|t l] eqn:E.
  - cbn [adv strip]. destruct (nl c); reflexivity.
  - apply nocom_cons in H. destruct H as [Ht Hl]. rewrite (adv1_nocom t l (pre c) Ht).
    destruct (nl c) eqn:En.
    + rewrite (strip_true_nocom l _ Hl). rewrite Nat.add_0_r. reflexivity.
    + rewrite (strip_false_nocom l _ Hl). rewrite Nat.add_0_r. reflexivity.
Qed.

Definition skip0_spec (c : ctx) : ctx :=
  if nl c then mkctx (repeat NLt (cntNL (post c)) ++ pre c) (dropNL (post c)) (over c) true else c.

Lemma adv_0 l p : adv l 0 p = (p, l, 0).
Proof. destruct l; reflexivity. Qed.

Lemma skip0_eq c : nocom (post c) -> skip 0 c = skip0_spec c.
Proof.
  intros H. unfold skip, skip0_spec. rewrite adv_0. destruct (nl c) eqn:En.
  - rewrite (strip_true_nocom _ _ H). rewrite Nat.add_0_r. reflexivity.
  - rewrite (strip_false_nocom _ _ H). rewrite Nat.add_0_r. destruct c. cbn in *. subst. reflexivity.
Qed.

(* Context::prev on lists without comments: always defined *)
Definition prev_spec (c : ctx) : ctx :=
  match over c with
  | S o => mkctx (pre c) (post c) o (nl c)
  | 0 => match pre c with
         | [] => c
         | t :: p => mkctx p (t :: post c) 0 (nl c)
         end
  end.

Lemma prev_eq c : nocom (pre c) -> nocom (post c) -> prev c = Some (prev_spec c).
Proof.
  intros Hp Hq. unfold prev, prev_spec. destruct (over c); [|reflexivity].
  destruct (pre c) as [|t p].
  - destruct (post c) as [|t l]; [reflexivity|]. apply nocom_cons in Hq. destruct Hq as [Hq _].
    destruct t; try discriminate Hq; reflexivity.
  - apply nocom_cons in Hp. destruct Hp as [Hp _]. destruct t; try discriminate Hp; destruct p; reflexivity.
Qed.

(* ------------------------------------------------------------------------------------------- *)
(* the relation on cursors *)

(* behind the cursor only the last token matters (Context::prev in the `loop` arm) *)
(* ... and nothing at all as long as the left cursor has not moved (a file may start with blank lines) *)
Definition PH (p p' : list tok) : Prop := p = [] \/ hd_error p = hd_error p'.

Record Uk (k : nat) (c c' : ctx) : Prop := mkU {
  u_nl : nl c' = nl c;
  u_over : over c' = over c;
  u_ov : 0 < over c -> post c = [] /\ post c' = [];
  u_pre : PH (pre c) (pre c');
  u_post : exists r0, post c' = repeat NLt k ++ r0 /\ BL (post c) r0;
  u_top : 0 < k -> pre c = [] \/ exists p, pre c = NLt :: p;
  u_nc : nocom (pre c) /\ nocom (post c) /\ nocom (pre c') /\ nocom (post c') }.

Definition A (c c' : ctx) : Prop := Uk 0 c c'.
Definition U (c c' : ctx) : Prop := exists k, Uk k c c'.

Lemma A_U c c' : A c c' -> U c c'.
Proof. intros H. exists 0. exact H. Qed.

Lemma A_post c c' : A c c' -> BL (post c) (post c').
Proof. intros H. destruct (u_post _ _ _ H) as (r0 & E & B). cbn [repeat app] in E. rewrite E. exact B. Qed.

Lemma A_token c c' : A c c' -> token c' = token c.
Proof.
  intros H. pose proof (A_post _ _ H) as B. unfold token. apply BL_hd in B.
  destruct (post c), (post c'); cbn [hd] in B; try reflexivity; try exact B.
Qed.

Lemma Uk_nl k c c' : Uk k c c' -> nl c' = nl c.
Proof. apply u_nl. Qed.

Lemma U_nl c c' : U c c' -> nl c' = nl c.
Proof. intros [k H]. apply (u_nl _ _ _ H). Qed.

Lemma A_is_k kw c c' : A c c' -> is_k kw c' = is_k kw c.
Proof. intros H. unfold is_k. rewrite (A_token _ _ H). reflexivity. Qed.

Lemma Uk_set_nl k b c c' : Uk k c c' -> Uk k (set_nl b c) (set_nl b c').
Proof. intros [H1 H2 H3 H4 H5 H6 H7]. constructor; cbn [set_nl nl over pre post]; try assumption. reflexivity. Qed.

Lemma U_set_nl b c c' : U c c' -> U (set_nl b c) (set_nl b c').
Proof. intros [k H]. exists k. apply Uk_set_nl. exact H. Qed.

Lemma mkA c c' : nl c' = nl c -> over c' = over c -> (0 < over c -> post c = [] /\ post c' = []) ->
  PH (pre c) (pre c') -> BL (post c) (post c') ->
  nocom (pre c) -> nocom (post c) -> nocom (pre c') -> nocom (post c') -> A c c'.
Proof.
  intros. constructor; try assumption.
  - exists (post c'). split; [reflexivity|assumption].
  - lia.
  - repeat split; assumption.
Qed.

Lemma token_isNL c : is_k KNewline c = isNL (token c).
Proof. unfold is_k. destruct (token c); reflexivity. Qed.

Lemma PH_runs a b x x' : PH x x' -> ((a = 0 /\ b = 0) \/ (1 <= a /\ 1 <= b)) -> PH (repeat NLt a ++ x) (repeat NLt b ++ x').
Proof.
  intros H [[-> ->]|[Ha Hb]]; [exact H|]. destruct a; [lia|]. destruct b; [lia|]. right. reflexivity.
Qed.

Lemma cnt_repeat k r : cntNL (repeat NLt k ++ r) = k + cntNL r.
Proof. induction k; cbn; [reflexivity|rewrite IHk; reflexivity]. Qed.

Lemma drop_repeat k r : dropNL (repeat NLt k ++ r) = dropNL r.
Proof. induction k; cbn; [reflexivity|exact IHk]. Qed.

(* skip 1 away from a newline, or with newlines switched off: aligned stays aligned *)
Lemma A_skip1 c c' : A c c' -> nl c = true \/ isNL (token c) = false -> A (skip 1 c) (skip 1 c').
Proof.
  intros H Hc. pose proof (A_post _ _ H) as B. destruct (u_nc _ _ _ H) as (N1 & N2 & N3 & N4).
  rewrite (skip1_eq c N2), (skip1_eq c' N4). unfold skip1_spec. rewrite (u_nl _ _ _ H), (u_over _ _ _ H).
  pose proof (u_pre _ _ _ H) as P. pose proof (u_ov _ _ _ H) as OV.
  destruct (post c) as [|t l] eqn:E.
  - apply BL_nil_l in B. rewrite B. apply mkA; cbn [nl over pre post]; try assumption; try reflexivity; [|constructor].
    intros _. split; reflexivity.
  - assert (O0 : over c = 0) by (destruct (over c); [reflexivity|destruct OV as [X _]; [lia|discriminate X]]).
    apply nocom_cons in N2. destruct N2 as [Nt Nl].
    destruct (nl c) eqn:En.
    + destruct (isNL t) eqn:Et.
      * apply isNL_spec in Et. subst t. destruct (BL_nl _ _ B) as (k & r0 & Er & Br).
        destruct (BL_runs _ _ Br) as [D R0]. rewrite Er.
        rewrite Er in N4. apply nocom_cons in N4. destruct N4 as [_ N4].
        apply mkA; cbn [nl over pre post]; try reflexivity.
        -- rewrite O0. lia.
        -- rewrite !repeat_shift. right. reflexivity.
        -- rewrite drop_repeat. exact D.
        -- apply nocom_app. split; [apply nocom_repeat|apply nocom_cons; split; assumption].
        -- apply nocom_dropNL. exact Nl.
        -- apply nocom_app. split; [apply nocom_repeat|apply nocom_cons; split; [reflexivity|assumption]].
        -- apply nocom_dropNL. exact N4.
      * destruct (BL_other _ _ _ B Et) as (l' & Er & Br). destruct (BL_runs _ _ Br) as [D R0]. rewrite Er.
        rewrite Er in N4. apply nocom_cons in N4. destruct N4 as [_ N4].
        apply mkA; cbn [nl over pre post]; try reflexivity.
        -- rewrite O0. lia.
        -- apply PH_runs; [right; reflexivity|]. destruct R0 as [[R1 R2]|R1]; [left; split; assumption|right; lia].
        -- exact D.
        -- apply nocom_app. split; [apply nocom_repeat|apply nocom_cons; split; assumption].
        -- apply nocom_dropNL. exact Nl.
        -- apply nocom_app. split; [apply nocom_repeat|apply nocom_cons; split; assumption].
        -- apply nocom_dropNL. exact N4.
    + destruct Hc as [Hc|Hc]; [discriminate Hc|]. unfold token in Hc. rewrite E in Hc.
      destruct (BL_other _ _ _ B Hc) as (l' & Er & Br). rewrite Er.
      rewrite Er in N4. apply nocom_cons in N4. destruct N4 as [_ N4].
      apply mkA; cbn [nl over pre post]; try reflexivity; try assumption.
      * rewrite O0. lia.
      * right. reflexivity.
      * apply nocom_cons. split; assumption.
      * apply nocom_cons. split; assumption.
Qed.

Lemma A_skip1_tk c c' t : A c c' -> token c = t -> isNL t = false -> A (skip 1 c) (skip 1 c').
Proof. intros H E N. apply A_skip1; [exact H|right; rewrite E; exact N]. Qed.

Lemma A_skip1_isk c c' k : A c c' -> is_k k c = true -> k <> KNewline -> A (skip 1 c) (skip 1 c').
Proof.
  intros H E N. apply A_skip1; [exact H|right]. unfold is_k in E. destruct (token c) as [| | | | | |k0|]; try reflexivity.
  cbn [tok_is] in E. destruct k0; try reflexivity. destruct k; try discriminate E. congruence.
Qed.

Lemma A_skip1_nlt c c' : A c c' -> nl c = true -> A (skip 1 c) (skip 1 c').
Proof. intros H E. apply A_skip1; [exact H|left; exact E]. Qed.

Lemma A_skip_if k c c' : A c c' -> k <> KNewline -> A (skip_if k c) (skip_if k c').
Proof.
  intros H N. unfold skip_if. rewrite (A_is_k k _ _ H). destruct (is_k k c) eqn:E; [|exact H].
  apply (A_skip1_isk c c' k); assumption.
Qed.

(* over a newline that counts: the right cursor may now stand on newlines the left list does not have *)
Lemma A_skip1_nl c c' : A c c' -> nl c = false -> isNL (token c) = true -> U (skip 1 c) (skip 1 c').
Proof.
  intros H En Hc. pose proof (A_post _ _ H) as B. destruct (u_nc _ _ _ H) as (N1 & N2 & N3 & N4).
  rewrite (skip1_eq c N2), (skip1_eq c' N4). unfold skip1_spec. rewrite (u_nl _ _ _ H), (u_over _ _ _ H), En.
  pose proof (u_ov _ _ _ H) as OV.
  unfold token in Hc. destruct (post c) as [|t l] eqn:E; [discriminate Hc|]. apply isNL_spec in Hc. subst t.
  assert (O0 : over c = 0) by (destruct (over c); [reflexivity|destruct OV as [X _]; [lia|discriminate X]]).
  destruct (BL_nl _ _ B) as (k & r0 & Er & Br). rewrite Er.
  rewrite Er in N4. apply nocom_cons in N4. destruct N4 as [_ N4]. apply nocom_cons in N2. destruct N2 as [_ N2].
  exists k. constructor; cbn [nl over pre post]; try reflexivity.
  - rewrite O0. lia.
  - right. reflexivity.
  - exists r0. split; [reflexivity|exact Br].
  - intros _. right. eexists. reflexivity.
  - repeat split; try assumption; try (apply nocom_cons; split; try reflexivity; assumption).
Qed.

(* the right cursor steps over one of its extra newlines *)
Lemma Uk_stutter k c c' : Uk (S k) c c' -> nl c' = false -> Uk k c (skip 1 c') /\ token c' = NLt.
Proof.
  intros H En. destruct (u_nc _ _ _ H) as (N1 & N2 & N3 & N4). destruct (u_post _ _ _ H) as (r0 & E & B).
  rewrite (skip1_eq c' N4). unfold skip1_spec, token. rewrite E, En. cbn [repeat app]. split; [|reflexivity].
  pose proof (u_top _ _ _ H ltac:(lia)) as Top.
  rewrite E in N4. cbn [repeat app] in N4. apply nocom_cons in N4. destruct N4 as [_ N4].
  constructor; cbn [nl over pre post].
  - rewrite <- (u_nl _ _ _ H). symmetry. exact En.
  - apply (u_over _ _ _ H).
  - intros Ho. destruct (u_ov _ _ _ H Ho) as [_ X]. rewrite E in X. discriminate X.
  - unfold PH. destruct Top as [E0|(p & Ep)]; [left; exact E0|right; rewrite Ep; reflexivity].
  - exists r0. split; [reflexivity|exact B].
  - intros _. exact Top.
  - repeat split; assumption.
Qed.

(* ... as the empty statement does it: push_nl false, expect Newline, pop_nl *)
Lemma skip0_false c : nocom (post c) -> nl c = false -> skip 0 c = c.
Proof. intros H E. rewrite (skip0_eq c H). unfold skip0_spec. rewrite E. reflexivity. Qed.

Lemma Uk_stutter_stmt k c c' : Uk (S k) c c' ->
  Uk k c (set_nl (nl c') (skip 1 (set_nl false c'))) /\ token c' = NLt.
Proof.
  intros H. pose proof (Uk_set_nl _ false _ _ H) as H1.
  destruct (Uk_stutter k (set_nl false c) (set_nl false c') H1 eq_refl) as [H2 T].
  pose proof (Uk_set_nl _ (nl c') _ _ H2) as H3. split; [|exact T].
  destruct H3 as [X1 X2 X3 X4 X5 X6 X7]. cbn [set_nl nl over pre post] in *.
  constructor; cbn [set_nl nl over pre post]; try assumption. apply (u_nl _ _ _ H).
Qed.

(* skip 0 (push_nl) *)
Lemma A_skip0 c c' : A c c' -> A (skip 0 c) (skip 0 c').
Proof.
  intros H. pose proof (A_post _ _ H) as B. destruct (u_nc _ _ _ H) as (N1 & N2 & N3 & N4).
  rewrite (skip0_eq c N2), (skip0_eq c' N4). unfold skip0_spec. rewrite (u_nl _ _ _ H).
  destruct (nl c) eqn:En; [|exact H]. destruct (BL_runs _ _ B) as [D R0].
  apply mkA; cbn [nl over pre post]; try reflexivity.
  - apply (u_over _ _ _ H).
  - intros Ho. destruct (u_ov _ _ _ H Ho) as [X Y]. rewrite X, Y. split; reflexivity.
  - apply PH_runs; [apply (u_pre _ _ _ H)|]. destruct R0 as [[R1 R2]|R1]; [left; split; assumption|right; lia].
  - exact D.
  - apply nocom_app. split; [apply nocom_repeat|assumption].
  - apply nocom_dropNL. exact N2.
  - apply nocom_app. split; [apply nocom_repeat|assumption].
  - apply nocom_dropNL. exact N4.
Qed.

Lemma A_push b c c' : A c c' -> A (fst (push_nl b c)) (fst (push_nl b c')) /\ snd (push_nl b c') = snd (push_nl b c).
Proof.
  intros H. unfold push_nl. cbn [fst snd]. split; [apply A_skip0; apply Uk_set_nl; exact H|apply (u_nl _ _ _ H)].
Qed.

(* skip_nls: past every newline, whatever the flag *)
Definition skip_nls_spec (c : ctx) : ctx :=
  mkctx (repeat NLt (cntNL (post c)) ++ pre c) (dropNL (post c)) (over c) (nl c).

Lemma skip_while_spec : forall n f c, nocom (post c) -> cntNL (post c) = n -> n < f -> skip_while_nl f c = skip_nls_spec c.
Proof.
  induction n as [n IH] using lt_wf_ind. intros f c N E L. destruct f as [|f]; [lia|]. cbn [skip_while_nl].
  rewrite token_isNL. unfold token. destruct (post c) as [|t l] eqn:Ep.
  - cbn [isNL]. unfold skip_nls_spec. rewrite Ep. cbn. destruct c. cbn in *. subst. reflexivity.
  - destruct (isNL t) eqn:Et.
    + apply isNL_spec in Et. subst t. cbn [cntNL NLt] in E.
      assert (N' := N). apply nocom_cons in N'. destruct N' as [_ Nl].
      rewrite (skip1_eq c) by (rewrite Ep; exact N). unfold skip1_spec. rewrite Ep. destruct (nl c) eqn:En.
      * (* all of them at once *)
        destruct f as [|f]; [lia|]. cbn [skip_while_nl]. rewrite token_isNL. unfold token. cbn [post].
        assert (Z : isNL (match dropNL l with [] => TEOF | t :: _ => t end) = false).
        { clear. induction l as [|t l IH]; [reflexivity|]. destruct (isNL t) eqn:Et.
          - apply isNL_spec in Et. subst t. exact IH.
          - rewrite (proj2 (cnt_nonNL t l Et)). exact Et. }
        rewrite Z. unfold skip_nls_spec. rewrite Ep. cbn [cntNL dropNL NLt]. rewrite En. f_equal. apply repeat_shift.
      * rewrite (IH (cntNL l) ltac:(lia) f (mkctx (NLt :: pre c) l (over c) false) Nl eq_refl ltac:(lia)).
        unfold skip_nls_spec. cbn [pre post over nl]. rewrite Ep. cbn [cntNL dropNL NLt]. rewrite En. f_equal.
        apply repeat_shift.
    + destruct (cnt_nonNL t l Et) as [C D]. unfold skip_nls_spec. rewrite Ep, C, D. cbn. destruct c. cbn in *. subst. reflexivity.
Qed.

Lemma cnt_le l : cntNL l <= length l.
Proof. induction l as [|t l IH]; [cbn; lia|]. destruct t as [| | | | | |k|]; cbn; try lia. destruct k; cbn; lia. Qed.

Lemma skip_nls_eq c : nocom (post c) -> skip_nls c = skip_nls_spec c.
Proof.
  intros N. unfold skip_nls. apply (skip_while_spec (cntNL (post c))); [exact N|reflexivity|].
  unfold local_fuel. pose proof (cnt_le (post c)). lia.
Qed.

Lemma U_skip_nls c c' : U c c' -> A (skip_nls c) (skip_nls c').
Proof.
  intros [k H]. destruct (u_nc _ _ _ H) as (N1 & N2 & N3 & N4). destruct (u_post _ _ _ H) as (r0 & E & B).
  rewrite (skip_nls_eq c N2), (skip_nls_eq c' N4). unfold skip_nls_spec. rewrite E, cnt_repeat, drop_repeat.
  destruct (BL_runs _ _ B) as [D R0]. rewrite E in N4. apply nocom_app in N4. destruct N4 as [_ N4].
  apply mkA; cbn [nl over pre post].
  - apply (u_nl _ _ _ H).
  - apply (u_over _ _ _ H).
  - intros Ho. destruct (u_ov _ _ _ H Ho) as [X Y]. rewrite X. rewrite E in Y. apply app_eq_nil in Y. destruct Y as [_ Y].
    rewrite Y. split; reflexivity.
  - destruct R0 as [[R1 R2]|R1].
    + rewrite R1, R2, Nat.add_0_r. cbn [repeat app]. destruct k as [|k]; [exact (u_pre _ _ _ H)|].
      destruct (u_top _ _ _ H ltac:(lia)) as [E0|(p & Ep)]; [left; exact E0|right; rewrite Ep; reflexivity].
    + apply PH_runs; [apply (u_pre _ _ _ H)|right; lia].
  - exact D.
  - apply nocom_app. split; [apply nocom_repeat|assumption].
  - apply nocom_dropNL. exact N2.
  - apply nocom_app. split; [apply nocom_repeat|assumption].
  - apply nocom_dropNL. exact N4.
Qed.

(* the `loop` arm: Context::prev after the body, then (if it is a newline) the statement's own expect!(Newline) *)
Lemma U_prev c c' cp cp' : U c c' -> pre c <> [] -> prev c = Some cp -> prev c' = Some cp' ->
  is_k KNewline cp' = is_k KNewline cp /\
  (is_k KNewline cp = false -> A c c') /\
  (is_k KNewline cp = true -> U (skip 1 cp) (skip 1 cp')).
Proof.
  intros [k H] Hne E E'. destruct (u_nc _ _ _ H) as (N1 & N2 & N3 & N4). destruct (u_post _ _ _ H) as (r0 & Er & B).
  rewrite (prev_eq c N1 N2) in E. rewrite (prev_eq c' N3 N4) in E'. injection E as <-. injection E' as <-.
  rewrite !token_isNL. unfold prev_spec. rewrite (u_over _ _ _ H).
  destruct (over c) as [|o] eqn:Eo.
  - pose proof (u_pre _ _ _ H) as P. unfold PH in P. destruct P as [P|P]; [contradiction|].
    destruct (pre c) as [|t p] eqn:Ep, (pre c') as [|t' p'] eqn:Ep'; try discriminate P; [contradiction|].
    + cbn [hd_error] in P. injection P as <-. unfold token. cbn [post]. split; [reflexivity|]. split.
      * intros T. destruct k as [|k]; [exact H|]. destruct (u_top _ _ _ H ltac:(lia)) as [X|(p0 & X)]; rewrite Ep in X;
          [discriminate X|]. injection X as -> _. discriminate T.
      * intros T. apply isNL_spec in T. subst t.
        assert (Nl : nocom (NLt :: post c)) by (apply nocom_cons; split; [reflexivity|assumption]).
        assert (Nl' : nocom (NLt :: post c')) by (apply nocom_cons; split; [reflexivity|assumption]).
        rewrite (skip1_eq (mkctx p (NLt :: post c) 0 (nl c)) Nl), (skip1_eq (mkctx p' (NLt :: post c') 0 (nl c')) Nl').
        unfold skip1_spec. cbn [pre post over nl].
        rewrite (u_nl _ _ _ H). apply nocom_cons in N1. destruct N1 as [_ N1]. apply nocom_cons in N3. destruct N3 as [_ N3].
        destruct (nl c) eqn:En.
        -- (* the flag is on: every newline is passed, aligned *)
           apply A_U. rewrite Er, cnt_repeat, drop_repeat. destruct (BL_runs _ _ B) as [D R0].
           rewrite Er in N4. apply nocom_app in N4. destruct N4 as [_ N4].
           apply mkA; cbn [nl over pre post]; try reflexivity.
           ++ lia.
           ++ rewrite !repeat_shift. right. reflexivity.
           ++ exact D.
           ++ apply nocom_app. split; [apply nocom_repeat|apply nocom_cons; split; [reflexivity|assumption]].
           ++ apply nocom_dropNL. exact N2.
           ++ apply nocom_app. split; [apply nocom_repeat|apply nocom_cons; split; [reflexivity|assumption]].
           ++ apply nocom_dropNL. exact N4.
        -- (* back where the body ended *)
           exists k. constructor; cbn [nl over pre post]; try reflexivity.
           ++ lia.
           ++ right. reflexivity.
           ++ exists r0. split; assumption.
           ++ intros _. right. eexists. reflexivity.
           ++ repeat split; try assumption; try (apply nocom_cons; split; try reflexivity; assumption).
  - (* past the end *)
    destruct (u_ov _ _ _ H ltac:(lia)) as [X Y]. unfold token. cbn [post]. rewrite X, Y. cbn [isNL].
    split; [reflexivity|]. split; [|discriminate]. intros _.
    destruct k as [|k]; [exact H|]. rewrite Er in Y. discriminate Y.
Qed.

(* skip 2 when newlines are skipped: a newline right after the first token is counted by skip, not by the
   lookahead (which has skipped it): then skip 2 stops ON the second token of the lookahead *)
Lemma skip2_true c t1 x rest : nocom (post c) -> post c = t1 :: x :: rest -> nl c = true ->
  skip 2 c = if isNL x then skip 1 c else skip 1 (skip 1 c).
Proof.
  intros N E En. assert (N' := N). rewrite E in N'. apply nocom_cons in N'. destruct N' as [N1 N'].
  apply nocom_cons in N'. destruct N' as [Nx Nr].
  rewrite (skip1_eq c N). unfold skip1_spec. rewrite E, En.
  unfold skip at 1. rewrite E, En.
  assert (Ad : adv (t1 :: x :: rest) 2 (pre c) = (x :: t1 :: pre c, rest, 0)).
  { cbn [adv]. destruct t1; try discriminate N1; cbn [adv]; destruct x; try discriminate Nx; destruct rest; reflexivity. }
  rewrite Ad, (strip_true_nocom rest _ Nr), Nat.add_0_r.
  destruct (isNL x) eqn:Ex.
  - apply isNL_spec in Ex. subst x. cbn [cntNL dropNL NLt]. f_equal. apply repeat_shift.
  - destruct (cnt_nonNL x rest Ex) as [C D]. rewrite C, D. cbn [repeat app].
    rewrite skip1_eq by (cbn [post]; apply nocom_cons; split; assumption). unfold skip1_spec. cbn [pre post over nl]. reflexivity.
Qed.

Lemma A_skip2_any c c' t2 : A c c' -> isNL (token c) = false -> token (skip 1 c) = t2 -> isNL t2 = false ->
  t2 <> TEOF -> A (skip 2 c) (skip 2 c').
Proof.
  intros H N1 E2 T2 N2. destruct (nl c) eqn:En.
  - destruct (u_nc _ _ _ H) as (M1 & M2 & M3 & M4). pose proof (A_post _ _ H) as B.
    assert (H1 : A (skip 1 c) (skip 1 c')) by (apply A_skip1; [exact H|right; exact N1]).
    unfold token in N1. destruct (post c) as [|t1 l] eqn:E.
    { exfalso. rewrite (skip1_eq c) in E2 by (rewrite E; exact M2). unfold skip1_spec, token in E2. rewrite E in E2.
      cbn in E2. congruence. }
    destruct (BL_other _ _ _ B N1) as (l' & E' & Bl).
    destruct l as [|x rest].
    { exfalso. rewrite (skip1_eq c) in E2 by (rewrite E; exact M2). unfold skip1_spec, token in E2. rewrite E, En in E2.
      cbn in E2. congruence. }
    assert (En' : nl c' = true) by (rewrite (u_nl _ _ _ H); exact En).
    destruct (isNL x) eqn:Ex.
    + apply isNL_spec in Ex. subst x. destruct (BL_nl _ _ Bl) as (k & r0 & El' & _).
      rewrite (skip2_true c t1 NLt rest ltac:(rewrite E; exact M2) E En).
      rewrite (skip2_true c' t1 NLt (repeat NLt k ++ r0) M4 ltac:(rewrite E', El'; reflexivity) En').
      cbn [isNL NLt]. exact H1.
    + destruct (BL_other _ _ _ Bl Ex) as (rest' & El' & _).
      rewrite (skip2_true c t1 x rest ltac:(rewrite E; exact M2) E En).
      rewrite (skip2_true c' t1 x rest' M4 ltac:(rewrite E', El'; reflexivity) En').
      rewrite Ex. apply (A_skip1_tk _ _ t2); assumption.
  - rewrite (LayoutStmt.skip2_eq c En), (LayoutStmt.skip2_eq c') by (rewrite (u_nl _ _ _ H); exact En).
    apply (A_skip1_tk _ _ t2); [apply A_skip1; [exact H|right; exact N1]|exact E2|exact T2].
Qed.

Lemma dropNL_head l : isNL (match dropNL l with [] => TEOF | t :: _ => t end) = false.
Proof.
  induction l as [|t l IH]; [reflexivity|]. destruct (isNL t) eqn:Et.
  - apply isNL_spec in Et. subst t. exact IH.
  - rewrite (proj2 (cnt_nonNL t l Et)). exact Et.
Qed.

Lemma skip_nls_token c : nocom (post c) -> isNL (token (skip_nls c)) = false.
Proof. intros N. rewrite (skip_nls_eq c N). unfold skip_nls_spec, token. cbn [post]. apply dropNL_head. Qed.

Lemma A_nocom c c' : A c c' -> nocom (post c) /\ nocom (post c').
Proof. intros H. destruct (u_nc _ _ _ H) as (_ & N2 & _ & N4). split; assumption. Qed.

Lemma A_after_arg c c' : A c c' -> A (after_arg c) (after_arg c').
Proof.
  intros H. unfold after_arg. cbv zeta.
  assert (H0 : A (skip_nls c) (skip_nls c')) by (apply U_skip_nls; apply A_U; exact H).
  rewrite (A_token _ _ H), (A_token _ _ H0).
  destruct (tok_is KComma (token c) || tok_is KNewline (token c) && tok_is KComma (token (skip_nls c))); [|exact H].
  apply U_skip_nls. apply A_U. apply A_skip1; [exact H0|right]. apply skip_nls_token. apply (A_nocom _ _ H).
Qed.

(* any newline, whatever the flag *)
Lemma A_skip1_anynl c c' : A c c' -> U (skip 1 c) (skip 1 c').
Proof.
  intros H. destruct (nl c) eqn:En; [apply A_U; apply A_skip1; [exact H|left; exact En]|].
  destruct (isNL (token c)) eqn:Et; [apply A_skip1_nl; assumption|apply A_U; apply A_skip1; [exact H|right; exact Et]].
Qed.

(* Context::prev is always defined here *)
Lemma A_prev_some c c' : A c c' -> exists cp cp', prev c = Some cp /\ prev c' = Some cp'.
Proof.
  intros H. destruct (u_nc _ _ _ H) as (N1 & N2 & N3 & N4). eexists. eexists.
  split; [apply prev_eq; assumption|apply prev_eq; assumption].
Qed.

Lemma prev_spec_nocom c : nocom (pre c) -> nocom (post c) -> nocom (pre (prev_spec c)) /\ nocom (post (prev_spec c)).
Proof.
  intros Hp Hq. unfold prev_spec. destruct (over c); [|split; assumption]. destruct (pre c) as [|t p] eqn:E.
  - rewrite E. split; assumption.
  - apply nocom_cons in Hp. destruct Hp as [Ht Hp]. cbn [pre post]. split; [exact Hp|apply nocom_cons; split; assumption].
Qed.

Lemma use_prev_ok_true p c : nocom (pre c) -> nocom (post c) -> use_prev_ok p c = true.
Proof.
  intros Hp Hq. unfold use_prev_ok. rewrite (prev_eq c Hp Hq).
  destruct (prev_spec_nocom c Hp Hq) as [Hp' Hq']. rewrite (prev_eq _ Hp' Hq'). destruct (ends_with_slash p); reflexivity.
Qed.
