From Coq Require Import List NArith Bool Lia Permutation Sorted.
From Sylt Require Import Det.Consumers.
Import ListNotations.
Local Open Scope N_scope.

Definition keys (l : list entry) := map fst l.

Lemma lookup_in l k v : NoDup (keys l) -> In (k, v) l -> lookup l k = Some v.
Proof.
  induction l as [|[k' v'] l IH]; intros Hnd Hin; [destruct Hin|].
  cbn in *. inversion Hnd as [|? ? Hni Hnd']; subst.
  destruct Hin as [E|Hin].
  - inversion E; subst. rewrite N.eqb_refl. reflexivity.
  - destruct (N.eqb_spec k k') as [->|Hne].
    + exfalso. apply Hni. apply in_map_iff. exists (k', v). auto.
    + apply IH; assumption.
Qed.

Lemma lookup_none l k : ~ In k (keys l) -> lookup l k = None.
Proof.
  induction l as [|[k' v'] l IH]; intros Hni; [reflexivity|].
  cbn in *. destruct (N.eqb_spec k k') as [->|Hne]; [exfalso; apply Hni; left; reflexivity|].
  apply IH. intros H; apply Hni; right; exact H.
Qed.

Lemma lookup_some_in l k v : lookup l k = Some v -> In (k, v) l.
Proof.
  induction l as [|[k' v'] l IH]; cbn; [discriminate|].
  destruct (N.eqb_spec k k') as [->|Hne]; intros H; [inversion H; subst; left; reflexivity|right; apply IH; exact H].
Qed.

Lemma lookup_perm l l' : NoDup (keys l) -> Permutation l l' -> forall k, lookup l k = lookup l' k.
Proof.
  intros Hnd Hp k.
  assert (Hnd' : NoDup (keys l')).
  { eapply Permutation_NoDup; [apply Permutation_map; exact Hp|exact Hnd]. }
  destruct (lookup l k) as [v|] eqn:E.
  - symmetry. apply lookup_in; [exact Hnd'|]. eapply Permutation_in; [exact Hp|]. apply lookup_some_in; exact E.
  - destruct (lookup l' k) as [v|] eqn:E'; [|reflexivity].
    apply lookup_some_in in E'. apply Permutation_sym in Hp.
    pose proof (Permutation_in _ Hp E') as Hin. rewrite (lookup_in _ _ _ Hnd Hin) in E. discriminate.
Qed.

(* min *)
Lemma fold_min_opt_some l : forall a, fold_left min_opt l (Some a) = Some (fold_left N.min l a).
Proof. induction l as [|x l IH]; intros a; cbn; [reflexivity|apply IH]. Qed.

Lemma fold_min_perm l l' : Permutation l l' -> forall a, fold_left N.min l a = fold_left N.min l' a.
Proof.
  induction 1 as [|x l l' _ IH|x y l|l l' l'' _ IH1 _ IH2]; intros a; cbn.
  - reflexivity.
  - apply IH.
  - f_equal. lia.
  - rewrite IH1. apply IH2.
Qed.

Lemma min_opt_perm l l' : Permutation l l' -> fold_left min_opt l None = fold_left min_opt l' None.
Proof.
  induction 1 as [|x l l' Hp IH|x y l|l l' l'' _ IH1 _ IH2]; cbn.
  - reflexivity.
  - rewrite !fold_min_opt_some. f_equal. apply fold_min_perm; exact Hp.
  - rewrite !fold_min_opt_some. f_equal. f_equal. lia.
  - rewrite IH1. exact IH2.
Qed.

Lemma min_of_perm l l' : Permutation l l' -> min_of l = min_of l'.
Proof. intros H. unfold min_of. apply min_opt_perm. apply Permutation_map. exact H. Qed.

(* sorting by distinct keys is canonical *)
Definition key_lt (a b : entry) : Prop := fst a < fst b.

Lemma insert_sorted_perm e l : Permutation (e :: l) (insert_sorted e l).
Proof.
  induction l as [|x l IH]; cbn; [reflexivity|].
  destruct (fst e <=? fst x); [reflexivity|].
  rewrite perm_swap. apply perm_skip. exact IH.
Qed.

Lemma sort_entries_perm l : Permutation l (sort_entries l).
Proof.
  induction l as [|e l IH]; cbn; [reflexivity|].
  rewrite <- insert_sorted_perm. apply perm_skip. exact IH.
Qed.

Lemma insert_sorted_sorted e l :
  ~ In (fst e) (keys l) -> StronglySorted key_lt l -> StronglySorted key_lt (insert_sorted e l).
Proof.
  intros Hni Hs. induction Hs as [|x l Hs IH Hall]; cbn.
  - constructor; constructor.
  - destruct (N.leb_spec (fst e) (fst x)) as [Hle|Hgt].
    + assert (Hlt : fst e < fst x).
      { destruct (N.eq_dec (fst e) (fst x)) as [E|Hne]; [|lia]. exfalso. apply Hni. left. symmetry; exact E. }
      constructor; [constructor; assumption|]. constructor; [exact Hlt|].
      eapply Forall_impl; [|exact Hall]. intros y Hy. unfold key_lt in *. lia.
    + constructor.
      * apply IH. intros H. apply Hni. right. exact H.
      * assert (Hp := insert_sorted_perm e l).
        apply Forall_forall. intros y Hy. apply Permutation_sym in Hp.
        pose proof (Permutation_in _ Hp Hy) as [->|Hin]; [exact Hgt|].
        rewrite Forall_forall in Hall. apply Hall; exact Hin.
Qed.

Lemma sort_entries_sorted l : NoDup (keys l) -> StronglySorted key_lt (sort_entries l).
Proof.
  induction l as [|e l IH]; intros Hnd; cbn; [constructor|].
  inversion Hnd as [|? ? Hni Hnd']; subst.
  apply insert_sorted_sorted; [|apply IH; exact Hnd'].
  intros H. apply Hni. unfold keys in *.
  eapply Permutation_in; [apply Permutation_map; apply Permutation_sym; apply sort_entries_perm|exact H].
Qed.

Lemma sorted_perm_eq l l' :
  StronglySorted key_lt l -> StronglySorted key_lt l' -> Permutation l l' -> l = l'.
Proof.
  revert l'. induction l as [|x l IH]; intros l' Hs Hs' Hp.
  - apply Permutation_nil in Hp. subst; reflexivity.
  - destruct l' as [|y l']; [apply Permutation_sym, Permutation_nil in Hp; discriminate|].
    inversion Hs as [|? ? Hsl Hall]; subst. inversion Hs' as [|? ? Hsl' Hall']; subst.
    rewrite Forall_forall in Hall, Hall'.
    assert (x = y).
    { assert (Hx : In x (y :: l')) by (eapply Permutation_in; [exact Hp|left; reflexivity]).
      assert (Hy : In y (x :: l)) by (eapply Permutation_in; [apply Permutation_sym; exact Hp|left; reflexivity]).
      destruct Hx as [E|Hx]; [symmetry; exact E|]. destruct Hy as [E|Hy]; [exact E|].
      specialize (Hall _ Hy). specialize (Hall' _ Hx). unfold key_lt in *. lia. }
    subst y. f_equal. apply IH; try assumption. eapply Permutation_cons_inv; exact Hp.
Qed.

Lemma sort_entries_canonical l l' : NoDup (keys l) -> Permutation l l' -> sort_entries l = sort_entries l'.
Proof.
  intros Hnd Hp.
  assert (Hnd' : NoDup (keys l')) by (eapply Permutation_NoDup; [apply Permutation_map; exact Hp|exact Hnd]).
  apply sorted_perm_eq; try (apply sort_entries_sorted; assumption).
  rewrite <- (sort_entries_perm l), <- (sort_entries_perm l'). exact Hp.
Qed.

(* main theorem: every order-free class gives the same observation for every visiting order *)
Theorem order_free_invariant bad c l l' :
  order_free c = true -> NoDup (keys l) -> Permutation l l' -> obs_eq (run bad c l) (run bad c l').
Proof.
  intros Hc Hnd Hp. destruct c; cbn in *; try exact I; try discriminate.
  - apply lookup_perm; assumption.
  - apply min_of_perm; exact Hp.
  - rewrite (sort_entries_canonical l l' Hnd Hp). reflexivity.
Qed.

(* and the order-sensitive class really is order-sensitive: two visiting orders, two different errors *)
Theorem first_err_order_sensitive :
  exists bad l l', NoDup (keys l) /\ Permutation l l' /\ ~ obs_eq (run bad FirstErr l) (run bad FirstErr l').
Proof.
  exists (fun _ => true), [(1, 10); (2, 20)], [(2, 20); (1, 10)].
  split; [repeat constructor; cbn; intuition discriminate|].
  split; [apply perm_swap|]. cbn. discriminate.
Qed.
