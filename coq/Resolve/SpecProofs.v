(* What "lexical" means in Resolve/ResolveSpec.v, as lemmas: an identifier refers to the innermost
   enclosing declaration of that name that is visible, then to the globals of its file, else it is an
   error. *)
From Coq Require Import String List NArith ZArith Bool.
From Sylt Require Import Syntax.Resolved Resolve.PAst Resolve.Resolver Resolve.ResolveSpec.
Import ListNotations.
Local Open Scope string_scope.

Lemma stack_find_app s1 s2 x :
  stack_find (s1 ++ s2) x = match stack_find s1 x with Some r => Some r | None => stack_find s2 x end.
Proof.
  induction s1 as [|[n r] s1 IH]; cbn; [reflexivity|]. destruct (String.eqb n x); [reflexivity|exact IH].
Qed.

(* innermost scope first; inside a scope the newest declaration first *)
Theorem env_find_innermost sc e x :
  env_find (sc :: e) x = match stack_find sc x with Some r => Some r | None => env_find e x end.
Proof. unfold env_find, env_flat. cbn. apply stack_find_app. Qed.

Theorem env_find_newest nm r sc e x :
  env_find (((nm, r) :: sc) :: e) x = if String.eqb nm x then Some r else env_find (sc :: e) x.
Proof. unfold env_find, env_flat. cbn. reflexivity. Qed.

(* a name found in the environment is that declaration, whatever the globals say *)
Theorem lookup_in_local e x sp r st :
  env_find e x = Some r -> lookup_in e x sp st = Ok (r, st).
Proof. intros H. unfold lookup_in, lift, lookup, with_env. cbn. unfold env_find in H. rewrite H. reflexivity. Qed.

(* otherwise the globals of the file the identifier is written in; otherwise an error *)
Theorem lookup_in_global e x sp st :
  env_find e x = None ->
  lookup_in e x sp st =
  match lookup_global st (sp_file sp) x with
  | Ok (Some (NName r)) => Ok (r, st)
  | Ok (Some (NNamespace _ _)) => Err [mkRErr ENamespaceFound sp]
  | Ok None => Err [mkRErr ENothingMatched sp]
  | Err e0 => Err e0
  | Panic s => Panic s
  | OutOfFuel => OutOfFuel
  end.
Proof.
  intros H. unfold lookup_in, lift, lookup, with_env. cbn. unfold env_find in H. rewrite H.
  unfold lookup_global. cbn.
  destruct (n2f_get (st_n2f st) (sp_file sp)); [|reflexivity].
  destruct (fol_get (st_ns st) f); [|reflexivity]. cbn.
  destruct (ns_get n x) as [[r|f0 s0]|]; reflexivity.
Qed.

(* leaving a scope forgets it: `scope_with` runs the statements in `[] :: e` and returns no environment *)
Theorem scope_is_local rs e ss : scope_with rs e ss = seq_with rs ([] :: e) ss.
Proof. reflexivity. Qed.
