(* The body of a function that returns a function (statements that stay, guards, the last statement); calls: the world of
   the callee, the relation at the entry of its body and back in the caller after the call; P_apply by the simulation of
   the body (P_fb) one level of fuel below; all simulations together (P_all), for every set of callable functions and
   every world. *)
From Coq Require Import String Ascii List NArith ZArith QArith Bool Lia.
From Sylt Require Import Syntax.Resolved.
From Sylt Require Sem.Values Sem.Runtime Sem.SyltSem.
From Sylt Require Import Back.IR Back.Emit Back.ScopeProofs.
From Sylt Require Import Pres.EmitAst Pres.EmitRel Pres.Names Pres.LuaFuel Pres.LuaEv Pres.Preamble.
From Sylt Require Import Pres.Frag.
From Sylt Require Import Pres.SimDefs Pres.SimOps Pres.SimVals.
From Sylt Require Import Pres.SimExpr Pres.LowerShape Pres.SimSteps Pres.SimExprProofs Pres.SimEcall.
From Sylt Require Import Pres.LuaLoop.
From Sylt Require Import Pres.SimFun.
From Sylt Require Import Pres.NoExit Pres.SimStmt Pres.RunEq Pres.SimCall.
From Sylt Require Import Lua.LuaAst Lua.LuaMap Lua.LuaNum Lua.LuaProofs Lua.LuaCore.
Import ListNotations.
Local Open Scope N_scope.

Ltac splits := repeat match goal with |- _ /\ _ => split end.

(* ------------------------------------------------------------------ the statements of a body before its last one: those
   that stay, then the guards *)
Section Pre.
Variable pv : N.
Variable sv : N.
Variable bound : N.
Variable u : counts.

Notation ctx_ok := (ctx_ok bound).

Lemma P_pre n ka kr fl W :
  (forall m, (m <= n)%nat -> forall fl' W', P_eval pv sv bound u fl' W' m) ->
  (forall m, (m <= n)%nat -> forall fl' W', P_farg pv sv bound u fl' W' m) ->
  (forall fl' W', P_blk pv sv bound u fl' W' n) ->
  forall g k init guards ctx c cs c0 cend e st r1 st1 sc sc1 fl1 l E stL F,
    SyltSem.exec_block n e (init ++ guards) st = (r1, st1) ->
    mapM (fun s => statement g s ctx) (init ++ guards) c = Ok (cs, c0) ->
    forallb (simple_init_stmt k) init = true ->
    frag_stmts pv sv bound fl k sc init = Some (sc1, fl1) ->
    forallb (guard_ok pv sv bound fl1 k sc1 (KF ka kr)) guards = true ->
    ucovers u (concat cs) -> c0 <= cend -> ctx_ok l F E c cend ->
    rel pv sv bound u fl W sc e st E stL -> interesting r1 ->
    exists b1 l1, cshape u l (concat cs) b1 l1 c c0 /\
      match r1 with
      | SyltSem.RVal e1 =>
          exists W1 E1 stL1 F1,
            ExecS E b1 stL (ROk (E1, SigNormal) stL1) /\ wframe bound c c0 E stL E1 stL1 /\
            rel pv sv bound u fl1 W1 sc1 e1 st1 E1 stL1 /\ wsub W W1 /\ F_new F F1 c c0 /\ keep fl sc E E1 /\
            sext pv fl sc e e1 /\ incl sc sc1
      | SyltSem.RStop o => exists ev stL', ExecS E b1 stL (RErr ev stL') /\ SyltSem.trace st1 = s_out stL'
      | SyltSem.RAbrupt (SyltSem.CReturn v) =>
          exists fl' W' sc' e' E' Er stL' lv,
            ExecS E b1 stL (ROk (Er, SigReturn [lv]) stL') /\ arel W' (KF ka kr) v lv /\
            rel pv sv bound u fl' W' sc' e' st1 E' stL' /\ wsub W W' /\ sext pv fl sc e e' /\ incl sc sc' /\ keep fl sc E E' /\
            (s_ncell stL <= s_ncell stL')%positive
      | SyltSem.RAbrupt _ => False
      end.
Proof.
  intros IHe IHF IHb g k init guards ctx c cs c0 cend e st r1 st1 sc sc1 fl1 l E stL F Hev Hm Hsimple Hfi Hgs Hu Hce Hctx Hrel Hint.
  apply mapM_app_split in Hm as (cs1 & cm & cs2 & Hm1 & Hm2 & ->). rewrite concat_app in *. apply ucovers_app in Hu as [Hu1 Hu2].
  destruct (L_stmts_all pv sv bound u fl g k init ctx c cs1 cm sc (sc1, fl1) l Hm1 Hfi) as (_ & _ & (_ & Hccm & _)).
  pose proof (frag_stmts_flincl pv sv bound _ _ _ _ _ _ Hfi) as Hfn.
  assert (HLg : forall l0, exists b2 l2, cshape u l0 (concat cs2) b2 l2 cm c0).
  { intros l0. clear - Hm2 Hgs. revert cs2 cm Hm2 l0. induction guards as [|G2 gs2 IH2]; intros cs2 cm Hm2 l0.
    - destruct (mapM_nil_ok _ _ _ _ Hm2) as [-> ->]. eexists _, _. apply cshape_nil.
    - cbn [forallb] in Hgs. apply andb_prop in Hgs as [HG2 Hgs2].
      apply mapM_cons_ok in Hm2 as (y2 & c2 & ys2 & Hy2 & Hys2 & ->). cbn [concat].
      unfold guard_ok in HG2. destruct (guard_parts G2) as [[cnd2 fx2]|] eqn:HGp2; [|discriminate HG2].
      apply andb_prop in HG2 as [HG2 Hk42]. apply andb_prop in HG2 as [HG2 _]. apply andb_prop in HG2 as [_ Hfc2].
      destruct (frag_fexpr pv sv bound fl1 k sc1 fx2) as [K2|] eqn:Hff2; [|discriminate Hk42].
      destruct (L_guard pv sv bound u g (fun g' _ fl0 => L_expr_all pv sv bound u fl0 g') (fun g' _ fl0 => L_fexpr_all pv sv bound u fl0 g')
                        fl1 k G2 cnd2 fx2 _ ctx cm y2 c2 sc1 l0 HGp2 Hy2 Hfc2 Hff2) as (bg & lg & Hsg).
      destruct (IH2 Hgs2 ys2 c2 Hys2 lg) as (b3 & l3 & Hs3). eexists _, _. eapply cshape_app; eassumption. }
  destruct (HLg l) as (_ & _ & (_ & Hcmc0 & _)).
  assert (Hctxi : ctx_ok l F E c cm) by (eapply ctx_sub; [exact Hctx | lia | lia]).
  rewrite exec_block_app in Hev.
  destruct (SyltSem.exec_block n e init st) as [[e1|o|cc] stm] eqn:He1.
  - (* the statements that stay ran; the guards *)
    destruct (IHb fl W g k init ctx c cs1 cm e st _ stm sc sc1 fl1 l E stL F He1 Hm1 Hfi Hu1 Hctxi Hrel I)
      as (b1 & l1 & Hs1 & W1 & E1 & stL1 & F1 & Hx1 & Hf1 & Hrel1 & Hw1 & HFn1 & Hk1 & Hse1 & Hinc1).
    assert (Hctx1 : ctx_ok l1 F1 E1 cm c0).
    { eapply ctx_sub; [eapply (ctx_after_blk bound u l F E stL c cm cend); [exact Hctx | exact Hs1 | exact Hf1 | exact HFn1] | lia | lia]. }
    destruct (P_guards pv sv bound u fl1 W1 ka kr guards (n - length init)
                (fun m' H => IHe m' ltac:(lia) fl1 W1) (fun m' H => IHF m' ltac:(lia) fl1 W1)
                g k ctx cm cs2 c0 e1 stm r1 st1 sc1 l1 E1 stL1 F1 Hev Hm2 Hgs Hu2 Hctx1 Hrel1 Hint) as (b2 & l2 & Hs2 & Hp2).
    eexists _, _. split; [eapply cshape_app; eassumption|].
    assert (Hkx : forall E2, keep fl1 sc1 E1 E2 -> keep fl sc E E2).
    { intros E2 H2 w Hw. rewrite H2; [apply Hk1; exact Hw|]. destruct Hw as [Hw|Hw]; [left; apply Hinc1; exact Hw | right].
      unfold fnames in *. apply in_map_iff in Hw as (x & <- & Hx). apply in_map. apply Hfn. exact Hx. }
    pose proof (wr_ncell _ _ _ _ _ _ _ Hf1) as Hn1.
    destruct r1 as [e2|o|cc].
    + destruct Hp2 as (-> & E2 & stL2 & F2 & Hx2 & Hf2 & Hrel2 & HFn2 & Hk2).
      exists W1, E2, stL2, F2.
      splits; [eapply ExecS_app; eassumption
              | eapply wframe_trans; [eapply wframe_widen; [exact Hf1 | lia | lia] | eapply wframe_widen; [exact Hf2 | lia | lia]]
              | exact Hrel2 | exact Hw1 | eapply F_new_trans; eassumption | apply Hkx; exact Hk2 | exact Hse1 | exact Hinc1].
    + destruct Hp2 as (ev & stL' & Hx2 & Htr). exists ev, stL'. split; [eapply ExecS_app; eassumption | exact Htr].
    + destruct cc as [| |v]; try contradiction.
      destruct Hp2 as (W2 & E' & Er & stL' & lv & Hw2 & Hx2 & Hv & Hr2 & Hk2 & Hn2).
      exists fl1, W2, sc1, e1, E', Er, stL', lv.
      splits; [eapply ExecS_app; eassumption | exact Hv | exact Hr2 | eapply wsub_trans; eassumption | exact Hse1 | exact Hinc1 | apply Hkx; exact Hk2 | lia].
  - inversion Hev; subst r1 st1.
    destruct (IHb fl W g k init ctx c cs1 cm e st _ stm sc sc1 fl1 l E stL F He1 Hm1 Hfi Hu1 Hctxi Hrel Hint)
      as (b1 & l1 & Hs1 & Hp1). destruct (HLg l1) as (b2 & l2 & Hs2).
    eexists _, _. split; [eapply cshape_app; eassumption|].
    cbn [blk_post] in Hp1. destruct Hp1 as (rl & Hx1 & (ev & stL1 & -> & Htr)).
    exists ev, stL1. split; [apply ExecS_app_stop; [exact Hx1 | intros []] | exact Htr].
  - exfalso. exact (simple_init_noab init n k e st _ _ Hsimple He1).
Qed.
End Pre.

Section Body2.
Variable pv : N.
Variable sv : N.
Variable bound : N.
Variable u : counts.
Variable fl : list (N * kind).
Variable W : world.

Notation rel := (rel pv sv bound u fl W).
Notation ctx_ok := (ctx_ok bound).

(* the body of a function that returns a function: statements that cannot leave it, then the function-valued expression *)
Lemma P_fb_fun_expr n ka kr :
  (forall m, (m <= n)%nat -> forall fl' W', P_eval pv sv bound u fl' W' m) ->
  (forall m, (m <= n)%nat -> forall fl' W', P_farg pv sv bound u fl' W' m) -> (forall fl' W', P_blk pv sv bound u fl' W' n) ->
  forall g k init guards value sp ctx c code c' e st r st' sc sc1 fl1 l E stL F,
    SyltSem.block_value (S n) e ((init ++ guards) ++ [SStatementExpression value sp]) st = (r, st') ->
    lower_fbody (statement g) (expression g) ((init ++ guards) ++ [SStatementExpression value sp]) ctx c = Ok (code, c') ->
    forallb (simple_init_stmt k) init = true -> noexit_fexpr k value = true ->
    frag_stmts pv sv bound fl k sc init = Some (sc1, fl1) -> frag_fexpr pv sv bound fl1 k sc1 value = Some (KF ka kr) ->
    forallb (guard_ok pv sv bound fl1 k sc1 (KF ka kr)) guards = true ->
    ucovers u code -> ctx_ok l F E c c' ->
    rel sc e st E stL -> interesting r ->
    exists b l', cshape u l code b l' c c' /\ fb_post pv sv bound u fl W (KF ka kr) sc e E stL b r st'.
Proof.
  intros IHe IHFa IHb g k init guards value sp ctx c code c' e st r st' sc sc1 fl1 l E stL F Hev Hlow Hsimple Hne Hfi Hfe Hgs Hu Hctx Hrel Hint.
  pose proof (IHFa n (Nat.le_refl n)) as IHF.
  pose proof Hctx as [Hbc Hlut HFo HEf].
  cbn [SyltSem.block_value] in Hev. unfold lower_fbody in Hlow. rewrite rev_app_distr in Hev, Hlow. cbn [rev app] in Hev, Hlow.
  rewrite rev_involutive in Hev, Hlow.
  mon Hlow. apply lower_list_ok in Hm as (cs & Hmi & ->). mon Hm0. destruct a as [code_v rv]. cbn [fst snd] in *.
  apply ucovers_app in Hu as [Hui Hul]. apply ucovers_app in Hul as [Huv Hur].
  assert (Hcrv : 1 <= count_of u rv) by (eapply Hur; [left; reflexivity | left; reflexivity]).
  assert (Hrest : forall l0, exists b2 l2, cshape u l0 code_v b2 l2 c0 c' /\ c0 <= rv /\ rv < c')
    by (intros lx; apply (L_fexpr_all pv sv bound u fl1 g k value _ ctx c0 code_v rv c' sc1 lx Hm Hfe)).
  destruct (Hrest l) as (_ & _ & (_ & Hc0' & _) & _).
  assert (Hret : forall l0, cshape u l0 [IReturn rv] (fst (agen_one u l0 (IReturn rv))) l0 c' c')
    by (intros lx; apply cshape_plain; [lia | reflexivity | reflexivity | reflexivity]).
  pose proof (frag_stmts_flincl pv sv bound _ _ _ _ _ _ Hfi) as Hfn.
  unfold SyltSem.bind at 1 in Hev.
  destruct (SyltSem.exec_block n e (init ++ guards) st) as [r1 st1] eqn:He1.
  assert (Hi1 : interesting r1).
  { destruct r1 as [e1|o|cc]; [exact I | inversion Hev; subst; exact Hint | inversion Hev; subst; destruct cc; exact Hint]. }
  destruct (P_pre pv sv bound u n ka kr fl W IHe IHFa IHb g k init guards ctx c cs c0 c' e st r1 st1 sc sc1 fl1 l E stL F
              He1 Hmi Hsimple Hfi Hgs Hui Hc0' Hctx Hrel Hi1) as (b1 & l1 & Hs1 & Hp1).
  destruct r1 as [e1|o|cc].
  3: { inversion Hev; subst r st'. destruct cc as [| |v]; try contradiction.
       destruct (Hrest l1) as (b2 & l2 & Hs2 & _).
       eexists _, _. split; [eapply cshape_app; [exact Hs1|]; eapply cshape_app; [exact Hs2 | apply Hret]|].
       cbn [fb_post]. destruct Hp1 as (fl' & W' & sc' & e' & E' & Er & stL' & lv & Hx & Hrestp).
       exists fl', W', sc', e', E', Er, stL', lv. split; [apply ExecS_app_stop; [exact Hx | intros []] | exact Hrestp]. }
  2: { inversion Hev; subst r st'. destruct (Hrest l1) as (b2 & l2 & Hs2 & _).
       eexists _, _. split; [eapply cshape_app; [exact Hs1|]; eapply cshape_app; [exact Hs2 | apply Hret]|].
       cbn [fb_post]. destruct Hp1 as (ev & stL1 & Hx1 & Htr).
       exists ev, stL1. split; [apply ExecS_app_stop; [exact Hx1 | intros []] | exact Htr]. }
  destruct Hp1 as (W1 & E1 & stL1 & F1 & Hx1 & Hf1 & Hrel1 & Hw1 & HFn1 & Hk1 & Hse1 & Hinc1).
  assert (Hctx1 : ctx_ok l1 F1 E1 c0 c') by (eapply (ctx_after_blk bound u); eassumption).
  pose proof (wr_ncell _ _ _ _ _ _ _ Hf1) as Hn1.
  destruct (SyltSem.eval n e1 value st1) as [[v_|o|cc] st2] eqn:He2.
  3: { exfalso. exact (noexit_fexpr_noab n k e1 value st1 _ _ Hne He2). }
  2: { inversion Hev; subst.
       destruct (IHF fl1 W1 g k value _ ctx c0 code_v rv c' e1 st1 _ st' sc1 l1 E1 stL1 F1 He2 Hm Hfe Huv Hcrv Hctx1 Hrel1 Hint)
         as (b2 & l2 & Hs2 & _ & _ & Hp2). destruct Hp2 as (rl & Hx2 & (ev & stL2 & -> & Htr)).
       eexists _, _. split; [eapply cshape_app; [exact Hs1|]; eapply cshape_app; [exact Hs2 | apply Hret]|].
       exists ev, stL2. split; [|exact Htr].
       eapply ExecS_app; [exact Hx1|]. apply ExecS_app_stop; [exact Hx2 | intros []]. }
  inversion Hev; subst r st'. clear Hev.
  destruct (IHF fl1 W1 g k value _ ctx c0 code_v rv c' e1 st1 _ st2 sc1 l1 E1 stL1 F1 He2 Hm Hfe Huv Hcrv Hctx1 Hrel1 I)
    as (b2 & l2 & Hs2 & _ & _ & W2 & E2 & stL2 & F2 & Hw2 & Hok2 & Hrel2 & Hd2).
  pose proof Hok2 as (Hx2 & Hf2 & _ & _ & Hk2).
  eexists _, _. split; [eapply cshape_app; [exact Hs1|]; eapply cshape_app; [exact Hs2 | apply Hret]|].
  cbn [adenotes] in Hd2. destruct Hd2 as (d & HdW & Hdk & -> & Hld).
  destruct (Hld E2 stL2 (fut_refl _ _ _) (r_wf _ _ _ _ _ _ _ _ _ _ _ Hrel2) (r_linv _ _ _ _ _ _ _ _ _ _ _ Hrel2)) as (st3 & _ & Hm3 & Hx3).
  exists fl1, W2, E2, (SigReturn [VFun (fd_fid d)]), st3, sc1, e1. splits.
  + eapply ExecS_app; [exact Hx1|]. eapply ExecS_app; [exact Hx2|].
    cbn [agen_one fst]. apply XS_stop; [|intros []].
    eapply Exec_do. apply ExecBlock_of_ExecS; [|repeat constructor | intros []].
    apply XS_stop; [|intros []]. apply Exec_return. apply EvalList_one. exact Hm3.
  + right. exists (VFun (fd_fid d)). split; [reflexivity|]. cbn [arel]. exists d. auto.
  + eapply rel_cells_ext; eassumption.
  + eapply wsub_trans; eassumption.
  + exact Hse1.
  + exact Hinc1.
  + intros w Hw. rewrite Hk2; [apply Hk1; exact Hw|].
    destruct Hw as [Hw|Hw]; [left; apply Hinc1; exact Hw | right].
    unfold fnames in *. apply in_map_iff in Hw as (x & <- & Hx). apply in_map. apply Hfn. exact Hx.
  + pose proof (wr_ncell _ _ _ _ _ _ _ Hf2).
    destruct Hx3 as (_ & _ & _ & _ & _ & _ & Hn3 & _). lia.
Qed.

(* ... then `ret` of the function-valued expression *)
Lemma P_fb_fun_ret n ka kr :
  (forall m, (m <= n)%nat -> forall fl' W', P_eval pv sv bound u fl' W' m) ->
  (forall m, (m <= n)%nat -> forall fl' W', P_farg pv sv bound u fl' W' m) -> (forall fl' W', P_blk pv sv bound u fl' W' n) ->
  forall g k init guards value sp ctx c code c' e st r st' sc sc1 fl1 l E stL F,
    SyltSem.block_value (S n) e ((init ++ guards) ++ [SRet (Some value) sp]) st = (r, st') ->
    lower_fbody (statement g) (expression g) ((init ++ guards) ++ [SRet (Some value) sp]) ctx c = Ok (code, c') ->
    forallb (simple_init_stmt k) init = true -> noexit_fexpr k value = true ->
    frag_stmts pv sv bound fl k sc init = Some (sc1, fl1) -> frag_fexpr pv sv bound fl1 k sc1 value = Some (KF ka kr) ->
    forallb (guard_ok pv sv bound fl1 k sc1 (KF ka kr)) guards = true ->
    ucovers u code -> ctx_ok l F E c c' ->
    rel sc e st E stL -> interesting r ->
    exists b l', cshape u l code b l' c c' /\ fb_post pv sv bound u fl W (KF ka kr) sc e E stL b r st'.
Proof.
  intros IHe IHF IHb g k init guards value sp ctx c code c' e st r st' sc sc1 fl1 l E stL F Hev Hlow Hsimple Hne Hfi Hfe Hgs Hu Hctx Hrel Hint.
  pose proof Hctx as [Hbc Hlut HFo HEf].
  cbn [SyltSem.block_value] in Hev. unfold lower_fbody in Hlow. rewrite rev_app_distr in Hev, Hlow. cbn [rev app] in Hev, Hlow.
  rewrite rev_involutive in Hlow.
  mon Hlow. apply lower_list_ok in Hm as (cs & Hmi & ->).
  destruct g as [|g']; [discriminate Hm0|]. cbn [statement] in Hm0. mon Hm0. destruct a as [code_v rv]. cbn [fst snd] in *.
  apply ucovers_app in Hu as [Hui Hul]. apply ucovers_app in Hul as [Huv Hur].
  assert (Hcrv : 1 <= count_of u rv) by (eapply Hur; [left; reflexivity | left; reflexivity]).
  assert (Hrest : forall l0, exists b2 l2, cshape u l0 code_v b2 l2 c0 c' /\ c0 <= rv /\ rv < c')
    by (intros lx; apply (L_fexpr_all pv sv bound u fl1 g' k value _ ctx c0 code_v rv c' sc1 lx Hm Hfe)).
  destruct (Hrest l) as (_ & _ & (_ & Hc0' & _) & _).
  assert (Hret : forall l0, cshape u l0 [IReturn rv] (fst (agen_one u l0 (IReturn rv))) l0 c' c')
    by (intros lx; apply cshape_plain; [lia | reflexivity | reflexivity | reflexivity]).
  pose proof (frag_stmts_flincl pv sv bound _ _ _ _ _ _ Hfi) as Hfn.
  (* the reference interpreter: the statements before, then the ret with the fuel that is left *)
  replace (rev (rev (init ++ guards)) ++ [SRet (Some value) sp])%list with ((init ++ guards) ++ [SRet (Some value) sp])%list in Hev by (rewrite rev_involutive; reflexivity).
  unfold SyltSem.bind at 1 in Hev. rewrite exec_block_app in Hev.
  destruct (SyltSem.exec_block n e (init ++ guards) st) as [r1 st1] eqn:He1.
  assert (Hi1 : interesting r1).
  { destruct r1 as [e1|o|cc]; [exact I | inversion Hev; subst; exact Hint | inversion Hev; subst; destruct cc; exact Hint]. }
  destruct (P_pre pv sv bound u n ka kr fl W IHe IHF IHb (S g') k init guards ctx c cs c0 c' e st r1 st1 sc sc1 fl1 l E stL F
              He1 Hmi Hsimple Hfi Hgs Hui Hc0' Hctx Hrel Hi1) as (b1 & l1 & Hs1 & Hp1).
  destruct r1 as [e1|o|cc].
  3: { inversion Hev; subst r st'. destruct cc as [| |v]; try contradiction.
       destruct (Hrest l1) as (b2 & l2 & Hs2 & _).
       eexists _, _. split; [eapply cshape_app; [exact Hs1|]; eapply cshape_app; [exact Hs2 | apply Hret]|].
       cbn [fb_post]. destruct Hp1 as (fl' & W' & sc' & e' & E' & Er & stL' & lv & Hx & Hrestp).
       exists fl', W', sc', e', E', Er, stL', lv. split; [apply ExecS_app_stop; [exact Hx | intros []] | exact Hrestp]. }
  2: { inversion Hev; subst r st'. destruct (Hrest l1) as (b2 & l2 & Hs2 & _).
       eexists _, _. split; [eapply cshape_app; [exact Hs1|]; eapply cshape_app; [exact Hs2 | apply Hret]|].
       cbn [fb_post]. destruct Hp1 as (ev & stL1 & Hx1 & Htr).
       exists ev, stL1. split; [apply ExecS_app_stop; [exact Hx1 | intros []] | exact Htr]. }
  destruct Hp1 as (W1 & E1 & stL1 & F1 & Hx1 & Hf1 & Hrel1 & Hw1 & HFn1 & Hk1 & Hse1 & Hinc1).
  assert (Hctx1 : ctx_ok l1 F1 E1 c0 c') by (eapply (ctx_after_blk bound u); eassumption).
  pose proof (wr_ncell _ _ _ _ _ _ _ Hf1) as Hn1.
  destruct (n - length (init ++ guards))%nat as [|[|m2]] eqn:Hm2.
  1,2: cbn in Hev; inversion Hev; subst; destruct Hint.
  cbn [SyltSem.exec_block SyltSem.exec] in Hev. unfold SyltSem.bind at 1 2 in Hev.
  destruct (SyltSem.eval m2 e1 value st1) as [[v_|o|cc] st2] eqn:He2.
  3: { exfalso. pose proof (noexit_fexpr_noab m2 k e1 value st1 _ _ Hne He2) as H. exact H. }
  2: { cbn in Hev. inversion Hev; subst.
       destruct (IHF m2 ltac:(lia) fl1 W1 g' k value _ ctx c0 code_v rv c' e1 st1 _ st' sc1 l1 E1 stL1 F1 He2 Hm Hfe Huv Hcrv Hctx1 Hrel1 Hint)
         as (b2 & l2 & Hs2 & _ & _ & Hp2). destruct Hp2 as (rl & Hx2 & (ev & stL2 & -> & Htr)).
       eexists _, _. split; [eapply cshape_app; [exact Hs1|]; eapply cshape_app; [exact Hs2 | apply Hret]|].
       exists ev, stL2. split; [|exact Htr].
       eapply ExecS_app; [exact Hx1|]. apply ExecS_app_stop; [exact Hx2 | intros []]. }
  cbn in Hev. inversion Hev; subst r st'. clear Hev.
  destruct (IHF m2 ltac:(lia) fl1 W1 g' k value _ ctx c0 code_v rv c' e1 st1 _ st2 sc1 l1 E1 stL1 F1 He2 Hm Hfe Huv Hcrv Hctx1 Hrel1 I)
    as (b2 & l2 & Hs2 & _ & _ & W2 & E2 & stL2 & F2 & Hw2 & Hok2 & Hrel2 & Hd2).
  pose proof Hok2 as (Hx2 & Hf2 & _ & _ & Hk2).
  eexists _, _. split; [eapply cshape_app; [exact Hs1|]; eapply cshape_app; [exact Hs2 | apply Hret]|].
  cbn [adenotes] in Hd2. destruct Hd2 as (d & HdW & Hdk & -> & Hld).
  destruct (Hld E2 stL2 (fut_refl _ _ _) (r_wf _ _ _ _ _ _ _ _ _ _ _ Hrel2) (r_linv _ _ _ _ _ _ _ _ _ _ _ Hrel2)) as (st3 & _ & Hm3 & Hx3).
  cbn [fb_post]. exists fl1, W2, sc1, e1, E2, E2, st3, (VFun (fd_fid d)). splits.
  + eapply ExecS_app; [exact Hx1|]. eapply ExecS_app; [exact Hx2|].
    cbn [agen_one fst]. apply XS_stop; [|intros []].
    eapply Exec_do. apply ExecBlock_of_ExecS; [|repeat constructor | intros []].
    apply XS_stop; [|intros []]. apply Exec_return. apply EvalList_one. exact Hm3.
  + cbn [arel]. exists d. auto.
  + eapply rel_cells_ext; eassumption.
  + eapply wsub_trans; eassumption.
  + exact Hse1.
  + exact Hinc1.
  + intros w Hw. rewrite Hk2; [apply Hk1; exact Hw|].
    destruct Hw as [Hw|Hw]; [left; apply Hinc1; exact Hw | right].
    unfold fnames in *. apply in_map_iff in Hw as (x & <- & Hx). apply in_map. apply Hfn. exact Hx.
  + pose proof (wr_ncell _ _ _ _ _ _ _ Hf2).
    destruct Hx3 as (_ & _ & _ & _ & _ & _ & Hn3 & _). lia.
Qed.

Lemma P_fb_succ_fun n ka kr :
  (forall m, (m <= n)%nat -> forall fl' W', P_eval pv sv bound u fl' W' m) ->
  (forall m, (m <= n)%nat -> forall fl' W', P_farg pv sv bound u fl' W' m) -> (forall fl' W', P_blk pv sv bound u fl' W' n) ->
  forall g k body ctx c code c' e st r st' sc l E stL F,
    SyltSem.block_value (S n) e body st = (r, st') ->
    lower_fbody (statement g) (expression g) body ctx c = Ok (code, c') ->
    fbody_check (frag_stmts pv sv bound fl k sc) (fun fl1 sc1 x => frag_fexpr pv sv bound fl1 k sc1 x) (fun fl1 sc1 x => frag_expr pv sv bound fl1 k sc1 x) k body (KF ka kr) = true ->
    ucovers u code -> ctx_ok l F E c c' ->
    rel sc e st E stL -> interesting r ->
    exists b l', cshape u l code b l' c c' /\ fb_post pv sv bound u fl W (KF ka kr) sc e E stL b r st'.
Proof.
  intros IHe IHF IHb g k body ctx c code c' e st r st' sc l E stL F Hev Hlow Hcheck Hu Hctx Hrel Hint.
  cbn [fbody_check] in Hcheck.
  destruct (split_last body) as [[pre last]|] eqn:Hsl; [|discriminate Hcheck].
  destruct (tail_fexpr last) as [fx|] eqn:Htl; [|discriminate Hcheck].
  destruct (take_init pre) as [init guards] eqn:Hti.
  apply andb_prop in Hcheck as [Hc1 Hc3]. apply andb_prop in Hc1 as [Hsimple Hne].
  destruct (frag_stmts pv sv bound fl k sc init) as [[sc1 fl1]|] eqn:Hfi; [|discriminate Hc3].
  apply andb_prop in Hc3 as [Hc3 Hgs].
  destruct (frag_fexpr pv sv bound fl1 k sc1 fx) as [K|] eqn:Hfe; [|discriminate Hc3]. apply kind_eqb_eq in Hc3. subst K.
  apply split_last_inv in Hsl. subst body. apply take_init_app in Hti. subst pre.
  assert (Hgs' : forallb (guard_ok pv sv bound fl1 k sc1 (KF ka kr)) guards = true) by exact Hgs.
  destruct last; try discriminate Htl.
  - destruct value as [value|]; [|discriminate Htl]. cbn [tail_fexpr] in Htl. inversion Htl; subst fx.
    eapply (P_fb_fun_ret n ka kr IHe IHF IHb); eassumption.
  - cbn [tail_fexpr] in Htl. inversion Htl; subst fx.
    eapply (P_fb_fun_expr n ka kr IHe IHF IHb); eassumption.
Qed.

Lemma P_fb_succ n :
  (forall m, (m <= n)%nat -> forall fl' W', P_eval pv sv bound u fl' W' m) -> (forall m, (m <= n)%nat -> forall fl' W', P_farg pv sv bound u fl' W' m) ->
  (forall fl' W', P_blk pv sv bound u fl' W' n) ->
  P_fb pv sv bound u fl W (S n).
Proof.
  intros IHe IHF IHb g k body rk. destruct rk as [|ka kr].
  - apply P_fb_succ_plain; [apply (IHe n (Nat.le_refl n)) | assumption].
  - apply P_fb_succ_fun; assumption.
Qed.

End Body2.

Section Call.
Variable pv : N.
Variable sv : N.
Variable bound : N.
Variable u : counts.

(* ------------------------------------------------------------------ the world of the callee *)

(* during a call from the environment E in the state stL: the temporaries of the caller keep their content *)
Definition callee_world (W1 : world) (E : env) (stL : state) : world :=
  mkWorld (w_R W1) (w_F W1) (w_D W1)
          (fun p lv => w_P W1 p lv \/ (exists t, bound <= t /\ sget (fmt_var t) E = Some p /\ get_cell stL p = lv))
          (w_pc W1).

(* the relation at the closure environment of a closure that exists, in the world of its call *)
Lemma callee_rel fl W1 d sc e st E stL :
  rel0 pv sv bound u fl W1 sc e st E stL -> w_D W1 d ->
  rel pv sv bound u (fd_fl d) (callee_world W1 E stL) (fd_sc d) (fd_ef d) st (fd_Ef d) stL.
Proof.
  intros Hrel Hd.
  pose proof Hrel as [Hb Hfb Hp Hpb HpE HpG Hwf Ht Hli HW].
  pose proof HW as [H1 H2 H3 H4 H5 H6 H7 Hff H8 H9 H10 Hall Hlock H11 H13 H14 Hfi].
  destruct (H10 d Hd) as (Hst & Hclo & HcloL & Halloc & Hfid & Hci & Hpc & Hsc & Hfl & Htm).
  apply rel_of0.
  { intros f ar Hin HK. destruct (Hfl f ar Hin HK) as (c & p & A & B & C). exists c, p.
    cbn [callee_world w_F w_D]. auto. }
  constructor.
  - apply (fs_scb _ _ _ _ _ Hst).
  - apply (fs_flb _ _ _ _ _ Hst).
  - exact Hpc.
  - exact Hpb.
  - apply (fs_EpvE _ _ _ _ _ Hst).
  - exact HpG.
  - constructor; [apply (fs_EV _ _ _ _ _ Hst) | apply (fs_Einj _ _ _ _ _ Hst) | exact Halloc].
  - exact Ht.
  - exact Hli.
  - constructor; cbn [callee_world w_R w_F w_D w_P w_pc].
    + exact H1.
    + exact H2.
    + exact H3.
    + exact H4.
    + intros c p b lv Hr [Hq|(t & Hbt & Hq & _)]; [exact (H5 c p b lv Hr Hq)|]. destruct (H14 t p Hbt Hq) as [Hn _]. exact (Hn c b Hr).
    + exact H6.
    + intros c p d0 lv Hf [Hq|(t & Hbt & Hq & _)]; [exact (H7 c p d0 lv Hf Hq)|]. destruct (H14 t p Hbt Hq) as [_ Hn]. exact (Hn c d0 Hf).
    + exact Hff.
    + intros p lv [Hq|(t & Hbt & Hq & Hc)]; [exact (H8 p lv Hq) | split; [exact Hc | eapply wf_alloc; eassumption]].
    + exact H9.
    + exact H10.
    + exact Hall.
    + exact Hlock.
    + exact Hsc.
    + apply (fs_scfl _ _ _ _ _ Hst).
    + exact Htm.
    + exact Hfi.
Qed.

(* back in the caller after the call *)
Lemma caller_back fl W W1 sc e st E stL fl2 Wc2 sc2 e2 E2 st' stL' :
  fscope fl W e E -> wsub W W1 -> rel0 pv sv bound u fl W1 sc e st E stL ->
  rel pv sv bound u fl2 Wc2 sc2 e2 st' E2 stL' -> wsub (callee_world W1 E stL) Wc2 ->
  (s_ncell stL <= s_ncell stL')%positive ->
  exists W3, wsub W W3 /\ (forall d, w_D Wc2 d -> w_D W3 d) /\ rel0 pv sv bound u fl W3 sc e st' E stL' /\
             call_frame bound E stL stL'.
Proof.
  intros Hfs Hs1 Hrel (_ & W2 & Hs2 & Hrel2) Hsc Hnc.
  assert (HD2 : forall d, w_D Wc2 d -> w_D W2 d) by (destruct Hs2 as (_ & _ & HD & _); exact HD).
  pose proof (wsub_trans _ _ _ Hsc Hs2) as (HsR & HsF & HsD & HsP & Hspc).
  pose proof Hrel as [Hb Hfb Hp Hpb HpE HpG Hwf Ht Hli HW].
  pose proof Hrel2 as [Hb' Hfb' Hp' Hpb' HpE' HpG' Hwf' Ht' Hli' HW'].
  pose proof HW' as [H1 H2 H3 H4 H5 H6 H7 Hff H8 H9 H10 Hall Hlock H11 H13 H14 Hfi].
  cbn [callee_world w_R w_F w_D w_P w_pc] in HsR, HsF, HsD, HsP, Hspc.
  assert (Htemp : forall t p, bound <= t -> sget (fmt_var t) E = Some p -> w_P W2 p (get_cell stL p)).
  { intros t p Hbt Hq. apply HsP. right. exists t. auto. }
  set (W3 := mkWorld (w_R W2) (w_F W2) (w_D W2) (w_P W1) (w_pc W2)).
  exists W3. split.
  { destruct Hs1 as (A & B & C & D & F). unfold wsub, W3. cbn.
    split; [intros c p b Hr; apply HsR, A, Hr|]. split; [intros c p d Hf; apply HsF, B, Hf|].
    split; [intros d Hd; apply HsD, C, Hd|]. split; [exact D | congruence]. }
  split; [exact HD2|]. split.
  - constructor.
    + exact Hb.
    + exact Hfb.
    + unfold W3. cbn [w_pc]. rewrite Hspc. exact Hp.
    + exact Hpb.
    + exact HpE.
    + exact HpG'.
    + destruct Hwf as [HV Hinj Hal]. constructor; [exact HV | exact Hinj |]. intros x p Hx. specialize (Hal x p Hx). lia.
    + exact Ht'.
    + exact Hli'.
    + constructor; unfold W3; cbn [w_R w_F w_D w_P w_pc].
      * exact H1.
      * exact H2.
      * exact H3.
      * exact H4.
      * intros c p b lv Hr Hq. apply (H5 c p b lv Hr). apply HsP. left. exact Hq.
      * exact H6.
      * intros c p d lv Hf Hq. apply (H7 c p d lv Hf). apply HsP. left. exact Hq.
      * exact Hff.
      * intros p lv Hq. apply H8. apply HsP. left. exact Hq.
      * exact H9.
      * exact H10.
      * exact Hall.
      * exact Hlock.
      * intros v Hv. destruct (wi_sc _ _ _ _ _ _ _ _ _ _ _ HW v Hv) as (c & p & A & B & C). exists c, p. auto.
      * apply (wi_scfl _ _ _ _ _ _ _ _ _ _ _ HW).
      * intros t p Hbt Hq. pose proof (Htemp t p Hbt Hq) as Hpr. split.
        -- intros c b Hr. exact (H5 c p b _ Hr Hpr).
        -- intros c d Hf. exact (H7 c p d _ Hf Hpr).
      * exact Hfi.
  - split; [exact Hnc|]. intros t p Hbt Hq. apply (H8 p _ (Htemp t p Hbt Hq)).
Qed.

(* the relation in the caller, in a world that knows the result of the call if it is a closure *)
Lemma rel_with_result fl W W3 Wc sc e st E stL K v lv :
  fscope fl W e E -> wsub W W3 -> rel0 pv sv bound u fl W3 sc e st E stL -> (forall d, w_D Wc d -> w_D W3 d) ->
  arel Wc K v lv ->
  exists W1, wsub W W1 /\ arel W1 K v lv /\ rel pv sv bound u fl W1 sc e st E stL.
Proof.
  intros Hfs Hs Hrel HD Hv. destruct K as [|ka kr].
  - exists W. split; [apply wsub_refl|]. split; [exact Hv|]. split; [exact Hfs|]. exists W3. split; assumption.
  - cbn [arel] in Hv. destruct Hv as (d & Hd & Hdk & -> & ->).
    exists (world_addD W d). split; [apply wsub_addD|]. split.
    + cbn [arel]. exists d. split; [right; reflexivity | auto].
    + split.
      * exact Hfs.
      * exists W3. split; [|exact Hrel]. destruct Hs as (A & B & C & D & F). unfold wsub, world_addD. cbn.
        split; [exact A|]. split; [exact B|]. split; [intros d0 [Hd0| ->]; [apply C; exact Hd0 | apply HD; exact Hd]|]. split; assumption.
Qed.

(* ------------------------------------------------------------------ a call, by the simulation of the body *)

Lemma map_fst_combine {A B} : forall (l : list A) (l' : list B), length l = length l' -> map fst (combine l l') = l.
Proof. induction l as [|a l IH]; intros [|b l'] H; cbn in *; try reflexivity; try lia. rewrite IH by lia. reflexivity. Qed.

Lemma P_apply_succ fl W n : (forall fl' W', SimExpr.P_fb pv sv bound u fl' W' n) -> P_apply pv sv bound u fl W (S n).
Proof.
  intros IHfb d avs lvs sc e st E stL r st' (Hfs & W1 & Hs1 & Hrel) Hd0 Hvs Hap Hint.
  pose proof (r0_world _ _ _ _ _ _ _ _ _ _ _ Hrel) as HW.
  assert (Hd : w_D W1 d) by (destruct Hs1 as (_ & _ & HD & _); apply HD; exact Hd0).
  destruct (wi_D _ _ _ _ _ _ _ _ _ _ _ HW d Hd) as (Hst & Hclo & HcloL & _).
  cbn [SyltSem.apply] in Hap. unfold SyltSem.bind at 1 in Hap. unfold SyltSem.get_clos in Hap. rewrite Hclo in Hap.
  cbn [SyltSem.cl_params SyltSem.cl_body SyltSem.cl_env] in Hap.
  destruct (Forall3_length _ _ _ _ Hvs) as [Hla Hll].
  pose proof (fs_pk _ _ _ _ _ Hst) as Hpk.
  destruct (Nat.eqb (length (fd_params d)) (length avs)) eqn:Hlen.
  2: { inversion Hap; subst. destruct Hint. }
  apply Nat.eqb_eq in Hlen.
  (* the world and the environment of the callee *)
  set (W' := callee_world W1 E stL).
  pose proof (callee_rel fl W1 d sc e st E stL Hrel Hd) as Hrel0. fold W' in Hrel0.
  assert (Hvs' : Forall3 (arel W') (fd_pk d) avs lvs).
  { clear - Hvs Hs1. induction Hvs as [|K av lv ks avs lvs Hh _ IHv]; constructor; [|exact IHv].
    destruct K; [exact Hh|]. cbn [arel] in *. destruct Hh as (d0 & A & B). exists d0. split; [|exact B].
    unfold W'. cbn [callee_world w_D]. destruct Hs1 as (_ & _ & HD & _). apply HD. exact A. }
  destruct (bind_params pv sv bound u (fd_params d) (fd_pk d) avs lvs (fd_fl d) W' (fd_sc d) (fd_ef d) st (fd_Ef d) stL Hrel0 Hvs' ltac:(lia)
                        (fs_params _ _ _ _ _ Hst))
    as (Wb & cs & st1 & E1 & stL1 & Hm & Hbl & Hwb & Hrel1 & Hlc & Hn1 & Ht1 & Hu1).
  unfold SyltSem.bind at 1 in Hap. rewrite Hm in Hap.
  destruct (params_ok_inv pv sv bound (fd_fl d) _ _ (fs_params _ _ _ _ _ Hst)) as [Hnd Hpall].
  assert (Hmf : map fst (combine (fd_params d) cs) = fd_params d) by (apply map_fst_combine; lia).
  set (ec := (combine (fd_params d) cs ++ fd_ef d)%list) in *.
  assert (Hlk : forall v, SyltSem.lookup ec v = SyltSem.lookup (rev (combine (fd_params d) cs) ++ fd_ef d) v)
    by (intros v; unfold ec; symmetry; apply lookup_rev_nodup; rewrite Hmf; exact Hnd).
  pose proof (rel_lookup_ext pv sv bound u _ Wb _ _ ec _ _ _ Hlk Hrel1) as Hrel1'.
  destruct (SyltSem.block_value n ec (fd_body d) st1) as [rb st2] eqn:Hbv.
  assert (Hintb : interesting rb /\ match rb with SyltSem.RAbrupt SyltSem.CBreak | SyltSem.RAbrupt SyltSem.CContinue => False | _ => True end).
  { destruct rb as [v|o|[| |v]].
    - split; exact I.
    - inversion Hap; subst. split; [exact Hint | exact I].
    - inversion Hap; subst. destruct Hint.
    - inversion Hap; subst. destruct Hint.
    - split; exact I. }
  destruct Hintb as [Hintb Hnab].
  assert (Hctx : ctx_ok bound (fd_lut d) [] E1 (fd_c d) (fd_c' d)).
  { constructor; [apply (fs_bound _ _ _ _ _ Hst) | intros t Ht; apply (fs_lut _ _ _ _ _ Hst); exact Ht | intros t [] |].
    intros t Ht. rewrite Ht1 by (pose proof (fs_bound _ _ _ _ _ Hst); lia). apply (fs_Efree _ _ _ _ _ Hst). exact Ht. }
  destruct (IHfb _ Wb (fd_g d) (fd_k d) (fd_body d) (fd_rk d) (fd_ctx d) (fd_c d) (fd_code d) (fd_c' d) ec st1 rb st2 _ (fd_lut d) E1 stL1 []
                 Hbv (fs_lower _ _ _ _ _ Hst) (fs_frag _ _ _ _ _ Hst) (fs_ucov _ _ _ _ _ Hst) Hctx Hrel1' Hintb)
    as (b & l' & Hs & Hpost).
  assert (Hb : b = fbody u d) by (unfold fbody; apply (Emits_block_fun u _ _ _ l'); apply Hs).
  pose proof Hs as (_ & _ & _ & Hnl). subst b.
  assert (Hbl' : bind_locals (c_env (mkClosure (fd_Ef d) (map fmt_var (fd_params d)) (fbody u d)))
                             (c_params (mkClosure (fd_Ef d) (map fmt_var (fd_params d)) (fbody u d))) lvs stL = (E1, stL1)) by exact Hbl.
  destruct rb as [v|o|[| |v]]; [| |destruct Hnab|destruct Hnab|].
  3: { (* an early return *)
    inversion Hap; subst r st'. clear Hap.
    destruct Hpost as (fl2 & W2 & sc2 & e2 & E2 & E' & stL' & lv & Hx & Hvl & Hrel2 & Hws & Hse & Hinc2 & Hk & Hnc2).
    destruct (caller_back fl W W1 sc e st E stL fl2 W2 sc2 e2 E2 st2 stL' Hfs Hs1 Hrel Hrel2 (wsub_trans _ _ _ Hwb Hws) ltac:(lia))
      as (W3 & Hw3 & HD3 & Hrel3 & Hcf).
    destruct (rel_with_result fl W W3 W2 sc e st2 E stL' (fd_rk d) v lv Hfs Hw3 Hrel3 HD3 Hvl) as (Wr & Hwr & Hvr & Hrelr).
    exists Wr, [lv], stL'. splits; [exact Hwr | | exact Hvr | exact Hrelr | exact Hcf].
    eapply (Call_closure (fd_fid d) _ lvs stL E1 stL1 E' [lv] stL' HcloL Hbl').
    cbn [c_body]. apply ExecBlock_of_ExecS; [exact Hx | exact Hnl | intros []]. }
  - (* the body ends: back in the caller *)
    inversion Hap; subst r st'. clear Hap.
    destruct Hpost as (fl2 & W2 & E' & sg & stL' & sc2 & e2 & Hx & Hsg & Hrel2 & Hws & Hse & Hinc2 & Hk & Hnc2).
    destruct (caller_back fl W W1 sc e st E stL fl2 W2 sc2 e2 E' st2 stL' Hfs Hs1 Hrel Hrel2 (wsub_trans _ _ _ Hwb Hws) ltac:(lia))
      as (W3 & Hw3 & HD3 & Hrel3 & Hcf).
    destruct Hsg as [(-> & -> & Hrk)|(lv & -> & Hvl)].
    + exists W, [], stL'. splits; [apply wsub_refl | | rewrite Hrk; constructor | split; [exact Hfs | exists W3; split; assumption] | exact Hcf].
      eapply (Call_closure_normal (fd_fid d) _ lvs stL E1 stL1 E' stL' HcloL Hbl').
      cbn [c_body]. apply ExecBlock_of_ExecS; [exact Hx | exact Hnl | intros []].
    + destruct (rel_with_result fl W W3 W2 sc e st2 E stL' (fd_rk d) v lv Hfs Hw3 Hrel3 HD3 Hvl) as (Wr & Hwr & Hvr & Hrelr).
      exists Wr, [lv], stL'. splits; [exact Hwr | | exact Hvr | exact Hrelr | exact Hcf].
      eapply (Call_closure (fd_fid d) _ lvs stL E1 stL1 E' [lv] stL' HcloL Hbl').
      cbn [c_body]. apply ExecBlock_of_ExecS; [exact Hx | exact Hnl | intros []].
  - inversion Hap; subst r st'. clear Hap.
    destruct Hpost as (ev & stL' & Hx & Htr). exists ev, stL'. split; [|exact Htr].
    eapply (Call_closure_err (fd_fid d) _ lvs stL E1 stL1 ev stL' HcloL Hbl').
    cbn [c_body]. apply ExecBlock_of_ExecS; [exact Hx | exact Hnl | intros []].
Qed.

End Call.

(* ------------------------------------------------------------------ all simulations together *)

Section All.
Variable pv : N.
Variable sv : N.
Variable bound : N.
Variable u : counts.

Definition P_all_at (n : nat) (fl : list (N * kind)) (W : world) : Prop :=
  P_eval pv sv bound u fl W n /\ P_exec pv sv bound u fl W n /\ P_blk pv sv bound u fl W n /\
  P_bv pv sv bound u fl W n /\ P_fb pv sv bound u fl W n /\ P_apply pv sv bound u fl W n /\ P_farg pv sv bound u fl W n.

Lemma P_apply_zero fl W : P_apply pv sv bound u fl W O.
Proof.
  intros d avs lvs sc e st E stL r st' _ _ _ Hap Hint. cbn in Hap. inversion Hap; subst. destruct Hint.
Qed.

(* by induction on the fuel of the reference interpreter, for every set of callable functions and every world:
   a call runs the body of the callee, in the world of the callee, with less fuel; a statement list runs in worlds
   that grow with the local functions it defines; a function-valued expression may add a closure to the world *)
Theorem P_all_le n : forall m, (m <= n)%nat -> forall fl W, P_all_at m fl W.
Proof.
  induction n as [|n IHle]; intros m Hm.
  - assert (m = O) by lia. subst m. intros fl W.
    split; [apply P_eval_zero|]. split; [apply P_exec_zero|]. split; [apply P_blk_zero|].
    split; [apply P_bv_zero|]. split; [apply P_fb_zero|]. split; [apply P_apply_zero | apply P_farg_zero].
  - destruct (Nat.eq_dec m (S n)) as [->|Hne]; [|apply IHle; lia].
    pose proof (IHle n (Nat.le_refl n)) as IH. intros fl W.
    destruct (IH fl W) as (IHe & IHs & IHss & IHb & IHf & IHa & IHx).
    split; [apply P_eval_succ; [assumption | assumption | apply P_ecall_succ; intros W'; apply (IH fl W')]|]. split; [apply P_exec_succ; assumption|].
    split; [apply P_blk_succ; [intros fl' W'; apply (IH fl' W') | intros fl' W'; apply (IH fl' W') | intros fl' W'; apply (IHle (pred n)); lia]|].
    split; [apply P_bv_succ; [intros fl' W'; apply (IH fl' W') | assumption]|].
    split; [apply P_fb_succ; [intros m Hm' fl' W'; apply (IHle m); lia | intros m Hm' fl' W'; apply (IHle m); lia | intros fl' W'; apply (IH fl' W')]|].
    split; [apply P_apply_succ; intros fl' W'; apply (IH fl' W')|].
    apply P_farg_succ; intros W'; apply (IH fl W').
Qed.

Theorem P_all n : forall fl W, P_all_at n fl W.
Proof. apply (P_all_le n n). apply Nat.le_refl. Qed.

End All.
