(* C02 -- placeholder *)
From Sylt Require Import Types.Tc.
