(* C07, parser: totality of the parser model.
   Every request terminates within a fuel that is linear in the number of tokens, never reaches a [Panic]
   site, and ends in [Ok] or in [Err] with at least one error.

   Method: a unary Hoare logic over programs ([bounded]).  The measure of a request is
   [mu q = 6 * (number of non-comment tokens ahead) + rank q]; every call made by [step q] has a smaller
   measure, given what earlier calls guarantee about their results ([Post]: the result context is at or
   after the request's context, strictly after for the requests that must consume; the tokens behind the
   cursor are only added to, which is what keeps Context::prev from running into index 0). *)
From Coq Require Import List NArith Bool Arith Lia.
From Sylt Require Import Syntax.Ast Syntax.Tok Parse.PrecTable Parse.Parser Parse.ParserProofs.
Import ListNotations.

(* ------------------------------------------------------------------------------------------- *)
(* how far a context is *)

Definition sgl (ts : list tok) : nat := length (filter not_comment ts).
Definition sg (c : ctx) : nat := sgl (post c).
Definition len (c : ctx) : nat := length (post c).

Definition ext (c c' : ctx) : Prop := exists l, pre c' = l ++ pre c.
Definition le_ctx (c c' : ctx) : Prop := sg c' <= sg c /\ ext c c'.
Definition lt_ctx (c c' : ctx) : Prop := sg c' < sg c /\ ext c c'.

Lemma ext_refl c : ext c c.
Proof. exists []. reflexivity. Qed.
Lemma ext_trans a b c : ext a b -> ext b c -> ext a c.
Proof. intros [l1 H1] [l2 H2]. exists (l2 ++ l1). rewrite H2, H1, app_assoc. reflexivity. Qed.

Lemma le_refl c : le_ctx c c.
Proof. split; [lia|apply ext_refl]. Qed.
Lemma le_trans a b c : le_ctx a b -> le_ctx b c -> le_ctx a c.
Proof. intros (A1 & A3) (B1 & B3). split; [lia|]. eapply ext_trans; eauto. Qed.
Lemma lt_le a b : lt_ctx a b -> le_ctx a b.
Proof. intros (A1 & A3). split; [lia|exact A3]. Qed.
Lemma lt_le_trans a b c : lt_ctx a b -> le_ctx b c -> lt_ctx a c.
Proof. intros (A1 & A3) (B1 & B3). split; [lia|]. eapply ext_trans; eauto. Qed.
Lemma le_lt_trans a b c : le_ctx a b -> lt_ctx b c -> lt_ctx a c.
Proof. intros (A1 & A3) (B1 & B3). split; [lia|]. eapply ext_trans; eauto. Qed.

(* ---- strip / adv / skip ---- *)

Lemma strip_facts b ts : forall p,
  sgl (snd (strip b ts p)) <= sgl ts /\ length (snd (strip b ts p)) <= length ts
  /\ exists l, fst (strip b ts p) = l ++ p.
Proof.
  assert (Stop : forall (ts0 p0 : list tok), sgl ts0 <= sgl ts0 /\ length ts0 <= length ts0 /\ exists l, p0 = l ++ p0).
  { intros. repeat split; try lia. exists []. reflexivity. }
  induction ts as [|t ts IH]; intros p; [apply Stop|].
  destruct t as [| | | | | |k|]; try apply Stop.
  - cbn [strip]. destruct (IH (TComment :: p)) as (A & B & l & Hl). unfold sgl in *. cbn [filter not_comment length].
    repeat split; try lia. exists (l ++ [TComment]). rewrite Hl, <- app_assoc. reflexivity.
  - destruct k; try apply Stop. cbn [strip]. destruct b; [|apply Stop].
    destruct (IH (TK KNewline :: p)) as (A & B & l & Hl). unfold sgl in *. cbn [filter not_comment length].
    repeat split; try lia. exists (l ++ [TK KNewline]). rewrite Hl, <- app_assoc. reflexivity.
Qed.

Lemma adv_facts ts : forall n p,
  sgl (snd (fst (adv ts n p))) <= sgl ts - n /\ length (snd (fst (adv ts n p))) <= length ts
  /\ (0 < n -> 0 < length ts -> length (snd (fst (adv ts n p))) < length ts)
  /\ exists l, fst (fst (adv ts n p)) = l ++ p.
Proof.
  induction ts as [|t ts IH]; intros n p.
  - destruct n; cbn [adv fst snd]; (repeat split; [unfold sgl; cbn; lia|lia|cbn; lia|exists []; reflexivity]).
  - destruct n; [cbn [adv fst snd]; repeat split; [lia|lia|lia|exists []; reflexivity]|].
    cbn [adv]. destruct (IH (match t with TComment => S n | _ => n end) (t :: p)) as (A & B & Cc & l & Hl).
    unfold sgl in *. cbn [filter length].
    repeat split.
    + destruct t; cbn [not_comment length]; lia.
    + lia.
    + intros _ _. lia.
    + exists (l ++ [t]). rewrite Hl, <- app_assoc. reflexivity.
Qed.

Lemma skip_le n c : le_ctx c (skip n c).
Proof.
  unfold le_ctx, sg, ext, skip.
  destruct (adv_facts (post c) n (pre c)) as (A & B & _ & l1 & H1).
  destruct (adv (post c) n (pre c)) as [[p1 q1] l0]. cbn [fst snd] in *.
  destruct (strip_facts (nl c) q1 p1) as (A2 & B2 & l2 & H2).
  destruct (strip (nl c) q1 p1) as [p2 q2]. cbn [fst snd post pre] in *.
  split; [lia|]. exists (l2 ++ l1). rewrite H2, H1, app_assoc. reflexivity.
Qed.

Lemma skip_sg n c : sg (skip n c) <= sg c - n.
Proof.
  unfold sg, skip. destruct (adv_facts (post c) n (pre c)) as (A & _).
  destruct (adv (post c) n (pre c)) as [[p1 q1] l0]. cbn [fst snd] in *.
  destruct (strip_facts (nl c) q1 p1) as (A2 & _).
  destruct (strip (nl c) q1 p1) as [p2 q2]. cbn [fst snd post] in *. lia.
Qed.

Lemma skip_len n c : 0 < n -> 0 < len c -> len (skip n c) < len c.
Proof.
  intros Hn Hl. unfold len, skip in *. destruct (adv_facts (post c) n (pre c)) as (_ & _ & Cc & _).
  specialize (Cc Hn Hl).
  destruct (adv (post c) n (pre c)) as [[p1 q1] l0]. cbn [fst snd] in *.
  destruct (strip_facts (nl c) q1 p1) as (_ & B2 & _).
  destruct (strip (nl c) q1 p1) as [p2 q2]. cbn [fst snd post] in *. lia.
Qed.

(* a token that is really there: not the end marker, not a comment *)
Definition realb (t : tok) : bool := match t with TComment | TEOF => false | _ => true end.

Lemma real_sg c : realb (token c) = true -> 1 <= sg c /\ 1 <= len c.
Proof.
  unfold token, sg, len, sgl. destruct (post c) as [|t ts]; [discriminate|]. intros H.
  cbn [filter length]. destruct t; cbn [not_comment length] in *; try discriminate; lia.
Qed.

Lemma is_k_real k c : is_k k c = true -> realb (token c) = true.
Proof. unfold is_k. destruct (token c) as [| | | | | |k0|]; try discriminate. reflexivity. Qed.

Lemma skip1_lt c : realb (token c) = true -> lt_ctx c (skip 1 c).
Proof.
  intros H. destruct (real_sg c H) as [A B]. destruct (skip_le 1 c) as (_ & E).
  pose proof (skip_sg 1 c). split; [lia|exact E].
Qed.

Lemma skipn_lt n c : 0 < n -> realb (token c) = true -> lt_ctx c (skip n c).
Proof.
  intros Hn H. destruct (real_sg c H) as [A B]. destruct (skip_le n c) as (_ & E).
  pose proof (skip_sg n c). split; [lia|exact E].
Qed.

Lemma set_nl_le b c : le_ctx c (set_nl b c) /\ le_ctx (set_nl b c) c.
Proof.
  split; (split; [unfold sg; cbn [set_nl post]; lia|exists []; reflexivity]).
Qed.

Lemma pop_nl_same b c : sg (pop_nl b c) = sg c /\ len (pop_nl b c) = len c /\ pre (pop_nl b c) = pre c
  /\ token (pop_nl b c) = token c.
Proof. repeat split. Qed.

Lemma push_nl_le b c : le_ctx c (fst (push_nl b c)).
Proof.
  unfold push_nl. cbn [fst]. eapply le_trans; [apply (proj1 (set_nl_le b c))|apply skip_le].
Qed.

Lemma skip_if_le k c : le_ctx c (skip_if k c).
Proof. unfold skip_if. destruct (is_k k c); [apply skip_le|apply le_refl]. Qed.

Lemma skip_while_le f : forall c, le_ctx c (skip_while_nl f c).
Proof.
  induction f as [|f IH]; intros c; [apply le_refl|]. cbn [skip_while_nl].
  destruct (is_k KNewline c); [|apply le_refl]. eapply le_trans; [apply skip_le|apply IH].
Qed.

Lemma skip_nls_le c : le_ctx c (skip_nls c).
Proof. apply skip_while_le. Qed.

Lemma skip_until_f_le f k : forall c, le_ctx c (skip_until_f f k c).
Proof.
  induction f as [|f IH]; intros c; [apply le_refl|]. cbn [skip_until_f].
  destruct (token c); try apply le_refl;
    (destruct (is_k k c); [apply le_refl|eapply le_trans; [apply skip_le|apply IH]]).
Qed.

Lemma skip_until_le k c : le_ctx c (skip_until k c).
Proof. apply skip_until_f_le. Qed.

(* skip_until stops on the wanted token or at the end (its local fuel is enough) *)
Lemma skip_until_f_stop k : forall f c, len c < f ->
  token (skip_until_f f k c) = TEOF \/ is_k k (skip_until_f f k c) = true.
Proof.
  induction f as [|f IH]; intros c L; [lia|]. cbn [skip_until_f].
  destruct (token c) eqn:Tk; try (left; exact Tk);
    (destruct (is_k k c) eqn:Ek; [right; exact Ek|]; apply IH;
     assert (0 < len c) by (unfold len, token in *; destruct (post c); [discriminate|cbn; lia]);
     pose proof (skip_len 1 c ltac:(lia) H); lia).
Qed.

Lemma skip_until_stop k c : token (skip_until k c) = TEOF \/ is_k k (skip_until k c) = true.
Proof. apply skip_until_f_stop. unfold local_fuel, len. lia. Qed.

Lemma after_arg_le c : le_ctx c (after_arg c).
Proof.
  unfold after_arg. destruct (_ || _); [|apply le_refl].
  eapply le_trans; [apply skip_nls_le|]. eapply le_trans; [apply skip_le|apply skip_nls_le].
Qed.

(* ---- prev ---- *)

Lemma unwind_ext : forall m p post r1 r2,
  existsb not_comment m = true ->
  unwind (m ++ p) post = Some (r1, r2) ->
  (exists m', r1 = m' ++ p) /\ sgl r2 <= sgl post + 1 /\ length r2 <= length post + length m.
Proof.
  induction m as [|x m IH]; intros p post r1 r2 H U; [discriminate|].
  cbn [app] in U.
  assert (Stop : Some (x :: m ++ p, post) = Some (r1, r2) ->
                 (exists m', r1 = m' ++ p) /\ sgl r2 <= sgl post + 1 /\ length r2 <= length post + length (x :: m)).
  { intros X. inversion X; subst. split; [exists (x :: m); reflexivity|]. cbn [length]. lia. }
  destruct post as [|t post]; [apply Stop; exact U|].
  destruct t; try (apply Stop; exact U).
  cbn [unwind] in U. cbn [existsb] in H.
  destruct (not_comment x) eqn:Nx.
  - (* x is the token prev stops on *)
    destruct x; try discriminate Nx;
      (destruct m as [|y m']; cbn [app] in U;
       [destruct p; cbn [unwind] in U; inversion U; subst;
        (split; [exists []; reflexivity|unfold sgl; cbn [filter not_comment length]; lia])
       |cbn [unwind] in U; inversion U; subst;
        (split; [exists (y :: m'); reflexivity|unfold sgl; cbn [filter not_comment length]; lia])]).
  - cbn [orb] in H. destruct (IH p (x :: TComment :: post) r1 r2 H U) as (E & S1 & L1).
    split; [exact E|]. destruct x; try discriminate Nx.
    unfold sgl in *. cbn [filter not_comment length] in *. lia.
Qed.

(* prev() steps back over exactly one non-comment token, inside what was added behind the cursor *)
Lemma prev_facts c m p0 cp : pre c = m ++ p0 -> existsb not_comment m = true -> prev c = Some cp ->
  (exists m', pre cp = m' ++ p0) /\ sg cp <= sg c + 1.
Proof.
  intros Hp Hm. unfold prev. destruct (over c) as [|o].
  - rewrite Hp. destruct m as [|x m]; [discriminate|]. cbn [app].
    destruct (unwind (m ++ p0) (x :: post c)) as [[r1 r2]|] eqn:U; [|discriminate].
    intros X. inversion X; subst cp. cbn [pre post].
    cbn [existsb] in Hm. destruct (not_comment x) eqn:Nx.
    + (* x itself is not a comment: unwind stops at once *)
      assert (U' : unwind (m ++ p0) (x :: post c) = Some (m ++ p0, x :: post c)).
      { destruct x; try discriminate Nx; destruct (m ++ p0); reflexivity. }
      rewrite U' in U. inversion U; subst. split; [exists m; reflexivity|].
      unfold sg, sgl. cbn [post filter]. rewrite Nx. cbn [length]. lia.
    + cbn [orb] in Hm. destruct (unwind_ext m p0 (x :: post c) r1 r2 Hm U) as (E & S1 & _).
      split; [exact E|]. unfold sg. cbn [post]. unfold sgl in *. cbn [filter] in S1. rewrite Nx in S1. exact S1.
  - intros X. inversion X; subst cp. cbn [pre]. split; [exists m; exact Hp|]. unfold sg. cbn [post]. lia.
Qed.

Lemma prev_some c m p0 : pre c = m ++ p0 -> existsb not_comment m = true -> exists cp, prev c = Some cp.
Proof.
  intros Hp Hm. destruct (over c) as [|o] eqn:Eo.
  - apply prev_some_of_pre; [exact Eo|]. rewrite Hp, existsb_app, Hm. reflexivity.
  - unfold prev. rewrite Eo. eexists. reflexivity.
Qed.

(* strictly after, having consumed at least one real token *)
Definition mark (l : list tok) : Prop := existsb not_comment l = true.
Definition ltm (c c' : ctx) : Prop := sg c' < sg c /\ exists l, pre c' = l ++ pre c /\ mark l.

Lemma ltm_lt a b : ltm a b -> lt_ctx a b.
Proof. intros (A & l & H & _). split; [exact A|exists l; exact H]. Qed.
Lemma ltm_le a b : ltm a b -> le_ctx a b.
Proof. intros H. apply lt_le. apply ltm_lt. exact H. Qed.
Lemma mark_app_l l1 l2 : mark l2 -> mark (l1 ++ l2).
Proof. unfold mark. intros H. rewrite existsb_app, H. apply orb_true_r. Qed.
Lemma mark_app_r l1 l2 : mark l1 -> mark (l1 ++ l2).
Proof. unfold mark. intros H. rewrite existsb_app, H. reflexivity. Qed.
Lemma ltm_le_trans a b c : ltm a b -> le_ctx b c -> ltm a c.
Proof.
  intros (A & l & H & M) (B & l2 & H2). split; [lia|]. exists (l2 ++ l). rewrite H2, H, app_assoc.
  split; [reflexivity|apply mark_app_l; exact M].
Qed.
Lemma le_ltm_trans a b c : le_ctx a b -> ltm b c -> ltm a c.
Proof.
  intros (A & l & H) (B & l2 & H2 & M). split; [lia|]. exists (l2 ++ l). rewrite H2, H, app_assoc.
  split; [reflexivity|apply mark_app_r; exact M].
Qed.

Lemma skip1_marker c : realb (token c) = true -> exists l, pre (skip 1 c) = l ++ token c :: pre c.
Proof.
  unfold token, skip. destruct (post c) as [|t ts]; [discriminate|]. intros R. cbn [adv].
  assert (A : adv ts match t with TComment => 1 | _ => 0 end (t :: pre c) = (t :: pre c, ts, 0)).
  { destruct t; try (destruct ts; reflexivity). discriminate. }
  rewrite A. destruct (strip_facts (nl c) ts (t :: pre c)) as (_ & _ & l & Hl).
  destruct (strip (nl c) ts (t :: pre c)) as [p2 q2]. cbn [fst pre] in *. exists l. exact Hl.
Qed.

Lemma real_not_comment t : realb t = true -> not_comment t = true.
Proof. destruct t; try reflexivity. discriminate. Qed.

Lemma skip1_ltm c : realb (token c) = true -> ltm c (skip 1 c).
Proof.
  intros R. destruct (skip1_lt c R) as [A _]. split; [exact A|].
  destruct (skip1_marker c R) as [l Hl]. exists (l ++ [token c]). rewrite Hl, <- app_assoc. split; [reflexivity|].
  apply mark_app_l. unfold mark. cbn [existsb]. rewrite (real_not_comment _ R). reflexivity.
Qed.

(* skip n, n >= 1, from a real token *)
Lemma skipn_ltm n c : 0 < n -> realb (token c) = true -> ltm c (skip n c).
Proof.
  intros Hn R. destruct (skipn_lt n c Hn R) as [A _]. split; [exact A|].
  unfold skip, token in *. destruct (post c) as [|t ts]; [discriminate|].
  destruct n as [|n]; [lia|]. cbn [adv].
  assert (Nc : not_comment t = true) by (apply real_not_comment; exact R).
  replace (match t with TComment => S n | _ => n end) with n by (destruct t; try reflexivity; discriminate).
  destruct (adv_facts ts n (t :: pre c)) as (_ & _ & _ & l1 & H1).
  destruct (adv ts n (t :: pre c)) as [[p1 q1] l0]. cbn [fst snd] in *.
  destruct (strip_facts (nl c) q1 p1) as (_ & _ & l2 & H2).
  destruct (strip (nl c) q1 p1) as [p2 q2]. cbn [fst pre] in *.
  exists (l2 ++ l1 ++ [t]). rewrite H2, H1, <- !app_assoc. split; [reflexivity|].
  apply mark_app_l. apply mark_app_l. unfold mark. cbn [existsb]. rewrite Nc. reflexivity.
Qed.

(* ------------------------------------------------------------------------------------------- *)
(* requests: context, rank, measure, pre- and postconditions *)

Definition ctx_of (q : req) : ctx :=
  match q with
  | QPrec _ c | QLoop _ _ c | QSub _ c | QArgs _ _ c | QTuple _ _ c | QList _ c | QFields _ c | QElifs _ c
  | QCases _ c | QParams _ c | QType c | QSepTypes _ c | QFnTyParams _ c | QTyTuple _ _ c | QStmts _ _ c
  | QStmt c | QEnumItems _ c | QBlobFields _ c | QModule _ _ _ c => c
  end.

Definition block_end (t : tok) : bool :=
  match t with TK KElse | TK KElif | TK KEnd | TEOF => true | _ => false end.
Definition line_end (t : tok) : bool :=
  match t with TK KNewline | TEOF => true | _ => false end.

Definition rank (q : req) : nat :=
  match q with
  | QSub _ _ => 0
  | QLoop _ _ _ => 1
  | QPrec _ _ => 2
  | QArgs _ _ _ | QTuple _ _ _ | QList _ _ => 3
  | QStmt _ => 3
  | QStmts _ _ c => if block_end (token c) then 4 else 5
  | QModule _ _ _ c => if line_end (token c) then 4 else 5
  | QType _ => 0
  | QSepTypes _ _ | QFnTyParams _ _ | QTyTuple _ _ _ => 1
  | QFields _ _ | QElifs _ _ | QCases _ _ | QParams _ _ | QEnumItems _ _ | QBlobFields _ _ => 0
  end.

Definition mu (q : req) : nat := 6 * sg (ctx_of q) + rank q.

Definition postfix_tok (t : tok) : bool :=
  match t with TK KPrime | TK KLeftParen | TK KLeftBracket | TK KDot => true | _ => false end.

Definition tuple_pre (b : bool) (n : nat) (c : ctx) : Prop :=
  b = false -> n = 0 -> is_k KComma c = false /\ is_k KRightParen c = false.
Definition tuple_post (b : bool) (n : nat) (c : ctx) : Prop :=
  b = false -> n = 0 -> is_k KRightParen c = false.

Definition Pre (q : req) : Prop :=
  match q with
  | QTuple b acc c => tuple_pre b (length acc) c
  | QTyTuple b acc c => tuple_pre b (length acc) c
  | _ => True
  end.

Definition Post (q : req) (o : out) : Prop :=
  match q, o with
  | QPrec _ c, RE _ c' => ltm c c'
  | QLoop _ _ c, RE _ c' => le_ctx c c'
  | QSub _ c, RA _ c' => le_ctx c c' /\ (postfix_tok (token c) = true -> lt_ctx c c')
  | QArgs _ _ c, REs _ c' => le_ctx c c'
  | QTuple _ _ c, RTup b' es c' => le_ctx c c' /\ tuple_post b' (length es) c'
  | QList _ c, REs _ c' => le_ctx c c'
  | QFields _ c, RFs _ c' => le_ctx c c'
  | QElifs _ c, RIfs _ c' => le_ctx c c'
  | QCases _ c, RCases _ c' => le_ctx c c'
  | QParams _ c, RParams _ _ c' => le_ctx c c'
  | QType c, RT _ c' => lt_ctx c c'
  | QSepTypes _ c, RTs _ c' => le_ctx c c'
  | QFnTyParams _ c, RFnTy _ _ c' => le_ctx c c'
  | QTyTuple _ _ c, RTyTup b' ts c' => le_ctx c c' /\ tuple_post b' (length ts) c'
  | QStmts _ errs c, RSs _ c' => errs = [] /\ le_ctx c c'
  | QStmt c, RS _ c' => ltm c c'
  | QEnumItems _ c, REnum _ c' => le_ctx c c'
  | QBlobFields _ c, RNTs _ c' => le_ctx c c'
  | QModule _ errs _ c, RSs _ c' => errs = [] /\ le_ctx c c'
  | _, _ => False
  end.

(* an error hands back a context that is not before the request's *)
Definition PostE (q : req) (c' : ctx) : Prop := sg c' <= sg (ctx_of q).

(* ------------------------------------------------------------------------------------------- *)
(* the program logic *)

Definition good {A : Type} (Q : A -> Prop) (E : ctx -> Prop) (r : res A) : Prop :=
  match r with
  | Ok a => Q a
  | Err c es => E c /\ es <> []
  | Fuel => False
  | Panic => False
  end.

Inductive bounded {A : Type} (M : nat) (Q : A -> Prop) (E : ctx -> Prop) : prog A -> Prop :=
| b_ret r : good Q E r -> bounded M Q E (Ret r)
| b_call q k e : Pre q -> mu q < M ->
    (forall o, Post q o -> bounded M Q E (k o)) ->
    (forall c es, PostE q c -> es <> [] -> bounded M Q E (e c es)) ->
    bounded M Q E (Call q k e).

Lemma run_bounded {A : Type} (M : nat) (Q : A -> Prop) (E : ctx -> Prop) (rec : req -> res out) :
  (forall q, Pre q -> mu q < M -> good (Post q) (PostE q) (rec q)) ->
  forall m, bounded M Q E m -> good Q E (run rec m).
Proof.
  intros HR m H. induction H as [r Hr|q k e Hp Hm Hk IHk He IHe].
  - exact Hr.
  - cbn [run]. specialize (HR q Hp Hm). unfold good in HR.
    destruct (rec q) as [o|c es| |]; try contradiction.
    + apply IHk. exact HR.
    + apply IHe; apply HR.
Qed.

Lemma bounded_ptry {A B : Type} M (Q' : A -> Prop) (E' : ctx -> Prop) (Q : B -> Prop) (E : ctx -> Prop)
  (m : prog A) (k : A -> prog B) (e : ctx -> list nat -> prog B) :
  bounded M Q' E' m ->
  (forall a, Q' a -> bounded M Q E (k a)) ->
  (forall c es, E' c -> es <> [] -> bounded M Q E (e c es)) ->
  bounded M Q E (ptry m k e).
Proof.
  intros H Hk He. induction H as [r Hr|q k0 e0 Hp Hm Hk0 IHk He0 IHe].
  - destruct r as [a|c es| |]; cbn [ptry good] in *; try contradiction.
    + apply Hk. exact Hr.
    + apply He; apply Hr.
  - cbn [ptry]. apply b_call; [exact Hp|exact Hm| |].
    + intros o Ho. apply IHk. exact Ho.
    + intros c es Hc Hes. apply IHe; assumption.
Qed.

Lemma bounded_weaken {A : Type} M M' (Q Q' : A -> Prop) (E E' : ctx -> Prop) m :
  bounded M Q E m -> M <= M' -> (forall a, Q a -> Q' a) -> (forall c, E c -> E' c) -> bounded M' Q' E' m.
Proof.
  intros H HM HQ HE. induction H as [r Hr|q k e Hp Hm Hk IHk He IHe].
  - apply b_ret. destruct r; cbn [good] in *; try contradiction; [apply HQ; exact Hr|].
    split; [apply HE; apply Hr|apply Hr].
  - apply b_call; [exact Hp|lia|exact IHk|exact IHe].
Qed.

(* the main argument: if every step is bounded by its own measure, a fuel above the measure suffices *)
Section Main.
Variable T : ptab.
Hypothesis steps : forall q, Pre q -> bounded (mu q) (Post q) (PostE q) (step T q).

Theorem go_total : forall f q, Pre q -> mu q < f -> good (Post q) (PostE q) (go T f q).
Proof.
  induction f as [|f IH]; intros q Hp Hm; [lia|].
  rewrite go_S. apply (run_bounded (mu q)); [|apply steps; exact Hp].
  intros q' Hp' Hm'. apply IH; [exact Hp'|lia].
Qed.
End Main.

(* ------------------------------------------------------------------------------------------- *)
(* small facts used by every step *)

Lemma pop_nl_le b c : le_ctx c (pop_nl b c).
Proof. apply (proj1 (set_nl_le b c)). Qed.
Lemma pop_nl_le' b c : le_ctx (pop_nl b c) c.
Proof. apply (proj2 (set_nl_le b c)). Qed.

Lemma le_sg a b : le_ctx a b -> sg b <= sg a.
Proof. intros [H _]. exact H. Qed.
Lemma lt_sg a b : lt_ctx a b -> sg b < sg a.
Proof. intros [H _]. exact H. Qed.
Lemma ltm_sg a b : ltm a b -> sg b < sg a.
Proof. intros [H _]. exact H. Qed.

Create HintDb tot.
#[export] Hint Resolve le_refl skip_le push_nl_le skip_if_le skip_nls_le skip_until_le after_arg_le pop_nl_le
  pop_nl_le' lt_le ltm_le ltm_lt : tot.
#[export] Hint Extern 3 (le_ctx _ _) => eapply le_trans; [eassumption|] : tot.
#[export] Hint Extern 3 (le_ctx _ _) => eapply le_trans; [|eassumption] : tot.

(* le_ctx goals along a chain of primitive moves and known facts *)
Ltac lec := cbn [Post]; cbn beta iota; solve [eauto 8 with tot].

Lemma is_k_tok k c : is_k k c = true -> token c = TK k.
Proof.
  unfold is_k. destruct (token c) as [| | | | | |k0|]; try discriminate. cbn [tok_is].
  destruct k, k0; try discriminate; reflexivity.
Qed.

Lemma b_ok {A : Type} M (Q : A -> Prop) E a : Q a -> bounded M Q E (ok a).
Proof. intros H. apply b_ret. exact H. Qed.

Lemma b_raise {A : Type} M (Q : A -> Prop) (E : ctx -> Prop) c : E (skip 1 c) -> bounded M Q E (praise c).
Proof. intros H. apply b_ret. split; [exact H|discriminate]. Qed.

Lemma b_reraise {A : Type} M (Q : A -> Prop) (E : ctx -> Prop) c es : E c -> es <> [] -> bounded M Q E (reraise c es).
Proof. intros H H2. apply b_ret. split; assumption. Qed.

Lemma b_expect M (E : ctx -> Prop) k c :
  E (skip 1 c) -> bounded M (fun c1 => ltm c c1 /\ is_k k c = true) E (pexpect k c).
Proof.
  intros He. unfold pexpect, expect. destruct (is_k k c) eqn:Ek.
  - apply b_ret. split; [|reflexivity]. apply skip1_ltm. apply (is_k_real k c Ek).
  - apply b_ret. split; [exact He|discriminate].
Qed.

(* E-sets used below: "not before c" *)
Definition nb (c : ctx) : ctx -> Prop := fun c' => sg c' <= sg c.

Lemma nb_skip c c0 n : sg c0 <= sg c -> nb c (skip n c0).
Proof. intros H. unfold nb. pose proof (le_sg _ _ (skip_le n c0)). lia. Qed.

(* ------------------------------------------------------------------------------------------- *)
(* the token-only loops: their local fuel is enough, and they only move forward *)

Definition lel (c c' : ctx) : Prop := le_ctx c c' /\ len c' <= len c.
Definition ltl (c c' : ctx) : Prop := ltm c c' /\ len c' < len c.

Lemma len_skip_le n c : len (skip n c) <= len c.
Proof.
  unfold len, skip. destruct (adv_facts (post c) n (pre c)) as (_ & B & _).
  destruct (adv (post c) n (pre c)) as [[p1 q1] l0]. cbn [fst snd] in *.
  destruct (strip_facts (nl c) q1 p1) as (_ & B2 & _).
  destruct (strip (nl c) q1 p1) as [p2 q2]. cbn [fst snd post] in *. lia.
Qed.

Lemma lel_refl c : lel c c.
Proof. split; [apply le_refl|lia]. Qed.
Lemma lel_trans a b c : lel a b -> lel b c -> lel a c.
Proof. intros [A1 A2] [B1 B2]. split; [eapply le_trans; eauto|lia]. Qed.
Lemma ltl_lel a b : ltl a b -> lel a b.
Proof. intros [A1 A2]. split; [apply ltm_le; exact A1|lia]. Qed.
Lemma ltl_lel_trans a b c : ltl a b -> lel b c -> ltl a c.
Proof. intros [A1 A2] [B1 B2]. split; [eapply ltm_le_trans; eauto|lia]. Qed.
Lemma lel_ltl_trans a b c : lel a b -> ltl b c -> ltl a c.
Proof. intros [A1 A2] [B1 B2]. split; [eapply le_ltm_trans; eauto|lia]. Qed.
Lemma skip_lel n c : lel c (skip n c).
Proof. split; [apply skip_le|apply len_skip_le]. Qed.
Lemma skipn_ltl n c : 0 < n -> realb (token c) = true -> ltl c (skip n c).
Proof.
  intros Hn R. split; [apply skipn_ltm; assumption|]. destruct (real_sg c R) as [_ L]. apply skip_len; lia.
Qed.
Lemma skip_if_lel k c : lel c (skip_if k c).
Proof. unfold skip_if. destruct (is_k k c); [apply skip_lel|apply lel_refl]. Qed.
Lemma pop_nl_lel b c : lel c (pop_nl b c).
Proof. split; [apply pop_nl_le|unfold len; cbn; lia]. Qed.
Lemma push_nl_lel b c : lel c (fst (push_nl b c)).
Proof.
  unfold push_nl. cbn [fst]. eapply lel_trans; [|apply skip_lel]. split; [apply (proj1 (set_nl_le b c))|unfold len; cbn; lia].
Qed.

Lemma good_expect (E : ctx -> Prop) k c :
  E (skip 1 c) -> good (fun c1 => c1 = skip 1 c /\ is_k k c = true) E (expect k c).
Proof.
  intros He. unfold expect. destruct (is_k k c) eqn:Ek; cbn [good raise].
  - split; reflexivity.
  - split; [exact He|discriminate].
Qed.

Lemma good_bind {A B : Type} (Q' : A -> Prop) (E' : ctx -> Prop) (Q : B -> Prop) (E : ctx -> Prop)
  (m : res A) (k : A -> res B) :
  good Q' E' m -> (forall c, E' c -> E c) -> (forall a, Q' a -> good Q E (k a)) -> good Q E (bind m k).
Proof.
  intros H HE Hk. destruct m as [a|c es| |]; cbn [good bind] in *; try contradiction.
  - apply Hk. exact H.
  - split; [apply HE; apply H|apply H].
Qed.

Lemma good_weaken {A : Type} (Q Q' : A -> Prop) (E E' : ctx -> Prop) r :
  good Q E r -> (forall a, Q a -> Q' a) -> (forall c, E c -> E' c) -> good Q' E' r.
Proof.
  destruct r; cbn [good]; try contradiction; intros H HQ HE; [apply HQ; exact H|].
  split; [apply HE; apply H|apply H].
Qed.

Lemma nb_of_lel c c' : lel c c' -> nb c c'.
Proof. intros [[H _] _]. exact H. Qed.

Lemma good_raise {A : Type} (Q : A -> Prop) c0 c : lel c0 c -> good Q (nb c0) (raise c).
Proof.
  intros H. cbn [good raise]. split; [|discriminate]. apply nb_of_lel. eapply lel_trans; [exact H|apply skip_lel].
Qed.

Lemma ta_inner_good : forall f c0 c acc, len c < f -> lel c0 c ->
  good (fun x : tyass * ctx => lel c0 (snd x)) (nb c0) (type_assignable_inner f c acc).
Proof.
  induction f as [|f IH]; intros c0 c acc L Hc; [lia|].
  cbn [type_assignable_inner]. destruct (token c) as [n| | | | | | |] eqn:Tk; try exact Hc.
  assert (R : realb (token c) = true) by (rewrite Tk; reflexivity).
  destruct (is_capitalized n); [cbn [good snd]; eapply lel_trans; [exact Hc|apply skip_lel]|].
  apply (good_bind (fun c1 => c1 = skip 1 (skip 1 c) /\ is_k KDot (skip 1 c) = true) (nb c0)).
  - apply good_expect. apply nb_of_lel. eapply lel_trans; [exact Hc|]. eapply lel_trans; apply skip_lel.
  - trivial.
  - intros c1 [-> _]. apply IH.
    + destruct (skipn_ltl 1 c ltac:(lia) R) as [_ L1]. pose proof (len_skip_le 1 (skip 1 c)). lia.
    + eapply lel_trans; [exact Hc|]. eapply lel_trans; apply skip_lel.
Qed.

Lemma ta_good c : good (fun x : tyass * ctx => ltl c (snd x)) (nb c) (type_assignable c).
Proof.
  unfold type_assignable. destruct (token c) as [n| | | | | | |] eqn:Tk; try (apply good_raise; apply lel_refl).
  assert (R : realb (token c) = true) by (rewrite Tk; reflexivity).
  destruct (is_capitalized n); [cbn [good snd]; apply (skipn_ltl 1 c ltac:(lia) R)|].
  apply (good_bind (fun c1 => c1 = skip 1 (skip 1 c) /\ is_k KDot (skip 1 c) = true) (nb c)).
  - apply good_expect. apply nb_of_lel. eapply lel_trans; apply skip_lel.
  - trivial.
  - intros c1 [-> _].
    eapply good_weaken; [apply (ta_inner_good (local_fuel c) (skip 1 c) (skip 1 (skip 1 c)))| |].
    + unfold local_fuel. pose proof (len_skip_le 1 (skip 1 c)). pose proof (len_skip_le 1 c). unfold len in *. lia.
    + apply skip_lel.
    + intros x Hx. eapply ltl_lel_trans; [apply (skipn_ltl 1 c ltac:(lia) R)|exact Hx].
    + intros c' Hc'. unfold nb in *. pose proof (le_sg _ _ (skip_le 1 c)). lia.
Qed.

(* constraints of `fn<a: A x + B, b: C> ...` *)
Definition cstop (t : tok) : Prop := t = TK KPlus \/ t = TK KComma \/ t = TK KGreater.

Lemma constraint_args_good : forall f c0 c acc, len c < f -> lel c0 c ->
  good (fun x : list name * ctx => lel c0 (snd x) /\ cstop (token (snd x))) (nb c0) (constraint_args f c acc).
Proof.
  induction f as [|f IH]; intros c0 c acc L Hc; [lia|]. cbn [constraint_args].
  destruct (token c) as [n| | | | | |k|] eqn:Tk; try (apply good_raise; exact Hc).
  - assert (R : realb (token c) = true) by (rewrite Tk; reflexivity).
    apply IH; [destruct (skipn_ltl 1 c ltac:(lia) R); lia|eapply lel_trans; [exact Hc|apply skip_lel]].
  - destruct k; try (apply good_raise; exact Hc); cbn [good snd]; (split; [exact Hc|rewrite Tk; unfold cstop; auto]).
Qed.

Lemma constraint_good f c : len c <= f ->
  good (fun x : tcons * ctx => ltl c (snd x) /\ cstop (token (snd x))) (nb c) (constraint f c).
Proof.
  intros L. unfold constraint. destruct (token c) as [n| | | | | | |] eqn:Tk; try (apply good_raise; apply lel_refl).
  assert (R : realb (token c) = true) by (rewrite Tk; reflexivity).
  destruct (skipn_ltl 1 c ltac:(lia) R) as [R1 R2].
  apply (good_bind (fun x : list name * ctx => lel (skip 1 c) (snd x) /\ cstop (token (snd x))) (nb (skip 1 c))).
  - apply constraint_args_good; [lia|apply lel_refl].
  - intros c' Hc'. unfold nb in *. pose proof (le_sg _ _ (skip_le 1 c)). lia.
  - intros [args c1] [H1 H2]. cbn [good snd] in *. split; [|exact H2].
    eapply ltl_lel_trans; [split; [exact R1|exact R2]|exact H1].
Qed.

Lemma cstop_real c : cstop (token c) -> realb (token c) = true.
Proof. intros [->|[->| ->]]; reflexivity. Qed.

Lemma constraints_inner_good : forall f c0 c ident lst m, len c < f -> lel c0 c ->
  good (fun x : consmap * bool * ctx => ltl c0 (snd x)) (nb c0) (constraints_inner f c ident lst m).
Proof.
  induction f as [|f IH]; intros c0 c ident lst m L Hc; [lia|]. cbn [constraints_inner].
  apply (good_bind (fun x : tcons * ctx => ltl c (snd x) /\ cstop (token (snd x))) (nb c)).
  - apply constraint_good. unfold local_fuel, len. lia.
  - intros c' Hc'. unfold nb in *. pose proof (le_sg _ _ (proj1 Hc)). lia.
  - intros [k c1] [H1 H2]. cbn [snd] in *.
    assert (R : realb (token c1) = true) by (apply cstop_real; exact H2).
    assert (H3 : ltl c0 (skip 1 c1)).
    { eapply lel_ltl_trans; [exact Hc|]. eapply ltl_lel_trans; [exact H1|apply skip_lel]. }
    destruct H2 as [E|[E|E]]; rewrite E.
    + apply IH; [destruct H1 as [_ X]; pose proof (len_skip_le 1 c1); lia|].
      eapply lel_trans; [exact Hc|]. eapply lel_trans; [apply ltl_lel; exact H1|apply skip_lel].
    + exact H3.
    + exact H3.
Qed.

Lemma constraints_outer_good : forall f c0 c m, len c < f -> lel c0 c ->
  good (fun x : consmap * ctx => ltl c0 (snd x)) (nb c0) (constraints_outer f c m).
Proof.
  induction f as [|f IH]; intros c0 c m L Hc; [lia|]. cbn [constraints_outer]. unfold look2.
  destruct (token c) as [ident| | | | | | |] eqn:Tk; try (apply good_raise; exact Hc).
  assert (R : realb (token c) = true) by (rewrite Tk; reflexivity).
  destruct (token (skip 1 c)) as [| | | | | |k|]; try (apply good_raise; exact Hc).
  destruct k; try (apply good_raise; exact Hc).
  set (c2 := skip 1 (skip 1 c)).
  assert (L2 : len c2 <= len c) by (pose proof (len_skip_le 1 c); pose proof (len_skip_le 1 (skip 1 c)); unfold c2; lia).
  assert (S2 : lel c c2) by (eapply lel_trans; apply skip_lel).
  assert (E2 : le_ctx c c2) by (eapply le_trans; apply skip_le).
  apply (good_bind (fun x : consmap * bool * ctx => ltl c2 (snd x)) (nb c2)).
  - apply constraints_inner_good; [unfold local_fuel, len in *; lia|apply lel_refl].
  - intros c' Hc'. unfold nb in *. pose proof (le_sg _ _ E2). pose proof (le_sg _ _ (proj1 Hc)). lia.
  - intros [[m' again] c1] H1. cbn [snd] in H1.
    assert (H2 : ltl c0 c1).
    { eapply lel_ltl_trans; [exact Hc|]. eapply lel_ltl_trans; [exact S2|exact H1]. }
    destruct again; [|exact H2].
    eapply good_weaken; [apply (IH c0 c1 m')| |].
    + destruct H1 as [_ X]. lia.
    + apply ltl_lel. exact H2.
    + trivial.
    + trivial.
Qed.

(* `use` paths *)
Lemma path_loop_lel : forall f c acc, lel c (snd (path_loop f c acc)).
Proof.
  induction f as [|f IH]; intros c acc; [apply lel_refl|]. cbn [path_loop].
  destruct (token c); try apply lel_refl.
  destruct (is_k KSlash (skip 1 c)).
  - eapply lel_trans; [|apply IH]. eapply lel_trans; apply skip_lel.
  - eapply lel_trans; [|apply IH]. apply skip_lel.
Qed.

Lemma path_good c : good (fun x : name * ctx => ltl c (snd x)) (nb c) (path c).
Proof.
  unfold path. destruct (token c) as [n| | | | | |k|] eqn:Tk; try (apply good_raise; apply lel_refl).
  - assert (R : realb (token c) = true) by (rewrite Tk; reflexivity).
    cbn [good]. unfold local_fuel. generalize (S (length (post c))). intros f0. cbn [path_loop]. rewrite Tk.
    destruct (is_k KSlash (skip 1 c)).
    + eapply ltl_lel_trans; [apply (skipn_ltl 1 c ltac:(lia) R)|].
      eapply lel_trans; [apply skip_lel|apply path_loop_lel].
    + eapply ltl_lel_trans; [apply (skipn_ltl 1 c ltac:(lia) R)|apply path_loop_lel].
  - destruct k; try (apply good_raise; apply lel_refl).
    assert (R : realb (token c) = true) by (rewrite Tk; reflexivity).
    cbn [good]. eapply ltl_lel_trans; [apply (skipn_ltl 1 c ltac:(lia) R)|apply path_loop_lel].
Qed.

Lemma use_path_good c : good (fun x : name * file_or_lib * ctx => ltl c (snd x)) (nb c) (use_path c).
Proof.
  unfold use_path. apply (good_bind (fun x : name * ctx => ltl c (snd x)) (nb c)); [apply path_good|trivial|].
  intros [p c1] H. exact H.
Qed.

Lemma from_imports_good : forall f c0 c acc, len c < f -> lel c0 c ->
  good (fun x : list (name * option name) * ctx => lel c0 (snd x)) (nb c0) (from_imports f c acc).
Proof.
  induction f as [|f IH]; intros c0 c acc L Hc; [lia|]. cbn [from_imports].
  destruct (token c) as [n| | | | | |k|] eqn:Tk; try (apply good_raise; exact Hc).
  - assert (R : realb (token c) = true) by (rewrite Tk; reflexivity).
    destruct (skipn_ltl 1 c ltac:(lia) R) as [R1 R2].
    apply (good_bind (fun x : option name * ctx => lel (skip 1 c) (snd x)) (nb c0)).
    + destruct (is_k KAs (skip 1 c)); [|cbn [good snd]; apply lel_refl].
      destruct (token (skip 1 (skip 1 c))); try (eapply good_raise; eapply lel_trans; [exact Hc|];
         eapply lel_trans; apply skip_lel).
      cbn [good snd]. eapply lel_trans; apply skip_lel.
    + trivial.
    + intros [alias c2] H2. cbn [snd] in H2.
      assert (H3 : lel c0 c2) by (eapply lel_trans; [exact Hc|]; eapply lel_trans; [apply skip_lel|exact H2]).
      destruct (token c2) as [| | | | | |k2|]; try (apply good_raise; exact H3).
      destruct k2; try (apply good_raise; exact H3);
        (apply IH; [destruct H2 as [_ X]; pose proof (len_skip_le 1 c); destruct (skip_if_lel KComma c2) as [_ Y]; lia
                   |eapply lel_trans; [exact H3|apply skip_if_lel]]).
  - destruct k; try (apply good_raise; exact Hc); exact Hc.
Qed.

(* the type-variable list `( *A, *B )` *)
Lemma sep_vars_good : forall f old c0 c, len c < f -> lel c0 c ->
  good (fun x : list name * ctx => lel c0 (snd x)) (nb c0) (sep_vars f old c).
Proof.
  induction f as [|f IH]; intros old c0 c L Hc; [lia|]. cbn [sep_vars].
  destruct (is_k KRightParen c).
  { cbn [good snd]. eapply lel_trans; [exact Hc|]. eapply lel_trans; [apply pop_nl_lel|apply skip_lel]. }
  apply (good_bind (fun c1 => c1 = skip 1 c /\ is_k KStar c = true) (nb c0)).
  - apply good_expect. apply nb_of_lel. eapply lel_trans; [exact Hc|apply skip_lel].
  - trivial.
  - intros c1 [-> Hs].
    assert (R : realb (token c) = true) by (apply (is_k_real KStar); exact Hs).
    destruct (skipn_ltl 1 c ltac:(lia) R) as [R1 R2].
    assert (H1 : lel c0 (skip 1 c)) by (eapply lel_trans; [exact Hc|apply skip_lel]).
    destruct (token (skip 1 c)) as [v| | | | | | |]; try (apply good_raise; exact H1).
    assert (H2 : lel c0 (skip 1 (skip 1 c))) by (eapply lel_trans; [exact H1|apply skip_lel]).
    destruct (is_k KRightParen (skip 1 (skip 1 c))).
    { cbn [good snd]. eapply lel_trans; [exact H2|]. eapply lel_trans; [apply pop_nl_lel|apply skip_lel]. }
    apply (good_bind (fun c3 => c3 = skip 1 (skip 1 (skip 1 c)) /\ is_k KComma (skip 1 (skip 1 c)) = true) (nb c0)).
    + apply good_expect. apply nb_of_lel. eapply lel_trans; [exact H2|apply skip_lel].
    + trivial.
    + intros c3 [-> _].
      apply (good_bind (fun x : list name * ctx => lel c0 (snd x)) (nb c0)).
      * apply IH; [pose proof (len_skip_le 1 (skip 1 c)); pose proof (len_skip_le 1 (skip 1 (skip 1 c))); lia|].
        eapply lel_trans; [exact H2|apply skip_lel].
      * trivial.
      * intros [vs c4] H4. exact H4.
Qed.

Lemma paren_vars_good c : good (fun x : list name * ctx => lel c (snd x)) (nb c) (paren_vars c).
Proof.
  unfold paren_vars. destruct (is_k KLeftParen c); [|cbn [good snd]; apply lel_refl].
  destruct (push_nl true (skip 1 c)) as [c1 old] eqn:Ep.
  assert (H1 : lel c c1).
  { replace c1 with (fst (push_nl true (skip 1 c))) by (rewrite Ep; reflexivity).
    eapply lel_trans; [apply skip_lel|apply push_nl_lel]. }
  eapply good_weaken; [apply (sep_vars_good (local_fuel c) old c c1)| |]; trivial.
  destruct H1 as [_ X]. unfold local_fuel, len in *. lia.
Qed.

Section Steps.
Variable T : ptab.

Definition total_ok : Prop :=
  (forall t u, pt_unary T t = Some u -> realb t = true) /\
  (forall t o, pt_bin T t = Some o -> realb t = true) /\
  (forall t, pt_postfix T t = true -> postfix_tok t = true) /\
  (forall t, pt_valid T t = true -> realb t = true).
Hypothesis TOK : total_ok.

(* calls, with what they guarantee *)
Lemma b_call_E M p c :
  6 * sg c + 2 < M ->
  bounded M (fun x : expr * ctx => ltm c (snd x)) (nb c) (call_E (QPrec p c)).
Proof.
  intros Hm. unfold call_E. apply b_call; [exact I|unfold mu; cbn [ctx_of rank]; lia| |].
  - intros o Ho. destruct o; cbn [Post] in Ho; try contradiction. cbn [get_E]. apply b_ok. exact Ho.
  - intros c' es Hc Hes. apply b_reraise; [exact Hc|exact Hes].
Qed.

Lemma b_expression M c :
  6 * sg c + 2 < M -> bounded M (fun x : expr * ctx => ltm c (snd x)) (nb c) (expression T c).
Proof. apply b_call_E. Qed.

Lemma b_call_tail M q (Q : out -> Prop) (E : ctx -> Prop) :
  Pre q -> mu q < M -> (forall o, Post q o -> Q o) -> (forall c, PostE q c -> E c) ->
  bounded M Q E (call q).
Proof.
  intros Hp Hm HQ HE. unfold call. apply b_call; [exact Hp|exact Hm| |].
  - intros o Ho. apply b_ok. apply HQ. exact Ho.
  - intros c es Hc Hes. apply b_reraise; [apply HE; exact Hc|exact Hes].
Qed.

Lemma step_args_ok pr acc c : bounded (mu (QArgs pr acc c)) (Post (QArgs pr acc c)) (PostE (QArgs pr acc c))
  (step_args T pr acc c).
Proof.
  unfold step_args, mu. cbn [ctx_of rank Post PostE].
  assert (D : bounded (6 * sg c + 3) (fun o => match o with REs _ c' => le_ctx c c' | _ => False end)
                      (fun c' => sg c' <= sg c)
    (ptry (expression T c) (fun '(e, c1) => call (QArgs pr (acc ++ [e]) (after_arg c1)))
          (fun c' es => if pr then ok (REs acc c) else reraise c' es))).
  { apply (bounded_ptry _ (fun x : expr * ctx => ltm c (snd x)) (nb c)); [apply b_expression; lia| |].
    - intros [e c1] H. cbn [snd] in H. apply b_call_tail; [exact I| | |].
      + unfold mu. cbn [ctx_of rank]. pose proof (ltm_sg _ _ H). pose proof (le_sg _ _ (after_arg_le c1)). lia.
      + intros o Ho. destruct o; cbn [Post] in Ho; try contradiction. apply ltm_le in H. lec.
      + intros c' Hc. unfold PostE in Hc. cbn [ctx_of] in Hc.
        pose proof (ltm_sg _ _ H). pose proof (le_sg _ _ (after_arg_le c1)). lia.
    - intros c' es Hc Hes. destruct pr; [apply b_ok; apply le_refl|apply b_reraise; assumption]. }
  destruct (token c) as [| | | | | |k|]; try exact D.
  - destruct k; try exact D. apply b_ok. apply le_refl.
  - apply b_ok. apply le_refl.
Qed.

Lemma b_call_gen {A : Type} M q (get : out -> prog A) (Q : A -> Prop) :
  Pre q -> mu q < M -> (forall o, Post q o -> bounded M Q (nb (ctx_of q)) (get o)) ->
  bounded M Q (nb (ctx_of q)) (Call q get reraise).
Proof.
  intros Hp Hm Hk. apply b_call; [exact Hp|exact Hm|exact Hk|].
  intros c es Hc Hes. apply b_reraise; [exact Hc|exact Hes].
Qed.

Lemma b_panic_false {A : Type} M (Q : A -> Prop) E : False -> bounded M Q E panic.
Proof. contradiction. Qed.

(* tactic: a goal [bounded M Q E (let* x := m in k)] with the default re-raise handler *)
Lemma bounded_bind {A B : Type} M (Q' : A -> Prop) (E' : ctx -> Prop) (Q : B -> Prop) (E : ctx -> Prop)
  (m : prog A) (k : A -> prog B) :
  bounded M Q' E' m -> (forall c, E' c -> E c) -> (forall a, Q' a -> bounded M Q E (k a)) ->
  bounded M Q E (ptry m k reraise).
Proof.
  intros H HE Hk. apply (bounded_ptry M Q' E'); [exact H|exact Hk|].
  intros c es Hc Hes. apply b_reraise; [apply HE; exact Hc|exact Hes].
Qed.

Lemma nb_le c c0 c' : sg c0 <= sg c -> nb c0 c' -> nb c c'.
Proof. unfold nb. lia. Qed.

Ltac sgs :=
  repeat match goal with
         | H : ltm _ _ |- _ => let X := fresh in pose proof (ltm_sg _ _ H) as X; apply ltm_le in H
         | H : lt_ctx _ _ |- _ => let X := fresh in pose proof (lt_sg _ _ H) as X; apply lt_le in H
         end;
  repeat match goal with
         | H : le_ctx _ _ |- _ => apply le_sg in H
         end.

(* ---- tuple / list / blob fields ---- *)

Lemma is_k_false_real k c : is_k k c = true -> realb (token c) = true.
Proof. apply is_k_real. Qed.

Lemma step_tuple_ok i acc c : Pre (QTuple i acc c) ->
  bounded (mu (QTuple i acc c)) (Post (QTuple i acc c)) (PostE (QTuple i acc c)) (step_tuple T i acc c).
Proof.
  intros P. unfold step_tuple, mu. cbn [ctx_of rank Post PostE Pre] in *.
  set (d := skip_if KComma c).
  assert (Ld : le_ctx c d) by (apply skip_if_le).
  assert (D : bounded (6 * sg c + 3)
      (fun o => match o with RTup b' es c' => le_ctx c c' /\ tuple_post b' (length es) c' | _ => False end)
      (fun c' => sg c' <= sg c)
      (ptry (expression T d)
         (fun '(e, c1) => let is_tuple' := i || is_k KComma c1 in
            if is_tuple' then if is_k KComma c1 || is_k KRightParen c1
                              then call (QTuple true (acc ++ [e]) (skip_if KComma c1)) else praise c1
            else ok (RTup false (acc ++ [e]) c1)) reraise)).
  { apply (bounded_bind _ (fun x : expr * ctx => ltm d (snd x)) (nb d)).
    - apply b_expression. pose proof (le_sg _ _ Ld). lia.
    - intros c' Hc. unfold nb in *. pose proof (le_sg _ _ Ld). lia.
    - intros [e c1] H. cbn [snd] in H. cbv zeta.
      destruct (i || is_k KComma c1).
      + destruct (is_k KComma c1 || is_k KRightParen c1).
        * apply b_call_tail.
          -- cbn [Pre]. intros _ Hl. rewrite app_length in Hl. cbn in Hl. lia.
          -- unfold mu. cbn [ctx_of rank]. pose proof (le_sg _ _ (skip_if_le KComma c1)). sgs. lia.
          -- intros o Ho. destruct o; cbn [Post] in Ho; try contradiction. destruct Ho as [Ho1 Ho2].
             split; [apply ltm_le in H; lec|exact Ho2].
          -- intros c' Hc. unfold PostE in Hc. cbn [ctx_of] in Hc.
             pose proof (le_sg _ _ (skip_if_le KComma c1)). sgs. lia.
        * apply b_raise. pose proof (le_sg _ _ (skip_le 1 c1)). sgs. lia.
      + apply b_ok. split; [apply ltm_le in H; lec|]. intros _ Hl. rewrite app_length in Hl. cbn in Hl. lia. }
  assert (Stop : bounded (6 * sg c + 3)
      (fun o => match o with RTup b' es c' => le_ctx c c' /\ tuple_post b' (length es) c' | _ => False end)
      (fun c' => sg c' <= sg c) (ok (RTup i acc d)) \/ token d = TK KRightParen /\ i = false /\ acc = []).
  { destruct (Bool.bool_dec i false) as [Hi|Hi]; [|left; apply b_ok; split; [exact Ld|intros X; congruence]].
    destruct acc as [|a acc']; [|left; apply b_ok; split; [exact Ld|intros _ X; discriminate]].
    destruct (is_k KRightParen d) eqn:Ek.
    - right. split; [apply is_k_tok; exact Ek|split; [exact Hi|reflexivity]].
    - left. apply b_ok. split; [exact Ld|intros _ _; exact Ek]. }
  destruct (token d) as [| | | | | |k|] eqn:Tk; try exact D.
  - destruct k; try exact D. destruct Stop as [S0|(Tk' & Hi & Ha)]; [exact S0|].
    (* `(` directly followed by `)` with is_tuple = false: excluded by the precondition *)
    exfalso. destruct (P Hi ltac:(subst acc; reflexivity)) as [Pc Pr].
    unfold d, skip_if in Tk. rewrite Pc in Tk. unfold is_k in Pr. rewrite Tk in Pr. discriminate.
  - destruct Stop as [S0|(Tk' & _)]; [exact S0|congruence].
Qed.

(* ---- helpers phrased with le_ctx chains ---- *)

Lemma nb_mono cq c0 c' : le_ctx cq c0 -> nb c0 c' -> nb cq c'.
Proof. intros H1 H2. unfold nb in *. apply le_sg in H1. lia. Qed.

Lemma b_raise' {A : Type} M (Q : A -> Prop) cq cx : le_ctx cq cx -> bounded M Q (nb cq) (praise cx).
Proof. intros H. apply b_raise. unfold nb. pose proof (le_sg _ _ (skip_le 1 cx)). apply le_sg in H. lia. Qed.

Lemma b_expect' M k cq cx : le_ctx cq cx ->
  bounded M (fun c1 => ltm cx c1 /\ is_k k cx = true) (nb cq) (pexpect k cx).
Proof. intros H. apply b_expect. unfold nb. pose proof (le_sg _ _ (skip_le 1 cx)). apply le_sg in H. lia. Qed.

Lemma mu_lt cq cx r r' : lt_ctx cq cx -> r <= 5 -> 6 * sg cx + r < 6 * sg cq + r'.
Proof. intros H Hr. apply lt_sg in H. lia. Qed.
Lemma mu_le cq cx r r' : le_ctx cq cx -> r < r' -> 6 * sg cx + r < 6 * sg cq + r'.
Proof. intros H Hr. apply le_sg in H. lia. Qed.

Lemma b_call_A M a cq c : le_ctx cq c -> 6 * sg c < M ->
  bounded M (fun x : assignable * ctx => le_ctx c (snd x) /\ (postfix_tok (token c) = true -> lt_ctx c (snd x)))
          (nb cq) (call_A (QSub a c)).
Proof.
  intros Hc Hm. unfold call_A. apply b_call; [exact I|unfold mu; cbn [ctx_of rank]; lia| |].
  - intros o Ho. destruct o; cbn [Post] in Ho; try contradiction. cbn [get_A]. apply b_ok. exact Ho.
  - intros c' es Hc' Hes. apply b_reraise; [|exact Hes]. eapply nb_mono; [exact Hc|exact Hc'].
Qed.

Lemma b_expr M cq c : le_ctx cq c -> 6 * sg c + 2 < M ->
  bounded M (fun x : expr * ctx => ltm c (snd x)) (nb cq) (expression T c).
Proof.
  intros Hc Hm. eapply bounded_weaken; [apply (b_expression M c Hm)|lia|trivial|].
  intros c' H. eapply nb_mono; eauto.
Qed.

Lemma b_prec M p cq c : le_ctx cq c -> 6 * sg c + 2 < M ->
  bounded M (fun x : expr * ctx => ltm c (snd x)) (nb cq) (call_E (QPrec p c)).
Proof.
  intros Hc Hm. eapply bounded_weaken; [apply (b_call_E M p c Hm)|lia|trivial|].
  intros c' H. eapply nb_mono; eauto.
Qed.

Lemma b_parse_type M cq c : le_ctx cq c -> 6 * sg c < M ->
  bounded M (fun x : ty * ctx => lt_ctx c (snd x)) (nb cq) (parse_type c).
Proof.
  intros Hc Hm. unfold parse_type, call_T. apply b_call; [exact I|unfold mu; cbn [ctx_of rank]; lia| |].
  - intros o Ho. destruct o; cbn [Post] in Ho; try contradiction. cbn [get_T]. apply b_ok. exact Ho.
  - intros c' es Hc' Hes. apply b_reraise; [|exact Hes]. eapply nb_mono; [exact Hc|exact Hc'].
Qed.

Lemma b_statement M cq c : le_ctx cq c -> 6 * sg c + 3 < M ->
  bounded M (fun x : stmt * ctx => ltm c (snd x)) (nb cq) (statement c).
Proof.
  intros Hc Hm. unfold statement, call_S. apply b_call; [exact I|unfold mu; cbn [ctx_of rank]; lia| |].
  - intros o Ho. destruct o; cbn [Post] in Ho; try contradiction. cbn [get_S]. apply b_ok. exact Ho.
  - intros c' es Hc' Hes. apply b_reraise; [|exact Hes]. eapply nb_mono; [exact Hc|exact Hc'].
Qed.

Lemma b_block M cq c : le_ctx cq c -> 6 * sg c + 5 < M ->
  bounded M (fun x : list stmt * ctx => le_ctx c (snd x)) (nb cq) (block c).
Proof.
  intros Hc Hm. unfold block, call_Ss.
  pose proof (skip_if_le KDo c) as Hd.
  apply b_call; [exact I| | |].
  - unfold mu. cbn [ctx_of rank]. pose proof (le_sg _ _ Hd). destruct (block_end _); lia.
  - intros o Ho. destruct o; cbn [Post] in Ho; try contradiction. destruct Ho as [_ Ho]. cbn [get_Ss]. apply b_ok. cbn [snd]. lec.
  - intros c' es Hc' Hes. apply b_reraise; [|exact Hes]. unfold PostE in Hc'. cbn [ctx_of] in Hc'.
    unfold nb. apply le_sg in Hc. apply le_sg in Hd. lia.
Qed.

Ltac dpush H :=
  match goal with
  | |- context [push_nl ?b ?c] =>
      let c2 := fresh "cp" in let o := fresh "old" in let E := fresh "Ep" in
      destruct (push_nl b c) as [c2 o] eqn:E;
      assert (H : le_ctx c c2) by (replace c2 with (fst (push_nl b c)) by (rewrite E; reflexivity); apply push_nl_le);
      clear E
  end.

(* ---- list / blob fields ---- *)

Lemma step_list_ok acc c :
  bounded (mu (QList acc c)) (Post (QList acc c)) (PostE (QList acc c)) (step_list T acc c).
Proof.
  unfold step_list, mu. cbn [ctx_of rank Post PostE]. fold (nb c).
  assert (D : bounded (6 * sg c + 3) (fun o => match o with REs _ c' => le_ctx c c' | _ => False end) (nb c)
    (ptry (expression T c)
       (fun '(e, c1) => if is_k KComma c1 || is_k KRightBracket c1
                        then call (QList (acc ++ [e]) (skip_if KComma c1)) else praise c1) reraise)).
  { apply (bounded_bind _ (fun x : expr * ctx => ltm c (snd x)) (nb c)); [apply b_expr; [apply le_refl|lia]|trivial|].
    intros [e c1] H. cbn [snd] in H.
    destruct (is_k KComma c1 || is_k KRightBracket c1).
    - apply b_call_tail; [exact I| | |].
      + unfold mu. cbn [ctx_of rank]. apply mu_lt; [|lia]. eapply lt_le_trans; [apply ltm_lt; exact H|apply skip_if_le].
      + intros o Ho. destruct o; cbn [Post] in Ho; try contradiction. apply ltm_le in H. lec.
      + intros c' Hc. unfold PostE in Hc. cbn [ctx_of] in Hc. unfold nb.
        pose proof (le_sg _ _ (skip_if_le KComma c1)). sgs. lia.
    - apply b_raise'. apply ltm_le. exact H. }
  destruct (token c) as [| | | | | |k|]; try exact D.
  - destruct k; try exact D. apply b_ok. apply le_refl.
  - apply b_ok. apply le_refl.
Qed.

Lemma step_fields_ok acc c :
  bounded (mu (QFields acc c)) (Post (QFields acc c)) (PostE (QFields acc c)) (step_fields T acc c).
Proof.
  unfold step_fields, mu. cbn [ctx_of rank Post PostE]. fold (nb c).
  destruct (token c) as [n| | | | | |k|] eqn:Tk; try (apply b_raise'; apply le_refl).
  - assert (R : realb (token c) = true) by (rewrite Tk; reflexivity).
    pose proof (skip1_ltm c R) as H1.
    apply (bounded_bind _ (fun c1 => ltm (skip 1 c) c1 /\ is_k KColon (skip 1 c) = true) (nb c));
      [apply b_expect'; apply ltm_le; exact H1|trivial|].
    intros c1 [H2 _].
    assert (H3 : lt_ctx c c1) by (eapply lt_le_trans; [apply ltm_lt; exact H1|apply ltm_le; exact H2]).
    apply (bounded_bind _ (fun x : expr * ctx => ltm c1 (snd x)) (nb c));
      [apply b_expr; [apply lt_le; exact H3|apply mu_lt; [exact H3|lia]]|trivial|].
    intros [e c2] H4. cbn [snd] in H4.
    assert (H5 : lt_ctx c c2) by (eapply lt_le_trans; [exact H3|apply ltm_le; exact H4]).
    destruct (is_k KComma c2 || is_k KRightBrace c2).
    + apply b_call_tail; [exact I| | |].
      * unfold mu. cbn [ctx_of rank]. apply mu_lt; [|lia]. eapply lt_le_trans; [exact H5|apply skip_if_le].
      * intros o Ho. destruct o; cbn [Post] in Ho; try contradiction. cbn [Post]. apply lt_le in H5. lec.
      * intros c' Hc. unfold PostE in *. cbn [ctx_of] in *. unfold nb.
        pose proof (le_sg _ _ (skip_if_le KComma c2)). apply lt_sg in H5. lia.
    + apply b_raise'. apply lt_le. exact H5.
  - destruct k; try (apply b_raise'; apply le_refl). apply b_ok. apply le_refl.
  - apply b_ok. apply le_refl.
Qed.

(* ---- sub_assignable ---- *)

Definition SubQ (c : ctx) (o : out) : Prop :=
  match o with RA _ c' => le_ctx c c' /\ (postfix_tok (token c) = true -> lt_ctx c c') | _ => False end.

(* a tail call of sub_assignable from a context strictly after c *)
Lemma b_sub_tail a c c5 : lt_ctx c c5 -> bounded (6 * sg c + 0) (SubQ c) (nb c) (call (QSub a c5)).
Proof.
  intros H. apply b_call_tail; [exact I|unfold mu; cbn [ctx_of rank]; apply mu_lt; [exact H|lia]| |].
  - intros o Ho. destruct o; cbn [Post] in Ho; try contradiction. cbn [SubQ]. destruct Ho as [Ho _].
    assert (lt_ctx c c0) by (eapply lt_le_trans; eauto). split; [apply lt_le; assumption|intros _; assumption].
  - intros c' Hc. unfold PostE in Hc. cbn [ctx_of] in Hc. unfold nb. apply lt_sg in H. lia.
Qed.

Lemma assignable_call_ok a c : token c = TK KPrime \/ token c = TK KLeftParen ->
  bounded (6 * sg c + 0) (SubQ c) (nb c) (assignable_call c a).
Proof.
  intros Tk. unfold assignable_call. cbv zeta.
  assert (R : realb (token c) = true) by (destruct Tk as [-> | ->]; reflexivity).
  pose proof (skip1_ltm c R) as H1.
  destruct (if is_k KPrime c then push_nl (nl (skip 1 c)) (skip 1 c) else push_nl true (skip 1 c)) as [c2 nls] eqn:Ep.
  assert (H2 : le_ctx (skip 1 c) c2).
  { destruct (is_k KPrime c); [replace c2 with (fst (push_nl (nl (skip 1 c)) (skip 1 c))) by (rewrite Ep; reflexivity)
                              |replace c2 with (fst (push_nl true (skip 1 c))) by (rewrite Ep; reflexivity)];
      apply push_nl_le. }
  assert (H3 : lt_ctx c c2) by (eapply lt_le_trans; [apply ltm_lt; exact H1|exact H2]).
  apply (bounded_bind _ (fun x : list expr * ctx => le_ctx c2 (snd x)) (nb c)).
  - unfold call_Es. apply b_call; [exact I|unfold mu; cbn [ctx_of rank]; apply mu_lt; [exact H3|lia]| |].
    + intros o Ho. destruct o; cbn [Post] in Ho; try contradiction. cbn [get_Es]. apply b_ok. exact Ho.
    + intros c' es Hc Hes. apply b_reraise; [|exact Hes]. unfold PostE in Hc. cbn [ctx_of] in Hc. unfold nb.
      apply lt_sg in H3. lia.
  - trivial.
  - intros [args c3] H4. cbn [snd] in H4.
    assert (H5 : lt_ctx c (pop_nl nls c3)) by (eapply lt_le_trans; [exact H3|]; lec).
    apply (bounded_bind _ (fun c5 => lt_ctx c c5) (nb c)).
    + destruct (is_k KPrime c); [apply b_ok; exact H5|].
      eapply bounded_weaken; [apply (b_expect' (6 * sg c + 0) KRightParen c (pop_nl nls c3)); apply lt_le; exact H5|lia| |trivial].
      intros c5 [H6 _]. eapply lt_le_trans; [exact H5|apply ltm_le; exact H6].
    + trivial.
    + intros c5 H6. apply b_sub_tail. exact H6.
Qed.

Lemma assignable_index_ok a c : token c = TK KLeftBracket ->
  bounded (6 * sg c + 0) (SubQ c) (nb c) (assignable_index T c a).
Proof.
  intros Tk. unfold assignable_index.
  assert (R : realb (token c) = true) by (rewrite Tk; reflexivity).
  pose proof (skip1_ltm c R) as H1. dpush H2.
  assert (H3 : lt_ctx c cp) by (eapply lt_le_trans; [apply ltm_lt; exact H1|exact H2]).
  apply (bounded_bind _ (fun x : expr * ctx => ltm cp (snd x)) (nb c));
    [apply b_expr; [apply lt_le; exact H3|apply mu_lt; [exact H3|lia]]|trivial|].
  intros [e c2] H4. cbn [snd] in H4.
  assert (H5 : lt_ctx c (pop_nl old c2)) by (eapply lt_le_trans; [exact H3|]; apply ltm_le in H4; lec).
  destruct e; try (apply b_raise'; apply lt_le; exact H3).
  apply (bounded_bind _ (fun c5 => lt_ctx c c5) (nb c)).
  - eapply bounded_weaken; [apply (b_expect' (6 * sg c + 0) KRightBracket c (pop_nl old c2)); apply lt_le; exact H5|lia| |trivial].
    intros c5 [H6 _]. eapply lt_le_trans; [exact H5|apply ltm_le; exact H6].
  - trivial.
  - intros c5 H6. apply b_sub_tail. exact H6.
Qed.

Lemma assignable_variant_ok a c : token c = TK KDot ->
  bounded (6 * sg c + 0) (SubQ c) (nb c) (assignable_variant T c a).
Proof.
  intros Tk. unfold assignable_variant.
  destruct (match a with ARead n => Some n | AAccess _ n => Some n | _ => None end) as [en|];
    [|apply b_raise'; apply le_refl].
  destruct (negb (is_capitalized en)); [apply b_raise'; apply le_refl|].
  apply (bounded_bind _ (fun c1 => ltm c c1 /\ is_k KDot c = true) (nb c)); [apply b_expect'; apply le_refl|trivial|].
  intros c1 [H1 _].
  destruct (token c1) as [v| | | | | | |] eqn:Tk1; try (apply b_raise'; apply ltm_le; exact H1). cbv zeta.
  assert (R1 : realb (token c1) = true) by (rewrite Tk1; reflexivity).
  pose proof (skip1_ltm c1 R1) as H2.
  assert (H3 : lt_ctx c (skip 1 c1)) by (eapply lt_le_trans; [apply ltm_lt; exact H1|apply ltm_le; exact H2]).
  destruct (negb (is_capitalized v)); [apply b_raise'; apply lt_le; exact H3|].
  apply (bounded_bind _ (fun x : expr * ctx => le_ctx (skip 1 c1) (snd x)) (nb c)).
  - apply (bounded_ptry _ (fun x : expr * ctx => ltm (skip 1 c1) (snd x)) (nb c)).
    + apply b_expr; [apply lt_le; exact H3|apply mu_lt; [exact H3|lia]].
    + intros x Hx. apply b_ok. apply ltm_le. exact Hx.
    + intros c' es _ _. apply b_ok. apply le_refl.
  - trivial.
  - intros [value c3] H4. cbn [snd] in H4. apply b_ok. cbn [SubQ].
    assert (lt_ctx c c3) by (eapply lt_le_trans; eauto). split; [apply lt_le; assumption|intros _; assumption].
Qed.

Lemma assignable_dot_ok a c : token c = TK KDot ->
  bounded (6 * sg c + 0) (SubQ c) (nb c) (assignable_dot c a).
Proof.
  intros Tk. unfold assignable_dot.
  assert (R : realb (token c) = true) by (rewrite Tk; reflexivity).
  pose proof (skip1_ltm c R) as H1.
  destruct (token (skip 1 c)) as [n| | | | | | |] eqn:Tk1; try (apply b_raise'; apply le_refl).
  apply b_sub_tail. eapply lt_le_trans; [apply ltm_lt; exact H1|apply skip_le].
Qed.

Lemma step_sub_ok a c : bounded (mu (QSub a c)) (Post (QSub a c)) (PostE (QSub a c)) (step_sub T a c).
Proof.
  unfold mu. cbn [ctx_of rank]. change (PostE (QSub a c)) with (nb c).
  change (Post (QSub a c)) with (SubQ c). unfold step_sub.
  assert (D : postfix_tok (token c) = false -> bounded (6 * sg c + 0) (SubQ c) (nb c) (ok (RA a c))).
  { intros Hp. apply b_ok. cbn [SubQ]. split; [apply le_refl|]. rewrite Hp. discriminate. }
  destruct (token c) as [| | | | | |k|] eqn:Tk; try (apply D; reflexivity).
  destruct k; try (apply D; reflexivity).
  - apply assignable_call_ok. right. exact Tk.
  - apply assignable_index_ok. exact Tk.
  - apply assignable_call_ok. left. exact Tk.
  - apply (bounded_ptry _ (SubQ c) (nb c)); [apply assignable_variant_ok; exact Tk| |].
    + intros o Ho. apply b_ok. exact Ho.
    + intros c' es _ _. apply assignable_dot_ok. exact Tk.
Qed.

(* ---- prefix ---- *)

Definition PreQ (c : ctx) (o : out) : Prop := match o with RE _ c' => ltm c c' | _ => False end.

Lemma value_ok M c : realb (token c) = true -> bounded M (PreQ c) (nb c) (value c).
Proof.
  intros R. unfold value. pose proof (skip1_ltm c R) as H.
  destruct (token c) as [| | | | | |k|]; try (apply b_raise'; apply ltm_le; exact H); try (apply b_ok; exact H).
  destruct k; try (apply b_raise'; apply ltm_le; exact H). apply b_ok. exact H.
Qed.

Lemma unary_ok c : realb (token c) = true -> bounded (6 * sg c + 2) (PreQ c) (nb c) (unary T c).
Proof.
  intros R. unfold unary. pose proof (skip1_ltm c R) as H.
  apply (bounded_bind _ (fun x : expr * ctx => ltm (skip 1 c) (snd x)) (nb c)).
  - apply b_prec; [apply ltm_le; exact H|apply mu_lt; [apply ltm_lt; exact H|lia]].
  - trivial.
  - intros [e c2] H2. cbn [snd] in H2.
    assert (H3 : ltm c c2) by (eapply ltm_le_trans; [exact H|apply ltm_le; exact H2]).
    destruct (pt_unary T (token c)); [apply b_ok; exact H3|apply b_raise'; apply ltm_le; exact H3].
Qed.

Lemma is_k_pop k b c : is_k k (pop_nl b c) = is_k k c.
Proof. reflexivity. Qed.

Lemma grouping_ok c : token c = TK KLeftParen -> bounded (6 * sg c + 2) (PreQ c) (nb c) (grouping_or_tuple c).
Proof.
  intros Tk. unfold grouping_or_tuple. cbv zeta.
  assert (R : realb (token c) = true) by (rewrite Tk; reflexivity).
  pose proof (skip1_ltm c R) as H1. dpush H2.
  assert (H3 : ltm c cp) by (eapply ltm_le_trans; eauto).
  apply (bounded_bind _ (fun x : bool * list expr * ctx =>
            le_ctx cp (snd x) /\ tuple_post (fst (fst x)) (length (snd (fst x))) (snd x)) (nb c)).
  - unfold call_Tup. apply b_call.
    + cbn [Pre]. intros Hb _. apply orb_false_elim in Hb. exact Hb.
    + unfold mu. cbn [ctx_of rank]. apply mu_lt; [apply ltm_lt; exact H3|lia].
    + intros o Ho. destruct o; cbn [Post] in Ho; try contradiction. cbn [get_Tup]. apply b_ok. exact Ho.
    + intros c' es Hc Hes. apply b_reraise; [|exact Hes]. unfold PostE in Hc. cbn [ctx_of] in Hc. unfold nb.
      apply ltm_sg in H3. lia.
  - trivial.
  - intros [[b' es] c3] [H4 H5]. cbn [fst snd] in *.
    assert (H6 : ltm c (pop_nl old c3)) by (eapply ltm_le_trans; [exact H3|]; lec).
    apply (bounded_bind _ (fun c5 => ltm (pop_nl old c3) c5 /\ is_k KRightParen (pop_nl old c3) = true) (nb c));
      [apply b_expect'; apply ltm_le; exact H6|trivial|].
    intros c5 [H7 H8].
    assert (H9 : ltm c c5) by (eapply ltm_le_trans; [exact H6|apply ltm_le; exact H7]).
    destruct b'; [apply b_ok; exact H9|].
    destruct es as [|e es']; [|apply b_ok; exact H9].
    exfalso. rewrite is_k_pop in H8. rewrite (H5 eq_refl eq_refl) in H8. discriminate.
Qed.

Lemma list_expr_ok c : token c = TK KLeftBracket -> bounded (6 * sg c + 2) (PreQ c) (nb c) (list_expr c).
Proof.
  intros Tk. unfold list_expr.
  assert (R : realb (token c) = true) by (rewrite Tk; reflexivity).
  pose proof (skip1_ltm c R) as H1. dpush H2.
  assert (H3 : ltm c cp) by (eapply ltm_le_trans; eauto).
  apply (bounded_bind _ (fun x : list expr * ctx => le_ctx cp (snd x)) (nb c)).
  - unfold call_Es. apply b_call; [exact I|unfold mu; cbn [ctx_of rank]; apply mu_lt; [apply ltm_lt; exact H3|lia]| |].
    + intros o Ho. destruct o; cbn [Post] in Ho; try contradiction. cbn [get_Es]. apply b_ok. exact Ho.
    + intros c' es Hc Hes. apply b_reraise; [|exact Hes]. unfold PostE in Hc. cbn [ctx_of] in Hc. unfold nb.
      apply ltm_sg in H3. lia.
  - trivial.
  - intros [es c3] H4. cbn [snd] in H4.
    assert (H6 : ltm c (pop_nl old c3)) by (eapply ltm_le_trans; [exact H3|]; lec).
    apply (bounded_bind _ (fun c5 => ltm (pop_nl old c3) c5 /\ is_k KRightBracket (pop_nl old c3) = true) (nb c));
      [apply b_expect'; apply ltm_le; exact H6|trivial|].
    intros c5 [H7 _]. apply b_ok. eapply ltm_le_trans; [exact H6|apply ltm_le; exact H7].
Qed.

Lemma ltl_ltm a b : ltl a b -> ltm a b.
Proof. intros [H _]. exact H. Qed.

Lemma blob_ok c : bounded (6 * sg c + 2) (PreQ c) (nb c) (blob c).
Proof.
  unfold blob.
  apply (bounded_bind _ (fun x : tyass * ctx => ltl c (snd x)) (nb c)); [apply b_ret; apply ta_good|trivial|].
  intros [b0 c1] H1. cbn [snd] in H1. apply ltl_ltm in H1.
  apply (bounded_bind _ (fun c2 => ltm c1 c2 /\ is_k KLeftBrace c1 = true) (nb c));
    [apply b_expect'; apply ltm_le; exact H1|trivial|].
  intros c2 [H2 _]. dpush H3.
  assert (H4 : ltm c cp) by (eapply ltm_le_trans; [exact H1|]; apply ltm_le in H2; lec).
  apply (bounded_bind _ (fun x : list (name * expr) * ctx => le_ctx cp (snd x)) (nb c)).
  - unfold call_Fs. apply b_call; [exact I|unfold mu; cbn [ctx_of rank]; apply mu_lt; [apply ltm_lt; exact H4|lia]| |].
    + intros o Ho. destruct o; cbn [Post] in Ho; try contradiction. cbn [get_Fs]. apply b_ok. exact Ho.
    + intros c' es Hc Hes. apply b_reraise; [|exact Hes]. unfold PostE in Hc. cbn [ctx_of] in Hc. unfold nb.
      apply ltm_sg in H4. lia.
  - trivial.
  - intros [fs c4] H5. cbn [snd] in H5.
    assert (H6 : ltm c (pop_nl old c4)) by (eapply ltm_le_trans; [exact H4|]; lec).
    apply (bounded_bind _ (fun c6 => ltm (pop_nl old c4) c6 /\ is_k KRightBrace (pop_nl old c4) = true) (nb c));
      [apply b_expect'; apply ltm_le; exact H6|trivial|].
    intros c6 [H7 _].
    assert (H8 : ltm c c6) by (eapply ltm_le_trans; [exact H6|apply ltm_le; exact H7]).
    destruct (is_k KElse c6); [apply b_raise'; apply ltm_le; exact H8|apply b_ok; exact H8].
Qed.

Lemma b_call_le {A : Type} M q (get : out -> prog A) (Q : A -> Prop) cq :
  Pre q -> mu q < M -> le_ctx cq (ctx_of q) -> (forall o, Post q o -> bounded M Q (nb cq) (get o)) ->
  bounded M Q (nb cq) (Call q get reraise).
Proof.
  intros Hp Hm Hc Hk. apply b_call; [exact Hp|exact Hm|exact Hk|].
  intros c es Hc' Hes. apply b_reraise; [|exact Hes]. eapply nb_mono; [exact Hc|exact Hc'].
Qed.

Lemma if_expression_ok c : token c = TK KIf -> bounded (6 * sg c + 2) (PreQ c) (nb c) (if_expression T c).
Proof.
  intros Tk. unfold if_expression.
  assert (R : realb (token c) = true) by (rewrite Tk; reflexivity).
  pose proof (skip1_ltm c R) as H1. dpush H2.
  assert (H3 : ltm c cp) by (eapply ltm_le_trans; eauto).
  apply (bounded_bind _ (fun x : expr * ctx => ltm cp (snd x)) (nb c));
    [apply b_expr; [apply ltm_le; exact H3|apply mu_lt; [apply ltm_lt; exact H3|lia]]|trivial|].
  intros [cond c3] H4. cbn [snd] in H4.
  assert (H5 : ltm c (pop_nl old c3)) by (eapply ltm_le_trans; [exact H3|]; apply ltm_le in H4; lec).
  destruct (is_k KDo (pop_nl old c3)); [|apply b_raise'; apply ltm_le; exact H5].
  set (c5 := pop_nl old c3) in *.
  assert (H7 : ltm c c5) by exact H5.
  apply (bounded_bind _ (fun x : list stmt * ctx => le_ctx c5 (snd x)) (nb c));
    [apply b_block; [apply ltm_le; exact H7|apply mu_lt; [apply ltm_lt; exact H7|lia]]|trivial|].
  intros [body c6] H8. cbn [snd] in H8.
  assert (H9 : ltm c c6) by (eapply ltm_le_trans; eauto).
  apply (bounded_bind _ (fun x : list ifbranch * ctx => le_ctx c6 (snd x)) (nb c)).
  - unfold call_Ifs. apply b_call_le; [exact I|unfold mu; cbn [ctx_of rank]; apply mu_lt; [apply ltm_lt; exact H9|lia]
                                     |apply ltm_le; exact H9|].
    intros o Ho. destruct o; cbn [Post] in Ho; try contradiction. cbn [get_Ifs]. apply b_ok. exact Ho.
  - trivial.
  - intros [bs c7] H10. cbn [snd] in H10. apply b_ok. eapply ltm_le_trans; eauto.
Qed.

Lemma case_expression_ok c : bounded (6 * sg c + 2) (PreQ c) (nb c) (case_expression T c).
Proof.
  unfold case_expression. dpush H1.
  apply (bounded_bind _ (fun c2 => ltm cp c2 /\ is_k KCase cp = true) (nb c)); [apply b_expect'; exact H1|trivial|].
  intros c2 [H2 _].
  assert (H3 : ltm c c2) by (eapply le_ltm_trans; eauto).
  apply (bounded_bind _ (fun x : expr * ctx => ltm c2 (snd x)) (nb c));
    [apply b_expr; [apply ltm_le; exact H3|apply mu_lt; [apply ltm_lt; exact H3|lia]]|trivial|].
  intros [m c3] H4. cbn [snd] in H4.
  assert (H5 : ltm c c3) by (eapply ltm_le_trans; [exact H3|apply ltm_le; exact H4]).
  apply (bounded_bind _ (fun c4 => ltm c3 c4 /\ is_k KDo c3 = true) (nb c));
    [apply b_expect'; apply ltm_le; exact H5|trivial|].
  intros c4 [H6 _].
  assert (H7 : ltm c c4) by (eapply ltm_le_trans; [exact H5|apply ltm_le; exact H6]).
  apply (bounded_bind _ (fun x : list casebranch * ctx => le_ctx c4 (snd x)) (nb c)).
  - unfold call_Cases. apply b_call_le; [exact I|unfold mu; cbn [ctx_of rank]; apply mu_lt; [apply ltm_lt; exact H7|lia]
                                       |apply ltm_le; exact H7|].
    intros o Ho. destruct o; cbn [Post] in Ho; try contradiction. cbn [get_Cases]. apply b_ok. exact Ho.
  - trivial.
  - intros [bs c5] H8. cbn [snd] in H8.
    assert (H9 : ltm c c5) by (eapply ltm_le_trans; eauto).
    apply (bounded_bind _ (fun x : option (list stmt) * ctx => le_ctx c5 (snd x)) (nb c)).
    + destruct (is_k KElse c5) eqn:Ee; [|apply b_ok; apply le_refl].
      assert (Re : realb (token c5) = true) by (apply (is_k_real KElse); exact Ee).
      pose proof (skip1_ltm c5 Re) as H10.
      apply (bounded_bind _ (fun x : list stmt * ctx => le_ctx (skip 1 c5) (snd x)) (nb c)).
      * apply b_block; [apply ltm_le; eapply ltm_le_trans; [exact H9|apply ltm_le; exact H10]|].
        apply mu_lt; [|lia]. eapply lt_le_trans; [apply ltm_lt; exact H9|apply ltm_le; exact H10].
      * trivial.
      * intros [b0 c'] Hb. cbn [snd] in Hb. apply b_ok. cbn [snd]. apply ltm_le in H10. lec.
    + trivial.
    + intros [ft c6] H11. cbn [snd] in H11.
      assert (H12 : ltm c (pop_nl old c6)) by (eapply ltm_le_trans; [exact H9|]; lec).
      apply (bounded_bind _ (fun c8 => ltm (pop_nl old c6) c8 /\ is_k KEnd (pop_nl old c6) = true) (nb c));
        [apply b_expect'; apply ltm_le; exact H12|trivial|].
      intros c8 [H13 _]. apply b_ok. eapply ltm_le_trans; [exact H12|apply ltm_le; exact H13].
Qed.

Lemma function_ok c : realb (token c) = true -> bounded (6 * sg c + 2) (PreQ c) (nb c) (function c).
Proof.
  intros R. unfold function. cbv zeta. pose proof (skip1_ltm c R) as H1.
  apply (bounded_bind _ (fun x : list (name * ty) * ty * ctx => le_ctx (skip 1 c) (snd x)) (nb c)).
  - unfold call_Params. apply b_call_le; [exact I|unfold mu; cbn [ctx_of rank]; apply mu_lt; [apply ltm_lt; exact H1|lia]
                                        |apply ltm_le; exact H1|].
    intros o Ho. destruct o; cbn [Post] in Ho; try contradiction. cbn [get_Params]. apply b_ok. exact Ho.
  - trivial.
  - intros [[ps r] c2] H2. cbn [snd] in H2.
    assert (H3 : ltm c c2) by (eapply ltm_le_trans; eauto).
    apply (bounded_bind _ (fun x : list stmt * ctx => le_ctx c2 (snd x)) (nb c));
      [apply b_block; [apply ltm_le; exact H3|apply mu_lt; [apply ltm_lt; exact H3|lia]]|trivial|].
    intros [body c3] H4. cbn [snd] in H4. apply b_ok. eapply ltm_le_trans; eauto.
Qed.

Lemma b_tail_le M q (Q : out -> Prop) cq :
  Pre q -> mu q < M -> le_ctx cq (ctx_of q) -> (forall o, Post q o -> Q o) -> bounded M Q (nb cq) (call q).
Proof.
  intros Hp Hm Hc HQ. apply b_call_tail; [exact Hp|exact Hm|exact HQ|].
  intros c Hc'. eapply nb_mono; [exact Hc|exact Hc'].
Qed.

Lemma step_elifs_ok acc c :
  bounded (mu (QElifs acc c)) (Post (QElifs acc c)) (PostE (QElifs acc c)) (step_elifs T acc c).
Proof.
  unfold step_elifs, mu. cbn [ctx_of rank Post PostE]. fold (nb c).
  destruct (is_k KElif c) eqn:E1.
  - assert (R : realb (token c) = true) by (apply (is_k_real KElif); exact E1).
    pose proof (skip1_ltm c R) as H1. dpush H2.
    assert (H3 : ltm c cp) by (eapply ltm_le_trans; eauto).
    apply (bounded_bind _ (fun x : expr * ctx => ltm cp (snd x)) (nb c));
      [apply b_expr; [apply ltm_le; exact H3|apply mu_lt; [apply ltm_lt; exact H3|lia]]|trivial|].
    intros [cond c3] H4. cbn [snd] in H4.
    assert (H5 : ltm c (pop_nl old c3)) by (eapply ltm_le_trans; [exact H3|]; apply ltm_le in H4; lec).
    destruct (is_k KDo (pop_nl old c3)); [|apply b_raise'; apply ltm_le; exact H5].
    set (c5 := pop_nl old c3) in *.
    assert (H7 : ltm c c5) by exact H5.
    apply (bounded_bind _ (fun x : list stmt * ctx => le_ctx c5 (snd x)) (nb c));
      [apply b_block; [apply ltm_le; exact H7|apply mu_lt; [apply ltm_lt; exact H7|lia]]|trivial|].
    intros [body c6] H8. cbn [snd] in H8.
    assert (H9 : ltm c c6) by (eapply ltm_le_trans; eauto).
    apply b_tail_le; [exact I|unfold mu; cbn [ctx_of rank]; apply mu_lt; [apply ltm_lt; exact H9|lia]
                     |apply ltm_le; exact H9|].
    intros o Ho. destruct o; cbn [Post] in Ho; try contradiction; cbn [Post]; cbn beta iota. apply ltm_le in H9. lec.
  - destruct (is_k KElse c) eqn:E2; [|apply b_ok; apply le_refl].
    dpush H0.
    apply (bounded_bind _ (fun c1 => ltm cp c1 /\ is_k KElse cp = true) (nb c)); [apply b_expect'; exact H0|trivial|].
    intros c1 [H1 _].
    assert (H2 : ltm c (pop_nl old c1)) by (eapply le_ltm_trans; [exact H0|]; eapply ltm_le_trans; [exact H1|apply pop_nl_le]).
    apply (bounded_bind _ (fun x : list stmt * ctx => le_ctx (pop_nl old c1) (snd x)) (nb c));
      [apply b_block; [apply ltm_le; exact H2|apply mu_lt; [apply ltm_lt; exact H2|lia]]|trivial|].
    intros [body c2] H3. cbn [snd] in H3. apply b_ok. apply ltm_le in H2. lec.
Qed.

Lemma step_cases_ok acc c :
  bounded (mu (QCases acc c)) (Post (QCases acc c)) (PostE (QCases acc c)) (step_cases acc c).
Proof.
  unfold step_cases, mu. cbn [ctx_of rank Post PostE]. fold (nb c).
  destruct (token c) as [n| | | | | |k|] eqn:Tk; try (apply b_raise'; apply le_refl).
  - destruct (is_capitalized n); [|apply b_raise'; apply le_refl].
    assert (R : realb (token c) = true) by (rewrite Tk; reflexivity).
    pose proof (skip1_ltm c R) as H1.
    apply (bounded_bind _ (fun x : option name * ctx => le_ctx (skip 1 c) (snd x)) (nb c)).
    + destruct (token (skip 1 c)) as [v| | | | | |k|]; try (apply b_ok; apply le_refl).
      destruct (negb (is_capitalized v)); [apply b_ok; apply skip_le|apply b_raise'; apply ltm_le; exact H1].
    + trivial.
    + intros [var c2] H2. cbn [snd] in H2.
      assert (H3 : ltm c c2) by (eapply ltm_le_trans; eauto).
      apply (bounded_bind _ (fun c3 => ltm c2 c3 /\ is_k KArrow c2 = true) (nb c));
        [apply b_expect'; apply ltm_le; exact H3|trivial|].
      intros c3 [H4 _].
      assert (H5 : ltm c c3) by (eapply ltm_le_trans; [exact H3|apply ltm_le; exact H4]).
      apply (bounded_bind _ (fun x : list stmt * ctx => le_ctx c3 (snd x)) (nb c));
        [apply b_block; [apply ltm_le; exact H5|apply mu_lt; [apply ltm_lt; exact H5|lia]]|trivial|].
      intros [body c4] H6. cbn [snd] in H6.
      assert (H7 : ltm c c4) by (eapply ltm_le_trans; eauto).
      apply b_tail_le; [exact I|unfold mu; cbn [ctx_of rank]; apply mu_lt; [apply ltm_lt; exact H7|lia]
                       |apply ltm_le; exact H7|].
      intros o Ho. destruct o; cbn [Post] in Ho; try contradiction; cbn [Post]; cbn beta iota. apply ltm_le in H7. lec.
  - destruct k; try (apply b_raise'; apply le_refl); try (apply b_ok; apply le_refl).
    assert (R : realb (token c) = true) by (rewrite Tk; reflexivity).
    pose proof (skip1_ltm c R) as H1.
    apply b_tail_le; [exact I|unfold mu; cbn [ctx_of rank]; apply mu_lt; [apply ltm_lt; exact H1|lia]
                     |apply ltm_le; exact H1|].
    intros o Ho. destruct o; cbn [Post] in Ho; try contradiction; cbn [Post]; cbn beta iota. apply ltm_le in H1. lec.
  - apply b_ok. apply le_refl.
Qed.

Lemma step_params_ok acc c :
  bounded (mu (QParams acc c)) (Post (QParams acc c)) (PostE (QParams acc c)) (step_params acc c).
Proof.
  unfold step_params, mu. cbn [ctx_of rank Post PostE]. fold (nb c).
  destruct (token c) as [n| | | | | |k|] eqn:Tk; try (apply b_raise'; apply le_refl).
  - destruct (name_eqb n self_name); [apply b_raise'; apply le_refl|].
    assert (R : realb (token c) = true) by (rewrite Tk; reflexivity).
    pose proof (skip1_ltm c R) as H1.
    apply (bounded_bind _ (fun x : ty * ctx => le_ctx (skip 1 c) (snd x)) (nb c)).
    + destruct (is_k KColon (skip 1 c)); [|apply b_ok; apply le_refl].
      assert (H2 : lt_ctx c (skip 1 (skip 1 c))) by (eapply lt_le_trans; [apply ltm_lt; exact H1|apply skip_le]).
      eapply bounded_weaken; [apply (b_parse_type (6 * sg c + 0) c (skip 1 (skip 1 c)));
                              [apply lt_le; exact H2|pose proof (lt_sg _ _ H2); lia]|lia| |trivial].
      intros [t0 c2] H3. cbn [snd] in *. apply lt_le in H3. pose proof (skip_le 1 (skip 1 c)). lec.
    + trivial.
    + intros [t0 c2] H2. cbn [snd] in H2.
      assert (H3 : ltm c c2) by (eapply ltm_le_trans; eauto).
      destruct (is_k KComma c2 || is_k KDo c2 || is_k KArrow c2); [|apply b_raise'; apply ltm_le; exact H3].
      assert (H4 : ltm c (skip_if KComma c2)) by (eapply ltm_le_trans; [exact H3|apply skip_if_le]).
      apply b_tail_le; [exact I|unfold mu; cbn [ctx_of rank]; apply mu_lt; [apply ltm_lt; exact H4|lia]
                       |apply ltm_le; exact H4|].
      intros o Ho. destruct o; cbn [Post] in Ho; try contradiction; cbn [Post]; cbn beta iota. apply ltm_le in H4. lec.
  - destruct k; try (apply b_raise'; apply le_refl); try (apply b_ok; apply le_refl).
    assert (R : realb (token c) = true) by (rewrite Tk; reflexivity).
    pose proof (skip1_ltm c R) as H1.
    apply (bounded_ptry _ (fun x : ty * ctx => lt_ctx (skip 1 c) (snd x)) (nb c)).
    + apply b_parse_type; [apply ltm_le; exact H1|pose proof (ltm_sg _ _ H1); lia].
    + intros [t0 c2] H2. cbn [snd] in H2. apply b_ok. apply ltm_le in H1. apply lt_le in H2. lec.
    + intros c' es _ _. apply b_ok. apply ltm_le. exact H1.
Qed.

Lemma assignable_p_ok M cq c : le_ctx cq c -> 6 * sg c <= M ->
  bounded M (fun x : assignable * ctx => ltm c (snd x)) (nb cq) (assignable_p c).
Proof.
  intros Hc Hm. unfold assignable_p.
  destruct (token c) as [n| | | | | |k|] eqn:Tk; try (apply b_raise'; exact Hc).
  assert (R : realb (token c) = true) by (rewrite Tk; reflexivity).
  pose proof (skip1_ltm c R) as H1.
  eapply bounded_weaken; [apply (b_call_A M (ARead n) cq (skip 1 c))|apply Nat.le_refl| |trivial].
  - apply ltm_le in H1. lec.
  - apply ltm_sg in H1. lia.
  - intros [a c2] [H2 _]. cbn [snd] in *. eapply ltm_le_trans; eauto.
Qed.

Lemma prefix_ok c : bounded (6 * sg c + 2) (PreQ c) (nb c) (prefix T c).
Proof.
  unfold prefix.
  assert (D : forall t, token c = t -> bounded (6 * sg c + 2) (PreQ c) (nb c)
                (match pt_unary T t with Some _ => unary T c | None => praise c end)).
  { intros t Ht. destruct (pt_unary T t) eqn:U; [|apply b_raise'; apply le_refl].
    apply unary_ok. rewrite Ht. destruct TOK as (Hu & _). eapply Hu. exact U. }
  destruct (token c) as [n| | | | | |k|] eqn:Tk; try (apply D; reflexivity);
    try (apply value_ok; rewrite Tk; reflexivity).
  - pose proof (ta_good c) as G.
    destruct (type_assignable c) as [[b0 c1]|c' es| |]; cbn [good] in G; try contradiction.
    + destruct (is_k KLeftBrace c1).
      * apply (bounded_ptry _ (PreQ c) (nb c)); [apply blob_ok|intros o Ho; apply b_ok; exact Ho|].
        intros c2 es Hc Hes. apply b_ret. cbn [good]. split; [|exact Hes].
        unfold nb in *. pose proof (le_sg _ _ (skip_until_le KRightBrace c2)). lia.
      * apply (bounded_bind _ (fun x : assignable * ctx => ltm c (snd x)) (nb c));
          [apply assignable_p_ok; [apply le_refl|lia]|trivial|].
        intros [a c2] H. apply b_ok. exact H.
    + apply (bounded_bind _ (fun x : assignable * ctx => ltm c (snd x)) (nb c));
        [apply assignable_p_ok; [apply le_refl|lia]|trivial|].
      intros [a c2] H. apply b_ok. exact H.
  - destruct k;
      first [apply D; reflexivity
            |apply function_ok; rewrite Tk; reflexivity
            |apply if_expression_ok; exact Tk
            |apply case_expression_ok
            |apply grouping_ok; exact Tk
            |apply list_expr_ok; exact Tk
            |apply value_ok; rewrite Tk; reflexivity].
Qed.

Lemma step_prec_ok p c : bounded (mu (QPrec p c)) (Post (QPrec p c)) (PostE (QPrec p c)) (step_prec T p c).
Proof.
  unfold step_prec, mu. cbn [ctx_of rank Post PostE]. fold (nb c).
  apply (bounded_bind _ (fun x : expr * ctx => ltm c (snd x)) (nb c)); [|trivial|].
  - apply (bounded_bind _ (PreQ c) (nb c)); [apply prefix_ok|trivial|].
    intros o Ho. destruct o; cbn [PreQ] in Ho; try contradiction. cbn [get_E]. apply b_ok. exact Ho.
  - intros [e c1] H. cbn [snd] in H.
    apply b_tail_le; [exact I|unfold mu; cbn [ctx_of rank]; apply mu_lt; [apply ltm_lt; exact H|lia]
                     |apply ltm_le; exact H|].
    intros o Ho. destruct o; cbn [Post] in Ho; try contradiction; cbn [Post]; cbn beta iota.
    eapply ltm_le_trans; eauto.
Qed.

Definition InfQ (c : ctx) (o : out) : Prop := match o with RE _ c' => lt_ctx c c' | _ => False end.

Lemma arrow_call_ok c lhs : bounded (6 * sg c + 1) (InfQ c) (nb c) (arrow_call T c lhs).
Proof.
  unfold arrow_call.
  apply (bounded_bind _ (fun c1 => ltm c c1 /\ is_k KArrow c = true) (nb c));
    [apply b_expect'; apply le_refl|trivial|].
  intros c1 [H1 _].
  apply (bounded_bind _ (fun x : expr * ctx => ltm c1 (snd x)) (nb c));
    [apply b_expr; [apply ltm_le; exact H1|apply mu_lt; [apply ltm_lt; exact H1|lia]]|trivial|].
  intros [rhs c2] H2. cbn [snd] in H2.
  assert (H3 : ltm c c2) by (eapply ltm_le_trans; [exact H1|apply ltm_le; exact H2]).
  destruct (prepend lhs rhs); [apply b_ok; apply ltm_lt; exact H3|apply b_raise'; apply ltm_le; exact H3].
Qed.

Lemma infix_ok c lhs : realb (token c) = true -> bounded (6 * sg c + 1) (InfQ c) (nb c) (infix T c lhs).
Proof.
  intros R. unfold infix. cbv zeta.
  destruct (tok_is KArrow (token c)); [apply arrow_call_ok|].
  destruct TOK as (_ & Hb & Hp & _).
  destruct (pt_postfix T (token c)) eqn:Pf.
  - apply (bounded_bind _ (fun x : assignable * ctx => le_ctx c (snd x) /\ (postfix_tok (token c) = true -> lt_ctx c (snd x)))
                        (nb c)); [apply b_call_A; [apply le_refl|lia]|trivial|].
    intros [a c1] [_ H]. cbn [snd] in H. apply b_ok. apply H. apply Hp. exact Pf.
  - pose proof (skip1_ltm c R) as H1.
    destruct (pt_bin T (token c)) as [o|].
    + apply (bounded_bind _ (fun x : expr * ctx => ltm (skip 1 c) (snd x)) (nb c));
        [apply b_prec; [apply ltm_le; exact H1|apply mu_lt; [apply ltm_lt; exact H1|lia]]|trivial|].
      intros [rhs c2] H2. cbn [snd] in H2. apply b_ok. cbn [InfQ].
      eapply lt_le_trans; [apply ltm_lt; exact H1|apply ltm_le; exact H2].
    + destruct H1 as [Hs (l & Hl & Hm)].
      destruct (prev_some (skip 1 c) l (pre c) Hl Hm) as [cp Ep]. rewrite Ep.
      destruct (prev_facts (skip 1 c) l (pre c) cp Hl Hm Ep) as [_ Hsg].
      apply b_raise. unfold nb. pose proof (le_sg _ _ (skip_le 1 cp)). lia.
Qed.

Lemma step_loop_ok p lhs c :
  bounded (mu (QLoop p lhs c)) (Post (QLoop p lhs c)) (PostE (QLoop p lhs c)) (step_loop T p lhs c).
Proof.
  unfold step_loop, mu. cbn [ctx_of rank Post PostE]. fold (nb c).
  destruct ((p <=? pt_prec T (token c)) && pt_valid T (token c)) eqn:G; [|apply b_ok; apply le_refl].
  apply andb_prop in G. destruct G as [_ V].
  assert (R : realb (token c) = true) by (destruct TOK as (_ & _ & _ & Hv); apply Hv; exact V).
  apply (bounded_bind _ (fun x : expr * ctx => lt_ctx c (snd x)) (nb c)); [|trivial|].
  - apply (bounded_bind _ (InfQ c) (nb c)); [apply infix_ok; exact R|trivial|].
    intros o Ho. destruct o; cbn [InfQ] in Ho; try contradiction. cbn [get_E]. apply b_ok. exact Ho.
  - intros [e c1] H. cbn [snd] in H.
    apply b_tail_le; [exact I|unfold mu; cbn [ctx_of rank]; apply mu_lt; [exact H|lia]|apply lt_le; exact H|].
    intros o Ho. destruct o; cbn [Post] in Ho; try contradiction; cbn [Post]; cbn beta iota. apply lt_le in H. lec.
Qed.

(* ---- types ---- *)

Definition TyQ (c : ctx) (o : out) : Prop := match o with RT _ c' => lt_ctx c c' | _ => False end.

Lemma paren_types_ok M cq c : lt_ctx cq c -> 6 * sg cq <= M ->
  bounded M (fun x : list ty * ctx => le_ctx c (snd x)) (nb cq) (paren_types c).
Proof.
  intros Hc Hm. unfold paren_types. destruct (is_k KLeftParen c); [|apply b_ok; apply le_refl].
  dpush H1.
  assert (H2 : lt_ctx cq cp) by (eapply lt_le_trans; [exact Hc|]; pose proof (skip_le 1 c); lec).
  unfold call_Ts. apply b_call_le; [exact I|unfold mu; cbn [ctx_of rank]; apply lt_sg in H2; lia|apply lt_le; exact H2|].
  intros o Ho. destruct o; cbn [Post] in Ho; try contradiction. cbn [get_Ts]. apply b_ok. cbn [snd].
  pose proof (skip_le 1 c). lec.
Qed.

Lemma step_type_ok c : bounded (mu (QType c)) (Post (QType c)) (PostE (QType c)) (step_type c).
Proof.
  unfold step_type, mu. cbn [ctx_of rank PostE]. fold (nb c). change (Post (QType c)) with (TyQ c).
  destruct (token c) as [n| | | | | |k|] eqn:Tk; try (apply b_raise'; apply le_refl).
  - apply (bounded_bind _ (fun x : tyass * ctx => ltl c (snd x)) (nb c)); [apply b_ret; apply ta_good|trivial|].
    intros [a c1] H1. cbn [snd] in H1. apply ltl_ltm in H1.
    apply (bounded_bind _ (fun x : list ty * ctx => le_ctx c1 (snd x)) (nb c));
      [apply paren_types_ok; [apply ltm_lt; exact H1|lia]|trivial|].
    intros [args c2] H2. cbn [snd] in H2. apply b_ok. eapply lt_le_trans; [apply ltm_lt; exact H1|exact H2].
  - assert (R : realb (token c) = true) by (rewrite Tk; reflexivity).
    pose proof (skip1_ltm c R) as H1.
    destruct k; try (apply b_raise'; apply le_refl); try (apply b_ok; apply ltm_lt; exact H1).
    + (* star *)
      destruct (token (skip 1 c)); try (apply b_ok; apply ltm_lt; exact H1).
      apply b_ok. eapply lt_le_trans; [apply ltm_lt; exact H1|apply skip_le].
    + (* ( *)
      dpush H2. cbv zeta.
      assert (H3 : ltm c cp) by (eapply ltm_le_trans; eauto).
      apply (bounded_bind _ (fun x : bool * list ty * ctx =>
            le_ctx cp (snd x) /\ tuple_post (fst (fst x)) (length (snd (fst x))) (snd x)) (nb c)).
      * unfold call_TyTup. apply b_call_le.
        -- cbn [Pre]. intros Hb _. apply orb_false_elim in Hb. exact Hb.
        -- unfold mu. cbn [ctx_of rank]. apply ltm_sg in H3. lia.
        -- apply ltm_le. exact H3.
        -- intros o Ho. destruct o; cbn [Post] in Ho; try contradiction. cbn [get_TyTup]. apply b_ok. exact Ho.
      * trivial.
      * intros [[b' ts] c3] [H4 H5]. cbn [fst snd] in *.
        assert (H6 : ltm c (pop_nl old c3)) by (eapply ltm_le_trans; [exact H3|]; lec).
        apply (bounded_bind _ (fun c5 => ltm (pop_nl old c3) c5 /\ is_k KRightParen (pop_nl old c3) = true) (nb c));
          [apply b_expect'; apply ltm_le; exact H6|trivial|].
        intros c5 [H7 H8].
        assert (H9 : lt_ctx c c5) by (apply ltm_lt; eapply ltm_le_trans; [exact H6|apply ltm_le; exact H7]).
        destruct b'; [apply b_ok; exact H9|].
        destruct ts as [|t0 ts']; [|apply b_ok; exact H9].
        exfalso. rewrite is_k_pop in H8. rewrite (H5 eq_refl eq_refl) in H8. discriminate.
    + (* [ *)
      dpush H2.
      assert (H3 : ltm c cp) by (eapply ltm_le_trans; eauto).
      apply (bounded_bind _ (fun x : ty * ctx => lt_ctx cp (snd x)) (nb c));
        [apply b_parse_type; [apply ltm_le; exact H3|apply ltm_sg in H3; lia]|trivial|].
      intros [t0 c1] H4. cbn [snd] in H4.
      assert (H5 : ltm c (pop_nl old c1)) by (eapply ltm_le_trans; [exact H3|]; apply lt_le in H4; lec).
      apply (bounded_bind _ (fun c5 => ltm (pop_nl old c1) c5 /\ is_k KRightBracket (pop_nl old c1) = true) (nb c));
        [apply b_expect'; apply ltm_le; exact H5|trivial|].
      intros c5 [H7 _]. apply b_ok. apply ltm_lt. eapply ltm_le_trans; [exact H5|apply ltm_le; exact H7].
    + (* fn *)
      cbv zeta.
      apply (bounded_bind _ (fun x : consmap * ctx => lel (skip 1 c) (snd x)) (nb c)).
      * apply b_ret. destruct (is_k KLess (skip 1 c)); [|cbn [good snd]; apply lel_refl].
        eapply good_weaken; [apply (constraints_outer_good (local_fuel (skip 1 c)) (skip 1 c) (skip 1 (skip 1 c)))| |].
        -- pose proof (len_skip_le 1 (skip 1 c)). unfold local_fuel, len in *. lia.
        -- apply skip_lel.
        -- intros x Hx. apply ltl_lel. exact Hx.
        -- intros c' Hc'. unfold nb in *. pose proof (le_sg _ _ (skip_le 1 c)). lia.
      * trivial.
      * intros [cs c2] [H2 _]. cbn [snd] in H2.
        assert (H3 : ltm c c2) by (eapply ltm_le_trans; eauto).
        apply (bounded_bind _ (fun x : list ty * ty * ctx => le_ctx c2 (snd x)) (nb c)).
        -- unfold call_FnTy. apply b_call_le; [exact I|unfold mu; cbn [ctx_of rank]; apply ltm_sg in H3; lia
                                              |apply ltm_le; exact H3|].
           intros o Ho. destruct o; cbn [Post] in Ho; try contradiction. cbn [get_FnTy]. apply b_ok. exact Ho.
        -- trivial.
        -- intros [[ps r] c3] H4. cbn [snd] in H4. apply b_ok. apply ltm_lt. eapply ltm_le_trans; eauto.
    + (* pu *)
      cbv zeta.
      apply (bounded_bind _ (fun x : consmap * ctx => lel (skip 1 c) (snd x)) (nb c)).
      * apply b_ret. destruct (is_k KLess (skip 1 c)); [|cbn [good snd]; apply lel_refl].
        eapply good_weaken; [apply (constraints_outer_good (local_fuel (skip 1 c)) (skip 1 c) (skip 1 (skip 1 c)))| |].
        -- pose proof (len_skip_le 1 (skip 1 c)). unfold local_fuel, len in *. lia.
        -- apply skip_lel.
        -- intros x Hx. apply ltl_lel. exact Hx.
        -- intros c' Hc'. unfold nb in *. pose proof (le_sg _ _ (skip_le 1 c)). lia.
      * trivial.
      * intros [cs c2] [H2 _]. cbn [snd] in H2.
        assert (H3 : ltm c c2) by (eapply ltm_le_trans; eauto).
        apply (bounded_bind _ (fun x : list ty * ty * ctx => le_ctx c2 (snd x)) (nb c)).
        -- unfold call_FnTy. apply b_call_le; [exact I|unfold mu; cbn [ctx_of rank]; apply ltm_sg in H3; lia
                                              |apply ltm_le; exact H3|].
           intros o Ho. destruct o; cbn [Post] in Ho; try contradiction. cbn [get_FnTy]. apply b_ok. exact Ho.
        -- trivial.
        -- intros [[ps r] c3] H4. cbn [snd] in H4. apply b_ok. apply ltm_lt. eapply ltm_le_trans; eauto.
Qed.

Lemma step_sep_types_ok old c :
  bounded (mu (QSepTypes old c)) (Post (QSepTypes old c)) (PostE (QSepTypes old c)) (step_sep_types old c).
Proof.
  unfold step_sep_types, mu. cbn [ctx_of rank PostE]. fold (nb c).
  destruct (is_k KRightParen c); [apply b_ok; cbn [Post]; pose proof (skip_le 1 (pop_nl old c)); lec|].
  apply (bounded_bind _ (fun x : ty * ctx => lt_ctx c (snd x)) (nb c)); [apply b_parse_type; [apply le_refl|lia]|trivial|].
  intros [t0 c1] H1. cbn [snd] in H1.
  destruct (is_k KRightParen c1).
  - apply b_ok. cbn [Post]. apply lt_le in H1. pose proof (skip_le 1 (pop_nl old c1)). lec.
  - apply (bounded_bind _ (fun c2 => ltm c1 c2 /\ is_k KComma c1 = true) (nb c));
      [apply b_expect'; apply lt_le; exact H1|trivial|].
    intros c2 [H2 _].
    assert (H3 : lt_ctx c c2) by (eapply lt_le_trans; [exact H1|apply ltm_le; exact H2]).
    apply (bounded_bind _ (fun x : list ty * ctx => le_ctx c2 (snd x)) (nb c)).
    + unfold call_Ts. apply b_call_le; [exact I|unfold mu; cbn [ctx_of rank]; apply mu_lt; [exact H3|lia]
                                       |apply lt_le; exact H3|].
      intros o Ho. destruct o; cbn [Post] in Ho; try contradiction. cbn [get_Ts]. apply b_ok. exact Ho.
    + trivial.
    + intros [ts c3] H4. cbn [snd] in H4. apply b_ok. cbn [Post]. apply lt_le in H3. lec.
Qed.

Lemma step_fnty_params_ok acc c :
  bounded (mu (QFnTyParams acc c)) (Post (QFnTyParams acc c)) (PostE (QFnTyParams acc c)) (step_fnty_params acc c).
Proof.
  unfold step_fnty_params, mu. cbn [ctx_of rank PostE]. fold (nb c).
  assert (D : bounded (6 * sg c + 1) (Post (QFnTyParams acc c)) (nb c)
     (ptry (parse_type c)
        (fun '(t, c1) => if is_k KComma c1 || is_k KArrow c1 then call (QFnTyParams (acc ++ [t]) (skip_if KComma c1))
                         else praise c1) reraise)).
  { apply (bounded_bind _ (fun x : ty * ctx => lt_ctx c (snd x)) (nb c)); [apply b_parse_type; [apply le_refl|lia]|trivial|].
    intros [t0 c1] H1. cbn [snd] in H1.
    destruct (is_k KComma c1 || is_k KArrow c1); [|apply b_raise'; apply lt_le; exact H1].
    assert (H2 : lt_ctx c (skip_if KComma c1)) by (eapply lt_le_trans; [exact H1|apply skip_if_le]).
    apply b_tail_le; [exact I|unfold mu; cbn [ctx_of rank]; apply mu_lt; [exact H2|lia]|apply lt_le; exact H2|].
    intros o Ho. destruct o; cbn [Post] in Ho; try contradiction; cbn [Post]. apply lt_le in H2. lec. }
  destruct (token c) as [n| | | | | |k|] eqn:Tk; try exact D; [|apply b_raise'; apply le_refl].
  destruct k; try exact D.
  assert (R : realb (token c) = true) by (rewrite Tk; reflexivity).
  pose proof (skip1_ltm c R) as H1.
  apply (bounded_ptry _ (fun x : ty * ctx => lt_ctx (skip 1 c) (snd x)) (nb c)).
  - apply b_parse_type; [apply ltm_le; exact H1|pose proof (ltm_sg _ _ H1); lia].
  - intros [t0 c2] H2. cbn [snd] in H2. apply b_ok. cbn [Post]. apply ltm_le in H1. apply lt_le in H2. lec.
  - intros c' es _ _. apply b_ok. cbn [Post]. apply ltm_le. exact H1.
Qed.

Lemma step_ty_tuple_ok i acc c : Pre (QTyTuple i acc c) ->
  bounded (mu (QTyTuple i acc c)) (Post (QTyTuple i acc c)) (PostE (QTyTuple i acc c)) (step_ty_tuple i acc c).
Proof.
  intros P. unfold step_ty_tuple, mu. cbn [ctx_of rank PostE Pre] in *. fold (nb c).
  set (d := skip_if KComma c).
  assert (Ld : le_ctx c d) by (apply skip_if_le).
  assert (D : bounded (6 * sg c + 1) (Post (QTyTuple i acc c)) (nb c)
      (ptry (parse_type d) (fun '(t, c1) => call (QTyTuple (i || is_k KComma c1) (acc ++ [t]) c1)) reraise)).
  { apply (bounded_bind _ (fun x : ty * ctx => lt_ctx d (snd x)) (nb c));
      [apply b_parse_type; [exact Ld|pose proof (le_sg _ _ Ld); lia]|trivial|].
    intros [t0 c1] H. cbn [snd] in H.
    assert (H2 : lt_ctx c c1) by (eapply le_lt_trans; eauto).
    apply b_tail_le.
    - cbn [Pre]. intros _ Hl. rewrite app_length in Hl. cbn in Hl. lia.
    - unfold mu. cbn [ctx_of rank]. apply lt_sg in H2. lia.
    - apply lt_le. exact H2.
    - intros o Ho. destruct o; cbn [Post] in Ho; try contradiction; cbn [Post]. destruct Ho as [Ho1 Ho2].
      split; [apply lt_le in H2; lec|exact Ho2]. }
  assert (Stop : bounded (6 * sg c + 1) (Post (QTyTuple i acc c)) (nb c) (ok (RTyTup i acc d))
                 \/ token d = TK KRightParen /\ i = false /\ acc = []).
  { destruct (Bool.bool_dec i false) as [Hi|Hi]; [|left; apply b_ok; split; [exact Ld|intros X; congruence]].
    destruct acc as [|a acc']; [|left; apply b_ok; split; [exact Ld|intros _ X; discriminate]].
    destruct (is_k KRightParen d) eqn:Ek.
    - right. split; [apply is_k_tok; exact Ek|split; [exact Hi|reflexivity]].
    - left. apply b_ok. split; [exact Ld|intros _ _; exact Ek]. }
  destruct (token d) as [| | | | | |k|] eqn:Tk; try exact D.
  - destruct k; try exact D. destruct Stop as [S0|(Tk' & Hi & Ha)]; [exact S0|].
    exfalso. destruct (P Hi ltac:(subst acc; reflexivity)) as [Pc Pr].
    unfold d, skip_if in Tk. rewrite Pc in Tk. unfold is_k in Pr. rewrite Tk in Pr. discriminate.
  - destruct Stop as [S0|(Tk' & _)]; [exact S0|congruence].
Qed.

(* ---- statements ---- *)

Definition StL (c : ctx) (x : stmt * ctx) : Prop := ltm c (snd x).

Lemma b_block_do M cq c : le_ctx cq c -> 6 * sg (skip_if KDo c) + 5 < M ->
  bounded M (fun x : list stmt * ctx => le_ctx (skip_if KDo c) (snd x)) (nb cq) (block c).
Proof.
  intros Hc Hm. unfold block, call_Ss.
  pose proof (skip_if_le KDo c) as Hd.
  apply b_call; [exact I| | |].
  - unfold mu. cbn [ctx_of rank]. destruct (block_end _); lia.
  - intros o Ho. destruct o; cbn [Post] in Ho; try contradiction. destruct Ho as [_ Ho]. cbn [get_Ss]. apply b_ok. exact Ho.
  - intros c' es Hc' Hes. apply b_reraise; [|exact Hes]. unfold PostE in Hc'. cbn [ctx_of] in Hc'.
    unfold nb. apply le_sg in Hc. apply le_sg in Hd. lia.
Qed.

Lemma use_prev_twice p c c1 : realb (token c) = true -> ltm (skip 1 c) c1 -> use_prev_ok p c1 = true.
Proof.
  intros R H2. destruct (skip1_ltm c R) as [_ (l1 & P1 & M1)]. destruct H2 as [_ (l2 & P2 & M2)].
  destruct (prev_some c1 l2 (pre (skip 1 c)) P2 M2) as [cp1 E1].
  destruct (prev_facts c1 l2 (pre (skip 1 c)) cp1 P2 M2 E1) as [(m' & Pm) _].
  rewrite P1, app_assoc in Pm.
  destruct (prev_some cp1 (m' ++ l1) (pre c) Pm (mark_app_l _ _ M1)) as [cp2 E2].
  unfold use_prev_ok. rewrite E1. destruct (ends_with_slash p); [rewrite E2|]; reflexivity.
Qed.

Lemma stmt_use_ok M c : realb (token c) = true -> bounded M (StL c) (nb c) (stmt_use c).
Proof.
  intros R. unfold stmt_use. pose proof (skip1_ltm c R) as H1.
  apply (bounded_bind _ (fun x : name * file_or_lib * ctx => ltl (skip 1 c) (snd x)) (nb c)).
  - apply b_ret. eapply good_weaken; [apply use_path_good|trivial|].
    intros c' Hc'. unfold nb in *. pose proof (le_sg _ _ (skip_le 1 c)). lia.
  - trivial.
  - intros [[p file] c1] H2. cbn [snd] in H2. apply ltl_ltm in H2.
    assert (H3 : ltm c c1) by (eapply ltm_le_trans; [exact H1|apply ltm_le; exact H2]).
    assert (C0 : bounded M (StL c) (nb c)
       (if name_eqb p [slash] then praise c1
        else if use_prev_ok p c1 then ok (SUse p (NImplicit (last_component (trim_slashes p) [])) file, c1)
        else panic)).
    { destruct (name_eqb p [slash]); [apply b_raise'; apply ltm_le; exact H3|].
      rewrite (use_prev_twice p c c1 R H2). apply b_ok. exact H3. }
    unfold look2. cbv iota beta.
    destruct (token c1) as [| | | | | |k|]; try exact C0.
    destruct k; try exact C0.
    destruct (token (skip 1 c1));
      first [apply b_raise'; eapply le_trans; [apply ltm_le; exact H3|apply skip_le]
            |apply b_ok; eapply ltm_le_trans; [exact H3|apply skip_le]].
Qed.

Lemma stmt_from_ok M c : realb (token c) = true -> bounded M (StL c) (nb c) (stmt_from c).
Proof.
  intros R. unfold stmt_from. pose proof (skip1_ltm c R) as H1.
  apply (bounded_bind _ (fun x : name * file_or_lib * ctx => ltl (skip 1 c) (snd x)) (nb c)).
  - apply b_ret. eapply good_weaken; [apply use_path_good|trivial|].
    intros c' Hc'. unfold nb in *. pose proof (le_sg _ _ (skip_le 1 c)). lia.
  - trivial.
  - intros [[p file] c1] H2. cbn [snd] in H2. apply ltl_ltm in H2.
    assert (H3 : ltm c c1) by (eapply ltm_le_trans; [exact H1|apply ltm_le; exact H2]).
    apply (bounded_bind _ (fun c2 => ltm c1 c2 /\ is_k KUse c1 = true) (nb c));
      [apply b_expect'; apply ltm_le; exact H3|trivial|].
    intros c2 [H4 _]. cbv zeta.
    assert (H5 : ltm c c2) by (eapply ltm_le_trans; [exact H3|apply ltm_le; exact H4]).
    assert (X : exists c3 old, (if is_k KLeftParen c2 then push_nl true (skip 1 c2) else push_nl false c2) = (c3, old)
                               /\ le_ctx c2 c3).
    { destruct (is_k KLeftParen c2).
      - destruct (push_nl true (skip 1 c2)) as [c3 old] eqn:Ep. exists c3, old. split; [reflexivity|].
        replace c3 with (fst (push_nl true (skip 1 c2))) by (rewrite Ep; reflexivity).
        eapply le_trans; [apply skip_le|apply push_nl_le].
      - destruct (push_nl false c2) as [c3 old] eqn:Ep. exists c3, old. split; [reflexivity|].
        replace c3 with (fst (push_nl false c2)) by (rewrite Ep; reflexivity). apply push_nl_le. }
    destruct X as (c3 & old & -> & H6).
    assert (H7 : ltm c c3) by (eapply ltm_le_trans; eauto).
    apply (bounded_bind _ (fun x : list (name * option name) * ctx => lel c3 (snd x)) (nb c)).
    + apply b_ret. eapply good_weaken; [apply (from_imports_good (local_fuel c3) c3 c3 [])| |].
      * unfold local_fuel, len. lia.
      * apply lel_refl.
      * trivial.
      * intros c' Hc'. unfold nb in *. apply ltm_sg in H7. lia.
    + trivial.
    + intros [imports c4] [H8 _]. cbn [snd] in H8.
      assert (H9 : ltm c c4) by (eapply ltm_le_trans; eauto).
      destruct imports as [|i0 imports]; [apply b_raise'; apply ltm_le; exact H9|].
      assert (H10 : ltm c (pop_nl old c4)) by (eapply ltm_le_trans; [exact H9|apply pop_nl_le]).
      apply (bounded_bind _ (fun c6 => ltm c c6) (nb c)).
      * destruct (is_k KLeftParen c2); [|apply b_ok; exact H10].
        eapply bounded_weaken; [apply (b_expect' M KRightParen c (pop_nl old c4)); apply ltm_le; exact H10|lia| |trivial].
        intros c6 [Hc6 _]. eapply ltm_le_trans; [exact H10|apply ltm_le; exact Hc6].
      * trivial.
      * intros c6 H11. apply b_ok. exact H11.
Qed.

Lemma stmt_enum_ok nm c : realb (token c) = true -> bounded (6 * sg c + 3) (StL c) (nb c) (stmt_enum nm c).
Proof.
  intros R. unfold stmt_enum. destruct (negb (is_capitalized nm)); [apply b_raise'; apply le_refl|].
  cbv zeta. pose proof (skipn_ltm 3 c ltac:(lia) R) as H1. dpush H2.
  assert (H3 : ltm c cp) by (eapply ltm_le_trans; eauto).
  apply (bounded_bind _ (fun x : list name * ctx => lel cp (snd x)) (nb c)).
  - apply b_ret. eapply good_weaken; [apply paren_vars_good|trivial|].
    intros c' Hc'. unfold nb in *. apply ltm_sg in H3. lia.
  - trivial.
  - intros [vars c3] [H4 _]. cbn [snd] in H4.
    assert (H5 : ltm c c3) by (eapply ltm_le_trans; eauto).
    apply (bounded_bind _ (fun x : list (name * ty * nat) * ctx => le_ctx c3 (snd x)) (nb c)).
    + unfold call_Enum. apply b_call_le; [exact I|unfold mu; cbn [ctx_of rank]; apply ltm_sg in H5; lia
                                         |apply ltm_le; exact H5|].
      intros o Ho. destruct o; cbn [Post] in Ho; try contradiction. cbn [get_Enum]. apply b_ok. exact Ho.
    + trivial.
    + intros [items c4] H6. cbn [snd] in H6.
      assert (H7 : ltm c c4) by (eapply ltm_le_trans; eauto).
      destruct (first_dup [] items).
      * apply b_ret. cbn [good]. split; [unfold nb; apply ltm_sg in H7; lia|discriminate].
      * apply b_ok. unfold StL. cbn [snd]. eapply ltm_le_trans; [exact H7|apply pop_nl_le].
Qed.

Lemma stmt_blob_ok nm c : realb (token c) = true -> bounded (6 * sg c + 3) (StL c) (nb c) (stmt_blob nm c).
Proof.
  intros R. unfold stmt_blob. destruct (negb (is_capitalized nm)); [apply b_raise'; apply le_refl|].
  cbv zeta. pose proof (skipn_ltm 2 c ltac:(lia) R) as H1.
  assert (H1' : ltm c (skip 1 (skip 2 c))) by (eapply ltm_le_trans; [exact H1|apply skip_le]).
  apply (bounded_bind _ (fun x : list name * ctx => lel (skip 1 (skip 2 c)) (snd x)) (nb c)).
  - apply b_ret. eapply good_weaken; [apply paren_vars_good|trivial|].
    intros c' Hc'. unfold nb in *. apply ltm_sg in H1'. lia.
  - trivial.
  - intros [vars c2] [H2 _]. cbn [snd] in H2.
    assert (H3 : ltm c c2) by (eapply ltm_le_trans; eauto).
    apply (bounded_bind _ (fun c3 => ltm c2 c3 /\ is_k KLeftBrace c2 = true) (nb c));
      [apply b_expect'; apply ltm_le; exact H3|trivial|].
    intros c3 [H4 _]. dpush H5.
    assert (H6 : ltm c cp) by (eapply ltm_le_trans; [exact H3|]; apply ltm_le in H4; lec).
    apply (bounded_bind _ (fun x : list (name * ty) * ctx => le_ctx cp (snd x)) (nb c)).
    + unfold call_NTs. apply b_call_le; [exact I|unfold mu; cbn [ctx_of rank]; apply ltm_sg in H6; lia
                                        |apply ltm_le; exact H6|].
      intros o Ho. destruct o; cbn [Post] in Ho; try contradiction. cbn [get_NTs]. apply b_ok. exact Ho.
    + trivial.
    + intros [fields c5] H7. cbn [snd] in H7.
      assert (H8 : ltm c (pop_nl old c5)) by (eapply ltm_le_trans; [exact H6|]; lec).
      apply (bounded_bind _ (fun c7 => ltm (pop_nl old c5) c7 /\ is_k KRightBrace (pop_nl old c5) = true) (nb c));
        [apply b_expect'; apply ltm_le; exact H8|trivial|].
      intros c7 [H9 _]. apply b_ok. unfold StL. cbn [snd]. eapply ltm_le_trans; [exact H8|apply ltm_le; exact H9].
Qed.

Lemma stmt_def_implied_ok nm c : realb (token c) = true ->
  token (skip 1 c) = TK KColonColon \/ token (skip 1 c) = TK KColonEqual ->
  bounded (6 * sg c + 3) (StL c) (nb c) (stmt_def_implied T nm c).
Proof.
  intros R G. unfold stmt_def_implied. destruct (name_eqb nm self_name); [apply b_raise'; apply le_refl|].
  cbv zeta. pose proof (skip1_ltm c R) as H1.
  assert (H2 : ltm c (skip 1 (skip 1 c))) by (eapply ltm_le_trans; [exact H1|apply skip_le]).
  assert (B : bounded (6 * sg c + 3) (StL c) (nb c)
     (if is_k KExternal (skip 1 (skip 1 c)) then praise (skip 1 (skip 1 c))
      else let* '(v, c3) := expression T (skip 1 (skip 1 c)) in
           ok (SDef nm (if is_k KColonColon (skip 1 c) then VConst else VMutable) TyImplied v, c3))).
  { destruct (is_k KExternal (skip 1 (skip 1 c))); [apply b_raise'; apply ltm_le; exact H2|].
    apply (bounded_bind _ (fun x : expr * ctx => ltm (skip 1 (skip 1 c)) (snd x)) (nb c));
      [apply b_expr; [apply ltm_le; exact H2|apply mu_lt; [apply ltm_lt; exact H2|lia]]|trivial|].
    intros [v c3] H3. cbn [snd] in H3. apply b_ok. unfold StL. cbn [snd].
    eapply ltm_le_trans; [exact H2|apply ltm_le; exact H3]. }
  destruct G as [G|G]; rewrite G; exact B.
Qed.

Lemma stmt_def_typed_ok nm c : realb (token c) = true ->
  bounded (6 * sg c + 3) (StL c) (nb c) (stmt_def_typed T nm c).
Proof.
  intros R. unfold stmt_def_typed. destruct (name_eqb nm self_name); [apply b_raise'; apply le_refl|].
  cbv zeta. pose proof (skipn_ltm 2 c ltac:(lia) R) as H1.
  apply (bounded_bind _ (fun x : ty * ctx => lt_ctx (skip 2 c) (snd x)) (nb c));
    [apply b_parse_type; [apply ltm_le; exact H1|apply ltm_sg in H1; lia]|trivial|].
  intros [t0 c2] H2. cbn [snd] in H2.
  assert (H3 : ltm c c2) by (eapply ltm_le_trans; [exact H1|apply lt_le; exact H2]).
  apply (bounded_bind _ (fun _ : varkind => True) (nb c)).
  - destruct (is_k KColon c2); [apply b_ok; exact I|].
    destruct (is_k KEqual c2); [apply b_ok; exact I|apply b_raise'; apply ltm_le; exact H3].
  - trivial.
  - intros kind _.
    assert (H4 : ltm c (skip 1 c2)) by (eapply ltm_le_trans; [exact H3|apply skip_le]).
    destruct (is_k KExternal (skip 1 c2)).
    + apply b_ok. unfold StL. cbn [snd]. eapply ltm_le_trans; [exact H4|apply skip_le].
    + apply (bounded_bind _ (fun x : expr * ctx => ltm (skip 1 c2) (snd x)) (nb c));
        [apply b_expr; [apply ltm_le; exact H4|apply mu_lt; [apply ltm_lt; exact H4|lia]]|trivial|].
      intros [v c4] H5. cbn [snd] in H5. apply b_ok. unfold StL. cbn [snd].
      eapply ltm_le_trans; [exact H4|apply ltm_le; exact H5].
Qed.

Lemma stmt_expr_ok c : bounded (6 * sg c + 3) (StL c) (nb c) (stmt_expr T c).
Proof.
  unfold stmt_expr.
  apply (bounded_bind _ (fun x : expr * ctx => ltm c (snd x)) (nb c)); [apply b_expr; [apply le_refl|lia]|trivial|].
  intros [v c1] H. apply b_ok. exact H.
Qed.

Lemma assign_op_real c o : assign_op (token c) = Some o -> realb (token c) = true.
Proof. destruct (token c) as [| | | | | |k|]; try discriminate. destruct k; try discriminate; reflexivity. Qed.

Lemma b_call_loop M p l c :
  6 * sg c + 1 < M ->
  bounded M (fun x : expr * ctx => le_ctx c (snd x)) (nb c) (call_E (QLoop p l c)).
Proof.
  intros Hm. unfold call_E. apply b_call; [exact I|unfold mu; cbn [ctx_of rank]; lia| |].
  - intros o Ho. destruct o; cbn [Post] in Ho; try contradiction. cbn [get_E]. apply b_ok. exact Ho.
  - intros c' es Hc Hes. apply b_reraise; [exact Hc|exact Hes].
Qed.

Lemma stmt_assign_or_expr_ok c : bounded (6 * sg c + 3) (StL c) (nb c) (stmt_assign_or_expr T c).
Proof.
  unfold stmt_assign_or_expr.
  apply (bounded_ptry _ (fun x : assignable * ctx => ltm c (snd x)) (nb c));
    [apply assignable_p_ok; [apply le_refl|lia]| |].
  - intros [target c1] H1. cbn [snd] in H1.
    destruct (assign_op (token c1)) as [op|] eqn:Ao.
    + pose proof (skip1_ltm c1 (assign_op_real c1 op Ao)) as H2.
      assert (H3 : ltm c (skip 1 c1)) by (eapply ltm_le_trans; [exact H1|apply ltm_le; exact H2]).
      apply (bounded_bind _ (fun x : expr * ctx => ltm (skip 1 c1) (snd x)) (nb c));
        [apply b_expr; [apply ltm_le; exact H3|apply mu_lt; [apply ltm_lt; exact H3|lia]]|trivial|].
      intros [v c2] H4. cbn [snd] in H4. apply b_ok. unfold StL. cbn [snd].
      eapply ltm_le_trans; [exact H3|apply ltm_le; exact H4].
    + pose proof (ta_good c) as G.
      destruct (type_assignable c) as [[b0 cb]|ce es0| |]; cbn [good] in G; try contradiction.
      * destruct (is_k KLeftBrace cb); [apply stmt_expr_ok|].
        unfold expression_after.
        apply (bounded_bind _ (fun x : expr * ctx => le_ctx c1 (snd x)) (nb c)).
        -- eapply bounded_weaken; [apply (b_call_loop (6 * sg c + 3)); pose proof (ltm_sg _ _ H1); lia|lia|trivial|].
           intros c' Hc'. eapply nb_mono; [apply ltm_le; exact H1|exact Hc'].
        -- trivial.
        -- intros [v c2] H4. cbn [snd] in H4. apply b_ok. unfold StL. cbn [snd]. eapply ltm_le_trans; [exact H1|exact H4].
      * unfold expression_after.
        apply (bounded_bind _ (fun x : expr * ctx => le_ctx c1 (snd x)) (nb c)).
        -- eapply bounded_weaken; [apply (b_call_loop (6 * sg c + 3)); pose proof (ltm_sg _ _ H1); lia|lia|trivial|].
           intros c' Hc'. eapply nb_mono; [apply ltm_le; exact H1|exact Hc'].
        -- trivial.
        -- intros [v c2] H4. cbn [snd] in H4. apply b_ok. unfold StL. cbn [snd]. eapply ltm_le_trans; [exact H1|exact H4].
  - intros c' es Hc Hes. destruct (token c); try apply stmt_expr_ok.
    pose proof (ta_good c) as G.
    destruct (type_assignable c) as [[b0 cb]|ce es0| |]; cbn [good] in G; try contradiction.
    + destruct (is_k KLeftBrace cb); [apply stmt_expr_ok|apply b_reraise; assumption].
    + apply b_reraise; assumption.
Qed.

(* ---- enum variants and blob fields ---- *)

Lemma enum_item_ok c0 :
  bounded (6 * sg c0 + 0) (fun x : name * ty * nat * ctx => ltm c0 (snd x)) (nb c0) (enum_item c0).
Proof.
  unfold enum_item. cbv zeta. set (c := skip_nls c0).
  assert (H0 : le_ctx c0 c) by apply skip_nls_le.
  destruct (token c) as [v| | | | | |k|] eqn:Tk; try (apply b_raise'; exact H0).
  assert (R : realb (token c) = true) by (rewrite Tk; reflexivity).
  assert (H1 : ltm c0 (skip 1 c)) by (eapply le_ltm_trans; [exact H0|apply skip1_ltm; exact R]).
  destruct (negb (is_capitalized v)); [apply b_raise'; apply ltm_le; exact H1|].
  apply (bounded_bind _ (fun x : ty * ctx => le_ctx (skip 1 c) (snd x)) (nb c0)).
  - destruct (is_k KEnd (skip 1 c) || is_k KComma (skip 1 c) || is_k KNewline (skip 1 c)); [apply b_ok; apply le_refl|].
    assert (H2 : ltm c0 (skip_if KColon (skip 1 c))) by (eapply ltm_le_trans; [exact H1|apply skip_if_le]).
    apply (bounded_bind _ (fun x : ty * ctx => lt_ctx (skip_if KColon (skip 1 c)) (snd x)) (nb c0));
      [apply b_parse_type; [apply ltm_le; exact H2|apply ltm_sg in H2; lia]|trivial|].
    intros [t0 c2] H3. cbn [snd] in H3.
    assert (H4 : le_ctx (skip 1 c) c2) by (eapply le_trans; [apply skip_if_le|apply lt_le; exact H3]).
    destruct (is_k KComma c2 || is_k KEnd c2 || is_k KNewline c2); [apply b_ok; exact H4|].
    apply b_raise'. eapply le_trans; [apply ltm_le; exact H1|exact H4].
  - trivial.
  - intros [t0 c2] H2. cbn [snd] in H2. apply b_ok. cbn [snd].
    eapply ltm_le_trans; [exact H1|]. eapply le_trans; [exact H2|apply skip_if_le].
Qed.

Lemma step_enum_items_ok acc c :
  bounded (mu (QEnumItems acc c)) (Post (QEnumItems acc c)) (PostE (QEnumItems acc c)) (step_enum_items acc c).
Proof.
  unfold step_enum_items, mu. cbn [ctx_of rank PostE]. fold (nb c). cbv zeta.
  destruct (is_k KEnd (skip_nls c)).
  { apply b_ok. cbn [Post]. eapply le_trans; [apply skip_nls_le|apply skip_le]. }
  apply (bounded_bind _ (fun x : name * ty * nat * ctx => ltm c (snd x)) (nb c)); [apply enum_item_ok|trivial|].
  intros [[[v t0] pos] c1] H1. cbn [snd] in H1.
  destruct (is_k KEnd (skip_nls c1)).
  { apply b_ok. cbn [Post]. eapply le_trans; [apply ltm_le; exact H1|]. eapply le_trans; [apply skip_nls_le|apply skip_le]. }
  assert (H2 : ltm c (skip_if KComma (skip_nls c1))).
  { eapply ltm_le_trans; [exact H1|]. eapply le_trans; [apply skip_nls_le|apply skip_if_le]. }
  apply b_tail_le; [exact I|unfold mu; cbn [ctx_of rank]; apply ltm_sg in H2; lia|apply ltm_le; exact H2|].
  intros o Ho. destruct o; cbn [Post] in Ho; try contradiction; cbn [Post]. apply ltm_le in H2. lec.
Qed.

Lemma step_blob_fields_ok acc c :
  bounded (mu (QBlobFields acc c)) (Post (QBlobFields acc c)) (PostE (QBlobFields acc c)) (step_blob_fields acc c).
Proof.
  unfold step_blob_fields, mu. cbn [ctx_of rank PostE]. fold (nb c).
  destruct (token c) as [f| | | | | |k|] eqn:Tk; try (apply b_raise'; apply le_refl).
  - assert (R : realb (token c) = true) by (rewrite Tk; reflexivity).
    pose proof (skip1_ltm c R) as H1.
    destruct (name_eqb f self_name); [apply b_raise'; apply le_refl|].
    destruct (has_key f acc); [apply b_raise'; apply le_refl|].
    apply (bounded_bind _ (fun c1 => ltm (skip 1 c) c1 /\ is_k KColon (skip 1 c) = true) (nb c));
      [apply b_expect'; apply ltm_le; exact H1|trivial|].
    intros c1 [H2 _].
    assert (H3 : ltm c c1) by (eapply ltm_le_trans; [exact H1|apply ltm_le; exact H2]).
    apply (bounded_bind _ (fun x : ty * ctx => lt_ctx c1 (snd x)) (nb c));
      [apply b_parse_type; [apply ltm_le; exact H3|apply ltm_sg in H3; lia]|trivial|].
    intros [t0 c2] H4. cbn [snd] in H4.
    assert (H5 : ltm c c2) by (eapply ltm_le_trans; [exact H3|apply lt_le; exact H4]).
    destruct (is_k KComma c2 || is_k KRightBrace c2); [|apply b_raise'; apply ltm_le; exact H5].
    assert (H6 : ltm c (skip_if KComma c2)) by (eapply ltm_le_trans; [exact H5|apply skip_if_le]).
    apply b_tail_le; [exact I|unfold mu; cbn [ctx_of rank]; apply ltm_sg in H6; lia|apply ltm_le; exact H6|].
    intros o Ho. destruct o; cbn [Post] in Ho; try contradiction; cbn [Post]. apply ltm_le in H6. lec.
  - assert (R : realb (token c) = true) by (rewrite Tk; reflexivity).
    pose proof (skip1_ltm c R) as H1.
    destruct k; try (apply b_raise'; apply le_refl); try (apply b_ok; apply le_refl).
    apply b_tail_le; [exact I|unfold mu; cbn [ctx_of rank]; apply ltm_sg in H1; lia|apply ltm_le; exact H1|].
    intros o Ho. destruct o; cbn [Post] in Ho; try contradiction; cbn [Post]. apply ltm_le in H1. lec.
Qed.

(* ---- statement ---- *)

Definition endb (c : ctx) : bool := is_k KEnd c || is_k KElse c || is_k KElif c.
Definition StQ (c : ctx) (x : stmt * ctx) : Prop := le_ctx c (snd x) /\ (endb (snd x) = true -> ltm c (snd x)).

Lemma stq_of_stl c x : StL c x -> StQ c x.
Proof. intros H. split; [apply ltm_le; exact H|intros _; exact H]. Qed.

Lemma loop_arm_ok c : realb (token c) = true ->
  bounded (6 * sg c + 3) (StL c) (nb c)
    (let c1 := skip 1 c in
     let* '(cond, c2) := (if is_k KDo c1 then ok (EBool true, c1) else expression T c1) in
     let* '(body, c3) := statement c2 in
     match prev c3 with
     | Some cp => ok (SLoop cond body, if is_k KNewline cp then cp else c3)
     | None => panic
     end).
Proof.
  intros R. cbv zeta. pose proof (skip1_ltm c R) as H1.
  apply (bounded_bind _ (fun x : expr * ctx => le_ctx (skip 1 c) (snd x)) (nb c)).
  - destruct (is_k KDo (skip 1 c)); [apply b_ok; apply le_refl|].
    eapply bounded_weaken; [apply (b_expr (6 * sg c + 3) c (skip 1 c));
                            [apply ltm_le; exact H1|apply mu_lt; [apply ltm_lt; exact H1|lia]]|lia| |trivial].
    intros x Hx. apply ltm_le. exact Hx.
  - trivial.
  - intros [cond c2] H2. cbn [snd] in H2.
    assert (H3 : ltm c c2) by (eapply ltm_le_trans; eauto).
    apply (bounded_bind _ (fun x : stmt * ctx => ltm c2 (snd x)) (nb c));
      [apply b_statement; [apply ltm_le; exact H3|apply mu_lt; [apply ltm_lt; exact H3|lia]]|trivial|].
    intros [body c3] H4. cbn [snd] in H4.
    destruct H3 as [S3 (l3 & P3 & M3)]. destruct H4 as [S4 (l4 & P4 & M4)].
    destruct (prev_some c3 l4 (pre c2) P4 M4) as [cq Eq]. rewrite Eq.
    destruct (prev_facts c3 l4 (pre c2) cq P4 M4 Eq) as [(m' & Pm) Sq].
    apply b_ok. unfold StL. cbn [snd]. destruct (is_k KNewline cq).
    + unfold ltm. split; [lia|].
      exists (m' ++ l3). rewrite Pm, P3, app_assoc. split; [reflexivity|]. apply mark_app_l. exact M3.
    + unfold ltm. split; [lia|].
      exists (l4 ++ l3). rewrite P4, P3, app_assoc. split; [reflexivity|]. apply mark_app_l. exact M3.
Qed.

Lemma ret_arm_ok c : realb (token c) = true ->
  bounded (6 * sg c + 3) (StL c) (nb c)
    (let c1 := skip 1 c in
     ptry (expression T c1) (fun '(v, c2) => ok (SRet (Some v), c2)) (fun _ _ => ok (SRet None, c1))).
Proof.
  intros R. cbv zeta. pose proof (skip1_ltm c R) as H1.
  apply (bounded_ptry _ (fun x : expr * ctx => ltm (skip 1 c) (snd x)) (nb c)).
  - apply b_expr; [apply ltm_le; exact H1|apply mu_lt; [apply ltm_lt; exact H1|lia]].
  - intros [v c2] H2. cbn [snd] in H2. apply b_ok. unfold StL. cbn [snd].
    eapply ltm_le_trans; [exact H1|apply ltm_le; exact H2].
  - intros c' es _ _. apply b_ok. exact H1.
Qed.

Lemma do_arm_ok c : token c = TK KDo ->
  bounded (6 * sg c + 3) (StL c) (nb c) (let* '(ss, c1) := block c in ok (SBlock ss, c1)).
Proof.
  intros Tk.
  assert (R : realb (token c) = true) by (rewrite Tk; reflexivity).
  assert (Ed : skip_if KDo c = skip 1 c) by (unfold skip_if, is_k; rewrite Tk; reflexivity).
  pose proof (skip1_ltm c R) as H1.
  apply (bounded_bind _ (fun x : list stmt * ctx => le_ctx (skip_if KDo c) (snd x)) (nb c)).
  - apply b_block_do; [apply le_refl|rewrite Ed; apply mu_lt; [apply ltm_lt; exact H1|lia]].
  - trivial.
  - intros [ss c1] H2. cbn [snd] in H2. rewrite Ed in H2. apply b_ok. unfold StL. cbn [snd].
    eapply ltm_le_trans; eauto.
Qed.

Lemma step_stmt_ok c0 : bounded (mu (QStmt c0)) (Post (QStmt c0)) (PostE (QStmt c0)) (step_stmt T c0).
Proof.
  unfold step_stmt, mu. cbn [ctx_of rank PostE]. fold (nb c0). dpush H0.
  assert (W : forall m, bounded (6 * sg cp + 3) (StL cp) (nb cp) m -> bounded (6 * sg c0 + 3) (StQ cp) (nb c0) m).
  { intros m Hm. eapply bounded_weaken; [exact Hm|pose proof (le_sg _ _ H0); lia|apply stq_of_stl|].
    intros c' Hc'. eapply nb_mono; eauto. }
  apply (bounded_bind _ (StQ cp) (nb c0)).
  - unfold look3. cbv iota beta.
    assert (HD : bounded (6 * sg c0 + 3) (StQ cp) (nb c0) (stmt_assign_or_expr T cp))
      by (apply W; apply stmt_assign_or_expr_ok).
    destruct (token cp) as [nm| | | | | |k|] eqn:Tk; try exact HD.
    + assert (R : realb (token cp) = true) by (rewrite Tk; reflexivity).
      pose proof (fun n => W _ (stmt_enum_ok n cp R)) as He.
      pose proof (fun n => W _ (stmt_blob_ok n cp R)) as Hb.
      pose proof (fun n G => W _ (stmt_def_implied_ok n cp R G)) as Hi.
      pose proof (fun n => W _ (stmt_def_typed_ok n cp R)) as Ht.
      destruct (token (skip 1 cp)) as [| | | | | |k2|] eqn:Tk2; try exact HD.
      destruct k2; first [exact HD|apply Ht|idtac].
      all: destruct (token (skip 1 (skip 1 cp))) as [| | | | | |k3|]; first [exact HD|apply Hi; auto|idtac].
      all: destruct k3; first [exact HD|apply Hi; auto|apply He|apply Hb].
    + assert (R : realb (token cp) = true) by (rewrite Tk; reflexivity).
      pose proof (skip1_ltm cp R) as H1.
      destruct k;
        first [exact HD
              |apply W; apply b_raise'; apply le_refl
              |apply W; apply b_ok; exact H1
              |apply W; apply stmt_use_ok; exact R
              |apply W; apply stmt_from_ok; exact R
              |apply W; apply (ret_arm_ok cp R)
              |apply W; apply (loop_arm_ok cp R)
              |apply W; apply (do_arm_ok cp Tk)
              |idtac].
      (* the empty statement: the newline is still to be consumed *)
      apply b_ok. split; [apply le_refl|]. cbn [snd]. unfold endb, is_k. rewrite Tk. discriminate.
  - trivial.
  - intros [s c1] [Ha Hb]. cbn [snd] in Ha, Hb.
    apply (bounded_bind _ (fun c2 => ltm cp c2) (nb c0)).
    + fold (endb c1). destruct (endb c1); [apply b_ok; apply Hb; reflexivity|].
      eapply bounded_weaken; [apply (b_expect' (6 * sg c0 + 3) KNewline c0 c1); eapply le_trans; eauto|lia| |trivial].
      intros c2 [Hc2 _]. eapply le_ltm_trans; eauto.
    + trivial.
    + intros c2 H2. apply b_ok. cbn [Post].
      eapply le_ltm_trans; [exact H0|]. eapply ltm_le_trans; [exact H2|apply pop_nl_le].
Qed.

(* ---- the block and module loops, with error recovery ---- *)

Lemma app_nonnil {A : Type} (l es : list A) : es <> [] -> l ++ es <> [].
Proof. intros H X. apply app_eq_nil in X. apply H. apply X. Qed.

Lemma step_stmts_ok acc errs c :
  bounded (mu (QStmts acc errs c)) (Post (QStmts acc errs c)) (PostE (QStmts acc errs c)) (step_stmts acc errs c).
Proof.
  unfold step_stmts, mu. cbn [ctx_of rank PostE]. fold (nb c).
  assert (Stop : forall M, bounded M (Post (QStmts acc errs c)) (nb c)
                   (match errs with [] => ok (RSs acc (skip_if KEnd c)) | _ => Ret (Err c errs) end)).
  { intros M. destruct errs as [|e errs'].
    - apply b_ok. cbn [Post]. split; [reflexivity|apply skip_if_le].
    - apply b_ret. cbn [good]. split; [unfold nb; lia|discriminate]. }
  assert (D : block_end (token c) = false ->
     bounded (6 * sg c + 5) (Post (QStmts acc errs c)) (nb c)
       (ptry (statement c) (fun '(s, c1) => call (QStmts (acc ++ [s]) errs c1))
          (fun c' es => call (QStmts acc (errs ++ es) (skip_if KNewline (skip_until KNewline (pop_nl false c'))))))).
  { intros _. apply (bounded_ptry _ (fun x : stmt * ctx => ltm c (snd x)) (nb c)).
    - apply b_statement; [apply le_refl|lia].
    - intros [s c1] H1. cbn [snd] in H1.
      apply b_tail_le; [exact I| |apply ltm_le; exact H1|].
      + unfold mu. cbn [ctx_of rank]. apply ltm_sg in H1. destruct (block_end (token c1)); lia.
      + intros o Ho. destruct o; cbn [Post] in Ho; try contradiction; cbn [Post]. destruct Ho as [Ho1 Ho2].
        split; [exact Ho1|]. apply ltm_le in H1. lec.
    - intros c' es Hc Hes.
      set (cu := skip_until KNewline (pop_nl false c')).
      assert (Hu : sg cu <= sg c).
      { unfold nb in Hc. pose proof (le_sg _ _ (skip_until_le KNewline (pop_nl false c'))).
        pose proof (le_sg _ _ (pop_nl_le false c')). unfold cu. lia. }
      apply b_call_tail; [exact I| | |].
      + unfold mu. cbn [ctx_of rank].
        destruct (skip_until_stop KNewline (pop_nl false c')) as [Eo|Nl]; fold cu in Eo || fold cu in Nl.
        * assert (X : skip_if KNewline cu = cu) by (unfold skip_if, is_k; rewrite Eo; reflexivity).
          rewrite X, Eo. cbn [block_end]. lia.
        * assert (X : skip_if KNewline cu = skip 1 cu) by (unfold skip_if; rewrite Nl; reflexivity).
          rewrite X. pose proof (lt_sg _ _ (skip1_lt cu (is_k_real _ _ Nl))).
          destruct (block_end (token (skip 1 cu))); lia.
      + intros o Ho. destruct o; cbn [Post] in Ho; try contradiction. destruct Ho as [Ho1 _].
        exfalso. exact (app_nonnil errs es Hes Ho1).
      + intros c2 Hc2. unfold PostE in Hc2. cbn [ctx_of] in Hc2. unfold nb.
        pose proof (le_sg _ _ (skip_if_le KNewline cu)). lia. }
  destruct (token c) as [| | | | | |k|] eqn:Tk; try (apply D; reflexivity).
  - destruct k; first [apply D; reflexivity|apply Stop].
  - apply Stop.
Qed.

Lemma outer_statement_ok c :
  bounded (6 * sg c + 5) (fun x : stmt * ctx => ltm c (snd x)) (nb c) (outer_statement c).
Proof.
  unfold outer_statement.
  apply (bounded_bind _ (fun x : stmt * ctx => ltm c (snd x)) (nb c)); [apply b_statement; [apply le_refl|lia]|trivial|].
  intros [s c1] H1. cbn [snd] in H1. destruct (is_outer s); [apply b_ok; exact H1|].
  apply b_ret. cbn [good]. split; [|discriminate].
  unfold nb. pose proof (le_sg _ _ (skip_le 1 c1)). apply ltm_sg in H1. lia.
Qed.

Lemma step_module_ok acc errs last c :
  bounded (mu (QModule acc errs last c)) (Post (QModule acc errs last c)) (PostE (QModule acc errs last c))
          (step_module acc errs last c).
Proof.
  unfold step_module, mu. cbn [ctx_of rank PostE]. fold (nb c).
  assert (D : line_end (token c) = false ->
     bounded (6 * sg c + 5) (Post (QModule acc errs last c)) (nb c)
       (ptry (outer_statement c) (fun '(s, c1) => call (QModule (acc ++ [s]) errs (consumed c1) c1))
          (fun c' es => call (QModule acc (errs ++ es) last (skip_until KNewline c'))))).
  { intros _. apply (bounded_ptry _ (fun x : stmt * ctx => ltm c (snd x)) (nb c)).
    - apply outer_statement_ok.
    - intros [s c1] H1. cbn [snd] in H1.
      apply b_tail_le; [exact I| |apply ltm_le; exact H1|].
      + unfold mu. cbn [ctx_of rank]. apply ltm_sg in H1. destruct (line_end (token c1)); lia.
      + intros o Ho. destruct o; cbn [Post] in Ho; try contradiction; cbn [Post]. destruct Ho as [Ho1 Ho2].
        split; [exact Ho1|]. apply ltm_le in H1. lec.
    - intros c' es Hc Hes.
      set (cu := skip_until KNewline c').
      assert (Hu : sg cu <= sg c).
      { unfold nb in Hc. pose proof (le_sg _ _ (skip_until_le KNewline c')). unfold cu. lia. }
      apply b_call_tail; [exact I| | |].
      + unfold mu. cbn [ctx_of rank].
        destruct (skip_until_stop KNewline c') as [Eo|Nl]; fold cu in Eo || fold cu in Nl.
        * rewrite Eo. cbn [line_end]. lia.
        * apply is_k_tok in Nl. rewrite Nl. cbn [line_end]. lia.
      + intros o Ho. destruct o; cbn [Post] in Ho; try contradiction. destruct Ho as [Ho1 _].
        exfalso. exact (app_nonnil errs es Hes Ho1).
      + intros c2 Hc2. unfold PostE in Hc2. cbn [ctx_of] in Hc2. unfold nb. lia. }
  destruct (token c) as [| | | | | |k|] eqn:Tk; try (apply D; reflexivity).
  - destruct k; try (apply D; reflexivity).
    assert (R : realb (token c) = true) by (rewrite Tk; reflexivity).
    pose proof (skip1_ltm c R) as H1.
    apply b_tail_le; [exact I| |apply ltm_le; exact H1|].
    + unfold mu. cbn [ctx_of rank line_end]. apply ltm_sg in H1. destruct (line_end (token (skip 1 c))); lia.
    + intros o Ho. destruct o; cbn [Post] in Ho; try contradiction; cbn [Post]. destruct Ho as [Ho1 Ho2].
      split; [exact Ho1|]. apply ltm_le in H1. lec.
  - cbn [line_end]. destruct errs as [|e errs'].
    + apply b_ok. cbn [Post]. split; [reflexivity|apply le_refl].
    + apply b_ret. cbn [good]. split; [unfold PostE; cbn [ctx_of]; lia|discriminate].
Qed.

(* every request's step is bounded by the request's own measure *)
Theorem steps_ok : forall q, Pre q -> bounded (mu q) (Post q) (PostE q) (step T q).
Proof.
  intros q P. destruct q; cbn [step].
  - apply step_prec_ok.
  - apply step_loop_ok.
  - apply step_sub_ok.
  - apply step_args_ok.
  - apply step_tuple_ok. exact P.
  - apply step_list_ok.
  - apply step_fields_ok.
  - apply step_elifs_ok.
  - apply step_cases_ok.
  - apply step_params_ok.
  - apply step_type_ok.
  - apply step_sep_types_ok.
  - apply step_fnty_params_ok.
  - apply step_ty_tuple_ok. exact P.
  - apply step_stmts_ok.
  - apply step_stmt_ok.
  - apply step_enum_items_ok.
  - apply step_blob_fields_ok.
  - apply step_module_ok.
Qed.

End Steps.

(* ------------------------------------------------------------------------------------------- *)
(* the entry points *)

(* the fuel [parse_fuel ts = 6 * length ts + 6] (Parser.v) is linear in the number of tokens *)

(* an outcome is a result or a nonempty list of errors; never out of fuel, never an internal failure *)
Definition settled {A : Type} (r : res A) : Prop :=
  match r with
  | Ok _ => True
  | Err _ es => es <> []
  | Fuel => False
  | Panic => False
  end.

Lemma sgl_le ts : sgl ts <= length ts.
Proof. unfold sgl. induction ts as [|x ts IH]; [apply Nat.le_refl|]. cbn [filter]. destruct (not_comment x); cbn [length]; lia. Qed.

Lemma sg_init ts : sg (init ts) <= length ts.
Proof. unfold sg, init. cbn [post]. apply sgl_le. Qed.

Section Entries.
Variable T : ptab.
Hypothesis TOK : total_ok T.

Lemma go_good f q : Pre q -> mu q < f -> good (Post q) (PostE q) (go T f q).
Proof. apply go_total. intros q' P'. apply steps_ok; assumption. Qed.

Lemma rank_le5 q : rank q <= 5.
Proof. destruct q; cbn [rank]; try lia; match goal with |- context [if ?b then _ else _] => destruct b end; lia. Qed.

Lemma mu_init_lt q ts f : ctx_of q = init ts -> parse_fuel ts <= f -> mu q < f.
Proof.
  intros E Hf. unfold mu, parse_fuel in *. rewrite E. pose proof (sg_init ts). pose proof (rank_le5 q). lia.
Qed.

Theorem parse_program_total ts f : parse_fuel ts <= f -> settled (parse_program T f ts).
Proof.
  intros Hf. unfold parse_program.
  pose proof (go_good f (QModule [] [] 0 (init ts)) I (mu_init_lt (QModule [] [] 0 (init ts)) ts f eq_refl Hf)) as G.
  destruct (go T f (QModule [] [] 0 (init ts))) as [o|c es| |]; cbn [good as_Ss settled] in *; try contradiction.
  - destruct o; cbn [Post] in G; try contradiction. exact I.
  - apply G.
Qed.

Theorem parse_statement_total ts f : parse_fuel ts <= f -> settled (parse_statement T f ts).
Proof.
  intros Hf. unfold parse_statement.
  pose proof (go_good f (QStmt (init ts)) I (mu_init_lt (QStmt (init ts)) ts f eq_refl Hf)) as G.
  destruct (go T f (QStmt (init ts))) as [o|c es| |]; cbn [good as_S settled] in *; try contradiction.
  - destruct o; cbn [Post] in G; try contradiction. exact I.
  - apply G.
Qed.

Theorem parse_expression_total ts f : parse_fuel ts <= f -> settled (parse_expression T f ts).
Proof.
  intros Hf. unfold parse_expression.
  pose proof (go_good f (QPrec (pt_entry T) (init ts)) I (mu_init_lt (QPrec (pt_entry T) (init ts)) ts f eq_refl Hf)) as G.
  destruct (go T f (QPrec (pt_entry T) (init ts))) as [o|c es| |]; cbn [good as_E settled] in *; try contradiction.
  - destruct o; cbn [Post] in G; try contradiction. exact I.
  - apply G.
Qed.

Theorem parse_type_total ts f : parse_fuel ts <= f -> settled (parse_type_top T f ts).
Proof.
  intros Hf. unfold parse_type_top.
  pose proof (go_good f (QType (init ts)) I (mu_init_lt (QType (init ts)) ts f eq_refl Hf)) as G.
  destruct (go T f (QType (init ts))) as [o|c es| |]; cbn [good as_T settled] in *; try contradiction.
  - destruct o; cbn [Post] in G; try contradiction. exact I.
  - apply G.
Qed.

Theorem parse_outer_statement_total ts f : parse_fuel ts <= f -> settled (parse_outer_statement T f ts).
Proof.
  intros Hf. unfold parse_outer_statement.
  assert (G : good (fun x : stmt * ctx => ltm (init ts) (snd x)) (nb (init ts))
                   (run (go T f) (outer_statement (init ts)))).
  { apply (run_bounded (6 * sg (init ts) + 5)); [|apply outer_statement_ok; exact TOK].
    intros q P Hm. apply go_good; [exact P|]. unfold parse_fuel in Hf. pose proof (sg_init ts). lia. }
  destruct (run (go T f) (outer_statement (init ts))) as [o|c es| |]; cbn [good settled] in *; try contradiction.
  - exact I.
  - apply G.
Qed.

(* the accepted program was read to the end of the token list *)
Theorem parse_program_ok_at_end ts f ss c : parse_program T f ts = Ok (ss, c) -> token c = TEOF.
Proof.
  unfold parse_program. revert ss c.
  assert (H : forall f acc errs last c0 ss c, go T f (QModule acc errs last c0) = Ok (RSs ss c) -> token c = TEOF).
  { clear f. induction f as [|f IH]; intros acc errs last c0 ss c; [discriminate|].
    rewrite go_S. cbn [step]. unfold step_module.
    assert (D : forall (m : prog (stmt * ctx)) (k1 : stmt * ctx -> prog out) (k2 : ctx -> list nat -> prog out),
               (forall x, exists a e l cx, k1 x = call (QModule a e l cx)) ->
               (forall c' es, exists a e l cx, k2 c' es = call (QModule a e l cx)) ->
               run (go T f) (ptry m k1 k2) = Ok (RSs ss c) -> token c = TEOF).
    { intros m k1 k2 H1 H2. rewrite run_ptry. destruct (run (go T f) m) as [x|c' es| |]; try discriminate.
      - destruct (H1 x) as (a & e & l & cx & ->). unfold call. cbn [run].
        destruct (go T f (QModule a e l cx)) as [o| | |] eqn:G; try discriminate.
        unfold ok. cbn [run]. intros X. inversion X; subst o. eapply IH; exact G.
      - destruct (H2 c' es) as (a & e & l & cx & ->). unfold call. cbn [run].
        destruct (go T f (QModule a e l cx)) as [o| | |] eqn:G; try discriminate.
        unfold ok. cbn [run]. intros X. inversion X; subst o. eapply IH; exact G. }
    assert (D' : run (go T f)
                   (ptry (outer_statement c0) (fun '(s, c1) => call (QModule (acc ++ [s]) errs (consumed c1) c1))
                      (fun c' es => call (QModule acc (errs ++ es) last (skip_until KNewline c')))) = Ok (RSs ss c) ->
                 token c = TEOF).
    { apply D; [intros [s c1]; eauto 6|intros c' es; eauto 6]. }
    destruct (token c0) as [| | | | | |k|] eqn:Tk; try exact D'.
    - destruct k; try exact D'. unfold call. cbn [run].
      destruct (go T f (QModule acc errs last (skip 1 c0))) as [o| | |] eqn:G; try discriminate.
      unfold ok. cbn [run]. intros X. inversion X; subst o. eapply IH; exact G.
    - destruct errs; cbn [run ok]; [|discriminate]. intros X. inversion X; subst. exact Tk. }
  intros ss c E. destruct (go T f (QModule [] [] 0 (init ts))) as [o| | |] eqn:G; cbn [as_Ss] in E; try discriminate.
  destruct o; try discriminate. inversion E; subst. eapply H; exact G.
Qed.

End Entries.

(* ------------------------------------------------------------------------------------------- *)
(* the side condition holds of every table read through [interp] whose postfix tokens are the four
   that sub_assignable dispatches on *)

Definition postfix_names_ok (r : raw) : bool :=
  forallb (fun k => implb (mem (kw_name k) (r_postfix r)) (postfix_tok (TK k))) all_kw.

Lemma all_kw_complete k : In k all_kw.
Proof. destruct k; vm_compute; tauto. Qed.

Lemma total_ok_interp r : postfix_names_ok r = true -> total_ok (interp r).
Proof.
  intros H. unfold total_ok. repeat split.
  - intros t u. destruct t; cbn; try discriminate; reflexivity.
  - intros t o. destruct t; cbn; try discriminate; reflexivity.
  - intros t. destruct t as [| | | | | |k|]; cbn [interp pt_postfix tok_name]; try discriminate.
    intros Hm. unfold postfix_names_ok in H. rewrite forallb_forall in H.
    specialize (H k (all_kw_complete k)). rewrite Hm in H. exact H.
  - intros t. destruct t; cbn; try discriminate; reflexivity.
Qed.

(* ------------------------------------------------------------------------------------------- *)
(* The one place where the parser moves its cursor BACK and hands the context on: the `loop` arm steps back
   onto the newline that ended its body, and the statement's own expect!(Newline) then consumes that newline
   again.  That second step lands exactly where the body ended ([prev_then_skip]), so the position never
   falls below the `last_statement` mark the body left there: `curr - last_statement` in
   Context::comments_since_last_statement is 0 at that point (the model itself has no last_statement; this is
   the fact an overflow-checked build depends on). *)

Definition is_comment (t : tok) : bool := match t with TComment => true | _ => false end.

(* the current token is one the cursor can rest on: not a comment, and not a newline while newlines are skipped *)
Definition head_ok (c : ctx) : Prop :=
  match post c with
  | [] => True
  | t :: _ => t <> TComment /\ (nl c = true -> t <> TK KNewline)
  end.

Lemma strip_comments b : forall cs tl p, forallb is_comment cs = true ->
  strip b (cs ++ tl) p = strip b tl (rev cs ++ p).
Proof.
  induction cs as [|x cs IH]; intros tl p H; [reflexivity|].
  cbn [forallb] in H. apply andb_prop in H. destruct H as [Hx H]. destruct x; try discriminate Hx.
  cbn [app strip rev]. rewrite IH by exact H. rewrite <- app_assoc. reflexivity.
Qed.

Lemma strip_head_ok b tl p :
  match tl with [] => True | t :: _ => t <> TComment /\ (b = true -> t <> TK KNewline) end ->
  strip b tl p = (p, tl).
Proof.
  destruct tl as [|t tl]; [reflexivity|]. intros [H1 H2]. cbn [strip].
  destruct t as [| | | | | |k|]; try reflexivity; [congruence|].
  destruct k; try reflexivity. destruct b; [exfalso; apply H2; reflexivity|reflexivity].
Qed.

Lemma strip_result_head b : forall ts p,
  match snd (strip b ts p) with [] => True | t :: _ => t <> TComment /\ (b = true -> t <> TK KNewline) end.
Proof.
  induction ts as [|t ts IH]; intros p; [exact I|]. cbn [strip].
  destruct t as [| | | | | |k|]; try (cbn [snd]; split; [discriminate|intros _; discriminate]); [apply IH|].
  destruct k; try (cbn [snd]; split; [discriminate|intros _; discriminate]).
  destruct b; [apply IH|]. cbn [snd]. split; [discriminate|intros X; discriminate].
Qed.

Lemma skip_head_ok n c : head_ok (skip n c).
Proof.
  unfold skip, head_ok. destruct (adv (post c) n (pre c)) as [[p1 q1] l1].
  pose proof (strip_result_head (nl c) q1 p1) as H. destruct (strip (nl c) q1 p1) as [p2 q2].
  cbn [post nl snd] in *. exact H.
Qed.

Lemma head_ok_pop_false c : head_ok c -> head_ok (pop_nl false c).
Proof.
  unfold head_ok, pop_nl, set_nl. cbn [post nl]. destruct (post c) as [|t ts]; [trivial|].
  intros [H _]. split; [exact H|discriminate].
Qed.

Lemma unwind_shape : forall pre x cs tl p1 p2, forallb is_comment cs = true ->
  unwind pre (x :: cs ++ tl) = Some (p1, p2) ->
  exists t cs', forallb is_comment cs' = true /\ not_comment t = true /\ p2 = t :: cs' ++ tl
                /\ rev cs' ++ t :: p1 = rev cs ++ x :: pre.
Proof.
  induction pre as [|t0 pre IH]; intros x cs tl p1 p2 Hc U.
  - destruct x; cbn [unwind] in U; try discriminate U; inversion U; subst;
      (eexists; exists cs; split; [exact Hc|split; [|split; reflexivity]]; reflexivity).
  - destruct x; cbn [unwind] in U;
      try (inversion U; subst; eexists; exists cs; split; [exact Hc|split; [|split; reflexivity]]; reflexivity).
    (* x is a comment: one more step back *)
    change (t0 :: TComment :: cs ++ tl) with (t0 :: (TComment :: cs) ++ tl) in U.
    destruct (IH t0 (TComment :: cs) tl p1 p2 ltac:(cbn [forallb is_comment]; exact Hc) U)
      as (t & cs' & H1 & H2 & H3 & H4).
    exists t, cs'. split; [exact H1|split; [exact H2|split; [exact H3|]]].
    rewrite H4. cbn [rev]. rewrite <- app_assoc. reflexivity.
Qed.

(* stepping back and then over one token returns to the same context *)
Theorem prev_then_skip c cp : head_ok c -> pre c <> [] -> over c = 0 -> prev c = Some cp -> skip 1 cp = c.
Proof.
  intros Hh Hne Ho Hp. unfold prev in Hp. destruct c as [pr po ov b]. cbn [pre post over nl] in *. subst ov.
  destruct pr as [|t0 pr0]; [congruence|].
  destruct (unwind pr0 (t0 :: po)) as [[p1 p2]|] eqn:U; [|discriminate]. inversion Hp; subst cp. clear Hp.
  destruct (unwind_shape pr0 t0 [] po p1 p2 eq_refl U) as (t & cs' & H1 & H2 & H3 & H4).
  cbn [rev app] in H4. subst p2.
  unfold skip. cbn [pre post over nl adv].
  assert (A : adv (cs' ++ po) match t with TComment => 1 | _ => 0 end (t :: p1) = (t :: p1, cs' ++ po, 0)).
  { destruct t; try discriminate H2; destruct (cs' ++ po); reflexivity. }
  rewrite A. rewrite (strip_comments b cs' po (t :: p1) H1), H4.
  rewrite (strip_head_ok b po (t0 :: pr0) Hh). reflexivity.
Qed.

(* in the loop arm: the body ended at c3 (a context produced by skip and a pop to "newlines count"); if the
   token before it is the newline, the statement's expect!(Newline) brings the cursor back to c3 itself *)
Theorem loop_prev_returns n c0 cp : let c3 := pop_nl false (skip n c0) in
  pre c3 <> [] -> over c3 = 0 -> prev c3 = Some cp -> is_k KNewline cp = true ->
  expect KNewline cp = Ok c3.
Proof.
  intros c3 Hne Ho Hp Hk. unfold expect. rewrite Hk.
  rewrite (prev_then_skip c3 cp); [reflexivity| |exact Hne|exact Ho|exact Hp].
  apply head_ok_pop_false. apply skip_head_ok.
Qed.
