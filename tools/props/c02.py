"""C02 -- type soundness: accepted programs never hit dynamic type errors."""
import collections
import re

import typed_gen as tg
import vlib
from props import c03 as base

GEN = ["GenSrcDigest"]
TRUSTED = base.TRUSTED + [
    "tools/lua_run.py (LuaCore, Lua 5.3 reference dialect) as the interpreter that runs the real emitted Lua and the real "
    "preamble.lua; the class of a run-time failure is read off its error message",
]
ASSUMPTIONS = base.ASSUMPTIONS + [
    "programs use no `external` declarations other than `print` and no unsafe_force",
    "a dynamic type error is a Lua error whose message says: attempt to perform arithmetic / concatenate / call / index / "
    "compare, or the preamble's 'Accessing fields ... which doesn't exist', or a read of an undefined variable (nil callee / "
    "nil operand); Sylt-defined failures are: 'Assert failed!' (<=>), '!!CRASH!!' / unreachable (<!>), list index out of "
    "range, and running out of fuel",
]
EXPLANATION = ("Theorem: soundness of the checker for closed expressions over literals, arithmetic, comparisons, boolean operators, "
               "tuples, lists and if-expressions against a tagged evaluator (C02_E0, as far as proved; see Props/C02.v); the full "
               "statement is refuted by the known holes (function-typed parameters re-instantiated at every read; a type name read "
               "as a value).  Oracle: well-typed generated programs and type-perturbed variants of them that the REAL compiler "
               "accepts are run (real emitted Lua + real preamble, LuaCore): no dynamic type error may occur.")

_m = base._m
build = base.build

DYN = re.compile(r"attempt to (perform arithmetic|concatenate|call|index|compare)|Accessing fields|bad argument|"
                 r"number expected|string expected|table expected")
SYLT_DEFINED = re.compile(r"Assert failed!|!!CRASH!!|index out of range|[Uu]nreachable")


def perturbed(ctx, t, bi, n):
    """type-perturbed variants: one literal replaced by a literal of another type; one argument / field initialiser / operand
    replaced by a literal of another type"""
    r = vlib.rng(ctx.seed, "c02-%d" % bi)
    out = []
    for desc, p in tg.perturbations(t, r, n):
        out.append((desc, tg.render(t, perturb=p)))
    es = [(i, info) for i, info in tg.slots(t, "E")]
    for _ in range(n):
        if not es:
            break
        i, info = r.choice(es)
        ty = info.split("|")[-1]
        other = {"int": '"p"', "float": "7", "str": "3", "bool": "1"}.get(ty, "1")
        out.append(("slot %s of type %s -> %s" % (tg.info_dict(info)["where"], ty, other), tg.render(t, plant_e=(i, other))))
    # the neighbourhood of the known holes: generic helpers instantiated at types their bodies cannot handle
    ss = [(i, info) for i, info in tg.slots(t, "S") if tg.info_dict(info)["where"] != "global" and tg.info_dict(info).get("pure") != "1"]
    for stmt in ("zgcmp(true, false)", 'zglocal("a")', 'zgtup("a", true)', 'zgadd(1, "a")', 'print(zgdiv("a"))', 'print(zgdiv2(2, "a"))'):
        if ss:
            i, info = r.choice(ss)
            out.append(("generic helper instantiated badly: " + stmt, tg.render(t, plant_s=(i, [stmt]))))
    # generic helpers whose deferred operator / field constraint sits on a variable NESTED in a function type: instantiated
    # badly through a higher-order argument, a tuple component, a blob field (and the well-typed controls, which must run)
    for stmt in ('print(ztwice(zgneg1, "ab"))', 'print(zrunt((zgbump, 0)))', 'print(zrunb(Zhf { h: zgneg1 }))',
                 'print(ztwice(fn x -> do (-x) end, "ab"))',
                 'print(ztwice(zgdbl, "ab"))', 'print(zrunt((zgbumpa, 0)))', 'print(zrunb(Zhf { h: zgdbl }))'):
        if ss:
            i, info = r.choice(ss)
            out.append(("generic helper instantiated through a nested type: " + stmt, tg.render(t, plant_s=(i, [stmt]))))
    # a local defined as a call that takes a function literal: the other arguments are resolved BEFORE the new variable
    # exists (well typed when an outer variable of that name exists, an unresolved name otherwise)
    for lines in (['zsh := 5', 'if true do', '    zsh := zapply(fn x: int -> int do x + 1 end, zsh)', '    print(zsh + 1)', 'end'],
                  ['zsh2 := zapply(fn x: int -> int do x + 1 end, zsh2)', 'print(zsh2 + 1)'],
                  ['zsh3 := 2', 'zf3 :: fn do', '    zsh3 := zapply(fn x: int -> int do x * 2 end, zsh3) + 1', '    print(zsh3)', 'end', 'zf3()']):
        if ss:
            i, info = r.choice(ss)
            out.append(("definition through a wrapper call: " + lines[0], tg.render(t, plant_s=(i, lines))))
    # the name of a blob / an enum used as a value (the emitted Lua would read a variable that is never defined)
    for lines in (['Zb.a = 3'], ['print(Zb.a + 1)'], ['zt1 := Zb', 'print(zt1.a + 1)'], ['zt2 :: Ze', 'print(zt2 == zt2)', 'zt2.P']):
        if ss:
            i, info = r.choice(ss)
            out.append(("type name as a value: " + lines[0], tg.render(t, plant_s=(i, lines))))
    # a field the blob does not have, read through `self` in a method and used
    for lines in (['zs5 :: Zs { n: 1, get: fn -> int do self.nope_field end }', 'print(zs5.get() + 1)'],
                  ['zs5 :: Zs { n: 1, get: fn -> int do', '    zg :: fn -> int do self.nope_field end', '    zg()', 'end }', 'print(zs5.get() + 1)'],
                  ['zs5 :: Zs { n: 1, get: fn -> str do self.n end }', 'print(zs5.get() + "s")']):
        if ss:
            i, info = r.choice(ss)
            out.append(("self used at a type the instance does not have: " + lines[0][:60], tg.render(t, plant_s=(i, lines))))
    # tuple arithmetic whose components cannot be subtracted / multiplied (the runtime does it component by component),
    # directly, one level down, in a compound assignment and through a generic helper -- and the numeric control
    for lines in (['print(("left", 1) - ("right", 2))'], ['print((1.0, (2, "two")) * (3.0, (4, "four")))'],
                  ['zt1 := ("b", 2)', 'zt1 -= ("a", 1)', 'print(zt1)'],
                  ['zts :: fn p, q -> do', '    (p, 1) - (q, 2)', 'end', 'print(zts("a", "b"))'],
                  ['ztm :: fn p, q -> do', '    (p, 1) * (q, 2)', 'end', 'print(ztm(1, 2))', 'print((1, 2.0) - (3, 4.0))']):
        if ss:
            i, info = r.choice(ss)
            out.append(("tuple arithmetic component-wise: " + lines[0][:50], tg.render(t, plant_s=(i, lines))))
    # a function with a declared result whose body ends in a definition (no value), the result used
    for lines in (['zvl :: fn -> int do', '    zl := [1]', 'end', 'print(zvl() + 1)'],
                  ['zvl :: fn -> int do', '    zb :: Zb { a: 1, b: "x" }', 'end', 'print(zvl() + 1)'],
                  ['zvl :: fn -> str do', '    zq := 1', 'end', 'print(zvl() + "s")']):
        if ss:
            i, info = r.choice(ss)
            out.append(("declared result, body ends in a definition: " + lines[1].strip(), tg.render(t, plant_s=(i, lines))))
    # the value of an if / case expression one of whose branches ends without a value, used
    for lines in (['zv1 := 0', 'zv2 := if false do', '    1', 'else do', '    zv1 = 2', 'end', 'print(zv2 + 1)'],
                  ['zv3 := case ZEV do', '    P x -> zq :: x end', '    Q -> 1 end', 'end', 'print(zv3 + 1)'],
                  ['zvf :: fn c: bool -> int do', '    if c do', '        1', '    else do', '        zq :: 2', '    end', 'end',
                   'print(zvf(false) + 1)'],
                  # the branch ends in a nested `do ... end` block (whatever that block ends in, the branch has no value)
                  ['zv1 := 0', 'zv2 := if false do', '    1', 'else do', '    do', '        2', '    end', 'end', 'print(zv2 + 1)'],
                  ['zv1 := 0', 'zv2 := if false do', '    1', 'else do', '    do', '        do', '            zv1 + 2', '        end', '    end', 'end',
                   'print(zv2 + 1)'],
                  ['zvf :: fn c: bool -> int do', '    if c do', '        1', '    else do', '        do', '            2', '        end', '    end', 'end',
                   'print(zvf(false) + 1)'],
                  ['zv3 := case ZEV do', '    P x ->', '        do', '            x', '        end', '    end', '    Q -> 1 end', 'end',
                   'print(zv3 + 1)']):
        if ss:
            i, info = r.choice(ss)
            out.append(("valueless branch used: " + lines[1], tg.render(t, plant_s=(i, lines))))
    return out


def classify_run(o):
    if o["final"] == "done":
        return "done"
    if o["final"] == "fuel":
        return "fuel"
    if o["final"] in ("unsupported", "loaderr", "crash"):
        return "interpreter:" + o["final"]
    msg = o["msg"]
    if SYLT_DEFINED.search(msg):
        return "sylt-defined failure"
    if DYN.search(msg):
        return "DYNAMIC TYPE ERROR"
    return "other error"


def classify_violation(src):
    if "zgcmp(true" in src or 'zglocal("a")' in src:
        return "C02-generic-component-constraint"
    return None


def sweep(ctx):
    import lua_run
    nb = 16 if ctx.tier == "quick" else 80
    bs = base.bases(ctx, nb, salt="c02base")
    srcs, meta = [], []
    for bi, (t, g) in enumerate(bs):
        srcs.append(tg.render(t))
        meta.append((bi, "base"))
        for desc, s in perturbed(ctx, t, bi, 6 if ctx.tier == "quick" else 12):
            srcs.append(s)
            meta.append((bi, desc))
    # multi-file programs: same-named blobs with different field sets in two modules
    fam = tg.multi_file_blob_cases(vlib.rng(ctx.seed, "c02-multi"), 24 if ctx.tier == "quick" else 200)
    extras = [None] * len(srcs)
    for desc, m, ex, must_reject in fam:
        srcs.append(m)
        extras.append(ex)
        meta.append((-1, "multi-file " + desc))
    res = vlib.harness("compile", [tg.case_line(s, extra=ex) for s, ex in zip(srcs, extras)])
    stats = collections.Counter()
    run_src, run_meta, luas = [], [], []
    for (bi, desc), s, l in zip(meta, srcs, res):
        kind = "base" if desc == "base" else "perturbed"
        if l.startswith("OK"):
            stats[kind + " accepted"] += 1
            luas.append(vlib.unhex(l[3:]).decode("utf-8", "replace"))
            run_src.append(s)
            run_meta.append((bi, desc))
        else:
            stats[kind + " rejected"] += 1
    viol = []
    outcomes = collections.Counter()
    try:
        outs = lua_run.run_lua(luas, fuel=200000)
    except Exception as e:
        return viol, {"stats": dict(stats), "lua": "unavailable: %s" % str(e)[:200]}
    for (bi, desc), s, o in zip(run_meta, run_src, outs):
        c = classify_run(o)
        outcomes[("base: " if desc == "base" else "perturbed: ") + c] += 1
        if c == "DYNAMIC TYPE ERROR":
            viol.append((classify_violation(s), desc, s, o["msg"][:200]))
    return viol, {"stats": dict(stats), "run_outcomes": dict(outcomes), "programs_run": len(luas)}


def nested_programs():
    """Deeply nested statements and expressions (40-60 levels): since /repo f1d69d9 the last expression of a block is
    checked once; before, every level doubled the work (24 nested ifs: 18 s).  Each must compile within the watchdog."""
    out = []
    for depth in (40, 50, 60):
        def wrap(open_line, close_line, core, d=depth):
            lines = ["start :: fn do", "    x := 0"]
            for i in range(d):
                lines.append("    " + "  " * i + open_line)
            lines.append("    " + "  " * d + core)
            for i in reversed(range(d)):
                lines.append("    " + "  " * i + close_line)
            lines.append("    x <=> 1")
            lines.append("end")
            return "\n".join(lines) + "\n"
        out.append(("nested-if-%d" % depth, wrap("if true do", "end", "x = x + 1")))
        out.append(("nested-block-%d" % depth, wrap("do", "end", "x = x + 1")))
        out.append(("nested-loop-%d" % depth, wrap("loop x < 1 do", "end", "x = x + 1")))
        # the value of every level is the last expression of the inner block
        e = "1"
        for i in range(depth):
            e = "if true do %s else 0 end" % e
        out.append(("nested-if-expression-%d" % depth, "start :: fn do\n    x := %s\n    x <=> 1\nend\n" % e))
        mixed = ["start :: fn do", "    x := 0"]
        opens = ["if true do", "do", "loop x < 1 do"]
        for i in range(depth):
            mixed.append("    " + "  " * i + opens[i % 3])
        mixed.append("    " + "  " * depth + "x = x + 1")
        for i in reversed(range(depth)):
            mixed.append("    " + "  " * i + "end")
        mixed += ["    x <=> 1", "end"]
        out.append(("nested-mixed-%d" % depth, "\n".join(mixed) + "\n"))
    # closures handed to a higher-order function, each calling the one before twice (since /repo 8ab9717 a copy of a type
    # does not follow the constraints of basic types: before, every read of a function value copied everything its ints
    # had ever been combined with -- 20 nested closures: 42 s and 25 GB)
    for n in (20, 30):
        ls = ["zap :: fn f: fn int -> int, x: int -> int do", "    f(x)", "end", "start :: fn do",
              "    c0 :: fn x: int -> int do x + 1 end"]
        for i in range(1, n + 1):
            ls.append("    c%d :: fn x: int -> int do zap(c%d, x) + c%d(x) end" % (i, i - 1, i - 1))
        ls += ["    zap(c%d, 1)" % n, "end"]
        out.append(("closures-hof-%d" % n, "\n".join(ls) + "\n"))
    return out


def nesting_probe(ctx):
    progs = nested_programs()
    res = vlib.harness("compile", [tg.case_line(s) for _, s in progs])
    dist = collections.Counter()
    for (name, s), l in zip(progs, res):
        k = l.split(" ", 1)[0]
        dist[k] += 1
        if k != "OK":
            ctx.brk("oracle:C02-nesting", "%s: a well-typed program with deeply nested blocks must compile within the "
                    "watchdog; harness says: %s" % (name, l[:200]))
    return {"programs": len(progs), "outcomes": dict(dist)}


def tie(ctx):
    nb = 16 if ctx.tier == "quick" else 80
    bs = base.bases(ctx, nb, salt="c02base")
    cases = base.corpus_cases("C02")
    cases += [("nesting:" + name, tg.case_line(src)) for name, src in nested_programs() if name.endswith("-40")]
    for bi, (t, g) in enumerate(bs):
        for j, (desc, s) in enumerate(perturbed(ctx, t, bi, 6 if ctx.tier == "quick" else 12)):
            cases.append(("perturbed:%d:%d" % (bi, j), tg.case_line(s)))
    recs = base.tie_run(cases)
    return base.summarize_tie("typecheck", recs,
                              "corpus + type-perturbed variants of generated well-typed programs (the almost-well-typed stream); "
                              "compared: accept/reject and kind, file, line of the first error; distinct by label")


def always(ctx):
    viol, dist = sweep(ctx)
    ctx.c02_viol = viol
    known = base.known_ids("C02")
    unknown = [v for v in viol if v[0] is None or v[0] not in known]
    for v in unknown[:3]:
        ctx.brk("oracle:C02", "%s: accepted, then at run time: %s\n%s" % (v[1], v[3], v[2]))
    return {"oracle_distribution": dist, "oracle_unclassified_violations": len(unknown),
            "oracle_violations_by_class": dict(collections.Counter(str(v[0]) for v in viol)),
            "nesting_probe": nesting_probe(ctx)}


def search(ctx):
    viol = getattr(ctx, "c02_viol", None)
    if viol is None:
        viol, _ = sweep(ctx)
    known = base.known_ids("C02")
    unknown = [v for v in viol if v[0] is None or v[0] not in known]
    if not unknown:
        return None
    unknown.sort(key=lambda v: len(v[2]))
    cls, desc, src, msg = unknown[0]
    return {"source": src, "what": "accepted by the compiler; dynamic type error at run time: " + msg, "perturbation": desc,
            "failing_inputs_found": len(unknown)}


def run_one(src):
    import lua_run
    l = vlib.harness("compile", [tg.case_line(src)])[0]
    if not l.startswith("OK"):
        return "rejected", ""
    o = lua_run.run_lua([vlib.unhex(l[3:]).decode("utf-8", "replace")], fuel=200000)[0]
    return classify_run(o), o["msg"]


def replay_known(ctx, kf):
    src = (kf.get("witness") or {}).get("source")
    if not src:
        return True
    c, msg = run_one(src)
    return c == "DYNAMIC TYPE ERROR"


def replay(ctx, rep):
    fi = rep.get("failing_input") or {}
    if not fi:
        print("nothing to replay: no failing input in this file")
        return 0
    vlib.build_harness()
    c, msg = run_one(fi["source"])
    print("replay:", c, msg[:200])
    return 1 if c == "DYNAMIC TYPE ERROR" else 0
