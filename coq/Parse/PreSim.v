(* C14 loop_do, unconditional: the statement parser does not depend on the tokens behind the cursor.
   Two contexts are related ([R]) when they agree on the tokens ahead, the past-the-end count and the newline
   flag, and their [pre] lists are [m ++ P] and [m ++ P'] for a common front part [m].  Every step function
   maps related requests to related programs ([prel]); Context::prev stays inside [m] because whoever calls it
   has consumed a non-comment token first (ParserTotal: [ltm]); error positions ([consumed]) differ, but only
   the LENGTH of an error list is ever looked at. *)
From Coq Require Import List NArith Bool Arith Lia.
From Sylt Require Import Syntax.Ast Syntax.Tok Parse.PrecTable Parse.Parser Parse.ParserProofs Parse.ParserTotal
  Parse.OpTree Parse.ExprRoundTrip Parse.Sugar.
Import ListNotations.

(* ------------------------------------------------------------------------------------------- *)
(* the primitives only ever push onto [pre] *)

Lemma adv_app : forall ts n p,
  adv ts n p = (fst (fst (adv ts n [])) ++ p, snd (fst (adv ts n [])), snd (adv ts n [])).
Proof.
  induction ts as [|t ts IH]; intros n p.
  - destruct n; reflexivity.
  - destruct n; [reflexivity|]. cbn [adv].
    rewrite (IH _ (t :: p)), (IH _ [t]). cbn [fst snd]. rewrite <- app_assoc. reflexivity.
Qed.

Lemma strip_app b : forall ts p,
  strip b ts p = (fst (strip b ts []) ++ p, snd (strip b ts [])).
Proof.
  induction ts as [|t ts IH]; intros p; [reflexivity|].
  cbn [strip].
  destruct t as [s|s|z|s|b0| |k|]; try reflexivity.
  - rewrite (IH (TComment :: p)), (IH [TComment]). cbn [fst snd]. rewrite <- app_assoc. reflexivity.
  - destruct k; try reflexivity. destruct b; [|reflexivity].
    rewrite (IH (TK KNewline :: p)), (IH [TK KNewline]). cbn [fst snd]. rewrite <- app_assoc. reflexivity.
Qed.

Section PS.
Variables P P' : list tok.

Definition R (c c' : ctx) : Prop :=
  post c = post c' /\ over c = over c' /\ nl c = nl c' /\ exists m, pre c = m ++ P /\ pre c' = m ++ P'.

Lemma R_token c c' : R c c' -> token c' = token c.
Proof. intros (H & _). unfold token. rewrite H. reflexivity. Qed.

Lemma R_is_k k c c' : R c c' -> is_k k c' = is_k k c.
Proof. intros H. unfold is_k. rewrite (R_token _ _ H). reflexivity. Qed.

Lemma R_nl c c' : R c c' -> nl c' = nl c.
Proof. intros (_ & _ & H & _). symmetry. exact H. Qed.

Lemma R_len c c' : R c c' -> length (post c') = length (post c).
Proof. intros (H & _). rewrite H. reflexivity. Qed.

Lemma R_skip n c c' : R c c' -> R (skip n c) (skip n c').
Proof.
  intros (Hp & Ho & Hn & m & Hm & Hm'). unfold skip. rewrite <- Hp, <- Ho, <- Hn, Hm, Hm'.
  rewrite (adv_app (post c) n (m ++ P)), (adv_app (post c) n (m ++ P')).
  destruct (adv (post c) n []) as [[p1 q1] l1]. cbn [fst snd].
  rewrite (strip_app (nl c) q1 (p1 ++ m ++ P)), (strip_app (nl c) q1 (p1 ++ m ++ P')).
  destruct (strip (nl c) q1 []) as [p2 q2]. cbn [fst snd].
  unfold R. cbn [pre post over nl]. repeat split.
  exists (p2 ++ p1 ++ m). rewrite <- !app_assoc. split; reflexivity.
Qed.

Lemma R_set_nl b c c' : R c c' -> R (set_nl b c) (set_nl b c').
Proof. intros (Hp & Ho & Hn & m & Hm & Hm'). unfold R, set_nl. cbn [pre post over nl]. repeat split; eauto. Qed.

Lemma R_pop_nl b b' c c' : b = b' -> R c c' -> R (pop_nl b c) (pop_nl b' c').
Proof. intros <-. apply R_set_nl. Qed.

Lemma R_push_fst b c c' : R c c' -> R (fst (push_nl b c)) (fst (push_nl b c')).
Proof. intros H. unfold push_nl. cbn [fst]. apply R_skip. apply R_set_nl. exact H. Qed.

Lemma R_push_snd b c c' : R c c' -> snd (push_nl b c') = snd (push_nl b c).
Proof. intros H. unfold push_nl. cbn [snd]. apply R_nl. exact H. Qed.

Lemma R_skip_if k c c' : R c c' -> R (skip_if k c) (skip_if k c').
Proof.
  intros H. unfold skip_if. rewrite (R_is_k k _ _ H). destruct (is_k k c); [apply R_skip|]; exact H.
Qed.

Lemma R_skip_while : forall f c c', R c c' -> R (skip_while_nl f c) (skip_while_nl f c').
Proof.
  induction f as [|f IH]; intros c c' H; [exact H|]. cbn [skip_while_nl].
  rewrite (R_is_k _ _ _ H). destruct (is_k KNewline c); [apply IH; apply R_skip|]; exact H.
Qed.

Lemma R_skip_nls c c' : R c c' -> R (skip_nls c) (skip_nls c').
Proof. intros H. unfold skip_nls, local_fuel. rewrite (R_len _ _ H). apply R_skip_while. exact H. Qed.

Lemma R_skip_until_f k : forall f c c', R c c' -> R (skip_until_f f k c) (skip_until_f f k c').
Proof.
  induction f as [|f IH]; intros c c' H; [exact H|]. cbn [skip_until_f].
  rewrite (R_token _ _ H), (R_is_k _ _ _ H).
  destruct (token c); try exact H; (destruct (is_k k c); [exact H|apply IH; apply R_skip; exact H]).
Qed.

Lemma R_skip_until k c c' : R c c' -> R (skip_until k c) (skip_until k c').
Proof. intros H. unfold skip_until, local_fuel. rewrite (R_len _ _ H). apply R_skip_until_f. exact H. Qed.

Lemma R_after_arg c c' : R c c' -> R (after_arg c) (after_arg c').
Proof.
  intros H. unfold after_arg. cbv zeta.
  rewrite (R_token _ _ H), (R_token _ _ (R_skip_nls _ _ H)).
  destruct (tok_is KComma (token c) || tok_is KNewline (token c) && tok_is KComma (token (skip_nls c))).
  - apply R_skip_nls. apply R_skip. apply R_skip_nls. exact H.
  - exact H.
Qed.

(* ---- prev ---- *)

Lemma unwind_front : forall l post, mark l ->
  exists l1 p1, forall Y, unwind (l ++ Y) post = Some (l1 ++ Y, p1).
Proof.
  induction l as [|x l IH]; intros post Hm; [discriminate|].
  assert (Stop : exists l1 p1, forall Y : list tok, Some ((x :: l) ++ Y, post) = Some (l1 ++ Y, p1))
    by (exists (x :: l), post; reflexivity).
  destruct post as [|t post].
  { exists (x :: l), []. intros Y. destruct ((x :: l) ++ Y); reflexivity. }
  destruct t; try (exists (x :: l), (TIdent s :: post); intros Y; reflexivity);
    try (exists (x :: l), (TStr s :: post); intros Y; reflexivity);
    try (exists (x :: l), (TInt z :: post); intros Y; reflexivity);
    try (exists (x :: l), (TFloat text :: post); intros Y; reflexivity);
    try (exists (x :: l), (TBool b :: post); intros Y; reflexivity);
    try (exists (x :: l), (TK k :: post); intros Y; reflexivity);
    try (exists (x :: l), (TEOF :: post); intros Y; reflexivity).
  (* a comment ahead: step back over x *)
  cbn [app unwind]. unfold mark in Hm. cbn [existsb] in Hm.
  destruct (not_comment x) eqn:Nx.
  - (* x is where prev stops *)
    exists l, (x :: TComment :: post). intros Y.
    destruct x; try discriminate Nx; destruct (l ++ Y); reflexivity.
  - cbn [orb] in Hm. destruct (IH (x :: TComment :: post) Hm) as (l1 & p1 & H). exists l1, p1. exact H.
Qed.

Lemma R_prev c c' l X X' :
  R c c' -> pre c = l ++ X -> pre c' = l ++ X' -> mark l ->
  (exists mx, X = mx ++ P /\ X' = mx ++ P') ->
  exists cp cp', prev c = Some cp /\ prev c' = Some cp' /\ R cp cp'.
Proof.
  intros (Hp & Ho & Hn & _) Hl Hl' Hm (mx & -> & ->). unfold prev. rewrite <- Ho, <- Hp, <- Hn, Hl, Hl'.
  destruct (over c) as [|o].
  - destruct l as [|x l]; [discriminate|]. cbn [app].
    unfold mark in Hm. cbn [existsb] in Hm.
    destruct (not_comment x) eqn:Nx.
    + assert (U : forall Y, unwind (l ++ Y) (x :: post c) = Some (l ++ Y, x :: post c))
        by (intros Y; destruct x; try discriminate Nx; destruct (l ++ Y); reflexivity).
      rewrite !U. eexists. eexists. split; [reflexivity|split; [reflexivity|]].
      unfold R. cbn [pre post over nl]. repeat split. exists (l ++ mx). rewrite <- !app_assoc. split; reflexivity.
    + cbn [orb] in Hm. destruct (unwind_front l (x :: post c) Hm) as (l1 & p1 & U).
      rewrite !U. eexists. eexists. split; [reflexivity|split; [reflexivity|]].
      unfold R. cbn [pre post over nl]. repeat split. exists (l1 ++ mx). rewrite <- !app_assoc. split; reflexivity.
  - eexists. eexists. split; [reflexivity|split; [reflexivity|]].
    unfold R. cbn [pre post over nl]. repeat split. exists (l ++ mx). rewrite <- !app_assoc. split; reflexivity.
Qed.

(* the form in which it is used: both contexts are strictly after related contexts *)
Lemma R_prev_ltm c2 c2' c c' :
  R c2 c2' -> ltm c2 c -> ltm c2' c' -> R c c' ->
  exists cp cp', prev c = Some cp /\ prev c' = Some cp' /\ R cp cp'.
Proof.
  intros (_ & _ & _ & m2 & H2 & H2') (_ & l & Hl & Ml) (_ & l' & Hl' & _) HR.
  destruct HR as (Hp & Ho & Hn & m & Hm & Hm').
  assert (E1 : m = l ++ m2).
  { rewrite H2, app_assoc in Hl. rewrite Hm in Hl. apply app_inv_tail in Hl. exact Hl. }
  assert (E2 : m = l' ++ m2).
  { rewrite H2', app_assoc in Hl'. rewrite Hm' in Hl'. apply app_inv_tail in Hl'. exact Hl'. }
  assert (l = l') by (rewrite E1 in E2; apply app_inv_tail in E2; exact E2). subst l'.
  apply (R_prev c c' l (m2 ++ P) (m2 ++ P')).
  - unfold R. repeat split; try assumption. exists m. split; assumption.
  - rewrite Hm, E1, <- app_assoc. reflexivity.
  - rewrite Hm', E1, <- app_assoc. reflexivity.
  - exact Ml.
  - exists m2. split; reflexivity.
Qed.

(* ------------------------------------------------------------------------------------------- *)
(* programs, relationally *)

Definition eR (c : ctx) (es : list nat) (c' : ctx) (es' : list nat) : Prop := R c c' /\ length es = length es'.

Definition resrel {A : Type} (RA : A -> A -> Prop) (r r' : res A) : Prop :=
  match r, r' with
  | Ok a, Ok a' => RA a a'
  | Err c es, Err c' es' => eR c es c' es'
  | Fuel, Fuel => True
  | Panic, Panic => True
  | _, _ => False
  end.

(* a result paired with the context after it *)
Definition XR {A : Type} (x x' : A * ctx) : Prop := fst x = fst x' /\ R (snd x) (snd x').

Definition unpos (l : list (name * ty * nat)) : list (name * ty) := map fst l.

Definition qrel (q q' : req) : Prop :=
  match q, q' with
  | QPrec p c, QPrec p' c' => p = p' /\ R c c'
  | QLoop p l c, QLoop p' l' c' => p = p' /\ l = l' /\ R c c'
  | QSub a c, QSub a' c' => a = a' /\ R c c'
  | QArgs pr acc c, QArgs pr' acc' c' => pr = pr' /\ acc = acc' /\ R c c'
  | QTuple i acc c, QTuple i' acc' c' => i = i' /\ acc = acc' /\ R c c'
  | QList acc c, QList acc' c' => acc = acc' /\ R c c'
  | QFields acc c, QFields acc' c' => acc = acc' /\ R c c'
  | QElifs acc c, QElifs acc' c' => acc = acc' /\ R c c'
  | QCases acc c, QCases acc' c' => acc = acc' /\ R c c'
  | QParams acc c, QParams acc' c' => acc = acc' /\ R c c'
  | QType c, QType c' => R c c'
  | QSepTypes o c, QSepTypes o' c' => o = o' /\ R c c'
  | QFnTyParams acc c, QFnTyParams acc' c' => acc = acc' /\ R c c'
  | QTyTuple i acc c, QTyTuple i' acc' c' => i = i' /\ acc = acc' /\ R c c'
  | QStmts acc errs c, QStmts acc' errs' c' => acc = acc' /\ length errs = length errs' /\ R c c'
  | QStmt c, QStmt c' => R c c'
  | QEnumItems acc c, QEnumItems acc' c' => unpos acc = unpos acc' /\ R c c'
  | QBlobFields acc c, QBlobFields acc' c' => acc = acc' /\ R c c'
  | _, _ => False      (* the module loop looks at absolute positions; it is not reached from a statement *)
  end.

Definition orel (o o' : out) : Prop :=
  match o, o' with
  | RE e c, RE e' c' => e = e' /\ R c c'
  | RA a c, RA a' c' => a = a' /\ R c c'
  | REs es c, REs es' c' => es = es' /\ R c c'
  | RTup i es c, RTup i' es' c' => i = i' /\ es = es' /\ R c c'
  | RFs fs c, RFs fs' c' => fs = fs' /\ R c c'
  | RIfs bs c, RIfs bs' c' => bs = bs' /\ R c c'
  | RCases bs c, RCases bs' c' => bs = bs' /\ R c c'
  | RParams ps r c, RParams ps' r' c' => ps = ps' /\ r = r' /\ R c c'
  | RT t c, RT t' c' => t = t' /\ R c c'
  | RTs ts c, RTs ts' c' => ts = ts' /\ R c c'
  | RFnTy ps r c, RFnTy ps' r' c' => ps = ps' /\ r = r' /\ R c c'
  | RTyTup i ts c, RTyTup i' ts' c' => i = i' /\ ts = ts' /\ R c c'
  | RSs ss c, RSs ss' c' => ss = ss' /\ R c c'
  | RS s c, RS s' c' => s = s' /\ R c c'
  | RNTs l c, RNTs l' c' => l = l' /\ R c c'
  | REnum l c, REnum l' c' => unpos l = unpos l' /\ R c c'
  | _, _ => False
  end.

(* what a successful statement is known to have done (ParserTotal): consumed a non-comment token *)
Definition UPost (q : req) (o : out) : Prop :=
  match q, o with
  | QStmt c, RS _ c' => ltm c c'
  | _, _ => True
  end.

Inductive prel {A : Type} (RA : A -> A -> Prop) : prog A -> prog A -> Prop :=
| prel_ret r r' : resrel RA r r' -> prel RA (Ret r) (Ret r')
| prel_call q q' k k' e e' :
    qrel q q' ->
    (forall o o', orel o o' -> UPost q o -> UPost q' o' -> prel RA (k o) (k' o')) ->
    (forall c es c' es', eR c es c' es' -> prel RA (e c es) (e' c' es')) ->
    prel RA (Call q k e) (Call q' k' e').

Lemma run_rel {A : Type} (RA : A -> A -> Prop) (rec rec' : req -> res out) :
  (forall q q', qrel q q' -> resrel orel (rec q) (rec' q')) ->
  (forall q o, rec q = Ok o -> UPost q o) -> (forall q o, rec' q = Ok o -> UPost q o) ->
  forall m m', prel RA m m' -> resrel RA (run rec m) (run rec' m').
Proof.
  intros HR HU HU' m m' H. induction H as [r r' Hr|q q' k k' e e' Hq Hk IHk He IHe].
  - exact Hr.
  - cbn [run]. specialize (HR q q' Hq). unfold resrel in HR.
    pose proof (HU q) as U. pose proof (HU' q') as U'.
    destruct (rec q) as [o|c es| |], (rec' q') as [o'|c' es'| |]; try contradiction; try exact I.
    + apply IHk; [exact HR|apply U; reflexivity|apply U'; reflexivity].
    + apply IHe. exact HR.
Qed.

Lemma ptry_rel {A B : Type} (RA : A -> A -> Prop) (RB : B -> B -> Prop) m m' (k k' : A -> prog B)
  (e e' : ctx -> list nat -> prog B) :
  prel RA m m' -> (forall a a', RA a a' -> prel RB (k a) (k' a')) ->
  (forall c es c' es', eR c es c' es' -> prel RB (e c es) (e' c' es')) ->
  prel RB (ptry m k e) (ptry m' k' e').
Proof.
  intros H Hk He. induction H as [r r' Hr|q q' k0 k0' e0 e0' Hq Hk0 IHk He0 IHe].
  - destruct r as [a|c es| |], r' as [a'|c' es'| |]; try contradiction; cbn [ptry].
    + apply Hk. exact Hr.
    + apply He. exact Hr.
    + constructor. exact I.
    + constructor. exact I.
  - cbn [ptry]. constructor; [exact Hq| |].
    + intros o o' Ho U U'. apply IHk; assumption.
    + intros c es c' es' E. apply IHe. exact E.
Qed.

Lemma prel_weaken {A : Type} (RA RB : A -> A -> Prop) m m' :
  (forall a a', RA a a' -> RB a a') -> prel RA m m' -> prel RB m m'.
Proof.
  intros W H. induction H as [r r' Hr|q q' k k' e e' Hq Hk IHk He IHe].
  - constructor. destruct r, r'; try contradiction; try exact Hr; try exact I. apply W. exact Hr.
  - constructor; [exact Hq| |]; assumption.
Qed.

Lemma prel_ok {A : Type} (RA : A -> A -> Prop) a a' : RA a a' -> prel RA (ok a) (ok a').
Proof. intros H. constructor. exact H. Qed.
Lemma prel_raise {A : Type} (RA : A -> A -> Prop) c c' : R c c' -> prel RA (praise c) (praise c').
Proof. intros H. constructor. split; [apply R_skip; exact H|reflexivity]. Qed.
Lemma prel_reraise {A : Type} (RA : A -> A -> Prop) c es c' es' : eR c es c' es' -> prel RA (reraise c es) (reraise c' es').
Proof. intros H. constructor. exact H. Qed.
Lemma prel_panic {A : Type} (RA : A -> A -> Prop) : prel RA panic panic.
Proof. constructor. exact I. Qed.

Lemma prel_if {A : Type} (RA : A -> A -> Prop) (b b' : bool) m1 m1' m2 m2' :
  b' = b -> (b = true -> prel RA m1 m1') -> (b = false -> prel RA m2 m2') ->
  prel RA (if b then m1 else m2) (if b' then m1' else m2').
Proof. intros -> H1 H2. destruct b; [apply H1|apply H2]; reflexivity. Qed.

Lemma bind_rel {A B : Type} (RA : A -> A -> Prop) (RB : B -> B -> Prop) m m' (k k' : A -> prog B) :
  prel RA m m' -> (forall a a', RA a a' -> prel RB (k a) (k' a')) ->
  prel RB (ptry m k reraise) (ptry m' k' reraise).
Proof. intros H Hk. apply (ptry_rel RA); [exact H|exact Hk|]. intros. apply prel_reraise. assumption. Qed.

Lemma pexpect_rel k c c' : R c c' -> prel R (pexpect k c) (pexpect k c').
Proof.
  intros H. unfold pexpect, expect. rewrite (R_is_k k _ _ H). destruct (is_k k c).
  - constructor. apply R_skip. exact H.
  - constructor. split; [apply R_skip; exact H|reflexivity].
Qed.

Lemma call_rel q q' : qrel q q' -> prel orel (call q) (call q').
Proof.
  intros H. unfold call. constructor; [exact H| |].
  - intros o o' Ho _ _. apply prel_ok. exact Ho.
  - intros. apply prel_reraise. assumption.
Qed.

Lemma call_get_rel {A : Type} (RA : A -> A -> Prop) (get : out -> prog A) q q' :
  (forall o o', orel o o' -> prel RA (get o) (get o')) -> qrel q q' ->
  prel RA (Call q get reraise) (Call q' get reraise).
Proof.
  intros G H. constructor; [exact H| |].
  - intros o o' Ho _ _. apply G. exact Ho.
  - intros. apply prel_reraise. assumption.
Qed.

Ltac getter := intros o o' Ho; destruct o, o'; cbn [orel] in Ho; try contradiction; try apply prel_panic;
  apply prel_ok; unfold XR; cbn [fst snd]; intuition congruence.

Lemma get_E_rel o o' : orel o o' -> prel XR (get_E o) (get_E o'). Proof. revert o o'. getter. Qed.
Lemma get_A_rel o o' : orel o o' -> prel XR (get_A o) (get_A o'). Proof. revert o o'. getter. Qed.
Lemma get_Es_rel o o' : orel o o' -> prel XR (get_Es o) (get_Es o'). Proof. revert o o'. getter. Qed.
Lemma get_Tup_rel o o' : orel o o' -> prel XR (get_Tup o) (get_Tup o'). Proof. revert o o'. getter. Qed.
Lemma get_Fs_rel o o' : orel o o' -> prel XR (get_Fs o) (get_Fs o'). Proof. revert o o'. getter. Qed.
Lemma get_Ifs_rel o o' : orel o o' -> prel XR (get_Ifs o) (get_Ifs o'). Proof. revert o o'. getter. Qed.
Lemma get_Cases_rel o o' : orel o o' -> prel XR (get_Cases o) (get_Cases o'). Proof. revert o o'. getter. Qed.
Lemma get_Params_rel o o' : orel o o' -> prel XR (get_Params o) (get_Params o'). Proof. revert o o'. getter. Qed.
Lemma get_T_rel o o' : orel o o' -> prel XR (get_T o) (get_T o'). Proof. revert o o'. getter. Qed.
Lemma get_Ts_rel o o' : orel o o' -> prel XR (get_Ts o) (get_Ts o'). Proof. revert o o'. getter. Qed.
Lemma get_FnTy_rel o o' : orel o o' -> prel XR (get_FnTy o) (get_FnTy o'). Proof. revert o o'. getter. Qed.
Lemma get_TyTup_rel o o' : orel o o' -> prel XR (get_TyTup o) (get_TyTup o'). Proof. revert o o'. getter. Qed.
Lemma get_Ss_rel o o' : orel o o' -> prel XR (get_Ss o) (get_Ss o'). Proof. revert o o'. getter. Qed.
Lemma get_S_rel o o' : orel o o' -> prel XR (get_S o) (get_S o'). Proof. revert o o'. getter. Qed.
Lemma get_NTs_rel o o' : orel o o' -> prel XR (get_NTs o) (get_NTs o'). Proof. revert o o'. getter. Qed.

(* ------------------------------------------------------------------------------------------- *)
(* tactics *)

Hint Resolve R_skip R_set_nl R_push_fst R_skip_if R_skip_nls R_skip_until R_after_arg : rsim.
Hint Extern 2 (R (pop_nl _ _) (pop_nl _ _)) => apply R_pop_nl; [reflexivity|] : rsim.
Ltac rsolve := lazymatch goal with |- R _ _ => solve [eauto 12 with rsim nocore] end.

(* b' = b for two tests that differ only in related contexts *)
Ltac beq := first [reflexivity | (apply R_token; rsolve) | (apply R_is_k; rsolve) | (apply R_nl; rsolve)
                  | (progress f_equal; beq)].

Lemma R_push c c' b c2 o c2' o' : R c c' -> push_nl b c = (c2, o) -> push_nl b c' = (c2', o') -> R c2 c2' /\ o' = o.
Proof.
  intros H E E'. pose proof (R_push_fst b _ _ H) as A. pose proof (R_push_snd b _ _ H) as B.
  rewrite E, E' in A, B. split; [exact A|exact B].
Qed.

(* name the two results of the outermost push_nl and relate them *)
Ltac dpush2 :=
  match goal with
  | |- prel _ ?m ?m' =>
      match m with
      | context [push_nl ?f ?c] =>
          match m' with
          | context [push_nl f ?c'] =>
              let c2 := fresh "cp" in let o := fresh "old" in let c2' := fresh "cp'" in let o' := fresh "old'" in
              let E := fresh "E" in let E' := fresh "E'" in let H := fresh "HP" in
              destruct (push_nl f c) as [c2 o] eqn:E; destruct (push_nl f c') as [c2' o'] eqn:E';
              assert (H : R c2 c2' /\ o' = o) by (apply (R_push c c' f c2 o c2' o'); [rsolve|exact E|exact E']);
              clear E E'; destruct H as [H ->]
          end
      end
  end.

(* split a related pair of results *)
Ltac xr_intro :=
  let x := fresh "x" in let x' := fresh "x'" in let HX := fresh "HX" in
  intros x x' HX;
  repeat match goal with p : (_ * _)%type |- _ => destruct p end;
  unfold XR in HX; cbn [fst snd] in HX;
  let HE := fresh "HE" in let HR := fresh "HR" in
  destruct HX as [HE HR];
  repeat match type of HE with (_, _) = (_, _) => let H1 := fresh in injection HE as HE H1; try subst end;
  try subst; cbv beta iota zeta.

(* ------------------------------------------------------------------------------------------- *)
(* the token-only loops *)

Lemma R_local_fuel c c' : R c c' -> local_fuel c' = local_fuel c.
Proof. intros H. unfold local_fuel. rewrite (R_len _ _ H). reflexivity. Qed.

Lemma resrel_raise {A : Type} (RA : A -> A -> Prop) c c' : R c c' -> resrel RA (raise c) (raise c').
Proof. intros H. split; [apply R_skip; exact H|reflexivity]. Qed.

Lemma expect_rel k c c' : R c c' -> resrel R (expect k c) (expect k c').
Proof.
  intros H. unfold expect. rewrite (R_is_k k _ _ H). destruct (is_k k c); [apply R_skip; exact H|].
  apply resrel_raise. exact H.
Qed.

Lemma rbind_rel {A B : Type} (RA : A -> A -> Prop) (RB : B -> B -> Prop) m m' (k k' : A -> res B) :
  resrel RA m m' -> (forall a a', RA a a' -> resrel RB (k a) (k' a')) -> resrel RB (bind m k) (bind m' k').
Proof.
  intros H Hk. destruct m as [a|c es| |], m' as [a'|c' es'| |]; try contradiction; cbn [bind]; try exact I.
  - apply Hk. exact H.
  - exact H.
Qed.

Lemma resrel_if {A : Type} (RA : A -> A -> Prop) (b b' : bool) (m1 m1' m2 m2' : res A) :
  b' = b -> (b = true -> resrel RA m1 m1') -> (b = false -> resrel RA m2 m2') ->
  resrel RA (if b then m1 else m2) (if b' then m1' else m2').
Proof. intros -> H1 H2. destruct b; [apply H1|apply H2]; reflexivity. Qed.

Ltac psim1 :=
  lazymatch goal with
  | |- resrel _ (Ok _) (Ok _) =>
      cbn [resrel]; first [rsolve | (unfold XR; cbn [fst snd]; split; [reflexivity|rsolve])]
  | |- resrel _ (raise _) (raise _) => apply resrel_raise; rsolve
  | |- resrel _ Fuel Fuel => exact I
  | |- resrel _ Panic Panic => exact I
  | |- resrel _ (expect _ _) (expect _ _) => apply expect_rel; rsolve
  | |- resrel _ (bind ?m _) (bind _ _) =>
      lazymatch type of m with
      | res ctx => apply (rbind_rel R); [|let a := fresh "cx" in let a' := fresh "cx'" in let H := fresh "HR" in
                                          intros a a' H; cbv beta iota zeta]
      | _ => apply (rbind_rel XR); [|xr_intro]
      end
  | |- resrel _ (if ?b then _ else _) (if ?b' then _ else _) => apply resrel_if; [beq|intros _|intros _]
  | |- resrel _ (match token ?x with _ => _ end) (match token ?y with _ => _ end) =>
      replace (token y) with (token x) by (symmetry; apply R_token; rsolve);
      let Tk := fresh "Tk" in destruct (token x) eqn:Tk
  | |- resrel _ (match ?k with KNil => _ | _ => _ end) (match ?k with KNil => _ | _ => _ end) => destruct k
  end.
Ltac psims := repeat (cbv beta zeta; psim1).

Lemma ta_inner_rel : forall f c c' acc, R c c' ->
  resrel XR (type_assignable_inner f c acc) (type_assignable_inner f c' acc).
Proof.
  induction f as [|f IH]; intros c c' acc H; [exact I|]. cbn [type_assignable_inner].
  psims. apply IH. exact HR.
Qed.

Lemma ta_rel c c' : R c c' -> resrel XR (type_assignable c) (type_assignable c').
Proof.
  intros H. unfold type_assignable. rewrite (R_local_fuel _ _ H). psims. apply ta_inner_rel. exact HR.
Qed.

Lemma constraint_args_rel : forall f c c' acc, R c c' ->
  resrel XR (constraint_args f c acc) (constraint_args f c' acc).
Proof.
  induction f as [|f IH]; intros c c' acc H; [exact I|]. cbn [constraint_args].
  psims. apply IH. rsolve.
Qed.

Lemma constraint_rel f c c' : R c c' -> resrel XR (constraint f c) (constraint f c').
Proof. intros H. unfold constraint. psims. apply constraint_args_rel. rsolve. Qed.

Lemma constraints_inner_rel : forall f c c' ident lst m, R c c' ->
  resrel XR (constraints_inner f c ident lst m) (constraints_inner f c' ident lst m).
Proof.
  induction f as [|f IH]; intros c c' ident lst m H; [exact I|]. cbn [constraints_inner].
  rewrite (R_local_fuel _ _ H).
  apply (rbind_rel XR); [apply constraint_rel; exact H|]. xr_intro.
  psims. apply IH. rsolve.
Qed.

Lemma constraints_outer_rel : forall f c c' m, R c c' ->
  resrel XR (constraints_outer f c m) (constraints_outer f c' m).
Proof.
  induction f as [|f IH]; intros c c' m H; [exact I|]. cbn [constraints_outer]. unfold look2.
  rewrite (R_local_fuel _ _ H). cbv iota beta.
  psims.
  all: first [apply constraints_inner_rel; rsolve|apply IH; assumption].
Qed.

Lemma path_loop_rel : forall f c c' acc, R c c' ->
  fst (path_loop f c acc) = fst (path_loop f c' acc) /\ R (snd (path_loop f c acc)) (snd (path_loop f c' acc)).
Proof.
  induction f as [|f IH]; intros c c' acc H; [split; [reflexivity|exact H]|]. cbn [path_loop].
  rewrite (R_token _ _ H). destruct (token c); try (split; [reflexivity|exact H]).
  cbv zeta. rewrite (R_is_k KSlash _ _ (R_skip 1 _ _ H)).
  destruct (is_k KSlash (skip 1 c)); apply IH; rsolve.
Qed.

Lemma path_rel c c' : R c c' -> resrel XR (path c) (path c').
Proof.
  intros H. unfold path. rewrite (R_local_fuel _ _ H), (R_token _ _ H).
  destruct (token c) as [| | | | | |k|]; try (apply resrel_raise; exact H).
  - apply path_loop_rel. exact H.
  - destruct k; try (apply resrel_raise; exact H). apply path_loop_rel. rsolve.
Qed.

Lemma use_path_rel c c' : R c c' -> resrel XR (use_path c) (use_path c').
Proof.
  intros H. unfold use_path. apply (rbind_rel XR); [apply path_rel; exact H|]. xr_intro. psims.
Qed.

Lemma from_imports_rel : forall f c c' acc, R c c' ->
  resrel XR (from_imports f c acc) (from_imports f c' acc).
Proof.
  induction f as [|f IH]; intros c c' acc H; [exact I|]. cbn [from_imports].
  psims.
  all: try (apply IH; rsolve).
Qed.

Lemma sep_vars_rel : forall f old c c', R c c' -> resrel XR (sep_vars f old c) (sep_vars f old c').
Proof.
  induction f as [|f IH]; intros old c c' H; [exact I|]. cbn [sep_vars].
  psims.
  all: try (apply IH; rsolve).
Qed.

Lemma paren_vars_rel c c' : R c c' -> resrel XR (paren_vars c) (paren_vars c').
Proof.
  intros H. unfold paren_vars. rewrite (R_local_fuel _ _ H). psims.
  destruct (push_nl true (skip 1 c)) as [c2 o] eqn:E, (push_nl true (skip 1 c')) as [c2' o'] eqn:E'.
  destruct (R_push (skip 1 c) (skip 1 c') true c2 o c2' o' ltac:(rsolve) E E') as [HP ->].
  apply sep_vars_rel. exact HP.
Qed.

Section Sim.
Variable T : ptab.
Hypothesis TOK : total_ok T.

Lemma call_E_rel q q' : qrel q q' -> prel XR (call_E q) (call_E q').
Proof. apply call_get_rel. apply get_E_rel. Qed.
Lemma call_A_rel q q' : qrel q q' -> prel XR (call_A q) (call_A q').
Proof. apply call_get_rel. apply get_A_rel. Qed.
Lemma call_Es_rel q q' : qrel q q' -> prel XR (call_Es q) (call_Es q').
Proof. apply call_get_rel. apply get_Es_rel. Qed.
Lemma call_Tup_rel q q' : qrel q q' -> prel XR (call_Tup q) (call_Tup q').
Proof. apply call_get_rel. apply get_Tup_rel. Qed.
Lemma call_Fs_rel q q' : qrel q q' -> prel XR (call_Fs q) (call_Fs q').
Proof. apply call_get_rel. apply get_Fs_rel. Qed.
Lemma call_Ifs_rel q q' : qrel q q' -> prel XR (call_Ifs q) (call_Ifs q').
Proof. apply call_get_rel. apply get_Ifs_rel. Qed.
Lemma call_Cases_rel q q' : qrel q q' -> prel XR (call_Cases q) (call_Cases q').
Proof. apply call_get_rel. apply get_Cases_rel. Qed.
Lemma call_Params_rel q q' : qrel q q' -> prel XR (call_Params q) (call_Params q').
Proof. apply call_get_rel. apply get_Params_rel. Qed.
Lemma call_T_rel q q' : qrel q q' -> prel XR (call_T q) (call_T q').
Proof. apply call_get_rel. apply get_T_rel. Qed.
Lemma call_Ts_rel q q' : qrel q q' -> prel XR (call_Ts q) (call_Ts q').
Proof. apply call_get_rel. apply get_Ts_rel. Qed.
Lemma call_FnTy_rel q q' : qrel q q' -> prel XR (call_FnTy q) (call_FnTy q').
Proof. apply call_get_rel. apply get_FnTy_rel. Qed.
Lemma call_TyTup_rel q q' : qrel q q' -> prel XR (call_TyTup q) (call_TyTup q').
Proof. apply call_get_rel. apply get_TyTup_rel. Qed.
Lemma call_Ss_rel q q' : qrel q q' -> prel XR (call_Ss q) (call_Ss q').
Proof. apply call_get_rel. apply get_Ss_rel. Qed.
Lemma call_S_rel q q' : qrel q q' -> prel XR (call_S q) (call_S q').
Proof. apply call_get_rel. apply get_S_rel. Qed.
Lemma call_NTs_rel q q' : qrel q q' -> prel XR (call_NTs q) (call_NTs q').
Proof. apply call_get_rel. apply get_NTs_rel. Qed.

Lemma expression_rel c c' : R c c' -> prel XR (expression T c) (expression T c').
Proof. intros H. apply call_E_rel. split; [reflexivity|exact H]. Qed.
Lemma parse_type_rel c c' : R c c' -> prel XR (parse_type c) (parse_type c').
Proof. intros H. apply call_T_rel. exact H. Qed.
Lemma statement_rel c c' : R c c' -> prel XR (statement c) (statement c').
Proof. intros H. apply call_S_rel. exact H. Qed.
Lemma block_rel c c' : R c c' -> prel XR (block c) (block c').
Proof. intros H. apply call_Ss_rel. cbn [qrel]. split; [reflexivity|split; [reflexivity|]]. apply R_skip_if. exact H. Qed.

(* one step of a simulation proof, by the shape of the goal *)
Ltac qsolve := cbn [qrel]; repeat (split; [reflexivity|]); rsolve.
Ltac sim1 :=
  lazymatch goal with
  | |- prel _ (ok _) (ok _) => apply prel_ok; first [rsolve | (unfold XR; cbn [fst snd]; split; [reflexivity|rsolve])
                                                    | (cbn [orel]; repeat (split; [reflexivity|]); rsolve)]
  | |- prel _ (praise _) (praise _) => apply prel_raise; rsolve
  | |- prel _ panic panic => apply prel_panic
  | |- prel _ (reraise _ _) (reraise _ _) => apply prel_reraise; assumption
  | |- prel _ (pexpect _ _) (pexpect _ _) => apply pexpect_rel; rsolve
  | |- prel _ (expression _ _) (expression _ _) => apply expression_rel; rsolve
  | |- prel _ (parse_type _) (parse_type _) => apply parse_type_rel; rsolve
  | |- prel _ (statement _) (statement _) => apply statement_rel; rsolve
  | |- prel _ (block _) (block _) => apply block_rel; rsolve
  | |- prel _ (call _) (call _) => apply call_rel; qsolve
  | |- prel _ (call_E _) (call_E _) => apply call_E_rel; qsolve
  | |- prel _ (call_A _) (call_A _) => apply call_A_rel; qsolve
  | |- prel _ (call_Es _) (call_Es _) => apply call_Es_rel; qsolve
  | |- prel _ (call_Tup _) (call_Tup _) => apply call_Tup_rel; qsolve
  | |- prel _ (call_Fs _) (call_Fs _) => apply call_Fs_rel; qsolve
  | |- prel _ (call_Ifs _) (call_Ifs _) => apply call_Ifs_rel; qsolve
  | |- prel _ (call_Cases _) (call_Cases _) => apply call_Cases_rel; qsolve
  | |- prel _ (call_Params _) (call_Params _) => apply call_Params_rel; qsolve
  | |- prel _ (call_Ts _) (call_Ts _) => apply call_Ts_rel; qsolve
  | |- prel _ (call_FnTy _) (call_FnTy _) => apply call_FnTy_rel; qsolve
  | |- prel _ (call_TyTup _) (call_TyTup _) => apply call_TyTup_rel; qsolve
  | |- prel _ (call_NTs _) (call_NTs _) => apply call_NTs_rel; qsolve
  | |- prel _ (Ret (type_assignable _)) (Ret (type_assignable _)) => apply prel_ret; apply ta_rel; rsolve
  | |- prel _ (Ret (use_path _)) (Ret (use_path _)) => apply prel_ret; apply use_path_rel; rsolve
  | |- prel _ (Ret (paren_vars _)) (Ret (paren_vars _)) => apply prel_ret; apply paren_vars_rel; rsolve
  | |- prel _ (ptry ?m _ reraise) (ptry _ _ reraise) =>
      lazymatch type of m with
      | prog ctx => apply (bind_rel R); [|let a := fresh "cx" in let a' := fresh "cx'" in let H := fresh "HR" in
                                          intros a a' H; cbv beta iota zeta]
      | _ => apply (bind_rel XR); [|xr_intro]
      end
  | |- prel _ (if ?b then _ else _) (if ?b' then _ else _) =>
      apply prel_if; [beq|intros _|intros _]
  | |- prel _ (match token ?x with _ => _ end) (match token ?y with _ => _ end) =>
      replace (token y) with (token x) by (symmetry; apply R_token; rsolve);
      let Tk := fresh "Tk" in destruct (token x) eqn:Tk
  | |- prel _ (match ?k with KNil => _ | _ => _ end) (match ?k with KNil => _ | _ => _ end) => destruct k
  | |- prel _ (let '(_, _) := push_nl _ _ in _) _ => dpush2
  end.
Ltac sims := repeat (cbv beta zeta; sim1).

Lemma step_args_rel pr acc c c' : R c c' -> prel orel (step_args T pr acc c) (step_args T pr acc c').
Proof.
  intros H. unfold step_args.
  assert (D : prel orel
    (ptry (expression T c) (fun '(e, c1) => call (QArgs pr (acc ++ [e]) (after_arg c1)))
          (fun c' es => if pr then ok (REs acc c) else reraise c' es))
    (ptry (expression T c') (fun '(e, c1) => call (QArgs pr (acc ++ [e]) (after_arg c1)))
          (fun c'0 es => if pr then ok (REs acc c') else reraise c'0 es))).
  { apply (ptry_rel XR); [sims|xr_intro; sims|].
    intros c1 es c1' es' HE. destruct pr; sims. }
  sims; exact D.
Qed.

Lemma step_tuple_rel i acc c c' : R c c' -> prel orel (step_tuple T i acc c) (step_tuple T i acc c').
Proof. intros H. unfold step_tuple. sims. Qed.

Lemma step_list_rel acc c c' : R c c' -> prel orel (step_list T acc c) (step_list T acc c').
Proof. intros H. unfold step_list. sims. Qed.

Lemma step_fields_rel acc c c' : R c c' -> prel orel (step_fields T acc c) (step_fields T acc c').
Proof. intros H. unfold step_fields. sims. Qed.

Lemma assignable_call_rel a c c' : R c c' -> prel orel (assignable_call c a) (assignable_call c' a).
Proof.
  intros H. unfold assignable_call. cbv zeta.
  rewrite (R_is_k KPrime _ _ H), (R_nl _ _ (R_skip 1 _ _ H)).
  destruct (is_k KPrime c); sims.
Qed.

Lemma assignable_index_rel a c c' : R c c' -> prel orel (assignable_index T c a) (assignable_index T c' a).
Proof. intros H. unfold assignable_index. sims. destruct e; sims. Qed.

Lemma assignable_variant_rel a c c' : R c c' -> prel orel (assignable_variant T c a) (assignable_variant T c' a).
Proof.
  intros H. unfold assignable_variant.
  destruct (match a with ARead n => Some n | AAccess _ n => Some n | _ => None end); sims.
  apply (ptry_rel XR); [sims|xr_intro; sims|]. intros. sims.
Qed.

Lemma assignable_dot_rel a c c' : R c c' -> prel orel (assignable_dot c a) (assignable_dot c' a).
Proof. intros H. unfold assignable_dot. sims. Qed.

Lemma step_sub_rel a c c' : R c c' -> prel orel (step_sub T a c) (step_sub T a c').
Proof.
  intros H. unfold step_sub. sims;
    first [apply assignable_call_rel; exact H | apply assignable_index_rel; exact H | idtac].
  apply (ptry_rel orel); [apply assignable_variant_rel; exact H|intros o o' Ho; apply prel_ok; exact Ho|].
  intros. apply assignable_dot_rel. exact H.
Qed.

Lemma value_rel c c' : R c c' -> prel orel (value c) (value c').
Proof. intros H. unfold value. sims. Qed.

Lemma unary_rel c c' : R c c' -> prel orel (unary T c) (unary T c').
Proof. intros H. unfold unary. rewrite (R_token _ _ H). sims. destruct (pt_unary T (token c)); sims. Qed.

Lemma grouping_rel c c' : R c c' -> prel orel (grouping_or_tuple c) (grouping_or_tuple c').
Proof.
  intros H. unfold grouping_or_tuple. cbv beta zeta. dpush2.
  rewrite (R_is_k KComma _ _ HP), (R_is_k KRightParen _ _ HP). sims.
  destruct l; sims.
Qed.

Lemma list_expr_rel c c' : R c c' -> prel orel (list_expr c) (list_expr c').
Proof. intros H. unfold list_expr. sims. Qed.

Lemma blob_rel c c' : R c c' -> prel orel (blob c) (blob c').
Proof. intros H. unfold blob. sims. Qed.

Lemma if_expression_rel c c' : R c c' -> prel orel (if_expression T c) (if_expression T c').
Proof. intros H. unfold if_expression. sims. Qed.

Lemma step_elifs_rel acc c c' : R c c' -> prel orel (step_elifs T acc c) (step_elifs T acc c').
Proof. intros H. unfold step_elifs. sims. Qed.

Lemma case_expression_rel c c' : R c c' -> prel orel (case_expression T c) (case_expression T c').
Proof. intros H. unfold case_expression. sims. Qed.

Lemma step_cases_rel acc c c' : R c c' -> prel orel (step_cases acc c) (step_cases acc c').
Proof. intros H. unfold step_cases. sims. Qed.

Lemma function_rel c c' : R c c' -> prel orel (function c) (function c').
Proof. intros H. unfold function. rewrite (R_is_k KPu _ _ H). sims. Qed.

Lemma step_params_rel acc c c' : R c c' -> prel orel (step_params acc c) (step_params acc c').
Proof.
  intros H. unfold step_params. sims.
  apply (ptry_rel XR); [sims|xr_intro; sims|]. intros. sims.
Qed.

Lemma assignable_p_rel c c' : R c c' -> prel XR (assignable_p c) (assignable_p c').
Proof. intros H. unfold assignable_p. sims. Qed.

Lemma prefix_rel c c' : R c c' -> prel orel (prefix T c) (prefix T c').
Proof.
  intros H. unfold prefix.
  assert (D : forall t, prel orel (match pt_unary T t with Some _ => unary T c | None => praise c end)
                                  (match pt_unary T t with Some _ => unary T c' | None => praise c' end)).
  { intros t. destruct (pt_unary T t); [apply unary_rel; exact H|sims]. }
  sims; first [apply D | apply value_rel; exact H | apply function_rel; exact H | apply if_expression_rel; exact H
              | apply case_expression_rel; exact H | apply grouping_rel; exact H | apply list_expr_rel; exact H | idtac].
  pose proof (ta_rel _ _ H) as TA.
  destruct (type_assignable c) as [[b0 c1]|ce es| |], (type_assignable c') as [[b0' c1']|ce' es'| |];
    try contradiction.
  - destruct TA as [_ TA]. cbn [snd] in TA. rewrite (R_is_k KLeftBrace _ _ TA).
    destruct (is_k KLeftBrace c1).
    + apply (ptry_rel orel); [apply blob_rel; exact H|intros o o' Ho; apply prel_ok; exact Ho|].
      intros cx es cx' es' [HR HL]. apply prel_ret. split; [rsolve|exact HL].
    + apply (bind_rel XR); [apply assignable_p_rel; exact H|xr_intro; sims].
  - apply (bind_rel XR); [apply assignable_p_rel; exact H|xr_intro; sims].
  - apply prel_ret. exact I.
  - apply prel_ret. exact I.
Qed.

Lemma step_prec_rel p c c' : R c c' -> prel orel (step_prec T p c) (step_prec T p c').
Proof.
  intros H. unfold step_prec. apply (bind_rel XR).
  - apply (bind_rel orel); [apply prefix_rel; exact H|]. apply get_E_rel.
  - xr_intro. sims.
Qed.

Lemma arrow_call_rel lhs c c' : R c c' -> prel orel (arrow_call T c lhs) (arrow_call T c' lhs).
Proof. intros H. unfold arrow_call. sims. destruct (prepend lhs e); sims. Qed.

Lemma infix_rel lhs c c' : R c c' -> realb (token c) = true -> prel orel (infix T c lhs) (infix T c' lhs).
Proof.
  intros H Re. unfold infix. cbv zeta. rewrite (R_token _ _ H).
  destruct (tok_is KArrow (token c)); [apply arrow_call_rel; exact H|].
  destruct (pt_postfix T (token c)); [sims|].
  destruct (pt_bin T (token c)); [sims|].
  assert (Re' : realb (token c') = true) by (rewrite (R_token _ _ H); exact Re).
  destruct (R_prev_ltm c c' (skip 1 c) (skip 1 c') H (skip1_ltm c Re) (skip1_ltm c' Re') (R_skip 1 _ _ H))
    as (cp & cp' & -> & -> & HP).
  sims.
Qed.

Lemma step_loop_rel p lhs c c' : R c c' -> prel orel (step_loop T p lhs c) (step_loop T p lhs c').
Proof.
  intros H. unfold step_loop. rewrite (R_token _ _ H).
  destruct ((p <=? pt_prec T (token c)) && pt_valid T (token c)) eqn:G; [|sims].
  apply andb_prop in G. destruct G as [_ V].
  assert (Re : realb (token c) = true) by (destruct TOK as (_ & _ & _ & Hv); apply Hv; exact V).
  apply (bind_rel XR).
  - apply (bind_rel orel); [apply infix_rel; assumption|]. apply get_E_rel.
  - xr_intro. sims.
Qed.

(* ---- types ---- *)

Lemma paren_types_rel c c' : R c c' -> prel XR (paren_types c) (paren_types c').
Proof. intros H. unfold paren_types. sims. Qed.

Lemma step_type_rel c c' : R c c' -> prel orel (step_type c) (step_type c').
Proof.
  intros H. unfold step_type. sims.
  all: try (apply paren_types_rel; assumption).
  all: try (rewrite (R_is_k KPu _ _ H)).
  all: try (rewrite (R_is_k KComma _ _ HP), (R_is_k KRightParen _ _ HP)).
  all: sims.
  all: try (destruct l; sims).
  all: try (apply prel_ret; rewrite (R_local_fuel _ _ (R_skip 1 _ _ H)), (R_is_k KLess _ _ (R_skip 1 _ _ H));
            destruct (is_k KLess (skip 1 c)); [apply constraints_outer_rel; rsolve|psims]).
Qed.

Lemma step_sep_types_rel old c c' : R c c' -> prel orel (step_sep_types old c) (step_sep_types old c').
Proof. intros H. unfold step_sep_types. sims. Qed.

Lemma step_fnty_params_rel acc c c' : R c c' -> prel orel (step_fnty_params acc c) (step_fnty_params acc c').
Proof.
  intros H. unfold step_fnty_params. sims.
  all: try (apply (ptry_rel XR); [sims|xr_intro; sims|intros; sims]).
Qed.

Lemma step_ty_tuple_rel i acc c c' : R c c' -> prel orel (step_ty_tuple i acc c) (step_ty_tuple i acc c').
Proof.
  intros H. unfold step_ty_tuple. sims.
  all: rewrite (R_is_k KComma _ _ HR); sims.
Qed.

(* ---- blocks, declarations, statements ---- *)

Lemma step_stmts_rel acc errs errs' c c' : length errs = length errs' -> R c c' ->
  prel orel (step_stmts acc errs c) (step_stmts acc errs' c').
Proof.
  intros HL H. unfold step_stmts.
  assert (Stop : prel orel (match errs with [] => ok (RSs acc (skip_if KEnd c)) | _ => Ret (Err c errs) end)
                           (match errs' with [] => ok (RSs acc (skip_if KEnd c')) | _ => Ret (Err c' errs') end)).
  { destruct errs, errs'; try discriminate HL; [sims|]. apply prel_ret. split; [exact H|exact HL]. }
  assert (D : prel orel
     (ptry (statement c) (fun '(s, c1) => call (QStmts (acc ++ [s]) errs c1))
        (fun c' es => call (QStmts acc (errs ++ es) (skip_if KNewline (skip_until KNewline (pop_nl false c'))))))
     (ptry (statement c') (fun '(s, c1) => call (QStmts (acc ++ [s]) errs' c1))
        (fun c' es => call (QStmts acc (errs' ++ es) (skip_if KNewline (skip_until KNewline (pop_nl false c'))))))).
  { apply (ptry_rel XR); [sims|xr_intro|].
    - apply call_rel. cbn [qrel]. split; [reflexivity|split; [exact HL|exact HR]].
    - intros c1 es c1' es' [HR HE]. apply call_rel. cbn [qrel]. split; [reflexivity|split; [|rsolve]].
      rewrite !app_length, HL, HE. reflexivity. }
  sims; first [exact D|exact Stop].
Qed.

Definition EIR (x x' : name * ty * nat * ctx) : Prop :=
  fst (fst x) = fst (fst x') /\ R (snd x) (snd x').

Lemma enum_item_rel c c' : R c c' -> prel EIR (enum_item c) (enum_item c').
Proof.
  intros H. unfold enum_item. cbv zeta.
  assert (H0 : R (skip_nls c) (skip_nls c')) by rsolve.
  replace (token (skip_nls c')) with (token (skip_nls c)) by (symmetry; apply R_token; exact H0).
  destruct (token (skip_nls c)) as [v| | | | | | |]; try (apply prel_raise; exact H0).
  sims.
  apply prel_ok. unfold EIR. cbn [fst snd]. split; [reflexivity|rsolve].
Qed.

Lemma unpos_app l x : unpos (l ++ [x]) = unpos l ++ [fst x].
Proof. unfold unpos. rewrite map_app. reflexivity. Qed.

Lemma step_enum_items_rel acc acc' c c' : unpos acc = unpos acc' -> R c c' ->
  prel orel (step_enum_items acc c) (step_enum_items acc' c').
Proof.
  intros HA H. unfold step_enum_items. cbv zeta.
  rewrite (R_is_k KEnd _ _ (R_skip_nls _ _ H)).
  destruct (is_k KEnd (skip_nls c)).
  { apply prel_ok. cbn [orel]. split; [exact HA|rsolve]. }
  apply (bind_rel EIR); [apply enum_item_rel; exact H|].
  intros [[[v t0] pos] c1] [[[v' t0'] pos'] c1'] [HE HR]. cbn [fst snd] in HE, HR. injection HE as -> ->.
  rewrite (R_is_k KEnd _ _ (R_skip_nls _ _ HR)).
  assert (HA' : unpos (acc ++ [(v', t0', pos)]) = unpos (acc' ++ [(v', t0', pos')]))
    by (rewrite !unpos_app, HA; reflexivity).
  destruct (is_k KEnd (skip_nls c1)).
  - apply prel_ok. cbn [orel]. split; [exact HA'|rsolve].
  - apply call_rel. cbn [qrel]. split; [exact HA'|rsolve].
Qed.

Lemma step_blob_fields_rel acc c c' : R c c' -> prel orel (step_blob_fields acc c) (step_blob_fields acc c').
Proof. intros H. unfold step_blob_fields. sims. Qed.

Lemma first_dup_unpos : forall l l' seen, unpos l = unpos l' ->
  match first_dup seen l, first_dup seen l' with
  | Some _, Some _ => True
  | None, None => True
  | _, _ => False
  end.
Proof.
  induction l as [|[[v t0] pos] l IH]; intros [|[[v' t0'] pos'] l'] seen HU; try discriminate HU; [exact I|].
  cbn [unpos map fst] in HU. injection HU as -> -> HU. cbn [first_dup].
  destruct (existsb (name_eqb v') seen); [exact I|]. apply IH. exact HU.
Qed.

Lemma unpos_map l : map (fun x : name * ty * nat => (fst (fst x), snd (fst x))) l = unpos l.
Proof. unfold unpos. apply map_ext. intros [[a b] n]. reflexivity. Qed.

Definition EnR (x x' : list (name * ty * nat) * ctx) : Prop := unpos (fst x) = unpos (fst x') /\ R (snd x) (snd x').

Lemma get_Enum_rel o o' : orel o o' -> prel EnR (get_Enum o) (get_Enum o').
Proof.
  intros Ho. destruct o, o'; cbn [orel] in Ho; try contradiction; try apply prel_panic.
  apply prel_ok. exact Ho.
Qed.

Lemma stmt_enum_rel nm c c' : R c c' -> prel XR (stmt_enum nm c) (stmt_enum nm c').
Proof.
  intros H. unfold stmt_enum. destruct (negb (is_capitalized nm)); [sims|]. cbv zeta. dpush2.
  apply (bind_rel XR); [sims|]. xr_intro.
  apply (bind_rel EnR).
  - unfold call_Enum. apply call_get_rel; [apply get_Enum_rel|]. cbn [qrel]. split; [reflexivity|exact HR].
  - intros [items c4] [items' c4'] [HU HR4]. cbn [fst snd] in HU, HR4.
    pose proof (first_dup_unpos items items' [] HU) as FD.
    destruct (first_dup [] items), (first_dup [] items'); try contradiction.
    + apply prel_ret. split; [exact HR4|reflexivity].
    + apply prel_ok. unfold XR. cbn [fst snd]. rewrite !unpos_map, HU. split; [reflexivity|rsolve].
Qed.

Lemma stmt_blob_rel nm c c' : R c c' -> prel XR (stmt_blob nm c) (stmt_blob nm c').
Proof. intros H. unfold stmt_blob. cbv zeta. rewrite (R_is_k KExternBlob _ _ (R_skip 2 _ _ H)). sims. Qed.

Lemma stmt_def_implied_rel nm c c' : R c c' -> prel XR (stmt_def_implied T nm c) (stmt_def_implied T nm c').
Proof.
  intros H. unfold stmt_def_implied. sims.
  all: rewrite (R_is_k KColonColon _ _ (R_skip 1 _ _ H)); sims.
Qed.

Lemma stmt_def_typed_rel nm c c' : R c c' -> prel XR (stmt_def_typed T nm c) (stmt_def_typed T nm c').
Proof.
  intros H. unfold stmt_def_typed. sims.
  apply (bind_rel eq).
  - sims; apply prel_ok; reflexivity.
  - intros k k' <-. sims.
Qed.

Lemma stmt_expr_rel c c' : R c c' -> prel XR (stmt_expr T c) (stmt_expr T c').
Proof. intros H. unfold stmt_expr. sims. Qed.

Lemma stmt_assign_or_expr_rel c c' : R c c' -> prel XR (stmt_assign_or_expr T c) (stmt_assign_or_expr T c').
Proof.
  intros H. unfold stmt_assign_or_expr.
  pose proof (ta_rel _ _ H) as TA.
  apply (ptry_rel XR); [apply assignable_p_rel; exact H| |].
  - xr_intro. rewrite (R_token _ _ HR).
    match goal with |- context [assign_op ?t] => destruct (assign_op t) end; [sims|].
    destruct (type_assignable c) as [[b0 cb]|ce es| |], (type_assignable c') as [[b0' cb']|ce' es'| |];
      try contradiction; try (apply prel_ret; exact I).
    + destruct TA as [_ TA]. cbn [snd] in TA. rewrite (R_is_k KLeftBrace _ _ TA).
      destruct (is_k KLeftBrace cb); [apply stmt_expr_rel; exact H|unfold expression_after; sims].
    + unfold expression_after. sims.
  - intros cx es cx' es' HE. rewrite (R_token _ _ H).
    destruct (token c); try (apply stmt_expr_rel; exact H).
    destruct (type_assignable c) as [[b0 cb]|ce es0| |], (type_assignable c') as [[b0' cb']|ce' es0'| |];
      try contradiction; try (apply prel_ret; exact I).
    + destruct TA as [_ TA]. cbn [snd] in TA. rewrite (R_is_k KLeftBrace _ _ TA).
      destruct (is_k KLeftBrace cb); [apply stmt_expr_rel; exact H|apply prel_reraise; exact HE].
    + apply prel_reraise. exact HE.
Qed.

Lemma stmt_from_rel c c' : R c c' -> prel XR (stmt_from c) (stmt_from c').
Proof.
  intros H. unfold stmt_from. sims. cbv zeta.
  rewrite (R_is_k KLeftParen _ _ HR0).
  destruct (is_k KLeftParen cx).
  - dpush2. apply (bind_rel XR).
    + apply prel_ret. rewrite (R_local_fuel _ _ HP). apply from_imports_rel. exact HP.
    + xr_intro. destruct l; sims.
  - dpush2. apply (bind_rel XR).
    + apply prel_ret. rewrite (R_local_fuel _ _ HP). apply from_imports_rel. exact HP.
    + xr_intro. destruct l; sims.
Qed.

Lemma stmt_use_rel c c' : R c c' -> realb (token c) = true -> prel XR (stmt_use c) (stmt_use c').
Proof.
  intros H Re. unfold stmt_use.
  assert (Re' : realb (token c') = true) by (rewrite (R_token _ _ H); exact Re).
  pose proof (use_path_rel _ _ (R_skip 1 _ _ H)) as UR.
  pose proof (use_path_good (skip 1 c)) as G. pose proof (use_path_good (skip 1 c')) as G'.
  destruct (use_path (skip 1 c)) as [[[p file] c1]|ce es| |], (use_path (skip 1 c')) as [[[p' file'] c1']|ce' es'| |];
    try contradiction; cbn [ptry]; try (apply prel_ret; exact UR).
  destruct UR as [UE UR]. cbn [fst snd] in UE, UR. injection UE as -> ->.
  cbn [good snd] in G, G'. apply ltl_ltm in G. apply ltl_ltm in G'.
  unfold look2. cbv iota beta.
  rewrite (use_prev_twice p' c c1 Re G), (use_prev_twice p' c' c1' Re' G').
  sims.
Qed.

Lemma loop_arm_rel c c' : R c c' ->
  prel XR
    (let c1 := skip 1 c in
     let* '(cond, c2) := (if is_k KDo c1 then ok (EBool true, c1) else expression T c1) in
     let* '(body, c3) := statement c2 in
     match prev c3 with
     | Some cp => ok (SLoop cond body, if is_k KNewline cp then cp else c3)
     | None => panic
     end)
    (let c1 := skip 1 c' in
     let* '(cond, c2) := (if is_k KDo c1 then ok (EBool true, c1) else expression T c1) in
     let* '(body, c3) := statement c2 in
     match prev c3 with
     | Some cp => ok (SLoop cond body, if is_k KNewline cp then cp else c3)
     | None => panic
     end).
Proof.
  intros H. cbv zeta. apply (bind_rel XR); [sims|]. xr_intro.
  unfold statement, call_S. cbn [ptry]. constructor; [exact HR| |].
  - intros o o' Ho U U'. destruct o, o'; cbn [orel] in Ho; try contradiction; cbn [get_S ptry];
      try (apply prel_ret; exact I).
    destruct Ho as [-> HR3]. cbn [UPost] in U, U'. cbn [ok ptry].
    destruct (R_prev_ltm _ _ _ _ HR U U' HR3) as (cq & cq' & -> & -> & HQ).
    apply prel_ok. split; [reflexivity|]. cbn [snd]. rewrite (R_is_k KNewline _ _ HQ).
    destruct (is_k KNewline cq); assumption.
  - intros cx es cx' es' HE. cbn [reraise ptry]. apply prel_ret. exact HE.
Qed.

Lemma step_stmt_rel c0 c0' : R c0 c0' -> prel orel (step_stmt T c0) (step_stmt T c0').
Proof.
  intros H. unfold step_stmt. dpush2.
  apply (bind_rel XR).
  - unfold look3. cbv iota beta.
    replace (token cp') with (token cp) by (symmetry; apply R_token; rsolve).
    replace (token (skip 1 cp')) with (token (skip 1 cp)) by (symmetry; apply R_token; rsolve).
    replace (token (skip 1 (skip 1 cp'))) with (token (skip 1 (skip 1 cp))) by (symmetry; apply R_token; rsolve).
    assert (HD : prel XR (stmt_assign_or_expr T cp) (stmt_assign_or_expr T cp'))
      by (apply stmt_assign_or_expr_rel; exact HP).
    destruct (token cp) as [nm| | | | | |k|] eqn:Tk; try exact HD.
    + destruct (token (skip 1 cp)) as [| | | | | |k2|]; try exact HD.
      destruct k2; first [exact HD|apply stmt_def_typed_rel; exact HP|idtac].
      all: destruct (token (skip 1 (skip 1 cp))) as [| | | | | |k3|];
        first [exact HD|apply stmt_def_implied_rel; exact HP|idtac].
      all: destruct k3; first [exact HD|apply stmt_def_implied_rel; exact HP|apply stmt_enum_rel; exact HP
                              |apply stmt_blob_rel; exact HP].
    + assert (Re : realb (token cp) = true) by (rewrite Tk; reflexivity).
      destruct k;
        first [exact HD
              |apply stmt_use_rel; assumption
              |apply stmt_from_rel; assumption
              |apply (loop_arm_rel cp cp' HP)
              |solve [sims]
              |(cbv zeta; apply (ptry_rel XR); [sims|xr_intro; sims|intros; sims])].
  - xr_intro. sims.
Qed.

Theorem step_rel q q' : qrel q q' -> prel orel (step T q) (step T q').
Proof.
  intros H. destruct q, q'; cbn [qrel] in H; try contradiction; cbn [step].
  - destruct H as [-> H]. apply step_prec_rel. exact H.
  - destruct H as (-> & -> & H). apply step_loop_rel. exact H.
  - destruct H as [-> H]. apply step_sub_rel. exact H.
  - destruct H as (-> & -> & H). apply step_args_rel. exact H.
  - destruct H as (-> & -> & H). apply step_tuple_rel. exact H.
  - destruct H as [-> H]. apply step_list_rel. exact H.
  - destruct H as [-> H]. apply step_fields_rel. exact H.
  - destruct H as [-> H]. apply step_elifs_rel. exact H.
  - destruct H as [-> H]. apply step_cases_rel. exact H.
  - destruct H as [-> H]. apply step_params_rel. exact H.
  - apply step_type_rel. exact H.
  - destruct H as [-> H]. apply step_sep_types_rel. exact H.
  - destruct H as [-> H]. apply step_fnty_params_rel. exact H.
  - destruct H as (-> & -> & H). apply step_ty_tuple_rel. exact H.
  - destruct H as (-> & HL & H). apply step_stmts_rel; assumption.
  - apply step_stmt_rel. exact H.
  - destruct H as [HA H]. apply step_enum_items_rel; assumption.
  - destruct H as [-> H]. apply step_blob_fields_rel. exact H.
Qed.

(* what ParserTotal knows about every successful statement, at any fuel *)
Lemma go_upost f q o : go T f q = Ok o -> UPost q o.
Proof.
  intros H. destruct q; try exact I. destruct o; try exact I. cbn [UPost].
  set (F := Nat.max f (S (mu (QStmt c)))).
  pose proof (go_ok_le T f F _ _ (Nat.le_max_l _ _) H) as HF.
  pose proof (go_good T TOK F (QStmt c) I ltac:(unfold F; lia)) as G.
  rewrite HF in G. exact G.
Qed.

Theorem go_rel f : forall q q', qrel q q' -> resrel orel (go T f q) (go T f q').
Proof.
  induction f as [|f IH]; intros q q' H; [exact I|].
  rewrite !go_S. apply (run_rel orel); [exact IH|apply go_upost|apply go_upost|apply step_rel; exact H].
Qed.

End Sim.
End PS.

(* ------------------------------------------------------------------------------------------- *)
(* the statements of Sugar.v *)

Lemma R_of_smp c c' : same_modulo_pre c c' -> R (pre c) (pre c') c c'.
Proof. intros (A & B & D). unfold R. repeat split; try assumption. exists []. split; reflexivity. Qed.

Lemma smp_of_R P P' c c' : R P P' c c' -> same_modulo_pre c c'.
Proof. intros (A & B & D & _). repeat split; assumption. Qed.

(* C14 statement_pre_insensitive: a statement's tree and where it ends do not depend on what lies behind the
   cursor - nor does the place Context::prev would step back to from there *)
Theorem statement_pre_insensitive T : total_ok T -> statement_pre_insensitive_statement T.
Proof.
  intros TOK f c c' s c3 Hs H.
  pose proof (go_rel (pre c) (pre c') T TOK f (QStmt c) (QStmt c') (R_of_smp c c' Hs)) as G.
  rewrite H in G. destruct (go T f (QStmt c')) as [o'|ce es| |] eqn:H'; try contradiction.
  destruct o'; cbn [resrel orel] in G; try contradiction. destruct G as [<- HR].
  exists c0. split; [reflexivity|split; [exact (smp_of_R _ _ _ _ HR)|]].
  pose proof (go_upost T TOK f _ _ H) as U. pose proof (go_upost T TOK f _ _ H') as U'. cbn [UPost] in U, U'.
  destruct (R_prev_ltm (pre c) (pre c') c c' c3 c0 (R_of_smp c c' Hs) U U' HR) as (cq & cq' & E1 & E2 & HQ).
  unfold prev_smp. rewrite E1, E2. exact (smp_of_R _ _ _ _ HQ).
Qed.

(* `loop do B`, read backwards: the body was parsed from `do` *)
Lemma loop_do_unfold T p ts ov b f :
  go T (S f) (QStmt (mkctx p (TK KLoop :: TK KDo :: ts) ov b)) =
  match go T f (QStmt (mkctx (TK KLoop :: p) (TK KDo :: ts) ov false)) with
  | Ok (RS body c3) => loop_finish b (EBool true) body c3
  | Ok _ => Panic
  | Err c es => Err c es
  | Fuel => Fuel
  | Panic => Panic
  end.
Proof.
  destruct (go T f (QStmt (mkctx (TK KLoop :: p) (TK KDo :: ts) ov false))) as [o|ce es| |] eqn:Hb.
  - destruct o; try (rewrite go_S; cbn [step]; unfold step_stmt, push_nl, set_nl; cbn [pre post over nl];
           rewrite skip0 by (split; [discriminate|intros X; discriminate]);
           unfold look3; cbn [token post];
           rewrite skip1; [|discriminate|split; [discriminate|intros X; discriminate]];
           change (is_k KDo (mkctx (TK KLoop :: p) (TK KDo :: ts) ov false)) with true; cbv iota;
           cbn [ok ptry]; unfold statement; rewrite !run_ptry; unfold call_S; cbn [run]; rewrite Hb;
           reflexivity).
    apply loop_do_step. exact Hb.
  - rewrite go_S. cbn [step]. unfold step_stmt, push_nl, set_nl. cbn [pre post over nl].
    rewrite skip0 by (split; [discriminate|intros X; discriminate]).
    unfold look3. cbn [token post].
    rewrite skip1; [|discriminate|split; [discriminate|intros X; discriminate]].
    change (is_k KDo (mkctx (TK KLoop :: p) (TK KDo :: ts) ov false)) with true. cbv iota.
    cbn [ok ptry]. unfold statement. rewrite !run_ptry. unfold call_S. cbn [run]. rewrite Hb. reflexivity.
  - rewrite go_S. cbn [step]. unfold step_stmt, push_nl, set_nl. cbn [pre post over nl].
    rewrite skip0 by (split; [discriminate|intros X; discriminate]).
    unfold look3. cbn [token post].
    rewrite skip1; [|discriminate|split; [discriminate|intros X; discriminate]].
    change (is_k KDo (mkctx (TK KLoop :: p) (TK KDo :: ts) ov false)) with true. cbv iota.
    cbn [ok ptry]. unfold statement. rewrite !run_ptry. unfold call_S. cbn [run]. rewrite Hb. reflexivity.
  - rewrite go_S. cbn [step]. unfold step_stmt, push_nl, set_nl. cbn [pre post over nl].
    rewrite skip0 by (split; [discriminate|intros X; discriminate]).
    unfold look3. cbn [token post].
    rewrite skip1; [|discriminate|split; [discriminate|intros X; discriminate]].
    change (is_k KDo (mkctx (TK KLoop :: p) (TK KDo :: ts) ov false)) with true. cbv iota.
    cbn [ok ptry]. unfold statement. rewrite !run_ptry. unfold call_S. cbn [run]. rewrite Hb. reflexivity.
Qed.

Lemma loop_do_inv T p ts ov b f s c :
  go T (S f) (QStmt (mkctx p (TK KLoop :: TK KDo :: ts) ov b)) = Ok (RS s c) ->
  exists body c3, go T f (QStmt (mkctx (TK KLoop :: p) (TK KDo :: ts) ov false)) = Ok (RS body c3)
                  /\ loop_finish b (EBool true) body c3 = Ok (RS s c).
Proof.
  rewrite loop_do_unfold.
  destruct (go T f (QStmt (mkctx (TK KLoop :: p) (TK KDo :: ts) ov false))) as [o|ce es| |]; try discriminate.
  destruct o; try discriminate. intros H. eexists. eexists. split; [reflexivity|exact H].
Qed.

(* C14 loop_do, unconditional *)
Theorem loop_do T : total_ok T -> pt_valid T (TK KDo) = false -> loop_do_statement T.
Proof.
  intros TOK Hdo p ts ov b f s c H.
  destruct f as [|f]; [discriminate|].
  destruct (loop_do_inv T p ts ov b f s c H) as (body & c3 & Hb & Hf).
  destruct (statement_pre_insensitive T TOK f
              (mkctx (TK KLoop :: p) (TK KDo :: ts) ov false)
              (mkctx (TBool true :: TK KLoop :: p) (TK KDo :: ts) ov false) body c3
              ltac:(repeat split) Hb) as (c3' & Hb' & H3 & Hp).
  pose proof (go_ok_le T f (S (S f)) _ _ ltac:(lia) Hb') as Hb2.
  pose proof (loop_true_do_step T p ts ov b f body c3' Hdo Hb2) as Ht.
  pose proof (loop_finish_smp b (EBool true) body c3 c3' H3 Hp) as Hs.
  rewrite Hf in Hs.
  destruct (loop_finish b (EBool true) body c3') as [o'| | |] eqn:Hf'; cbn [same_out] in Hs; try contradiction.
  destruct o'; try contradiction. destruct Hs as [<- Hs].
  exists (S (S (S f))), c0. split; [rewrite Ht; reflexivity|exact Hs].
Qed.

(* ... and the other way round: whenever `loop true do B` parses, `loop do B` parses to the same statement *)
Lemma loop_true_do_unfold T p ts ov b f : pt_valid T (TK KDo) = false ->
  go T (S (S (S f))) (QStmt (mkctx p (TK KLoop :: TBool true :: TK KDo :: ts) ov b)) =
  match go T (S (S f)) (QStmt (mkctx (TBool true :: TK KLoop :: p) (TK KDo :: ts) ov false)) with
  | Ok (RS body c3) => loop_finish b (EBool true) body c3
  | Ok _ => Panic
  | Err c es => Err c es
  | Fuel => Fuel
  | Panic => Panic
  end.
Proof.
  intros Hdo.
  destruct (go T (S (S f)) (QStmt (mkctx (TBool true :: TK KLoop :: p) (TK KDo :: ts) ov false))) as [o|ce es| |] eqn:Hb.
  - destruct o; try (rewrite go_S; cbn [step]; unfold step_stmt, push_nl, set_nl; cbn [pre post over nl];
      rewrite skip0 by (split; [discriminate|intros X; discriminate]);
      unfold look3; cbn [token post];
      rewrite skip1; [|discriminate|split; [discriminate|intros X; discriminate]];
      change (is_k KDo (mkctx (TK KLoop :: p) (TBool true :: TK KDo :: ts) ov false)) with false; cbv iota;
      unfold expression, statement; rewrite !run_ptry; unfold call_E; cbn [run];
      rewrite prec_bool by (split; [discriminate|intros X; discriminate]);
      rewrite loop_stop by (left; exact Hdo);
      cbn [get_E run ok ptry]; rewrite !run_ptry; unfold call_S; cbn [run]; rewrite Hb; reflexivity).
    apply loop_true_do_step; assumption.
  - rewrite go_S; cbn [step]; unfold step_stmt, push_nl, set_nl; cbn [pre post over nl];
      rewrite skip0 by (split; [discriminate|intros X; discriminate]);
      unfold look3; cbn [token post];
      rewrite skip1; [|discriminate|split; [discriminate|intros X; discriminate]];
      change (is_k KDo (mkctx (TK KLoop :: p) (TBool true :: TK KDo :: ts) ov false)) with false; cbv iota;
      unfold expression, statement; rewrite !run_ptry; unfold call_E; cbn [run];
      rewrite prec_bool by (split; [discriminate|intros X; discriminate]);
      rewrite loop_stop by (left; exact Hdo);
      cbn [get_E run ok ptry]; rewrite !run_ptry; unfold call_S; cbn [run]; rewrite Hb; reflexivity.
  - rewrite go_S; cbn [step]; unfold step_stmt, push_nl, set_nl; cbn [pre post over nl];
      rewrite skip0 by (split; [discriminate|intros X; discriminate]);
      unfold look3; cbn [token post];
      rewrite skip1; [|discriminate|split; [discriminate|intros X; discriminate]];
      change (is_k KDo (mkctx (TK KLoop :: p) (TBool true :: TK KDo :: ts) ov false)) with false; cbv iota;
      unfold expression, statement; rewrite !run_ptry; unfold call_E; cbn [run];
      rewrite prec_bool by (split; [discriminate|intros X; discriminate]);
      rewrite loop_stop by (left; exact Hdo);
      cbn [get_E run ok ptry]; rewrite !run_ptry; unfold call_S; cbn [run]; rewrite Hb; reflexivity.
  - rewrite go_S; cbn [step]; unfold step_stmt, push_nl, set_nl; cbn [pre post over nl];
      rewrite skip0 by (split; [discriminate|intros X; discriminate]);
      unfold look3; cbn [token post];
      rewrite skip1; [|discriminate|split; [discriminate|intros X; discriminate]];
      change (is_k KDo (mkctx (TK KLoop :: p) (TBool true :: TK KDo :: ts) ov false)) with false; cbv iota;
      unfold expression, statement; rewrite !run_ptry; unfold call_E; cbn [run];
      rewrite prec_bool by (split; [discriminate|intros X; discriminate]);
      rewrite loop_stop by (left; exact Hdo);
      cbn [get_E run ok ptry]; rewrite !run_ptry; unfold call_S; cbn [run]; rewrite Hb; reflexivity.
Qed.

Lemma go_ok_big T f q o : go T f q = Ok o -> forall g, go T (f + g) q = Ok o.
Proof. intros H g. apply (go_ok_le T f (f + g)); [lia|exact H]. Qed.

Theorem loop_do_converse T : total_ok T -> pt_valid T (TK KDo) = false ->
  forall p ts ov b f s c,
    go T f (QStmt (mkctx p (TK KLoop :: TBool true :: TK KDo :: ts) ov b)) = Ok (RS s c) ->
    exists g c', go T g (QStmt (mkctx p (TK KLoop :: TK KDo :: ts) ov b)) = Ok (RS s c') /\ same_modulo_pre c c'.
Proof.
  intros TOK Hdo p ts ov b f s c H.
  (* raise the fuel to the shape the unfolding lemma wants *)
  pose proof (go_ok_big T f _ _ H 3) as H3. replace (f + 3) with (S (S (S f))) in H3 by lia.
  rewrite (loop_true_do_unfold T p ts ov b f Hdo) in H3.
  destruct (go T (S (S f)) (QStmt (mkctx (TBool true :: TK KLoop :: p) (TK KDo :: ts) ov false)))
    as [o|ce es| |] eqn:Hb; try discriminate.
  destruct o as [| | | | | | | | | | | | |body c3'| |]; try discriminate.
  destruct (statement_pre_insensitive T TOK (S (S f))
              (mkctx (TBool true :: TK KLoop :: p) (TK KDo :: ts) ov false)
              (mkctx (TK KLoop :: p) (TK KDo :: ts) ov false) body c3'
              ltac:(repeat split) Hb) as (c3 & Hb' & Hsm & Hp).
  pose proof (loop_do_step T p ts ov b (S (S f)) body c3 Hb') as Ht.
  pose proof (loop_finish_smp b (EBool true) body c3' c3 Hsm Hp) as Hs.
  rewrite H3 in Hs.
  destruct (loop_finish b (EBool true) body c3) as [o'| | |] eqn:Hf'; cbn [same_out] in Hs; try contradiction.
  destruct o'; try contradiction. destruct Hs as [<- Hs].
  exists (S (S (S f))), c0. split; [rewrite Ht; reflexivity|exact Hs].
Qed.
