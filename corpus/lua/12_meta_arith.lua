-- expect: (4, 6)	(-2, -2)	(-1, -2)
-- expect[jit]: 11	(2, 4)	(2, 4)	(1.5, 2)
-- expect[5.3]: 11	(2, 4)	(2, 4)	(1.5, 2.0)
-- expect: mod	pow	pow
-- expect: (1, 2)
-- expect: (1, 2)	(3, 4)	1
-- expect: (1, 2)(3, 4)	(1, 2)s	s(1, 2)	1(1, 2)
-- expect: 1	2	more
-- expect: false	attempt to perform arithmetic on a table value
-- expect: false	attempt to perform arithmetic on a nil value
-- expect: false	attempt to perform arithmetic on a string value
-- expect: false	attempt to concatenate a table value
-- expect: false	attempt to concatenate a nil value
-- expect: false	attempt to get length of a number value
-- expect: false	attempt to perform arithmetic on a table value
-- expect: false	attempt to call a table value
-- expect: false	attempt to call a nil value
-- expect: table: 0x	function: 
-- expect: left	right	right	left
local V = {}
V.__index = V
local function vec(x, y) return setmetatable({x = x, y = y}, V) end
V.__add = function(a, b) return vec(a.x + b.x, a.y + b.y) end
V.__sub = function(a, b) return vec(a.x - b.x, a.y - b.y) end
V.__mul = function(a, b)
  if type(a) == "number" then return vec(a * b.x, a * b.y)
  elseif type(b) == "number" then return vec(a.x * b, a.y * b)
  else return a.x * b.x + a.y * b.y end
end
V.__div = function(a, b) return vec(a.x / b, a.y / b) end
V.__mod = function(a, b) return "mod" end
V.__pow = function(a, b) return "pow" end
V.__unm = function(a) return vec(-a.x, -a.y) end
V.__tostring = function(a) return "(" .. a.x .. ", " .. a.y .. ")" end
V.__concat = function(a, b) return tostring(a) .. tostring(b) end
V.__call = function(self, k, extra) return self[k], extra end
local a, b = vec(1, 2), vec(3, 4)
print(tostring(a + b), tostring(a - b), tostring(-a))
print(a * b, tostring(2 * a), tostring(a * 2), tostring(b / 2))
print(a % b, a ^ 2, 2 ^ a)
print(a)
print(a, b, 1)
print(a .. b, a .. "s", "s" .. a, 1 .. a)
print(a("x"), a("y", "more"))
print(pcall(function() return {} + 1 end))
print(pcall(function() return 1 + nil end))
print(pcall(function() return "abc" + 1 end))
print(pcall(function() return "a" .. {} end))
print(pcall(function() return nil .. "a" end))
print(pcall(function() return #5 end))
print(pcall(function() return -{} end))
print(pcall(function() ({})() end))
print(pcall(function() local f; f = nil; return (f)() end))
print(string.sub(tostring({}), 1, 9), string.sub(tostring(print), 1, 10))
-- the handler of the left operand wins
local L = setmetatable({}, {__add = function() return "left" end})
local R = setmetatable({}, {__add = function() return "right" end})
print(L + R, R + L, 1 + R, L + 1)
