(* The simulation of a call  f(a1, ..., an)  of a function by name.  The arguments are plain expressions, names of
   functions (the closure the name holds is handed on) or lambda expressions (a new closure: it joins the world, so
   the arguments after it and the call run in a larger world); the result is brought back to the world of the caller. *)
From Coq Require Import String Ascii List NArith ZArith QArith Bool Lia.
From Sylt Require Import Syntax.Resolved.
From Sylt Require Sem.Values Sem.Runtime Sem.SyltSem.
From Sylt Require Import Back.IR Back.Emit Back.ScopeProofs.
From Sylt Require Import Pres.EmitAst Pres.EmitRel Pres.Names Pres.LuaFuel Pres.LuaEv Pres.Preamble.
From Sylt Require Import Pres.Frag.
From Sylt Require Import Pres.SimDefs Pres.SimOps Pres.SimVals.
From Sylt Require Import Pres.SimExpr Pres.LowerShape Pres.SimSteps Pres.SimFun Pres.SimExprProofs.
From Sylt Require Import Lua.LuaAst Lua.LuaMap Lua.LuaNum Lua.LuaProofs Lua.LuaCore.
Import ListNotations.
Local Open Scope N_scope.

Ltac splits := repeat match goal with |- _ /\ _ => split end.

Section Ecall.
Variable pv : N.
Variable sv : N.
Variable bound : N.
Variable u : counts.
Variable fl : list (N * kind).

Notation ctx_ok := (ctx_ok bound).

Lemma fun_kind_in f K : fun_kind fl f = Some K -> In (f, K) fl.
Proof.
  unfold fun_kind. destruct (find (fun fa => fst fa =? f) fl) as [[f' K']|] eqn:Hf; [|discriminate].
  intros H. inversion H; subst K'. apply find_some in Hf as [Hin Heq]. cbn [fst] in Heq. apply N.eqb_eq in Heq. subst f'. exact Hin.
Qed.

(* one argument of a call: a plain expression, or a function-valued one of the kind the parameter wants *)
Definition arg_frag (k : nat) (sc : list N) (K : kind) (a : Resolved.expr) : Prop :=
  match K with
  | KP => frag_expr pv sv bound fl k sc a = true
  | KF _ _ => exists K', frag_fexpr pv sv bound fl k sc a = Some K' /\ kind_eqb K' K = true
  end.

Lemma frag_args_inv k sc : forall ks args, frag_args pv sv bound fl k sc ks args = true -> Forall2 (arg_frag k sc) ks args.
Proof.
  induction ks as [|K ks IH]; intros [|a args] H; cbn [frag_args] in H; try discriminate; [constructor | destruct K; discriminate |].
  destruct K.
  - apply andb_prop in H as [Ha Hr]. constructor; [exact Ha | apply IH; exact Hr].
  - apply andb_prop in H as [Ha Hr]. constructor; [|apply IH; exact Hr].
    cbn [arg_frag]. destruct (frag_fexpr pv sv bound fl k sc a) as [K'|]; [|discriminate Ha]. exists K'. split; [reflexivity | exact Ha].
Qed.

Lemma frag_fexpr_ok k sc a K : frag_fexpr pv sv bound fl k sc a = Some K -> arg_ok pv sv bound fl k sc a.
Proof. intros H. right. exists K. exact H. Qed.

Lemma arg_frag_ok k sc K a : arg_frag k sc K a -> arg_ok pv sv bound fl k sc a.
Proof.
  destruct K; cbn [arg_frag]; [intros H; left; exact H|]. intros (K' & H & _). eapply frag_fexpr_ok. exact H.
Qed.

(* ---- from a larger world back to a smaller one that knows the functions in scope ---- *)
Lemma rel_down W W1 sc e st E stL :
  rel pv sv bound u fl W1 sc e st E stL -> wsub W W1 -> fscope fl W e E -> rel pv sv bound u fl W sc e st E stL.
Proof.
  intros (_ & W' & Hs' & H) Hs Hfs. split; [exact Hfs|]. exists W'. split; [eapply wsub_trans; eassumption | exact H].
Qed.

Lemma fscope_keep W sc e E E' : fscope fl W e E -> keep fl sc E E' -> fscope fl W e E'.
Proof.
  intros Hfs Hk f K Hin HK. destruct (Hfs f K Hin HK) as (c & p & A & B & C). exists c, p. split; [exact A | split; [|exact C]].
  rewrite (Hk f); [exact B|]. right. unfold fnames. apply in_map_iff. eexists. split; [|exact Hin]. reflexivity.
Qed.

Lemma okstep_down W W1 sc e st' F c c' E stL b E' stL' F' :
  okstep pv sv bound u fl W1 sc e st' F c c' E stL b E' stL' F' -> wsub W W1 -> fscope fl W e E ->
  okstep pv sv bound u fl W sc e st' F c c' E stL b E' stL' F'.
Proof.
  intros (Hx & Hf & Hr & Hn & Hk) Hs Hfs. split; [exact Hx|]. split; [exact Hf|]. split; [|split; assumption].
  eapply rel_down; [exact Hr | exact Hs | eapply fscope_keep; eassumption].
Qed.

Lemma exit_post_down {A} W W1 ctx sc e c c' E stL b (r : SyltSem.res A) st' :
  exit_post pv sv bound u fl W1 ctx sc e c c' E stL b r st' -> wsub W W1 -> fscope fl W e E ->
  exit_post pv sv bound u fl W ctx sc e c c' E stL b r st'.
Proof.
  intros (rl & Hx & Hok) Hs Hfs. exists rl. split; [exact Hx|].
  destruct r as [x|o|[| |v]]; cbn [exit_ok] in *; try contradiction; try exact Hok.
  - destruct Hok as (E' & stL' & -> & Hr & Hk). exists E', stL'. split; [reflexivity | split; [eapply rel_down; eassumption | exact Hk]].
  - destruct Hok as (E' & stL' & -> & Hr & Hk). exists E', stL'. split; [reflexivity | split; [eapply rel_down; eassumption | exact Hk]].
  - destruct Hok as (E' & stL' & lv & -> & Hv & Hr & Hk). exists E', stL', lv. split; [reflexivity | split; [exact Hv | split; [eapply rel_down; eassumption | exact Hk]]].
Qed.

Lemma adenotes_wsub W W1 K F E stL ex av : adenotes W K F E stL ex av -> wsub W W1 -> adenotes W1 K F E stL ex av.
Proof.
  destruct K; cbn [adenotes]; [auto|]. intros (d & A & B) (_ & _ & HD & _). exists d. split; [apply HD; exact A | exact B].
Qed.

Lemma rel_fscope W sc e st E stL : rel pv sv bound u fl W sc e st E stL -> fscope fl W e E.
Proof. intros [H _]. exact H. Qed.

(* ---- one argument ---- *)
Lemma arg_sim n g : (forall W, P_eval pv sv bound u fl W n) -> (forall W, P_farg pv sv bound u fl W n) ->
  forall W K a k ctx c code_a va c1 e st r st1 sc l E stL F,
    arg_frag k sc K a ->
    SyltSem.eval n e a st = (r, st1) -> expression g a ctx c = Ok ((code_a, va), c1) ->
    ucovers u code_a -> 1 <= count_of u va -> ctx_ok l F E c c1 -> rel pv sv bound u fl W sc e st E stL -> interesting r ->
    exists b l', cshape u l code_a b l' c c1 /\ c <= va /\ va < c1 /\
      match r with
      | SyltSem.RVal y =>
          exists W1 E' stL' F', wsub W W1 /\ okstep pv sv bound u fl W sc e st1 F c c1 E stL b E' stL' F' /\
                                 rel pv sv bound u fl W1 sc e st1 E' stL' /\ adenotes W1 K F' E' stL' (aexpand l' va) y
      | _ => exit_post pv sv bound u fl W ctx sc e c c1 E stL b r st1
      end.
Proof.
  intros IHall IHF W K a k ctx c code_a va c1 e st r st1 sc l E stL F Hfa Hev Hlow Hu Hcva Hctx Hrel Hint.
  destruct K; cbn [arg_frag] in Hfa.
  - (* a plain expression *)
    destruct (IHall W g k a ctx c code_a va c1 e st r st1 sc l E stL F Hev Hlow Hfa Hu Hctx Hrel Hint) as (b & l' & Hs & H1 & H2 & Hp).
    exists b, l'. split; [exact Hs|]. split; [exact H1|]. split; [exact H2|].
    destruct r as [y|o|cc]; [|exact Hp | exact Hp]. cbn [eval_post] in Hp. destruct Hp as (E' & stL' & F' & Hok & Hd).
    exists W, E', stL', F'. split; [apply wsub_refl|]. split; [exact Hok|]. split; [apply Hok | exact (Hd Hcva)].
  - destruct Hfa as (K' & Hf & Hk). apply kind_eqb_eq in Hk. subst K'.
    exact (IHF W g k a _ ctx c code_a va c1 e st r st1 sc l E stL F Hev Hlow Hf Hu Hcva Hctx Hrel Hint).
Qed.

Lemma adenotes_step W K sc e st F1 F2 c0 c1 E1 stL1 b E2 stL2 ex av :
  adenotes W K F1 E1 stL1 ex av -> okstep pv sv bound u fl W sc e st F1 c0 c1 E1 stL1 b E2 stL2 F2 -> F_out bound F1 c0 c1 ->
  adenotes W K F2 E2 stL2 ex av.
Proof.
  intros Hd (_ & Hf & _ & (Hi & _) & _) Ho. eapply adenotes_mono; [exact Hd | eapply fut_wframe; eassumption | exact Hi].
Qed.

(* ---- the arguments of a call ---- *)
Lemma args_sim n g : (forall W, P_eval pv sv bound u fl W n) -> (forall W, P_farg pv sv bound u fl W n) ->
  forall ks W args k ctx c rs c' cend e st ra st' sc l E stL F,
    SyltSem.mapM (SyltSem.eval n e) args st = (ra, st') ->
    mapM (fun a => expression g a ctx) args c = Ok (rs, c') ->
    Forall2 (arg_frag k sc) ks args ->
    ucovers u (concat (map fst rs)) -> (forall r, In r rs -> 1 <= count_of u (snd r)) ->
    c' <= cend -> ctx_ok l F E c cend -> rel pv sv bound u fl W sc e st E stL -> interesting ra ->
    exists b l', cshape u l (concat (map fst rs)) b l' c c' /\
      match ra with
      | SyltSem.RVal avs =>
          exists W1 E' stL' F', wsub W W1 /\ okstep pv sv bound u fl W sc e st' F c c' E stL b E' stL' F' /\
            rel pv sv bound u fl W1 sc e st' E' stL' /\ ctx_ok l' F' E' c' cend /\
            Forall3 (fun K av t => adenotes W1 K F' E' stL' (aexpand l' t) av) ks avs (map snd rs)
      | _ => exit_post pv sv bound u fl W ctx sc e c c' E stL b ra st'
      end.
Proof.
  intros IH IHF. induction ks as [|K ks IHa]; intros W args k ctx c rs c' cend e st ra st' sc l E stL F Hev Hm Hf Hu Hcnt Hce Hctx Hrel Hint.
  - inversion Hf; subst. destruct (mapM_nil_ok _ _ _ _ Hm) as [-> ->]. cbn in Hev. inversion Hev; subst ra st'.
    eexists _, _. split; [apply cshape_nil|]. exists W, E, stL, F.
    split; [apply wsub_refl|]. split; [apply okstep_refl; exact Hrel|]. split; [exact Hrel|]. split; [exact Hctx | constructor].
  - inversion Hf as [|? a ? args' Hfa Hfs]; subst.
    apply mapM_cons_ok in Hm as (y & c1 & ys & Hy & Hys & ->). destruct y as [code_a va].
    cbn [map concat fst snd] in *. apply ucovers_app in Hu as [Hua Hus].
    assert (Hcva : 1 <= count_of u va) by (apply (Hcnt (code_a, va)); left; reflexivity).
    assert (Hcnts : forall r, In r ys -> 1 <= count_of u (snd r)) by (intros r Hr; apply Hcnt; right; exact Hr).
    assert (Hoks : Forall (arg_ok pv sv bound fl k sc) args').
    { clear - Hfs. induction Hfs; constructor; [eapply arg_frag_ok; eassumption | assumption]. }
    assert (HLr : forall l0, exists b2 l2, cshape u l0 (concat (map fst ys)) b2 l2 c1 c')
      by (intros l0; destruct (L_args pv sv bound u fl g (L_expr_all pv sv bound u fl g) (L_fexpr_all pv sv bound u fl g) args' k ctx c1 ys c' sc l0 Hys Hoks) as (b2 & l2 & H2 & _); eauto).
    destruct (HLr l) as (_ & _ & (_ & Hc1c' & _)).
    assert (Hcc1 : c <= c1).
    { destruct (L_args pv sv bound u fl g (L_expr_all pv sv bound u fl g) (L_fexpr_all pv sv bound u fl g) [a] k ctx c [(code_a, va)] c1 sc l) as (_ & _ & (_ & H & _) & _); [|constructor; [eapply arg_frag_ok; eassumption | constructor]|exact H].
      cbn [mapM]. unfold IR.bind, IR.ret. rewrite Hy. reflexivity. }
    assert (Hctxa : ctx_ok l F E c c1) by (eapply ctx_sub; [exact Hctx | lia | lia]).
    cbn [SyltSem.mapM] in Hev. unfold SyltSem.bind at 1 in Hev.
    destruct (SyltSem.eval n e a st) as [ry st1] eqn:Hy1.
    assert (Hinty : interesting ry).
    { destruct ry as [y|o|cc]; [exact I | |]; inversion Hev; subst; exact Hint. }
    destruct (arg_sim n g IH IHF W K a k ctx c code_a va c1 e st ry st1 sc l E stL F Hfa Hy1 Hy Hua Hcva Hctxa Hrel Hinty)
      as (b1 & l1 & Hs1 & Hva1 & Hva2 & Hp1).
    destruct ry as [y|o|cc].
    2,3: (inversion Hev; subst ra st'; destruct (HLr l1) as (b2 & l2 & Hs2);
          eexists _, _; (split; [eapply cshape_app; eassumption|]); eapply (exit_app pv sv bound u fl W ctx sc e c c1 c'); [exact Hp1 | exact Hc1c']).
    destruct Hp1 as (W1 & E1 & stL1 & F1 & Hw1 & Hok1 & Hrel1 & Hd1).
    assert (Hctx1 : ctx_ok l1 F1 E1 c1 cend) by (eapply (ctx_after pv sv bound u fl W); eassumption).
    unfold SyltSem.bind at 1 in Hev.
    destruct (SyltSem.mapM (SyltSem.eval n e) args' st1) as [rr st2] eqn:Hrest.
    assert (Hintr : interesting rr).
    { destruct rr as [ys_|o|cc]; [exact I | |]; cbn in Hev; inversion Hev; subst; exact Hint. }
    destruct (IHa W1 args' k ctx c1 ys c' cend e st1 rr st2 sc l1 E1 stL1 F1 Hrest Hys Hfs Hus Hcnts Hce Hctx1 Hrel1 Hintr)
      as (b2 & l2 & Hs2 & Hpost).
    eexists _, _. split; [eapply cshape_app; eassumption|].
    assert (Hfs1 : fscope fl W e E1) by (destruct Hok1 as (_ & _ & Hr & _); apply (rel_fscope _ _ _ _ _ _ Hr)).
    destruct rr as [ys_|o|cc]; cbn in Hev; inversion Hev; subst ra st'; clear Hev.
    + destruct Hpost as (W2 & E2 & stL2 & F2 & Hw2 & Hok2 & Hrel2 & Hctx2 & Hds).
      exists W2, E2, stL2, F2. split; [eapply wsub_trans; eassumption|].
      pose proof (okstep_down W W1 _ _ _ _ _ _ _ _ _ _ _ _ Hok2 Hw1 Hfs1) as Hok2'.
      split; [eapply (okstep_trans pv sv bound u fl W); [exact Hok1 | exact Hok2' | lia | lia]|]. split; [exact Hrel2|]. split; [exact Hctx2|].
      constructor; [|exact Hds].
      replace (aexpand l2 va) with (aexpand l1 va)
        by (unfold aexpand; destruct Hs2 as (_ & _ & Hfr2 & _); rewrite Hfr2 by lia; reflexivity).
      assert (Hctx1' : ctx_ok l1 F1 E1 c1 c') by (eapply ctx_sub; [exact Hctx1 | lia | exact Hce]).
      eapply adenotes_wsub; [|exact Hw2].
      eapply adenotes_step; [exact Hd1 | exact Hok2 | apply (cx_F _ _ _ _ _ _ Hctx1')].
    + eapply (okstep_exit pv sv bound u fl W); [exact Hok1 | exact Hrel | eapply exit_post_down; eassumption | lia | lia].
    + eapply (okstep_exit pv sv bound u fl W); [exact Hok1 | exact Hrel | eapply exit_post_down; eassumption | lia | lia].
Qed.

(* ---- the call: the callee (a function-valued expression: a name, or computed), the arguments, the call ---- *)
Lemma call_sim W n :
  (forall W', P_eval pv sv bound u fl W' n) -> (forall W', P_farg pv sv bound u fl W' n) -> (forall W', P_apply pv sv bound u fl W' n) ->
  forall g k kc callee args sp ctx c code v c' e st r st' sc l E stL F ks rk,
    SyltSem.eval (S n) e (Resolved.ECall callee args sp) st = (r, st') ->
    expression g (Resolved.ECall callee args sp) ctx c = Ok ((code, v), c') ->
    frag_fexpr pv sv bound fl kc sc callee = Some (KF ks rk) -> frag_args pv sv bound fl k sc ks args = true ->
    ucovers u code -> ctx_ok l F E c c' ->
    rel pv sv bound u fl W sc e st E stL -> interesting r ->
    exists b l', cshape u l code b l' c c' /\ c <= v /\ v < c' /\
      match r with
      | SyltSem.RVal y =>
          exists W1 E' stL' F', wsub W W1 /\ okstep pv sv bound u fl W sc e st' F c c' E stL b E' stL' F' /\
                                 rel pv sv bound u fl W1 sc e st' E' stL' /\ adenotes W1 rk F' E' stL' (aexpand l' v) y
      | _ => exit_post pv sv bound u fl W ctx sc e c c' E stL b r st'
      end.
Proof.
  intros IH IHF IHap g k kc callee args sp ctx c code v c' e st r st' sc l E stL F ks rk Hev Hlow Hfc Hfrag Hu Hctx Hrel Hint.
  destruct g as [|g]; [discriminate|].
  pose proof (frag_args_inv k sc _ args Hfrag) as Hfr.
  cbn [expression] in Hlow. mon Hlow. fresh_all. inj_code. destruct a as [codef vf]. rename a0 into rs. rename c0 into cf. rename c1 into ca.
  cbn [fst snd] in *.
  (* structure and usage counts *)
  assert (Hoks : Forall (arg_ok pv sv bound fl k sc) args).
  { clear - Hfr. induction Hfr; constructor; [eapply arg_frag_ok; eassumption | assumption]. }
  destruct (L_fexpr_all pv sv bound u fl g kc callee _ ctx c codef vf cf sc l Hm Hfc) as (_ & _ & (_ & Hccf & _) & Hvf1 & Hvf2).
  assert (HLa : forall l0, exists b2 l2, cshape u l0 (concat (map fst rs)) b2 l2 cf ca)
    by (intros l0; destruct (L_args pv sv bound u fl g (L_expr_all pv sv bound u fl g) (L_fexpr_all pv sv bound u fl g) args k ctx cf rs ca sc l0 Hm0 Hoks) as (b2 & l2 & H2 & _); eauto).
  destruct (HLa l) as (_ & _ & (_ & Hca & _)).
  apply ucovers_app in Hu as [Huf Hu]. apply ucovers_app in Hu as [Hua Huc].
  assert (Hcvf : 1 <= count_of u vf) by (eapply Huc; [left; reflexivity | cbn [ir_uses]; left; reflexivity]).
  assert (Hcnt : forall r0, In r0 rs -> 1 <= count_of u (snd r0)).
  { intros r0 Hr0. eapply Huc; [left; reflexivity | cbn [ir_uses]; right; apply in_map; exact Hr0]. }
  assert (Hscall : forall l0, cshape u l0 [ICall ca vf (map snd rs)] (fst (agen_one u l0 (ICall ca vf (map snd rs)))) l0 ca (ca + 1))
    by (intros l0; apply (cshape_plain u l0 (ICall ca vf (map snd rs)) ca (ca + 1)); [lia | reflexivity | reflexivity | reflexivity]).
  (* the reference interpreter: the callee *)
  cbn [SyltSem.eval] in Hev. unfold SyltSem.bind at 1 in Hev.
  destruct (SyltSem.eval n e callee st) as [rf st1] eqn:Hfv.
  assert (Hif : interesting rf).
  { destruct rf; [exact I | inversion Hev; subst; exact Hint | inversion Hev; subst; exact Hint]. }
  assert (Hctx0 : ctx_ok l F E c cf) by (eapply ctx_sub; [exact Hctx | lia | lia]).
  destruct (IHF W g kc callee _ ctx c codef vf cf e st rf st1 sc l E stL F Hfv Hm Hfc Huf Hcvf Hctx0 Hrel Hif)
    as (b_f & l0 & Hsf & _ & _ & Hpf).
  destruct (HLa l0) as (b_a0 & l10 & Hsa0).
  destruct rf as [fv|o|cc].
  2,3: (inversion Hev; subst r st';
        eexists _, _; (split; [eapply cshape_app; [exact Hsf|]; eapply cshape_app; [exact Hsa0 | apply Hscall]|]);
        (split; [lia|]); (split; [lia|]);
        eapply (exit_app pv sv bound u fl W ctx sc e c cf (ca + 1)); [exact Hpf | lia]).
  destruct Hpf as (W1 & E1 & stL1 & F1 & Hw1 & Hok1 & Hrel1 & Hd1).
  cbn [adenotes] in Hd1. destruct Hd1 as (d & Hd & Hdk & -> & Hdf).
  assert (Hpk : fd_pk d = ks) by (unfold dkind in Hdk; inversion Hdk; reflexivity).
  assert (Hrk : fd_rk d = rk) by (unfold dkind in Hdk; inversion Hdk; reflexivity). subst ks rk.
  assert (Hctx1 : ctx_ok l0 F1 E1 cf (ca + 1)) by (eapply (ctx_after pv sv bound u fl W sc e st1 l F E stL c cf (ca + 1)); [exact Hctx | exact Hsf | exact Hok1]).
  assert (Hfs1 : fscope fl W e E1) by (destruct Hok1 as (_ & _ & Hr & _); apply (rel_fscope _ _ _ _ _ _ Hr)).
  (* the arguments *)
  unfold SyltSem.bind at 1 in Hev.
  destruct (SyltSem.mapM (SyltSem.eval n e) args st1) as [ra st2] eqn:Hy.
  assert (Hia : interesting ra).
  { destruct ra; cbn in Hev; [exact I | inversion Hev; subst; exact Hint | inversion Hev; subst; exact Hint]. }
  destruct (args_sim n g IH IHF (fd_pk d) W1 args k ctx cf rs ca (ca + 1) e st1 ra st2 sc l0 E1 stL1 F1 Hy Hm0 Hfr Hua Hcnt ltac:(lia) Hctx1 Hrel1 Hia)
    as (b_a & l1 & Hsa & Hpa).
  eexists _, _. split; [eapply cshape_app; [exact Hsf|]; eapply cshape_app; [exact Hsa | apply Hscall]|]. split; [lia|]. split; [lia|].
  destruct ra as [avs|o|cc]; cbn in Hev.
  - (* the arguments have values: the call, in the world the arguments end in *)
    destruct Hpa as (W2 & E2 & stL2 & F2 & Hw2 & Hok2 & Hrel2 & Hctx2 & Hds).
    assert (Hok12 : okstep pv sv bound u fl W sc e st2 F c ca E stL (b_f ++ b_a) E2 stL2 F2).
    { eapply (okstep_trans pv sv bound u fl W); [exact Hok1 | eapply okstep_down; [exact Hok2 | exact Hw1 | exact Hfs1] | lia | lia]. }
    assert (Hdf2 : ldenotes F2 E2 stL2 (aexpand l1 vf) (VFun (fd_fid d))).
    { replace (aexpand l1 vf) with (aexpand l0 vf).
      - assert (Hctx1' : ctx_ok l0 F1 E1 cf ca) by (eapply ctx_sub; [exact Hctx1 | lia | lia]).
        eapply (ldenotes_step pv sv bound u fl W1); [exact Hdf | exact Hok2 | apply (cx_F _ _ _ _ _ _ Hctx1')].
      - unfold aexpand. destruct Hsa as (_ & _ & Hfr1 & _). rewrite Hfr1 by lia. reflexivity. }
    assert (Hd2 : w_D W2 d) by (destruct Hw2 as (_ & _ & HD & _); apply HD; exact Hd).
    pose proof (step_call_fun pv sv bound u fl W2 n ctx sc e st2 F2 ca (ca + 1) E2 stL2 l1 ca vf (map snd rs) avs d r st'
                  (IHap W2) Hrel2 Hctx2 ltac:(lia) Hd2 Hdf2 Hds Hev Hint) as Hcall.
    assert (Hfs2 : fscope fl W e E2) by (destruct Hok12 as (_ & _ & Hr & _); apply (rel_fscope _ _ _ _ _ _ Hr)).
    assert (Hw02 : wsub W W2) by (eapply wsub_trans; eassumption).
    change (b_f ++ b_a ++ fst (agen_one u l1 (ICall ca vf (map snd rs)))) with (b_f ++ (b_a ++ fst (agen_one u l1 (ICall ca vf (map snd rs))))).
    rewrite app_assoc.
    destruct r as [rv|o|cc].
    + destruct Hcall as (W3 & E3 & stL3 & F3 & Hw3 & Hok3 & Hd3).
      assert (Hw03 : wsub W W3) by (eapply wsub_trans; eassumption).
      exists W3, E3, stL3, F3. split; [exact Hw03|]. split; [|split; [apply Hok3 | exact Hd3]].
      eapply (okstep_trans pv sv bound u fl W); [exact Hok12 | eapply okstep_down; eassumption | lia | lia].
    + eapply (okstep_exit pv sv bound u fl W); [exact Hok12 | exact Hrel | eapply exit_post_down; eassumption | lia | lia].
    + eapply (okstep_exit pv sv bound u fl W); [exact Hok12 | exact Hrel | eapply exit_post_down; eassumption | lia | lia].
  - inversion Hev; subst r st'. clear Hev.
    rewrite app_assoc. eapply (exit_app pv sv bound u fl W ctx sc e c ca (ca + 1)); [|lia].
    eapply (okstep_exit pv sv bound u fl W ctx sc e st st1 F F1 c cf ca); [exact Hok1 | exact Hrel | eapply exit_post_down; eassumption | lia | exact Hca].
  - inversion Hev; subst r st'. clear Hev.
    rewrite app_assoc. eapply (exit_app pv sv bound u fl W ctx sc e c ca (ca + 1)); [|lia].
    eapply (okstep_exit pv sv bound u fl W ctx sc e st st1 F F1 c cf ca); [exact Hok1 | exact Hrel | eapply exit_post_down; eassumption | lia | exact Hca].
Qed.

(* the kind of a callee *)
Lemma callee_kind k sc callee args sp :
  (forall fsp, callee <> ERead pv fsp) ->
  frag_expr pv sv bound fl (S k) sc (Resolved.ECall callee args sp) = true ->
  exists kc ks, frag_fexpr pv sv bound fl kc sc callee = Some (KF ks KP) /\ frag_args pv sv bound fl k sc ks args = true.
Proof.
  intros Hnp Hfrag. destruct (read_dec callee) as [(f & fsp & ->)|Hnr].
  - rewrite frag_expr_call in Hfrag. destruct (N.eqb_spec f pv) as [->|_]; [exfalso; eapply Hnp; reflexivity|].
    destruct (fun_kind fl f) as [[|ks [|? ?]]|] eqn:Hk; try discriminate Hfrag.
    exists 1%nat, ks. split; [cbn [frag_fexpr]; rewrite Hk; reflexivity | exact Hfrag].
  - rewrite (frag_expr_call2 _ _ _ _ _ _ _ _ _ Hnr) in Hfrag.
    destruct (frag_fexpr pv sv bound fl k sc callee) as [[|ks [|? ?]]|] eqn:Hk; try discriminate Hfrag.
    exists k, ks. split; [exact Hk | exact Hfrag].
Qed.

Lemma callee_fkind k sc callee args sp K :
  frag_fexpr pv sv bound fl (S k) sc (Resolved.ECall callee args sp) = Some K ->
  exists kc ks, frag_fexpr pv sv bound fl kc sc callee = Some (KF ks K) /\ frag_args pv sv bound fl k sc ks args = true.
Proof.
  intros Hf. destruct (read_dec callee) as [(f & fsp & ->)|Hnr].
  - rewrite frag_fexpr_call in Hf. destruct (f =? pv); [discriminate Hf|].
    destruct (fun_kind fl f) as [[|ks [|ka kr]]|] eqn:Hk; try discriminate Hf.
    destruct (frag_args pv sv bound fl k sc ks args) eqn:Hfa; [|discriminate Hf]. inversion Hf; subst K.
    exists 1%nat, ks. split; [cbn [frag_fexpr]; rewrite Hk; reflexivity | exact Hfa].
  - rewrite (frag_fexpr_call2 _ _ _ _ _ _ _ _ _ Hnr) in Hf.
    destruct (frag_fexpr pv sv bound fl k sc callee) as [[|ks [|ka kr]]|] eqn:Hk; try discriminate Hf.
    destruct (frag_args pv sv bound fl k sc ks args) eqn:Hfa; [|discriminate Hf]. inversion Hf; subst K.
    exists k, ks. split; [exact Hk | exact Hfa].
Qed.

(* a call whose result is plain *)
Lemma P_ecall_succ W n :
  (forall W', P_eval pv sv bound u fl W' n) -> (forall W', P_farg pv sv bound u fl W' n) -> (forall W', P_apply pv sv bound u fl W' n) ->
  P_ecall pv sv bound u fl W (S n).
Proof.
  intros IH IHF IHap g k callee args sp ctx c code v c' e st r st' sc l E stL F Hnpv Hev Hlow Hfrag Hu Hctx Hrel Hint.
  destruct k as [|k]; [discriminate|].
  destruct (callee_kind k sc callee args sp Hnpv Hfrag) as (kc & ks & Hfc & Hfa).
  destruct (call_sim W n IH IHF IHap g k kc callee args sp ctx c code v c' e st r st' sc l E stL F ks KP Hev Hlow Hfc Hfa Hu Hctx Hrel Hint)
    as (b & l' & Hs & H1 & H2 & Hp).
  exists b, l'. split; [exact Hs|]. split; [exact H1|]. split; [exact H2|].
  destruct r as [y|o|cc]; cbn [eval_post]; [|exact Hp | exact Hp].
  destruct Hp as (W1 & E' & stL' & F' & _ & Hok & _ & Hd). exists E', stL', F'. split; [exact Hok | intros _; exact Hd].
Qed.

(* ---- function-valued expressions ---- *)
Lemma P_farg_zero W : P_farg pv sv bound u fl W O.
Proof.
  intros g k x K ctx c code v c' e st r st' sc l E stL F Hev. cbn in Hev. inversion Hev; subst. intros. contradiction.
Qed.

Lemma P_farg_succ W n :
  (forall W', P_eval pv sv bound u fl W' n) -> (forall W', P_farg pv sv bound u fl W' n) -> (forall W', P_apply pv sv bound u fl W' n) ->
  P_farg pv sv bound u fl W (S n).
Proof.
  intros IH IHF IHap g k a K ctx c code_a va c1 e st r st1 sc l E stL F Hev Hlow Hf Hu Hcva Hctx Hrel Hint.
  destruct k as [|k0]; [discriminate Hf|].
  destruct a; try discriminate Hf.
  - (* the name of a function *)
    cbn [frag_fexpr] in Hf.
    destruct (fun_kind fl var) as [Kf|] eqn:Hfk; [|discriminate Hf]. destruct Kf; [discriminate Hf|]. inversion Hf; subst. clear Hf.
    apply fun_kind_in in Hfk.
    destruct (r_fund _ _ _ _ _ _ _ _ _ _ _ var _ Hrel Hfk ltac:(discriminate)) as (cf & pf & d & Hlkf & Hnthf & Hpf & Hcellf & Hdk & Hreld).
    assert (Hvarb : var < bound).
    { destruct (r_flb _ _ _ _ _ _ _ _ _ _ _ Hrel var); [|assumption]. unfold fnames. apply in_map_iff. eexists. split; [|exact Hfk]. reflexivity. }
    destruct g as [|g]; [discriminate Hlow|].
    cbn [expression] in Hlow. mon Hlow. fresh_all. inj_code.
    cbn [SyltSem.eval] in Hev. rewrite Hlkf in Hev. unfold SyltSem.read_cell in Hev. rewrite Hnthf in Hev. inversion Hev; subst r st1. clear Hev.
    (* the closure the name holds now joins the world *)
    destruct (step_copy_fun pv sv bound u fl (world_addD W d) sc e st F c (c + 1) E stL l c var pf (fd_fid d) Hreld Hctx ltac:(lia) Hcva Hvarb Hpf Hcellf) as (E1 & stL1 & F1 & Hok1 & Hdf).
    eexists _, _. split; [apply cshape_plain; [lia | reflexivity | reflexivity | apply used_plain]|].
    split; [lia|]. split; [lia|].
    exists (world_addD W d), E1, stL1, F1. split; [apply wsub_addD|].
    split; [eapply okstep_down; [exact Hok1 | apply wsub_addD | apply (rel_fscope _ _ _ _ _ _ Hrel)]|]. split; [apply Hok1|].
    cbn [adenotes]. exists d. split; [right; reflexivity | auto].
  - (* a call that returns a function *)
    destruct (callee_fkind k0 sc a args sp K Hf) as (kc & ks & Hfc & Hfa).
    exact (call_sim W n IH IHF IHap g k0 kc a args sp ctx c code_a va c1 e st r st1 sc l E stL F ks K Hev Hlow Hfc Hfa Hu Hctx Hrel Hint).
  - (* a lambda *)
    cbn [frag_fexpr] in Hf.
    match type of Hf with (if ?b then _ else _) = _ => destruct b eqn:Hc; [|discriminate Hf] end.
    inversion Hf; subst. clear Hf.
    apply andb_prop in Hc as [Hpok Hfb].
    set (ps := param_ids params) in *. set (ks := param_kinds params) in *. set (rk := kind_of_ty ret) in *.
    assert (Hlks : length ks = length ps) by (unfold ks, ps, param_kinds, param_ids; rewrite !map_length; reflexivity).
    destruct g as [|g]; [discriminate Hlow|].
    cbn [expression] in Hlow. fold ps in Hlow. mon Hlow. fresh_all. inj_code. rename a0 into bc.
    cbn [SyltSem.eval] in Hev. fold (param_ids params) in Hev. fold ps in Hev. cbn in Hev. inversion Hev; subst r st1. clear Hev.
    pose proof Hctx as [Hbc Hlut HFo HEf].
    apply ucovers_cons in Hu as [_ Hu]. apply ucovers_app in Hu as [Hubc _].
    destruct (L_fb_all pv sv bound u _ g k0 body rk ctx (c + 1) bc c1 _ l Hm0 Hfb) as (bb & l1 & Hsb).
    pose proof Hsb as (Hemb & Hcc1 & Hfr1 & Hnlb).
    assert (Hlut1 : lut_ok bound l (c + 1) c1) by (eapply lut_ok_sub; [exact Hlut | lia | lia]).
    assert (HEf1 : E_free E (c + 1) c1) by (eapply E_free_sub; [exact HEf | lia | lia]).
    pose proof (rel_define_lambda pv sv bound u fl W sc e st E stL c ps ks rk body g k0 bc ctx (c + 1) c1 l
                  Hrel Hpok Hlks Hfb Hm0 Hubc Hbc ltac:(lia) Hlut1 HEf1) as Hrel1.
    set (E1 := sset (fmt_var c) (s_ncell stL) E) in *.
    set (d := mkFdyn c ps ks rk body sc fl g k0 bc ctx (c + 1) c1 l 0%nat (length (SyltSem.clos st)) e (s_ncell stL) (s_nclo stL) E1) in *.
    change (SimDefs.rel pv sv bound u fl (world_addD W d) sc e (s_newclos st (SyltSem.mkClos ps body e)) E1 (lua_def_state stL E1 ps (fbody u d))) in Hrel1.
    assert (Hbb : bb = fbody u d) by (unfold fbody; cbn [d fd_lut fd_code]; apply (Emits_block_fun' u l bc bb l1 Hemb)).
    rewrite <- Hbb in Hrel1.
    assert (Hlc : alut_get l c = None) by (apply Hlut; left; lia).
    assert (Hwf : wfenv E stL) by apply (r_wf _ _ _ _ _ _ _ _ _ _ _ Hrel).
    eexists _, _. split; [apply cshape_fun; [exact Hsb | exact Hlc]|].
    split; [lia|]. split; [lia|].
    assert (Hfs1 : fscope fl W e E1) by (eapply fscope_keep; [apply (rel_fscope _ _ _ _ _ _ Hrel) | eapply keep_temp; [exact Hrel | exact Hbc]]).
    exists (world_addD W d), E1, (lua_def_state stL E1 ps bb), (c :: F). split; [apply wsub_addD|].
    split; [|split; [exact Hrel1|]].
    * split; [apply ExecS_one; apply Exec_localfun|]. split; [|split; [eapply rel_down; [exact Hrel1 | apply wsub_addD | exact Hfs1]|split]].
      -- constructor.
         ++ intros t0 p0 Hb0 Hp0. unfold E1. rewrite sget_sset_var; [exact Hp0|]. intros ->. rewrite (HEf c) in Hp0 by lia. discriminate.
         ++ intros x p0 Hx. unfold E1 in Hx. destruct (String.eqb_spec x (fmt_var c)) as [->|Hne].
            ** right. left. exists c. split; [reflexivity | lia].
            ** left. rewrite sget_sset_other in Hx by exact Hne. exact Hx.
         ++ intros t0 p0 Hb0 _ Hp0. apply lua_def_old. eapply wf_alloc; eassumption.
         ++ unfold lua_def_state, set_cell, alloc_closure, alloc_cell. cbn [snd s_ncell]. lia.
      -- split; [apply incl_tl, incl_refl|]. intros t' [<-|Ht']; [right; lia | left; exact Ht'].
      -- eapply keep_temp; [exact Hrel | exact Hbc].
    * cbn [adenotes]. exists d. split; [right; reflexivity|]. split; [reflexivity|]. split; [reflexivity|].
      unfold aexpand. rewrite Hfr1 by lia. rewrite Hlc.
      eapply ldenotes_local; [left; reflexivity | unfold E1; apply sget_sset_same |].
      unfold lua_def_state. apply get_cell_set_same.
Qed.

End Ecall.
