(* The relational form of "redundant parentheses, with the columns they shift, change nothing": two ASTs that are
   equal after (1) removing every Parenthesis node and (2) forgetting the columns and the last line of every span
   -- file id and first line stay -- are resolved alike (both accepted with results equal modulo spans, or both
   rejected with errors of the same kinds), ordered alike, and emit the same text when the type checker accepts both.
   No function between the spans of the two programs is needed, so a parenthesised expression statement (whose span
   was the expression's before) is covered.
   Side condition on each program: the names of two `use` statements are not on the same line of the same file
   (statements are separated by newlines), because the resolver compares these spans. *)
From Coq Require Import String List NArith ZArith Bool Lia.
From Sylt Require Import Syntax.Resolved Resolve.PAst Resolve.Resolver Resolve.Parens Resolve.ParensProofs
     Resolve.SpanMap Resolve.SpanMapProofs Resolve.SpanMapRel Resolve.ParensLua Resolve.PositionsLua
     Dep.Topo Dep.SpanOrder Back.IR Back.Emit Back.SpanProofs Types.Tc.
Import ListNotations.

(* forget columns and the last line *)
Definition pe (s : span) : span := mkSpan (sp_file s) (sp_line0 s) 0 0 0.

Lemma pe_file s : sp_file (pe s) = sp_file s. Proof. reflexivity. Qed.
Lemma pe_line s : sp_line0 (pe s) = sp_line0 s. Proof. reflexivity. Qed.

Definition use_names_separated (ast : past) : Prop :=
  forall a b, In a (use_spans ast) -> In b (use_spans ast) -> pe a = pe b -> a = b.

Definition same_modulo_parens_and_columns (a1 a2 : past) : Prop :=
  mp_ast pe (strip_parens a2) = mp_ast pe (strip_parens a1).

Lemma resolve_pe fl ast : use_names_separated ast -> res_nat pe (resolve fl ast) (resolve fl (mp_ast pe ast)).
Proof.
  intros H. unfold resolve. rewrite (fuel_of_mp pe).
  apply (resolve_fuel_natural_U pe pe_file (fun sp => In sp (use_spans ast)) H ast (fun sp Hs => Hs)).
Qed.

Theorem columns_resolve fl a1 a2 :
  same_modulo_parens_and_columns a1 a2 ->
  use_names_separated (strip_parens a1) -> use_names_separated (strip_parens a2) ->
  match resolve fl a1, resolve fl a2 with
  | Resolver.Ok r1, Resolver.Ok r2 => same_modulo_spans r1 r2
  | Resolver.Err es1, Resolver.Err es2 => map e_kind es2 = map e_kind es1
  | Resolver.Panic s1, Resolver.Panic s2 => s1 = s2
  | Resolver.OutOfFuel, Resolver.OutOfFuel => True
  | _, _ => False
  end.
Proof.
  intros H S1 S2. rewrite <- (resolve_erases_parens fl a1), <- (resolve_erases_parens fl a2).
  pose proof (resolve_pe fl _ S1) as N1. pose proof (resolve_pe fl _ S2) as N2.
  unfold same_modulo_parens_and_columns in H. rewrite H in N2. unfold res_nat in *.
  destruct (resolve fl (strip_parens a1)) as [r1|es1|p1|], (resolve fl (strip_parens a2)) as [r2|es2|p2|],
           (resolve fl (mp_ast pe (strip_parens a1))) as [r|es|p|]; try contradiction; auto; try congruence.
  subst r. unfold same_modulo_spans.
  rewrite (mapped_same_modulo_spans pe pe_line r1), (mapped_same_modulo_spans pe pe_line r2), N2. reflexivity.
Qed.

Theorem columns_same_lua fl tgt fuel_tc fuel req a1 a2 r1 l1 :
  same_modulo_parens_and_columns a1 a2 ->
  use_names_separated (strip_parens a1) -> use_names_separated (strip_parens a2) ->
  resolve fl a1 = Resolver.Ok r1 ->
  init_order tgt (r_stmts r1) = OOk l1 ->
  exists r2 l2, resolve fl a2 = Resolver.Ok r2 /\ init_order tgt (r_stmts r2) = OOk l2
    /\ forall out1 out2,
         compile_after_order (Emit.backend fuel req) fuel_tc (mkResolved (r_vars r1) l1) = COk out1 ->
         compile_after_order (Emit.backend fuel req) fuel_tc (mkResolved (r_vars r2) l2) = COk out2 ->
         out1 = out2.
Proof.
  intros H S1 S2 R1 O1. pose proof (columns_resolve fl a1 a2 H S1 S2) as P. rewrite R1 in P.
  destruct (resolve fl a2) as [r2| | |]; try contradiction.
  destruct (spans_same_lua tgt fuel_tc fuel req r1 r2 l1 P O1) as (l2 & O2 & _ & E).
  exists r2, l2. split; [reflexivity|]. split; [exact O2|exact E].
Qed.

(* ---- with EmptyStatements as well: blank lines and comment-only lines ---- *)
From Sylt Require Import Resolve.Empties Resolve.EmptiesProofs.

Definition layout_nf (ast : past) : past := drop_empties (strip_parens ast).

Definition same_modulo_layout (a1 a2 : past) : Prop := mp_ast pe (layout_nf a2) = mp_ast pe (layout_nf a1).

Lemma resolve_layout_nf fl ast : resolve fl (layout_nf ast) = resolve fl ast.
Proof. unfold layout_nf. rewrite resolve_drops_empties. apply resolve_erases_parens. Qed.

Theorem layout_resolve fl a1 a2 :
  same_modulo_layout a1 a2 ->
  use_names_separated (layout_nf a1) -> use_names_separated (layout_nf a2) ->
  match resolve fl a1, resolve fl a2 with
  | Resolver.Ok r1, Resolver.Ok r2 => same_modulo_spans r1 r2
  | Resolver.Err es1, Resolver.Err es2 => map e_kind es2 = map e_kind es1
  | Resolver.Panic s1, Resolver.Panic s2 => s1 = s2
  | Resolver.OutOfFuel, Resolver.OutOfFuel => True
  | _, _ => False
  end.
Proof.
  intros H S1 S2. rewrite <- (resolve_layout_nf fl a1), <- (resolve_layout_nf fl a2).
  pose proof (resolve_pe fl _ S1) as N1. pose proof (resolve_pe fl _ S2) as N2.
  unfold same_modulo_layout in H. rewrite H in N2. unfold res_nat in *.
  destruct (resolve fl (layout_nf a1)) as [r1|es1|p1|], (resolve fl (layout_nf a2)) as [r2|es2|p2|],
           (resolve fl (mp_ast pe (layout_nf a1))) as [r|es|p|]; try contradiction; auto; try congruence.
  subst r. unfold same_modulo_spans.
  rewrite (mapped_same_modulo_spans pe pe_line r1), (mapped_same_modulo_spans pe pe_line r2), N2. reflexivity.
Qed.

Theorem layout_same_lua fl tgt fuel_tc fuel req a1 a2 r1 l1 :
  same_modulo_layout a1 a2 ->
  use_names_separated (layout_nf a1) -> use_names_separated (layout_nf a2) ->
  resolve fl a1 = Resolver.Ok r1 ->
  init_order tgt (r_stmts r1) = OOk l1 ->
  exists r2 l2, resolve fl a2 = Resolver.Ok r2 /\ init_order tgt (r_stmts r2) = OOk l2
    /\ forall out1 out2,
         compile_after_order (Emit.backend fuel req) fuel_tc (mkResolved (r_vars r1) l1) = COk out1 ->
         compile_after_order (Emit.backend fuel req) fuel_tc (mkResolved (r_vars r2) l2) = COk out2 ->
         out1 = out2.
Proof.
  intros H S1 S2 R1 O1. pose proof (layout_resolve fl a1 a2 H S1 S2) as P. rewrite R1 in P.
  destruct (resolve fl a2) as [r2| | |]; try contradiction.
  destruct (spans_same_lua tgt fuel_tc fuel req r1 r2 l1 P O1) as (l2 & O2 & _ & E).
  exists r2, l2. split; [reflexivity|]. split; [exact O2|exact E].
Qed.

(* the side condition, computably *)
Definition use_names_separatedb (ast : past) : bool :=
  let l := use_spans ast in
  forallb (fun a => forallb (fun b => negb (span_eqb (pe a) (pe b)) || span_eqb a b) l) l.

Lemma use_names_separatedb_sound ast : use_names_separatedb ast = true -> use_names_separated ast.
Proof.
  unfold use_names_separatedb, use_names_separated. intros H a b Ha Hb E.
  rewrite forallb_forall in H. specialize (H a Ha). rewrite forallb_forall in H. specialize (H b Hb).
  rewrite E, (proj2 (Sylt.Resolve.ImportFix.span_eqb_eq (pe b) (pe b)) eq_refl) in H. cbn in H.
  apply Sylt.Resolve.ImportFix.span_eqb_eq. exact H.
Qed.

(* ---- non-vacuity: an expression statement and the same in parentheses: `g()` / `(g())` on line 3 ---- *)
Definition xs (c0 c1 : N) : span := mkSpan 0 3 3 c0 c1.
Definition ex_call (d : N) : pexpr :=
  PGet (ACall (ARead (mkIdent "g" (xs (5 + d) (6 + d))) (xs (5 + d) (6 + d))) [] (xs (5 + d) (8 + d))) (xs (5 + d) (8 + d)).
Definition ex_file (body : pstmt) : past :=
  [mkModule (File "/main.sy") 0
     [PDefinition (mkIdent "g" (mkSpan 0 1 1 1 2)) Const (PTImplied (mkSpan 0 1 1 1 2))
        (PFunction "lambda" [] (PTResolved BVoid (mkSpan 0 1 1 6 8)) [] false (mkSpan 0 1 1 6 12)) (mkSpan 0 1 1 1 12);
      PDefinition (mkIdent "start" (mkSpan 0 2 2 1 6)) Const (PTImplied (mkSpan 0 2 2 1 6))
        (PFunction "lambda" [] (PTResolved BVoid (mkSpan 0 2 2 10 12)) [body] false (mkSpan 0 2 4 10 4)) (mkSpan 0 2 4 1 4)]].
Definition ex_b1 : past := ex_file (PStatementExpression (ex_call 0) (xs 5 8)).
Definition ex_b2 : past := ex_file (PStatementExpression (PParenthesis (ex_call 1) (xs 5 10)) (xs 5 10)).

Example columns_example :
  same_modulo_parens_and_columns ex_b1 ex_b2
  /\ use_names_separated (strip_parens ex_b1) /\ use_names_separated (strip_parens ex_b2)
  /\ (exists r1 r2, resolve (mkFlags true true true true false) ex_b1 = Resolver.Ok r1
                    /\ resolve (mkFlags true true true true false) ex_b2 = Resolver.Ok r2
                    /\ r1 <> r2 /\ same_modulo_spans r1 r2).
Proof.
  assert (H : same_modulo_parens_and_columns ex_b1 ex_b2) by (vm_compute; reflexivity).
  assert (S1 : use_names_separated (strip_parens ex_b1)) by (intros a b Ha; vm_compute in Ha; contradiction).
  assert (S2 : use_names_separated (strip_parens ex_b2)) by (intros a b Ha; vm_compute in Ha; contradiction).
  split; [exact H|]. split; [exact S1|]. split; [exact S2|].
  pose proof (columns_resolve (mkFlags true true true true false) ex_b1 ex_b2 H S1 S2) as P.
  destruct (resolve (mkFlags true true true true false) ex_b1) as [r1| | |] eqn:E1;
    try (exfalso; vm_compute in E1; discriminate E1).
  destruct (resolve (mkFlags true true true true false) ex_b2) as [r2| | |] eqn:E2;
    try (exfalso; vm_compute in E2; discriminate E2).
  exists r1, r2. split; [reflexivity|]. split; [reflexivity|]. split; [|exact P].
  vm_compute in E1, E2. inversion E1. inversion E2. subst. intros E. discriminate E.
Qed.
