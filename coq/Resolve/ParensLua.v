(* From the parser's AST to the emitted text: resolve, order the definitions, type-check, lower and emit.
   (1) parens_same_lua: removing every Parenthesis node from the AST changes nothing of this -- not the verdict
       of any phase and not a byte of the text (Resolve/ParensProofs.v: the resolver's result is the same).
   (2) spans_same_lua: everything AFTER name resolution is insensitive to spans, the line of an `<!>` excepted:
       two resolved programs that are equal modulo spans are ordered alike (Dep/SpanOrder.v) and, when the type
       checker accepts both, emit the same text (Back/SpanProofs.v).
   NOT covered here: the parser (text -> AST; Props/C14.v: parentheses only add Parenthesis nodes, but the columns
   of the later tokens shift -- which is why (2) quotients spans out); that the RESOLVER's result depends on line
   and column numbers only through the spans it copies (it does read the file id of a span, and compares the
   spans of two `use` statements of one name); and that the type checker's verdict does not depend on spans -- in
   (2) acceptance by the type checker is a hypothesis on both programs. *)
From Coq Require Import String List NArith ZArith Bool.
From Sylt Require Import Syntax.Resolved Resolve.PAst Resolve.Resolver Resolve.Parens Resolve.ParensProofs
     Dep.Deps Dep.Topo Dep.SpanOrder Back.IR Back.Emit Back.SpanProofs Types.TyGraph Types.Tc Types.Erasure.
Import ListNotations.

Inductive presult :=
| PResolve (r : res unit)                          (* name resolution did not accept: its error / panic / fuel *)
| PCycle (cycle : list stmt)                       (* dependency cycle *)
| POrderFuel
| PChecked (c : compiled (IR.outcome string)).     (* the type checker's verdict; COk (Ok text) = the emitted Lua *)

Definition after_resolve (tgt : bool) (fuel_tc fuel : nat) (req : option string) (r : resolved) : presult :=
  match init_order tgt (r_stmts r) with
  | OOk l => PChecked (compile_after_order (Emit.backend fuel req) fuel_tc (mkResolved (r_vars r) l))
  | OCycle c => PCycle c
  | OOutOfFuel => POrderFuel
  end.

Definition pipeline (fl : rflags) (tgt : bool) (fuel_tc fuel : nat) (req : option string) (ast : past) : presult :=
  match resolve fl ast with
  | Resolver.Ok r => after_resolve tgt fuel_tc fuel req r
  | Resolver.Err e => PResolve (Resolver.Err e)
  | Resolver.Panic s => PResolve (Resolver.Panic s)
  | Resolver.OutOfFuel => PResolve Resolver.OutOfFuel
  end.

Theorem parens_same_lua fl tgt fuel_tc fuel req ast :
  pipeline fl tgt fuel_tc fuel req (strip_parens ast) = pipeline fl tgt fuel_tc fuel req ast.
Proof. unfold pipeline. rewrite resolve_erases_parens. reflexivity. Qed.

Theorem spans_same_lua tgt fuel_tc fuel req r1 r2 l1 :
  same_modulo_spans r1 r2 ->
  init_order tgt (r_stmts r1) = OOk l1 ->
  exists l2, init_order tgt (r_stmts r2) = OOk l2
    /\ map er_s l1 = map er_s l2
    /\ forall out1 out2,
         compile_after_order (Emit.backend fuel req) fuel_tc (mkResolved (r_vars r1) l1) = COk out1 ->
         compile_after_order (Emit.backend fuel req) fuel_tc (mkResolved (r_vars r2) l2) = COk out2 ->
         out1 = out2.
Proof.
  intros H H1. pose proof (init_order_same_modulo_spans tgt r1 r2 H) as E. rewrite H1 in E. cbn [omap] in E.
  destruct (init_order tgt (r_stmts r2)) as [l2|c|]; cbn [omap] in E; try discriminate E.
  injection E as El. exists l2. split; [reflexivity|]. split; [exact El|].
  intros out1 out2 C1 C2. apply checker_does_not_rewrite in C1, C2. subst.
  apply backend_ignores_spans. unfold same_modulo_spans, er in *. cbn [r_vars r_stmts]. injection H as Hv _.
  rewrite Hv, El. reflexivity.
Qed.

(* (3) empties_same_lua: removing every EmptyStatement (blank lines, comment-only lines) from every statement list
   changes nothing of the pipeline either (Resolve/EmptiesProofs.v); and both normalisations together. *)
From Sylt Require Import Resolve.Empties Resolve.EmptiesProofs.

Theorem empties_same_lua fl tgt fuel_tc fuel req ast :
  pipeline fl tgt fuel_tc fuel req (drop_empties ast) = pipeline fl tgt fuel_tc fuel req ast.
Proof. unfold pipeline. rewrite resolve_drops_empties. reflexivity. Qed.

Theorem parens_and_empties_same_lua fl tgt fuel_tc fuel req a1 a2 :
  drop_empties (strip_parens a1) = drop_empties (strip_parens a2) ->
  pipeline fl tgt fuel_tc fuel req a1 = pipeline fl tgt fuel_tc fuel req a2.
Proof.
  intros H. rewrite <- (parens_same_lua fl tgt fuel_tc fuel req a1), <- (parens_same_lua fl tgt fuel_tc fuel req a2).
  rewrite <- (empties_same_lua fl tgt fuel_tc fuel req (strip_parens a1)),
          <- (empties_same_lua fl tgt fuel_tc fuel req (strip_parens a2)), H. reflexivity.
Qed.

(* (4) arrow_same_lua: an accepted program and the program with every arrow call `x -> f(args)` written as the call
   `f(x, args)` have the same pipeline result; a rejected one stays rejected (Resolve/ArrowProofs.v; hypotheses:
   the three restore flags, a well-formed AST, simple callees after `->`). *)
From Sylt Require Import Resolve.Wf Resolve.Arrow Resolve.ArrowProofs Resolve.RefineProofs.

Theorem arrow_same_lua fl tgt fuel_tc fuel req ast r :
  restores fl = true -> wf_ast ast = true -> arrows_simple ast = true ->
  resolve fl ast = Resolver.Ok r ->
  pipeline fl tgt fuel_tc fuel req (dearrow ast) = pipeline fl tgt fuel_tc fuel req ast.
Proof.
  intros Hr Hw Ha R. unfold pipeline. rewrite R, (proj1 (resolve_arrow fl ast r Hr Hw Ha) R). reflexivity.
Qed.

Theorem arrow_accept_iff fl ast :
  restores fl = true -> wf_ast ast = true -> arrows_simple ast = true ->
  forall r, resolve fl ast = Resolver.Ok r <-> resolve fl (dearrow ast) = Resolver.Ok r.
Proof. intros Hr Hw Ha r. apply resolve_arrow; assumption. Qed.
