"""Generators and helpers shared by the C09 / C11 / C12 checks: case construction for the harness,
the programs under /repo/tests as bases, generated well-typed base programs with an explicit binder
structure, consistent renamings (maximally distinct / maximal shadowing), planted scope violations,
top-level permutations, partitions into files with every import style."""
import os
import re
import sys

HERE = os.path.dirname(os.path.abspath(__file__))
sys.path.insert(0, HERE)
import vlib  # noqa: E402

TESTS = os.path.join(vlib.REPO, "tests")


# ------------------------------------------------------------------------------------------------
# cases

def case(files, main="/main.sy", std=False):
    """files: dict path -> source.  One line of a `compile`/`phases`/`tree`/`treef` case file."""
    parts = ["std" if std else "nostd", main]
    for p in sorted(files):
        parts.append("%s=%s" % (p, vlib.hexs(files[p])))
    return "\t".join(parts)


def single(src, std=False):
    return case({"/main.sy": src}, "/main.sy", std)


_repo_cache = {}


def repo_tests():
    """[(relative name, main path, file map, needs_std)] for every /repo/tests/**/*.sy; the whole
    test tree is served as the file map so that imports resolve as they do on disk."""
    if "t" in _repo_cache:
        return _repo_cache["t"]
    allfiles = {}
    for root, _, files in os.walk(TESTS):
        for f in files:
            if f.endswith(".sy"):
                p = os.path.join(root, f)
                try:
                    allfiles[p] = open(p, encoding="utf-8").read()
                except UnicodeDecodeError:
                    pass
    out = []
    for p in sorted(allfiles):
        rel = os.path.relpath(p, TESTS)
        out.append((rel, p, allfiles))
    _repo_cache["t"] = out
    return out


def repo_cases(std=True):
    """case lines for all repo tests.  The file map of each case is restricted to the directory of the
    main file and below plus what tree() can reach (everything under tests/ would be 340 files per case)."""
    cases = []
    for rel, p, allfiles in repo_tests():
        d = os.path.dirname(p)
        fm = {q: s for q, s in allfiles.items() if q.startswith(d + os.sep) or os.path.dirname(q) == d}
        cases.append((rel, case(fm, p, std)))
    return cases


MSG_CLASS = [
    (re.compile(r"^When resolving the name .* - a namespace was found"), "NamespaceFound"),
    (re.compile(r"^Failed to resolve .* - nothing matched"), "NothingMatched"),
    (re.compile(r"^This is not a reference to a user defined type"), "NotUserType"),
    (re.compile(r"^.* is a variable, not a type"), "VariableNotType"),
    (re.compile(r"^No type named"), "NoType"),
    (re.compile(r"^.* is a namespace, not a type"), "NamespaceNotType"),
    (re.compile(r"^This is not ok TODO"), "VariantNotRead"),
    (re.compile(r"^Name collision - duplicate definitions of the namespace"), "CollisionDef"),
    (re.compile(r"^Name collision - duplicate definitions of"), "CollisionUse"),
    (re.compile(r"^A Name collision - duplicate definitions of"), "CollisionFrom"),
    (re.compile(r"^No namespace named"), "NoNamespace"),
    (re.compile(r"^Cannot find .* in namespace"), "CannotFind"),
    (re.compile(r"^Expected a start function in the main module"), "NoStart"),
]


def msg_class(msg):
    for rx, k in MSG_CLASS:
        if rx.match(msg):
            return k
    return "?"


def first_error(tail):
    """`ERR kind|file|line|cs|ce|hexmsg ...` -> (kind, file, line, cs, ce, message) of the first error"""
    parts = tail.split(" ")
    if len(parts) < 2 or parts[0] != "ERR":
        return None
    f = parts[1].split("|")
    if len(f) < 6:
        return (f[0], "", 0, 0, 0, "")
    try:
        msg = vlib.unhex(f[5]).decode("utf-8", "replace")
    except ValueError:
        msg = ""
    return (f[0], f[1], int(f[2]), int(f[3]), int(f[4]), msg)


# ------------------------------------------------------------------------------------------------
# abstract programs with explicit binders (well-typed by construction)
#
# A binder is an object; every use refers to the binder object, so the *intended* binding structure
# is known independently of any names.  A naming maps binders to names; `lexical_check` decides with
# an independent implementation of the documented scoping rules whether every use resolves to the
# intended binder under that naming.

class B:
    """a binder: global / function / parameter / local / case variable / loop counter"""
    _n = 0

    def __init__(self, kind, ty, mut=False, hint="v"):
        B._n += 1
        self.uid = B._n
        self.kind = kind        # 'global' | 'param' | 'local' | 'casevar'
        self.ty = ty
        self.mut = mut
        self.hint = hint
        self.home = None        # module index (partitioning)

    def __repr__(self):
        return "<%s%d:%s>" % (self.hint, self.uid, self.kind)


INT, STR, BOOL = "int", "str", "bool"


def fn_ty(params, ret):
    return ("fn", tuple(params), ret)


def ty_text(t):
    if isinstance(t, str):
        return t
    if t[0] == "fn":
        return "fn %s-> %s" % ("".join(ty_text(p) + ", " for p in t[1])[:-2] + " " if t[1] else "", ty_text(t[2]))
    if t[0] == "list":
        return "[%s]" % ty_text(t[1])
    if t[0] == "blob" or t[0] == "enum":
        return t[1]
    raise ValueError(t)


BLOB_P = ("blob", "Pt")       # Pt :: blob { a: int, s: str }
ENUM_E = ("enum", "Ev")       # Ev :: enum  A int, B str, C  end
LIST_I = ("list", INT)


class Prog:
    def __init__(self):
        self.items = []       # ('gdef', B, expr) | ('blob',) | ('enum',) | ('ext',)
        self.binders = []     # all binders in creation order


class Gen:
    """random well-typed programs"""

    def __init__(self, r, size=3, init_calls="none", use_types=True, global_assign=True, block_exprs=True):
        """init_calls: may global initialisers call functions?  'none' | 'pure' (only functions without
        print / assignment to globals, transitively) | 'any'.  global_assign: may function bodies assign
        globals (or their fields)?"""
        self.r = r
        self.size = size
        self.init_calls = init_calls
        self.global_assign = global_assign
        self.pure_ctx = False  # generating the body of a pure function
        self.use_types = use_types
        self.block_exprs = block_exprs   # if / case expressions with statement branches (also as global initialisers)
        self.bx_depth = 0                # nesting of block expressions being generated
        self.bx_budget = 2 + size // 2   # block expressions left for this program
        self.p = Prog()
        self.level = 10 ** 9  # level of the global function being generated

    def nb(self, kind, ty, mut=False, hint="v"):
        b = B(kind, ty, mut, hint)
        self.p.binders.append(b)
        return b

    # ---- expressions -----------------------------------------------------------------------
    def vars_of(self, env, ty, mut=None):
        out = []
        seen = set()
        for sc in reversed(env):
            for b in reversed(sc):
                if b.uid not in seen and b.ty == ty and (mut is None or b.mut == mut):
                    out.append(b)
                    seen.add(b.uid)
        return out

    def callees(self, env, ret="any"):
        """functions that may be called here without creating unbounded recursion: globals of a
        lower level than the function being generated, local functions whose body is complete"""
        fs = []
        seen = set()
        for sc in reversed(env):
            for b in reversed(sc):
                if b.uid in seen or not (isinstance(b.ty, tuple) and b.ty[0] == "fn"):
                    continue
                seen.add(b.uid)
                if getattr(b, "open", False) or getattr(b, "rec", False):
                    continue
                if b.kind == "global" and getattr(b, "level", 0) >= self.level:
                    continue
                if self.pure_ctx and not getattr(b, "pure", False):
                    continue
                if ret == "any" or b.ty[2] == ret:
                    fs.append(b)
        return fs

    def expr(self, env, ty, d=2, pure=False):
        r = self.r
        cands = [b for b in self.vars_of(env, ty)]
        if cands and (d <= 0 or r.random() < 0.45):
            return ("var", r.choice(cands))
        if (d > 0 and self.block_exprs and self.bx_depth < 2 and self.bx_budget > 0 and ty in (INT, STR, BOOL)
                and r.random() < 0.06):
            return self.blockx(env, ty, d, pure)
        if d > 0 and not pure:
            fs = self.callees(env, ty)
            if fs and r.random() < 0.35:
                f = r.choice(fs)
                return ("call", ("var", f), [self.expr(env, t, d - 1, pure) for t in f.ty[1]])
        if ty == INT:
            if d > 0 and r.random() < 0.6:
                k = r.random()
                if k < 0.7:
                    return ("bin", r.choice(["+", "-", "*"]), self.expr(env, INT, d - 1, pure), self.expr(env, INT, d - 1, pure))
                if k < 0.8 and self.use_types:
                    pts = self.vars_of(env, BLOB_P)
                    if pts:
                        return ("field", ("var", r.choice(pts)), "a")
                return ("ifx", self.expr(env, BOOL, d - 1, pure), self.expr(env, INT, d - 1, pure), self.expr(env, INT, d - 1, pure))
            return ("int", r.randint(0, 9))
        if ty == STR:
            if d > 0 and r.random() < 0.4:
                return ("bin", "+", self.expr(env, STR, d - 1, pure), self.expr(env, STR, d - 1, pure))
            return ("str", r.choice(["a", "b", "xy", "", "q"]))
        if ty == BOOL:
            if d > 0 and r.random() < 0.7:
                k = r.random()
                if k < 0.5:
                    return ("bin", r.choice(["<", ">", "==", "!=", "<=", ">="]), self.expr(env, INT, d - 1, pure), self.expr(env, INT, d - 1, pure))
                if k < 0.7:
                    return ("bin", r.choice(["and", "or"]), self.expr(env, BOOL, d - 1, pure), self.expr(env, BOOL, d - 1, pure))
                if k < 0.85:
                    return ("not", self.expr(env, BOOL, d - 1, pure))
                return ("bin", "==", self.expr(env, STR, d - 1, pure), self.expr(env, STR, d - 1, pure))
            return ("bool", r.random() < 0.5)
        if ty == LIST_I:
            return ("list", [self.expr(env, INT, d - 1, pure) for _ in range(r.randint(1, 3))])
        if ty == BLOB_P:
            return ("blobnew", [("a", self.expr(env, INT, d - 1, pure)), ("s", self.expr(env, STR, d - 1, pure))])
        if ty == ENUM_E:
            k = r.randint(0, 2)
            if k == 0:
                return ("variant", "A", self.expr(env, INT, d - 1, pure))
            if k == 1:
                return ("variant", "B", self.expr(env, STR, d - 1, pure))
            return ("variant", "C", None)
        if isinstance(ty, tuple) and ty[0] == "fn":
            return self.lam(env, ty, d)
        raise ValueError(ty)

    def blockx(self, env, ty, d, pure=False):
        """an if / case used as an EXPRESSION whose branches are statement lists that end with the value:
        ("stx", ("if", arms, else)) / ("stx", ("case", scrut, arms, else)).  The branches declare locals
        (values and closures), shadow, nest further block expressions; the value usually mentions them."""
        r = self.r
        saved = self.pure_ctx
        if pure:
            self.pure_ctx = True        # no print, no assignment to globals, only pure callees
        self.bx_depth += 1
        self.bx_budget -= 1
        d = min(d, 2)
        try:
            def branch(scope):
                e2 = env + [scope]
                ss = self.stmts(e2, 2, 2 - self.bx_depth, False, None) if r.random() < 0.85 else []
                if ss and ss[0][0] == "block":
                    # `(if c do <newline> do .. end <more statements>` inside parentheses does not parse
                    # (observation for the parser properties): never start a branch with a block statement
                    fb = self.nb("local", INT, False, "l")
                    ss.insert(0, ("def", fb, ("int", r.randint(0, 9))))
                    e2[-1].append(fb)
                mine = [b for b in self.vars_of([e2[-1]], ty) if b.kind == "local"]
                if mine and r.random() < 0.7:
                    v = ("var", r.choice(mine))
                    if ty == INT and r.random() < 0.6:
                        v = ("bin", "+", v, self.expr(e2, INT, 1, pure))
                else:
                    v = self.expr(e2, ty, 1, pure)
                if v[0] not in ("var", "int", "str", "bool"):
                    # the value on a line of its own must not read as a continuation of the previous line
                    vb = self.nb("local", ty, False, "bv")
                    e2[-1].append(vb)
                    ss.append(("def", vb, v))
                    v = ("var", vb)
                ss.append(("expr", v))
                return ss
            if self.use_types and r.random() < 0.3:
                scrut = self.expr(env, ENUM_E, 1, pure)
                arms = []
                for v, t in r.sample([("A", INT), ("B", STR), ("C", None)], r.randint(1, 3)):
                    sc = []
                    vb = None
                    if t is not None and r.random() < 0.8:
                        vb = self.nb("casevar", t, False, "cv")
                        sc.append(vb)
                    arms.append((v, vb, branch(sc)))
                return ("stx", ("case", scrut, arms, branch([])))
            arms = [(self.expr(env, BOOL, 1, pure), branch([]))]
            if r.random() < 0.3:
                arms.append((self.expr(env, BOOL, 1, pure), branch([])))
            return ("stx", ("if", arms, branch([])))
        finally:
            self.pure_ctx = saved
            self.bx_depth -= 1

    def rec_lam(self, b):
        """b :: fn n: int -> int do if n <= 0 or n > 5 do ret 0 end  ret b(n - 1) + 1 end"""
        n = self.nb("param", INT, False, "n")
        guard = ("bin", "or", ("bin", "<=", ("var", n), ("int", 0)), ("bin", ">", ("var", n), ("int", 5)))
        return ("lambda", [n], [("if", [(guard, [("ret", ("int", 0))])], None),
                                ("ret", ("bin", "+", ("call", ("var", b), [("bin", "-", ("var", n), ("int", 1))]),
                                         ("int", 1)))], INT)

    def lam(self, env, ty, d):
        params = [self.nb("param", t, False, "p") for t in ty[1]]
        body = self.body(env + [list(params)], ty[2], max(1, self.size - 2), d, in_loop=False)
        return ("lambda", params, body, ty[2])

    # ---- statements ------------------------------------------------------------------------
    def body(self, env, ret, n, d, in_loop):
        """statements of a function body: env's last scope is the function's scope"""
        out = self.stmts(env, n, d, in_loop, ret)
        out.append(("ret", self.expr(env, ret, 1) if ret is not None else None))
        return out

    def stmts(self, env, n, d, in_loop, ret):
        out = []
        for _ in range(self.r.randint(1, n)):
            out.append(self.stmt(env, d, in_loop, ret))
        # the value of a branch is the value of its last statement and the branches of an if/case
        # with an else must agree: end every statement list with a void statement
        if out[-1][0] in ("expr", "if", "case", "block", "loop"):
            if self.r.random() < 0.7:
                e = self.expr(env, INT, 1)
                b = self.nb("local", INT, True, "l")
                env[-1].append(b)
                out.append(("def", b, e))
            elif self.pure_ctx:
                b = self.nb("local", INT, True, "l")
                e = self.expr(env, INT, 1)
                env[-1].append(b)
                out.append(("def", b, e))
            else:
                out.append(("print", self.expr(env, INT, 1)))
        return out

    def value_ty(self):
        pool = [INT, INT, INT, STR, BOOL, LIST_I]
        if self.use_types:
            pool += [BLOB_P, ENUM_E]
        return self.r.choice(pool)

    def stmt(self, env, d, in_loop, ret):
        r = self.r
        k = r.random()
        cur = env[-1]
        if k < 0.28 or d <= 0:
            if r.random() < 0.25:
                t = fn_ty([INT] * r.randint(0, 2), r.choice([INT, STR, None]))
                b = self.nb("local", t, False, "lf")
                b.pure = self.pure_ctx
                cur.append(b)     # function: visible in its own body
                if t == fn_ty([INT], INT) and r.random() < 0.5:
                    return ("def", b, self.rec_lam(b))
                b.open = True
                e = self.lam(env, t, d - 1)
                b.open = False
                return ("def", b, e)
            t = self.value_ty()
            e = self.expr(env, t, 2)
            b = self.nb("local", t, r.random() < 0.6, "l")
            cur.append(b)         # value: visible after
            return ("def", b, e)
        if k < 0.40:
            t = r.choice([INT, STR])
            tgt = [b for b in self.vars_of(env, t, mut=True) if not getattr(b, "ctr", False)
                   and (b.kind != "global" or (self.global_assign and not self.pure_ctx))]
            if tgt:
                op = r.choice(["=", "+="]) if t == INT else "="
                return ("assign", r.choice(tgt), op, self.expr(env, t, 2))
        if k < 0.52 and not self.pure_ctx:
            return ("print", self.expr(env, r.choice([INT, STR, BOOL]), 2))
        if k < 0.66:
            arms = [(self.expr(env, BOOL, 2), self.stmts(env + [[]], 2, d - 1, in_loop, ret))]
            while r.random() < 0.3 and len(arms) < 3:
                arms.append((self.expr(env, BOOL, 2), self.stmts(env + [[]], 2, d - 1, in_loop, ret)))
            els = self.stmts(env + [[]], 2, d - 1, in_loop, ret) if r.random() < 0.5 else None
            return ("if", arms, els)
        if k < 0.74:
            c = self.nb("local", INT, True, "i")
            c.ctr = True
            cur.append(c)
            inner = env + [[]]
            body = self.stmts(inner, 2, d - 1, True, ret)
            if r.random() < 0.3:
                body.append(("if", [(self.expr(inner, BOOL, 1), [(r.choice([("break",), ("continue",)]))])], None))
            return ("loop", c, r.randint(1, 3), body)
        if k < 0.82 and self.use_types:
            scrut = self.expr(env, ENUM_E, 1)
            arms = []
            for v, t in r.sample([("A", INT), ("B", STR), ("C", None)], r.randint(1, 3)):
                sc = []
                vb = None
                if t is not None and r.random() < 0.8:
                    vb = self.nb("casevar", t, False, "cv")
                    sc.append(vb)
                arms.append((v, vb, self.stmts(env + [sc], 2, d - 1, in_loop, ret)))
            els = self.stmts(env + [[]], 1, d - 1, in_loop, ret)
            return ("case", scrut, arms, els)
        if k < 0.88:
            return ("block", self.stmts(env + [[]], 3, d - 1, in_loop, ret))
        if k < 0.94:
            fs = self.callees(env)
            if fs:
                f = r.choice(fs)
                return ("expr", ("call", ("var", f), [self.expr(env, t, 1) for t in f.ty[1]]))
        if k < 0.97 and self.use_types:
            pts = [b for b in self.vars_of(env, BLOB_P)
                   if b.kind != "global" or (self.global_assign and not self.pure_ctx)]
            if pts:
                return ("setfield", ("var", r.choice(pts)), "a", self.expr(env, INT, 1))
        if self.pure_ctx:
            b = self.nb("local", INT, True, "l")
            e = self.expr(env, INT, 1)
            cur.append(b)
            return ("def", b, e)
        return ("print", self.expr(env, INT, 1))

    # ---- whole program ---------------------------------------------------------------------
    def program(self):
        r = self.r
        p = self.p
        genv = []
        if self.use_types:
            p.items.append(("blob",))
            p.items.append(("enum",))
        nfun = r.randint(1, 2 + self.size)
        nglob = r.randint(1, 2 + self.size)
        # declare all globals first (they are visible everywhere), then build the bodies
        funcs = []
        for i in range(nfun):
            t = fn_ty([r.choice([INT, STR, BOOL]) for _ in range(r.randint(0, 2))], r.choice([INT, STR, BOOL, None]))
            b = self.nb("global", t, False, "f")
            b.level = i + 1
            b.pure = self.init_calls == "pure" and r.random() < 0.6
            funcs.append(b)
        globs = []
        for _ in range(nglob):
            t = self.value_ty()
            globs.append(self.nb("global", t, r.random() < 0.5, "g"))
        # function bodies may use every global and every function
        genv = funcs + globs
        items = []
        for b in funcs:
            self.level = b.level
            self.pure_ctx = b.pure
            if b.ty == fn_ty([INT], INT) and r.random() < 0.4:
                items.append(("gdef", b, self.rec_lam(b)))
                b.pure = True
            else:
                items.append(("gdef", b, self.lam([list(genv)], b.ty, 2)))
        self.pure_ctx = False
        self.level = 10 ** 9
        # global initialisers: acyclic by construction -- global i may read globals < i and call
        # functions only when effects_in_init (a function can read any global: possible cycle), so
        # calls are restricted to functions whose bodies were generated with no global reads
        for i, b in enumerate(globs):
            visible = globs[:i]
            # a module global initialised by a block expression: its branches are scopes of their own although no
            # function is around them
            blk = self.block_exprs and b.ty in (INT, STR, BOOL) and r.random() < 0.45
            if self.init_calls == "none":
                ienv, pure = [list(visible)], True
            else:
                self.pure_ctx = self.init_calls == "pure"
                ienv, pure = [list(funcs) + list(visible)], False
            if blk:
                e = self.blockx(ienv, b.ty, 2, pure)
                k = r.random()
                if k < 0.15 and b.ty == INT:
                    e = ("bin", "+", ("int", r.randint(0, 3)), e)       # not at the root of the initialiser
                elif k < 0.3:
                    # nested in another block expression
                    e = ("stx", ("if", [(self.expr(ienv, BOOL, 1, pure), [("expr", e)])],
                                 [("expr", self.expr(ienv, b.ty, 0, pure))]))
            else:
                e = self.expr(ienv, b.ty, 2, pure)
            items.append(("gdef", b, e))
            self.pure_ctx = False
        start = self.nb("global", fn_ty([], None), False, "start")
        start.fixed = "start"
        sbody = self.body([list(genv), []], None, 3 + self.size, 2, False)
        fin = sbody.pop()
        for g in globs:
            if g.ty in (INT, STR, BOOL):
                sbody.append(("print", ("var", g)))
        sbody.append(fin)
        items.append(("gdef", start, ("lambda", [], sbody, None)))
        r.shuffle(items)
        p.items.extend(items)
        return p


# ------------------------------------------------------------------------------------------------
# rendering

BLOB_SRC = "Pt :: blob {\n    a: int,\n    s: str,\n}\n"
ENUM_SRC = "Ev :: enum\n    A int,\n    B str,\n    C,\nend\n"


class Render:
    def __init__(self, naming, qual=None, fn_parens=0):
        self.n = naming
        self.qual = qual or (lambda b: None)    # binder -> namespace prefix ("m." / "a.b.") or None
        self.fn_parens = fn_parens              # every function literal inside that many redundant parentheses
        self.sugar = False                      # calls with arguments as arrow calls `a -> f(b)`, call statements as `f' a, b`

    def name(self, b):
        q = self.qual(b)
        return (q or "") + self.n[b]

    def e(self, x):
        k = x[0]
        if k == "int":
            return str(x[1])
        if k == "str":
            return '"%s"' % x[1]
        if k == "bool":
            return "true" if x[1] else "false"
        if k == "var":
            return self.name(x[1])
        if k == "raw":
            return x[1]
        if k == "bin":
            return "(%s %s %s)" % (self.e(x[2]), x[1], self.e(x[3]))
        if k == "not":
            return "(not %s)" % self.e(x[1])
        if k == "call":
            if self.sugar and x[2] and x[1][0] == "var":
                return "(%s -> %s(%s))" % (self.e(x[2][0]), self.e(x[1]), ", ".join(self.e(a) for a in x[2][1:]))
            return "%s(%s)" % (self.e(x[1]), ", ".join(self.e(a) for a in x[2]))
        if k == "field":
            return "%s.%s" % (self.e(x[1]), x[2])
        if k == "index":
            return "%s[%s]" % (self.e(x[1]), self.e(x[2]))
        if k == "list":
            return "[%s]" % ", ".join(self.e(a) for a in x[1])
        if k == "blobnew":
            return "%s { %s }" % (self.tyname("Pt"), ", ".join("%s: %s" % (f, self.e(v)) for f, v in x[1]))
        if k == "variant":
            return "(%s.%s%s)" % (self.tyname("Ev"), x[1], "" if x[2] is None else " (%s)" % self.e(x[2]))
        if k == "ifx":
            return "(if %s do %s else do %s end)" % (self.e(x[1]), self.e(x[2]), self.e(x[3]))
        if k == "lambda":
            return "(" * self.fn_parens + self.lam(x, getattr(self, "cur", 0)) + ")" * self.fn_parens
        if k == "stx":
            ind = getattr(self, "cur", 0)
            try:
                return "(" + self.s(x[1], ind + 1).strip() + ")"
            finally:
                self.cur = ind
        raise ValueError(k)

    def tyname(self, nm):
        """text of the type name Pt / Ev (multi-file layouts qualify it)"""
        return nm

    def ty(self, t):
        if isinstance(t, tuple) and t[0] in ("blob", "enum"):
            return self.tyname(t[1])
        if isinstance(t, tuple) and t[0] == "list":
            return "[%s]" % self.ty(t[1])
        return ty_text(t)

    def lam(self, x, ind):
        _, params, body, ret = x
        head = "fn"
        if params:
            head += " " + ", ".join("%s: %s" % (self.n[p], self.ty(p.ty)) for p in params)
        if ret is not None:
            head += " -> " + self.ty(ret)
        head += " do\n"
        return head + self.block(body, ind + 1) + "    " * ind + "end"

    def block(self, ss, ind):
        return "".join(self.s(x, ind) for x in ss)

    def s(self, x, ind):
        p = "    " * ind
        k = x[0]
        self.cur = ind
        if k == "def":
            b, e = x[1], x[2]
            if e[0] == "lambda":
                k = self.fn_parens
                return "%s%s :: %s%s%s\n" % (p, self.n[b], "(" * k, self.lam(e, ind), ")" * k)
            return "%s%s %s %s\n" % (p, self.n[b], ":=" if b.mut else "::", self.e(e))
        if k == "assign":
            return "%s%s %s %s\n" % (p, self.name(x[1]), x[2], self.e(x[3]))
        if k == "setfield":
            return "%s%s.%s = %s\n" % (p, self.e(x[1]), x[2], self.e(x[3]))
        if k == "print":
            return "%sprint(%s)\n" % (p, self.e(x[1]))
        if k == "expr":
            if self.sugar and x[1][0] == "call" and x[1][1][0] == "var" and x[1][2]:
                # prime call: `f' a, b`
                return "%s%s' %s\n" % (p, self.e(x[1][1]), ", ".join(self.e(a) for a in x[1][2]))
            return "%s%s\n" % (p, self.e(x[1]))
        if k == "raw":
            return "%s%s\n" % (p, x[1])
        if k == "ret":
            return "%sret%s\n" % (p, "" if x[1] is None else " " + self.e(x[1]))
        if k == "break":
            return p + "break\n"
        if k == "continue":
            return p + "continue\n"
        if k == "block":
            return "%sdo\n%s%send\n" % (p, self.block(x[1], ind + 1), p)
        if k == "if":
            out = ""
            for i, (c, body) in enumerate(x[1]):
                out += "%s%s %s do\n%s" % (p, "if" if i == 0 else "elif", self.e(c), self.block(body, ind + 1))
            if x[2] is not None:
                out += "%selse do\n%s" % (p, self.block(x[2], ind + 1))
            return out + p + "end\n"
        if k == "loop":
            c, lim, body = x[1], x[2], x[3]
            return ("%s%s := 0\n%sloop %s < %d do\n%s    %s += 1\n%s%send\n"
                    % (p, self.n[c], p, self.n[c], lim, p, self.n[c], self.block(body, ind + 1), p))
        if k == "case":
            out = "%scase %s do\n" % (p, self.e(x[1]))
            for v, vb, body in x[2]:
                out += "%s    %s%s -> do\n%s%s    end\n" % (p, v, " " + self.n[vb] if vb is not None else "",
                                                       self.block(body, ind + 2), p)
            out += "%s    else do\n%s%s    end\n" % (p, self.block(x[3], ind + 2), p)
            return out + p + "end\n"
        raise ValueError(k)

    def item(self, it):
        if it[0] == "blob":
            return BLOB_SRC
        if it[0] == "enum":
            return ENUM_SRC
        if it[0] == "gdef":
            return self.s(("def", it[1], it[2]), 0)
        if it[0] == "raw":
            return it[1] + "\n"
        raise ValueError(it[0])

    def program(self, p):
        return "\n".join(self.item(it) for it in p.items)


# ------------------------------------------------------------------------------------------------
# namings and the independent lexical-scope checker

def naming_distinct(p):
    """maximally distinct: every binder its own fresh name"""
    n = {}
    for b in p.binders:
        n[b] = getattr(b, "fixed", None) or "%s_%d" % (b.hint, b.uid)
    return n


def naming_caps(p, r):
    """the distinct naming with capitalised spellings: locals, parameters and value globals may be written with a
    capital first letter like types; and legal shadowing of a capitalised global by a capitalised local"""
    n = naming_distinct(p)
    caps = {}
    for b in p.binders:
        if getattr(b, "fixed", None) or b.kind == "casevar":    # case bindings must be lower case (parser)
            continue
        if r.random() < (0.35 if b.kind == "global" else 0.6):
            caps[b] = n[b][0].upper() + n[b][1:]
    n.update(caps)
    gnames = [n[b] for b in p.binders if b.kind == "global" and b in caps]
    for b in p.binders:
        if b.kind == "global" or b.kind == "casevar" or not gnames or r.random() < 0.6:
            continue
        old = n[b]
        n[b] = r.choice(gnames)
        if not lexical_check(p, n):
            n[b] = old
    return n


class Scope:
    """documented scoping: one scope per function / block / branch / loop body / case arm; a use
    refers to the innermost enclosing declaration of that name visible at that point (a value is
    visible after its definition, a function also inside its own body), then the module's globals"""

    def __init__(self, naming, globals_):
        self.n = naming
        self.g = {}
        self.dup = False
        for b in globals_:
            if naming[b] in self.g:
                self.dup = True
            self.g[naming[b]] = b
        self.bad = []

    def look(self, env, nm):
        for sc in reversed(env):
            for b in reversed(sc):
                if self.n[b] == nm:
                    return b
        return self.g.get(nm)

    def e(self, env, x):
        k = x[0]
        if k == "var":
            got = self.look(env, self.n[x[1]])
            if got is not x[1]:
                self.bad.append((x[1], got))
        elif k in ("int", "str", "bool", "raw"):
            pass
        elif k == "bin":
            self.e(env, x[2]); self.e(env, x[3])
        elif k == "not":
            self.e(env, x[1])
        elif k == "call":
            self.e(env, x[1])
            for a in x[2]:
                self.e(env, a)
        elif k == "field":
            self.e(env, x[1])
        elif k == "index":
            self.e(env, x[1]); self.e(env, x[2])
        elif k == "list":
            for a in x[1]:
                self.e(env, a)
        elif k == "blobnew":
            for _, v in x[1]:
                self.e(env, v)
        elif k == "variant":
            if x[2] is not None:
                self.e(env, x[2])
        elif k == "ifx":
            self.e(env, x[1]); self.e(env, x[2]); self.e(env, x[3])
        elif k == "lambda":
            self.block(env + [list(x[1])], x[2], new_scope=False)
        elif k == "stx":
            # in the initialiser of a module global there is no scope yet: the branches open the first ones
            self.s(env if env else [[]], x[1])
        else:
            raise ValueError(k)

    def block(self, env, ss, new_scope=True):
        env = env + [[]] if new_scope else env
        for s in ss:
            self.s(env, s)

    def s(self, env, x):
        k = x[0]
        if k == "def":
            b, e = x[1], x[2]
            if e[0] == "lambda":
                env[-1].append(b)
                self.e(env, e)
            else:
                self.e(env, e)
                env[-1].append(b)
        elif k == "assign":
            got = self.look(env, self.n[x[1]])
            if got is not x[1]:
                self.bad.append((x[1], got))
            self.e(env, x[3])
        elif k == "setfield":
            self.e(env, x[1]); self.e(env, x[3])
        elif k in ("print", "expr"):
            self.e(env, x[1])
        elif k == "ret":
            if x[1] is not None:
                self.e(env, x[1])
        elif k in ("break", "continue", "raw"):
            pass
        elif k == "block":
            self.block(env, x[1])
        elif k == "if":
            for c, body in x[1]:
                self.e(env, c)
                self.block(env, body)
            if x[2] is not None:
                self.block(env, x[2])
        elif k == "loop":
            env[-1].append(x[1])
            self.block(env, x[3])
        elif k == "case":
            self.e(env, x[1])
            for v, vb, body in x[2]:
                self.block(env + [[vb] if vb is not None else []], body, new_scope=False)
            self.block(env, x[3])
        else:
            raise ValueError(k)


def lexical_check(p, naming):
    """True iff under `naming` every use refers, by the documented scoping rules, to its intended binder
    and no two globals collide"""
    globs = [it[1] for it in p.items if it[0] == "gdef"]
    sc = Scope(naming, globs)
    if sc.dup:
        return False
    for it in p.items:
        if it[0] == "gdef":
            if it[2][0] == "lambda":
                sc.e([], it[2])
            else:
                sc.e([], it[2])
    return not sc.bad


def naming_shadow(p, r, pool=("a", "b", "c")):
    """maximal legal shadowing: every non-global binder tries the names of a tiny pool and the names of
    the globals (shadowing them), keeping the first choice under which the program is still
    lexically consistent (checked by `lexical_check`, which knows nothing about the compiler)"""
    n = naming_distinct(p)
    gnames = [n[b] for b in p.binders if b.kind == "global" and not getattr(b, "fixed", None)]
    for b in p.binders:
        if b.kind == "global":
            continue
        cands = list(pool) + gnames
        r.shuffle(cands)
        old = n[b]
        for c in cands[:6]:
            n[b] = c
            if lexical_check(p, n):
                break
            n[b] = old
    return n


# ------------------------------------------------------------------------------------------------
# shrinking of abstract programs: delete statements / items while `failing(prog)` stays true

def _stmt_lists(x, acc):
    """collect every mutable statement list reachable from expression/statement node x"""
    if isinstance(x, list):
        if x and all(isinstance(y, tuple) and y and isinstance(y[0], str) and y[0] in
                     ("def", "assign", "setfield", "print", "expr", "raw", "ret", "break", "continue", "block", "if",
                      "loop", "case") for y in x):
            acc.append(x)
        for y in x:
            _stmt_lists(y, acc)
    elif isinstance(x, tuple):
        for y in x:
            _stmt_lists(y, acc)


def shrink_prog(p, failing, max_tests=400, keep=()):
    """greedy: p is modified in place; failing(p) -> bool"""
    tests = 0
    changed = True
    while changed and tests < max_tests:
        changed = False
        lists = [p.items]
        for it in p.items:
            _stmt_lists(it, lists)
        for lst in lists:
            i = len(lst) - 1
            while i >= 0 and tests < max_tests:
                if lst is p.items and lst[i][0] == "gdef" and getattr(lst[i][1], "fixed", None):
                    i -= 1
                    continue
                if lst[i][0] in keep:
                    i -= 1
                    continue
                x = lst.pop(i)
                tests += 1
                if failing(p):
                    changed = True
                else:
                    lst.insert(i, x)
                i -= 1
    return p


# ------------------------------------------------------------------------------------------------
# the known defect class "branch scope leak": the same checker with branches / case arms that do not
# close their scope (what name_resolution.rs does on the pinned tree).  Used only to *classify* an
# oracle failure as an instance of that recorded finding, never to excuse anything else.

class LeakyScope(Scope):
    def s(self, env, x):
        k = x[0]
        if k == "if":
            for c, body in x[1]:
                self.e(env, c)
                self.block(env, body, new_scope=False)
            if x[2] is not None:
                self.block(env, x[2], new_scope=False)
        elif k == "case":
            self.e(env, x[1])
            for v, vb, body in x[2]:
                if vb is not None:
                    env[-1].append(vb)
                self.block(env, body, new_scope=False)
            self.block(env, x[3], new_scope=False)
        else:
            Scope.s(self, env, x)


def leaky_check(p, naming):
    """True iff the naming is also consistent when if-branches and case arms leak their variables"""
    globs = [it[1] for it in p.items if it[0] == "gdef"]
    sc = LeakyScope(naming, globs)
    if sc.dup:
        return False
    for it in p.items:
        if it[0] == "gdef":
            sc.e([], it[2])
    return not sc.bad


def naming_shadow_safe(p, r, pool=("a", "b", "c")):
    """maximal shadowing that is consistent under the documented scoping AND under the leaky one: the
    recorded scope-leak finding cannot explain a difference between this naming and the distinct one"""
    n = naming_distinct(p)
    gnames = [n[b] for b in p.binders if b.kind == "global" and not getattr(b, "fixed", None)]
    for b in p.binders:
        if b.kind == "global":
            continue
        cands = list(pool) + gnames
        r.shuffle(cands)
        old = n[b]
        for c in cands[:6]:
            n[b] = c
            if lexical_check(p, n) and leaky_check(p, n):
                break
            n[b] = old
    return n


# ------------------------------------------------------------------------------------------------
# planted scope violations: a use of a local outside its scope / before its declaration

def _positions(p, leaky=False):
    """every (statement list, index, visible binders) where a statement can be inserted, together with
    the binders lexically visible there (documented scoping; leaky=True: if-branches and case arms do
    not close their scope, the recorded defect class)"""
    out = []

    def lam(env, x):
        block(env + [list(x[1])], x[2], False)

    def ex(env, x):
        k = x[0]
        if k == "lambda":
            lam(env, x)
        elif k in ("bin",):
            ex(env, x[2]); ex(env, x[3])
        elif k in ("not", "field"):
            ex(env, x[1])
        elif k == "call":
            ex(env, x[1])
            for a in x[2]:
                ex(env, a)
        elif k == "list":
            for a in x[1]:
                ex(env, a)
        elif k == "blobnew":
            for _, v in x[1]:
                ex(env, v)
        elif k == "variant" and x[2] is not None:
            ex(env, x[2])
        elif k == "ifx":
            ex(env, x[1]); ex(env, x[2]); ex(env, x[3])
        elif k == "index":
            ex(env, x[1]); ex(env, x[2])
        elif k == "stx":
            st(env if env else [[]], x[1], True)

    def block(env, ss, new_scope=True, value=False):
        env = env + [[]] if new_scope else env
        for i, s in enumerate(ss):
            if s[0] != "ret" or True:
                out.append((ss, i, [b for sc in env for b in sc]))
            st(env, s)
        # (not after the value of a block expression: the branch would lose its value)
        if not value and (not ss or ss[-1][0] not in ("ret", "break", "continue")):
            out.append((ss, len(ss), [b for sc in env for b in sc]))

    def st(env, x, value=False):
        k = x[0]
        if k == "def":
            if x[2][0] == "lambda":
                env[-1].append(x[1]); ex(env, x[2])
            else:
                ex(env, x[2]); env[-1].append(x[1])
        elif k == "assign":
            ex(env, x[3])
        elif k == "setfield":
            ex(env, x[1]); ex(env, x[3])
        elif k in ("print", "expr"):
            ex(env, x[1])
        elif k == "ret" and x[1] is not None:
            ex(env, x[1])
        elif k == "block":
            block(env, x[1])
        elif k == "if":
            for c, body in x[1]:
                ex(env, c); block(env, body, not leaky, value)
            if x[2] is not None:
                block(env, x[2], not leaky, value)
        elif k == "loop":
            env[-1].append(x[1]); block(env, x[3])
        elif k == "case":
            ex(env, x[1])
            for v, vb, body in x[2]:
                if leaky:
                    if vb is not None:
                        env[-1].append(vb)
                    block(env, body, False, value)
                else:
                    block(env + [[vb] if vb is not None else []], body, False, value)
            block(env, x[3], not leaky, value)

    for it in p.items:
        if it[0] == "gdef" and it[2][0] == "lambda":
            lam([], it[2])
        elif it[0] == "gdef":
            # a module global's initialiser: positions inside its block expressions
            ex([], it[2])
    # between the items of the module: nothing local is visible there (plant_violations renders a use at
    # this position as the initialiser of a further global)
    for i in range(len(p.items) + 1):
        out.append((p.items, i, []))
    return out


def plant_violations(p, r, k=4):
    """up to k variants of p (as (description, apply, undo)) each with ONE `print(<local>)` inserted at a
    position where that local is not visible by the documented rules; with the distinct naming no
    other binder has that name, so the compiler has to reject the program"""
    pos = _positions(p)
    lpos = _positions(p, leaky=True)
    assert len(pos) == len(lpos)
    locs = [b for b in p.binders if b.kind in ("local", "param", "casevar") and b.ty in (INT, STR, BOOL)]
    out = []
    tries = 0
    while len(out) < k and tries < 40 and pos and locs:
        tries += 1
        j = r.randrange(len(pos))
        ss, i, vis = pos[j]
        b = r.choice(locs)
        if any(v is b for v in vis):
            continue
        leak_visible = any(v is b for v in lpos[j][2])
        out.append((ss, i, b, leak_visible))
    return out


def planted_node(p, ss, b, naming):
    """what to insert at a position of `_positions` to use binder b there: a print statement, or -- between
    the items of the module -- a further global initialised with b"""
    if ss is p.items:
        return ("raw", "planted_probe :: %s" % naming[b])
    return ("print", ("var", b))


# ------------------------------------------------------------------------------------------------
# multi-file layouts: a partition of the program's globals into files / folders and, for every pair
# (importing module, imported module), an import style

MOD_PATHS = ["/ma.sy", "/mb.sy", "/sub/mc.sy", "/sub/exports.sy", "/sub/deep/md.sy", "/lib/exports.sy", "/exports.sy"]
EXT_PRINT = "print: fn *X -> void : external\n"


def mod_dir(path):
    return path.rsplit("/", 1)[0] + "/"


def mod_stem(path):
    """the implicit namespace name of `use <path>`"""
    if path.endswith("/exports.sy"):
        d = path[:-len("/exports.sy")]
        return d.rsplit("/", 1)[-1] if d else None      # `use /` needs an alias
    return path.rsplit("/", 1)[-1][:-3]


def use_path_text(r, frm, to):
    """a `use` path, written in file `frm`, that denotes file `to`: relative when `to` lies in the
    directory of `frm` or below it (chosen at random then), else rooted"""
    def strip(p):
        if p.endswith("/exports.sy"):
            return p[:-len("exports.sy")]                # trailing slash = folder
        return p[:-3]
    rooted = strip(to)                                   # "/sub/mc", "/sub/", "/"
    d = mod_dir(frm)
    if to.startswith(d) and r.random() < 0.6:
        rel = strip(to)[len(d):]
        if rel:
            return rel
    return rooted


def item_refs(it):
    """binders and type names ('Pt'/'Ev') an item refers to"""
    refs = set()

    def ty(t):
        if isinstance(t, tuple):
            if t[0] in ("blob", "enum"):
                refs.add(t[1])
            elif t[0] == "list":
                ty(t[1])
            elif t[0] == "fn":
                for q in t[1]:
                    ty(q)
                if t[2] is not None:
                    ty(t[2])

    def walk(x):
        if isinstance(x, tuple):
            if x and x[0] == "var":
                refs.add(x[1])
            elif x and x[0] == "assign":
                refs.add(x[1]); walk(x[3])
            elif x and x[0] == "blobnew":
                refs.add("Pt"); walk(x[1])
            elif x and x[0] == "variant":
                refs.add("Ev"); walk(x[2])
            elif x and x[0] == "lambda":
                for q in x[1]:
                    ty(q.ty)
                ty(x[3]); walk(x[2])
            else:
                for y in x:
                    walk(y)
        elif isinstance(x, list):
            for y in x:
                walk(y)
    walk(it)
    return refs


STYLES = ["use", "use_as", "from", "from_as", "chain"]


class Layout:
    """files: path -> list of items; style[(frm, to)] in STYLES; main = '/main.sy'"""

    def __init__(self, p, r, naming, nmods=None, styles=None, prelude=""):
        self.p = p
        self.n = naming
        self.prelude = prelude
        items = list(p.items)
        k = nmods if nmods is not None else r.randint(1, 3)
        paths = r.sample(MOD_PATHS, k)
        self.paths = ["/main.sy"] + paths
        self.home = {}       # binder / 'Pt' / 'Ev' -> path
        self.items = {q: [] for q in self.paths}
        for it in items:
            if it[0] == "gdef" and getattr(it[1], "fixed", None) == "start":
                q = "/main.sy"
            else:
                q = r.choice(self.paths)
            self.items[q].append(it)
            if it[0] == "gdef":
                self.home[it[1]] = q
            elif it[0] == "blob":
                self.home["Pt"] = q
            elif it[0] == "enum":
                self.home["Ev"] = q
        # which modules does each module refer to
        self.refs = {q: {} for q in self.paths}   # frm -> to -> set of refs
        for q in self.paths:
            for it in self.items[q]:
                for x in item_refs(it):
                    h = self.home.get(x)
                    if h is not None and h != q:
                        self.refs[q].setdefault(h, set()).add(x)
        self.style = {}
        self.alias = {}
        self.via = {}
        self.extra_uses = {q: [] for q in self.paths}
        for q in self.paths:
            for h in sorted(self.refs[q]):
                st = r.choice(styles or STYLES)
                if st == "chain":
                    mids = [x for x in self.paths if x not in (q, h) and mod_stem(x) and mod_stem(h)]
                    if not mids:
                        st = "use"
                    else:
                        mid = r.choice(mids)
                        self.via[(q, h)] = mid
                        if h not in self.extra_uses[mid]:
                            self.extra_uses[mid].append(h)
                if st == "use" and mod_stem(h) is None:
                    st = "use_as"
                self.style[(q, h)] = st
                self.alias[(q, h)] = "al_%d" % (len(self.alias) + 10)    # unique within the layout
        self.r = r

    def name_of(self, x):
        return x if isinstance(x, str) else self.n[x]

    def prefix(self, frm, x):
        """text that denotes global x (binder or type name) inside module frm"""
        h = self.home.get(x)
        nm = self.name_of(x)
        if h is None or h == frm:
            return nm
        st = self.style[(frm, h)]
        if st == "use":
            return "%s.%s" % (mod_stem(h), nm)
        if st == "use_as":
            return "%s.%s" % (self.alias[(frm, h)], nm)
        if st == "from":
            return nm
        if st == "from_as":
            return nm + "_im"
        if st == "chain":
            mid = self.via[(frm, h)]
            return "%s_v.%s.%s" % (self.alias[(frm, h)], mod_stem(h), nm)
        raise ValueError(st)

    def header(self, frm):
        out = []
        for h in sorted(self.refs[frm]):
            st = self.style[(frm, h)]
            path = use_path_text(self.r, frm, h)
            if st == "use":
                out.append("use %s" % path)
            elif st == "use_as":
                out.append("use %s as %s" % (path, self.alias[(frm, h)]))
            elif st in ("from", "from_as"):
                names = sorted(self.name_of(x) for x in self.refs[frm][h])
                if st == "from":
                    out.append("from %s use %s" % (path, ", ".join(names)))
                else:
                    out.append("from %s use (\n%s)" % (path, "".join("    %s as %s_im,\n" % (n, n) for n in names)))
            elif st == "chain":
                mid = self.via[(frm, h)]
                out.append("use %s as %s_v" % (use_path_text(self.r, frm, mid), self.alias[(frm, h)]))
        for h in self.extra_uses[frm]:
            # (a second plain `use` of a module already imported with `use` would be rejected as a collision)
            if not (h in self.refs[frm] and self.style[(frm, h)] == "use"):
                out.append("use %s" % use_path_text(self.r, frm, h))
        return "\n".join(out) + ("\n" if out else "")

    def files(self):
        out = {}
        for q in self.paths:
            rd = Render(self.n)
            rd.name = lambda b, q=q: self.prefix(q, b)
            rd.tyname = lambda nm, q=q: self.prefix(q, nm)
            body = "\n".join(rd.item(it) for it in self.items[q])
            out[q] = self.prelude + self.header(q) + body
        return out


def layouts(p, r, naming, k, prelude=""):
    out = []
    for _ in range(k):
        out.append((Layout(p, r, naming, prelude=prelude).files(), "/main.sy"))
    return out


def permuted(p, r):
    """the same program with its top-level items in another order (a shallow copy)"""
    q = Prog()
    q.binders = p.binders
    q.items = list(p.items)
    r.shuffle(q.items)
    return q


# ------------------------------------------------------------------------------------------------
# small multi-file projects exercising every import form and every error site of the resolver's
# namespace passes (collisions, missing names, namespaces used as values, chains, re-exports, cycles)

def module_noise(r):
    mods = ["/main.sy"] + r.sample(["/ma.sy", "/mb.sy", "/sub/mc.sy", "/sub/exports.sy"], r.randint(1, 3))
    stems = {q: (mod_stem(q) or "root") for q in mods}
    glob = {q: ["x%d" % i for i in range(r.randint(1, 3))] + (["T"] if r.random() < 0.4 else []) for q in mods}
    files = {}
    for q in mods:
        lines = []
        visible = []      # expressions that should resolve to an int global
        others = [m for m in mods if m != q]
        for _ in range(r.randint(0, 4)):
            t = r.choice(others)
            path = use_path_text(r, q, t)
            k = r.random()
            if k < 0.3:
                if mod_stem(t) is None:
                    lines.append("use %s as rt" % path)
                    visible.append("rt." + r.choice(glob[t]))
                else:
                    lines.append("use %s" % path)
                    visible.append("%s.%s" % (mod_stem(t), r.choice(glob[t] + ["nope"] * (r.random() < 0.1))))
            elif k < 0.5:
                al = r.choice(["al", "bl", "x0", stems[q], "T"])
                lines.append("use %s as %s" % (path, al))
                visible.append("%s.%s" % (al, r.choice(glob[t])))
            elif k < 0.8:
                nm = r.choice(glob[t] + ["nope"] * (r.random() < 0.15))
                lines.append("from %s use %s" % (path, nm))
                visible.append(nm)
            else:
                nm = r.choice(glob[t])
                al = r.choice(["y0", "y1", "x0", "al"])
                lines.append("from %s use %s as %s" % (path, nm, al))
                visible.append(al)
        if r.random() < 0.15 and others:
            # chain through another module
            t = r.choice(others)
            if mod_stem(t):
                visible.append("%s.%s.%s" % (mod_stem(t), r.choice(["ma", "mb", "mc", "al"]), "x0"))
        for g in glob[q]:
            if g == "T":
                lines.append("T :: blob { a: int }")
            else:
                lines.append("%s :: %d" % (g, r.randint(0, 9)))
        if r.random() < 0.1:
            lines.append("%s :: 1" % r.choice(["x0", "al", "ma"]))      # possible duplicate / collision
        body = []
        for _ in range(r.randint(0, 4)):
            k = r.random()
            if k < 0.7 and visible:
                body.append("    print(%s)" % r.choice(visible))
            elif k < 0.8:
                body.append("    print(%s)" % r.choice(["ma", "al", "undefined_name", "x0.a", "T"]))
            elif k < 0.9:
                body.append("    q: %s = nil" % r.choice(["T", "ma.T", "al.T", "x0", "ma.x0", "Nope", "ma.Nope", "ma"]))
            else:
                body.append("    v :: %s { a: 1 }\n    print(v.a)" % r.choice(["T", "ma.T", "al.T", "mc.T"]))
        fname = "start" if q == "/main.sy" and r.random() < 0.9 else "helper"
        lines.append("%s :: fn do\n%s\nend" % (fname, "\n".join(body)))
        r.shuffle(lines)
        files[q] = "\n".join(lines) + "\n"
    return files, "/main.sy"


def nsfield_cases(ctx, n, salt):
    """DESIGN section 7 row 20: a parameter / local named like an imported namespace, used in field
    position.  Pair: the parameter named `ma` (shadowing the namespace) vs a fresh name."""
    out = []
    for i in range(n):
        r = vlib.rng(ctx.seed, "%s-nsfield-%d" % (salt, i))
        fld = r.choice(["a", "val"])
        other = "%s :: %d\n" % (fld, r.randint(100, 200)) if r.random() < 0.7 else "zz :: 1\n"
        kind = r.choice(["param", "local", "casevar"])

        def prog(nm):
            if kind == "param":
                body = "f :: fn %s: Pt -> int do\n    ret %s.%s\nend\n" % (nm, nm, fld)
                call = "    print(f(Pt { %s: 1 }))\n" % fld
            elif kind == "local":
                body = "f :: fn -> int do\n    %s :: Pt { %s: 1 }\n    ret %s.%s\nend\n" % (nm, fld, nm, fld)
                call = "    print(f())\n"
            else:
                body = ("Bx :: enum\n    W Pt,\nend\nf :: fn e: Bx -> int do\n    case e do\n        W %s -> do\n"
                        "            ret %s.%s\n        end\n        else do\n        end\n    end\n    ret 0\nend\n"
                        % (nm, nm, fld))
                call = "    print(f((Bx.W (Pt { %s: 1 }))))\n" % fld
            return ("use ma\nPt :: blob { %s: int }\n" % fld) + body + "start :: fn do\n" + call + "    print(ma.zq)\nend\n"
        ma = other + "zq :: 3\n"
        out.append({"kind": "files-pair", "cls": "nsfield", "nsfield": True, "leak": False,
                    "a": {"/main.sy": prog("fresh_%d" % i), "/ma.sy": ma},
                    "b": {"/main.sy": prog("ma"), "/ma.sy": ma}})
    return out


# ------------------------------------------------------------------------------------------------
# projects for the module-discovery tie: many files, every use-path form, cycles, diamonds, missing
# files, files with syntax errors or conflict markers, std names

PROJ_PATHS = ["/p/main.sy", "/p/a.sy", "/p/b.sy", "/p/exports.sy", "/p/d/c.sy", "/p/d/exports.sy", "/p/d/e/f.sy",
              "/p/d/e/exports.sy", "/p/g/h.sy", "/p/list.sy", "/p/d/math.sy"]


def module_project(r, rel_main=False):
    """-> (files, main, std, abstract) where abstract[path] = ('ok'|'bad'|'conflict', [use path texts])"""
    n = r.randint(1, 6)
    paths = ["/p/main.sy"] + r.sample(PROJ_PATHS[1:], n)
    std = r.random() < 0.3
    files = {}
    abstract = {}
    for q in paths:
        uses = []
        lines = []
        kind = "ok"
        x = r.random()
        if q != "/p/main.sy" and x < 0.08:
            kind = "bad"
        elif q != "/p/main.sy" and x < 0.12:
            kind = "conflict"
        for _ in range(r.randint(0, 4)):
            t = r.choice(paths + ["/p/missing.sy"] * (r.random() < 0.08))
            path = use_path_text(r, q[len("/p"):], t[len("/p"):])
            # paths are written relative to the project root /p: rooted paths start at /p
            if r.random() < 0.15:
                path = r.choice(["list", "math", "set", "/dict", "maybe/", "/common/"])
            form = r.random()
            if form < 0.5:
                if path == "/":
                    lines.append("use / as rt%d" % len(lines))
                else:
                    lines.append("use %s" % path)
            elif form < 0.75:
                lines.append("use %s as al%d" % (path, len(lines)))
            else:
                lines.append("from %s use x" % path)
            uses.append(path)
        if kind == "bad":
            lines.insert(r.randint(0, len(lines)), ") ) )")
        if kind == "conflict":
            lines.insert(r.randint(0, len(lines)), "<<<<<<< HEAD")
        lines.append("x :: 1")
        if q == "/p/main.sy":
            lines.append("start :: fn do\nend")
        files[q] = "\n".join(lines) + "\n"
        abstract[q] = (kind, uses)
    # the project directory spelled in one of four ways: absolute, bare file names (the main file has no
    # directory: `Path::parent` is the empty path), `./`, a relative directory
    prefix = r.choice(MAIN_SPELLINGS)
    files = {respell(q, "/p/", prefix): v for q, v in files.items()}
    abstract = {respell(q, "/p/", prefix): v for q, v in abstract.items()}
    return files, prefix + "main.sy", std, abstract


MAIN_SPELLINGS = ["/p/", "", "./", "proj/"]


def respell(path, old_prefix, new_prefix):
    assert path.startswith(old_prefix), path
    return new_prefix + path[len(old_prefix):]


def rust_parent(path):
    """Path::parent of a file path, as text (what tree() uses as the root of `/`-rooted imports)"""
    if "/" not in path:
        return ""
    d = path.rsplit("/", 1)[0]
    return d if d else "/"


def respell_files(files, main, prefix):
    """a layout whose paths start at "/" moved under another spelling of the project directory"""
    return {respell(q, "/", prefix): v for q, v in files.items()}, respell(main, "/", prefix)


def perm_files(files, r):
    """permute the top-level statements inside every file of a project made of one-statement-per-
    paragraph sources (the layouts of this module separate items by blank lines)"""
    out = {}
    for q, s in files.items():
        paras = [x for x in s.split("\n\n") if x.strip()]
        r.shuffle(paras)
        out[q] = "\n\n".join(paras) + "\n"
    return out


# ------------------------------------------------------------------------------------------------
# a definition whose initialiser mentions an OUTER variable of the same name (`x := g(x)`): the value is
# resolved before the new variable exists, so the mention is the outer one -- also when the initialiser
# contains a function literal in argument position; and the same shapes with no outer variable (a use
# inside the own initialiser: must be rejected)

SELF_PRE = ("inc :: fn n: int -> int do\n    ret n + 1\nend\n\n"
            "apply :: fn v: int, g: fn int -> int -> int do\n    ret g(v)\nend\n\n")

SELF_INITS = [
    ("call", "inc({x})"),
    ("arith", "{x} + 1"),
    ("lambda-arg", "apply({x}, fn n: int -> int do\n{i}    ret n + 1\n{i}end)"),
    ("lambda-arg-mentions", "apply(1, fn n: int -> int do\n{i}    ret n + {x}\n{i}end)"),
    ("arrow-lambda", "{x} -> apply(fn n: int -> int do\n{i}    ret n * 2\n{i}end)"),
    ("nested-call-lambda", "inc(apply({x}, fn n: int -> int do\n{i}    ret n - 1\n{i}end))"),
]

SELF_CTX = [
    ("block", "    do\n", "    end\n"),
    ("if-branch", "    if true do\n", "    end\n"),
    ("else-branch", "    if false do\n        print(0)\n    else do\n", "    end\n"),
    ("loop", "    i := 0\n    loop i < 2 do\n        i += 1\n", "    end\n"),
    ("closure", "    h :: fn do\n", "    end\n    h()\n"),
]


def self_shadow_program(ctx_i, init_i, inner, outer_kind, mutable):
    """the program with the inner binder called `inner`; the outer variable is always `total`"""
    cname, copen, cclose = SELF_CTX[ctx_i]
    iname, init = SELF_INITS[init_i]
    op = ":=" if mutable else "::"
    body = (copen + "        %s %s %s\n" % (inner, op, init.format(x="total", i="        "))
            + "        print(%s)\n" % inner + cclose + "    print(total)\n")
    if outer_kind == "local":
        return SELF_PRE + "start :: fn do\n    total := 10\n" + body + "end\n"
    if outer_kind == "param":
        return SELF_PRE + "run :: fn total: int do\n" + body + "end\n\nstart :: fn do\n    run(10)\nend\n"
    return SELF_PRE + "total := 10\n\nstart :: fn do\n" + body + "end\n"       # global


def self_use_program(ctx_i, init_i, mutable):
    """no outer variable: `r := f(r)` uses r inside its own initialiser"""
    cname, copen, cclose = SELF_CTX[ctx_i]
    iname, init = SELF_INITS[init_i]
    op = ":=" if mutable else "::"
    return (SELF_PRE + "start :: fn do\n" + copen + "        r %s %s\n" % (op, init.format(x="r", i="        "))
            + "        print(r)\n" + cclose + "end\n")


REEXPORT_SHAPES = ["chain", "alias", "diamond", "cycle", "missing", "collision"]


def reexport_projects(r, i):
    """[(shape, files, single-file source | None)]: one re-export project (shape i mod 6) in EVERY order in which
    tree() can be made to visit the modules -- main lists the modules with `use` lines in every permutation,
    before or after its from-import.  Shapes: a chain of from-imports, aliases along the chain, a diamond (the
    same definition reached through two re-exporting modules: importing the same thing twice is allowed), a
    cycle (the re-exporting module imports back from main, three rounds), and the two ways such a project must
    be REJECTED in every order (single-file source None): a name that is missing at the end of the chain, and
    two different definitions imported under one name."""
    import itertools
    val, other = r.sample(range(1, 99), 2)
    shape = REEXPORT_SHAPES[i % 6]
    single = EXT_PRINT + "x :: %d\nstart :: fn do\n    print(x)\nend\n" % val
    body = "start :: fn do\n    print(x)\nend\n"

    def frm(m, src, dst):
        return "from %s use %s%s" % (m, src, "" if src == dst else " as " + dst)
    if shape in ("chain", "alias", "missing"):
        mods = ["a", "b", "c"]
        # the name under which the value travels: c -> b -> a -> main
        nb, na = ("y2", "y1") if shape == "alias" else ("x", "x")
        files = {"/c.sy": EXT_PRINT + "%s :: %d\n" % ("x" if shape != "missing" else "z", val),
                 "/b.sy": EXT_PRINT + frm("c", "x", nb) + "\n",
                 "/a.sy": EXT_PRINT + frm("b", nb, na) + "\n"}
        imp = frm("a", na, "x")
    elif shape == "diamond":
        mods = ["a", "b", "c"]
        files = {"/c.sy": EXT_PRINT + "x :: %d\n" % val,
                 "/a.sy": EXT_PRINT + "from c use x\n", "/b.sy": EXT_PRINT + "from c use x\n"}
        imp = "from a use x\nfrom b use x"
    elif shape == "cycle":
        mods = ["a", "b"]
        # a re-exports b's x, imports main's helper back and re-exports main's (imported) x to main as `again`
        files = {"/b.sy": EXT_PRINT + "x :: %d\n" % val,
                 "/a.sy": EXT_PRINT + "from b use x\nfrom main use helper\nfrom main use x as again\n"}
        imp = "from a use x\nfrom a use again"
        body = "helper :: 0\nstart :: fn do\n    print(again)\nend\n"
    else:   # collision: two different definitions under the name x
        mods = ["a", "b", "c", "d"]
        files = {"/c.sy": EXT_PRINT + "x :: %d\n" % val, "/d.sy": EXT_PRINT + "x :: %d\n" % other,
                 "/a.sy": EXT_PRINT + "from c use x\n", "/b.sy": EXT_PRINT + "from d use x\n"}
        imp = "from a use x\nfrom b use x"
    perms = list(itertools.permutations(mods))
    if len(perms) > 6:
        perms = r.sample(perms, 6)
    out = []
    for perm in [()] + perms:
        for before in ((True, False) if perm else (True,)):
            uses = "\n".join("use %s" % m for m in perm)
            head = (uses + "\n" + imp) if before else (imp + "\n" + uses)
            f2 = dict(files)
            f2["/main.sy"] = EXT_PRINT + head.strip("\n") + "\n" + body
            out.append((shape, f2, None if shape in ("missing", "collision") else single))
    return out


# ------------------------------------------------------------------------------------------------
# locals of block expressions that initialise a MODULE GLOBAL: the branches of an if / case are scopes of
# their own although no function is around them.  A small hand-written family, always enumerated in full.

GINIT_PRE = ("Ev :: enum\n    A int,\n    B str,\n    C,\nend\n\ninc :: fn n: int -> int do\n    ret n + 1\nend\n\n"
             "limit :: 5\nother :: 7\n\n")
GINIT_POST = "\nstart :: fn do\n    print(scaled)\n    print(limit)\n    print(other)\nend\n"

# (name, text of the initialiser of `scaled`; N = the local, D = its definition operator, @OTHER = a place in
#  another branch of the same expression where N is NOT in scope, @BEFORE = a place before N's definition)
GINIT_CTX = [
    ("if-branch", "if limit > 3 do\n@BEFORE    N D limit * 2\n    N + 1\nelse do\n@OTHER    0\nend"),
    ("else-branch", "if limit > 9 do\n@OTHER    0\nelse do\n@BEFORE    N D limit * 2\n    N + 1\nend"),
    ("elif-branch", "if limit > 9 do\n@OTHER    0\nelif limit > 3 do\n@BEFORE    N D limit * 2\n    N + 1\nelse do\n    1\nend"),
    ("case-arm", "case Ev.A (limit) do\n    A q -> do\n@BEFORE        N D q * 2\n        N + 1\n    end\n    else do\n@OTHER        0\n    end\nend"),
    ("case-else", "case Ev.C do\n    A q -> do\n@OTHER        q\n    end\n    else do\n@BEFORE        N D limit * 2\n        N + 1\n    end\nend"),
    ("nested", "if limit > 3 do\n    t0 := if limit > 4 do\n@BEFORE        N D limit + 1\n        N * 2\n    else do\n        1\n    end\n@OTHER    t0 + 1\nelse do\n    0\nend"),
    ("closure-reads-it", "if limit > 3 do\n@BEFORE    N D limit * 2\n    f :: fn k: int -> int do\n        m := k + N\n        ret m\n    end\n    f(1)\nelse do\n@OTHER    0\nend"),
    ("inside-closure", "if limit > 3 do\n    f :: fn k: int -> int do\n@BEFORE        N D k + limit\n        ret N\n    end\n@OTHER    f(1)\nelse do\n    0\nend"),
    ("not-at-root", "1 + (if limit > 3 do\n@BEFORE    N D limit * 2\n    N + 1\nelse do\n@OTHER    0\nend)"),
    ("call-argument", "inc(if limit > 3 do\n@BEFORE    N D limit * 2\n    N + 1\nelse do\n@OTHER    0\nend)"),
    ("loop-in-branch", "if limit > 3 do\n    acc := 0\n    i := 0\n    loop i < 3 do\n        i += 1\n@BEFORE        N D i * 2\n        acc += N\n    end\n@OTHER    acc\nelse do\n    0\nend"),
]
GINIT_NAMES = ["limit", "other", "scaled"]      # shadow the global that is read, another global, the global being defined


def _ginit(ctx_i, name, mutable, probe=None):
    text = GINIT_CTX[ctx_i][1].replace("N", "\0")
    out = []
    for line in text.split("\n"):
        tag = None
        for t in ("@BEFORE", "@OTHER"):
            if line.startswith(t):
                tag, line = t, line[len(t):]
        if tag is not None and probe == tag:
            ind = line[:len(line) - len(line.lstrip())]
            out.append("%sprobe_l :: %s" % (ind, name))
        out.append(line)
    body = "\n".join(out).replace("\0 D", "%s %s" % (name, ":=" if mutable else "::")).replace("\0", name)
    src = GINIT_PRE + "scaled :: " + body + "\n"
    if probe == "@GLOBAL":
        src += "probe_g :: %s\n" % name
    post = GINIT_POST
    if probe == "@START":
        post = post.replace("    print(other)\n", "    print(other)\n    print(%s)\n" % name)
    return src + post


def ginit_shadow_program(ctx_i, name, mutable):
    """the local of the block expression named `name` ("fresh" -> a name nothing else has)"""
    return _ginit(ctx_i, "twice_l" if name == "fresh" else name, mutable)


def ginit_use_program(ctx_i, probe, mutable):
    """the (freshly named) local used where it is not in scope: "@BEFORE" its definition, in an "@OTHER" branch,
    in another "@GLOBAL", in "@START": has to be rejected"""
    return _ginit(ctx_i, "twice_l", mutable, probe)


# ------------------------------------------------------------------------------------------------
# function literals inside redundant parentheses: the variable of a function definition is declared before its
# body (it can call itself), `self` is visible in function fields of a blob instance -- with or without ( )

PAREN_FN = [
    ("local-recursive", "start :: fn do\n    f :: @(fn n: int -> int do\n        if n <= 0 do\n            ret 0\n        end\n"
                        "        ret f(n - 1) + 1\n    end@)\n    print(f(3))\nend\n"),
    ("local-recursive-shadowing-global", "f :: fn n: int -> int do\n    ret 100\nend\n\nstart :: fn do\n    f :: @(fn n: int -> int do\n"
                                         "        if n <= 0 do\n            ret 0\n        end\n        ret f(n - 1) + 1\n    end@)\n"
                                         "    print(f(3))\nend\n"),
    ("local-plain", "start :: fn do\n    k := 4\n    g :: @(fn n: int -> int do\n        ret n + k\n    end@)\n    print(g(3))\nend\n"),
    ("global-recursive", "f :: @(fn n: int -> int do\n    if n <= 0 do\n        ret 0\n    end\n    ret f(n - 1) + 1\nend@)\n\n"
                         "start :: fn do\n    print(f(3))\nend\n"),
    ("global-plain", "g :: @(fn n: int -> int do\n    ret n + 1\nend@)\n\nstart :: @(fn do\n    print(g(3))\nend@)\n"),
    ("blob-field-self", "B :: blob { g: fn int -> int, k: int }\n\nstart :: fn do\n    b :: B { k: 5, g: @(fn n: int -> int do\n"
                        "        ret n + self.k\n    end@) }\n    print(b.g(1))\nend\n"),
    ("blob-field-self-global", "B :: blob { g: fn int -> int, k: int }\n\nb :: B { k: 5, g: @(fn n: int -> int do\n"
                               "    ret n + self.k\nend@) }\n\nstart :: fn do\n    print(b.g(1))\nend\n"),
    ("argument", "apply :: fn v: int, g: fn int -> int -> int do\n    ret g(v)\nend\n\nstart :: fn do\n    k := 2\n"
                 "    print(apply(3, @(fn n: int -> int do\n        ret n * k\n    end@)))\nend\n"),
    ("in-block-of-global-init", "limit :: 5\n\nscaled :: if limit > 3 do\n    f :: @(fn n: int -> int do\n        if n <= 0 do\n"
                                "            ret 0\n        end\n        ret f(n - 1) + 1\n    end@)\n    f(limit)\nelse do\n    0\nend\n\n"
                                "start :: fn do\n    print(scaled)\nend\n"),
    ("nested-closure", "start :: fn do\n    outer :: @(fn a: int -> int do\n        inner :: @(fn n: int -> int do\n            if n <= 0 do\n"
                       "                ret a\n            end\n            ret inner(n - 1) + 1\n        end@)\n        ret inner(2)\n    end@)\n"
                       "    print(outer(7))\nend\n"),
]


def paren_fn_program(i, k):
    """template i with every marked function literal inside k pairs of redundant parentheses"""
    return PAREN_FN[i][1].replace("@(", "(" * k).replace("@)", ")" * k)
