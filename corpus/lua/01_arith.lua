-- expect: 3
-- expect: 3.5
-- expect[jit]: 2
-- expect[5.3]: 2.0
-- expect[jit]: 1024	0.5	1
-- expect[5.3]: 1024.0	0.5	1.0
-- expect: 1	2	-2	-1
-- expect[jit]: 1.5	1
-- expect[5.3]: 1.5	1.0
-- expect[jit]: -4	512
-- expect[5.3]: -4.0	512.0
-- expect[jit]: 5
-- expect[5.3]: 5.0
-- expect: 11	12	4
-- expect: 1020
-- expect: true	true	false	true	false
-- expect[jit]: 1000	0.001	16	0.5	5	3	255	100
-- expect[5.3]: 1000.0	0.001	16	0.5	5.0	3.0	255	100.0
-- expect: 3	-4	4	-3	4
-- expect: 5	-1
-- expect: 1	-1
-- expect[jit]: 3	0.7
-- expect[5.3]: 3.0	0.7
-- expect[jit]: -3	-0.7
-- expect[5.3]: -3.0	-0.7
-- expect: true	false	false
-- expect: 5	3	3
-- expect: 6	1
-- expect[jit]: 5	10	-5	12
-- expect[5.3]: 5.0	10	-5	12.0
-- expect[jit]: 4	1.5	256
-- expect[5.3]: 4.0	1.5	256.0
-- expect: true
-- expect: 20	14	37
-- expect: true	true
print(1 + 2)
print(7 / 2)
print(4 / 2)
print(2 ^ 10, 2 ^ -1, 2 ^ 0)
print(7 % 3, -7 % 3, 7 % -3, -7 % -3)
print(5.5 % 2, 8 % 3.5)
print(-2 ^ 2, 2 ^ 3 ^ 2)
print(1 + 2 * 3 - 4 / 2)
print("10" + 1, "3" * "4", " 5 " - 1)
print(10 .. 20)
print(1 < 2, 2 <= 2, 3 > 4, 1 == 1.0, "1" == 1)
print(1e3, 1e-3, 0x10, .5, 5., 3e0, 0xff, 1E2)
print(math.floor(3.7), math.floor(-3.7), math.ceil(3.2), math.ceil(-3.2), math.abs(-4))
print(math.max(1, 5, 3), math.min(2, -1))
print(math.fmod(7, 3), math.fmod(-7, 3))
print(math.modf(3.7))
print(math.modf(-3.7))
print(not nil, not 0, not "")
print(#"hello", -(-3), - -3)
print(2 * 3 .. "", 1 .. "")
print(10 / 4 * 2, 7 - -3, 2 - 3 - 4, 2 ^ 2 * 3)
print(math.sqrt(16), math.sqrt(2.25), math.pow(2, 8))
print(1 + 1 == 2 and 2 * 2 == 4)
print((2 + 3) * 4, 2 + 3 * 4, (1 + 2) .. (3 + 4))
print(7 / 2 * 2 == 7, 1 / 3 * 3 == 1)
