-- expect[5.3]: 42	3
-- expect[5.3]: true	true	false
-- expect[5.3]: true	false
-- expect[5.3]: true	true
-- expect[5.3]: true	true
-- expect[5.3]: true	false
-- expect[5.3]: true	false
-- expect[5.3]: true	false	false
-- expect[5.3]: false	true	false
-- expect[jit]: 3	nil
-- expect[jit]: false	false	true
-- expect[jit]: false	false
-- expect[jit]: false	attempt to compare table with number
-- expect[jit]: false	attempt to compare number with table
-- expect[jit]: false	attempt to compare table with string
-- expect[jit]: false	attempt to compare table with string
-- expect[jit]: true	false	false
-- expect[jit]: false	true	false
-- __len: honoured on tables by Lua 5.3 only
local t = setmetatable({1, 2, 3}, {__len = function() return 42 end})
print(#t, rawlen and rawlen(t))
-- __eq: 5.3 takes the first operand's handler, else the second's; 5.1/LuaJIT need the same handler in both
local A = setmetatable({}, {__eq = function() return true end})
print(A == {}, {} == A, A ~= {})
local B = setmetatable({}, {__eq = function() return false end})
print(A == B, B == A)
-- __lt / __le with operands of different types
local L = setmetatable({}, {__lt = function(a, b) return true end, __le = function(a, b) return false end})
print(pcall(function() return L < 1 end))
print(pcall(function() return 1 < L end))
print(pcall(function() return L <= "s" end))
print(pcall(function() return "s" >= L end))
-- without __le: not (b < a), in both dialects when both operands share the handler
local mt = {__lt = function(a, b) return a.v < b.v end}
local x, y = setmetatable({v = 1}, mt), setmetatable({v = 2}, mt)
print(x <= y, y <= x, x >= y)
-- same in both dialects: never called for non-tables or for the same table
print(A == 1, A == A, rawequal(A, setmetatable({}, getmetatable(A))))
