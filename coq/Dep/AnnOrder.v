(* C08 between name resolution and the backend: the dependency order of two resolved programs that are equal modulo
   annotations.  An annotation adds the type names it mentions to the dependencies of a definition
   (statement_dependencies: union (dependencies value) (ty_dependency t)); blob / enum statements have no dependencies
   themselves, so they are leaves of the DFS (Dep/LeafPrune.v) and the other statements come out in the same order;
   types_first then moves every type declaration to the front, and the lowering emits nothing for them. *)
From Coq Require Import String List NArith ZArith Bool Lia.
From Sylt Require Types.Erasure.
From Sylt Require Import Syntax.Resolved Dep.Deps Dep.Topo Dep.TopoProofs Dep.DepProofs Dep.SpanOrder Dep.LeafPrune
     Back.IR Back.Emit.
Import ListNotations.

Notation sS := Sylt.Types.Erasure.strip_s.

Definition ntype (s : stmt) : bool := negb (is_type_stmt s).

Lemma is_type_strip s : is_type_stmt (sS s) = is_type_stmt s.
Proof. destruct s; reflexivity. Qed.
Lemma defined_var_strip s : defined_var (sS s) = defined_var s.
Proof. destruct s; reflexivity. Qed.

Lemma filter_strip l : filter ntype (map sS l) = map sS (filter ntype l).
Proof.
  induction l as [|s l IH]; cbn [map filter]; [reflexivity|].
  assert (E : ntype (sS s) = ntype s) by (unfold ntype; rewrite is_type_strip; reflexivity).
  rewrite E. destruct (ntype s); cbn [map]; rewrite IH; reflexivity.
Qed.

(* ---- tables of two programs, pruned by the same predicate, with stripped payloads ---- *)
Lemma prune_insert kp k d (a : stmt) t :
  prune_with kp (tbl_insert k (d, a) t) = tbl_insert k (filter kp d, a) (prune_with kp t).
Proof.
  unfold prune_with. induction t as [|[k' v] t IH]; cbn [tbl_insert map fst snd]; [reflexivity|].
  destruct (N.compare k k'); cbn [map fst snd]; [reflexivity|reflexivity|]. rewrite IH. reflexivity.
Qed.

Section Two.
Variable tgt : bool.
Variable kp : N -> bool.

(* the statements of the two programs, pairwise: equal modulo annotations, and the dependencies that `kp` keeps agree *)
Definition aligned (s1 s2 : stmt) : Prop :=
  sS s1 = sS s2 /\ filter kp (statement_dependencies tgt s1) = filter kp (statement_dependencies tgt s2).

Lemma build_aligned ss1 ss2 : Forall2 aligned ss1 ss2 -> forall t1 t2,
  tmap sS (prune_with kp t1) = tmap sS (prune_with kp t2) ->
  tmap sS (prune_with kp (build_table tgt ss1 t1)) = tmap sS (prune_with kp (build_table tgt ss2 t2)).
Proof.
  induction 1 as [|s1 s2 l1 l2 [Hs Hd] _ IH]; intros t1 t2 Ht; cbn [build_table]; [exact Ht|].
  assert (Ev : defined_var s2 = defined_var s1) by (rewrite <- (defined_var_strip s2), <- Hs; apply defined_var_strip).
  rewrite Ev. destruct (defined_var s1) as [v|]; [|apply IH; exact Ht].
  apply IH. rewrite !prune_insert, !tbl_insert_map, Ht, Hs, Hd. reflexivity.
Qed.

End Two.

(* which keys are type declarations: the same in both tables *)
Lemma tk_aligned (t1 t2 : table stmt) : tmap sS t1 = tmap sS t2 ->
  forall d, tk is_type_stmt t1 d = tk is_type_stmt t2 d.
Proof.
  intros H d. unfold tk. pose proof (tbl_get_map sS t1 d) as E1. pose proof (tbl_get_map sS t2 d) as E2. rewrite H in E1.
  rewrite E1 in E2. destruct (tbl_get t1 d) as [[d1 a1]|], (tbl_get t2 d) as [[d2 a2]|]; try discriminate E2; [|reflexivity].
  inversion E2. rewrite <- (is_type_strip a1), <- (is_type_strip a2). cbn [snd] in *. congruence.
Qed.

Lemma prune_with_ext (kp kp' : N -> bool) (t : table stmt) : (forall d, kp d = kp' d) -> prune_with kp t = prune_with kp' t.
Proof.
  intros H. unfold prune_with. apply map_ext. intros [k [d a]]. cbn. f_equal. f_equal.
  induction d as [|x d IH]; cbn; [reflexivity|]. rewrite H, IH. reflexivity.
Qed.

Lemma prune_all_false (t : table stmt) : tmap sS (prune_with (fun _ => false) t) = map (fun e => (fst e, ([], sS (snd (snd e))))) t.
Proof.
  unfold tmap, prune_with. rewrite map_map. apply map_ext. intros [k [d a]]. cbn. f_equal. f_equal.
  induction d; cbn; auto.
Qed.

Definition onf (r : ores (A := stmt)) : ores (A := stmt) :=
  match r with OOk l => OOk (map sS (filter ntype l)) | OCycle c => OCycle (map sS c) | OOutOfFuel => OOutOfFuel end.

Lemma onf_ofilter r : onf (ofilter is_type_stmt r) = onf r.
Proof.
  destruct r; cbn; try reflexivity. f_equal. f_equal.
  change (nt is_type_stmt) with ntype. induction ordered as [|s l IH]; cbn; [reflexivity|].
  destruct (ntype s) eqn:E; cbn; rewrite ?E, IH; reflexivity.
Qed.

Lemma onf_omap r : onf r = match omap sS r with OOk l => OOk (filter ntype l) | o => o end.
Proof. destruct r; cbn; try reflexivity. rewrite filter_strip. reflexivity. Qed.

(* the heart: the non-type statements come out in the same order, and cycles are the same *)
Theorem order_same_modulo_annotations tgt ss1 ss2 :
  (forall kp, (forall d, kp d = negb (tk is_type_stmt (build_table tgt ss1 []) d)) -> Forall2 (aligned tgt kp) ss1 ss2) ->
  onf (initialization_order tgt ss1) = onf (initialization_order tgt ss2).
Proof.
  intros Hal. unfold initialization_order.
  set (T1 := build_table tgt ss1 []). set (T2 := build_table tgt ss2 []).
  assert (Hl1 : forall k deps a, tbl_get T1 k = Some (deps, a) -> is_type_stmt a = true -> deps = []).
  { intros k deps a Hg Ht. rewrite (build_table_entry tgt ss1 [] ltac:(cbn; discriminate) k deps a Hg). destruct a; try discriminate Ht; reflexivity. }
  assert (Hl2 : forall k deps a, tbl_get T2 k = Some (deps, a) -> is_type_stmt a = true -> deps = []).
  { intros k deps a Hg Ht. rewrite (build_table_entry tgt ss2 [] ltac:(cbn; discriminate) k deps a Hg). destruct a; try discriminate Ht; reflexivity. }
  pose proof (order_prune is_type_stmt key_of_stmt T1 (table_of_key tgt ss1) Hl1) as P1.
  pose proof (order_prune is_type_stmt key_of_stmt T2 (table_of_key tgt ss2) Hl2) as P2.
  rewrite <- (onf_ofilter (order T1)), <- (onf_ofilter (order T2)), <- P1, <- P2, !onf_ofilter, !onf_omap.
  set (kp := fun d => negb (tk is_type_stmt T1 d)).
  pose proof (Hal kp (fun d => eq_refl)) as F.
  (* payloads aligned -> the same type keys *)
  assert (F0 : Forall2 (aligned tgt (fun _ => false)) ss1 ss2).
  { clear - F. induction F as [|s1 s2 l1 l2 [Hs _] _ IH]; constructor; [|exact IH]. split; [exact Hs|].
    generalize (statement_dependencies tgt s1), (statement_dependencies tgt s2). intros a b.
    assert (E : forall l : nset, filter (fun _ => false) l = []) by (induction l; cbn; auto). rewrite !E. reflexivity. }
  pose proof (build_aligned tgt (fun _ => false) ss1 ss2 F0 [] [] eq_refl) as A0. fold T1 T2 in A0.
  assert (TK : forall d, tk is_type_stmt T1 d = tk is_type_stmt T2 d).
  { intros d. unfold tk. rewrite !prune_all_false in A0.
    assert (G : forall (t : table stmt) k, tbl_get (map (fun e => (fst e, (@nil N, sS (snd (snd e))))) t) k
                  = match tbl_get t k with Some (_, a) => Some ([], sS a) | None => None end).
    { induction t as [|[k' [dd a]] t IH]; intros k; cbn; [reflexivity|]. destruct (N.eqb k k'); [reflexivity|apply IH]. }
    pose proof (G T1 d) as G1. pose proof (G T2 d) as G2. rewrite A0 in G1. rewrite G1 in G2.
    destruct (tbl_get T1 d) as [[d1 a1]|], (tbl_get T2 d) as [[d2 a2]|]; try discriminate G2; [|reflexivity].
    inversion G2. rewrite <- (is_type_strip a1), <- (is_type_strip a2). congruence. }
  pose proof (build_aligned tgt kp ss1 ss2 F [] [] eq_refl) as A. fold T1 T2 in A.
  unfold prune. change (keep is_type_stmt T1) with kp.
  rewrite (prune_with_ext (keep is_type_stmt T2) kp T2) by (intros d; unfold keep, kp; rewrite TK; reflexivity).
  rewrite <- !order_map, A. reflexivity.
Qed.

(* ---- the lowering emits nothing for type declarations, wherever they stand ---- *)
Lemma compile_type_stmt fuel s c : is_type_stmt s = true -> compile_stmt fuel s c = IR.Ok ([], c).
Proof. destruct s; try discriminate; reflexivity. Qed.

Lemma mapM_compile_filter fuel l : forall c,
  match IR.mapM (compile_stmt fuel) l c with
  | IR.Ok (cs, c') => exists cs', IR.mapM (compile_stmt fuel) (filter ntype l) c = IR.Ok (cs', c') /\ concat cs' = concat cs
  | IR.Panic p => IR.mapM (compile_stmt fuel) (filter ntype l) c = IR.Panic p
  | IR.OutOfFuel => IR.mapM (compile_stmt fuel) (filter ntype l) c = IR.OutOfFuel
  end.
Proof.
  induction l as [|s l IH]; intros c; cbn [IR.mapM filter]; [exists []; split; reflexivity|].
  assert (En : ntype s = negb (is_type_stmt s)) by reflexivity. rewrite En.
  destruct (is_type_stmt s) eqn:Et; cbn [negb].
  - unfold IR.bind. rewrite (compile_type_stmt fuel s c Et). specialize (IH c).
    destruct (IR.mapM (compile_stmt fuel) l c) as [[cs c']|p|]; cbn [IR.ret].
    + destruct IH as (cs' & E & Ec). exists cs'. split; [exact E|exact Ec].
    + exact IH.
    + exact IH.
  - cbn [IR.mapM]. unfold IR.bind. destruct (compile_stmt fuel s c) as [[x c1]|p|]; try reflexivity.
    specialize (IH c1). destruct (IR.mapM (compile_stmt fuel) l c1) as [[cs c']|p|]; cbn [IR.ret].
    + destruct IH as (cs' & E & Ec). rewrite E. exists (x :: cs'). split; [reflexivity|]. cbn. rewrite Ec. reflexivity.
    + rewrite IH. reflexivity.
    + rewrite IH. reflexivity.
Qed.

Theorem lower_ignores_type_stmts fuel vars l :
  IR.lower fuel (mkResolved vars (filter ntype l)) = IR.lower fuel (mkResolved vars l).
Proof.
  unfold IR.lower. cbn [r_vars r_stmts]. unfold IR.bind at 1 3.
  pose proof (mapM_compile_filter fuel l (N.of_nat (length vars) + 1)%N) as H.
  destruct (IR.mapM (compile_stmt fuel) l (N.of_nat (length vars) + 1)%N) as [[cs c']|p|].
  - destruct H as (cs' & -> & E). destruct (find_start vars); [|reflexivity]. cbn. rewrite E. reflexivity.
  - rewrite H. reflexivity.
  - rewrite H. reflexivity.
Qed.

Lemma filter_types_first l : filter ntype (types_first l) = filter ntype l.
Proof.
  unfold types_first. rewrite filter_app.
  assert (E1 : filter ntype (filter is_type_stmt l) = []).
  { induction l as [|s l IH]; cbn; [reflexivity|]. destruct (is_type_stmt s) eqn:E; cbn; [unfold ntype; rewrite E; cbn|]; exact IH. }
  assert (E2 : filter ntype (filter (fun s => negb (is_type_stmt s)) l) = filter ntype l).
  { clear E1. induction l as [|s l IH]; cbn; [reflexivity|]. unfold ntype at 2. destruct (is_type_stmt s) eqn:E; cbn; [exact IH|].
    unfold ntype at 1. rewrite E. cbn. rewrite IH. reflexivity. }
  rewrite E1, E2. reflexivity.
Qed.

(* order, types first, lower, emit: the same text for two resolved programs that are equal modulo annotations *)
Theorem order_then_backend_erase tgt fuel req r1 r2 l1 :
  Sylt.Types.Erasure.same_modulo_annotations r1 r2 ->
  (forall kp, (forall d, kp d = negb (tk is_type_stmt (build_table tgt (r_stmts r1) []) d)) ->
              Forall2 (aligned tgt kp) (r_stmts r1) (r_stmts r2)) ->
  init_order tgt (r_stmts r1) = OOk l1 ->
  exists l2, init_order tgt (r_stmts r2) = OOk l2
    /\ Emit.backend fuel req (mkResolved (r_vars r1) l1) = Emit.backend fuel req (mkResolved (r_vars r2) l2).
Proof.
  intros HS Hal H1. pose proof (order_same_modulo_annotations tgt _ _ Hal) as O.
  unfold init_order in *. destruct (initialization_order tgt (r_stmts r1)) as [o1|c|] eqn:E1; try discriminate H1.
  inversion H1; subst l1. cbn [onf] in O.
  destruct (initialization_order tgt (r_stmts r2)) as [o2|c|]; cbn [onf] in O; try discriminate O.
  exists (types_first o2). split; [reflexivity|]. inversion O as [Eo].
  unfold Emit.backend.
  rewrite <- (lower_ignores_type_stmts fuel (r_vars r1) (types_first o1)), <- (lower_ignores_type_stmts fuel (r_vars r2) (types_first o2)).
  rewrite !filter_types_first.
  rewrite <- (Sylt.Types.Erasure.lower_ignores_annotations fuel (mkResolved (r_vars r1) (filter ntype o1))).
  rewrite <- (Sylt.Types.Erasure.lower_ignores_annotations fuel (mkResolved (r_vars r2) (filter ntype o2))).
  unfold Sylt.Types.Erasure.strip. cbn [r_vars r_stmts]. rewrite Eo.
  unfold Sylt.Types.Erasure.same_modulo_annotations, Sylt.Types.Erasure.strip in HS. injection HS as Hv _. rewrite Hv. reflexivity.
Qed.

(* ---- the hypothesis on dependencies, computably: for every statement, the dependencies that are not type
   declarations are those of the statement without its annotations (an annotation adds type names only) ---- *)
Fixpoint nset_eqb (a b : nset) : bool :=
  match a, b with
  | [], [] => true
  | x :: a', y :: b' => N.eqb x y && nset_eqb a' b'
  | _, _ => false
  end.

Lemma nset_eqb_eq a b : nset_eqb a b = true -> a = b.
Proof.
  revert b. induction a as [|x a IH]; destruct b as [|y b]; cbn; intros H; try discriminate; [reflexivity|].
  apply andb_true_iff in H as [H1 H2]. apply N.eqb_eq in H1. subst. f_equal. apply IH, H2.
Qed.

Definition ann_deps_ok (tgt : bool) (ss : list stmt) : bool :=
  let kp := fun d => negb (tk is_type_stmt (build_table tgt ss []) d) in
  forallb (fun s => nset_eqb (filter kp (statement_dependencies tgt s)) (filter kp (statement_dependencies tgt (sS s)))) ss.

Lemma Forall2_strip ss1 ss2 : map sS ss1 = map sS ss2 -> Forall2 (fun s1 s2 => sS s1 = sS s2) ss1 ss2.
Proof.
  revert ss2. induction ss1 as [|s l IH]; destruct ss2 as [|s' l']; cbn [map]; intros H; try discriminate H; constructor.
  - injection H as H1 _. exact H1.
  - apply IH. injection H as _ H2. exact H2.
Qed.

Lemma tk_same tgt ss1 ss2 : map sS ss1 = map sS ss2 ->
  forall d, tk is_type_stmt (build_table tgt ss1 []) d = tk is_type_stmt (build_table tgt ss2 []) d.
Proof.
  intros H d. apply Forall2_strip in H.
  assert (F0 : Forall2 (aligned tgt (fun _ => false)) ss1 ss2).
  { induction H as [|s1 s2 l1 l2 Hs _ IH]; constructor; [|exact IH]. split; [exact Hs|].
    generalize (statement_dependencies tgt s1), (statement_dependencies tgt s2). intros a b.
    assert (E : forall l : nset, filter (fun _ => false) l = []) by (induction l; cbn; auto). rewrite !E. reflexivity. }
  pose proof (build_aligned tgt (fun _ => false) ss1 ss2 F0 [] [] eq_refl) as A0.
  set (T1 := build_table tgt ss1 []) in *. set (T2 := build_table tgt ss2 []) in *.
  unfold tk. rewrite !prune_all_false in A0.
  assert (G : forall (t : table stmt) k, tbl_get (map (fun e => (fst e, (@nil N, sS (snd (snd e))))) t) k
                = match tbl_get t k with Some (_, a) => Some ([], sS a) | None => None end).
  { induction t as [|[k' [dd a]] t IH]; intros k; cbn; [reflexivity|]. destruct (N.eqb k k'); [reflexivity|apply IH]. }
  pose proof (G T1 d) as G1. pose proof (G T2 d) as G2. rewrite A0 in G1. rewrite G1 in G2.
  destruct (tbl_get T1 d) as [[d1 a1]|], (tbl_get T2 d) as [[d2 a2]|]; try discriminate G2; [|reflexivity].
  inversion G2. rewrite <- (is_type_strip a1), <- (is_type_strip a2). congruence.
Qed.

Lemma filter_ext_n (p q : N -> bool) (l : nset) : (forall d, p d = q d) -> filter p l = filter q l.
Proof. intros H. induction l as [|x l IH]; cbn; [reflexivity|]. rewrite H, IH. reflexivity. Qed.

Lemma Forall2_impl_in {X Y} (R Q : X -> Y -> Prop) l1 l2 :
  Forall2 R l1 l2 -> (forall a b, In a l1 -> In b l2 -> R a b -> Q a b) -> Forall2 Q l1 l2.
Proof.
  induction 1 as [|a b l1 l2 Hab _ IH]; intros H; constructor.
  - apply H; [left; reflexivity|left; reflexivity|exact Hab].
  - apply IH. intros x y Hx Hy. apply H; right; assumption.
Qed.

Lemma aligned_of_ok tgt ss1 ss2 : map sS ss1 = map sS ss2 -> ann_deps_ok tgt ss1 = true -> ann_deps_ok tgt ss2 = true ->
  forall kp, (forall d, kp d = negb (tk is_type_stmt (build_table tgt ss1 []) d)) -> Forall2 (aligned tgt kp) ss1 ss2.
Proof.
  intros H O1 O2 kp Hkp. pose proof (tk_same tgt ss1 ss2 H) as TK.
  unfold ann_deps_ok in O1, O2. rewrite forallb_forall in O1, O2.
  pose proof (Forall2_strip _ _ H) as F.
  assert (G : forall s1 s2, In s1 ss1 -> In s2 ss2 -> sS s1 = sS s2 -> aligned tgt kp s1 s2).
  { intros s1 s2 H1 H2 Hs. split; [exact Hs|].
    pose proof (nset_eqb_eq _ _ (O1 s1 H1)) as E1. pose proof (nset_eqb_eq _ _ (O2 s2 H2)) as E2.
    rewrite (filter_ext_n kp _ _ Hkp), E1.
    rewrite (filter_ext_n kp (fun d => negb (tk is_type_stmt (build_table tgt ss2 []) d)) (statement_dependencies tgt s2))
      by (intros d; rewrite Hkp, TK; reflexivity).
    rewrite E2, Hs. apply filter_ext_n. intros d. rewrite TK. reflexivity. }
  exact (Forall2_impl_in _ _ _ _ F G).
Qed.

(* C08_order_then_backend_erase *)
Theorem order_then_backend_erase_ok tgt fuel req r1 r2 l1 :
  Sylt.Types.Erasure.same_modulo_annotations r1 r2 ->
  ann_deps_ok tgt (r_stmts r1) = true -> ann_deps_ok tgt (r_stmts r2) = true ->
  init_order tgt (r_stmts r1) = OOk l1 ->
  exists l2, init_order tgt (r_stmts r2) = OOk l2
    /\ Emit.backend fuel req (mkResolved (r_vars r1) l1) = Emit.backend fuel req (mkResolved (r_vars r2) l2).
Proof.
  intros HS O1 O2 H1. apply (order_then_backend_erase tgt fuel req r1 r2 l1 HS); [|exact H1].
  apply aligned_of_ok; [|exact O1|exact O2].
  unfold Sylt.Types.Erasure.same_modulo_annotations, Sylt.Types.Erasure.strip in HS. injection HS as _ Hs. exact Hs.
Qed.

(* the verdict is the same too: a cycle in one is a cycle in the other *)
Theorem order_verdict_erase tgt r1 r2 :
  Sylt.Types.Erasure.same_modulo_annotations r1 r2 ->
  ann_deps_ok tgt (r_stmts r1) = true -> ann_deps_ok tgt (r_stmts r2) = true ->
  onf (initialization_order tgt (r_stmts r1)) = onf (initialization_order tgt (r_stmts r2)).
Proof.
  intros HS O1 O2. apply order_same_modulo_annotations. apply aligned_of_ok; [|exact O1|exact O2].
  unfold Sylt.Types.Erasure.same_modulo_annotations, Sylt.Types.Erasure.strip in HS. injection HS as _ Hs. exact Hs.
Qed.
