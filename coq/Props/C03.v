(* C03 -- Type mismatches are rejected at compile time.
   Only pinned statements, `exact`, Examples by vm_compute, and Print Assumptions. *)
From Coq Require Import String List NArith ZArith PArith Bool FMapPositive.
From Sylt Require Import Syntax.Resolved Types.TyGraph Types.Tc Types.Ctx Types.TcInv Types.Reject Types.Mismatch
  Types.CopyInst Types.Calls Types.CallsDecl Types.BlobFields Types.FieldAssign Types.TwoDecls Types.ForwardDecl Types.DeclOrder Types.UnionCons Types.Complete1 Types.TupleArith Types.ConMono.
Import ListNotations.
Local Open Scope string_scope.

(* Placement.  For every mismatch of the listed kinds (bad_expr / bad_stmt: an arithmetic or ordering
   operator on incompatible literal types, == between different types, not / and / or on a non-bool, unary
   minus on a non-number, calling a non-function, calling a function expression with the wrong number of
   arguments, a returned value contradicting the declared return type, a non-bool if / loop condition, a
   heterogeneous list, a value contradicting the declared type of the variable it initialises, a compound
   assignment `x op= x` on a type without that operator) and every one-hole program
   context P (every syntactic position inside the value of any top-level definition, at any depth -
   operand, argument, list / tuple element, blob field initialiser, condition, branch, loop body, function
   and closure body, case arm, unused expression statement - or a top-level definition itself), every fuel
   and every variable table: the type checker does not return Ok. *)
Theorem C03_placement : forall (e : expr) (st : stmt) (P : pctx) (fuel : nat) (vars : list var),
  bad_expr e -> bad_stmt st ->
  typecheck fuel (mkResolved vars (plug_p e st P)) <> Ok tt.
Proof. exact Mismatch.C03_placement. Qed.

(* The same for an expression mismatch in any expression position or as an unused expression statement. *)
Theorem C03_placement_expr : forall e sp P fuel vars,
  bad_expr e -> typecheck fuel (mkResolved vars (plug_p e (SStatementExpression e sp) P)) <> Ok tt.
Proof. exact Mismatch.C03_placement_expr. Qed.

(* Propagation alone, for any filler: if the checker rejects the filler in the TypeCtx it has at the hole
   (in every well-formed state, with every fuel), it rejects the plugged expression / statement. *)
Theorem C03_propagation : forall kinds G (PG : gpres G) he hs f,
  (forall C ctx s, wf s -> at_e (rej_e kinds G he) (rej_s kinds G hs) C ctx ->
                   notok (r_expr (afix kinds G f) (plug_e he hs C) ctx s)) /\
  (forall C ctx s, wf s -> at_s (rej_e kinds G he) (rej_s kinds G hs) C ctx ->
                   notok (r_stmt (afix kinds G f) (plug_s he hs C) ctx s)).
Proof. exact Reject.placement_gen. Qed.

(* No output on error: the model of compile produces Lua only when the type checker returned Ok. *)
Theorem C03_no_output_on_error : forall {L} (lower : resolved -> L) fuel r,
  (forall lua, compile_after_order lower fuel r = COk lua -> typecheck fuel r = Ok tt /\ lua = lower r) /\
  (forall e more, compile_after_order lower fuel r = CErr e more -> typecheck fuel r = Err e more) /\
  (typecheck fuel r <> Ok tt -> forall lua, compile_after_order lower fuel r <> COk lua).
Proof. intros L. exact (@Reject.no_output_on_error L). Qed.

Theorem C03_no_output : forall {L} (lower : resolved -> L) e st P fuel vars,
  bad_expr e -> bad_stmt st ->
  forall lua, compile_after_order lower fuel (mkResolved vars (plug_p e st P)) <> COk lua.
Proof. intros L. exact (@Mismatch.C03_no_output L). Qed.

(* The invariants of the type graph the local rejection lemmas rest on (DESIGN 2.4). *)
Theorem C03_rep_idempotent_in_range : forall s i r,
  wf s -> rep s i = Some r -> rep s r = Some r /\ (r < next s)%positive.
Proof. exact TcInv.rep_idempotent_in_range. Qed.

Theorem C03_reachable_wf : forall fuel kinds stmts start nvars a s',
  (bind (init_vars nvars) (fun _ => solve kinds (gfix fuel) (afix kinds (gfix fuel) fuel) stmts start)) empty_st = Ok (a, s') ->
  wf s'.
Proof. exact TcInv.reachable_wf. Qed.

Theorem C03_push_keeps_classes : forall t s i s',
  wf s -> push_type t s = Ok (i, s') ->
  i = next s /\ (forall j n, lk s j = Some n -> lk s' j = Some n /\ rep s' j = rep s j /\ head s' j = head s j).
Proof. exact TcInv.push_keeps_classes. Qed.

Theorem C03_unify_same_rep : forall g sp a b s r s',
  wf s -> unify (gfix g) sp a b s = Ok (r, s') ->
  wf s' /\ ext s s' /\
  (exists q, rep s' a = Some q /\ rep s' b = Some q) /\
  (exists ha hb, head s a = Some ha /\ head s b = Some hb /\ (rep s a = rep s b \/ unify_compat ha hb)).
Proof. exact TcInv.unify_same_rep. Qed.

(* the occurs check of fn check_not_inside (/repo 1d60c01): a class whose type is still unknown does not unify with a
   tuple that has that class as a component (`y = (y, 1)`).  The operator checks (add / sub / mul / cmp / neg / div)
   recurse over the components of tuples; the only step that turns an unknown class into a tuple is this binding in
   sub_unify, and it is refused when the class is reachable from the tuple through tuple components alone, so the
   recursion of those checks is over a finite tree.  (Lists, blobs and enums may still be cyclic: the checks do not
   descend into them.)  Proved here: the one-step statement.  That no sequence of unifications builds a tuple-only
   cycle is the argument above, not a theorem; in the model such a cycle would show as OutOfFuel, which the
   differential tie never observed (planted kinds cyclic-tuple-...).
   Since /repo 356c2fa the same check guards fn div_res: `/` was the one operator whose constraint solving could GROW a
   type -- an unknown result of dividing a tuple is made a tuple of fresh unknowns and the check retried, and when that
   result is a component of the dividend (`a := (u, 1.0); c := a / 2.0; [u, c]`) every retry nested it one level deeper
   (OutOfFuel in the model, a native stack overflow in the compiler; planted kinds cyclic-tuple-div...). *)
Theorem C03_occurs_check : forall g sp a b s tys c,
  wf s -> head s a = Some HUnknown -> head s b = Some (HTuple tys) ->
  In c tys -> rep s c = rep s a ->
  notok (unify (gfix g) sp a b s).
Proof. exact Mismatch.unify_occurs_rejected. Qed.

Theorem C03_head_stable : forall {A} (m : M A) s a s' i h,
  pres m -> wf s -> m s = Ok (a, s') -> head s i = Some h -> is_unknown h = false ->
  exists h', head s' i = Some h' /\ same_shape h h' = true.
Proof. intros A. exact (@TcInv.head_stable A). Qed.

Theorem C03_every_function_preserves : forall g kinds f,
  gpres (gfix g) /\ apres (afix kinds (gfix g) f).
Proof. intros. split; [apply gfix_pres|apply afix_pres, gfix_pres]. Qed.

(* ---- through calls and variables (monomorphic annotations) *)

(* What every state extension keeps, one level below the shape: the components of a class stay, position by
   position (parameter n / result of a function type, element n of a tuple, element type of a list, field / variant
   k of a blob / enum), in the classes of the components it had; so a component whose type is a leaf (int, float,
   bool, str, void, nil) keeps that type whatever its parent is unified with. *)
Theorem C03_component_keeps_leaf_type : forall s s' i h h' x c c' t,
  ext s s' -> head s i = Some h -> head s' i = Some h' -> kid h x = Some c -> kid h' x = Some c' ->
  head s c = Some t -> rigid t = true -> head s' c' = Some t.
Proof. exact TcInv.kid_keep. Qed.

(* The instantiation fact about fn copy / inner_copy that the call theorems need (next to copy_shape): the
   components of an instance correspond to the components of the original, and a leaf-typed component of the
   original is a component of that very type in the instance.  (Nothing is said about components of other types.) *)
Theorem C03_instance_keeps_leaf_components : forall g a s r s' h x c t,
  wf s -> copy (gfix g) a s = Ok (r, s') ->
  head s a = Some h -> kid h x = Some c -> head s c = Some t -> rigid t = true ->
  exists h' c', head s' r = Some h' /\ kid h' x = Some c' /\ head s' c' = Some t.
Proof. exact CopyInst.copy_leaf_kids. Qed.

(* After the top-level declaration `f :: fn p1: t1, .., pn: tn -> r do .. end` (every parameter and the result
   annotated with a leaf type; the body is arbitrary), any of the following, anywhere inside the value of a later
   top-level definition (any one-hole expression context C: operand, argument, element, field initialiser,
   condition, branch / loop / function / closure body, case arm, unused expression statement), makes the type
   checker not return Ok, for every fuel, variable table and whatever the other statements are:
   - BadCallArg: a call f(.., a, ..) where a is a literal or itself a call of f, of another type than parameter n;
   - BadCallArity: a call of f with another number of arguments than parameters;
   - BadCallOperand: any mismatch kind of bad_expr with literals or calls of f as the operands:
     "a" + f(1), f(1) - "b", f(1) == "a", not f(1), -f(1), f(1) and b, f(1)(2), if f(1) do .., [f(1), "a"]. *)
Theorem C03_calls : forall name v kind dty nm params ps rb tsp body pure fsp dsp e,
  annotated params ps -> (forall n b, nth_error ps n = Some b -> rigid_base b = true) -> rigid_base rb = true ->
  bad_call v ps rb e ->
  forall pre mid post dname dvar dkind dty' (C : ectx) dsp' sp0 fuel vars,
    typecheck fuel (mkResolved vars
      (pre ++ SDefinition name v kind dty (EFunction nm params (TResolved rb tsp) body pure fsp) dsp :: mid ++
       SDefinition dname dvar dkind dty' (plug_e e (SStatementExpression e sp0) C) dsp' :: post)) <> Ok tt.
Proof. exact CallsDecl.C03_calls_rejected. Qed.

(* After `x: t = e` / `x: t : e` with a leaf type t: any mismatch kind of bad_expr with literals or reads of x as
   the operands (x + "a" for x: int, not x, if x do .., [x, "a"]), anywhere inside a later top-level definition. *)
Theorem C03_variable_uses : forall name v kind b tsp value dsp e,
  rigid_base b = true -> bad_expr_g (var_atom v b) e ->
  forall pre mid post dname dvar dkind dty' (C : ectx) dsp' sp0 fuel vars,
    typecheck fuel (mkResolved vars
      (pre ++ SDefinition name v kind (TResolved b tsp) value dsp :: mid ++
       SDefinition dname dvar dkind dty' (plug_e e (SStatementExpression e sp0) C) dsp' :: post)) <> Ok tt.
Proof. exact CallsDecl.C03_var_use_rejected. Qed.

(* The same with a statement filler at statement positions of the context (plug_e e stm C puts e into an expression
   hole and stm into a statement hole): the statement kinds of bad_stmt with literals or calls of f as operands,
   `x: str = f(1)`, `loop f(1) do .. end`. *)
Theorem C03_calls_stmt : forall name v kind dty nm params ps rb tsp body pure fsp dsp e stm,
  annotated params ps -> (forall n b, nth_error ps n = Some b -> rigid_base b = true) -> rigid_base rb = true ->
  bad_call v ps rb e -> bad_stmt_g (call_atom v rb) stm ->
  forall pre mid post dname dvar dkind dty' (C : ectx) dsp' fuel vars,
    typecheck fuel (mkResolved vars
      (pre ++ SDefinition name v kind dty (EFunction nm params (TResolved rb tsp) body pure fsp) dsp :: mid ++
       SDefinition dname dvar dkind dty' (plug_e e stm C) dsp' :: post)) <> Ok tt.
Proof. exact CallsDecl.C03_calls_stmt_rejected. Qed.

Theorem C03_variable_uses_stmt : forall name v kind b tsp value dsp e stm,
  rigid_base b = true -> bad_expr_g (var_atom v b) e -> bad_stmt_g (var_atom v b) stm ->
  forall pre mid post dname dvar dkind dty' (C : ectx) dsp' fuel vars,
    typecheck fuel (mkResolved vars
      (pre ++ SDefinition name v kind (TResolved b tsp) value dsp :: mid ++
       SDefinition dname dvar dkind dty' (plug_e e stm C) dsp' :: post)) <> Ok tt.
Proof. exact CallsDecl.C03_var_use_stmt_rejected. Qed.

(* After the declaration `B :: blob { .., k: t, .. }` (field k declared with the leaf type t), an instantiation
   `B { .., k: lit, .. }` whose initialiser for k is a literal of another type, anywhere inside the value of a later
   top-level definition: the type checker does not return Ok. *)
Theorem C03_blob_field_type : forall name v sp tvars bfields k b pre lit post self isp ta,
  rigid_base b = true -> In k (map fst bfields) ->
  (forall ksp t, In (k, (ksp, t)) bfields -> exists tsp, t = TResolved b tsp) ->
  lit_type lit = Some ta -> rigid ta = true -> base_head b <> ta ->
  let e := EBlob v (pre ++ (k, lit) :: post) self isp in
  forall pre' mid post' dname dvar dkind dty (C : ectx) dsp sp0 fuel vars,
    typecheck fuel (mkResolved vars
      (pre' ++ SBlob name v sp tvars bfields false :: mid ++
       SDefinition dname dvar dkind dty (plug_e e (SStatementExpression e sp0) C) dsp :: post')) <> Ok tt.
Proof. exact BlobFields.C03_blob_field_type_rejected. Qed.

(* After `B :: blob { .., k: t, .. }` (leaf type t) and a later top-level `b := B { .. }` / `b :: B { .. }` (any
   initialisers the checker accepts), an assignment `b.k = lit` with a literal of another type, at any statement
   position (is_shole_e C: the hole of the context is a statement) inside the value of a later top-level definition:
   the type checker does not return Ok.  Two declarations are threaded: the first establishes the field type of B
   (blob_sig), the second, under it, the field type of the class of b (var_field). *)
Theorem C03_field_assign : forall name v sp tvars bfields k b bname bv bkind bdty fields self isp bdsp r1 asp lit asgsp ta,
  rigid_base b = true -> In k (map fst bfields) ->
  (forall ksp t, In (k, (ksp, t)) bfields -> exists tsp, t = TResolved b tsp) ->
  lit_type lit = Some ta -> rigid ta = true -> same_shape ta (base_head b) = false ->
  let stm := SAssignment Nop (EBlobAccess (ERead bv r1) k asp) lit asgsp in
  forall e pre mid1 mid2 post dname dvar dkind dty (C : ectx) dsp fuel vars,
    is_shole_e C = true ->
    typecheck fuel (mkResolved vars
      (pre ++ SBlob name v sp tvars bfields false :: mid1 ++
       SDefinition bname bv bkind bdty (EBlob v fields self isp) bdsp :: mid2 ++
       SDefinition dname dvar dkind dty (plug_e e stm C) dsp :: post)) <> Ok tt.
Proof. exact FieldAssign.C03_field_assign_rejected. Qed.

(* two declarations at once.  After the top-level declarations `f :: fn .. -> r do .. end` and, later,
   `g :: fn .. -> r' do .. end` (all parameters and both results annotated with leaf types), anywhere inside the value
   of a later top-level definition: a call of either with an argument -- a literal, a call of f or a call of g -- of
   another type than the parameter (f(g(1)), g(f(1))), or any mismatch kind of bad_expr with literals and calls of the
   two functions as operands (f(1) + g(2), [f(1), g(2)]), is rejected.  The signature of f is threaded through the
   declaration of g. *)
Theorem C03_two_functions : forall
    name1 v1 kind1 dty1 nm1 params1 ps1 rb1 tsp1 body1 pure1 fsp1 dsp1
    name2 v2 kind2 dty2 nm2 params2 ps2 rb2 tsp2 body2 pure2 fsp2 dsp2 e,
  annotated params1 ps1 -> (forall n b, nth_error ps1 n = Some b -> rigid_base b = true) -> rigid_base rb1 = true ->
  annotated params2 ps2 -> (forall n b, nth_error ps2 n = Some b -> rigid_base b = true) -> rigid_base rb2 = true ->
  bad_call2 v1 ps1 rb1 v2 ps2 rb2 e ->
  forall pre mid1 mid2 post dname dvar dkind dty' (C : ectx) dsp' sp0 fuel vars,
    typecheck fuel (mkResolved vars
      (pre ++ SDefinition name1 v1 kind1 dty1 (EFunction nm1 params1 (TResolved rb1 tsp1) body1 pure1 fsp1) dsp1 :: mid1 ++
       SDefinition name2 v2 kind2 dty2 (EFunction nm2 params2 (TResolved rb2 tsp2) body2 pure2 fsp2) dsp2 :: mid2 ++
       SDefinition dname dvar dkind dty' (plug_e e (SStatementExpression e sp0) C) dsp' :: post)) <> Ok tt.
Proof. exact TwoDecls.C03_two_functions_rejected. Qed.

(* After `B :: blob { .., k: t, .. }` and, later, `f :: fn .. -> r do .. end` (leaf types, r is not t): an instantiation
   `B { .., k: f(..), .. }` anywhere inside the value of a later top-level definition is rejected. *)
Theorem C03_blob_field_call : forall
    bname vb bsp tvars bfields k b
    name v kind dty nm params ps rb tsp body pure fsp dsp
    pre0 sp1 args csp post0 self isp,
  rigid_base b = true -> In k (map fst bfields) ->
  (forall ksp t, In (k, (ksp, t)) bfields -> exists tsp0, t = TResolved b tsp0) ->
  annotated params ps -> (forall n b0, nth_error ps n = Some b0 -> rigid_base b0 = true) -> rigid_base rb = true ->
  base_head b <> base_head rb ->
  let e := EBlob vb (pre0 ++ (k, ECall (ERead v sp1) args csp) :: post0) self isp in
  forall pre mid1 mid2 post dname dvar dkind dty' (C : ectx) dsp' sp0 fuel vars,
    typecheck fuel (mkResolved vars
      (pre ++ SBlob bname vb bsp tvars bfields false :: mid1 ++
       SDefinition name v kind dty (EFunction nm params (TResolved rb tsp) body pure fsp) dsp :: mid2 ++
       SDefinition dname dvar dkind dty' (plug_e e (SStatementExpression e sp0) C) dsp' :: post)) <> Ok tt.
Proof. exact TwoDecls.C03_blob_field_call_rejected. Qed.

(* the general placement theorem for two threaded declarations *)
Theorem C03_after_two_declarations : forall (Inv1 Inv2 : st -> Prop) (d1 d2 : stmt) (e : expr),
  (forall s s', wf s -> ext s s' -> Inv1 s -> Inv1 s') ->
  (forall s s', wf s -> ext s s' -> Inv2 s -> Inv2 s') ->
  (forall kinds g f s u s', wf s -> outer_statement kinds (gfix g) (afix kinds (gfix g) f) d1 ctx_new s = Ok (u, s') -> Inv1 s') ->
  (forall kinds g f s u s', wf s -> Inv1 s -> outer_statement kinds (gfix g) (afix kinds (gfix g) f) d2 ctx_new s = Ok (u, s') -> Inv2 s') ->
  (forall kinds g f ctx s, wf s /\ Inv2 s -> notok (r_expr (afix kinds (gfix g) f) e ctx s)) ->
  forall pre mid1 mid2 post dname dvar dkind dty (C : ectx) dsp sp0 fuel vars,
    typecheck fuel (mkResolved vars
      (pre ++ d1 :: mid1 ++ d2 :: mid2 ++ SDefinition dname dvar dkind dty (plug_e e (SStatementExpression e sp0) C) dsp :: post)) <> Ok tt.
Proof. exact TwoDecls.rejected_after_two. Qed.

(* a blob that mentions another blob, in EITHER declaration order (/repo 3c0758d: solve goes through the type declarations
   once before everything else).  `A :: blob { .., k: B<args>, .. }` (every declaration of field k mentions the blob B), a
   declaration `B :: blob { .. }` ANYWHERE among the top-level statements -- before A, between A and the use, or after the
   use --, and an instance `A { .., k: lit, .. }` with a literal (int, float, str, bool, nil) anywhere inside the value of
   a top-level definition after A: the program is rejected.  Before the fix the order A, B accepted it. *)
Theorem C03_forward_blob_mention : forall
    nameA vA spA tvarsA fieldsA k vB nameB spB tvarsB fieldsB pre0 lit post0 self isp ta,
  In k (map fst fieldsA) ->
  (forall ksp t, In (k, (ksp, t)) fieldsA -> exists targs tsp, t = TUser vB targs tsp) ->
  lit_type lit = Some ta -> rigid ta = true ->
  let dA := SBlob nameA vA spA tvarsA fieldsA false in
  let dB := SBlob nameB vB spB tvarsB fieldsB false in
  let e := EBlob vA (pre0 ++ (k, lit) :: post0)%list self isp in
  forall pre mid post dname dvar dkind dty (C : ectx) dsp sp0 fuel vars,
    let stmts := (pre ++ dA :: mid ++ SDefinition dname dvar dkind dty (plug_e e (SStatementExpression e sp0) C) dsp :: post)%list in
    In dB stmts ->
    typecheck fuel (mkResolved vars stmts) <> Ok tt.
Proof. exact ForwardDecl.C03_forward_blob_mention_rejected. Qed.

(* the three places of B, spelled out *)
Theorem C03_blob_mention_both_orders : forall
    nameA vA spA tvarsA fieldsA k vB nameB spB tvarsB fieldsB pre0 lit post0 self isp ta,
  In k (map fst fieldsA) ->
  (forall ksp t, In (k, (ksp, t)) fieldsA -> exists targs tsp, t = TUser vB targs tsp) ->
  lit_type lit = Some ta -> rigid ta = true ->
  let dA := SBlob nameA vA spA tvarsA fieldsA false in
  let dB := SBlob nameB vB spB tvarsB fieldsB false in
  let e := EBlob vA (pre0 ++ (k, lit) :: post0)%list self isp in
  forall l1 l2 l3 l4 dname dvar dkind dty (C : ectx) dsp sp0 fuel vars,
    let use := SDefinition dname dvar dkind dty (plug_e e (SStatementExpression e sp0) C) dsp in
    typecheck fuel (mkResolved vars (l1 ++ dB :: l2 ++ dA :: l3 ++ use :: l4)) <> Ok tt /\
    typecheck fuel (mkResolved vars (l1 ++ dA :: l2 ++ dB :: l3 ++ use :: l4)) <> Ok tt /\
    typecheck fuel (mkResolved vars (l1 ++ dA :: l2 ++ use :: l3 ++ dB :: l4)) <> Ok tt.
Proof. exact ForwardDecl.C03_blob_mention_both_orders. Qed.

(* the enum analogue: `E :: enum .., V P<args>, .. end`, `P :: blob { .. }` anywhere, `E.V lit` after E: rejected *)
Theorem C03_forward_enum_mention : forall
    nameE vE spE tvarsE variants v vB nameB spB tvarsB fieldsB lit vsp ta,
  In v (map fst variants) ->
  (forall ksp t, In (v, (ksp, t)) variants -> exists targs tsp, t = TUser vB targs tsp) ->
  lit_type lit = Some ta -> rigid ta = true ->
  let dE := SEnum nameE vE spE tvarsE variants in
  let dB := SBlob nameB vB spB tvarsB fieldsB false in
  let e := EVariant vE v lit vsp in
  forall pre mid post dname dvar dkind dty (C : ectx) dsp sp0 fuel vars,
    let stmts := (pre ++ dE :: mid ++ SDefinition dname dvar dkind dty (plug_e e (SStatementExpression e sp0) C) dsp :: post)%list in
    In dB stmts ->
    typecheck fuel (mkResolved vars stmts) <> Ok tt.
Proof. exact ForwardDecl.C03_forward_enum_mention_rejected. Qed.

(* the placement theorem behind them: some statement declares the type variable v0 and every declaration of v0 establishes
   Inv0 (first pass of solve: the type declarations in DeclOrder.type_decl_order, /repo 58eff66); d1 establishes Inv1
   under Inv0 (second pass); e is rejected under Inv1 *)
Theorem C03_after_type_declaration : forall (Inv0 Inv1 : st -> Prop) (v0 : N) (d1 : stmt) (e : expr),
  (forall s s', wf s -> ext s s' -> Inv0 s -> Inv0 s') ->
  (forall s s', wf s -> ext s s' -> Inv1 s -> Inv1 s') ->
  (forall d kinds g f s u s', DeclOrder.decl_var d = Some v0 -> wf s ->
     outer_statement kinds (gfix g) (afix kinds (gfix g) f) d ctx_new s = Ok (u, s') -> Inv0 s') ->
  (forall kinds g f s u s', wf s -> Inv0 s -> outer_statement kinds (gfix g) (afix kinds (gfix g) f) d1 ctx_new s = Ok (u, s') -> Inv1 s') ->
  (forall kinds g f ctx s, wf s /\ Inv1 s -> notok (r_expr (afix kinds (gfix g) f) e ctx s)) ->
  forall pre mid post dname dvar dkind dty (C : ectx) dsp sp0 fuel vars,
    let stmts := (pre ++ d1 :: mid ++ SDefinition dname dvar dkind dty (plug_e e (SStatementExpression e sp0) C) dsp :: post)%list in
    (exists d0, In d0 stmts /\ DeclOrder.decl_var d0 = Some v0) ->
    typecheck fuel (mkResolved vars stmts) <> Ok tt.
Proof. exact ForwardDecl.rejected_after_type_decl. Qed.

(* a component whose type is known keeps a type of that shape in every instance *)
Theorem C03_instance_keeps_known_components : forall g a s r s' h x c t,
  wf s -> copy (gfix g) a s = Ok (r, s') ->
  head s a = Some h -> kid h x = Some c -> head s c = Some t -> is_unknown t = false ->
  exists h' c' t', head s' r = Some h' /\ kid h' x = Some c' /\ head s' c' = Some t' /\ same_shape t t' = true.
Proof. exact CopyInst.copy_known_kids. Qed.

(* fn union keeps the constraints of BOTH classes, whichever root survives (the smaller class is hung under the larger one
   and its constraints are inserted into the surviving root).  A round-5 seed took the constraints before the by-size swap
   and lost those of the smaller class: a deferred `-` on an unknown that is then unified into a larger class was never
   checked. *)
Theorem C03_union_keeps_constraints : forall a b s u s' c,
  wf s -> union a b s = Ok (u, s') -> has_con s a c \/ has_con s b c -> has_con s' a c /\ has_con s' b c.
Proof. exact UnionCons.union_keeps_constraints. Qed.

(* the same for a whole unification: a successful `unify` (fn unify, with all the nested sub_unify, set_type, union and
   re-checks it performs) never drops a constraint -- every constraint recorded on any class before is recorded on that
   class afterwards -- and, a and b being one class then, that class has the constraints of both.  Also for sub_unify
   with a `seen` set, and for the constraint check itself. *)
Theorem C03_unify_keeps_constraints : forall g sp a b s r s',
  wf s -> unify (gfix g) sp a b s = Ok (r, s') -> forall i c, has_con s i c -> has_con s' i c.
Proof. exact ConMono.unify_keeps_constraints. Qed.

Theorem C03_unify_merges_constraints : forall g sp a b s r s' c,
  wf s -> unify (gfix g) sp a b s = Ok (r, s') -> has_con s a c \/ has_con s b c -> has_con s' a c /\ has_con s' b c.
Proof. exact ConMono.unify_merges_constraints. Qed.

Theorem C03_sub_unify_keeps_constraints : forall g sp a b seen s r s',
  wf s -> seen_ok seen s -> g_unify (gfix g) sp a b seen s = Ok (r, s') -> forall i c, has_con s i c -> has_con s' i c.
Proof. exact ConMono.sub_unify_keeps_constraints. Qed.

Theorem C03_check_keeps_constraints : forall g sp a s u s',
  wf s -> g_check (gfix g) sp a s = Ok (u, s') -> forall i c, has_con s i c -> has_con s' i c.
Proof. exact ConMono.check_keeps_constraints. Qed.

Example C03_has_con_def : forall s i c,
  has_con s i c = (exists r n, rep s i = Some r /\ lk s r = Some n /\ In c (ncons n)).
Proof. reflexivity. Qed.

(* the arithmetic of tuples is componentwise WITH THE SAME OPERATOR (fn add / sub / mul / cmp).  `-` of two tuple types
   whose i-th components are both str, or both bool, is rejected; so is `*`; at depth one (C03_tuple_sub_componentwise,
   C03_tuple_mul_componentwise) and under one more tuple level (C03_tuple_arith_nested); while the operator applied to two
   tuples whose components are pairwise fine for THAT operator succeeds and changes nothing (C03_tuple_arith_ok: `+` of
   two (str, int) tuples).  A round-5 seed recursed with `add` in the tuple arm of sub and mul. *)
Theorem C03_tuple_sub_componentwise : forall g sp a b s xs ys i x y t,
  wf s -> head s a = Some (HTuple xs) -> head s b = Some (HTuple ys) ->
  nth_error xs i = Some x -> nth_error ys i = Some y -> head s x = Some t -> head s y = Some t -> t = HStr \/ t = HBool ->
  notok (g_arith (gfix g) ASub sp a b s).
Proof.
  intros g sp a b s xs ys i x y t W Ha Hb Hx Hy Tx Ty Ht. apply TupleArith.tuple1_rejected; [exact W|].
  exists xs, ys, i, x, y. repeat (split; [assumption|]). exists t, t. destruct Ht as [-> | ->]; repeat split; assumption.
Qed.

Theorem C03_tuple_mul_componentwise : forall g sp a b s xs ys i x y t,
  wf s -> head s a = Some (HTuple xs) -> head s b = Some (HTuple ys) ->
  nth_error xs i = Some x -> nth_error ys i = Some y -> head s x = Some t -> head s y = Some t -> t = HStr \/ t = HBool ->
  notok (g_arith (gfix g) AMul sp a b s).
Proof.
  intros g sp a b s xs ys i x y t W Ha Hb Hx Hy Tx Ty Ht. apply TupleArith.tuple1_rejected; [exact W|].
  exists xs, ys, i, x, y. repeat (split; [assumption|]). exists t, t. destruct Ht as [-> | ->]; repeat split; assumption.
Qed.

(* any operator, any pair of leaf types it is not defined on, at depth one and two *)
Theorem C03_tuple_arith_componentwise : forall g k sp a b s, wf s -> tuple1_bad k s a b -> notok (g_arith (gfix g) k sp a b s).
Proof. exact TupleArith.tuple1_rejected. Qed.
Theorem C03_tuple_arith_nested : forall g k sp a b s, wf s -> tuple2_bad k s a b -> notok (g_arith (gfix g) k sp a b s).
Proof. exact TupleArith.tuple2_rejected. Qed.
Theorem C03_tuple_arith_ok : forall g k sp a b s xs ys,
  head s a = Some (HTuple xs) -> head s b = Some (HTuple ys) -> Forall2 (fun x y => arith_ok s k x y) xs ys ->
  g_arith (gfix (S (S g))) k sp a b s = Ok (tt, s).
Proof. exact TupleArith.tuple_arith_ok. Qed.

Example C03_tuple1_bad_def : forall k s a b,
  tuple1_bad k s a b = (exists xs ys i x y, head s a = Some (HTuple xs) /\ head s b = Some (HTuple ys) /\
                          nth_error xs i = Some x /\ nth_error ys i = Some y /\ leaf_bad k s x y).
Proof. reflexivity. Qed.
Example C03_leaf_bad_def : forall k s x y,
  leaf_bad k s x y = (exists t t', head s x = Some t /\ head s y = Some t' /\ rigid t = true /\ rigid t' = true /\ arith_base_ok k t t' = false).
Proof. reflexivity. Qed.
Example C03_arith_ok_def : forall s k a b,
  arith_ok s k a b = (exists ta tb, head s a = Some ta /\ head s b = Some tb /\ arith_base_ok k ta tb = true).
Proof. reflexivity. Qed.

(* two types with components of different leaf types at the same position do not unify *)
Theorem C03_component_conflict : forall g sp a b s ha hb x ca cb ta tb,
  wf s -> head s a = Some ha -> head s b = Some hb -> kid ha x = Some ca -> kid hb x = Some cb ->
  head s ca = Some ta -> rigid ta = true -> head s cb = Some tb -> rigid tb = true -> ta <> tb ->
  notok (unify (gfix g) sp a b s).
Proof. exact BlobFields.unify_kid_conflict. Qed.

(* the local facts behind C03_calls, in any state in which the signature invariant holds *)
Theorem C03_call_value_has_result_type : forall kinds g v ps rb,
  (forall n b, nth_error ps n = Some b -> rigid_base b = true) -> rigid_base rb = true ->
  forall f sp1 args sp ctx s r s',
    wf s -> fn_sig v ps rb s -> r_expr (afix kinds (gfix g) f) (ECall (ERead v sp1) args sp) ctx s = Ok (r, s') ->
    head s' (snd r) = Some (base_head rb).
Proof. exact Calls.call_yields. Qed.

(* ---- non-vacuity: a concrete program `start :: fn do <body> end` *)
Definition sp0 : span := mkSpan 0 1 1 1 2.
Definition spl (l : N) : span := mkSpan 0 l l 1 2.
Definition prog (body : list stmt) : resolved :=
  mkResolved [mkVar 0 "start" sp0 true Const; mkVar 1 "x" (spl 2) false Mutable]
             [SDefinition "start" 0 Const (TImplied sp0)
                          (EFunction "lambda" [] (TResolved BVoid sp0) body false sp0) sp0].

(* accepted: start :: fn do x := 1 + 2; if x > 1 do x = x * 2 end end *)
Example C03_example_accepts :
  typecheck 40 (prog [SDefinition "x" 1 Mutable (TImplied (spl 2)) (EBinOp Add (EInt 1 (spl 2)) (EInt 2 (spl 2)) (spl 2)) (spl 2);
                      SStatementExpression
                        (EIf [IfBranch (Some (EBinOp Greater (ERead 1 (spl 3)) (EInt 1 (spl 3)) (spl 3)))
                                       [SAssignment Nop (ERead 1 (spl 4)) (EBinOp Mul (ERead 1 (spl 4)) (EInt 2 (spl 4)) (spl 4)) (spl 4)]
                                       (spl 3)] (spl 3)) (spl 3)])
  = Ok tt.
Proof. vm_compute. reflexivity. Qed.

(* the hypotheses of the placement theorem are satisfiable, and the rejection is an Err with the expected
   kind and line: 1 + "a" planted in the condition of the `if` inside the function body *)
Example C03_example_bad : bad_expr (EBinOp Add (EInt 1 (spl 3)) (EStr "a" (spl 3)) (spl 3)).
Proof. eapply BadArith with (k := AAdd) (ta := HInt) (tb := HStr); try reflexivity; split; reflexivity. Qed.

Example C03_example_rejects :
  typecheck 40 (prog [SDefinition "x" 1 Mutable (TImplied (spl 2)) (EInt 1 (spl 2)) (spl 2);
                      SStatementExpression
                        (EIf [IfBranch (Some (EBinOp Greater (EBinOp Add (EInt 1 (spl 3)) (EStr "a" (spl 3)) (spl 3))
                                                     (EInt 1 (spl 3)) (spl 3)))
                                       [] (spl 3)] (spl 3)) (spl 3)])
  = Err (mkErr KBinOp (spl 3)) [].
Proof. vm_compute. reflexivity. Qed.

Example C03_example_var_type : bad_stmt (SDefinition "x" 1 Mutable (TResolved BInt (spl 2)) (EStr "a" (spl 2)) (spl 2)).
Proof. eapply BadVarType with (tv := HStr); try reflexivity; split; reflexivity. Qed.

Example C03_example_var_type_rejects :
  typecheck 40 (prog [SDefinition "x" 1 Mutable (TResolved BInt (spl 2)) (EStr "a" (spl 2)) (spl 2)])
  = Err (mkErr KMismatch (spl 2)) [].
Proof. vm_compute. reflexivity. Qed.

(* (fn a: int, b: int do end)(1): wrong arity, as an argument of a call inside a loop *)
Example C03_example_arity : bad_expr (ECall (EFunction "lambda" [("a", 2%N, spl 3, TResolved BInt (spl 3)); ("b", 3%N, spl 3, TResolved BInt (spl 3))]
                                                (TResolved BVoid (spl 3)) [] false (spl 3)) [EInt 1 (spl 3)] (spl 3)).
Proof. apply BadArity. cbn. discriminate. Qed.

(* fn -> int do ret "a" end *)
Example C03_example_ret_type : bad_expr (EFunction "lambda" [] (TResolved BInt (spl 3)) [SRet (Some (EStr "a" (spl 3))) (spl 3)] false (spl 3)).
Proof. eapply BadRetType; reflexivity. Qed.

Example C03_example_ret_type_rejects :
  typecheck 40 (prog [SStatementExpression (EFunction "lambda" [] (TResolved BInt (spl 3)) [SRet (Some (EStr "a" (spl 3))) (spl 3)] false (spl 3)) (spl 3)])
  = Err (mkErr KMismatch (spl 3)) [].
Proof. vm_compute. reflexivity. Qed.

(* do x := true ; x += x end *)
Example C03_example_compound_self :
  bad_stmt (SBlock [SDefinition "x" 1 Mutable (TImplied (spl 2)) (EBool true (spl 2)) (spl 2);
                    SAssignment Add (ERead 1 (spl 3)) (ERead 1 (spl 3)) (spl 3)] (spl 2)).
Proof. eapply BadCompoundSelf with (k := AAdd); try reflexivity. left. auto. Qed.

Example C03_example_compound_self_rejects :
  typecheck 40 (prog [SBlock [SDefinition "x" 1 Mutable (TImplied (spl 2)) (EBool true (spl 2)) (spl 2);
                              SAssignment Add (ERead 1 (spl 3)) (ERead 1 (spl 3)) (spl 3)] (spl 2)])
  = Err (mkErr KBinOp (spl 3)) [].
Proof. vm_compute. reflexivity. Qed.

(* the hypotheses of the unification theorems are satisfiable: two fresh variables unify *)
Example C03_example_unify : exists s r s', wf s /\ unify (gfix 5) sp0 1%positive 2%positive s = Ok (r, s').
Proof.
  assert (E : exists u s, init_vars 2 empty_st = Ok (u, s)) by (vm_compute; eauto).
  destruct E as (u & s & E). exists s.
  assert (W : wf s) by (eapply (pres_init_vars 2); [apply wf_empty|exact E]).
  vm_compute in E. injection E as _ <-. do 2 eexists. split; [exact W|]. vm_compute. reflexivity.
Qed.

(* f :: fn p: int -> int do p end ; start :: fn do <body> end *)
Definition fdecl : stmt :=
  SDefinition "f" 2 Const (TImplied (spl 1))
    (EFunction "lambda" [("p", 3%N, spl 1, TResolved BInt (spl 1))] (TResolved BInt (spl 1))
               [SStatementExpression (ERead 3 (spl 1)) (spl 1)] false (spl 1)) (spl 1).
Definition progf (body : list stmt) : resolved :=
  mkResolved [mkVar 0 "start" sp0 true Const; mkVar 1 "x" (spl 2) false Mutable; mkVar 2 "f" (spl 1) true Const;
              mkVar 3 "p" (spl 1) false Const]
             [fdecl;
              SDefinition "start" 0 Const (TImplied sp0)
                          (EFunction "lambda" [] (TResolved BVoid sp0) body false sp0) sp0].
Definition callf (a : expr) : expr := ECall (ERead 2 (spl 3)) [a] (spl 3).

Example C03_example_call_ok :
  typecheck 60 (progf [SStatementExpression (EBinOp Add (callf (EInt 1 (spl 3))) (EInt 2 (spl 3)) (spl 3)) (spl 3)]) = Ok tt.
Proof. vm_compute. reflexivity. Qed.

(* f("a") *)
Example C03_example_call_arg : bad_call 2 [BInt] BInt (callf (EStr "a" (spl 3))).
Proof.
  eapply BadCallArg with (n := 0%nat) (ta := HStr) (b := BInt); try reflexivity. apply CALit. split; reflexivity.
Qed.
Example C03_example_call_arg_rejects :
  typecheck 60 (progf [SStatementExpression (callf (EStr "a" (spl 3))) (spl 3)]) = Err (mkErr KMismatch (spl 3)) [].
Proof. vm_compute. reflexivity. Qed.

(* "a" + f(1) *)
Example C03_example_call_operand :
  bad_call 2 [BInt] BInt (EBinOp Add (EStr "a" (spl 3)) (callf (EInt 1 (spl 3))) (spl 3)).
Proof.
  apply BadCallOperand. eapply BadArith with (k := AAdd) (ta := HStr) (tb := HInt); try reflexivity.
  - apply CALit. split; reflexivity.
  - apply (CACall 2 BInt).
Qed.
Example C03_example_call_operand_rejects :
  typecheck 60 (progf [SStatementExpression (EBinOp Add (EStr "a" (spl 3)) (callf (EInt 1 (spl 3))) (spl 3)) (spl 3)])
  = Err (mkErr KBinOp (spl 3)) [].
Proof. vm_compute. reflexivity. Qed.

(* the hypotheses of C03_calls about the declaration hold of fdecl *)
Example C03_example_fdecl_annotated : annotated [("p", 3%N, spl 1, TResolved BInt (spl 1))] [BInt].
Proof. constructor; [|constructor]. repeat eexists. Qed.

(* B :: blob { x: int } ; start :: fn do B { x: "a" } end *)
Definition progb (body : list stmt) : resolved :=
  mkResolved [mkVar 0 "start" sp0 true Const; mkVar 1 "B" (spl 1) true Const; mkVar 2 "self" (spl 3) false Const]
             [SBlob "B" 1 (spl 1) [] [("x", (spl 1, TResolved BInt (spl 1)))] false;
              SDefinition "start" 0 Const (TImplied sp0)
                          (EFunction "lambda" [] (TResolved BVoid sp0) body false sp0) sp0].
Example C03_example_blob_field_ok :
  typecheck 60 (progb [SStatementExpression (EBlob 1 [("x", EInt 1 (spl 3))] 2 (spl 3)) (spl 3)]) = Ok tt.
Proof. vm_compute. reflexivity. Qed.
Example C03_example_blob_field_rejects :
  typecheck 60 (progb [SStatementExpression (EBlob 1 [("x", EStr "a" (spl 3))] 2 (spl 3)) (spl 3)])
  = Err (mkErr KMismatch (spl 3)) [].
Proof. vm_compute. reflexivity. Qed.

(* B :: blob { x: int } ; b := B { x: 1 } ; start :: fn do b.x = "a" end *)
Definition progba (body : list stmt) : resolved :=
  mkResolved [mkVar 0 "start" sp0 true Const; mkVar 1 "B" (spl 1) true Const; mkVar 2 "self" (spl 2) false Const;
              mkVar 3 "b" (spl 2) true Mutable]
             [SBlob "B" 1 (spl 1) [] [("x", (spl 1, TResolved BInt (spl 1)))] false;
              SDefinition "b" 3 Mutable (TImplied (spl 2)) (EBlob 1 [("x", EInt 1 (spl 2))] 2 (spl 2)) (spl 2);
              SDefinition "start" 0 Const (TImplied sp0)
                          (EFunction "lambda" [] (TResolved BVoid sp0) body false sp0) sp0].
Example C03_example_field_assign_ok :
  typecheck 60 (progba [SAssignment Nop (EBlobAccess (ERead 3 (spl 3)) "x" (spl 3)) (EInt 2 (spl 3)) (spl 3)]) = Ok tt.
Proof. vm_compute. reflexivity. Qed.
Example C03_example_field_assign_rejects :
  typecheck 60 (progba [SAssignment Nop (EBlobAccess (ERead 3 (spl 3)) "x" (spl 3)) (EStr "a" (spl 3)) (spl 3)])
  = Err (mkErr KMismatch (spl 3)) [].
Proof. vm_compute. reflexivity. Qed.

(* f :: fn p: int -> int do p end ; g :: fn q: int -> str do "s" end ; start :: fn do <body> end *)
Definition gdecl : stmt :=
  SDefinition "g" 4 Const (TImplied (spl 2))
    (EFunction "lambda" [("q", 5%N, spl 2, TResolved BInt (spl 2))] (TResolved BStr (spl 2))
               [SStatementExpression (EStr "s" (spl 2)) (spl 2)] false (spl 2)) (spl 2).
Definition progfg (body : list stmt) : resolved :=
  mkResolved [mkVar 0 "start" sp0 true Const; mkVar 1 "x" (spl 2) false Mutable; mkVar 2 "f" (spl 1) true Const;
              mkVar 3 "p" (spl 1) false Const; mkVar 4 "g" (spl 2) true Const; mkVar 5 "q" (spl 2) false Const]
             [fdecl; gdecl;
              SDefinition "start" 0 Const (TImplied sp0)
                          (EFunction "lambda" [] (TResolved BVoid sp0) body false sp0) sp0].
Definition callg (a : expr) : expr := ECall (ERead 4 (spl 3)) [a] (spl 3).

(* g(f(1)) is accepted, f(g(1)) is a bad_call2 and is rejected *)
Example C03_example_two_functions_ok :
  typecheck 60 (progfg [SStatementExpression (callg (callf (EInt 1 (spl 3)))) (spl 3)]) = Ok tt.
Proof. vm_compute. reflexivity. Qed.
Example C03_example_two_functions_bad : bad_call2 2 [BInt] BInt 4 [BInt] BStr (callf (callg (EInt 1 (spl 3)))).
Proof. eapply Bad2Arg1 with (n := 0%nat) (ta := HStr) (b := BInt); try reflexivity. apply (A2Call2 2 BInt 4 BStr). Qed.
Example C03_example_two_functions_rejects :
  typecheck 60 (progfg [SStatementExpression (callf (callg (EInt 1 (spl 3)))) (spl 3)]) = Err (mkErr KMismatch (spl 3)) [].
Proof. vm_compute. reflexivity. Qed.
(* f(1) + g(2) *)
Example C03_example_two_functions_operands :
  bad_call2 2 [BInt] BInt 4 [BInt] BStr (EBinOp Add (callf (EInt 1 (spl 3))) (callg (EInt 2 (spl 3))) (spl 3)).
Proof.
  apply Bad2Operand. eapply BadArith with (k := AAdd) (ta := HInt) (tb := HStr); try reflexivity.
  - apply (A2Call1 2 BInt 4 BStr).
  - apply (A2Call2 2 BInt 4 BStr).
Qed.
Example C03_example_two_functions_operands_rejects :
  typecheck 60 (progfg [SStatementExpression (EBinOp Add (callf (EInt 1 (spl 3))) (callg (EInt 2 (spl 3))) (spl 3)) (spl 3)])
  = Err (mkErr KBinOp (spl 3)) [].
Proof. vm_compute. reflexivity. Qed.

(* B :: blob { x: int } ; g :: fn q: int -> str ; f :: fn p: int -> int ; start :: fn do B { x: g(1) } end *)
Definition progbg (body : list stmt) : resolved :=
  mkResolved [mkVar 0 "start" sp0 true Const; mkVar 1 "B" (spl 1) true Const; mkVar 2 "f" (spl 1) true Const;
              mkVar 3 "p" (spl 1) false Const; mkVar 4 "g" (spl 2) true Const; mkVar 5 "q" (spl 2) false Const;
              mkVar 6 "self" (spl 3) false Const]
             [SBlob "B" 1 (spl 1) [] [("x", (spl 1, TResolved BInt (spl 1)))] false; fdecl; gdecl;
              SDefinition "start" 0 Const (TImplied sp0)
                          (EFunction "lambda" [] (TResolved BVoid sp0) body false sp0) sp0].
Example C03_example_blob_field_call_ok :
  typecheck 60 (progbg [SStatementExpression (EBlob 1 [("x", callf (EInt 1 (spl 3)))] 6 (spl 3)) (spl 3)]) = Ok tt.
Proof. vm_compute. reflexivity. Qed.
Example C03_example_blob_field_call_rejects :
  typecheck 60 (progbg [SStatementExpression (EBlob 1 [("x", callg (EInt 1 (spl 3)))] 6 (spl 3)) (spl 3)])
  = Err (mkErr KMismatch (spl 3)) [].
Proof. vm_compute. reflexivity. Qed.

(* A :: blob { b: B } ; B :: blob { x: int } ; start :: fn do A { b: 1 } end -- in both orders, and the well-typed control *)
Definition declA : stmt := SBlob "A" 1 (spl 1) [] [("b", (spl 1, TUser 2 [] (spl 1)))] false.
Definition declB : stmt := SBlob "B" 2 (spl 2) [] [("x", (spl 2, TResolved BInt (spl 2)))] false.
Definition prog_mention (decls : list stmt) (body : list stmt) : resolved :=
  mkResolved [mkVar 0 "start" sp0 true Const; mkVar 1 "A" (spl 1) true Const; mkVar 2 "B" (spl 2) true Const;
              mkVar 3 "self" (spl 3) false Const; mkVar 4 "self" (spl 3) false Const]
             (decls ++ [SDefinition "start" 0 Const (TImplied sp0)
                          (EFunction "lambda" [] (TResolved BVoid sp0) body false sp0) sp0]).
Definition bad_inst : list stmt := [SStatementExpression (EBlob 1 [("b", EInt 1 (spl 3))] 3 (spl 3)) (spl 3)].
Definition good_inst : list stmt :=
  [SStatementExpression (EBlob 1 [("b", EBlob 2 [("x", EInt 1 (spl 3))] 4 (spl 3))] 3 (spl 3)) (spl 3)].
Example C03_example_forward_mention_hyps :
  In "b" (map fst [("b", (spl 1, TUser 2 [] (spl 1)))]) /\
  (forall ksp t, In ("b", (ksp, t)) [("b", (spl 1, TUser 2 [] (spl 1)))] -> exists targs tsp, t = TUser 2 targs tsp) /\
  lit_type (EInt 1 (spl 3)) = Some HInt /\ rigid HInt = true /\ is_type_decl declB = true.
Proof.
  split; [now left|]. split; [|repeat split].
  intros ksp t [H|[]]. injection H as _ <-. eauto.
Qed.
Example C03_example_forward_mention_rejects :
  typecheck 60 (prog_mention [declA; declB] bad_inst) = Err (mkErr KMismatch (spl 3)) [] /\
  typecheck 60 (prog_mention [declB; declA] bad_inst) = Err (mkErr KMismatch (spl 3)) [].
Proof. split; vm_compute; reflexivity. Qed.
Example C03_example_forward_mention_ok :
  typecheck 60 (prog_mention [declA; declB] good_inst) = Ok tt /\ typecheck 60 (prog_mention [declB; declA] good_inst) = Ok tt.
Proof. split; vm_compute; reflexivity. Qed.

(* the smaller class carries the constraint: x (one node, constraint Neg) is united into the class of y and z (two nodes):
   the root of y survives and has the constraint; the same with the arguments the other way round *)
Definition union_example (swap : bool) : list constr * (tyid * tyid) :=
  match (x <- push_type HUnknown ;; add_constraint x CNeg ;;; y <- push_type HUnknown ;; z <- push_type HUnknown ;;
         union y z ;;; (if swap then union x y else union y x) ;;; n <- find_node x ;; ry <- find y ;; ret (ncons n, (nrep n, ry)))%tc empty_st with
  | Ok (r, _) => r | _ => ([], (1%positive, 1%positive)) end.
Example C03_example_union_keeps_constraints :
  union_example false = ([CNeg], (2%positive, 2%positive)) /\ union_example true = ([CNeg], (2%positive, 2%positive)).
Proof. split; vm_compute; reflexivity. Qed.

(* ("a", 1) + ("b", 2) is accepted; ("a", 1) - ("b", 2), ("a", 1) * ("b", 2), (1, true) - (2, false) and the nested
   ((1, "a"), 1) - ((2, "b"), 2) are rejected *)
Definition tup (l : list expr) : expr := ECollection CTuple l (spl 3).
Definition tup_prog (op : binop) (a b : expr) : resolved := prog [SStatementExpression (EBinOp op a b (spl 3)) (spl 3)].
Example C03_example_tuple_componentwise :
  typecheck 60 (tup_prog Add (tup [EStr "a" (spl 3); EInt 1 (spl 3)]) (tup [EStr "b" (spl 3); EInt 2 (spl 3)])) = Ok tt /\
  typecheck 60 (tup_prog Sub (tup [EStr "a" (spl 3); EInt 1 (spl 3)]) (tup [EStr "b" (spl 3); EInt 2 (spl 3)])) = Err (mkErr KBinOp (spl 3)) [] /\
  typecheck 60 (tup_prog Mul (tup [EStr "a" (spl 3); EInt 1 (spl 3)]) (tup [EStr "b" (spl 3); EInt 2 (spl 3)])) = Err (mkErr KBinOp (spl 3)) [] /\
  typecheck 60 (tup_prog Sub (tup [EInt 1 (spl 3); EBool true (spl 3)]) (tup [EInt 2 (spl 3); EBool false (spl 3)])) = Err (mkErr KBinOp (spl 3)) [] /\
  typecheck 60 (tup_prog Sub (tup [tup [EInt 1 (spl 3); EStr "a" (spl 3)]; EInt 1 (spl 3)])
                             (tup [tup [EInt 2 (spl 3); EStr "b" (spl 3)]; EInt 2 (spl 3)])) = Err (mkErr KBinOp (spl 3)) [].
Proof. repeat split; vm_compute; reflexivity. Qed.

Print Assumptions C03_placement.
Print Assumptions C03_tuple_sub_componentwise.
Print Assumptions C03_tuple_mul_componentwise.
Print Assumptions C03_tuple_arith_componentwise.
Print Assumptions C03_tuple_arith_nested.
Print Assumptions C03_tuple_arith_ok.
Print Assumptions C03_union_keeps_constraints.
Print Assumptions C03_unify_keeps_constraints.
Print Assumptions C03_unify_merges_constraints.
Print Assumptions C03_sub_unify_keeps_constraints.
Print Assumptions C03_check_keeps_constraints.
Print Assumptions C03_forward_blob_mention.
Print Assumptions C03_blob_mention_both_orders.
Print Assumptions C03_forward_enum_mention.
Print Assumptions C03_after_type_declaration.
Print Assumptions C03_instance_keeps_known_components.
Print Assumptions C03_two_functions.
Print Assumptions C03_blob_field_call.
Print Assumptions C03_after_two_declarations.
Print Assumptions C03_field_assign.
Print Assumptions C03_blob_field_type.
Print Assumptions C03_component_conflict.
Print Assumptions C03_component_keeps_leaf_type.
Print Assumptions C03_instance_keeps_leaf_components.
Print Assumptions C03_calls.
Print Assumptions C03_variable_uses.
Print Assumptions C03_calls_stmt.
Print Assumptions C03_variable_uses_stmt.
Print Assumptions C03_call_value_has_result_type.
Print Assumptions C03_placement_expr.
Print Assumptions C03_propagation.
Print Assumptions C03_no_output_on_error.
Print Assumptions C03_no_output.
Print Assumptions C03_rep_idempotent_in_range.
Print Assumptions C03_reachable_wf.
Print Assumptions C03_push_keeps_classes.
Print Assumptions C03_unify_same_rep.
Print Assumptions C03_head_stable.
Print Assumptions C03_occurs_check.
Print Assumptions C03_every_function_preserves.

(* ---- source tie: the hand-written model behind these theorems mirrors the files below; the digests of their
   functions regenerated from /repo on this run equal the reviewed ones (coq/Doc/DocSrcDigest.v).  Any edit of
   such a function breaks this obligation: the differential tie and the oracle then decide (tools/check.py). *)
From Sylt Require Doc.SrcDigest Doc.DocSrcDigest Gen.GenSrcDigest.
Theorem C03_model_sources_reviewed :
  Sylt.Doc.SrcDigest.sources_reviewed ["sylt-compiler/src/typechecker.rs"%string; "sylt-compiler/src/ty.rs"%string]
    Sylt.Doc.DocSrcDigest.doc_src_digests Sylt.Gen.GenSrcDigest.src_digests = true.
Proof. vm_compute. reflexivity. Qed.
Print Assumptions C03_model_sources_reviewed.
