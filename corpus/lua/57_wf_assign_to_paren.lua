-- expect-wf: bad cannot assign
local a
(a) = 1
