-- expect: false	true	true
-- expect[jit]: -1	1	0.5	-0.25
-- expect[5.3]: -1.0	1.0	0.5	-0.25
-- expect: xyz	true	a3
-- expect[jit]: true	7	9	-4	1
-- expect[5.3]: true	7	9	-4	1.0
-- expect: false	false	false	1
-- expect[jit]: 4	-3	6	2c	8
-- expect[5.3]: 4	-3	6	2c	8.0
-- expect: true	true	true
-- expect: true	false
-- expect[jit]: 2	5	2	64	256
-- expect[5.3]: 2	5	2	64.0	256.0
-- expect: 1	true	true
-- expect[jit]: 1	8	2	1
-- expect[5.3]: 1	8.0	2.0	1
-- expect: 123	123	true
local a, b, c = 1, 2, 3
print(not a == b, not (a == b), not not a)
print(-a ^ 2, (-a) ^ 2, 2 ^ -1, -2 ^ -2)
print("x" .. "y" .. "z", 1 .. 2 == "12", "a" .. 1 + 2)
print(a < b == true, a + b * c, (a + b) * c, a - b - c, a / b / c * 6)
print(false or true and false, (false or true) and false, nil or false and 1, 1 or nil and nil)
local t = {1, 2, 3}
print(#t + 1, -#t, #t * 2, #"ab" .. "c", 2 ^ #t)
print(1 + 2 < 4, 1 .. 2 < "13", "a" < "b" == ("b" > "a"))
print(a == 1 and b == 2 or c == 4, a ~= 1 or b ~= 2)
print(2 * 3 % 4, 2 + 3 % 4, -3 % 5, (2 ^ 2) ^ 3, 2 ^ 2 ^ 3)
print(not nil and 1, not (nil and 1), 1 and not nil)
print(5 - 3 - 1, 2 ^ 3 ^ 1, 100 / 10 / 5, 7 % 4 % 2)
print(1 .. 2 .. 3, (1 .. 2) .. 3, "a" .. "b" == "ab" == true)
