// Correspondence harness: runs the real sylt crates (path deps on /repo) on case files and prints
// one canonical line per case.  Strings travel hex-encoded so that every byte survives.
//
//   verif-harness lex     CASES      line = hex(source)
//   verif-harness expr    CASES      line = hex(source)          (public `expression` entry point)
//   verif-harness stmt    CASES      line = hex(source)          (public `statement` entry point)
//   verif-harness compile CASES      line = FLAGS \t MAIN \t PATH=hex(src) \t PATH=hex(src) ...
//                                    FLAGS: comma list of std|nostd, require=<hex>, render, tree
//   verif-harness compileb CASES     like compile; an error line is `ERR bytes=<n written before the error> <errors>`
//   verif-harness phases  CASES      like compile; prints Debug dumps of vars/resolved/ordered/ir/usage (hex)
//   verif-harness tree    CASES      like compile; prints the parsed modules (sylt_parser::tree) as S-expressions with spans
//   verif-harness treef   CASES      like tree, full detail: spans are @file_id:line_start:line_end:col_start:col_end,
//                                    if-branches carry their span, functions their name (hex)
//   verif-harness repeat N CASES     like compile, each case compiled N times in-process; prints a digest line
//
// Options (before the subcommand): --skip K (skip the first K cases), --timeout SECS (per case watchdog).
use std::collections::HashMap;
use std::io::Write;
use std::path::{Path, PathBuf};
use std::sync::atomic::{AtomicU64, Ordering};
use std::sync::Arc;
use std::time::{SystemTime, UNIX_EPOCH};

use sylt_common::error::{Error, TypeError};
use sylt_common::FileOrLib;

mod sexp;

fn hex(s: &[u8]) -> String {
    if s.is_empty() {
        return "-".to_string();
    }
    let mut o = String::with_capacity(s.len() * 2);
    for b in s {
        o.push_str(&format!("{:02x}", b));
    }
    o
}

fn unhex(s: &str) -> Vec<u8> {
    if s == "-" {
        return Vec::new();
    }
    let b = s.as_bytes();
    let mut o = Vec::with_capacity(b.len() / 2);
    let v = |c: u8| -> u8 {
        match c {
            b'0'..=b'9' => c - b'0',
            b'a'..=b'f' => c - b'a' + 10,
            b'A'..=b'F' => c - b'A' + 10,
            _ => panic!("bad hex"),
        }
    };
    let mut i = 0;
    while i + 1 < b.len() {
        o.push(v(b[i]) * 16 + v(b[i + 1]));
        i += 2;
    }
    o
}

fn unhex_str(s: &str) -> String {
    String::from_utf8(unhex(s)).expect("case is not utf-8")
}

fn now_ms() -> u64 {
    SystemTime::now().duration_since(UNIX_EPOCH).unwrap().as_millis() as u64
}

thread_local! {
    /// scratch directory of the current `disk` case: stripped from reported file names
    static DISK_PREFIX: std::cell::RefCell<Option<String>> = std::cell::RefCell::new(None);
}
static DISK_COUNTER: std::sync::atomic::AtomicUsize = std::sync::atomic::AtomicUsize::new(0);

/// message texts may quote paths: remove the scratch prefix of a `disk` case everywhere
fn clean(s: &str) -> String {
    DISK_PREFIX.with(|p| match &*p.borrow() {
        Some(pre) => s.replace(pre.as_str(), ""),
        None => s.to_string(),
    })
}

fn strip_disk_prefix(s: String) -> String {
    DISK_PREFIX.with(|p| match &*p.borrow() {
        Some(pre) if s.starts_with(pre.as_str()) => s[pre.len()..].to_string(),
        _ => s,
    })
}

fn file_name(f: &FileOrLib) -> String {
    match f {
        FileOrLib::File(p) => strip_disk_prefix(p.display().to_string()),
        FileOrLib::Lib(l) => format!("lib:{}", l),
    }
}

fn type_error_kind(k: &TypeError) -> &'static str {
    match k {
        TypeError::Exotic => "Exotic",
        TypeError::ToDo { .. } => "ToDo",
        TypeError::Violating(_) => "Violating",
        TypeError::BinOp { .. } => "BinOp",
        TypeError::UniOp { .. } => "UniOp",
        TypeError::Mismatch { .. } => "Mismatch",
        TypeError::MismatchAssign { .. } => "MismatchAssign",
        TypeError::Assignability => "Assignability",
        TypeError::ExcessiveForce { .. } => "ExcessiveForce",
        TypeError::NamespaceNotExpression => "NamespaceNotExpression",
        TypeError::WrongArity { .. } => "WrongArity",
        TypeError::UnknownField { .. } => "UnknownField",
        TypeError::MissingField { .. } => "MissingField",
        TypeError::ExternBlobInstance { .. } => "ExternBlobInstance",
        TypeError::TupleIndexOutOfRange { .. } => "TupleIndexOutOfRange",
        TypeError::TupleLengthMismatch { .. } => "TupleLengthMismatch",
        TypeError::UnresolvedName(_) => "UnresolvedName",
        TypeError::WrongConstraintArity { .. } => "WrongConstraintArity",
        TypeError::UnknownConstraint(_) => "UnknownConstraint",
        TypeError::UnknownConstraintArgument(_) => "UnknownConstraintArgument",
        TypeError::UnknownVariant(_, _) => "UnknownVariant",
        TypeError::MissingVariants(_, _) => "MissingVariants",
        TypeError::ExtraVariants(_, _) => "ExtraVariants",
        TypeError::ExpectVoid(_) => "ExpectVoid",
        TypeError::Impurity => "Impurity",
    }
}

/// kind|file|line|col_start|col_end|hex(message or "")
fn error_line(e: &Error) -> String {
    match e {
        Error::NoFileGiven => "NoFile|-|0|0|0|-".to_string(),
        Error::FileNotFound(p) => format!("FileNotFound|{}|0|0|0|-", strip_disk_prefix(p.display().to_string())),
        Error::IOError(_) => "IO|-|0|0|0|-".to_string(),
        Error::GitConflictError { file, span } => format!(
            "GitConflict|{}|{}|{}|{}|-",
            file_name(file),
            span.line_start,
            span.col_start,
            span.col_end
        ),
        Error::SyntaxError { file, span, message } => format!(
            "Syntax|{}|{}|{}|{}|{}",
            file_name(file),
            span.line_start,
            span.col_start,
            span.col_end,
            hex(clean(message).as_bytes())
        ),
        Error::CompileError { file, span, message, .. } => format!(
            "Compile|{}|{}|{}|{}|{}",
            file_name(file),
            span.line_start,
            span.col_start,
            span.col_end,
            hex(clean(&message.clone().unwrap_or_default()).as_bytes())
        ),
        Error::TypeError { kind, file, span, message, .. } => format!(
            "Type:{}|{}|{}|{}|{}|{}",
            type_error_kind(kind),
            file_name(file),
            span.line_start,
            span.col_start,
            span.col_end,
            hex(clean(&message.clone().unwrap_or_default()).as_bytes())
        ),
        Error::RuntimeError => "Runtime|-|0|0|0|-".to_string(),
        Error::LuaError(s) => format!("Lua|-|0|0|0|{}", hex(s.as_bytes())),
    }
}

fn panic_message(p: Box<dyn std::any::Any + Send>) -> String {
    if let Some(s) = p.downcast_ref::<&str>() {
        s.to_string()
    } else if let Some(s) = p.downcast_ref::<String>() {
        s.clone()
    } else {
        "<non-string panic>".to_string()
    }
}

fn token_line(src: &str) -> String {
    use sylt_tokenizer::{string_to_tokens, Token};
    let toks = string_to_tokens(0, src);
    let mut out = String::from("T");
    for t in toks.iter() {
        let (kind, payload): (String, String) = match &t.token {
            Token::Identifier(s) => ("Identifier".into(), hex(s.as_bytes())),
            Token::String(s) => ("String".into(), hex(s.as_bytes())),
            Token::Comment(s) => ("Comment".into(), hex(s.as_bytes())),
            Token::Float(f) => ("Float".into(), hex(format!("{:?}", f).as_bytes())),
            Token::Int(i) => ("Int".into(), hex(format!("{}", i).as_bytes())),
            Token::Bool(b) => ("Bool".into(), hex(format!("{}", b).as_bytes())),
            other => (format!("{:?}", other), "-".into()),
        };
        out.push_str(&format!(
            " {}/{}/{}/{}/{}/{}",
            kind, payload, t.span.line_start, t.span.line_end, t.span.col_start, t.span.col_end
        ));
    }
    out
}

/// The in-memory file map stands for a file system: `./a.sy`, `a.sy` and `x/../a.sy` name the same file
/// (the compiler itself compares the paths it builds literally).
fn lookup_file(files: &HashMap<PathBuf, String>, p: &Path) -> Option<String> {
    if let Some(s) = files.get(p) {
        return Some(s.clone());
    }
    fn norm(p: &Path) -> PathBuf {
        let mut out: Vec<std::ffi::OsString> = Vec::new();
        let mut root = false;
        for c in p.components() {
            match c {
                std::path::Component::RootDir => root = true,
                std::path::Component::CurDir => {}
                std::path::Component::ParentDir => {
                    if out.pop().is_none() && !root {
                        out.push("..".into());
                    }
                }
                std::path::Component::Normal(x) => out.push(x.to_os_string()),
                std::path::Component::Prefix(_) => {}
            }
        }
        let mut r = if root { PathBuf::from("/") } else { PathBuf::new() };
        for x in out {
            r.push(x);
        }
        r
    }
    let want = norm(p);
    for (k, v) in files.iter() {
        if norm(k) == want {
            return Some(v.clone());
        }
    }
    None
}

struct CompileCase {
    std: bool,
    require: Option<String>,
    render: bool,
    /// flag `disk`: the files are also written below a scratch directory ($VERIF_SCRATCH or the system
    /// temp dir) and compiled under those paths, so that rendering an error can show the source lines
    disk: Option<PathBuf>,
    main: String,
    files: HashMap<PathBuf, String>,
}

fn parse_compile_case(line: &str) -> CompileCase {
    let mut it = line.split('\t');
    let flags = it.next().unwrap_or("");
    let main = it.next().expect("missing main").to_string();
    let mut std = false;
    let mut require = None;
    let mut render = false;
    let mut disk = false;
    for f in flags.split(',') {
        if f == "disk" {
            disk = true;
        } else if f == "std" {
            std = true;
        } else if f == "nostd" {
            std = false;
        } else if f == "render" {
            render = true;
        } else if let Some(r) = f.strip_prefix("require=") {
            require = Some(unhex_str(r));
        }
    }
    let mut files = HashMap::new();
    for f in it {
        if f.is_empty() {
            continue;
        }
        let eq = f.find('=').expect("file entry needs =");
        files.insert(PathBuf::from(&f[..eq]), unhex_str(&f[eq + 1..]));
    }
    if disk {
        let base = std::env::var("VERIF_SCRATCH").map(PathBuf::from).unwrap_or_else(|_| std::env::temp_dir());
        let n = DISK_COUNTER.fetch_add(1, std::sync::atomic::Ordering::SeqCst);
        let dir = base.join(format!("hd-{}-{}", std::process::id(), n));
        let pre = dir.display().to_string();
        let mut moved = HashMap::new();
        for (p, src) in files.into_iter() {
            let q = PathBuf::from(format!("{}{}", pre, p.display()));
            if let Some(parent) = q.parent() {
                let _ = std::fs::create_dir_all(parent);
            }
            let _ = std::fs::write(&q, src.as_bytes());
            moved.insert(q, src);
        }
        let main = format!("{}{}", pre, main);
        DISK_PREFIX.with(|p| *p.borrow_mut() = Some(pre));
        return CompileCase { std, require, render, disk: Some(dir), main, files: moved };
    }
    DISK_PREFIX.with(|p| *p.borrow_mut() = None);
    CompileCase { std, require, render, disk: None, main, files }
}

impl Drop for CompileCase {
    fn drop(&mut self) {
        if let Some(d) = &self.disk {
            let _ = std::fs::remove_dir_all(d);
        }
    }
}

fn compile_once(c: &CompileCase) -> Result<Vec<u8>, Vec<Error>> {
    let files = &c.files;
    let reader = |p: &Path| -> Result<String, Error> {
        lookup_file(files, p).ok_or_else(|| Error::FileNotFound(p.to_path_buf()))
    };
    let tree = sylt_parser::tree(Path::new(&c.main), reader, c.std)?;
    let mut buf: Vec<u8> = Vec::new();
    sylt_compiler::compile(&mut buf, tree, c.require.as_ref())?;
    Ok(buf)
}

/// Like `compile`, but an error line also reports how many bytes had been written to the output
/// when the error was returned: `ERR bytes=<n> <errors...>` (C03: no Lua is produced on rejection).
fn compile_bytes_line(c: &CompileCase) -> String {
    let mut buf: Vec<u8> = Vec::new();
    let r = std::panic::catch_unwind(std::panic::AssertUnwindSafe(|| -> Result<(), Vec<Error>> {
        let files = &c.files;
        let reader = |p: &Path| -> Result<String, Error> {
            lookup_file(files, p).ok_or_else(|| Error::FileNotFound(p.to_path_buf()))
        };
        let tree = sylt_parser::tree(Path::new(&c.main), reader, c.std)?;
        sylt_compiler::compile(&mut buf, tree, c.require.as_ref())
    }));
    match r {
        Err(p) => format!("PANIC {}", hex(panic_message(p).as_bytes())),
        Ok(Ok(())) => format!("OK {}", hex(&buf)),
        Ok(Err(errs)) => {
            let mut out = format!("ERR bytes={}", buf.len());
            if errs.is_empty() {
                out.push_str(" EMPTY");
            }
            for e in errs.iter() {
                out.push(' ');
                out.push_str(&error_line(e));
            }
            out
        }
    }
}

fn compile_line(c: &CompileCase) -> String {
    let r = std::panic::catch_unwind(std::panic::AssertUnwindSafe(|| compile_once(c)));
    match r {
        Err(p) => format!("PANIC {}", hex(panic_message(p).as_bytes())),
        Ok(Ok(buf)) => format!("OK {}", hex(&buf)),
        Ok(Err(errs)) => {
            let mut out = String::from("ERR");
            if errs.is_empty() {
                out.push_str(" EMPTY");
            }
            for e in errs.iter() {
                out.push(' ');
                out.push_str(&error_line(e));
                if c.render {
                    let rr = std::panic::catch_unwind(std::panic::AssertUnwindSafe(|| format!("{}", e)));
                    match rr {
                        Ok(s) => {
                            // the scratch prefix of a `disk` case differs between runs: not part of the result
                            let s = DISK_PREFIX.with(|p| match &*p.borrow() {
                                Some(pre) => s.replace(pre.as_str(), ""),
                                None => s,
                            });
                            out.push_str(&format!("|R{}", s.len()))
                        }
                        Err(p) => out.push_str(&format!("|RENDERPANIC:{}", hex(panic_message(p).as_bytes()))),
                    }
                }
            }
            out
        }
    }
}

/// All intermediate results of the pipeline (needs the cfg-guarded hook in sylt-compiler).
#[cfg(sylt_lang_sylt_lang_verif)]
fn phases_line(c: &CompileCase) -> String {
    let r = std::panic::catch_unwind(std::panic::AssertUnwindSafe(|| {
        let files = &c.files;
        let reader = |p: &Path| -> Result<String, Error> {
            lookup_file(files, p).ok_or_else(|| Error::FileNotFound(p.to_path_buf()))
        };
        let tree = match sylt_parser::tree(Path::new(&c.main), reader, c.std) {
            Ok(t) => t,
            Err(errs) => {
                return format!(
                    "PH parse ERR{}",
                    errs.iter().map(|e| format!(" {}", error_line(e))).collect::<String>()
                )
            }
        };
        let (dumps, res) = sylt_compiler::verif::phases(tree);
        let mut out = String::from("PH");
        for (name, d) in dumps.iter() {
            out.push_str(&format!(" {}={}", name, hex(d.as_bytes())));
        }
        match res {
            Ok(()) => out.push_str(" OK"),
            Err(errs) => {
                out.push_str(" ERR");
                for e in errs.iter() {
                    out.push(' ');
                    out.push_str(&error_line(e));
                }
            }
        }
        out
    }));
    match r {
        Ok(s) => s,
        Err(p) => format!("PANIC {}", hex(panic_message(p).as_bytes())),
    }
}

#[cfg(not(sylt_lang_sylt_lang_verif))]
fn phases_line(_c: &CompileCase) -> String {
    "PH unavailable (build with --cfg sylt_lang_sylt_lang_verif)".to_string()
}

/// `sylt_parser::tree` only: `TREE <hex of module dump with spans>` or `ERR ...`
fn tree_line(c: &CompileCase) -> String {
    tree_line_mode(c, false)
}

fn tree_line_mode(c: &CompileCase, full: bool) -> String {
    let r = std::panic::catch_unwind(std::panic::AssertUnwindSafe(|| {
        let files = &c.files;
        let reader = |p: &Path| -> Result<String, Error> {
            lookup_file(files, p).ok_or_else(|| Error::FileNotFound(p.to_path_buf()))
        };
        match sylt_parser::tree(Path::new(&c.main), reader, c.std) {
            Ok(t) => format!("TREE {}", hex(sexp::tree_dump_mode(&t, true, full).as_bytes())),
            Err(errs) => format!(
                "ERR{}",
                errs.iter().map(|e| format!(" {}", error_line(e))).collect::<String>()
            ),
        }
    }));
    match r {
        Ok(s) => s,
        Err(p) => format!("PANIC {}", hex(panic_message(p).as_bytes())),
    }
}

fn fnv(data: &[u8]) -> u64 {
    let mut h: u64 = 0xcbf29ce484222325;
    for b in data {
        h ^= *b as u64;
        h = h.wrapping_mul(0x100000001b3);
    }
    h
}

fn main() {
    let args: Vec<String> = std::env::args().collect();
    let mut i = 1;
    let mut skip = 0usize;
    let mut timeout_s = 10u64;
    while i < args.len() && args[i].starts_with("--") {
        match args[i].as_str() {
            "--skip" => {
                skip = args[i + 1].parse().unwrap();
                i += 2;
            }
            "--timeout" => {
                timeout_s = args[i + 1].parse().unwrap();
                i += 2;
            }
            _ => panic!("unknown option"),
        }
    }
    let cmd = args[i].clone();
    let mut rest: Vec<String> = args[i + 1..].to_vec();
    let mut reps = 1usize;
    if cmd == "repeat" {
        reps = rest.remove(0).parse().unwrap();
    }
    let cases = std::fs::read_to_string(&rest[0]).expect("cannot read case file");
    std::panic::set_hook(Box::new(|_| {}));

    // watchdog: if one case takes longer than timeout_s, print TIMEOUT for it and exit(3);
    // the caller resumes with --skip.
    let started = Arc::new(AtomicU64::new(0));
    {
        let started = started.clone();
        std::thread::spawn(move || loop {
            std::thread::sleep(std::time::Duration::from_millis(200));
            let s = started.load(Ordering::SeqCst);
            if s != 0 && now_ms() - s > timeout_s * 1000 {
                let out = std::io::stdout();
                let mut l = out.lock();
                let _ = writeln!(l, "TIMEOUT");
                let _ = l.flush();
                std::process::exit(3);
            }
        });
    }

    let worker = std::thread::Builder::new()
        .stack_size(1 << 30)
        .spawn(move || {
            let out = std::io::stdout();
            for (n, line) in cases.lines().enumerate() {
                if n < skip {
                    continue;
                }
                started.store(now_ms(), Ordering::SeqCst);
                let res = match cmd.as_str() {
                    "lex" => {
                        let src = unhex_str(line);
                        match std::panic::catch_unwind(|| token_line(&src)) {
                            Ok(s) => s,
                            Err(p) => format!("PANIC {}", hex(panic_message(p).as_bytes())),
                        }
                    }
                    "expr" | "stmt" | "outer" | "type" => {
                        let src = unhex_str(line);
                        let cmd = cmd.clone();
                        match std::panic::catch_unwind(move || sexp::parse_line(&cmd, &src)) {
                            Ok(s) => s,
                            Err(p) => format!("PANIC {}", hex(panic_message(p).as_bytes())),
                        }
                    }
                    "compile" => compile_line(&parse_compile_case(line)),
                    "compileb" => compile_bytes_line(&parse_compile_case(line)),
                    "phases" => phases_line(&parse_compile_case(line)),
                    "tree" => tree_line(&parse_compile_case(line)),
                    "treef" => tree_line_mode(&parse_compile_case(line), true),
                    "repeat" => {
                        let c = parse_compile_case(line);
                        let mut digests = Vec::new();
                        for _ in 0..reps {
                            digests.push(format!("{:016x}", fnv(compile_line(&c).as_bytes())));
                        }
                        format!("D {}", digests.join(" "))
                    }
                    _ => panic!("unknown subcommand"),
                };
                started.store(0, Ordering::SeqCst);
                let mut l = out.lock();
                let _ = writeln!(l, "{}", res);
            }
            let _ = out.lock().flush();
        })
        .unwrap();
    let r = worker.join();
    if r.is_err() {
        std::process::exit(4);
    }
}
