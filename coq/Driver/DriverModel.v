(* The command-line driver: sylt/src/main.rs `main` and sylt/src/lib.rs `run_file_with_reader`, as a
   total function from

     - the parsed flags (gumdrop's `Args`),
     - the outcome of `compile_with_reader_to_writer` for these flags (abstract: Ok bytes | Err errors),
     - what the operating system does with the output path (File::create, Write::write) and with the
       `lua` child (found on PATH or not; stdout, stderr and status as a function of its stdin)

   to everything that can be observed: exit status, the bytes on stdout and stderr, the effect on the
   output file and what the child received on stdin.

   The control flow mirrors the code arm by arm (see Driver/DocDriver.v for the reviewed skeleton of
   each arm, which Props/C20.v ties to the code on every run).  Definitions only, stdlib only. *)
From Coq Require Import String List NArith Bool Ascii DecimalString Decimal.
Import ListNotations.
Local Open Scope string_scope.

(* ---- strings the driver prints; regenerated from the sources into Gen/GenDriver.v ---- *)
Record strings := mkStrings {
  s_no_file : string;           (* main.rs: return Err("No file to run".into()) *)
  s_errors_suffix : string;     (* main.rs: Err(format!("{} errors occured.", errs.len())) *)
  s_expect_lua : string;        (* lib.rs: .spawn().expect("Failed to start lua - ...") *)
  s_expect_create : string;     (* lib.rs: File::create(s).expect(&format!("Failed to create file: {}", s.display())), text before {} *)
  s_lua_error : string;         (* error.rs Display of Error::LuaError: text before {} *)
  s_io_error : string           (* error.rs Display of Error::IOError: text before {} *)
}.

(* ---- flags (struct Args; --dump-tree and the `timed` feature are outside the model) ---- *)
Record flags := mkFlags {
  f_output : option string;     (* -o / --output FILE *)
  f_require : option string;    (* -r / --require FILE *)
  f_no_std : bool;              (* -n / --no-std *)
  f_verbosity : N;              (* -v (count) *)
  f_help : bool;                (* -h / --help *)
  f_args : list string          (* free arguments *)
}.

(* `match &args.output`: None | Some(s) if s == Path::new("-") | Some(s) *)
Inductive output_mode := ORun | OStdout | OFile (path : string).

(* `s == &Path::new("-")` compares path COMPONENTS: repeated and trailing slashes and `.` components
   after the first one are normalised away, so `-/`, `-//.` ... are equal to `-` (while `./-` is not).
   state 0: directly after the dash; 1: after a slash; 2: after `/.` *)
Fixpoint dash_tail (state : nat) (s : string) : bool :=
  match s with
  | EmptyString => true
  | String c r =>
      match state with
      | 0 => if Ascii.eqb c "/" then dash_tail 1 r else false
      | 1 => if Ascii.eqb c "/" then dash_tail 1 r else if Ascii.eqb c "." then dash_tail 2 r else false
      | _ => if Ascii.eqb c "/" then dash_tail 1 r else false
      end
  end.

Definition is_dash_path (s : string) : bool :=
  match s with
  | String c r => if Ascii.eqb c "-" then dash_tail 0 r else false
  | EmptyString => false
  end.

Definition output_mode_of (f : flags) : output_mode :=
  match f_output f with
  | None => ORun
  | Some s => if is_dash_path s then OStdout else OFile s
  end.

(* ---- the world ---- *)
Inductive compile_outcome :=
| COk (bytes : string)             (* everything lua::generate wrote into the writer *)
| CErr (errors : list string).     (* the Display rendering of each returned error, in order *)

Inductive create_result := CreateOk | CreateFails (os_error : string).
(* Write::write_all: write() is repeated until everything is written; a short count is NOT success any
   more.  It either writes everything or returns the error of the write that failed, after `written`
   bytes had already reached the file. *)
Inductive write_result :=
| WroteAll
| WriteFails (written : nat) (os_error : string).

Record child_out := mkChildOut { c_stdout : string; c_stderr : string; c_status : N }.

Record world := mkWorld {
  w_compile : compile_outcome;
  w_create : create_result;        (* result of File::create on the output path *)
  w_write : write_result;          (* result of Write::write_all *)
  w_lua_found : bool;              (* Command::new("lua").spawn() succeeds *)
  w_child : string -> child_out;   (* the child as a function of what it reads on stdin *)
  w_usage : string;                (* Args::usage() *)
  w_argv0 : string
}.

(* ---- observations ---- *)
Inductive file_effect :=
| Untouched
| Holds (content : string).        (* File::create succeeded (old content gone), then `content` was written *)

Record child_run := mkChildRun {
  cr_stdin : string;               (* what the child read before end-of-file *)
  cr_waited : bool                 (* false: run_file returned without waiting; its output is not ordered
                                      with respect to ours and is not part of r_stdout *)
}.

Record result := mkResult {
  r_status : N;
  r_stdout : string;               (* the child's stdout is inherited: when it was waited for, its output
                                      comes first *)
  r_stderr : string;               (* for a panic: the message passed to the panic machinery (the real
                                      stderr also carries thread name, location and backtrace) *)
  r_file : file_effect;
  r_child : option child_run
}.

Definition nl : string := String (ascii_of_N 10) EmptyString.
Definition dec (n : nat) : string := NilZero.string_of_uint (Nat.to_uint n).
Definition quote (s : string) : string := """" ++ s ++ """".   (* {:?} of a String without special characters *)

(* ---- run_file_with_reader ---- *)
Inductive run_result :=
| ROk
| RErr (errors : list string)
| RPanic (message : string).

Record effects := mkEffects { e_stdout : string; e_file : file_effect; e_child : option child_run }.

Definition no_effects : effects := mkEffects "" Untouched None.

Definition run_file (st : strings) (f : flags) (w : world) : effects * run_result :=
  match output_mode_of f with
  | ORun =>
      (* spawn first, then compile into the child's stdin *)
      if negb (w_lua_found w) then (no_effects, RPanic (s_expect_lua st))
      else
        match w_compile w with
        | CErr es =>
            (* `?` returns: stdin is dropped, the child sees an empty input and is not waited for *)
            (mkEffects "" Untouched (Some (mkChildRun "" false)), RErr es)
        | COk bytes =>
            let c := w_child w bytes in
            let eff := mkEffects (c_stdout c) Untouched (Some (mkChildRun bytes true)) in
            (* the exit status of the child is not looked at *)
            if String.eqb (c_stderr c) "" then (eff, ROk)
            else (eff, RErr [s_lua_error st ++ c_stderr c])
        end
  | OStdout =>
      match w_compile w with
      | CErr es => (no_effects, RErr es)      (* nothing was written: lua::generate is the last step *)
      | COk bytes => (mkEffects bytes Untouched None, ROk)
      end
  | OFile p =>
      (* compile into a buffer first, then create + write_all *)
      match w_compile w with
      | CErr es => (no_effects, RErr es)
      | COk bytes =>
          match w_create w with
          | CreateFails e => (no_effects, RPanic (s_expect_create st ++ p ++ ": " ++ e))
          | CreateOk =>
              match w_write w with
              | WroteAll => (mkEffects "" (Holds bytes) None, ROk)
              | WriteFails n e => (mkEffects "" (Holds (substring 0 n bytes)) None, RErr [s_io_error st ++ e])
              end
          end
      end
  end.

(* ---- main ---- *)
Definition print_errors (es : list string) : string := String.concat "" (map (fun e => e ++ nl) es).

Definition main_err (msg : string) : string := "Error: " ++ quote msg ++ nl.   (* Termination for Result<(), String> *)

Definition main (st : strings) (f : flags) (w : world) : result :=
  if f_help f then
    (* gumdrop's parse_args_default_or_exit prints the usage and exits 0 before main's own test *)
    mkResult 0 ("Usage: " ++ w_argv0 w ++ " [OPTIONS]" ++ nl ++ nl ++ w_usage w ++ nl) "" Untouched None
  else
    match f_args f with
    | [] => mkResult 1 (w_usage w ++ nl) (main_err (s_no_file st)) Untouched None
    | _ :: _ =>
        let '(eff, r) := run_file st f w in
        match r with
        | RPanic m => mkResult 101 (e_stdout eff) m (e_file eff) (e_child eff)
        | ROk => mkResult 0 (e_stdout eff) "" (e_file eff) (e_child eff)
        | RErr [] => mkResult 0 (e_stdout eff) "" (e_file eff) (e_child eff)     (* errs.is_empty() *)
        | RErr es =>
            mkResult 1 (e_stdout eff ++ print_errors es)
                     (main_err (dec (length es) ++ s_errors_suffix st)) (e_file eff) (e_child eff)
        end
    end.
