(* C07 -- the compiler is total.  Pinned statements only. *)
From Coq Require Import String List NArith Bool.
From Sylt Require Import Lex.Regex Lex.Logos Lex.LexerProofs Total.DocPanicSites Gen.GenPanicSites Gen.GenTokens.
From Sylt Require Import Syntax.Resolved Back.IR Back.RScope Back.TotalProofs.
Import ListNotations.

Fixpoint psites_eqb (a : list psite) (b : list (string * string * string * nat)) : bool :=
  match a, b with
  | [], [] => true
  | s :: a', (f, fn, k, n) :: b' =>
      String.eqb (p_file s) f && String.eqb (p_fn s) fn && String.eqb (p_kind s) k
      && Nat.eqb (p_count s) n && psites_eqb a' b'
  | _, _ => false
  end.

(* Obligation 1 (table tie): the panic sites found in /repo on this run are exactly the reviewed ones. *)
Theorem C07_sites_covered : psites_eqb doc_sites GenPanicSites.sites = true.
Proof. vm_compute. reflexivity. Qed.

(* The tokenizer always terminates and consumes its whole input: with fuel = |s| the raw token texts
   concatenate to s, i.e. every iteration makes progress (no input can make it loop), for every table. *)
Theorem C07_lexer_total : forall (t : table) (s : list N),
  concat (map r_text (raw_lex (length s) t s)) = s.
Proof. exact raw_lex_tiles. Qed.

(* Every token the model produces lies on code-point boundaries inside the input (the four unwrap()s of
   char_at_byte in string_to_tokens index at token boundaries). *)
Theorem C07_token_bounds : forall (s : list N) (tk : ptoken),
  In tk (lex gen_table s) -> N.to_nat (t_cp0 tk) < N.to_nat (t_cp1 tk) <= length s.
Proof. intros s tk H. exact (proj1 (lex_token_spec gen_table s tk H)). Qed.

(* The IR lowering (intermediate.rs; its unreachable!()/unwrap() sites are Panic outcomes of the model)
   is total on every resolved program that passes the fuelled scoping/shape check: no panic site is
   reached and the fuel that suffices for the check suffices for the lowering. *)
Theorem C07_lower_total : forall (fuel : nat) (r : resolved),
  rs_resolved fuel r = true -> exists code, lower fuel r = Ok code.
Proof. exact lower_total. Qed.

Print Assumptions C07_sites_covered.
Print Assumptions C07_lower_total.
Print Assumptions C07_lexer_total.
Print Assumptions C07_token_bounds.
