(* A computable normal form of the parse tree under the surface sugar of C14.
   [snf] = [nf] after [strip_e]:
   - Parenthesis nodes are erased ([strip_e], Syntax/Ast.v);
   - an arrow call `a -> f(b, ..)` becomes the call `f(a, b, ..)`;
   - the last statement of a function body, when it is an expression statement `e`, becomes `ret e`
     (the implicit return value);
   - EmptyStatements are dropped from statement lists (blank lines, comment-only lines).
   Prime calls `f' a, b`, parenthesised calls `f(a, b)` and `loop do` / `loop true do` need no clause: the parser
   already builds the same tree for them (Sugar.v: prime_call; PreSim.v: loop_do).
   Definitions only. *)
From Coq Require Import List NArith Bool.
From Sylt Require Import Syntax.Ast.
Import ListNotations.

Definition is_empty_s (s : stmt) : bool := match s with SEmpty => true | _ => false end.

(* the implicit return: applied to an already normalised body *)
Fixpoint tail_ret (ss : list stmt) : list stmt :=
  match ss with
  | [] => []
  | [SExpr v] => [SRet (Some v)]
  | s :: ss' => s :: tail_ret ss'
  end.

Fixpoint nf_e (e : expr) : expr :=
  match e with
  | EGet a => EGet (nf_a a)
  | EBin o l r => EBin o (nf_e l) (nf_e r)
  | EUn u x => EUn u (nf_e x)
  | EParen x => EParen (nf_e x)
  | EIf bs => EIf ((fix go (l : list ifbranch) := match l with [] => [] | b :: l' => nf_ib b :: go l' end) bs)
  | ECase m bs ft =>
      ECase (nf_e m)
            ((fix go (l : list casebranch) := match l with [] => [] | b :: l' => nf_cb b :: go l' end) bs)
            (match ft with
             | Some b => Some ((fix go (l : list stmt) :=
                                  match l with
                                  | [] => []
                                  | s :: l' => if is_empty_s s then go l' else nf_s s :: go l'
                                  end) b)
             | None => None
             end)
  | EFn ps r b pu =>
      EFn ps r (tail_ret ((fix go (l : list stmt) :=
                             match l with
                             | [] => []
                             | s :: l' => if is_empty_s s then go l' else nf_s s :: go l'
                             end) b)) pu
  | EBlob b fs =>
      EBlob b ((fix go (l : list (name * expr)) :=
                  match l with [] => [] | (n, x) :: l' => (n, nf_e x) :: go l' end) fs)
  | ETuple es => ETuple ((fix go (l : list expr) := match l with [] => [] | x :: l' => nf_e x :: go l' end) es)
  | EList es => EList ((fix go (l : list expr) := match l with [] => [] | x :: l' => nf_e x :: go l' end) es)
  | EFloat _ | EInt _ | EStr _ | EBool _ | ENil => e
  end
with nf_a (a : assignable) : assignable :=
  match a with
  | ARead n => ARead n
  | AVariant ea v x => AVariant (nf_a ea) v (nf_e x)
  | ACall f args =>
      ACall (nf_a f) ((fix go (l : list expr) := match l with [] => [] | x :: l' => nf_e x :: go l' end) args)
  | AArrowCall x f args =>
      ACall (nf_a f)
            (nf_e x :: (fix go (l : list expr) := match l with [] => [] | x :: l' => nf_e x :: go l' end) args)
  | AAccess b n => AAccess (nf_a b) n
  | AIndex b x => AIndex (nf_a b) (nf_e x)
  | AExpr x => AExpr (nf_e x)
  end
with nf_ib (b : ifbranch) : ifbranch :=
  match b with
  | IfBranch c body =>
      IfBranch (match c with Some x => Some (nf_e x) | None => None end)
               ((fix go (l : list stmt) :=
                   match l with
                   | [] => []
                   | s :: l' => if is_empty_s s then go l' else nf_s s :: go l'
                   end) body)
  end
with nf_cb (b : casebranch) : casebranch :=
  match b with
  | CaseBranch p v body =>
      CaseBranch p v ((fix go (l : list stmt) :=
                         match l with
                         | [] => []
                         | s :: l' => if is_empty_s s then go l' else nf_s s :: go l'
                         end) body)
  end
with nf_s (s : stmt) : stmt :=
  match s with
  | SAssign k t v => SAssign k (nf_a t) (nf_e v)
  | SDef i k t v => SDef i k t (nf_e v)
  | SLoop c b => SLoop (nf_e c) (nf_s b)
  | SRet (Some v) => SRet (Some (nf_e v))
  | SBlock ss => SBlock ((fix go (l : list stmt) :=
                            match l with
                            | [] => []
                            | s :: l' => if is_empty_s s then go l' else nf_s s :: go l'
                            end) ss)
  | SExpr v => SExpr (nf_e v)
  | _ => s
  end.

Fixpoint nf_stmts (l : list stmt) : list stmt :=
  match l with
  | [] => []
  | s :: l' => if is_empty_s s then nf_stmts l' else nf_s s :: nf_stmts l'
  end.

Definition snf_e (e : expr) : expr := nf_e (strip_e e).
Definition snf_s (s : stmt) : stmt := nf_s (strip_s s).
(* a whole file *)
Definition snf_program (ss : list stmt) : list stmt := nf_stmts (map strip_s ss).
