(* Leaves of the dependency DFS that are filtered out afterwards do not matter: if some entries of the table (`tp`
   on the payload: the type declarations) have no dependencies, then removing THEM from every dependency list
   (`prune`) changes neither the verdict of `order` nor the subsequence of the other payloads in its result.  The
   DFS visits such a leaf at some point, which only appends it to the output. *)
From Coq Require Import String List NArith ZArith Bool Lia.
From Sylt Require Import Syntax.Resolved Dep.Deps Dep.Topo Dep.TopoProofs.
Import ListNotations.

Lemma filter_rev_ {X} (p : X -> bool) l : filter p (rev l) = rev (filter p l).
Proof.
  induction l as [|x l IH]; cbn; [reflexivity|]. rewrite filter_app, IH. cbn. destruct (p x); cbn; [reflexivity|apply app_nil_r].
Qed.

Section Prune.
Context {A : Type}.
Variable tp : A -> bool.
Variable key_of : A -> N.
Variable t : table A.
Hypothesis Hkey : forall k deps a, tbl_get t k = Some (deps, a) -> key_of a = k.

Definition tk (d : N) : bool := match tbl_get t d with Some (_, a) => tp a | None => false end.
Hypothesis Hleaf : forall k deps a, tbl_get t k = Some (deps, a) -> tp a = true -> deps = [].

Definition keep (d : N) : bool := negb (tk d).
Definition prune_with (kp : N -> bool) (l : table A) : table A :=
  map (fun e => (fst e, (filter kp (fst (snd e)), snd (snd e)))) l.
Definition prune : table A := prune_with keep t.

Lemma tbl_get_prune_with kp l k :
  tbl_get (prune_with kp l) k = match tbl_get l k with Some (d, a) => Some (filter kp d, a) | None => None end.
Proof.
  unfold prune_with. induction l as [|[k' [d a]] l IH]; cbn; [reflexivity|]. destruct (N.eqb k k'); [reflexivity|exact IH].
Qed.

Lemma tbl_get_prune k : tbl_get prune k = match tbl_get t k with Some (d, a) => Some (filter keep d, a) | None => None end.
Proof. apply tbl_get_prune_with. Qed.

Definition nt (a : A) : bool := negb (tp a).

Record Rel (s1 s0 : dfs_state (A := A)) : Prop := mkRel {
  r_st : forall k, tk k = false -> status (fst s1) k = status (fst s0) k;
  r_out : filter nt (snd s1) = filter nt (snd s0);
  r_l1 : forall k, tk k = true -> status (fst s1) k <> Some Inserting;
  r_l0 : forall k, tk k = true -> status (fst s0) k <> Some Inserting
}.

(* visiting a leaf on one side *)
Lemma leaf_left f d s1 s0 : tk d = true -> Rel s1 s0 ->
  match recurse (S f) t d s1 with DOk s1' => Rel s1' s0 | _ => False end.
Proof.
  intros Hd R. cbn [recurse]. unfold tk in Hd. destruct (tbl_get t d) as [[deps a]|] eqn:E; [|discriminate].
  rewrite (Hleaf _ _ _ E Hd). destruct (status (fst s1) d) as [[]|] eqn:Es.
  - exfalso. eapply (r_l1 _ _ R d); [unfold tk; rewrite E; exact Hd|exact Es].
  - exact R.
  - cbn [for_deps fst snd]. destruct R as [R1 R2 R3 R4]. constructor; cbn [fst snd].
    + intros k Hk. rewrite status_cons_other, status_cons_other; [apply R1; exact Hk| |];
        intros ->; unfold tk in Hk; rewrite E in Hk; congruence.
    + cbn [filter]. unfold nt at 1. rewrite Hd. cbn. exact R2.
    + intros k Hk. destruct (N.eq_dec k d) as [->|Hne].
      * rewrite status_cons_same. discriminate.
      * rewrite !status_cons_other by assumption. apply R3, Hk.
    + exact R4.
Qed.

Lemma leaf_right f d s1 s0 : tk d = true -> Rel s1 s0 ->
  match recurse (S f) prune d s0 with DOk s0' => Rel s1 s0' | _ => False end.
Proof.
  intros Hd R. cbn [recurse]. rewrite tbl_get_prune. unfold tk in Hd. destruct (tbl_get t d) as [[deps a]|] eqn:E; [|discriminate].
  rewrite (Hleaf _ _ _ E Hd). cbn [filter]. destruct (status (fst s0) d) as [[]|] eqn:Es.
  - exfalso. eapply (r_l0 _ _ R d); [unfold tk; rewrite E; exact Hd|exact Es].
  - exact R.
  - cbn [for_deps fst snd]. destruct R as [R1 R2 R3 R4]. constructor; cbn [fst snd].
    + intros k Hk. rewrite status_cons_other, status_cons_other; [apply R1; exact Hk| |];
        intros ->; unfold tk in Hk; rewrite E in Hk; congruence.
    + cbn [filter]. unfold nt at 2. rewrite Hd. cbn. exact R2.
    + exact R3.
    + intros k Hk. destruct (N.eq_dec k d) as [->|Hne].
      * rewrite status_cons_same. discriminate.
      * rewrite !status_cons_other by assumption. apply R4, Hk.
Qed.

Definition sim_res (r1 r0 : dres (A := A)) : Prop :=
  match r1 with
  | DOutOfFuel => True
  | DOk s1 => exists s0, r0 = DOk s0 /\ Rel s1 s0
  | DCycle c => r0 = DCycle c
  end.

(* dependency lists: the full one on the left, the pruned one on the right *)
Lemma sim_deps f :
  (forall k s1 s0, tk k = false -> Rel s1 s0 -> sim_res (recurse f t k s1) (recurse f prune k s0)) ->
  forall D s1 s0, Rel s1 s0 -> sim_res (for_deps (recurse f t) D s1) (for_deps (recurse f prune) (filter keep D) s0).
Proof.
  intros IH. induction D as [|d D IHD]; intros s1 s0 R; cbn [for_deps filter].
  - exists s0. auto.
  - unfold keep at 1. destruct (tk d) eqn:Hd; cbn [negb].
    + destruct f as [|f']; [cbn; exact I|].
      pose proof (leaf_left f' d s1 s0 Hd R) as L. destruct (recurse (S f') t d s1) as [s1'| |]; try contradiction.
      apply IHD. exact L.
    + cbn [for_deps]. pose proof (IH d s1 s0 Hd R) as HS.
      destruct (recurse f t d s1) as [s1'|c|]; cbn in HS |- *; [|rewrite HS; reflexivity|exact I].
      destruct HS as (s0' & -> & R'). apply IHD. exact R'.
Qed.

Lemma sim_rec : forall f k s1 s0, tk k = false -> Rel s1 s0 -> sim_res (recurse f t k s1) (recurse f prune k s0).
Proof.
  induction f as [|f IH]; intros k s1 s0 Hk R; [exact I|]. cbn [recurse]. rewrite tbl_get_prune.
  destruct (tbl_get t k) as [[deps a]|] eqn:E; [|exists s0; auto].
  rewrite <- (r_st _ _ R k Hk). destruct (status (fst s1) k) as [[]|] eqn:Es; [reflexivity|exists s0; auto|].
  assert (R' : Rel ((k, Inserting) :: fst s1, snd s1) ((k, Inserting) :: fst s0, snd s0)).
  { destruct R as [R1 R2 R3 R4]. constructor; cbn [fst snd]; auto.
    - intros k0 Hk0. destruct (N.eq_dec k0 k) as [->|Hne]; [rewrite !status_cons_same; reflexivity|].
      rewrite !status_cons_other by assumption. apply R1, Hk0.
    - intros k0 Hk0. rewrite status_cons_other; [apply R3, Hk0|]. intros ->. congruence.
    - intros k0 Hk0. rewrite status_cons_other; [apply R4, Hk0|]. intros ->. congruence. }
  pose proof (sim_deps f IH deps _ _ R') as HS.
  destruct (for_deps (recurse f t) deps ((k, Inserting) :: fst s1, snd s1)) as [s1'|c|]; cbn in HS |- *; [|rewrite HS; reflexivity|exact I].
  destruct HS as (s0' & -> & [R1 R2 R3 R4]). eexists. split; [reflexivity|]. constructor; cbn [fst snd].
  - intros k0 Hk0. destruct (N.eq_dec k0 k) as [->|Hne]; [rewrite !status_cons_same; reflexivity|].
    rewrite !status_cons_other by assumption. apply R1, Hk0.
  - cbn [filter]. rewrite R2. reflexivity.
  - intros k0 Hk0. rewrite status_cons_other; [apply R3, Hk0|]. intros ->. congruence.
  - intros k0 Hk0. rewrite status_cons_other; [apply R4, Hk0|]. intros ->. congruence.
Qed.

(* the top-level loop visits the same keys on both sides, leaves included *)
Lemma sim_top f : forall L s1 s0, Rel s1 s0 ->
  sim_res (for_deps (recurse (S f) t) L s1) (for_deps (recurse (S f) prune) L s0).
Proof.
  induction L as [|d L IHL]; intros s1 s0 R; cbn [for_deps]; [exists s0; auto|].
  destruct (tk d) eqn:Hd.
  - pose proof (leaf_left f d s1 s0 Hd R) as L1. destruct (recurse (S f) t d s1) as [s1'| |]; try contradiction.
    pose proof (leaf_right f d s1' s0 Hd L1) as L0. destruct (recurse (S f) prune d s0) as [s0'| |]; try contradiction.
    apply IHL. exact L0.
  - pose proof (sim_rec (S f) d s1 s0 Hd R) as HS.
    destruct (recurse (S f) t d s1) as [s1'|c|]; cbn in HS |- *; [|rewrite HS; reflexivity|exact I].
    destruct HS as (s0' & -> & R'). apply IHL. exact R'.
Qed.

Lemma prune_keys : map fst prune = map fst t.
Proof. unfold prune, prune_with. rewrite map_map. reflexivity. Qed.

Definition ofilter (r : ores (A := A)) : ores (A := A) :=
  match r with OOk l => OOk (filter nt l) | OCycle c => OCycle c | OOutOfFuel => OOutOfFuel end.

Theorem order_prune : ofilter (order prune) = ofilter (order t).
Proof.
  pose proof (order_fuel_enough key_of t Hkey) as NF. unfold order, order_fuel in *. rewrite prune_keys.
  assert (E : length prune = length t) by (unfold prune, prune_with; apply map_length). rewrite E.
  assert (R0 : Rel ([], []) ([], [])) by (constructor; cbn; auto; intros; discriminate).
  pose proof (sim_top (length t) (map fst t) _ _ R0) as HS.
  destruct (for_deps (recurse (S (length t)) t) (map fst t) ([], [])) as [s1|c|]; unfold sim_res in HS.
  - destruct HS as (s0 & -> & R). cbn [ofilter]. f_equal.
    rewrite !filter_rev_. f_equal. symmetry. apply (r_out _ _ R).
  - rewrite HS. reflexivity.
  - exfalso. apply NF. reflexivity.
Qed.

End Prune.
