(* Non-vacuity of the alpha theorem: a renaming that (1) renames a global (g1 -> h1, by the swap g),
   (2) renames two distinct local binders a, b to the SAME name c, the inner one shadowing the outer:

     g1 :: 1                                   h1 :: 1
     start :: fn do                            start :: fn do
         a := g1                                   c := h1
         do                                        do
             b := a                                    c := c
             b                                         c
         end                                       end
         a                                         c
     end                                       end

   Both resolve (Ok), and to the same program up to names. *)
From Coq Require Import String List NArith ZArith Bool.
From Sylt Require Import Syntax.Resolved Resolve.PAst Resolve.Resolver Resolve.Alpha Resolve.AlphaProofs
     Resolve.RefineRefuted.
Import ListNotations.
Local Open Scope string_scope.
Local Open Scope N_scope.

Definition swap_g (s : string) : string :=
  if String.eqb s "g1" then "h1" else if String.eqb s "h1" then "g1" else s.

Lemma swap_g_inj : forall x y, swap_g x = swap_g y -> x = y.
Proof.
  intros x y. unfold swap_g.
  destruct (String.eqb_spec x "g1"), (String.eqb_spec y "g1"); try congruence;
  destruct (String.eqb_spec x "h1"), (String.eqb_spec y "h1"); try congruence.
Qed.

Definition defl (n : string) (l : N) (e : pexpr) : pstmt :=
  PDefinition (i_ n l) Mutable (PTImplied (s_ l)) e (s_ l).
Definition sexpr (e : pexpr) (l : N) : pstmt := PStatementExpression e (s_ l).

Definition ex_p (gname a b : string) : past :=
  main_ [PDefinition (i_ gname 1) Const (PTImplied (s_ 1)) (PInt 1 (s_ 1)) (s_ 1);
         fn_start [defl a 3 (read_ gname 3);
                   PBlock [defl b 5 (read_ a 5); sexpr (read_ b 6) 6] (s_ 4);
                   sexpr (read_ a 8) 8]].

Definition ex_left : past := ex_p "g1" "a" "b".
Definition ex_right : past := ex_p "h1" "c" "c".

Definition no_ns (_ : N) (_ : string) : bool := false.
Definition no_sure (_ : N) (_ : passign) : bool := false.

Lemma ex_alpha fl : alpha_ast fl swap_g no_ns no_sure ex_left ex_right.
Proof.
  unfold alpha_ast, ex_left, ex_right, ex_p, main_. constructor; [|constructor].
  split; [reflexivity|]. split; [reflexivity|]. cbn [m_stmts].
  constructor; [|constructor; [|constructor]].
  - (* g1 :: 1  ~  h1 :: 1 *)
    eapply as_def_global; [split; reflexivity|apply ae_int|constructor].
  - (* start *)
    unfold fn_start. eapply as_def_global; [split; reflexivity| |constructor].
    cbn [i_name i_].
    eapply ae_fun; [apply thread_nil|apply aty_resolved|].
    (* the body, statement by statement, the context threaded *)
    eapply thread_cons.
    { unfold defl. eapply as_def_val; [discriminate|reflexivity|reflexivity|reflexivity| |constructor].
      unfold read_. apply ae_get. apply aa_read. split; reflexivity. }
    eapply thread_cons.
    { eapply as_block. eapply thread_cons.
      { unfold defl. eapply as_def_val; [discriminate|reflexivity|reflexivity|reflexivity| |constructor].
        unfold read_. apply ae_get. apply aa_read. split; reflexivity. }
      eapply thread_cons; [|apply thread_nil].
      unfold sexpr, read_. apply as_sexpr. apply ae_get. apply aa_read. split; reflexivity. }
    eapply thread_cons; [|apply thread_nil].
    unfold sexpr, read_. apply as_sexpr. apply ae_get. apply aa_read. split; reflexivity.
Qed.

Lemma ex_no_namespaces p :
  p = ex_left \/ p = ex_right ->
  forall fl st, passes fl p = Ok (tt, st) -> ns_sound no_ns st /\ sure_sound no_sure st.
Proof.
  intros Hp fl st H. unfold passes in H. destruct (imports_fixpoint fl); (split; [|intros fid a Hs; discriminate Hs]).
  all: intros fid x f sp Hl; exfalso;
    destruct Hp as [-> | ->]; vm_compute in H; inversion H; subst; clear H;
      unfold lookup_global in Hl; cbn in Hl;
      destruct (N.eqb fid 0); try discriminate; cbn in Hl;
      repeat match type of Hl with
             | context [String.eqb ?a ?b] => destruct (String.eqb a b); try discriminate
             end.
Qed.

(* the theorem applies, both sides are accepted, and the results agree up to names *)
Example alpha_example : forall fl,
  res_rel (resolve fl ex_left) (resolve fl ex_right)
  /\ is_ok (resolve fl ex_left) = true /\ is_ok (resolve fl ex_right) = true.
Proof.
  intros fl. split.
  - apply (alpha_resolve fl swap_g no_ns no_sure swap_g_inj eq_refl).
    + apply ex_alpha.
    + reflexivity.
    + apply ex_no_namespaces. left. reflexivity.
    + intros st H. apply (ex_no_namespaces ex_right (or_intror eq_refl) fl st H).
  - destruct fl as [[] [] [] [] []]; split; vm_compute; reflexivity.
Qed.

(* ---------------------------------------------------------------------------------------------- *)
(* The renaming theorem holds for the discipline the code implements.  When that discipline leaks
   branch scopes it is NOT the documented one: a renaming that is consistent by the documented (lexical)
   rules -- renaming the branch-local y to z below -- changes the result of the resolver:

     y := 1                              y := 1
     start :: fn do                      start :: fn do
         if true do                          if true do
             y := 5                              z := 5
         end                                 end
         y      <- the branch's y            y      <- the global y
     end                                 end                                                     *)
Definition leak_p (loc : string) : past :=
  main_ [PDefinition (i_ "y" 1) Mutable (PTImplied (s_ 1)) (PInt 1 (s_ 1)) (s_ 1);
         fn_start [sexpr (PIf [PIfBranch (Some (PBool true (s_ 3))) [defl loc 4 (PInt 5 (s_ 4))] (s_ 3)] (s_ 3)) 3;
                   sexpr (read_ "y" 6) 6]].

Definition lexical : rflags := mkFlags true true true true false.

Lemma leak_alpha_lexical : alpha_ast lexical (fun s => s) no_ns no_sure (leak_p "y") (leak_p "z").
Proof.
  unfold alpha_ast, leak_p, main_. constructor; [|constructor].
  split; [reflexivity|]. split; [reflexivity|]. cbn [m_stmts].
  constructor; [|constructor; [|constructor]].
  - eapply as_def_global; [split; reflexivity|apply ae_int|constructor].
  - unfold fn_start. eapply as_def_global; [split; reflexivity| |constructor].
    cbn [i_name i_]. eapply ae_fun; [apply thread_nil|apply aty_resolved|].
    eapply thread_cons.
    { unfold sexpr. apply as_sexpr. apply ae_if. eapply thread_cons; [|apply thread_nil].
      eapply aifb; [apply aoe_some; apply ae_bool|].
      eapply thread_cons; [|apply thread_nil].
      unfold defl. eapply as_def_val; [discriminate|reflexivity|reflexivity|reflexivity|apply ae_int|constructor]. }
    (* after the branch the context is back to what it was: y ~ y are both the global *)
    cbn. eapply thread_cons; [|apply thread_nil].
    unfold sexpr, read_. apply as_sexpr. apply ae_get. apply aa_read. split; reflexivity.
Qed.

Theorem alpha_lexical_refuted : forall fl, if_truncates fl = false ->
  alpha_ast lexical (fun s => s) no_ns no_sure (leak_p "y") (leak_p "z")
  /\ ~ res_rel (resolve fl (leak_p "y")) (resolve fl (leak_p "z")).
Proof.
  intros fl H. split; [exact leak_alpha_lexical|].
  destruct fl as [[] [] [] [] []]; try discriminate H; vm_compute; intros E; discriminate E.
Qed.
