(* The spelling of the main path does not change what is loaded: if every path of a project is rewritten by an
   injective function rho that is compatible with `use_path` (the file a use statement denotes, computed from the
   rewritten current file and the rewritten main file, is the rewritten file), module discovery visits the rewritten
   files in the same order with the same file ids.  For rho = "put this prefix in front" (main.sy / ./main.sy /
   proj/main.sy / /abs/dir/main.sy) the compatibility is a finite, computable check over the use statements of the
   project (`respell_okb`). *)
From Coq Require Import String List NArith Bool Ascii Lia.
From Sylt Require Import Syntax.Resolved Resolve.PAst Resolve.Modules Resolve.ModulesProofs.
Import ListNotations.
Local Open Scope string_scope.

Section Respell.
Variable rho : string -> string.
Hypothesis rho_inj : forall a b, rho a = rho b -> a = b.

Definition rfol (f : file_or_lib) : file_or_lib := match f with File p => File (rho p) | Lib n => Lib n end.
Definition rmap (m : fmap) : fmap := map (fun e => (rho (fst e), snd e)) m.
Definition rst (st : tstate) : tstate :=
  mkT (map rfol (t_visited st)) (map (fun p => (rfol (fst p), snd p)) (t_modules st)) (map rfol (t_errors st)).
Definition rres (r : tres) : tres :=
  match r with
  | TOk mods => TOk (map (fun p => (rfol (fst p), snd p)) mods)
  | TErr es => TErr (map rfol es)
  | TOutOfFuel => TOutOfFuel
  end.

Lemma rfol_inj a b : rfol a = rfol b -> a = b.
Proof. destruct a, b; cbn; intros H; inversion H; try reflexivity. f_equal. apply rho_inj. assumption. Qed.

Lemma fol_eqb_r a b : fol_eqb (rfol a) (rfol b) = fol_eqb a b.
Proof.
  destruct (fol_eqb a b) eqn:E.
  - apply fol_eqb_eq in E. subst. apply fol_eqb_eq. reflexivity.
  - destruct (fol_eqb (rfol a) (rfol b)) eqn:E2; [|reflexivity].
    apply fol_eqb_eq in E2. apply rfol_inj in E2. subst. rewrite (proj2 (fol_eqb_eq b b) eq_refl) in E. discriminate.
Qed.

Lemma mem_fol_r x l : mem_fol (rfol x) (map rfol l) = mem_fol x l.
Proof. induction l as [|y l IH]; cbn; [reflexivity|]. rewrite fol_eqb_r, IH. reflexivity. Qed.

Lemma fmap_get_r m p : fmap_get (rmap m) (rho p) = fmap_get m p.
Proof.
  induction m as [|[q c] m IH]; cbn; [reflexivity|].
  destruct (String.eqb p q) eqn:E.
  - apply String.eqb_eq in E. subst. rewrite String.eqb_refl. reflexivity.
  - destruct (String.eqb (rho p) (rho q)) eqn:E2; [|exact IH].
    apply String.eqb_eq in E2. apply rho_inj in E2. subst. rewrite String.eqb_refl in E. discriminate.
Qed.

Variable libs : list string.
Variable lib_uses : list (string * list string).
Variable root root' : string.
Variable m : fmap.

Definition ofol (o : option file_or_lib) : option file_or_lib := match o with Some f => Some (rfol f) | None => None end.

(* compatibility with use_path, for the use statements of the files of the project *)
Hypothesis Hcompat : forall cur parses us u,
  fmap_get m cur = Some (FSource parses us) -> In u us ->
  use_path libs root' (File (rho cur)) u = ofol (use_path libs root (File cur) u).

Lemma use_path_lib_root r1 r2 n u : use_path libs r1 (Lib n) u = use_path libs r2 (Lib n) u.
Proof. unfold use_path. destruct (mem_str _ libs); reflexivity. Qed.

Lemma use_path_lib_r r n u : use_path libs r (Lib n) u = ofol (use_path libs r (Lib n) u).
Proof. unfold use_path. destruct (mem_str _ libs); reflexivity. Qed.

Lemma followed_r inc us :
  (forall u, In u us -> use_path libs root' (rfol inc) u = ofol (use_path libs root inc u)) ->
  followed libs root' (rfol inc) us = (map rfol (fst (followed libs root inc us)), snd (followed libs root inc us)).
Proof.
  induction us as [|u us IH]; intros H; cbn [followed]; [reflexivity|].
  rewrite IH; [|intros v Hv; apply H; right; exact Hv]. rewrite (H u (or_introl eq_refl)).
  destruct (followed libs root inc us) as [fs ok]. cbn [fst snd].
  destruct (use_path libs root inc u); reflexivity.
Qed.

Lemma tree_loop_r : forall fuel to_visit st,
  tree_loop fuel libs lib_uses root' (rmap m) (map rfol to_visit) (rst st)
  = match tree_loop fuel libs lib_uses root m to_visit st with Some st' => Some (rst st') | None => None end.
Proof.
  induction fuel as [|f IH]; intros to_visit st; [reflexivity|]. cbn [tree_loop].
  destruct to_visit as [|inc rest]; [reflexivity|]. cbn [map].
  cbn [rst t_visited]. rewrite mem_fol_r.
  destruct (mem_fol inc (t_visited st)); [apply (IH rest st)|].
  rewrite map_length.
  assert (C : match rfol inc with
              | Lib n => match find (fun e => String.eqb (fst e) n) lib_uses with
                         | Some e => Some (FSource true (snd e)) | None => None end
              | File p => fmap_get (rmap m) p
              end
              = match inc with
                | Lib n => match find (fun e => String.eqb (fst e) n) lib_uses with
                           | Some e => Some (FSource true (snd e)) | None => None end
                | File p => fmap_get m p
                end).
  { destruct inc; cbn [rfol]; [apply fmap_get_r|reflexivity]. }
  rewrite C.
  set (content := match inc with
                  | Lib n => match find (fun e => String.eqb (fst e) n) lib_uses with
                             | Some e => Some (FSource true (snd e)) | None => None end
                  | File p => fmap_get m p
                  end) in *.
  destruct content as [[parses us|]|] eqn:EC.
  - assert (HF : forall u, In u us -> use_path libs root' (rfol inc) u = ofol (use_path libs root inc u)).
    { intros u Hu. destruct inc as [p|n]; cbn [rfol].
      - subst content. eapply Hcompat; eauto.
      - rewrite (use_path_lib_root root' root). apply use_path_lib_r. }
    rewrite (followed_r inc us HF). destruct (followed libs root inc us) as [next ok]. cbn [fst snd].
    rewrite <- map_rev, <- map_app.
    destruct (parses && ok).
    + rewrite <- (IH (app (rev next) rest) (mkT (app (t_visited st) [inc]) (app (t_modules st) [(inc, N.of_nat (length (t_visited st)))]) (t_errors st))).
      unfold rst. cbn [t_visited t_modules t_errors]. rewrite !map_app. reflexivity.
    + rewrite <- (IH (app (rev next) rest) (mkT (app (t_visited st) [inc]) (t_modules st) (inc :: t_errors st))).
      unfold rst. cbn [t_visited t_modules t_errors]. rewrite !map_app. reflexivity.
  - rewrite <- (IH rest (mkT (app (t_visited st) [inc]) (t_modules st) (inc :: t_errors st))).
    unfold rst. cbn [t_visited t_modules t_errors]. rewrite !map_app. reflexivity.
  - rewrite <- (IH rest (mkT (app (t_visited st) [inc]) (t_modules st) (inc :: t_errors st))).
    unfold rst. cbn [t_visited t_modules t_errors]. rewrite !map_app. reflexivity.
Qed.

End Respell.

Lemma tree_fuel_r rho m lib_uses : tree_fuel (rmap rho m) lib_uses = tree_fuel m lib_uses.
Proof.
  unfold tree_fuel, rmap. rewrite map_length. f_equal. f_equal.
  induction m as [|[q c] m IH]; cbn; [reflexivity|]. rewrite IH. reflexivity.
Qed.

Theorem tree_respell rho lib_uses m main std :
  (forall a b, rho a = rho b -> a = b) ->
  (forall cur parses us u, fmap_get m cur = Some (FSource parses us) -> In u us ->
     use_path (map fst lib_uses) (parent (rho main)) (File (rho cur)) u
     = ofol rho (use_path (map fst lib_uses) (parent main) (File cur) u)) ->
  tree lib_uses (rmap rho m) (rho main) std = rres rho (tree lib_uses m main std).
Proof.
  intros Hinj Hc. unfold tree. rewrite tree_fuel_r.
  pose proof (tree_loop_r rho Hinj (map fst lib_uses) lib_uses (parent main) (parent (rho main)) m Hc
                (tree_fuel m lib_uses) (File main :: (if std then [Lib "preamble"] else [])) (mkT [] [] [])) as H.
  assert (E : map (rfol rho) (File main :: (if std then [Lib "preamble"] else []))
              = File (rho main) :: (if std then [Lib "preamble"] else [])) by (destruct std; reflexivity).
  rewrite E in H. change (rst rho (mkT [] [] [])) with (mkT [] [] []) in H. rewrite H.
  destruct (tree_loop (tree_fuel m lib_uses) (map fst lib_uses) lib_uses (parent main) m
              (File main :: (if std then [Lib "preamble"] else [])) (mkT [] [] [])) as [st|]; [|reflexivity].
  unfold rst. cbn [t_errors t_modules]. destruct (t_errors st) as [|e es]; [reflexivity|].
  cbn [rres map]. f_equal. symmetry. apply (map_rev (rfol rho) (e :: es)).
Qed.

(* ---- rho = a prefix in front of every path ---- *)
Lemma append_inj p a b : (p ++ a = p ++ b -> a = b)%string.
Proof. induction p as [|c p IH]; cbn; intros H; [exact H|]. inversion H. auto. Qed.

Definition ofol_eqb (a b : option file_or_lib) : bool :=
  match a, b with
  | Some x, Some y => fol_eqb x y
  | None, None => true
  | _, _ => false
  end.

Lemma ofol_eqb_eq a b : ofol_eqb a b = true -> a = b.
Proof. destruct a, b; cbn; intros H; try discriminate; [|reflexivity]. apply fol_eqb_eq in H. subst. reflexivity. Qed.

(* for every use statement of every file of the project: the same file, respelled *)
Definition respell_okb (libs : list string) (p : string) (m : fmap) (main : string) : bool :=
  forallb (fun e =>
    match snd e with
    | FSource _ us =>
        forallb (fun u => ofol_eqb (use_path libs (parent (p ++ main)) (File (p ++ fst e)) u)
                                   (ofol (append p) (use_path libs (parent main) (File (fst e)) u))) us
    | FConflict => true
    end) m.

Lemma fmap_get_In m p c : fmap_get m p = Some c -> In (p, c) m.
Proof.
  induction m as [|[q d] m IH]; cbn; [discriminate|]. destruct (String.eqb p q) eqn:E.
  - apply String.eqb_eq in E. subst. intros H. inversion H. left. reflexivity.
  - intros H. right. apply IH, H.
Qed.

Theorem tree_prefix p lib_uses m main std :
  respell_okb (map fst lib_uses) p m main = true ->
  tree lib_uses (rmap (append p) m) (p ++ main) std = rres (append p) (tree lib_uses m main std).
Proof.
  intros H. apply (tree_respell (append p)); [apply append_inj|].
  intros cur parses us u Hg Hu. apply fmap_get_In in Hg.
  unfold respell_okb in H. rewrite forallb_forall in H. specialize (H _ Hg). cbn [snd fst] in H.
  rewrite forallb_forall in H. apply ofol_eqb_eq. apply H, Hu.
Qed.

(* the set of loaded files does not depend on the spelling: same modules, same order, same file ids *)
Corollary tree_prefix_modules p lib_uses m main std mods :
  respell_okb (map fst lib_uses) p m main = true ->
  tree lib_uses m main std = TOk mods ->
  tree lib_uses (rmap (append p) m) (p ++ main) std = TOk (map (fun e => (rfol (append p) (fst e), snd e)) mods).
Proof. intros H E. rewrite (tree_prefix p lib_uses m main std H), E. reflexivity. Qed.

(* ---- the example project of Props/C12.v with bare file names, and the four spellings of its directory ---- *)
Definition ex_proj : fmap :=
  [("main.sy", FSource true ["a"; "b"]); ("a.sy", FSource true ["main"; "d/c"]);
   ("b.sy", FSource true ["/d/c"; "d/"]); ("d/c.sy", FSource true ["/main"]);
   ("d/exports.sy", FSource true ["c"])].

Example respell_example : forall libs,
  libs = ["preamble"; "common"; "list"; "dict"; "set"; "math"; "maybe"; "container"; "unsafe"] ->
  respell_okb libs "" ex_proj "main.sy" = true
  /\ respell_okb libs "./" ex_proj "main.sy" = true
  /\ respell_okb libs "proj/" ex_proj "main.sy" = true
  /\ respell_okb libs "/abs/dir/" ex_proj "main.sy" = true
  (* a prefix that does not end in a slash glues the directory name to the file names: not a respelling *)
  /\ respell_okb libs "proj" ex_proj "main.sy" = false.
Proof. intros libs ->. vm_compute. repeat split. Qed.
