(* The public parse tree of sylt-parser (Expression / Assignable / Statement / Type kinds), span-free.
   Definitions only.

   Correspondence with the Rust types (sylt-parser/src/{parser,expression,statement}.rs):
   - the eight binary ExpressionKinds Add Sub Mul Div Comparison(_, k, _) AssertEq And Or are grouped
     as [EBin o l r] with [o : binop] (Comparison carries its ComparisonKind inside [Cmp k]);
     Neg / Not are [EUn u e].  The grouping is a bijection; Sexp.v prints the Rust constructor names.
   - identifiers and string literals are lists of Unicode scalar values (as in Lex/Logos.v);
   - Int literals are non-negative (the token regex has no sign), hence [N];
   - Float literals keep their source text (Rust's f64 parse / {:?} is not modelled; the tie compares
     floats numerically);
   - spans, TyIDs, statement comments and the function name "lambda" are not carried. *)
From Coq Require Import List NArith Bool.
Import ListNotations.

Definition name := list N.

Inductive cmpkind := Equals | NotEquals | Greater | GreaterEqual | Less | LessEqual.
Inductive binop := Add | Sub | Mul | Div | Cmp (k : cmpkind) | AssertEq | And | Or.
Inductive unop := Neg | Not.

Inductive rty := RVoid | RNil | RInt | RFloat | RBool | RStr | RUnknown.

Inductive tyass :=
| TARead (n : name)
| TAAccess (a : tyass) (n : name).

(* one TypeConstraint: name and argument identifiers *)
Definition tcons := (name * list name)%type.

Inductive ty :=
| TyImplied
| TyResolved (r : rty)
| TyUser (a : tyass) (args : list ty)
| TyFn (constraints : list (name * list tcons)) (params : list ty) (ret : ty) (pure : bool)
| TyTuple (ts : list ty)
| TyList (t : ty)
| TyGeneric (n : name)
| TyGroup (t : ty).

Inductive varkind := VConst | VMutable.
Inductive assignop := OpNop | OpAdd | OpSub | OpMul | OpDiv.

Inductive file_or_lib :=
| FFile (path : name)     (* rendered path, e.g. /a/b.sy *)
| FLib (lib : name).

Inductive name_ident :=
| NImplicit (n : name)
| NAlias (n : name).

Inductive expr :=
| EGet (a : assignable)
| EBin (o : binop) (l r : expr)
| EUn (u : unop) (e : expr)
| EParen (e : expr)
| EIf (branches : list ifbranch)
| ECase (to_match : expr) (branches : list casebranch) (fall_through : option (list stmt))
| EFn (params : list (name * ty)) (ret : ty) (body : list stmt) (pure : bool)
| EBlob (blob : tyass) (fields : list (name * expr))
| ETuple (es : list expr)
| EList (es : list expr)
| EFloat (text : name)
| EInt (z : N)
| EStr (s : name)
| EBool (b : bool)
| ENil
with assignable :=
| ARead (n : name)
| AVariant (enum_ass : assignable) (variant : name) (value : expr)
| ACall (f : assignable) (args : list expr)
| AArrowCall (e : expr) (f : assignable) (args : list expr)
| AAccess (a : assignable) (n : name)
| AIndex (a : assignable) (e : expr)
| AExpr (e : expr)
with ifbranch :=
| IfBranch (condition : option expr) (body : list stmt)
with casebranch :=
| CaseBranch (pattern : name) (variable : option name) (body : list stmt)
with stmt :=
| SUse (path : name) (nm : name_ident) (file : file_or_lib)
| SFromUse (path : name) (imports : list (name * option name)) (file : file_or_lib)
| SBlob (nm : name) (variables : list name) (fields : list (name * ty)) (external : bool)
| SEnum (nm : name) (variables : list name) (variants : list (name * ty))
| SAssign (kind : assignop) (target : assignable) (value : expr)
| SDef (ident : name) (kind : varkind) (t : ty) (value : expr)
| SExtDef (ident : name) (kind : varkind) (t : ty)
| SLoop (condition : expr) (body : stmt)
| SBreak
| SContinue
| SRet (value : option expr)
| SBlock (statements : list stmt)
| SExpr (value : expr)
| SUnreachable
| SEmpty.

(* ---- decidable equalities on the small enumerations ---- *)
Definition cmpkind_eqb (a b : cmpkind) : bool :=
  match a, b with
  | Equals, Equals | NotEquals, NotEquals | Greater, Greater
  | GreaterEqual, GreaterEqual | Less, Less | LessEqual, LessEqual => true
  | _, _ => false
  end.

Definition binop_eqb (a b : binop) : bool :=
  match a, b with
  | Add, Add | Sub, Sub | Mul, Mul | Div, Div | AssertEq, AssertEq | And, And | Or, Or => true
  | Cmp j, Cmp k => cmpkind_eqb j k
  | _, _ => false
  end.

Definition all_binops : list binop :=
  [Add; Sub; Mul; Div; Cmp Equals; Cmp NotEquals; Cmp Greater; Cmp GreaterEqual; Cmp Less; Cmp LessEqual;
   AssertEq; And; Or].

Fixpoint name_eqb (a b : name) : bool :=
  match a, b with
  | [], [] => true
  | x :: a', y :: b' => N.eqb x y && name_eqb a' b'
  | _, _ => false
  end.

(* lexicographic order on code points (= byte order of the UTF-8 encodings = Rust's String Ord) *)
Fixpoint name_ltb (a b : name) : bool :=
  match a, b with
  | [], [] => false
  | [], _ :: _ => true
  | _ :: _, [] => false
  | x :: a', y :: b' => if N.ltb x y then true else if N.ltb y x then false else name_ltb a' b'
  end.

(* char::is_uppercase of the first character; identifiers are ASCII (a letter or underscore, then letters, digits, underscores), for which
   is_uppercase is 'A'..'Z'.  (Only ever applied to Identifier token payloads.) *)
Definition is_capitalized (n : name) : bool :=
  match n with
  | c :: _ => N.leb 65 c && N.leb c 90
  | [] => false
  end.

(* ---- Parenthesis-insensitive view (what C13 compares): remove every EParen node, everywhere ---- *)
Fixpoint strip_e (e : expr) : expr :=
  match e with
  | EGet a => EGet (strip_a a)
  | EBin o l r => EBin o (strip_e l) (strip_e r)
  | EUn u x => EUn u (strip_e x)
  | EParen x => strip_e x
  | EIf bs => EIf ((fix go (l : list ifbranch) := match l with
                                                  | [] => []
                                                  | b :: l' => strip_ib b :: go l'
                                                  end) bs)
  | ECase m bs ft =>
      ECase (strip_e m)
            ((fix go (l : list casebranch) := match l with [] => [] | b :: l' => strip_cb b :: go l' end) bs)
            (match ft with
             | Some b => Some ((fix go (l : list stmt) := match l with [] => [] | s :: l' => strip_s s :: go l' end) b)
             | None => None
             end)
  | EFn ps r b pu =>
      EFn ps r ((fix go (l : list stmt) := match l with [] => [] | s :: l' => strip_s s :: go l' end) b) pu
  | EBlob b fs =>
      EBlob b ((fix go (l : list (name * expr)) :=
                  match l with [] => [] | (n, x) :: l' => (n, strip_e x) :: go l' end) fs)
  | ETuple es => ETuple ((fix go (l : list expr) := match l with [] => [] | x :: l' => strip_e x :: go l' end) es)
  | EList es => EList ((fix go (l : list expr) := match l with [] => [] | x :: l' => strip_e x :: go l' end) es)
  | EFloat _ | EInt _ | EStr _ | EBool _ | ENil => e
  end
with strip_a (a : assignable) : assignable :=
  match a with
  | ARead n => ARead n
  | AVariant ea v x => AVariant (strip_a ea) v (strip_e x)
  | ACall f args =>
      ACall (strip_a f) ((fix go (l : list expr) := match l with [] => [] | x :: l' => strip_e x :: go l' end) args)
  | AArrowCall x f args =>
      AArrowCall (strip_e x) (strip_a f)
                 ((fix go (l : list expr) := match l with [] => [] | x :: l' => strip_e x :: go l' end) args)
  | AAccess b n => AAccess (strip_a b) n
  | AIndex b x => AIndex (strip_a b) (strip_e x)
  | AExpr x => AExpr (strip_e x)
  end
with strip_ib (b : ifbranch) : ifbranch :=
  match b with
  | IfBranch c body =>
      IfBranch (match c with Some x => Some (strip_e x) | None => None end)
               ((fix go (l : list stmt) := match l with [] => [] | s :: l' => strip_s s :: go l' end) body)
  end
with strip_cb (b : casebranch) : casebranch :=
  match b with
  | CaseBranch p v body =>
      CaseBranch p v ((fix go (l : list stmt) := match l with [] => [] | s :: l' => strip_s s :: go l' end) body)
  end
with strip_s (s : stmt) : stmt :=
  match s with
  | SAssign k t v => SAssign k (strip_a t) (strip_e v)
  | SDef i k t v => SDef i k t (strip_e v)
  | SLoop c b => SLoop (strip_e c) (strip_s b)
  | SRet (Some v) => SRet (Some (strip_e v))
  | SBlock ss => SBlock ((fix go (l : list stmt) := match l with [] => [] | s :: l' => strip_s s :: go l' end) ss)
  | SExpr v => SExpr (strip_e v)
  | _ => s
  end.
