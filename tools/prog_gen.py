"""G-prog: seed-driven generator of well-typed (by construction), terminating, `--no-std` Sylt programs that are
dense in the constructs the backend properties talk about: recursion, higher-order calls, closures over
mutable variables, if-/case-expressions held across calls, short-circuit operators with side effects,
loops with break/continue, early ret, blobs with self, enums, tuples, lists, globals.
Every program declares `print` itself and prints observations."""

HEADER = "print: fn *X -> void : external\n"


class Gen:
    def __init__(self, r, size=3):
        self.r = r
        self.size = size
        self.n = 0
        self.funcs = []       # (name, arity)  int^arity -> int, terminating for every argument
        self.globals_int = []
        self.lines = []

    def fresh(self, p="v"):
        self.n += 1
        return "%s%d" % (p, self.n)

    # ---- expressions ------------------------------------------------------------------------
    def int_expr(self, env, d):
        """env: dict(ints=[names], bools=[...], muts=[mutable int names], fns=[(name, arity)], rec=(name,var)|None)"""
        r = self.r
        if d <= 0 or r.random() < 0.25:
            c = r.random()
            if env["ints"] and c < 0.6:
                return r.choice(env["ints"])
            return str(r.randint(0, 9))
        k = r.random()
        if k < 0.30:
            op = r.choice(["+", "-", "*"])
            return "%s %s %s" % (self.int_atom(env, d - 1), op, self.int_atom(env, d - 1))
        if k < 0.45 and (env["fns"] or self.funcs):
            name, ar = r.choice(env["fns"] + self.funcs)
            args = [self.int_expr(env, d - 1) for _ in range(ar)]
            form = r.random()
            if ar >= 1 and form < 0.2:
                return "(%s -> %s(%s))" % (args[0], name, ", ".join(args[1:]))
            return "%s(%s)" % (name, ", ".join(args))
        if k < 0.65:
            return "(if %s do %s else %s end)" % (self.bool_expr(env, d - 1), self.int_expr(env, d - 1),
                                                 self.int_expr(env, d - 1))
        if k < 0.72:
            return "(if %s do %s elif %s do %s else %s end)" % (
                self.bool_expr(env, d - 1), self.int_expr(env, d - 1), self.bool_expr(env, d - 1),
                self.int_expr(env, d - 1), self.int_expr(env, d - 1))
        if k < 0.80:
            return "-%s" % self.int_atom(env, d - 1)
        if k < 0.88:
            t = "(%s, %s)" % (self.int_expr(env, d - 1), self.int_expr(env, d - 1))
            return "%s[%d]" % (t, r.randint(0, 1))
        if env.get("rec") and k < 0.97:
            name, var = env["rec"]
            return "%s(%s - 1)" % (name, var)
        return "(%s)" % self.int_expr(env, d - 1)

    def int_atom(self, env, d):
        e = self.int_expr(env, d)
        if " " in e and not e.startswith("("):
            return "(" + e + ")"
        return e

    def bool_expr(self, env, d):
        r = self.r
        if d <= 0 or r.random() < 0.2:
            if env["bools"] and r.random() < 0.5:
                return r.choice(env["bools"])
            return r.choice(["true", "false"])
        k = r.random()
        if k < 0.45:
            return "%s %s %s" % (self.int_atom(env, d - 1), r.choice(["<", "<=", ">", ">=", "==", "!="]),
                                 self.int_atom(env, d - 1))
        if k < 0.62:
            return "(%s) %s (%s)" % (self.bool_expr(env, d - 1), r.choice(["and", "or"]), self.bool_expr(env, d - 1))
        if k < 0.65:
            # an assertion guarded by a short-circuit operator: it must only run (and possibly fail) when the left
            # operand lets the right one be evaluated
            a = self.int_atom(env, d - 1)
            b = a if r.random() < 0.4 else self.int_atom(env, d - 1)
            return "(%s) %s (%s <=> %s)" % (self.bool_expr(env, d - 1), r.choice(["and", "or"]), a, b)
        if k < 0.75:
            return "not (%s)" % self.bool_expr(env, d - 1)
        if k < 0.80:
            return "(%s, %s) %s (%s, %s)" % (self.int_expr(env, d - 1), self.int_expr(env, d - 1),
                                             r.choice(["==", "!=", "<", "<=", ">", ">="]), self.int_expr(env, d - 1),
                                             self.int_expr(env, d - 1))
        if k < 0.85:
            # nested tuples whose leading (nested) component is equal on both sides but a different object: ordering and
            # equality must be structural at every depth
            a, b = self.int_atom(env, d - 1), self.int_atom(env, d - 1)
            x, y = self.int_atom(env, d - 1), self.int_atom(env, d - 1)
            shape = r.choice(["((%s, %s), %s) %s ((%s, %s), %s)", "(%s, (%s, %s)) %s (%s, (%s, %s))", "(((%s,), %s), %s) %s (((%s,), %s), %s)"])
            op = r.choice(["<", "<=", ">", ">=", "==", "!="])
            if shape.startswith("(%s, ("):
                return shape % (a, b, x, op, a, b, y)
            return shape % (a, b, x, op, a, b, y)
        return "\"%s\" == \"%s\"" % (r.choice(["a", "b", "ab"]), r.choice(["a", "b", "ab"]))

    # ---- statements --------------------------------------------------------------------------
    def block(self, env, d, ind, n=None, in_loop=False, tail_ok=True):
        self._tail_bare = False
        out = self.block0(env, d, ind, n, in_loop)
        if not tail_ok and self._tail_bare:
            out.append("%sprint(%d)" % ("  " * ind, self.r.randint(0, 9)))
        self._tail_bare = False
        return out

    def block0(self, env, d, ind, n=None, in_loop=False):
        r = self.r
        env = {k: (list(v) if isinstance(v, list) else v) for k, v in env.items()}
        out = []
        for _ in range(n or r.randint(1, 4)):
            k = r.random()
            pad = "  " * ind
            self._tail_bare = 0.84 <= k < 0.95
            if k < 0.22:
                v = self.fresh()
                if r.random() < 0.5:
                    out.append("%s%s := %s" % (pad, v, self.int_expr(env, d)))
                    env["muts"].append(v)
                else:
                    ann = ": int :" if r.random() < 0.3 else " ::"
                    out.append("%s%s%s %s" % (pad, v, ann, self.int_expr(env, d)))
                env["ints"].append(v)
            elif k < 0.34 and env["muts"]:
                v = r.choice(env["muts"])
                out.append("%s%s %s %s" % (pad, v, r.choice(["=", "+=", "-=", "*="]), self.int_expr(env, d)))
            elif k < 0.44:
                out.append("%sprint(%s)" % (pad, self.int_expr(env, d)))
            elif k < 0.50:
                out.append("%sprint(%s)" % (pad, self.bool_expr(env, d)))
            elif k < 0.60 and d > 0:
                out.append("%sif %s do" % (pad, self.bool_expr(env, d - 1)))
                out += self.block(env, d - 1, ind + 1, in_loop=in_loop, tail_ok=False)
                if r.random() < 0.5:
                    out.append("%selse" % pad)
                    out += self.block(env, d - 1, ind + 1, in_loop=in_loop, tail_ok=False)
                out.append("%send" % pad)
            elif k < 0.70 and d > 0:
                i = self.fresh("i")
                out.append("%s%s := 0" % (pad, i))
                cond = "%s < %d" % (i, r.randint(1, 4))
                out.append("%sloop %s do" % (pad, cond) if r.random() < 0.7 else "%sloop do\n%s  if not (%s) do break end" % (pad, pad, cond))
                out.append("%s  %s += 1" % (pad, i))
                inner = dict(env)
                inner["ints"] = env["ints"] + [i]
                if r.random() < 0.3:
                    out.append("%s  if %s == %d do continue end" % (pad, i, r.randint(1, 3)))
                if r.random() < 0.2:
                    out.append("%s  if %s == %d do break end" % (pad, i, r.randint(2, 4)))
                out += self.block(inner, d - 1, ind + 1, in_loop=True)
                out.append("%send" % pad)
            elif k < 0.78 and d > 0:
                # closure over a mutable variable, called twice
                c = self.fresh("c")
                f = self.fresh("k")
                out.append("%s%s := %s" % (pad, c, self.int_expr(env, 0)))
                out.append("%s%s :: fn -> int do" % (pad, f))
                out.append("%s  %s += %s" % (pad, c, self.int_expr(env, d - 1)))
                out.append("%s  %s" % (pad, c))
                out.append("%send" % pad)
                out.append("%sprint(%s() + %s())" % (pad, f, f))
                out.append("%sprint(%s)" % (pad, c))
                # a read of the captured variable held across a call that mutates it (left-to-right evaluation)
                shape = r.randrange(5)
                if shape == 0:
                    out.append("%sprint(%s + %s())" % (pad, c, f))
                elif shape == 1:
                    out.append("%sprint((%s, %s(), %s))" % (pad, c, f, c))
                elif shape == 2:
                    out.append("%sprint(%s * 10 + %s() - %s)" % (pad, c, f, c))
                elif shape == 3:
                    out.append("%sprint([%s, %s(), %s] == [%s, %s, %s])" % (pad, c, f, c, self.int_expr(env, 0), c, c))
                else:
                    out.append("%sprint(%s() + %s)" % (pad, f, c))
                env["ints"].append(c)
                env["muts"].append(c)
                env["fns"] = env["fns"] + [(f, 0)]
            elif k < 0.84:
                out.append("%s%s <=> %s" % (pad, self.int_atom(env, 0), "0 + " + self.int_atom(env, 0)) if False else
                           "%sprint((%s, %s))" % (pad, self.int_expr(env, d), self.bool_expr(env, d)))
            elif k < 0.90:
                out.append("%s%s" % (pad, self.bool_expr(env, d)))      # unused expression statement
            elif k < 0.95:
                out.append("%s%s" % (pad, self.int_atom(env, d)))       # unused expression statement
            else:
                v = self.fresh("b")
                out.append("%s%s := %s" % (pad, v, self.bool_expr(env, d)))
                env["bools"].append(v)
        return out

    def function(self, i):
        r = self.r
        name = "f%d" % i
        ar = r.randint(1, 2)
        params = ["n"] + ["m"][:ar - 1]
        ann = r.random() < 0.5
        sig = ", ".join("%s: int" % p if ann else (p + ": int") for p in params)
        env = {"ints": list(params) + self.globals_int, "bools": [], "muts": [], "fns": [], "rec": None}
        lines = ["%s :: fn %s -> int do" % (name, sig)]
        # recursion on the first parameter, guarded
        lines.append("  if n <= 0 do ret %s end" % self.int_expr(env, 1))
        lines.append("  if n > 4 do ret %s(4%s) end" % (name, ", m" if ar == 2 else ""))
        env_rec = dict(env)
        env_rec["rec"] = None
        body = self.block(env, self.size - 1, 1, n=r.randint(0, 2))
        lines += body
        rec_call = "%s(n - 1%s)" % (name, ", m" if ar == 2 else "")
        shape = r.randrange(5)
        held = self.int_expr(env, 2)
        if shape == 0:
            lines.append("  (if n > 1 do %s else %s end) + %s" % (self.int_expr(env, 1), self.int_expr(env, 1), rec_call))
        elif shape == 1:
            lines.append("  %s + (%s) * 2" % (rec_call, held))
        elif shape == 2:
            lines.append("  x := %s" % held)
            lines.append("  y := %s" % rec_call)
            lines.append("  x + y")
        elif shape == 3:
            lines.append("  ret (%s, %s)[%d]" % (held, rec_call, r.randint(0, 1)))
        else:
            lines.append("  if (%s) and %s > 0 do ret 1 end" % (self.bool_expr(env, 1), rec_call))
            lines.append("  %s" % held)
        lines.append("end")
        self.funcs.append((name, ar))
        return lines

    def activation_funcs(self):
        """functions whose result depends on every activation having its own parameters and locals: closures that
        capture a parameter and are called after later activations (tail calls included) have run"""
        r = self.r
        fs, calls = [], []
        k = r.randrange(6)
        a, b, c = r.randint(1, 4), r.randint(2, 9), r.randint(0, 5)
        if k == 0:      # continuation-passing tail recursion; the continuation captures the parameter
            inner = r.choice(["ret n", "ret n * %d" % b, "ret n + k()", "n * 10 + k()"])
            fs += ["walk :: fn n: int, k: fn -> int -> int do",
                   "  if n <= 0 do ret k() end",
                   "  ret walk(n - 1, fn -> int do %s end)" % inner,
                   "end"]
            calls.append("print(walk(%d, fn -> int do ret %d end))" % (a, c))
        elif k == 1:    # the closure made in a tail-called activation
            fs += ["mk :: fn n: int -> fn -> int do",
                   "  if n > %d do ret mk(n - 1) end" % a,
                   "  fn -> int do ret n * %d end" % b,
                   "end"]
            calls += ["ka :: mk(%d)" % (a + 2), "kb :: mk(%d)" % a, "print(ka() + kb())", "print(ka())"]
        elif k == 2:    # a closure created before the recursive call and used after it
            fs += ["hold :: fn n: int -> int do",
                   "  if n <= 0 do ret %d end" % c,
                   "  k :: fn -> int do ret n end",
                   "  loc := n * %d" % b,
                   "  r := hold(n - 1)",
                   "  r * 10 + k() + loc",
                   "end"]
            calls.append("print(hold(%d))" % a)
        elif k == 3:    # tail call as the implicit result, with swapped / shifted arguments
            fs += ["acc :: fn n: int, x: int, y: int -> int do",
                   "  if n <= 0 do ret x * 100 + y end",
                   "  acc(n - 1, y, x + n)",
                   "end"]
            calls.append("print(acc(%d, %d, %d))" % (a, b, c))
        elif k == 4:    # a counter per activation: closures over a mutable local, two instances alive at once
            fs += ["counter :: fn start: int -> fn -> int do",
                   "  cnt := start",
                   "  fn -> int do",
                   "    cnt += 1",
                   "    cnt",
                   "  end",
                   "end"]
            calls += ["c1 :: counter(%d)" % b, "c2 :: counter(%d)" % c, "print(c1() + c1() * 10)", "print(c2())", "print(c1())"]
        else:           # closure capturing a parameter, passed down a tail call and called at the bottom with the live parameter
            fs += ["down :: fn n: int, first: fn -> int -> int do",
                   "  if n <= 0 do ret first() end",
                   "  if n == %d do ret down(n - 1, fn -> int do ret n end) end" % a,
                   "  ret down(n - 1, first)",
                   "end"]
            calls.append("print(down(%d, fn -> int do ret 99 end))" % (a + r.randint(0, 2)))
        return fs, calls

    def program(self):
        r = self.r
        out = [HEADER.rstrip("\n")]
        act_fs, act_calls = self.activation_funcs() if r.random() < 0.6 else ([], [])
        out += act_fs
        for g in range(r.randint(0, 2)):
            nm = "g%d" % g
            out.append("%s :: %d" % (nm, r.randint(0, 9)))
            self.globals_int.append(nm)
        if r.random() < 0.5:
            out += ["P :: blob { x: int, y: int }",
                    "mkp :: fn a: int, b: int -> P do P { x: a, y: b } end"]
            self.has_blob = True
        else:
            self.has_blob = False
        if r.random() < 0.5:
            out += ["E :: enum Num int, Two (int, int), Flag bool, Txt str, None end"]
            self.has_enum = True
        else:
            self.has_enum = False
        for i in range(r.randint(1, 3)):
            out += self.function(i)
        env = {"ints": list(self.globals_int), "bools": [], "muts": [], "fns": [], "rec": None}
        out.append("start :: fn do")
        out += self.block(env, self.size, 1, n=r.randint(2, 5))
        if self.has_blob:
            out += ["  p := mkp(%s, %s)" % (self.int_expr(env, 1), self.int_expr(env, 1)),
                    "  p.x = p.x + %s" % self.int_expr(env, 1),
                    "  p.y += 1",
                    "  print(p.x * 10 + p.y)",
                    "  bump :: fn q: P -> int do",
                    "    q.x += 1",
                    "    q.x",
                    "  end",
                    "  print(p.x + bump(p))",
                    "  print((p.x, bump(p), p.x))"]
        if self.has_enum:
            e = self.fresh("e")
            out += ["  %s := %s" % (e, r.choice(["E.Num %s" % self.int_atom(env, 1), "E.Two (1, %s)" % self.int_atom(env, 0), "E.None"])),
                    "  print(case %s do" % e,
                    "    Num n -> n + 1 end",
                    "    Two t -> t[0] + t[1] end",
                    "    else %s end" % self.int_expr(env, 1),
                    "  end)"]
            # payloads that are falsy or empty in Lua (false, 0, "") must come back from a case binding unchanged
            f = self.fresh("e")
            pay = r.choice(["E.Flag false", "E.Flag true", "E.Flag (%s)" % self.bool_expr(env, 1), "E.Num 0", "E.Txt \"\"",
                            "E.Two (0, 0)"])
            out += ["  %s := %s" % (f, pay),
                    "  print(case %s do" % f,
                    "    Flag b -> (if b do 1 else 2 end) end",
                    "    Num n -> (if n == 0 do 3 else 4 end) end",
                    "    Txt s -> (if s == \"\" do 5 else 6 end) end",
                    "    Two t -> (if t == (0, 0) do 7 else 8 end) end",
                    "    else 9 end",
                    "  end)",
                    "  case %s do" % f,
                    "    Flag b ->",
                    "      print(b)",
                    "      print(b == false)",
                    "    end",
                    "    else print(0) end",
                    "  end"]
        out += ["  print([1, 2] == [1, %s])" % self.int_atom(env, 0)]
        for name, ar in self.funcs:
            out.append("  print(%s(%s))" % (name, ", ".join(str(r.randint(0, 5)) for _ in range(ar))))
        out += ["  " + c for c in act_calls]
        out.append("end")
        return "\n".join(out) + "\n"


def program(r, size=3):
    return Gen(r, size).program()


# ------------------------------------------------------------------------------------------------
# G-frag: programs inside the fragment of the C01 preservation THEOREM (coq/Pres/Frag.v).
# An extra stream: tools/props/c01.py evaluates `frag` on every program of the tie and reports how many
# are inside; this stream makes sure the fragment itself is exercised by the translation validation too.
# stage 1: `start` with definitions of int/bool expressions, print calls, + - *, comparisons, <=>,
#          and/or/not, unary minus, nested blocks;
# stage 2: + mutable variables and assignments (= += -= *=), if/elif/else statements, if-expressions,
#          loops with break/continue.
# stages 3..6: global values, top-level functions, early returns, definitions after start.
# stage 7: local functions in the body of `start` that capture and change its mutable locals.
# stage 8: local functions in nested blocks, if-branches and loop bodies too.
# stage 9: strings (literals, concatenation with +, comparisons, ==, <=>, print).
# stage 10: higher-order functions: functions (top-level, local closures, function parameters) passed to function
#           parameters and called there.
# stage 11: lambda expressions as arguments.
# stage 12: functions that return closures (over their parameters and a mutable local), passed on to function parameters.
# stage 13: function-valued constants  c :: mk(e)  /  c :: f : called by name and passed on.
# stage 14: computed callees  mk(e)(a)  and lambdas called where they are written.
# stage 15: `ret` of a function value as the last statement of a function that returns a function.
# stage 16: early returns of function values: guards `if c do ret <function value> end` before the last statement.
# stage 17: mutable variables that hold functions, assigned other functions (`h := f`, `h = g`, `h(x)`).

class FragGen:
    def __init__(self, r, stage=1):
        self.r = r
        self.stage = stage
        self.n = 0

    def fresh(self, p="x"):
        self.n += 1
        return "%s%d" % (p, self.n)

    def hof_call(self, env):
        # stage 4e: a function (top-level, local closure or function parameter) passed to a function parameter
        r = self.r
        h, n = r.choice(env["hofs"])
        gs = [f for f, k in env.get("funs", []) if k == 1]
        if self.stage >= 12 and env.get("makers") and r.random() < 0.5:
            # stage 4g: the closure a function returns
            g = "%s(%s)" % (r.choice(env["makers"]), str(r.randint(0, 9)) if r.random() < 0.5 or not env["ints"] else r.choice(env["ints"]))
            return "%s(%s)" % (h, ", ".join([g] + [str(r.randint(0, 3)) if r.random() < 0.5 else self.int_expr(env, 0) for _ in range(n)]))
        if self.stage >= 11 and (not gs or r.random() < 0.5):
            # stage 4f: a lambda expression as the argument; it sees (and may change) the variables in scope
            z = self.fresh("z")
            lenv = {k2: list(v) for k2, v in env.items()}
            lenv["ints"] = list(env["ints"]) + [z]
            body = []
            if env.get("muts") and r.random() < 0.5:
                body.append("%s %s %s" % (r.choice(env["muts"]), r.choice(["+=", "-="]), self.int_expr(lenv, 0)))
            body.append(self.int_expr(lenv, 1))
            g = "fn %s: int -> int do\n%s\nend" % (z, "\n".join(body))
        else:
            g = r.choice(gs)
        return "%s(%s)" % (h, ", ".join([g] + [str(r.randint(0, 3)) if r.random() < 0.5 else self.int_expr(env, 0) for _ in range(n)]))

    def int_expr(self, env, d):
        r = self.r
        if self.stage >= 14 and d > 0 and r.random() < 0.12:
            # stage 4i: the callee is computed
            if env.get("makers") and r.random() < 0.7:
                return "%s(%s)(%s)" % (r.choice(env["makers"]), r.choice(env["ints"] + [str(r.randint(0, 9))]), self.int_expr(env, d - 1))
            z = self.fresh("z")
            lenv = {k2: list(v) for k2, v in env.items()}
            lenv["ints"] = list(env["ints"]) + [z]
            return "(fn %s: int -> int do\n%s\nend)(%s)" % (z, self.int_expr(lenv, 1), self.int_expr(env, d - 1))
        if self.stage >= 10 and env.get("hofs") and d > 0 and r.random() < 0.25 and (self.stage >= 11 or any(k == 1 for _, k in env.get("funs", []))):
            return self.hof_call(env)
        if self.stage >= 4 and env.get("funs") and d > 0 and r.random() < 0.2:
            f, n = r.choice(env["funs"])
            return "%s(%s)" % (f, ", ".join(str(r.randint(0, 3)) if r.random() < 0.5 else self.int_expr(env, 0) for _ in range(n)))
        if d <= 0 or r.random() < 0.3:
            if env["ints"] and r.random() < 0.65:
                return r.choice(env["ints"])
            return str(r.randint(0, 12))
        k = r.random()
        if k < 0.6:
            return "(%s %s %s)" % (self.int_expr(env, d - 1), r.choice(["+", "-", "*"]), self.int_expr(env, d - 1))
        if k < 0.7:
            return "(-%s)" % self.int_expr(env, d - 1)
        if self.stage >= 2 and k < 0.9:
            return "(if %s do %s else %s end)" % (self.bool_expr(env, d - 1), self.int_expr(env, d - 1), self.int_expr(env, d - 1))
        if self.stage >= 4 and env.get("funs") and k < 0.98:
            f, n = r.choice(env["funs"])
            return "%s(%s)" % (f, ", ".join(str(r.randint(0, 3)) if r.random() < 0.5 else self.int_expr(env, 0) for _ in range(n)))
        return self.int_expr(env, d - 1)

    def str_expr(self, env, d):
        r = self.r
        strs = env.get("strs", [])
        if d <= 0 or r.random() < 0.4:
            if strs and r.random() < 0.6:
                return r.choice(strs)
            return '"%s"' % "".join(r.choice("abc xyz,.!-012") for _ in range(r.randint(0, 5)))
        k = r.random()
        if k < 0.75:
            return "(%s + %s)" % (self.str_expr(env, d - 1), self.str_expr(env, d - 1))
        return "(if %s do %s else %s end)" % (self.bool_expr(env, d - 1), self.str_expr(env, d - 1), self.str_expr(env, d - 1))

    def bool_expr(self, env, d):
        r = self.r
        if self.stage >= 9 and d > 0 and r.random() < 0.2:
            return "(%s %s %s)" % (self.str_expr(env, d - 1), r.choice(["<", "<=", ">", ">=", "==", "!="]), self.str_expr(env, d - 1))
        if d <= 0 or r.random() < 0.2:
            if env["bools"] and r.random() < 0.6:
                return r.choice(env["bools"])
            return r.choice(["true", "false"])
        k = r.random()
        if k < 0.5:
            return "(%s %s %s)" % (self.int_expr(env, d - 1), r.choice(["<", "<=", ">", ">=", "==", "!="]), self.int_expr(env, d - 1))
        if k < 0.75:
            return "(%s %s %s)" % (self.bool_expr(env, d - 1), r.choice(["and", "or"]), self.bool_expr(env, d - 1))
        if k < 0.85:
            return "(not %s)" % self.bool_expr(env, d - 1)
        return "(%s %s %s)" % (self.bool_expr(env, d - 1), r.choice(["==", "!="]), self.bool_expr(env, d - 1))

    def block(self, env, depth, ind, n, in_loop=False):
        r = self.r
        env = {k: list(v) for k, v in env.items()}
        pad = "  " * ind
        out = []
        for _ in range(n):
            if self.stage >= 8 and r.random() < 0.2:
                # stage 4c': a local function in a nested list (block, branch, loop body); it captures the variables of
                # this execution of the list, assigns a captured mutable one, and is called until the end of the list
                out += self.local_function(env, ind)
                continue
            if self.stage >= 9 and r.random() < 0.3:
                # stage 4d-s: strings -- literals, + (concatenation), comparisons, ==, <=>, print
                env.setdefault("strs", []); env.setdefault("mstrs", [])
                k = r.random()
                if k < 0.35:
                    x = self.fresh("s")
                    mut = r.random() < 0.5
                    out.append("%s%s %s %s" % (pad, x, ":=" if mut else "::", self.str_expr(env, 2)))
                    env["strs"].append(x)
                    if mut:
                        env["mstrs"].append(x)
                elif k < 0.5 and env["mstrs"]:
                    out.append("%s%s %s %s" % (pad, r.choice(env["mstrs"]), r.choice(["=", "+="]), self.str_expr(env, 1)))
                elif k < 0.6:
                    e = self.str_expr(env, 1)
                    out.append("%s%s <=> %s" % (pad, e, e))
                else:
                    out.append("%sprint(%s)" % (pad, self.str_expr(env, 2)))
                continue
            k = r.random()
            if k < 0.25:
                x = self.fresh()
                mut = self.stage >= 2 and r.random() < 0.5
                out.append("%s%s %s %s" % (pad, x, ":=" if mut else "::", self.int_expr(env, 2)))
                env["ints"].append(x)
                if mut:
                    env["muts"].append(x)
            elif k < 0.35:
                b = self.fresh("b")
                out.append("%s%s :: %s" % (pad, b, self.bool_expr(env, 2)))
                env["bools"].append(b)
            elif k < 0.55:
                out.append("%sprint(%s)" % (pad, self.int_expr(env, 2) if r.random() < 0.7 else self.bool_expr(env, 2)))
            elif k < 0.62:
                e = self.int_expr(env, 1)
                out.append("%s%s <=> %s" % (pad, e, e if r.random() < 0.9 else self.int_expr(env, 1)))
            elif k < 0.70 and depth > 0:
                out.append(pad + "do")
                out += self.block(env, depth - 1, ind + 1, r.randint(1, 3), in_loop)
                out.append(pad + "end")
            elif self.stage >= 2 and k < 0.80 and env["muts"]:
                out.append("%s%s %s %s" % (pad, r.choice(env["muts"]), r.choice(["=", "+=", "-=", "*="]), self.int_expr(env, 1)))
            elif self.stage >= 2 and k < 0.90 and depth > 0:
                out.append("%sif %s do" % (pad, self.bool_expr(env, 1)))
                out += self.block(env, depth - 1, ind + 1, r.randint(1, 2), in_loop)
                if r.random() < 0.4:
                    out.append("%selif %s do" % (pad, self.bool_expr(env, 1)))
                    out += self.block(env, depth - 1, ind + 1, r.randint(1, 2), in_loop)
                if r.random() < 0.6:
                    out.append(pad + "else")
                    out += self.block(env, depth - 1, ind + 1, r.randint(1, 2), in_loop)
                out.append(pad + "end")
            elif self.stage >= 2 and k < 0.97 and depth > 0:
                i = self.fresh("i")
                out.append("%s%s := 0" % (pad, i))
                out.append("%sloop %s < %d do" % (pad, i, r.randint(1, 4)))
                out.append("%s  %s += 1" % (pad, i))
                env2 = {k2: list(v) for k2, v in env.items()}
                env2["ints"].append(i)
                if r.random() < 0.4:
                    out.append("%s  if %s do" % (pad, self.bool_expr(env2, 1)))
                    out.append("%s    %s" % (pad, r.choice(["break", "continue"])))
                    out.append("%s  end" % pad)
                out += self.block(env2, depth - 1, ind + 1, r.randint(1, 3), True)
                out.append(pad + "end")
            elif self.stage >= 2 and in_loop and k < 0.99:
                out.append("%sif %s do" % (pad, self.bool_expr(env, 1)))
                out.append("%s  %s" % (pad, r.choice(["break", "continue"])))
                out.append(pad + "end")
            else:
                out.append("%sprint(%s)" % (pad, self.int_expr(env, 1)))
        return out

    def program(self):
        env = {"ints": [], "bools": [], "muts": []}
        out = [HEADER.rstrip("\n")]
        if self.stage >= 3:
            # stage 3a: top-level global definitions (values of the expression fragment over earlier globals)
            for _ in range(self.r.randint(1, 4)):
                if self.r.random() < 0.7:
                    g = self.fresh("g")
                    out.append("%s :: %s" % (g, self.int_expr(env, 2)))
                    env["ints"].append(g)
                else:
                    g = self.fresh("h")
                    out.append("%s :: %s" % (g, self.bool_expr(env, 2)))
                    env["bools"].append(g)
        if self.stage >= 4:
            # stage 3b: top-level functions (parameters, value of the last expression, recursion), called by name
            for _ in range(self.r.randint(1, 3) if self.stage < 12 else self.r.randint(3, 5)):
                out += self.function(env)
        if self.stage >= 13 and env.get("makers") and self.r.random() < 0.6:
            # stage 4h: a global function-valued constant
            for _ in range(self.r.randint(1, 2)):
                gk = self.fresh("gk")
                out.append("%s :: %s(%s)" % (gk, self.r.choice(env["makers"]), self.r.choice(env["ints"] + [str(self.r.randint(0, 9))])))
                env.setdefault("funs", []).append((gk, 1))
        out.append("start :: fn do")
        if self.stage >= 7:
            # stage 4c: local functions at the top level of a body; they capture (and change) the mutable locals of
            # the enclosing function, see later assignments, call each other and the outer functions
            out += self.body_with_local_functions(env, 1)
        else:
            out += self.block(env, 2, 1, self.r.randint(3, 8))
        out.append("end")
        if self.stage >= 6:
            # stage 4b: outer definitions after start (the resolver keeps them after it: start does not use them)
            env2 = {k2: list(v) for k2, v in env.items()}
            for _ in range(self.r.randint(1, 3)):
                if self.r.random() < 0.5:
                    g = self.fresh("t")
                    out.append("%s :: %s" % (g, self.int_expr(env2, 2)))
                    env2["ints"].append(g)
                else:
                    out += self.function(env2)
        return "\n".join(out) + "\n"

    def local_function(self, env, ind):
        r = self.r
        pad = "  " * ind
        env.setdefault("funs", [])
        lf = self.fresh("lf")
        nparams = r.randint(0, 2)
        params = [self.fresh("p") for _ in range(nparams)]
        fenv = {"ints": list(env["ints"]) + params, "bools": list(env["bools"]), "muts": list(env["muts"]), "funs": list(env["funs"]),
                "hofs": list(env.get("hofs", []))}
        out = ["%s%s :: fn %s-> int do" % (pad, lf, "".join("%s: int, " % p for p in params)[:-2] + " " if params else "")]
        if env["muts"]:
            out.append("%s  %s %s %s" % (pad, r.choice(env["muts"]), r.choice(["+=", "-=", "="]), self.int_expr(fenv, 0)))
        out += self.block(fenv, 1, ind + 1, r.randint(0, 2))
        out.append("%s  %s" % (pad, self.int_expr(fenv, 1)))
        out.append("%send" % pad)
        env["funs"].append((lf, nparams))
        out.append("%sprint(%s(%s))" % (pad, lf, ", ".join(self.int_expr(env, 0) for _ in range(nparams))))
        return out

    def body_with_local_functions(self, env, ind):
        r = self.r
        pad = "  " * ind
        env = {k: list(v) for k, v in env.items()}
        env.setdefault("funs", [])
        out = []
        for _ in range(r.randint(1, 2)):
            m = self.fresh("m")
            out.append("%s%s := %s" % (pad, m, self.int_expr(env, 1)))
            env["ints"].append(m); env["muts"].append(m)
        if self.stage >= 13 and env.get("makers"):
            # stage 4h: constants that hold the closures functions return (each its own captured state), and aliases
            for _ in range(r.randint(1, 3)):
                cf = self.fresh("cf")
                out.append("%s%s :: %s(%s)" % (pad, cf, r.choice(env["makers"]), r.choice(env["ints"] + [str(r.randint(0, 9))])))
                env["funs"].append((cf, 1))
                out.append("%sprint(%s(%s))" % (pad, cf, self.int_expr(env, 0)))
            one = [f for f, k in env["funs"] if k == 1]
            if one and r.random() < 0.5:
                al = self.fresh("al")
                out.append("%s%s :: %s" % (pad, al, r.choice(one)))
                env["funs"].append((al, 1))
            for _ in range(r.randint(1, 2)):
                out.append("%sprint(%s(%s))" % (pad, r.choice([f for f, k in env["funs"] if k == 1]), self.int_expr(env, 1)))
        if self.stage >= 17:
            # stage 4l: a mutable variable of function type: defined, called, assigned (a name, a call that returns a
            # function, a lambda), called again; the local functions defined later capture it
            def fval():
                one = [f0 for f0, k0 in env["funs"] if k0 == 1]
                ch = r.random()
                if ch < 0.4 and one:
                    return r.choice(one)
                if ch < 0.7 and env.get("makers"):
                    return "%s(%s)" % (r.choice(env["makers"]), r.choice(env["ints"] + [str(r.randint(0, 9))]))
                w = self.fresh("w")
                return "fn %s: int -> int do\n%s(%s %s %s)\n%send" % (w, pad + "  ", w, r.choice(["+", "-", "*"]), r.choice(env["ints"] + [str(r.randint(0, 9))]), pad)
            mh = self.fresh("mh")
            out.append("%s%s := %s" % (pad, mh, fval()))
            out.append("%sprint(%s(%s))" % (pad, mh, self.int_expr(env, 0)))
            for _ in range(r.randint(1, 2)):
                out.append("%s%s = %s" % (pad, mh, fval()))
                out.append("%sprint(%s(%s))" % (pad, mh, self.int_expr(env, 1)))
            env["funs"].append((mh, 1))
            env.setdefault("mfuns", []).append(mh)
        if self.stage >= 12 and env.get("makers") and env.get("hofs"):
            for _ in range(r.randint(1, 2)):
                h, n = r.choice(env["hofs"])
                g = "%s(%s)" % (r.choice(env["makers"]), r.choice(env["ints"] + [str(r.randint(0, 9))]))
                out.append("%sprint(%s(%s))" % (pad, h, ", ".join([g] + [self.int_expr(env, 0) for _ in range(n)])))
        for _ in range(r.randint(1, 3)):
            lf = self.fresh("lf")
            nparams = r.randint(0, 2)
            params = [self.fresh("p") for _ in range(nparams)]
            fenv = {"ints": list(env["ints"]) + params, "bools": list(env["bools"]), "muts": list(env["muts"]), "funs": list(env["funs"]),
                    "hofs": list(env.get("hofs", []))}
            out.append("%s%s :: fn %s-> int do" % (pad, lf, "".join("%s: int, " % p for p in params)[:-2] + " " if params else ""))
            out.append("%s  %s %s %s" % (pad, r.choice(env["muts"]), r.choice(["+=", "-=", "="]), self.int_expr(fenv, 0)))
            out += self.block(fenv, 1, ind + 1, r.randint(0, 2))
            if r.random() < 0.3:
                out.append("%s  if %s do ret %s end" % (pad, self.bool_expr(fenv, 1), self.int_expr(fenv, 1)))
            out.append("%s  %s" % (pad, self.int_expr(fenv, 2)))
            out.append("%send" % pad)
            env["funs"].append((lf, nparams))
            # the enclosing body goes on: assignments to the captured variables, calls
            out += self.block(env, 1, ind, r.randint(0, 2))
            out.append("%s%s %s %s" % (pad, r.choice(env["muts"]), r.choice(["=", "+=", "-="]), self.int_expr(env, 0)))
            out.append("%sprint(%s(%s))" % (pad, lf, ", ".join(self.int_expr(env, 0) for _ in range(nparams))))
            if self.stage >= 17 and env.get("mfuns") and nparams == 1 and r.random() < 0.6:
                mh = r.choice(env["mfuns"])
                if not any(mh in ln for ln in out[-12:] if lf in ln):
                    out.append("%s%s = %s" % (pad, mh, lf))
                    out.append("%sprint(%s(%s))" % (pad, mh, self.int_expr(env, 0)))
            if self.stage >= 10 and env.get("hofs") and nparams == 1:
                h, n = r.choice(env["hofs"])
                out.append("%sprint(%s(%s))" % (pad, h, ", ".join([lf] + [self.int_expr(env, 0) for _ in range(n)])))
            out.append("%sprint(%s)" % (pad, r.choice(env["muts"])))
        out += self.block(env, 2, ind, r.randint(1, 4))
        return out

    def maker(self, env):
        # stage 4g: a function that returns a closure over its parameter and (sometimes) a mutable local of this call
        r = self.r
        f = self.fresh("mk")
        p = self.fresh("p")
        out = ["%s :: fn %s: int -> fn int -> int do" % (f, p)]
        rt = "ret " if self.stage >= 15 and r.random() < 0.6 else ""
        def guards(ints):
            # stage 4k: guards, after the definitions and before the last statement
            if self.stage < 16:
                return
            one = [f0 for f0, k0 in env.get("funs", []) if k0 == 1]
            for _ in range(r.randint(1, 3)):
                cond = "%s %s %d" % (p, r.choice(["==", "<", ">"]), r.randint(0, 6))
                ch = r.random()
                if ch < 0.35 and one:
                    out.append("  if %s do ret %s end" % (cond, r.choice(one)))
                elif ch < 0.6 and env.get("makers"):
                    out.append("  if %s do ret %s(%s) end" % (cond, r.choice(env["makers"]), r.choice(ints + [str(r.randint(0, 9))])))
                else:
                    w = self.fresh("w")
                    out.append("  if %s do" % cond)
                    out.append("    ret fn %s: int -> int do" % w)
                    out.append("      (%s %s %s)" % (w, r.choice(["+", "-", "*"]), r.choice(ints + [str(r.randint(0, 9))])))
                    out.append("    end")
                    out.append("  end")
        if env.get("makers") and r.random() < 0.3:
            guards(list(env["ints"]) + [p])
            out.append("  %s%s(%s + %d)" % (rt, r.choice(env["makers"]), p, r.randint(0, 9)))
        else:
            fenv = {"ints": list(env["ints"]) + [p], "bools": list(env["bools"]), "muts": [], "funs": list(env.get("funs", [])),
                    "hofs": list(env.get("hofs", []))}
            if r.random() < 0.7:
                c = self.fresh("c")
                out.append("  %s := %s" % (c, r.choice([p, str(r.randint(0, 9)), "%s * 2" % p])))
                fenv["ints"].append(c); fenv["muts"].append(c)
            guards(list(fenv["ints"]))
            z = self.fresh("z")
            fenv["ints"].append(z)
            out.append("  %sfn %s: int -> int do" % (rt, z))
            if fenv["muts"]:
                out.append("    %s += %s" % (fenv["muts"][0], r.choice([z, "1", p])))
            out.append("    %s" % self.int_expr(fenv, 1))
            out.append("  end")
        out.append("end")
        env.setdefault("makers", []).append(f)
        return out

    def function(self, env):
        r = self.r
        if self.stage >= 12 and env.get("hofs") and r.random() < 0.5:
            return self.maker(env)
        f = self.fresh("f")
        nparams = r.randint(0, 3)
        params = [self.fresh("p") for _ in range(nparams)]
        fenv = {"ints": list(env["ints"]) + params, "bools": list(env["bools"]), "muts": [], "funs": list(env.get("funs", [])),
                "hofs": list(env.get("hofs", []))}
        if self.stage >= 10 and r.random() < 0.5:
            # stage 4e: a higher-order function: its first parameter is a function that it calls
            q = self.fresh("q")
            fenv["funs"].append((q, 1))
            out = ["%s :: fn %s: fn int -> int%s -> int do" % (f, q, "".join(", %s: int" % p for p in params))]
            out += self.block(fenv, 1, 1, r.randint(0, 2))
            out.append("  (%s(%s) + %s)" % (q, self.int_expr(fenv, 1), self.int_expr(fenv, 2)))
            out.append("end")
            env.setdefault("hofs", []).append((f, nparams))
            return out
        out = ["%s :: fn %s-> int do" % (f, "".join("%s: int, " % p for p in params)[:-2] + " " if params else "")]
        if self.stage >= 5 and r.random() < 0.6:
            # stage 4a: early returns, also from inside a loop and an if
            v = self.fresh("a")
            i = self.fresh("i")
            out.append("  %s := %s" % (v, self.int_expr(fenv, 1)))
            fenv["ints"].append(v); fenv["muts"].append(v)
            out.append("  if %s do ret %s end" % (self.bool_expr(fenv, 1), self.int_expr(fenv, 1)))
            out.append("  %s := 0" % i)
            out.append("  loop %s < %d do" % (i, r.randint(1, 4)))
            out.append("    %s += 1" % i)
            out.append("    %s += %s" % (v, i))
            out.append("    if %s > %d do ret %s * 2 end" % (v, r.randint(3, 15), v))
            out.append("  end")
            if r.random() < 0.5:
                out.append("  ret %s" % self.int_expr(fenv, 1))
            else:
                out.append("  %s" % self.int_expr(fenv, 1))
        elif params and r.random() < 0.5:
            # a recursion that counts its first parameter down
            p0 = params[0]
            rest = ", ".join(params[1:])
            out.append("  if %s <= 0 do %s else %s + %s(%s - 1%s) end" % (p0, self.int_expr(fenv, 1), self.int_expr(fenv, 1), f, p0, (", " + rest) if rest else ""))
        else:
            out += self.block(fenv, 1, 1, r.randint(0, 3))
            out.append("  %s" % self.int_expr(fenv, 2))
        out.append("end")
        env.setdefault("funs", []).append((f, nparams))
        return out


def fragment_program(r, stage=1):
    return FragGen(r, stage).program()
