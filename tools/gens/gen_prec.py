"""GenPrec: re-reads sylt-parser/src/parser.rs and expression.rs and emits coq/Gen/GenPrec.v:
the Prec variants in declaration order (`next()` and `<=` are derived from that order by the
proc-macros in sylt-macro / #[derive(PartialOrd)]), the arms of `precedence()`, the level at which
`unary` parses its operand, the `valid_infix` set, the token -> ExpressionKind map of `infix`, and
the shape facts the model relies on (loop test `prec <= precedence(token)`, right operand parsed at
`precedence(op).next()`, `expression` = `parse_precedence(ctx, Prec::No)`).  Anything unexpected
raises gen_tables.Untranslatable."""
import os
import re

import gen_tables
from gen_tables import Untranslatable

NAME = "GenPrec"


def _read(rel):
    p = os.path.join(gen_tables.REPO, rel)
    try:
        return open(p, encoding="utf-8").read()
    except OSError as e:
        raise Untranslatable("cannot read %s: %s" % (rel, e))


def _strip_comments(s):
    return re.sub(r"//[^\n]*", "", s)


def _fn_body(src, name):
    """text of `fn name...{ ... }` (brace matched), comments stripped"""
    m = re.search(r"\bfn\s+%s\b[^{;]*\{" % re.escape(name), src)
    if not m:
        raise Untranslatable("fn %s not found" % name)
    i = m.end()
    depth = 1
    while depth:
        if i >= len(src):
            raise Untranslatable("fn %s: unbalanced braces" % name)
        c = src[i]
        if c == "{":
            depth += 1
        elif c == "}":
            depth -= 1
        i += 1
    return _strip_comments(src[m.end():i - 1])


def _tokens_of(alt):
    """`T::A | T::B` -> [A, B]"""
    out = []
    for part in alt.split("|"):
        part = part.strip()
        m = re.fullmatch(r"T::([A-Za-z]+)", part)
        if not m:
            raise Untranslatable("unexpected token pattern %r" % part)
        out.append(m.group(1))
    return out


def extract():
    parser = _read("sylt-parser/src/parser.rs")
    expr = _read("sylt-parser/src/expression.rs")
    macro = _read("sylt-macro/src/macro.rs")

    # --- Prec enum, declaration order ------------------------------------------------------
    m = re.search(r"#\[derive\(([^)]*)\)\]\s*pub enum Prec \{([^}]*)\}", parser)
    if not m:
        raise Untranslatable("parser.rs: enum Prec not found")
    derives = [d.strip() for d in m.group(1).split(",")]
    if "sylt_macro::Next" not in derives or "PartialOrd" not in derives:
        raise Untranslatable("parser.rs: Prec no longer derives sylt_macro::Next + PartialOrd (%s)" % derives)
    levels = [v.strip() for v in _strip_comments(m.group(2)).split(",") if v.strip()]
    if not all(re.fullmatch(r"[A-Za-z]+", v) for v in levels) or len(set(levels)) != len(levels):
        raise Untranslatable("parser.rs: unexpected Prec variants %r" % levels)
    # the Next derive: successor in declaration order, last maps to itself
    nb = re.search(r"pub fn derive_next\(.*?\n\}\n", macro, re.S)
    if not nb:
        raise Untranslatable("macro.rs: derive_next not found")
    nbt = re.sub(r"\s+", "", nb.group(0))
    if "#ident::#prev=>#ident::#v," not in nbt or "#ident::#prev=>#ident::#prev," not in nbt:
        raise Untranslatable("macro.rs: derive_next no longer maps each variant to its successor")

    # --- precedence() ----------------------------------------------------------------------
    body = _fn_body(expr, "precedence")
    mm = re.search(r"match token \{(.*)\}", body, re.S)
    if not mm:
        raise Untranslatable("expression.rs: precedence(): match not found")
    arms = []
    default = None
    for arm in re.split(r",\s*\n", mm.group(1)):
        arm = arm.strip().rstrip(",").strip()
        if not arm:
            continue
        a = re.fullmatch(r"(.*?)=>\s*Prec::([A-Za-z]+)", arm, re.S)
        if not a:
            raise Untranslatable("expression.rs: precedence(): unexpected arm %r" % arm)
        pat, lvl = a.group(1).strip(), a.group(2)
        if lvl not in levels:
            raise Untranslatable("precedence(): unknown level %s" % lvl)
        if pat == "_":
            default = lvl
        else:
            if default is not None:
                raise Untranslatable("precedence(): arm after the wildcard")
            for t in _tokens_of(pat):
                if any(t == x for x, _ in arms):
                    raise Untranslatable("precedence(): token %s matched twice" % t)
                arms.append((t, lvl))
    if default is None:
        raise Untranslatable("precedence(): no wildcard arm")

    # --- parse_precedence / expression -------------------------------------------------------
    pp = re.sub(r"\s+", " ", _fn_body(expr, "parse_precedence"))
    # since /repo 91d9b38 the loop lives in parse_precedence_after(ctx, expr, prec), which
    # parse_precedence enters right after prefix(); the older single-function shape is accepted too
    if "parse_precedence_after(ctx, expr, prec)" in pp:
        if "prefix(ctx)?" not in pp:
            raise Untranslatable("expression.rs: parse_precedence no longer starts with prefix(ctx)?")
        pp = pp + " " + re.sub(r"\s+", " ", _fn_body(expr, "parse_precedence_after"))
        ea = re.sub(r"\s+", " ", _fn_body(expr, "expression_after")).strip()
        if not re.fullmatch(r"parse_precedence_after\(ctx, value, Prec::([A-Za-z]+)\)", ea):
            raise Untranslatable("expression.rs: expression_after() is not parse_precedence_after(ctx, value, Prec::X)")
    if "prefix(ctx)?" not in pp or "while prec <= precedence(ctx.token())" not in pp \
            or "if !valid_infix(ctx) { break; }" not in pp or "infix(ctx, &expr)?" not in pp:
        raise Untranslatable("expression.rs: parse_precedence no longer has the modelled shape")
    ex = re.sub(r"\s+", " ", _fn_body(expr, "expression")).strip()
    me = re.fullmatch(r"parse_precedence\(ctx, Prec::([A-Za-z]+)\)", ex)
    if not me or me.group(1) not in levels:
        raise Untranslatable("expression.rs: expression() is not parse_precedence(ctx, Prec::X)")
    entry = me.group(1)
    mea = re.search(r"parse_precedence_after\(ctx, value, Prec::([A-Za-z]+)\)", _fn_body(expr, "expression_after")) \
        if "fn expression_after" in expr else None
    if mea and mea.group(1) != entry:
        raise Untranslatable("expression.rs: expression_after() enters at Prec::%s, expression() at Prec::%s" % (mea.group(1), entry))

    # --- unary -------------------------------------------------------------------------------
    ub = _fn_body(expr, "unary")
    mu = re.findall(r"parse_precedence\(ctx,\s*Prec::([A-Za-z]+)\)", ub)
    if len(mu) != 1 or mu[0] not in levels:
        raise Untranslatable("expression.rs: unary(): operand level not found")
    unary_level = mu[0]
    unary_ops = re.findall(r"T::([A-Za-z]+)\s*=>\s*([A-Za-z]+)\(expr\)", ub)
    if not unary_ops:
        raise Untranslatable("expression.rs: unary(): no operator arms")
    pb = _fn_body(expr, "prefix")
    mp = re.search(r"((?:T::[A-Za-z]+\s*\|?\s*)+)=>\s*unary\(ctx\)", pb)
    if not mp or sorted(_tokens_of(mp.group(1))) != sorted(t for t, _ in unary_ops):
        raise Untranslatable("expression.rs: prefix(): tokens dispatched to unary() differ from unary()'s arms")

    # --- valid_infix -------------------------------------------------------------------------
    vb = _fn_body(expr, "valid_infix")
    mv = re.search(r"matches!\(\s*ctx\.token\(\),(.*)\)", vb, re.S)
    if not mv:
        raise Untranslatable("expression.rs: valid_infix(): matches! not found")
    valid = _tokens_of(mv.group(1))

    # --- infix -------------------------------------------------------------------------------
    ib = _fn_body(expr, "infix")
    ibn = re.sub(r"\s+", " ", ib)
    if "parse_precedence(ctx, precedence(op).next())?" not in ibn:
        raise Untranslatable("expression.rs: infix(): right operand is not parsed at precedence(op).next()")
    ma = re.search(r"\(T::Arrow, _\) => \{ return arrow_call\(ctx, lhs\); \}", ibn)
    msub = re.search(r"\(((?:T::[A-Za-z]+\s*\|?\s*)+), _\) => \{ let \(ctx, ass\) = sub_assignable\(", ibn)
    if not ma or not msub:
        raise Untranslatable("expression.rs: infix(): arrow / postfix dispatch not found")
    postfix = _tokens_of(msub.group(1))
    kinds = []
    for t, k in re.findall(r"T::([A-Za-z]+)\s*=>\s*([A-Za-z]+\(lhs,[^)]*rhs\))", ib):
        k = re.sub(r"\s+", "", k)
        m1 = re.fullmatch(r"([A-Za-z]+)\(lhs,rhs\)", k)
        m2 = re.fullmatch(r"Comparison\(lhs,([A-Za-z]+),rhs\)", k)
        if m1:
            kinds.append((t, m1.group(1)))
        elif m2:
            kinds.append((t, "Comparison " + m2.group(1)))
        else:
            raise Untranslatable("infix(): unexpected kind %r" % k)
    if not kinds:
        raise Untranslatable("infix(): no operator arms found")
    # the guard list before the operand parse must be exactly the mapped operators
    mg = re.search(r"match op \{(.*?)=> \{\}", ibn)
    if not mg or sorted(_tokens_of(mg.group(1))) != sorted(t for t, _ in kinds):
        raise Untranslatable("infix(): operator guard and kind map differ")

    return {"levels": levels, "arms": arms, "default": default, "entry": entry, "unary_level": unary_level,
            "unary_ops": unary_ops, "valid": valid, "postfix": postfix, "kinds": kinds}


def _pairs(ps):
    return "[" + "; ".join('("%s", "%s")' % p for p in ps) + "]"


def _strs(xs):
    return "[" + "; ".join('"%s"' % x for x in xs) + "]"


def generate():
    d = extract()
    out = ["(* GENERATED by tools/gens/gen_prec.py from sylt-parser/src/{parser,expression}.rs -- do not edit *)",
           "From Coq Require Import String List.",
           "From Sylt Require Import Parse.PrecTable.",
           "Import ListNotations.",
           "Local Open Scope string_scope.",
           "",
           "Definition table : PrecTable.raw := {|",
           "  r_levels := %s;" % _strs(d["levels"]),
           "  r_prec := %s;" % _pairs(d["arms"]),
           "  r_default := \"%s\";" % d["default"],
           "  r_entry := \"%s\";" % d["entry"],
           "  r_unary_level := \"%s\";" % d["unary_level"],
           "  r_unary := %s;" % _pairs(d["unary_ops"]),
           "  r_valid := %s;" % _strs(d["valid"]),
           "  r_postfix := %s;" % _strs(d["postfix"]),
           "  r_infix := %s" % _pairs(d["kinds"]),
           "|}.",
           ""]
    return "GenPrec.v", "\n".join(out)


if __name__ == "__main__":
    import json
    print(json.dumps(extract(), indent=1))
