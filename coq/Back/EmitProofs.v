(* Properties of the text generator that matter for C06: string literals and field names. *)
From Coq Require Import String List NArith ZArith Bool Ascii Lia.
From Sylt Require Import Syntax.Resolved Back.IR Back.Emit.
Import ListNotations.
Local Open Scope string_scope.
Local Open Scope N_scope.

(* What the Lua lexer does with the body of a double-quoted literal (the part of the escape language
   that lua_escape produces): None if the body contains a raw newline, a raw carriage return, an
   unescaped double quote, or a malformed escape. *)
Fixpoint lua_unescape (fuel : nat) (s : string) : option string :=
  match fuel with
  | O => None
  | S f =>
    match s with
    | EmptyString => Some EmptyString
    | String a s' =>
        let n := N_of_ascii a in
        if n =? 92 then
          match s' with
          | String b s'' =>
              let m := N_of_ascii b in
              if m =? 92 then option_map (String (ascii_of_N 92)) (lua_unescape f s'')
              else if m =? 34 then option_map (String (ascii_of_N 34)) (lua_unescape f s'')
              else if m =? 110 then option_map (String (ascii_of_N 10)) (lua_unescape f s'')
              else if m =? 114 then option_map (String (ascii_of_N 13)) (lua_unescape f s'')
              else if m =? 48 then
                match s'' with
                | String c (String d r) =>
                    if (N_of_ascii c =? 48) && (N_of_ascii d =? 48)
                    then option_map (String (ascii_of_N 0)) (lua_unescape f r) else None
                | _ => None
                end
              else None
          | EmptyString => None
          end
        else if (n =? 34) || (n =? 10) || (n =? 13) then None
        else option_map (String a) (lua_unescape f s')
    end
  end.

Lemma ascii_N_roundtrip a : ascii_of_N (N_of_ascii a) = a.
Proof. apply ascii_N_embedding. Qed.

Lemma N_of_ascii_of_N n : n < 256 -> N_of_ascii (ascii_of_N n) = n.
Proof. intros H. apply N_ascii_embedding. exact H. Qed.

Lemma unesc_bs f r : lua_unescape (S f) ((bs ++ bs) ++ r) = option_map (String (ascii_of_N 92)) (lua_unescape f r).
Proof. reflexivity. Qed.
Lemma unesc_dq f r : lua_unescape (S f) ((bs ++ dq) ++ r) = option_map (String (ascii_of_N 34)) (lua_unescape f r).
Proof. reflexivity. Qed.
Lemma unesc_n f r : lua_unescape (S f) ((bs ++ "n") ++ r) = option_map (String (ascii_of_N 10)) (lua_unescape f r).
Proof. reflexivity. Qed.
Lemma unesc_r f r : lua_unescape (S f) ((bs ++ "r") ++ r) = option_map (String (ascii_of_N 13)) (lua_unescape f r).
Proof. reflexivity. Qed.
Lemma unesc_0 f r : lua_unescape (S f) ((bs ++ "000") ++ r) = option_map (String (ascii_of_N 0)) (lua_unescape f r).
Proof. reflexivity. Qed.
Lemma unesc_plain f a r :
  N_of_ascii a <> 92 -> N_of_ascii a <> 34 -> N_of_ascii a <> 10 -> N_of_ascii a <> 13 ->
  lua_unescape (S f) (String a "" ++ r) = option_map (String a) (lua_unescape f r).
Proof.
  intros H1 H2 H3 H4. cbn [append lua_unescape].
  destruct (N.eqb_spec (N_of_ascii a) 92); [contradiction|].
  destruct (N.eqb_spec (N_of_ascii a) 34); [contradiction|].
  destruct (N.eqb_spec (N_of_ascii a) 10); [contradiction|].
  destruct (N.eqb_spec (N_of_ascii a) 13); [contradiction|]. reflexivity.
Qed.

Lemma lua_unescape_mono : forall j t r, lua_unescape j t = Some r -> forall j', (j <= j')%nat -> lua_unescape j' t = Some r.
Proof.
  induction j as [|j IHj]; intros t r H j' Hle; [discriminate|].
  destruct j' as [|j']; [lia|]. assert (Hle' : (j <= j')%nat) by lia.
  cbn [lua_unescape] in *. destruct t as [|a t]; [exact H|].
  destruct (N_of_ascii a =? 92).
  - destruct t as [|b t]; [discriminate|].
    destruct (N_of_ascii b =? 92); [destruct (lua_unescape j t) eqn:E; [|discriminate]; rewrite (IHj _ _ E _ Hle'); exact H|].
    destruct (N_of_ascii b =? 34); [destruct (lua_unescape j t) eqn:E; [|discriminate]; rewrite (IHj _ _ E _ Hle'); exact H|].
    destruct (N_of_ascii b =? 110); [destruct (lua_unescape j t) eqn:E; [|discriminate]; rewrite (IHj _ _ E _ Hle'); exact H|].
    destruct (N_of_ascii b =? 114); [destruct (lua_unescape j t) eqn:E; [|discriminate]; rewrite (IHj _ _ E _ Hle'); exact H|].
    destruct (N_of_ascii b =? 48); [|discriminate].
    destruct t as [|c [|d r']]; try discriminate.
    destruct ((N_of_ascii c =? 48) && (N_of_ascii d =? 48)); [|discriminate].
    destruct (lua_unescape j r') eqn:E; [|discriminate]. rewrite (IHj _ _ E _ Hle'). exact H.
  - destruct ((N_of_ascii a =? 34) || (N_of_ascii a =? 10) || (N_of_ascii a =? 13)); [discriminate|].
    destruct (lua_unescape j t) eqn:E; [|discriminate]. rewrite (IHj _ _ E _ Hle'). exact H.
Qed.

(* the escaped text always lexes back to the original bytes *)
Theorem lua_unescape_escape : forall s, lua_unescape (S (String.length s)) (lua_escape s) = Some s.
Proof.
  induction s as [|a s IH]; [reflexivity|].
  cbn [lua_escape String.length].
  destruct (N.eqb_spec (N_of_ascii a) 92) as [E|N92];
    [rewrite unesc_bs, IH; cbn [option_map]; rewrite <- E, ascii_N_roundtrip; reflexivity|].
  destruct (N.eqb_spec (N_of_ascii a) 34) as [E|N34];
    [rewrite unesc_dq, IH; cbn [option_map]; rewrite <- E, ascii_N_roundtrip; reflexivity|].
  destruct (N.eqb_spec (N_of_ascii a) 10) as [E|N10];
    [rewrite unesc_n, IH; cbn [option_map]; rewrite <- E, ascii_N_roundtrip; reflexivity|].
  destruct (N.eqb_spec (N_of_ascii a) 13) as [E|N13];
    [rewrite unesc_r, IH; cbn [option_map]; rewrite <- E, ascii_N_roundtrip; reflexivity|].
  destruct (N.eqb_spec (N_of_ascii a) 0) as [E|N0];
    [rewrite unesc_0, IH; cbn [option_map]; rewrite <- E, ascii_N_roundtrip; reflexivity|].
  rewrite unesc_plain by assumption. rewrite IH. reflexivity.
Qed.

(* field names: after a `.` or as a bare constructor key the generator never writes a reserved word *)
Theorem lua_field_safe : forall name,
  (is_lua_keyword name = false /\ lua_field name = "." ++ name /\ lua_key name = name) \/
  (is_lua_keyword name = true /\ lua_field name = "[" ++ lua_string name ++ "]" /\ lua_key name = "[" ++ lua_string name ++ "]").
Proof. intros name. unfold lua_field, lua_key. destruct (is_lua_keyword name); auto. Qed.
