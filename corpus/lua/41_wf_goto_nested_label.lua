-- expect-wf: bad undefined label 'inner'
goto inner
do
  ::inner::
end
