(* Extraction of the name-resolution / dependency-order / module-discovery models.
   Directives: only those of ExtrOcamlBasic and ExtrOcamlString. *)
From Coq Require Import Extraction ExtrOcamlBasic ExtrOcamlString.
From Sylt Require Import Syntax.Resolved Resolve.PAst Resolve.Resolver Resolve.ResolveSpec Gen.GenResolve.
From Sylt Require Import Dep.Deps Dep.Topo Dep.AnnOrder Dep.AnnTypes Resolve.Modules Resolve.Wf Resolve.NsShadow Resolve.TreeOk Resolve.Parens Resolve.ColumnsLua Resolve.Arrow Resolve.Respell.
Extraction Language OCaml.
(* the resolver as pinned: the flags regenerated from name_resolution.rs on this run *)
Definition resolve_pinned := Resolver.resolve gen_rflags.
(* the resolver with every scope restored (what the specification describes) *)
Definition resolve_fixed := Resolver.resolve (mkFlags true true true true (imports_fixpoint gen_rflags)).
(* the specification / the condition no_ns_shadow, over the global tables as the import pass of this run's code
   leaves them *)
Definition spec_pinned := ResolveSpec.resolve_spec (imports_fixpoint gen_rflags).
Definition nsfirst_pinned := ResolveSpec.resolve_spec_nsfirst (imports_fixpoint gen_rflags).
Definition no_ns_shadow_pinned := NsShadow.no_ns_shadow (imports_fixpoint gen_rflags).
(* the side condition of C14_columns_resolve on the stripped tree *)
Definition use_names_sep (ast : PAst.past) : bool := ColumnsLua.use_names_separatedb (Parens.strip_parens ast).
Extraction "resolvemodel.ml" Resolved.mkResolved PAst.mkModule resolve_pinned resolve_fixed spec_pinned nsfirst_pinned
  Wf.wf_ast no_ns_shadow_pinned TreeOk.tree_ok use_names_sep Arrow.arrows_simple gen_rflags
  Topo.init_order AnnOrder.ann_deps_ok AnnTypes.ann_types_only GenResolve.gen_assign_target_deps Resolved.stmt_span
  Modules.tree Modules.use_path Modules.implicit_name Respell.respell_okb GenResolve.gen_std_libs GenResolve.gen_std_uses.
