(* Arrow calls in the parser's AST: `dearrow` rewrites every `x -> f(args)` (AArrowCall x f args) to the call
   `f(x, args)` (ACall f (x :: args)).  `arrows_simple`: the callee of every arrow call is a name or an access chain
   `a.b.c` (what one writes after `->`; a callee that is itself a compound expression would be resolved AFTER the
   receiver in an arrow call and BEFORE it in the plain call, which numbers the variables of function literals inside
   the two differently).  Definitions only. *)
From Coq Require Import String List NArith ZArith Bool.
From Sylt Require Import Syntax.Resolved Resolve.PAst Resolve.Wf.
Import ListNotations.

Fixpoint da_e (e : pexpr) : pexpr :=
  match e with
  | PGet a sp => PGet (da_a a) sp
  | PAdd a b sp => PAdd (da_e a) (da_e b) sp
  | PSub a b sp => PSub (da_e a) (da_e b) sp
  | PMul a b sp => PMul (da_e a) (da_e b) sp
  | PDiv a b sp => PDiv (da_e a) (da_e b) sp
  | PNeg a sp => PNeg (da_e a) sp
  | PComparison a k b sp => PComparison (da_e a) k (da_e b) sp
  | PAssertEq a b sp => PAssertEq (da_e a) (da_e b) sp
  | PAnd a b sp => PAnd (da_e a) (da_e b) sp
  | POr a b sp => POr (da_e a) (da_e b) sp
  | PNot a sp => PNot (da_e a) sp
  | PParenthesis a sp => PParenthesis (da_e a) sp
  | PIf brs sp => PIf (map da_b brs) sp
  | PCase tm brs ft sp =>
      PCase (da_e tm) (map da_c brs) (match ft with Some b => Some (map da_s b) | None => None end) sp
  | PFunction nm ps rt body pure sp => PFunction nm ps rt (map da_s body) pure sp
  | PBlob b fields sp => PBlob b (map (fun f => (fst f, da_e (snd f))) fields) sp
  | PTuple vs sp => PTuple (map da_e vs) sp
  | PList vs sp => PList (map da_e vs) sp
  | PFloat r sp => PFloat r sp
  | PInt z sp => PInt z sp
  | PStr s sp => PStr s sp
  | PBool b sp => PBool b sp
  | PNil sp => PNil sp
  end
with da_a (a : passign) : passign :=
  match a with
  | ARead i sp => ARead i sp
  | AVariant x v value sp => AVariant (da_a x) v (da_e value) sp
  | ACall f args sp => ACall (da_a f) (map da_e args) sp
  | AArrowCall x f args sp => ACall (da_a f) (da_e x :: map da_e args) sp
  | AAccess x i sp => AAccess (da_a x) i sp
  | AIndex x i sp => AIndex (da_a x) (da_e i) sp
  | AExpression e sp => AExpression (da_e e) sp
  end
with da_b (b : pifbranch) : pifbranch :=
  match b with
  | PIfBranch c body sp => PIfBranch (match c with Some c => Some (da_e c) | None => None end) (map da_s body) sp
  end
with da_c (b : pcasebranch) : pcasebranch :=
  match b with
  | PCaseBranch pat v body => PCaseBranch pat v (map da_s body)
  end
with da_s (s : pstmt) : pstmt :=
  match s with
  | PAssignment op t v sp => PAssignment op (da_a t) (da_e v) sp
  | PDefinition i k t v sp => PDefinition i k t (da_e v) sp
  | PLoop c b sp => PLoop (da_e c) (da_s b) sp
  | PRet (Some v) sp => PRet (Some (da_e v)) sp
  | PBlock ss sp => PBlock (map da_s ss) sp
  | PStatementExpression v sp => PStatementExpression (da_e v) sp
  | other => other
  end.

Definition da_module (m : pmodule) : pmodule := mkModule (m_file m) (m_file_id m) (map da_s (m_stmts m)).
Definition dearrow (ast : past) : past := map da_module ast.

(* a callee that is a name or an access chain *)
Fixpoint simple_callee (a : passign) : bool :=
  match a with
  | ARead _ _ => true
  | AAccess a' _ _ => simple_callee a'
  | _ => false
  end.

Fixpoint as_e (x : pexpr) : bool :=
  match x with
  | PGet a _ => as_a a
  | PAdd a b _ | PSub a b _ | PMul a b _ | PDiv a b _ | PComparison a _ b _ | PAssertEq a b _
  | PAnd a b _ | POr a b _ => as_e a && as_e b
  | PNeg a _ | PNot a _ | PParenthesis a _ => as_e a
  | PIf brs _ =>
      all_with (fun b => match b with PIfBranch c body _ =>
                  (match c with Some c => as_e c | None => true end) && all_with as_s body end) brs
  | PCase tm brs ft _ =>
      as_e tm && all_with (fun b => match b with PCaseBranch _ _ body => all_with as_s body end) brs
      && (match ft with Some b => all_with as_s b | None => true end)
  | PFunction _ _ _ body _ _ => all_with as_s body
  | PBlob _ fields _ => all_with (fun f => as_e (snd f)) fields
  | PTuple vs _ | PList vs _ => all_with as_e vs
  | _ => true
  end
with as_a (a : passign) : bool :=
  match a with
  | ARead _ _ => true
  | AVariant x _ v _ => as_a x && as_e v
  | ACall f args _ => as_a f && all_with as_e args
  | AArrowCall x f args _ => simple_callee f && as_e x && all_with as_e args
  | AAccess x _ _ => as_a x
  | AIndex x i _ => as_a x && as_e i
  | AExpression e _ => as_e e
  end
with as_s (s : pstmt) : bool :=
  match s with
  | PAssignment _ t v _ => as_a t && as_e v
  | PDefinition _ _ _ v _ => as_e v
  | PLoop c b _ => as_e c && as_s b
  | PRet (Some v) _ => as_e v
  | PBlock ss _ => all_with as_s ss
  | PStatementExpression v _ => as_e v
  | _ => true
  end.

Definition arrows_simple (ast : past) : bool := all_with (fun m => all_with as_s (m_stmts m)) ast.
