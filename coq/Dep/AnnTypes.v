(* ann_deps_ok (Dep/AnnOrder.v) from a syntactic condition: `ann_types_only`: every variable mentioned by the
   annotation of a definition -- at any depth -- is the variable of a blob / enum statement of the program.
   The sets of dependencies are strictly increasing lists (ins / union / unions / remove keep that), so two of them
   with the same members are equal; and the members of the dependencies of a statement are those of the statement
   without its annotations plus variables mentioned by annotations (size induction, after Dep/DepsComplete.v). *)
From Coq Require Import String List NArith ZArith Bool Lia Sorted Setoid.
From Sylt Require Types.Erasure.
From Sylt Require Import Syntax.Resolved Dep.Deps Dep.Topo Dep.TopoProofs Dep.DepProofs Dep.DepsComplete Dep.LeafPrune Dep.AnnOrder.
Import ListNotations.

Notation sE := Sylt.Types.Erasure.strip_e.
Notation sB := Sylt.Types.Erasure.strip_b.
Notation sC := Sylt.Types.Erasure.strip_c.

Definition ss (l : nset) : Prop := StronglySorted N.lt l.

Lemma ins_ss x l : ss l -> ss (ins x l).
Proof.
  unfold ss. induction l as [|y l IH]; intros H; cbn [ins]; [repeat constructor|].
  inversion H as [|? ? Hs Hf]; subst. destruct (N.compare_spec x y) as [->|Hlt|Hgt].
  - exact H.
  - constructor; [exact H|]. constructor; [exact Hlt|]. eapply Forall_impl; [|exact Hf]. intros z Hz. lia.
  - constructor; [apply IH; exact Hs|]. apply Forall_forall. intros z Hz. apply In_ins in Hz as [->|Hz]; [exact Hgt|].
    rewrite Forall_forall in Hf. apply Hf, Hz.
Qed.

Lemma union_ss a b : ss b -> ss (union a b).
Proof. intros H. unfold union. induction a as [|x a IH]; cbn; [exact H|]. apply ins_ss, IH. Qed.

Lemma unions_ss {A} (f : A -> nset) l : ss (unions f l).
Proof. induction l as [|x l IH]; cbn; [constructor|]. apply union_ss, IH. Qed.

Lemma filter_ss p l : ss l -> ss (filter p l).
Proof.
  unfold ss. induction l as [|y l IH]; intros H; cbn; [constructor|]. inversion H as [|? ? Hs Hf]; subst.
  destruct (p y); [|apply IH, Hs]. constructor; [apply IH, Hs|].
  apply Forall_forall. intros z Hz. apply filter_In in Hz as [Hz _]. rewrite Forall_forall in Hf. apply Hf, Hz.
Qed.

Lemma ss_ext l1 : forall l2, ss l1 -> ss l2 -> (forall x, In x l1 <-> In x l2) -> l1 = l2.
Proof.
  unfold ss. induction l1 as [|x l1 IH]; intros l2 H1 H2 E.
  - destruct l2 as [|y l2]; [reflexivity|]. exfalso. apply (proj2 (E y)). left. reflexivity.
  - destruct l2 as [|y l2]; [exfalso; apply (proj1 (E x)); left; reflexivity|].
    inversion H1 as [|? ? S1 F1]; inversion H2 as [|? ? S2 F2]; subst.
    rewrite Forall_forall in F1, F2.
    assert (x = y).
    { destruct (proj1 (E x) (or_introl eq_refl)) as [<-|Hx]; [reflexivity|].
      destruct (proj2 (E y) (or_introl eq_refl)) as [<-|Hy]; [reflexivity|].
      pose proof (F2 _ Hx). pose proof (F1 _ Hy). lia. }
    subst y. f_equal. apply IH; [exact S1|exact S2|]. intros z. split; intros Hz.
    + destruct (proj1 (E z) (or_intror Hz)) as [<-|H]; [pose proof (F1 _ Hz); lia|exact H].
    + destruct (proj2 (E z) (or_intror Hz)) as [<-|H]; [pose proof (F2 _ Hz); lia|exact H].
Qed.

Lemma tyd_ss : forall t, ss (ty_dependency t).
Proof.
  induction t; cbn [ty_dependency]; try constructor.
  - apply ins_ss, unions_ss.
  - apply unions_ss.
  - assumption.
  - apply union_ss. assumption.
Qed.

Lemma deps_ss tgt : forall e, ss (dependencies tgt e).
Proof.
  induction e; cbn [dependencies]; try (repeat constructor; fail); try apply unions_ss;
    try (apply union_ss; first [assumption|apply unions_ss|apply union_ss; apply unions_ss]); try assumption.
  - apply ins_ss. assumption.
  - apply ins_ss, unions_ss.
Qed.

Lemma sdeps_ss tgt s : ss (statement_dependencies tgt s).
Proof.
  destruct s; cbn [statement_dependencies]; try constructor; try apply unions_ss.
  - destruct tgt; [apply union_ss|]; apply deps_ss.
  - destruct (is_function_expr value); [apply filter_ss|]; apply union_ss, tyd_ss.
  - apply union_ss, unions_ss.
  - destruct value; [apply deps_ss|constructor].
  - apply deps_ss.
Qed.

(* the annotation types of every definition inside an expression / a statement *)
Fixpoint dann_e (e : expr) : list ty :=
  match e with
  | EVariant _ _ value _ => dann_e value
  | ECall f args _ => dann_e f ++ flat_map dann_e args
  | EBlobAccess value _ _ => dann_e value
  | EIndex value index _ => dann_e value ++ dann_e index
  | EBinOp _ a b _ => dann_e a ++ dann_e b
  | EUniOp _ a _ => dann_e a
  | EIf branches _ =>
      flat_map (fun b => match b with
                         | IfBranch cond body _ =>
                             (match cond with Some c => dann_e c | None => [] end) ++ flat_map dann_s body
                         end) branches
  | ECase to_match branches fall_through _ =>
      dann_e to_match
      ++ (match fall_through with Some b => flat_map dann_s b | None => [] end)
      ++ flat_map (fun b => match b with CaseBranch _ _ _ body _ => flat_map dann_s body end) branches
  | EFunction _ _ _ body _ _ => flat_map dann_s body
  | EBlob _ fields _ _ => flat_map (fun f => dann_e (snd f)) fields
  | ECollection _ values _ => flat_map dann_e values
  | _ => []
  end
with dann_s (s : stmt) : list ty :=
  match s with
  | SAssignment _ target value _ => dann_e target ++ dann_e value
  | SBlock ss _ => flat_map dann_s ss
  | SLoop cond body _ => dann_e cond ++ flat_map dann_s body
  | SDefinition _ _ _ t value _ => t :: dann_e value
  | SRet (Some value) _ | SStatementExpression value _ => dann_e value
  | _ => []
  end.

Section Mem.
Variable tgt : bool.
Notation D := (dependencies tgt).
Notation DS := (statement_dependencies tgt).
Notation sS := Sylt.Types.Erasure.strip_s.

(* x comes from an annotation *)
Definition fromann (l : list ty) (x : N) : Prop := exists t, In t l /\ In x (ty_dependency t).

Lemma fromann_app l1 l2 x : fromann (l1 ++ l2) x <-> fromann l1 x \/ fromann l2 x.
Proof.
  unfold fromann. split.
  - intros (t & Ht & Hx). apply in_app_or in Ht as [Ht|Ht]; [left|right]; eauto.
  - intros [(t & Ht & Hx)|(t & Ht & Hx)]; exists t; split; auto; apply in_or_app; auto.
Qed.

Lemma fromann_flat {A} (f : A -> list ty) l x : fromann (flat_map f l) x <-> exists a, In a l /\ fromann (f a) x.
Proof.
  unfold fromann. split.
  - intros (t & Ht & Hx). apply in_flat_map in Ht as (a & Ha & Ht). eauto.
  - intros (a & Ha & t & Ht & Hx). exists t. split; [apply in_flat_map; eauto|exact Hx].
Qed.

Lemma In_unions_map {A B} (f : B -> nset) (g : A -> B) l x : In x (unions f (map g l)) <-> exists a, In a l /\ In x (f (g a)).
Proof.
  rewrite In_unions. split.
  - intros (b & Hb & Hx). apply in_map_iff in Hb as (a & <- & Ha). eauto.
  - intros (a & Ha & Hx). exists (g a). split; [apply in_map, Ha|exact Hx].
Qed.

Definition Qe (e : expr) : Prop :=
  (forall x, In x (D (sE e)) -> In x (D e)) /\ (forall x, In x (D e) -> In x (D (sE e)) \/ fromann (dann_e e) x).
Definition Qs (s : stmt) : Prop :=
  (forall x, In x (DS (sS s)) -> In x (DS s)) /\ (forall x, In x (DS s) -> In x (DS (sS s)) \/ fromann (dann_s s) x).

(* lists of sub-terms *)
Lemma P_list {A} (d : A -> nset) (g : A -> A) (an : A -> list ty) l :
  (forall a, In a l -> (forall x, In x (d (g a)) -> In x (d a)) /\ (forall x, In x (d a) -> In x (d (g a)) \/ fromann (an a) x)) ->
  (forall x, In x (unions d (map g l)) -> In x (unions d l))
  /\ (forall x, In x (unions d l) -> In x (unions d (map g l)) \/ fromann (flat_map an l) x).
Proof.
  intros H. split; intros x Hx.
  - apply In_unions_map in Hx as (a & Ha & Hx). apply In_unions. exists a. split; [exact Ha|apply (H a Ha), Hx].
  - apply In_unions in Hx as (a & Ha & Hx). destruct (proj2 (H a Ha) x Hx) as [Hl|Hr].
    + left. apply In_unions_map. eauto.
    + right. apply fromann_flat. eauto.
Qed.

End Mem.

Section Mem2.
Variable tgt : bool.
Notation D := (dependencies tgt).
Notation DS := (statement_dependencies tgt).
Notation sS := Sylt.Types.Erasure.strip_s.
Notation Pe := (Qe tgt).
Notation Ps := (Qs tgt).

Lemma is_function_expr_strip e : is_function_expr (sE e) = is_function_expr e.
Proof. destruct e; reflexivity. Qed.

Lemma P_union (A A' B B' : nset) (la lb : list ty) :
  ((forall x, In x A' -> In x A) /\ (forall x, In x A -> In x A' \/ fromann la x)) ->
  ((forall x, In x B' -> In x B) /\ (forall x, In x B -> In x B' \/ fromann lb x)) ->
  (forall x, In x (union A' B') -> In x (union A B))
  /\ (forall x, In x (union A B) -> In x (union A' B') \/ fromann (la ++ lb) x).
Proof.
  intros [A1 A2] [B1 B2]. split; intros x Hx; apply In_union in Hx as [Hx|Hx].
  - apply In_union. left. auto.
  - apply In_union. right. auto.
  - destruct (A2 x Hx); [left; apply In_union; auto|right; apply fromann_app; auto].
  - destruct (B2 x Hx); [left; apply In_union; auto|right; apply fromann_app; auto].
Qed.

Lemma P_nil : (forall x : N, In x (@nil N) -> In x (@nil N)) /\ (forall x : N, In x (@nil N) -> In x (@nil N) \/ fromann [] x).
Proof. split; intros x []. Qed.

Lemma P_sized : forall n, (forall e, size_e e <= n -> Pe e) /\ (forall s, size_s s <= n -> Ps s).
Proof.
  induction n as [|n [IHe IHs]].
  { split; [intros e|intros s]; destruct e || destruct s; cbn; lia. }
  assert (Le : forall l, sum_with size_e l <= n ->
                (forall x, In x (unions D (map sE l)) -> In x (unions D l))
                /\ (forall x, In x (unions D l) -> In x (unions D (map sE l)) \/ fromann (flat_map dann_e l) x)).
  { intros l Hl. apply (P_list D sE dann_e). intros a Ha. apply IHe. pose proof (sum_with_in size_e l a Ha). lia. }
  assert (Ls : forall l, sum_with size_s l <= n ->
                (forall x, In x (unions DS (map sS l)) -> In x (unions DS l))
                /\ (forall x, In x (unions DS l) -> In x (unions DS (map sS l)) \/ fromann (flat_map dann_s l) x)).
  { intros l Hl. apply (P_list DS sS dann_s). intros a Ha. apply IHs. pose proof (sum_with_in size_s l a Ha). lia. }
  split.
  - intros e Hsz. unfold Qe. destruct e; cbn [size_e] in Hsz.
    + split; intros x Hx; auto.
    + (* EVariant *)
      change (sE (EVariant enum_var variant e sp)) with (EVariant enum_var variant (sE e) sp). cbn [dependencies dann_e].
      destruct (IHe e ltac:(lia)) as [I1 I2]. split; intros x Hx; apply In_ins in Hx as [->|Hx].
      * apply In_ins. auto.
      * apply In_ins. right. auto.
      * left. apply In_ins. auto.
      * destruct (I2 x Hx); [left; apply In_ins; auto|right; assumption].
    + (* ECall *)
      change (sE (ECall e args sp)) with (ECall (sE e) (map sE args) sp). cbn [dependencies dann_e].
      apply P_union; [apply IHe; lia|apply Le; lia].
    + change (sE (EBlobAccess e field sp)) with (EBlobAccess (sE e) field sp). cbn [dependencies dann_e]. apply IHe. lia.
    + change (sE (EIndex e1 e2 sp)) with (EIndex (sE e1) (sE e2) sp). cbn [dependencies dann_e].
      apply P_union; apply IHe; lia.
    + change (sE (EBinOp op e1 e2 sp)) with (EBinOp op (sE e1) (sE e2) sp). cbn [dependencies dann_e].
      apply P_union; apply IHe; lia.
    + change (sE (EUniOp op e sp)) with (EUniOp op (sE e) sp). cbn [dependencies dann_e]. apply IHe. lia.
    + (* EIf *)
      rewrite Erasure.strip_e_if. cbn [dependencies dann_e].
      apply (P_list (fun b => match b with
                              | IfBranch cond body _ =>
                                  union (match cond with Some c => D c | None => [] end) (unions DS body)
                              end) sB
                    (fun b => match b with
                              | IfBranch cond body _ => (match cond with Some c => dann_e c | None => [] end) ++ flat_map dann_s body
                              end)).
      intros b Hb. match type of Hsz with context [sum_with ?f branches] => pose proof (sum_with_in f _ _ Hb) as Hsb end.
      cbn beta in Hsb. destruct b as [c body bsp]. rewrite Erasure.strip_b_eq.
      apply P_union; [destruct c as [c|]; [apply IHe; lia|apply P_nil]|apply Ls; lia].
    + (* ECase *)
      rewrite Erasure.strip_e_case. cbn [dependencies dann_e].
      apply P_union; [apply IHe; lia|].
      apply P_union.
      * destruct fall_through as [ft|]; [apply Ls; lia|apply P_nil].
      * apply (P_list (fun b => match b with CaseBranch _ _ _ body _ => unions DS body end) sC
                      (fun b => match b with CaseBranch _ _ _ body _ => flat_map dann_s body end)).
        intros b Hb. match type of Hsz with context [sum_with ?f branches] => pose proof (sum_with_in f _ _ Hb) as Hsb end.
        cbn beta in Hsb. destruct b as [pat psp var body bsp]. rewrite Erasure.strip_c_eq. apply Ls. lia.
    + (* EFunction *)
      rewrite Erasure.strip_e_fun. cbn [dependencies dann_e]. apply Ls. lia.
    + (* EBlob *)
      change (sE (EBlob blob fields self_var sp)) with (EBlob blob (map (fun fe => (fst fe, sE (snd fe))) fields) self_var sp).
      cbn [dependencies dann_e].
      pose proof (P_list (fun f : string * expr => D (snd f)) (fun fe => (fst fe, sE (snd fe))) (fun f => dann_e (snd f)) fields) as PL.
      destruct PL as [L1 L2].
      { intros f Hf. match type of Hsz with context [sum_with ?g fields] => pose proof (sum_with_in g _ _ Hf) as Hsf end.
        cbn beta in Hsf. cbn [snd]. apply IHe. lia. }
      split; intros x Hx; apply In_ins in Hx as [->|Hx].
      * apply In_ins. auto.
      * apply In_ins. right. auto.
      * left. apply In_ins. auto.
      * destruct (L2 x Hx); [left; apply In_ins; auto|right; assumption].
    + (* ECollection *)
      change (sE (ECollection c values sp)) with (ECollection c (map sE values) sp). cbn [dependencies dann_e]. apply Le. lia.
    + split; intros x Hx; auto. + split; intros x Hx; auto. + split; intros x Hx; auto.
    + split; intros x Hx; auto. + split; intros x Hx; auto.
  - intros s Hsz. unfold Qs. destruct s; cbn [size_s] in Hsz; try (split; intros x Hx; auto; fail).
    + (* SAssignment *)
      change (sS (SAssignment op target value sp)) with (SAssignment op (sE target) (sE value) sp).
      cbn [statement_dependencies dann_s]. destruct tgt.
      * apply P_union; apply IHe; lia.
      * destruct (IHe value ltac:(lia)) as [I1 I2]. split; intros x Hx; [auto|].
        destruct (I2 x Hx); [left; assumption|right; apply fromann_app; auto].
    + (* SDefinition *)
      change (sS (SDefinition name var kind t value sp)) with (SDefinition name var kind Erasure.ty0 (sE value) sp).
      cbn [statement_dependencies dann_s]. rewrite is_function_expr_strip.
      destruct (IHe value ltac:(lia)) as [I1 I2].
      assert (U1 : forall x, In x (union (D (sE value)) (ty_dependency Erasure.ty0)) -> In x (union (D value) (ty_dependency t))).
      { intros x Hx. apply In_union in Hx as [Hx|Hx]; [|destruct Hx]. apply In_union. left. auto. }
      assert (U2 : forall x, In x (union (D value) (ty_dependency t)) ->
                   In x (union (D (sE value)) (ty_dependency Erasure.ty0)) \/ fromann (t :: dann_e value) x).
      { intros x Hx. apply In_union in Hx as [Hx|Hx].
        - destruct (I2 x Hx) as [H|(t0 & Ht0 & Hx0)]; [left; apply In_union; auto|right; exists t0; split; [right; exact Ht0|exact Hx0]].
        - right. exists t. split; [left; reflexivity|exact Hx]. }
      destruct (is_function_expr value).
      * split; intros x Hx; apply In_remove in Hx as [Hx Hne].
        -- apply In_remove. split; [apply U1, Hx|exact Hne].
        -- destruct (U2 x Hx); [left; apply In_remove; auto|right; assumption].
      * split; [exact U1|exact U2].
    + (* SLoop *)
      change (sS (SLoop condition body sp)) with (SLoop (sE condition) (map sS body) sp).
      cbn [statement_dependencies dann_s]. apply P_union; [apply IHe; lia|apply Ls; lia].
    + (* SRet *)
      destruct value as [v|]; [|split; intros x Hx; auto].
      change (sS (SRet (Some v) sp)) with (SRet (Some (sE v)) sp). cbn [statement_dependencies dann_s]. apply IHe. cbn in Hsz. lia.
    + (* SBlock *)
      change (sS (SBlock statements sp)) with (SBlock (map sS statements) sp). cbn [statement_dependencies dann_s]. apply Ls. lia.
    + (* SStatementExpression *)
      change (sS (SStatementExpression value sp)) with (SStatementExpression (sE value) sp).
      cbn [statement_dependencies dann_s]. apply IHe. lia.
Qed.

Lemma P_stmt s : Ps s.
Proof. apply (proj2 (P_sized (size_s s)) s (le_n _)). Qed.

End Mem2.

(* ---- the syntactic condition: annotations of definitions mention type declarations only ---- *)
Definition ann_types_only (tgt : bool) (ss : list stmt) : bool :=
  let K := tk is_type_stmt (build_table tgt ss []) in
  forallb (fun t => forallb K (ty_dependency t)) (flat_map dann_s ss).

Lemma nset_eqb_refl a : nset_eqb a a = true.
Proof. induction a as [|x a IH]; cbn; [reflexivity|]. rewrite N.eqb_refl, IH. reflexivity. Qed.

Theorem ann_types_only_deps_ok tgt ss : ann_types_only tgt ss = true -> ann_deps_ok tgt ss = true.
Proof.
  unfold ann_types_only, ann_deps_ok. intros H. rewrite forallb_forall in H. apply forallb_forall. intros s Hs.
  set (K := tk is_type_stmt (build_table tgt ss [])) in *.
  assert (E : filter (fun d => negb (K d)) (statement_dependencies tgt s)
              = filter (fun d => negb (K d)) (statement_dependencies tgt (Sylt.Types.Erasure.strip_s s))).
  { apply ss_ext; [apply filter_ss, sdeps_ss|apply filter_ss, sdeps_ss|]. intros x. rewrite !filter_In.
    destruct (P_stmt tgt s) as [P1 P2]. split; intros [Hx Hk]; (split; [|exact Hk]).
    - destruct (P2 x Hx) as [Hl|(t & Ht & Hxt)]; [exact Hl|]. exfalso.
      assert (Ht' : In t (flat_map dann_s ss)) by (apply in_flat_map; eauto).
      specialize (H t Ht'). rewrite forallb_forall in H. rewrite (H x Hxt) in Hk. discriminate Hk.
    - apply P1, Hx. }
  rewrite E. apply nset_eqb_refl.
Qed.


(* ---- the theorems of Dep/AnnOrder.v with the syntactic hypothesis ---- *)
Theorem order_verdict_erase_types tgt r1 r2 :
  Sylt.Types.Erasure.same_modulo_annotations r1 r2 ->
  ann_types_only tgt (r_stmts r1) = true -> ann_types_only tgt (r_stmts r2) = true ->
  onf (initialization_order tgt (r_stmts r1)) = onf (initialization_order tgt (r_stmts r2)).
Proof. intros S H1 H2. apply order_verdict_erase; auto using ann_types_only_deps_ok. Qed.

Theorem order_then_backend_erase_types tgt fuel req r1 r2 l1 :
  Sylt.Types.Erasure.same_modulo_annotations r1 r2 ->
  ann_types_only tgt (r_stmts r1) = true -> ann_types_only tgt (r_stmts r2) = true ->
  init_order tgt (r_stmts r1) = OOk l1 ->
  exists l2, init_order tgt (r_stmts r2) = OOk l2
    /\ Back.Emit.backend fuel req (mkResolved (r_vars r1) l1) = Back.Emit.backend fuel req (mkResolved (r_vars r2) l2).
Proof. intros S H1 H2. apply order_then_backend_erase_ok; auto using ann_types_only_deps_ok. Qed.
