-- expect-wf: bad no loop to break
print(1)
if true then break end
