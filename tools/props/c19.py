"""C19 -- composite values compare, order and combine structurally."""
import collections
import json
import os

import hist_gen as H
import vlib

GEN = ["GenPreamble"]
TRUSTED = [
    "Coq 8.16.1 kernel (coqc); vm_compute for C19_op_templates / C19_preamble_doc, the examples and the refutation witness; no axioms (Print Assumptions: Closed under the global context)",
    "translator tools/gens/gen_preamble.py (preamble.lua -> names, shapes, digests; lua.rs -> operator format strings)",
    "coq/Sem/DocRuntime.v: the hand review of which Runtime function models which preamble definition (digests pin the reviewed text)",
    "coq/Sem/Runtime.v as the model of preamble.lua's metamethods under Lua 5.3 dispatch (first operand's metamethod, int/float subtypes): modelled, not verified; validated by the correspondence against the real text run by LuaCore",
    "LuaCore (coq/Lua/*.v, extracted) as the definition of what Lua 5.3 does with preamble.lua and with the compiler's output: there is no Lua interpreter in the sandbox",
    "extraction: ExtrOcamlBasic + ExtrOcamlString only; ocaml/runtime_driver.ml (case parser, printing, callbacks through exceptions)",
    "tools/hist_gen.py: generators, renderers to Lua / Sylt / case language, the plain Python models used by the oracle",
    "harness `compile` subcommand (real sylt_parser::tree + sylt_compiler::compile, std bundled)",
]
ASSUMPTIONS = [
    "numbers: integers are unbounded, floats are exact rationals; NaN (== not reflexive), infinities, -0.0, IEEE rounding and 64-bit wrap-around are outside the model (division by zero is reported as unsupported, never compared)",
    "reference interpreter: Lua 5.3 (what the repo's CI runs); LuaJIT/5.1 differences are notes",
    "values are trees: aliasing of mutable lists and cyclic blobs are outside the model; blobs with function fields compare the functions by identity",
    "printed floats are compared numerically (relative 1e-12) by the oracle, exactly by the model tie",
]
EXPLANATION = ("Theorems over the Runtime model for all values of all nested composite types (== decides structural equality and is an "
               "equivalence, != its complement; < <= > >= are one lexicographic strict total order; + - * / and unary minus are "
               "element-wise; + on strings concatenates; the full-strength + law is refuted for tuples that contain strings). Table tie: "
               "operator templates of lua.rs and the definitions of preamble.lua equal the reviewed lists. Correspondence: the real "
               "preamble.lua run by LuaCore vs the extracted Runtime model on generated values, and programs compiled by the real "
               "compiler vs the model; oracle: compiled programs vs plain structural definitions in Python.")

_m = {}

# classifiers of known findings: name -> predicate on an operator case
CLASSIFIERS = {
    "tuple-add-with-strings": lambda c: c.kind == "op2" and c.name == "add" and c.args[0][1][0] == "tuple" and H.has_str(c.args[0][1]),
    "neg-on-tuple-rejected": lambda c: c.kind == "op1" and c.name == "neg" and c.args[0][1][0] == "tuple",
}


def classify(c):
    for name, p in CLASSIFIERS.items():
        if p(c):
            return name
    return None


def open_known():
    return {kf.get("classifier") for kf in vlib.known_findings("C19") if kf.get("status") == "open"}


def build(ctx):
    ok, exe, out = H.build_model()
    _m["exe"] = exe
    if not ok:
        return False, out
    try:
        import lua_run
        lua_run.build()
    except Exception as e:       # noqa: BLE001
        return False, "lua_run build failed: %s" % e
    return True, out


def sizes(ctx):
    if ctx.tier == "quick":
        return {"lua_cases": 4000, "depth": 3, "programs": 110, "per_program": 12, "trigger": 12}
    return {"lua_cases": 120000, "depth": 5, "programs": 2500, "per_program": 14, "trigger": 120}


def gen_lua_cases(ctx, n, depth):
    r = vlib.rng(ctx.seed, "c19-lua")
    strs = H.STRS_SAFE + H.STRS_LUA_ONLY
    cases = []
    for _ in range(n):
        x = r.random()
        if x < 0.93:
            c = H.gen_op_case(r, r.randint(0, depth), strs)
            if c.cls == "eq" and r.random() < 0.3:
                c.blob_order = "rev"
        else:
            # ill-typed pairs: the dispatch between table kinds and basic types
            ta = H.gen_type(r, 1, ("int", "float", "str", "bool", "tuple", "list"))
            tb = H.gen_type(r, 1, ("int", "float", "str", "bool", "tuple", "list"))
            c = H.OpCase("op2", r.choice(["eq", "ne", "lt", "le", "gt", "ge", "add", "sub", "mul", "div"]),
                         [(H.gen_value(r, ta, strs), ta), (H.gen_value(r, tb, strs), tb)], "ill-typed")
        cases.append(c)
    return cases


def corpus_cases():
    """corpus/c19/*.json: {"kind": "op2"|"op1"|"fn", "name":..., "case": driver line, "lua": lua statement}"""
    d = os.path.join(vlib.VERIF, "corpus", "c19")
    out = []
    if os.path.isdir(d):
        for f in sorted(os.listdir(d)):
            if f.endswith(".json"):
                out.append((f, json.load(open(os.path.join(d, f), encoding="utf-8"))))
    return out


def lua_level(ctx, dist):
    """real preamble.lua (LuaCore) vs extracted Runtime on operator cases"""
    sz = sizes(ctx)
    cases = gen_lua_cases(ctx, sz["lua_cases"], sz["depth"])
    model = [H.decode_model(m) for m in H.model_lines(_m["exe"], [c.case_line() for c in cases])]
    real = H.run_op_cases_lua(cases, model)
    mism = []
    cls = collections.Counter()
    outcome = collections.Counter()
    depths = collections.Counter()
    kinds = collections.Counter()
    nontrivial = set()
    for c, m, g in zip(cases, model, real):
        cls[c.cls + ":" + c.name] += 1
        depths[max(H.type_depth(t) for _, t in c.args)] += 1
        kinds[c.args[0][1][0]] += 1
        outcome[m[1] if m[1] in ("ERR", "UNSUP") else "value"] += 1
        if max(H.type_depth(t) for _, t in c.args) >= 1:
            nontrivial.add(c.case_line())
        if m[0] != "R":
            mism.append({"where": "lua-level", "case": c.case_line(), "model": str(m), "real": g})
            continue
        if m[1] == "UNSUP":
            continue                      # outside the number model (x/0, string coerced to a number): not compared
        if m[1] != g:
            mism.append({"where": "lua-level", "case": c.case_line(), "lua": c.lua_expr(), "model": m[1], "real": g})
    # corpus
    ccases = corpus_cases()
    if ccases:
        cm = [H.decode_model(m) for m in H.model_lines(_m["exe"], [j["case"] for _, j in ccases])]
        cr = H.run_lua_bodies([j["lua"] for _, j in ccases])
        for (f, j), m, o in zip(ccases, cm, cr):
            got = o["trace"][0] if o["final"] == "done" and len(o["trace"]) == 1 else ("UNSUP" if o["final"] == "unsupported" else "FINAL:" + o["final"])
            if m[1] != "UNSUP" and m[1] != got:
                mism.append({"where": "corpus:" + f, "case": j["case"], "model": m[1], "real": got})
    dist["lua_level"] = {"cases": len(cases), "corpus": len(ccases), "operator_mix": dict(cls), "nesting_depth": dict(depths),
                         "first_operand_kind": dict(kinds), "model_outcomes": dict(outcome)}
    return mism, len(cases) + len(ccases), len(nontrivial)


def gen_programs(ctx, nprog, per, ntrigger, salt="c19-e2e"):
    """(cases, source, class) -- every trigger program holds ONE case of a class that once was a defect (both
    classes are repaired in /repo; only classes listed as open in known_findings.jsonl excuse a failure)"""
    r = vlib.rng(ctx.seed, salt)
    progs = []
    depth = sizes(ctx)["depth"]
    for _ in range(nprog):
        cs = []
        while len(cs) < per:
            c = H.gen_op_case(r, r.randint(0, depth)) if r.random() < 0.8 else H.gen_fn_case(r)
            if not H.writable(c):
                continue
            if c.cls == "eq" and r.random() < 0.3:
                c.blob_order = "rev"
            cs.append(c)
        progs.append((cs, H.op_program(cs), "clean"))
    for i in range(ntrigger):
        while True:
            if i % 2 == 0:
                t = H.gen_type(r, 2, ("int", "str", "tuple"))
                if not (t[0] == "tuple" and H.has_str(t)):
                    continue
                a, b = H.gen_pair(r, t, ["a", "b", "ab", "x y", ""])       # no digits: the coercion path stays out
                c = H.OpCase("op2", "add", [(a, t), (b, t)], "add-str")
            else:
                t = H.gen_type(r, 2, ("int", "float", "tuple"))
                if t[0] != "tuple":
                    continue
                c = H.OpCase("op1", "neg", [(H.gen_value(r, t), t)], "neg")
            if H.writable(c):
                break
        progs.append(([c], H.op_program([c]), classify(c)))
    return progs


def judge_program(cs, run, model):
    """-> (model-tie mismatches, oracle failures): each a list of (case, expected, got)"""
    tie_bad, oracle_bad = [], []
    if run["status"] != "OK":
        for c in cs:
            oracle_bad.append((c, c.expected(), "rejected by the compiler: " + run["status"]))
        return tie_bad, oracle_bad
    trace = run["trace"]
    for i, c in enumerate(cs):
        got = trace[i] if i < len(trace) else "<no output: %s %s>" % (run["final"], run["msg"])
        m = model[i]
        if m[0] == "R" and m[1] not in ("UNSUP",):
            exp_m = m[1]
            if exp_m == "ERR":
                if i < len(trace):
                    tie_bad.append((c, "ERR", got))
            elif exp_m != got:
                tie_bad.append((c, exp_m, got))
        exp = c.expected()
        if not H.same_line(exp, got):
            oracle_bad.append((c, exp, got))
        if i >= len(trace):
            break            # the program stopped: later observations are not judged
    return tie_bad, oracle_bad


def e2e(ctx, dist, progs=None):
    sz = sizes(ctx)
    progs = progs or gen_programs(ctx, sz["programs"], sz["per_program"], sz["trigger"])
    runs = H.compile_run([p[1] for p in progs])
    flat = [c for p in progs for c in p[0]]
    model_flat = [H.decode_model(m) for m in H.model_lines(_m["exe"], [c.case_line() for c in flat])]
    known = open_known()
    mism, failures, known_hits = [], [], collections.Counter()
    k = 0
    cls = collections.Counter()
    for (cs, src, pcls), run in zip(progs, runs):
        model = model_flat[k:k + len(cs)]
        k += len(cs)
        tb, ob = judge_program(cs, run, model)
        for c in cs:
            cls[c.cls + ":" + c.name] += 1
        for c, exp, got in tb:
            mism.append({"where": "e2e-model", "expr": c.sylt_expr(), "model": exp, "real": got})
        for c, exp, got in ob:
            name = classify(c)
            if name and name in known:
                known_hits[name] += 1
            else:
                failures.append({"class": name or "UNCLASSIFIED", "expr": c.sylt_expr(), "expected": exp, "got": got,
                                 "source": H.op_program([c])})
                mism.append({"where": "oracle", "class": name or "UNCLASSIFIED", "expr": c.sylt_expr(), "expected": exp, "real": got})
    dist["e2e"] = {"programs": len(progs), "observations": len(flat), "operator_mix": dict(cls),
                   "accepted": sum(1 for r in runs if r["status"] == "OK"),
                   "known_finding_hits": dict(known_hits)}
    ctx.c19_failures = failures
    return mism, len(flat)


def admits(op, t):
    """the reviewed class of operand types per operator (Coq: RuntimeLaws.admits; typechecker.rs equ/cmp/add/sub/mul/div/neg)"""
    if op in ("eq", "ne"):
        return True
    if op in ("lt", "le", "gt", "ge"):
        return H.is_ord(t)
    if op == "add":
        return H.is_add(t)
    return H.is_num(t)          # sub mul div neg


def admissibility(ctx, dist):
    """the REAL type checker accepts `a o b` on two operands of one type exactly for the types `admits` names"""
    r = vlib.rng(ctx.seed, "c19-admit")
    n = 260 if ctx.tier == "quick" else 4000
    items = []
    while len(items) < n:
        t = H.gen_type(r, r.randint(0, 2))
        op = r.choice(["eq", "ne", "lt", "le", "gt", "ge", "add", "sub", "mul", "div", "neg"])
        try:
            a, b = H.sy(H.gen_value(r, t, small=True), t), H.sy(H.gen_value(r, t, small=True), t)
        except ValueError:
            continue
        e = "-a" if op == "neg" else "a %s b" % H.SY_OPS[op]
        src = H.sylt_program(["    a: %s = %s" % (H.sy_type(t), a), "    b: %s = %s" % (H.sy_type(t), b), "    c := " + e,
                              "    print(1)"], use_decls=H.uses_decls(t))
        items.append((op, t, src))
    cases = ["std\t/main.sy\t/main.sy=%s" % vlib.hexs(src) for _, _, src in items]
    outs = vlib.harness("compile", cases, timeout_s=30)
    mism = []
    tab = collections.Counter()
    for (op, t, src), o in zip(items, outs):
        accepted = o.startswith("OK ")
        want = admits(op, t)
        tab["%s:%s" % (op, "admitted" if want else "not-admitted")] += 1
        if accepted != want or (not accepted and not o.startswith("ERR Type:")):
            mism.append({"where": "admissibility", "operator": op, "type": H.sy_type(t), "predicate_admits": want,
                         "compiler": o[:120], "source": src})
    dist["admissibility"] = {"programs": len(items), "operator_x_class": dict(tab)}
    return mism, len(items)


def tie(ctx):
    dist = {}
    m1, n1, nt = lua_level(ctx, dist)
    m2, n2 = e2e(ctx, dist)
    m3, n3 = admissibility(ctx, dist)
    mism = m1 + m2 + m3
    n2 += n3
    samples = []
    r = vlib.rng(ctx.seed, "c19-samples")
    for _ in range(3):
        c = H.gen_op_case(r, 3)
        if H.writable(c):
            samples.append({"expr": c.sylt_expr(), "plain_model": c.expected()})
    return {"name": "runtime", "ok": not mism, "mismatches": mism[:10], "evaluations": n1 + n2, "distinct_nontrivial": nt,
            "rule": "(1) operator applications on generated values of generated types (ints, floats, strings incl. separators, "
                    "quotes, numerals and non-ASCII, bools, tuples, lists, Maybe, blobs, enums; pairs differ in at most one leaf "
                    "70% of the time; 7% ill-typed pairs) evaluated by the real preamble.lua under LuaCore and by the extracted "
                    "Runtime model; (2) Sylt programs (std bundled) printing such applications, compiled by the real compiler and "
                    "run by LuaCore, compared with the Runtime model and with plain structural definitions in Python; (3) for "
                    "generated types (all kinds, depth <= 2) and every operator, the real type checker accepts `a o b` on two "
                    "operands of that type exactly when the reviewed predicate `admits` does; non-trivial = "
                    "an operand of composite type; distinct by case text",
            "samples": samples, "distribution": dist}


def search(ctx):
    """the property's oracle on the real compiler: compiled programs vs the plain structural definitions"""
    fails = getattr(ctx, "c19_failures", None)
    if not fails:
        if not _m.get("exe"):
            build(ctx)
        sz = sizes(ctx)
        progs = gen_programs(ctx, sz["programs"] * 2, sz["per_program"], sz["trigger"], salt="c19-search")
        e2e(ctx, {}, progs)
        fails = ctx.c19_failures
    if not fails:
        return None
    fails.sort(key=lambda f: len(f["source"]))
    f = fails[0]
    return {"class": f["class"], "files": {"/main.sy": f["source"]}, "expression": f["expr"], "expected": [f["expected"]],
            "actual": f["got"], "what": "the compiled program prints something else than the structural definition gives",
            "replay_cmd": "python3 tools/check.py C19 --replay <this file>", "failing_inputs_found": len(fails)}


def run_witness(files, expected):
    src = files["/main.sy"]
    run = H.compile_run([src])[0]
    ok = run["status"] == "OK" and run["final"] == "done" and len(run["trace"]) == len(expected) and all(
        H.same_line(a, b) for a, b in zip(expected, run["trace"]))
    return ok, run


def replay_known(ctx, kf):
    if not _m.get("exe"):
        build(ctx)
    w = kf.get("witness", {})
    ok, _ = run_witness(w["files"], w["expected"])
    return not ok


def replay(ctx, rep):
    fi = rep.get("failing_input") or {}
    if not fi:
        print("nothing to replay: no failing input in this file")
        return 0
    vlib.build_harness()
    build(ctx)
    ok, run = run_witness(fi["files"], fi["expected"])
    print("replay:", fi.get("expression"), "expected", fi["expected"], "->", run["status"], run["final"], run["msg"], run["trace"])
    print("property holds" if ok else "property violated")
    return 0 if ok else 1
