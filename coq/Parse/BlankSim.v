(* C14 blank lines: a stuttering simulation of the whole parser.
   Two token lists without comments, the right one with more newlines next to newlines (BlankCtx.BL).  The two
   runs are in step everywhere except at the heads of the loops that treat a newline as nothing - the statement
   loop of a block (one more EmptyStatement), the case-branch loop, the blob-field loop - where the right run
   goes round once more for every newline the left list does not have.  Results are compared after removing
   EmptyStatements from every statement list (Syntax/DropEmpty.v).  Error contexts are not compared: after the
   first error in a block both runs are doomed (ParserTotal: a block that has recorded an error never answers Ok).
   Out of fuel is a wildcard on both sides; the entry theorem removes it with the totality theorem. *)
From Coq Require Import List NArith Bool Arith Lia.
From Sylt Require Import Syntax.Ast Syntax.Tok Syntax.DropEmpty Parse.PrecTable Parse.Parser Parse.ParserProofs
  Parse.ParserTotal Parse.BlankCtx.
From Sylt Require Parse.SimGen Parse.LayoutStmt.
Import ListNotations.

(* ------------------------------------------------------------------------------------------- *)
(* EmptyStatements removed: algebra *)

Lemma de_ss_app a b : de_ss (a ++ b) = de_ss a ++ de_ss b.
Proof.
  unfold de_ss. induction a as [|s a IH]; [reflexivity|]. cbn [app drop_with]. destruct (is_empty_stmt s); [exact IH|].
  cbn [app]. f_equal. exact IH.
Qed.

Lemma de_s_empty s : is_empty_stmt (de_s s) = is_empty_stmt s.
Proof. destruct s; try reflexivity. destruct value; reflexivity. Qed.

Lemma de_ss_single s s' : de_s s = de_s s' -> de_ss [s] = de_ss [s'].
Proof.
  intros H. unfold de_ss. cbn [drop_with]. rewrite <- (de_s_empty s), <- (de_s_empty s'), H. reflexivity.
Qed.

Lemma de_ss_snoc a a' s s' : de_ss a = de_ss a' -> de_s s = de_s s' -> de_ss (a ++ [s]) = de_ss (a' ++ [s']).
Proof. intros H1 H2. rewrite !de_ss_app, H1, (de_ss_single s s' H2). reflexivity. Qed.

Lemma de_ss_snoc_empty a : de_ss (a ++ [SEmpty]) = de_ss a.
Proof. rewrite de_ss_app. cbn. apply app_nil_r. Qed.

Lemma pop_empty_rev_de : forall r, de_ss (rev (pop_empty_rev r)) = de_ss (rev r).
Proof.
  induction r as [|s r IH]; [reflexivity|]. destruct s; try reflexivity. cbn [pop_empty_rev rev].
  rewrite de_ss_snoc_empty. exact IH.
Qed.

Lemma de_ss_pop b : de_ss (pop_trailing_empty b) = de_ss b.
Proof. unfold pop_trailing_empty. rewrite pop_empty_rev_de, rev_involutive. reflexivity. Qed.

Lemma is_outer_de s s' : de_s s = de_s s' -> is_outer s = is_outer s'.
Proof.
  intros H. assert (X : forall x, is_outer (de_s x) = is_outer x) by (intros x; destruct x; try reflexivity; destruct value; reflexivity).
  rewrite <- (X s), <- (X s'), H. reflexivity.
Qed.

Lemma noempty_de ss : de_ss ss = map de_s (SimGen.noempty ss).
Proof.
  unfold de_ss, SimGen.noempty. induction ss as [|s ss IH]; [reflexivity|]. cbn [drop_with filter].
  change (SimGen.is_empty_stmt s) with (is_empty_stmt s). destruct (is_empty_stmt s); cbn [negb map]; [exact IH|].
  f_equal. exact IH.
Qed.

Lemma prepend_de : forall r r' l l', de_e l = de_e l' -> de_e r = de_e r' ->
  match prepend l r, prepend l' r' with
  | Some e, Some e' => de_e e = de_e e'
  | None, None => True
  | _, _ => False
  end.
Proof.
  fix IH 1. intros r r' l l' Hl Hr.
  destruct r as [a| | | | | | | | | | | | | |]; destruct r' as [a'| | | | | | | | | | | | | |]; try discriminate Hr;
    try exact I; cbn [prepend]; try exact I.
  destruct a as [|?|f args|p f args| | |]; destruct a' as [|?|f' args'|p' f' args'| | |]; try discriminate Hr;
    try exact I; cbn [prepend]; try exact I.
  - cbn [de_e de_a] in Hr. injection Hr as Hf Ha. cbn [de_e de_a]. rewrite Hl, Hf, Ha. reflexivity.
  - cbn [de_e de_a] in Hr. injection Hr as Hp Hf Ha. specialize (IH p p' l l' Hl Hp).
    destruct (prepend l p), (prepend l' p'); try contradiction; [|exact I].
    cbn [de_e de_a]. rewrite IH, Hf, Ha. reflexivity.
Qed.

(* ------------------------------------------------------------------------------------------- *)
(* requests, results, programs *)

Definition unpos (l : list (name * ty * nat)) : list (name * ty) := map fst l.

Definition de_fs (fs : list (name * expr)) : list (name * expr) := map (fun f => (fst f, de_e (snd f))) fs.
Definition de_tup (x : bool * list expr) : bool * list expr := (fst x, map de_e (snd x)).
Definition de_oss (x : option (list stmt)) : option (list stmt) := match x with Some b => Some (de_ss b) | None => None end.

(* aligned, or - where a newline is a no-op and newlines count - the right cursor on extra newlines *)
Definition AU (c c' : ctx) : Prop := A c c' \/ (nl c = false /\ U c c').

Definition qrelB (q q' : req) : Prop :=
  match q, q' with
  | QPrec p c, QPrec p' c' => p = p' /\ A c c'
  | QLoop p l c, QLoop p' l' c' => p = p' /\ de_e l = de_e l' /\ A c c'
  | QSub a c, QSub a' c' => de_a a = de_a a' /\ A c c'
  | QArgs pr acc c, QArgs pr' acc' c' => pr = pr' /\ map de_e acc = map de_e acc' /\ A c c'
  | QTuple i acc c, QTuple i' acc' c' => i = i' /\ map de_e acc = map de_e acc' /\ A c c'
  | QList acc c, QList acc' c' => map de_e acc = map de_e acc' /\ A c c'
  | QFields acc c, QFields acc' c' => de_fs acc = de_fs acc' /\ A c c'
  | QElifs acc c, QElifs acc' c' => map de_ib acc = map de_ib acc' /\ A c c'
  | QCases acc c, QCases acc' c' => map de_cb acc = map de_cb acc' /\ AU c c'
  | QParams acc c, QParams acc' c' => acc = acc' /\ A c c'
  | QType c, QType c' => A c c'
  | QSepTypes o c, QSepTypes o' c' => o = o' /\ A c c'
  | QFnTyParams acc c, QFnTyParams acc' c' => acc = acc' /\ A c c'
  | QTyTuple i acc c, QTyTuple i' acc' c' => i = i' /\ acc = acc' /\ A c c'
  | QStmts acc errs c, QStmts acc' errs' c' =>
      (de_ss acc = de_ss acc' /\ errs = [] /\ errs' = [] /\ U c c') \/ (errs <> [] /\ errs' <> [])
  | QStmt c, QStmt c' => A c c'
  | QEnumItems acc c, QEnumItems acc' c' => unpos acc = unpos acc' /\ U c c'
  | QBlobFields acc c, QBlobFields acc' c' => acc = acc' /\ AU c c'
  | _, _ => False
  end.

Definition orelB (o o' : out) : Prop :=
  match o, o' with
  | RE e c, RE e' c' => de_e e = de_e e' /\ A c c'
  | RA a c, RA a' c' => de_a a = de_a a' /\ A c c'
  | REs es c, REs es' c' => map de_e es = map de_e es' /\ A c c'
  | RTup i es c, RTup i' es' c' => i = i' /\ map de_e es = map de_e es' /\ A c c'
  | RFs fs c, RFs fs' c' => de_fs fs = de_fs fs' /\ A c c'
  | RIfs bs c, RIfs bs' c' => map de_ib bs = map de_ib bs' /\ A c c'
  | RCases bs c, RCases bs' c' => map de_cb bs = map de_cb bs' /\ A c c'
  | RParams ps r c, RParams ps' r' c' => ps = ps' /\ r = r' /\ A c c'
  | RT t c, RT t' c' => t = t' /\ A c c'
  | RTs ts c, RTs ts' c' => ts = ts' /\ A c c'
  | RFnTy ps r c, RFnTy ps' r' c' => ps = ps' /\ r = r' /\ A c c'
  | RTyTup i ts c, RTyTup i' ts' c' => i = i' /\ ts = ts' /\ A c c'
  | RSs ss c, RSs ss' c' => de_ss ss = de_ss ss' /\ A c c'
  | RS s c, RS s' c' => de_s s = de_s s' /\ U c c'
  | RNTs l c, RNTs l' c' => l = l' /\ A c c'
  | REnum l c, REnum l' c' => unpos l = unpos l' /\ A c c'
  | _, _ => False
  end.

Definition resrelB {X : Type} (RX : X -> X -> Prop) (r r' : res X) : Prop :=
  match r, r' with
  | Ok a, Ok a' => RX a a'
  | Err _ _, Err _ _ => True
  | Fuel, Fuel => True
  | Panic, Panic => True
  | _, _ => False
  end.

Definition resrelF {X : Type} (RX : X -> X -> Prop) (r r' : res X) : Prop :=
  r = Fuel \/ r' = Fuel \/ resrelB RX r r'.

(* a failed statement reports at least one error (ParserTotal) *)
Definition UErr (q : req) (es : list nat) : Prop := match q with QStmt _ => es <> [] | _ => True end.

(* a successful statement has consumed a token that is not a comment (ParserTotal) *)
Definition UOk (q : req) (o : out) : Prop := match q, o with QStmt c, RS _ c' => ltm c c' | _, _ => True end.

Inductive prelB {X : Type} (RX : X -> X -> Prop) : prog X -> prog X -> Prop :=
| pb_ret r r' : resrelB RX r r' -> prelB RX (Ret r) (Ret r')
| pb_call q q' k k' e e' :
    qrelB q q' ->
    (forall o o', orelB o o' -> UOk q o -> UOk q' o' -> prelB RX (k o) (k' o')) ->
    (forall c es c' es', UErr q es -> UErr q' es' -> prelB RX (e c es) (e' c' es')) ->
    prelB RX (Call q k e) (Call q' k' e').

Lemma run_relF {X : Type} (RX : X -> X -> Prop) (rec rec' : req -> res out) :
  (forall q q', qrelB q q' -> resrelF orelB (rec q) (rec' q')) ->
  (forall q c es, rec q = Err c es -> UErr q es) -> (forall q c es, rec' q = Err c es -> UErr q es) ->
  (forall q o, rec q = Ok o -> UOk q o) -> (forall q o, rec' q = Ok o -> UOk q o) ->
  forall m m', prelB RX m m' -> resrelF RX (run rec m) (run rec' m').
Proof.
  intros HR HE HE' HO HO' m m' H. induction H as [r r' Hr|q q' k k' e e' Hq Hk IHk He IHe].
  - right. right. exact Hr.
  - cbn [run]. specialize (HR q q' Hq). pose proof (HE q) as V. pose proof (HE' q') as V'.
    pose proof (HO q) as W. pose proof (HO' q') as W'.
    destruct (rec q) as [o|c es| |]; [| |left; reflexivity|].
    + destruct (rec' q') as [o'|c' es'| |]; [| |right; left; reflexivity|];
        destruct HR as [X0|[X0|X0]]; try discriminate X0; try contradiction.
      apply IHk; [exact X0|apply W; reflexivity|apply W'; reflexivity].
    + destruct (rec' q') as [o'|c' es'| |]; [| |right; left; reflexivity|];
        destruct HR as [X0|[X0|X0]]; try discriminate X0; try contradiction.
      apply IHe; [eapply V; reflexivity|eapply V'; reflexivity].
    + destruct (rec' q') as [o'|c' es'| |]; [| |right; left; reflexivity|];
        destruct HR as [X0|[X0|X0]]; try discriminate X0; try contradiction. right. right. exact I.
Qed.

Lemma ptryB {X Y : Type} (RX : X -> X -> Prop) (RY : Y -> Y -> Prop) m m' (k k' : X -> prog Y)
  (e e' : ctx -> list nat -> prog Y) :
  prelB RX m m' -> (forall a a', RX a a' -> prelB RY (k a) (k' a')) ->
  (forall c es c' es', prelB RY (e c es) (e' c' es')) ->
  prelB RY (ptry m k e) (ptry m' k' e').
Proof.
  intros H Hk He. induction H as [r r' Hr|q q' k0 k0' e0 e0' Hq Hk0 IHk He0 IHe].
  - destruct r as [a|c es| |], r' as [a'|c' es'| |]; try contradiction; cbn [ptry].
    + apply Hk. exact Hr.
    + apply He.
    + constructor. exact I.
    + constructor. exact I.
  - cbn [ptry]. constructor; [exact Hq| |].
    + intros o o' Ho W W'. apply IHk; assumption.
    + intros c es c' es' V V'. apply IHe; assumption.
Qed.

(* the error continuation knows that a failed STATEMENT reports at least one error *)
Lemma ptryB_stmt {Y : Type} (RX : stmt * ctx -> stmt * ctx -> Prop) (RY : Y -> Y -> Prop) c0 c0'
  (k k' : stmt * ctx -> prog Y) (e e' : ctx -> list nat -> prog Y) :
  A c0 c0' ->
  (forall s c s' c', de_s s = de_s s' -> U c c' -> ltm c0 c -> ltm c0' c' -> prelB RY (k (s, c)) (k' (s', c'))) ->
  (forall c es c' es', es <> [] -> es' <> [] -> prelB RY (e c es) (e' c' es')) ->
  prelB RY (ptry (statement c0) k e) (ptry (statement c0') k' e').
Proof.
  intros H Hk He. unfold statement, call_S. cbn [ptry]. constructor; [exact H| |].
  - intros o o' Ho W W'. destruct o, o'; cbn [orelB] in Ho; try contradiction; cbn [get_S ptry ok panic];
      try (constructor; exact I). destruct Ho as [Hs Hc]. apply Hk; assumption.
  - intros c es c' es' V V'. cbn [reraise ptry]. apply He; assumption.
Qed.

Lemma pb_ok {X : Type} (RX : X -> X -> Prop) a a' : RX a a' -> prelB RX (ok a) (ok a').
Proof. intros H. constructor. exact H. Qed.
Lemma pb_raise {X : Type} (RX : X -> X -> Prop) c c' : prelB RX (praise c) (praise c').
Proof. constructor. exact I. Qed.
Lemma pb_reraise {X : Type} (RX : X -> X -> Prop) c es c' es' : prelB RX (reraise c es) (reraise c' es').
Proof. constructor. exact I. Qed.
Lemma pb_panic {X : Type} (RX : X -> X -> Prop) : prelB RX panic panic.
Proof. constructor. exact I. Qed.
Lemma pb_err {X : Type} (RX : X -> X -> Prop) c es c' es' : prelB RX (Ret (Err c es)) (Ret (Err c' es')).
Proof. constructor. exact I. Qed.

Lemma pb_if {X : Type} (RX : X -> X -> Prop) (b b' : bool) m1 m1' m2 m2' :
  b' = b -> (b = true -> prelB RX m1 m1') -> (b = false -> prelB RX m2 m2') ->
  prelB RX (if b then m1 else m2) (if b' then m1' else m2').
Proof. intros -> H1 H2. destruct b; [apply H1|apply H2]; reflexivity. Qed.

Lemma bindB {X Y : Type} (RX : X -> X -> Prop) (RY : Y -> Y -> Prop) m m' (k k' : X -> prog Y) :
  prelB RX m m' -> (forall a a', RX a a' -> prelB RY (k a) (k' a')) ->
  prelB RY (ptry m k reraise) (ptry m' k' reraise).
Proof. intros H Hk. apply (ptryB RX); [exact H|exact Hk|]. intros. apply pb_reraise. Qed.

(* a value with the cursor after it *)
Definition VR {X : Type} (f : X -> X) (x x' : X * ctx) : Prop := f (fst x) = f (fst x') /\ A (snd x) (snd x').
Definition idf {X : Type} (x : X) : X := x.

Lemma pexpectB k c c' : A c c' -> k <> KNewline -> prelB A (pexpect k c) (pexpect k c').
Proof.
  intros H N. unfold pexpect, expect. rewrite (A_is_k k _ _ H). destruct (is_k k c) eqn:E.
  - constructor. apply (A_skip1_isk c c' k); assumption.
  - constructor. exact I.
Qed.

Lemma callB q q' : qrelB q q' -> prelB orelB (call q) (call q').
Proof.
  intros H. unfold call. constructor; [exact H| |].
  - intros o o' Ho _ _. apply pb_ok. exact Ho.
  - intros. apply pb_reraise.
Qed.

Lemma call_getB {X : Type} (RX : X -> X -> Prop) (get : out -> prog X) q q' :
  (forall o o', orelB o o' -> prelB RX (get o) (get o')) -> qrelB q q' ->
  prelB RX (Call q get reraise) (Call q' get reraise).
Proof.
  intros G H. constructor; [exact H| |].
  - intros o o' Ho _ _. apply G. exact Ho.
  - intros. apply pb_reraise.
Qed.

Ltac getterB := intros o o' Ho; destruct o, o'; cbn [orelB] in Ho; try contradiction; try apply pb_panic;
  apply pb_ok; unfold VR, idf, de_tup; cbn [fst snd]; intuition congruence.

Lemma get_E_B o o' : orelB o o' -> prelB (VR de_e) (get_E o) (get_E o'). Proof. revert o o'. getterB. Qed.
Lemma get_A_B o o' : orelB o o' -> prelB (VR de_a) (get_A o) (get_A o'). Proof. revert o o'. getterB. Qed.
Lemma get_Es_B o o' : orelB o o' -> prelB (VR (map de_e)) (get_Es o) (get_Es o'). Proof. revert o o'. getterB. Qed.
Lemma get_Tup_B o o' : orelB o o' -> prelB (VR de_tup) (get_Tup o) (get_Tup o'). Proof. revert o o'. getterB. Qed.
Lemma get_Fs_B o o' : orelB o o' -> prelB (VR de_fs) (get_Fs o) (get_Fs o'). Proof. revert o o'. getterB. Qed.
Lemma get_Ifs_B o o' : orelB o o' -> prelB (VR (map de_ib)) (get_Ifs o) (get_Ifs o'). Proof. revert o o'. getterB. Qed.
Lemma get_Cases_B o o' : orelB o o' -> prelB (VR (map de_cb)) (get_Cases o) (get_Cases o'). Proof. revert o o'. getterB. Qed.
Lemma get_Params_B o o' : orelB o o' -> prelB (VR idf) (get_Params o) (get_Params o'). Proof. revert o o'. getterB. Qed.
Lemma get_T_B o o' : orelB o o' -> prelB (VR idf) (get_T o) (get_T o'). Proof. revert o o'. getterB. Qed.
Lemma get_Ts_B o o' : orelB o o' -> prelB (VR idf) (get_Ts o) (get_Ts o'). Proof. revert o o'. getterB. Qed.
Lemma get_FnTy_B o o' : orelB o o' -> prelB (VR idf) (get_FnTy o) (get_FnTy o'). Proof. revert o o'. getterB. Qed.
Lemma get_TyTup_B o o' : orelB o o' -> prelB (VR idf) (get_TyTup o) (get_TyTup o'). Proof. revert o o'. getterB. Qed.
Lemma get_Ss_B o o' : orelB o o' -> prelB (VR de_ss) (get_Ss o) (get_Ss o'). Proof. revert o o'. getterB. Qed.
Lemma get_NTs_B o o' : orelB o o' -> prelB (VR idf) (get_NTs o) (get_NTs o'). Proof. revert o o'. getterB. Qed.

(* ------------------------------------------------------------------------------------------- *)
(* tactics *)

Lemma A_nl c c' : A c c' -> nl c' = nl c.
Proof. apply u_nl. Qed.

Lemma A_pop b b' c c' : b = b' -> A c c' -> A (pop_nl b c) (pop_nl b' c').
Proof. intros <- H. unfold pop_nl. apply Uk_set_nl. exact H. Qed.

Lemma A_push_fst b c c' : A c c' -> A (fst (push_nl b c)) (fst (push_nl b c')).
Proof. intros H. apply (A_push b c c' H). Qed.

Lemma A_skip2 c c' t1 t2 : A c c' -> nl c = false -> token c = t1 -> isNL t1 = false ->
  token (skip 1 c) = t2 -> isNL t2 = false -> A (skip 2 c) (skip 2 c').
Proof.
  intros H En E1 N1 E2 N2. rewrite (LayoutStmt.skip2_eq c En), (LayoutStmt.skip2_eq c') by (rewrite (A_nl _ _ H); exact En).
  apply (A_skip1_tk _ _ t2); [apply (A_skip1_tk _ _ t1); assumption|exact E2|exact N2].
Qed.

Lemma A_skip3 c c' t1 t2 t3 : A c c' -> nl c = false -> token c = t1 -> isNL t1 = false ->
  token (skip 1 c) = t2 -> isNL t2 = false -> token (skip 1 (skip 1 c)) = t3 -> isNL t3 = false ->
  A (skip 3 c) (skip 3 c').
Proof.
  intros H En E1 N1 E2 N2 E3 N3.
  rewrite (LayoutStmt.skip3_eq c En), (LayoutStmt.skip3_eq c') by (rewrite (A_nl _ _ H); exact En).
  apply (A_skip1_tk _ _ t3); [apply (A_skip1_tk _ _ t2); [apply (A_skip1_tk _ _ t1); assumption|exact E2|exact N2]|exact E3|exact N3].
Qed.

Ltac asolve :=
  lazymatch goal with
  | H : A ?c ?c' |- A ?c ?c' => exact H
  | |- A (skip 1 ?c) (skip 1 ?c') =>
      first [ (eapply A_skip1_tk; [asolve | eassumption | reflexivity])
            | (eapply A_skip1_isk; [asolve | eassumption | discriminate])
            | (apply A_skip1_nlt; [asolve | assumption])
            | (apply A_skip1; [asolve | right; assumption]) ]
  | |- A (skip_if ?k ?c) (skip_if ?k ?c') => apply A_skip_if; [asolve | discriminate]
  | |- A (set_nl _ _) (set_nl _ _) => apply Uk_set_nl; asolve
  | |- A (pop_nl _ _) (pop_nl _ _) => apply A_pop; [reflexivity | asolve]
  | |- A (fst (push_nl _ _)) (fst (push_nl _ _)) => apply A_push_fst; asolve
  | |- A (skip_nls _) (skip_nls _) => apply U_skip_nls; first [assumption | (apply A_U; asolve)]
  | |- A (after_arg _) (after_arg _) => apply A_after_arg; asolve
  end.

Ltac beqB := first [reflexivity | (apply A_token; asolve) | (apply A_is_k; asolve) | (apply A_nl; asolve)
                   | (progress f_equal; beqB)].

Lemma A_pushE c c' b c2 o c2' o' : A c c' -> push_nl b c = (c2, o) -> push_nl b c' = (c2', o') -> A c2 c2' /\ o' = o.
Proof.
  intros H E E'. pose proof (A_push b _ _ H) as [X Y]. rewrite E, E' in X, Y. split; [exact X|exact Y].
Qed.

Ltac dpushB :=
  match goal with
  | |- prelB _ ?m ?m' =>
      match m with
      | context [push_nl ?f ?c] =>
          match m' with
          | context [push_nl f ?c'] =>
              let c2 := fresh "cp" in let o := fresh "old" in let c2' := fresh "cp'" in let o' := fresh "old'" in
              let E := fresh "E" in let E' := fresh "E'" in let H := fresh "HP" in
              destruct (push_nl f c) as [c2 o] eqn:E; destruct (push_nl f c') as [c2' o'] eqn:E';
              assert (H : A c2 c2' /\ o' = o) by (apply (A_pushE c c' f c2 o c2' o'); [asolve|exact E|exact E']);
              clear E E'; destruct H as [H ->]
          end
      end
  end.

Ltac xr_introB :=
  let x := fresh "x" in let x' := fresh "x'" in let HX := fresh "HX" in
  intros x x' HX;
  repeat match goal with p : (_ * _)%type |- _ => destruct p end;
  unfold VR, idf, de_tup in HX; cbn [fst snd] in HX;
  let HE := fresh "HE" in let HR := fresh "HR" in
  destruct HX as [HE HR];
  repeat match type of HE with (_, _) = (_, _) => let H1 := fresh "HE" in injection HE as HE H1 end;
  try subst; cbv beta iota zeta.

Ltac desolve :=
  first [ reflexivity | assumption
        | (apply de_ss_snoc; assumption)
        | (unfold de_fs, de_tup, de_oss, idf, de_ss in *; cbn [de_e de_a de_s de_ib de_cb map fst snd] in *;
           rewrite ?map_app; cbn [de_e de_a de_s de_ib de_cb map app fst snd]; congruence) ].

(* ------------------------------------------------------------------------------------------- *)
(* the token-only loops *)

Definition lf2 := SimGen.lf2.

Lemma resB_raise {X : Type} (RX : X -> X -> Prop) c c' : resrelB RX (raise c) (raise c').
Proof. exact I. Qed.

Lemma expectB k c c' : A c c' -> k <> KNewline -> resrelB A (expect k c) (expect k c').
Proof.
  intros H N. unfold expect. rewrite (A_is_k k _ _ H). destruct (is_k k c) eqn:E; [|exact I].
  apply (A_skip1_isk c c' k); assumption.
Qed.

Lemma rbindB {X Y : Type} (RX : X -> X -> Prop) (RY : Y -> Y -> Prop) m m' (k k' : X -> res Y) :
  resrelB RX m m' -> (forall a a', RX a a' -> resrelB RY (k a) (k' a')) -> resrelB RY (bind m k) (bind m' k').
Proof.
  intros H Hk. destruct m as [a|c es| |], m' as [a'|c' es'| |]; try contradiction; cbn [bind]; try exact I.
  apply Hk. exact H.
Qed.

Lemma resB_if {X : Type} (RX : X -> X -> Prop) (b b' : bool) (m1 m1' m2 m2' : res X) :
  b' = b -> (b = true -> resrelB RX m1 m1') -> (b = false -> resrelB RX m2 m2') ->
  resrelB RX (if b then m1 else m2) (if b' then m1' else m2').
Proof. intros -> H1 H2. destruct b; [apply H1|apply H2]; reflexivity. Qed.

Ltac psim1B :=
  lazymatch goal with
  | |- resrelB _ (Ok _) (Ok _) =>
      cbn [resrelB]; first [asolve | (unfold VR, idf; cbn [fst snd]; split; [reflexivity|asolve])]
  | |- resrelB _ (raise _) (raise _) => exact I
  | |- resrelB _ (Err _ _) (Err _ _) => exact I
  | |- resrelB _ Fuel Fuel => exact I
  | |- resrelB _ Panic Panic => exact I
  | |- resrelB _ (expect _ _) (expect _ _) => apply expectB; [asolve|discriminate]
  | |- resrelB _ (bind ?m _) (bind _ _) =>
      lazymatch type of m with
      | res ctx => apply (rbindB A); [|let a := fresh "cx" in let a' := fresh "cx'" in let H := fresh "HR" in
                                        intros a a' H; cbv beta iota zeta]
      | _ => apply (rbindB (VR idf)); [|xr_introB]
      end
  | |- resrelB _ (if ?b then _ else _) (if ?b' then _ else _) =>
      apply resB_if; [beqB|let Hb := fresh "Hb" in intros Hb|let Hb := fresh "Hb" in intros Hb]
  | |- resrelB _ (match token ?x with _ => _ end) (match token ?y with _ => _ end) =>
      replace (token y) with (token x) by (symmetry; apply A_token; asolve);
      let Tk := fresh "Tk" in destruct (token x) eqn:Tk
  | |- resrelB _ (match ?k with KNil => _ | _ => _ end) (match ?k with KNil => _ | _ => _ end) => destruct k
  end.
Ltac psimsB := repeat (cbv beta zeta; psim1B).

Lemma ta_innerB : forall f c c' acc, A c c' ->
  resrelB (VR idf) (type_assignable_inner f c acc) (type_assignable_inner f c' acc).
Proof.
  induction f as [|f IH]; intros c c' acc H; [exact I|]. cbn [type_assignable_inner].
  psimsB. apply IH. exact HR.
Qed.

Lemma taB c c' : A c c' -> resrelB (VR idf) (type_assignable c) (type_assignable c').
Proof.
  intros H. unfold type_assignable. rewrite (A_token _ _ H).
  destruct (token c) eqn:Tk; try exact I.
  destruct (is_capitalized s); [psimsB|].
  assert (H1 : A (skip 1 c) (skip 1 c')) by asolve.
  unfold expect. rewrite (A_is_k KDot _ _ H1).
  destruct (is_k KDot (skip 1 c)) eqn:Ed; [|exact I]. cbn [bind].
  rewrite (SimGen.sat_ta_inner (local_fuel c) (lf2 c c') (skip 1 (skip 1 c))),
          (SimGen.sat_ta_inner (local_fuel c') (lf2 c c') (skip 1 (skip 1 c')));
    [apply ta_innerB; asolve|apply SimGen.lf_ok|apply SimGen.lf2_r|apply SimGen.lf_ok|apply SimGen.lf2_l]; apply SimGen.plen_skip2.
Qed.

Lemma constraint_argsB : forall f c c' acc, A c c' ->
  resrelB (VR idf) (constraint_args f c acc) (constraint_args f c' acc).
Proof.
  induction f as [|f IH]; intros c c' acc H; [exact I|]. cbn [constraint_args].
  psimsB. apply IH. asolve.
Qed.

Lemma constraintB f c c' : A c c' -> resrelB (VR idf) (constraint f c) (constraint f c').
Proof. intros H. unfold constraint. psimsB. apply constraint_argsB. asolve. Qed.

Lemma constraints_innerB : forall f c c' ident lst m, A c c' ->
  resrelB (VR idf) (constraints_inner f c ident lst m) (constraints_inner f c' ident lst m).
Proof.
  induction f as [|f IH]; intros c c' ident lst m H; [exact I|]. cbn [constraints_inner].
  rewrite (SimGen.sat_constraint (local_fuel c) (lf2 c c') c), (SimGen.sat_constraint (local_fuel c') (lf2 c c') c');
    try (unfold lf2, SimGen.lf2, local_fuel; lia).
  apply (rbindB (VR idf)); [apply constraintB; exact H|]. xr_introB.
  psimsB. apply IH. asolve.
Qed.

Lemma constraints_outerB : forall f c c' m, A c c' ->
  resrelB (VR idf) (constraints_outer f c m) (constraints_outer f c' m).
Proof.
  induction f as [|f IH]; intros c c' m H; [exact I|]. cbn [constraints_outer]. unfold look2.
  rewrite (A_token _ _ H). destruct (token c) eqn:T1; try exact I.
  assert (H1 : A (skip 1 c) (skip 1 c')) by asolve. rewrite (A_token _ _ H1).
  destruct (token (skip 1 c)) as [| | | | | |k|] eqn:T2; try exact I. destruct k; try exact I.
  assert (H2 : A (skip 1 (skip 1 c)) (skip 1 (skip 1 c'))) by asolve.
  rewrite (SimGen.sat_constraints_inner (local_fuel c) (lf2 c c') (skip 1 (skip 1 c))),
          (SimGen.sat_constraints_inner (local_fuel c') (lf2 c c') (skip 1 (skip 1 c')));
    [|apply SimGen.lf_ok; apply SimGen.plen_skip2|apply SimGen.lf2_r; apply SimGen.plen_skip2
     |apply SimGen.lf_ok; apply SimGen.plen_skip2|apply SimGen.lf2_l; apply SimGen.plen_skip2].
  apply (rbindB (VR idf)); [apply constraints_innerB; exact H2|]. xr_introB.
  destruct b; [apply IH; exact HR|psimsB].
Qed.

Lemma path_loopB : forall f c c' acc, A c c' ->
  fst (path_loop f c acc) = fst (path_loop f c' acc) /\ A (snd (path_loop f c acc)) (snd (path_loop f c' acc)).
Proof.
  induction f as [|f IH]; intros c c' acc H; [split; [reflexivity|exact H]|]. cbn [path_loop].
  rewrite (A_token _ _ H). destruct (token c) eqn:Tk; try (split; [reflexivity|exact H]).
  cbv zeta. assert (H1 : A (skip 1 c) (skip 1 c')) by asolve. rewrite (A_is_k KSlash _ _ H1).
  destruct (is_k KSlash (skip 1 c)) eqn:Es; apply IH; asolve.
Qed.

Lemma pathB c c' : A c c' -> resrelB (VR idf) (path c) (path c').
Proof.
  intros H. unfold path. rewrite (A_token _ _ H).
  destruct (token c) as [| | | | | |k|] eqn:Tk; try exact I.
  - rewrite (SimGen.sat_path_loop (local_fuel c) (lf2 c c') c), (SimGen.sat_path_loop (local_fuel c') (lf2 c c') c');
      try (unfold lf2, SimGen.lf2, local_fuel; lia).
    apply path_loopB. exact H.
  - destruct k; try exact I.
    rewrite (SimGen.sat_path_loop (local_fuel c) (lf2 c c') (skip 1 c)), (SimGen.sat_path_loop (local_fuel c') (lf2 c c') (skip 1 c'));
      [|apply SimGen.lf_ok; apply SimGen.plen_skip|apply SimGen.lf2_r; apply SimGen.plen_skip
       |apply SimGen.lf_ok; apply SimGen.plen_skip|apply SimGen.lf2_l; apply SimGen.plen_skip].
    apply path_loopB. asolve.
Qed.

Lemma use_pathB c c' : A c c' -> resrelB (VR idf) (use_path c) (use_path c').
Proof.
  intros H. unfold use_path. apply (rbindB (VR idf)); [apply pathB; exact H|]. xr_introB. psimsB.
Qed.

Lemma from_importsB : forall f c c' acc, A c c' ->
  resrelB (VR idf) (from_imports f c acc) (from_imports f c' acc).
Proof.
  induction f as [|f IH]; intros c c' acc H; [exact I|]. cbn [from_imports].
  psimsB.
  all: try (apply IH; asolve).
Qed.

Lemma sep_varsB : forall f old c c', A c c' -> resrelB (VR idf) (sep_vars f old c) (sep_vars f old c').
Proof.
  induction f as [|f IH]; intros old c c' H; [exact I|]. cbn [sep_vars].
  psimsB.
  all: try (apply IH; asolve).
Qed.

Lemma push_len b c : length (post (fst (push_nl b c))) <= length (post c).
Proof. unfold push_nl. cbn [fst]. pose proof (SimGen.plen_skip 0 (set_nl b c)). cbn [set_nl post] in *. exact H. Qed.

Lemma paren_varsB c c' : A c c' -> resrelB (VR idf) (paren_vars c) (paren_vars c').
Proof.
  intros H. unfold paren_vars. psimsB.
  pose proof (push_len true (skip 1 c)) as L1. pose proof (push_len true (skip 1 c')) as L1'.
  pose proof (SimGen.plen_skip 1 c) as L2. pose proof (SimGen.plen_skip 1 c') as L2'.
  destruct (push_nl true (skip 1 c)) as [c2 o] eqn:E, (push_nl true (skip 1 c')) as [c2' o'] eqn:E'.
  destruct (A_pushE (skip 1 c) (skip 1 c') true c2 o c2' o' ltac:(asolve) E E') as [HP ->].
  cbn [fst] in L1, L1'.
  rewrite (SimGen.sat_sep_vars (local_fuel c) (lf2 c c') o c2), (SimGen.sat_sep_vars (local_fuel c') (lf2 c c') o c2');
    try (unfold lf2, SimGen.lf2, local_fuel; lia).
  apply sep_varsB. exact HP.
Qed.

(* ------------------------------------------------------------------------------------------- *)
(* a newline is not an operator of the table *)
Definition nl_plain (T : ptab) : Prop := pt_unary T NLt = None /\ pt_valid T NLt = false.

Section Sim.
Variable T : ptab.
Hypothesis TOK : total_ok T.
Hypothesis NLP : nl_plain T.

Lemma unary_notNL t u : pt_unary T t = Some u -> isNL t = false.
Proof.
  intros H. destruct (isNL t) eqn:E; [|reflexivity]. apply isNL_spec in E. subst t. destruct NLP as [X _]. congruence.
Qed.

Lemma valid_notNL t : pt_valid T t = true -> isNL t = false.
Proof.
  intros H. destruct (isNL t) eqn:E; [|reflexivity]. apply isNL_spec in E. subst t. destruct NLP as [_ X]. congruence.
Qed.

Lemma call_E_B q q' : qrelB q q' -> prelB (VR de_e) (call_E q) (call_E q').
Proof. apply call_getB. apply get_E_B. Qed.
Lemma call_A_B q q' : qrelB q q' -> prelB (VR de_a) (call_A q) (call_A q').
Proof. apply call_getB. apply get_A_B. Qed.
Lemma call_Es_B q q' : qrelB q q' -> prelB (VR (map de_e)) (call_Es q) (call_Es q').
Proof. apply call_getB. apply get_Es_B. Qed.
Lemma call_Tup_B q q' : qrelB q q' -> prelB (VR de_tup) (call_Tup q) (call_Tup q').
Proof. apply call_getB. apply get_Tup_B. Qed.
Lemma call_Fs_B q q' : qrelB q q' -> prelB (VR de_fs) (call_Fs q) (call_Fs q').
Proof. apply call_getB. apply get_Fs_B. Qed.
Lemma call_Ifs_B q q' : qrelB q q' -> prelB (VR (map de_ib)) (call_Ifs q) (call_Ifs q').
Proof. apply call_getB. apply get_Ifs_B. Qed.
Lemma call_Cases_B q q' : qrelB q q' -> prelB (VR (map de_cb)) (call_Cases q) (call_Cases q').
Proof. apply call_getB. apply get_Cases_B. Qed.
Lemma call_Params_B q q' : qrelB q q' -> prelB (VR idf) (call_Params q) (call_Params q').
Proof. apply call_getB. apply get_Params_B. Qed.
Lemma call_T_B q q' : qrelB q q' -> prelB (VR idf) (call_T q) (call_T q').
Proof. apply call_getB. apply get_T_B. Qed.
Lemma call_Ts_B q q' : qrelB q q' -> prelB (VR idf) (call_Ts q) (call_Ts q').
Proof. apply call_getB. apply get_Ts_B. Qed.
Lemma call_FnTy_B q q' : qrelB q q' -> prelB (VR idf) (call_FnTy q) (call_FnTy q').
Proof. apply call_getB. apply get_FnTy_B. Qed.
Lemma call_TyTup_B q q' : qrelB q q' -> prelB (VR idf) (call_TyTup q) (call_TyTup q').
Proof. apply call_getB. apply get_TyTup_B. Qed.
Lemma call_Ss_B q q' : qrelB q q' -> prelB (VR de_ss) (call_Ss q) (call_Ss q').
Proof. apply call_getB. apply get_Ss_B. Qed.
Lemma call_NTs_B q q' : qrelB q q' -> prelB (VR idf) (call_NTs q) (call_NTs q').
Proof. apply call_getB. apply get_NTs_B. Qed.

Lemma expressionB c c' : A c c' -> prelB (VR de_e) (expression T c) (expression T c').
Proof. intros H. apply call_E_B. split; [reflexivity|exact H]. Qed.
Lemma parse_typeB c c' : A c c' -> prelB (VR idf) (parse_type c) (parse_type c').
Proof. intros H. apply call_T_B. exact H. Qed.
Lemma blockB c c' : A c c' -> prelB (VR de_ss) (block c) (block c').
Proof.
  intros H. apply call_Ss_B. cbn [qrelB]. left. split; [reflexivity|split; [reflexivity|split; [reflexivity|]]].
  apply A_U. apply A_skip_if; [exact H|discriminate].
Qed.

Ltac nf_of X :=
  lazymatch X with
  | expr => constr:(de_e)
  | assignable => constr:(de_a)
  | list expr => constr:(map de_e)
  | (bool * list expr)%type => constr:(de_tup)
  | list (name * expr) => constr:(de_fs)
  | list ifbranch => constr:(map de_ib)
  | list casebranch => constr:(map de_cb)
  | list stmt => constr:(de_ss)
  | option (list stmt) => constr:(de_oss)
  | _ => constr:(@idf X)
  end.

Ltac qsolveB := cbn [qrelB]; repeat (split; [desolve|]); first [asolve | (left; asolve)].
Ltac sim1B :=
  lazymatch goal with
  | |- prelB _ (ok _) (ok _) =>
      apply pb_ok; first [asolve | (unfold VR, idf; cbn [fst snd]; split; [desolve|asolve])
                         | (cbn [orelB]; repeat (split; [desolve|]); asolve)]
  | |- prelB _ (praise _) (praise _) => apply pb_raise
  | |- prelB _ panic panic => apply pb_panic
  | |- prelB _ (reraise _ _) (reraise _ _) => apply pb_reraise
  | |- prelB _ (pexpect _ _) (pexpect _ _) => apply pexpectB; [asolve|discriminate]
  | |- prelB _ (expression _ _) (expression _ _) => apply expressionB; asolve
  | |- prelB _ (parse_type _) (parse_type _) => apply parse_typeB; asolve
  | |- prelB _ (block _) (block _) => apply blockB; asolve
  | |- prelB _ (call _) (call _) => apply callB; qsolveB
  | |- prelB _ (call_E _) (call_E _) => apply call_E_B; qsolveB
  | |- prelB _ (call_A _) (call_A _) => apply call_A_B; qsolveB
  | |- prelB _ (call_Es _) (call_Es _) => apply call_Es_B; qsolveB
  | |- prelB _ (call_Tup _) (call_Tup _) => apply call_Tup_B; qsolveB
  | |- prelB _ (call_Fs _) (call_Fs _) => apply call_Fs_B; qsolveB
  | |- prelB _ (call_Ifs _) (call_Ifs _) => apply call_Ifs_B; qsolveB
  | |- prelB _ (call_Cases _) (call_Cases _) => apply call_Cases_B; qsolveB
  | |- prelB _ (call_Params _) (call_Params _) => apply call_Params_B; qsolveB
  | |- prelB _ (call_Ts _) (call_Ts _) => apply call_Ts_B; qsolveB
  | |- prelB _ (call_FnTy _) (call_FnTy _) => apply call_FnTy_B; qsolveB
  | |- prelB _ (call_TyTup _) (call_TyTup _) => apply call_TyTup_B; qsolveB
  | |- prelB _ (call_NTs _) (call_NTs _) => apply call_NTs_B; qsolveB
  | |- prelB _ (Ret (type_assignable _)) (Ret (type_assignable _)) => apply pb_ret; apply taB; asolve
  | |- prelB _ (Ret (use_path _)) (Ret (use_path _)) => apply pb_ret; apply use_pathB; asolve
  | |- prelB _ (Ret (paren_vars _)) (Ret (paren_vars _)) => apply pb_ret; apply paren_varsB; asolve
  | |- prelB _ (ptry ?m _ reraise) (ptry _ _ reraise) =>
      lazymatch type of m with
      | prog ctx => apply (bindB A); [|let a := fresh "cx" in let a' := fresh "cx'" in let H := fresh "HR" in
                                       intros a a' H; cbv beta iota zeta]
      | prog (?X * ctx)%type => let f := nf_of X in apply (bindB (VR f)); [|xr_introB]
      end
  | |- prelB _ (if ?b then _ else _) (if ?b' then _ else _) =>
      apply pb_if; [beqB|let Hb := fresh "Hb" in intros Hb|let Hb := fresh "Hb" in intros Hb]
  | |- prelB _ (match token ?x with _ => _ end) (match token ?y with _ => _ end) =>
      replace (token y) with (token x) by (symmetry; apply A_token; asolve);
      let Tk := fresh "Tk" in destruct (token x) eqn:Tk
  | |- prelB _ (match ?k with KNil => _ | _ => _ end) (match ?k with KNil => _ | _ => _ end) => destruct k
  | |- prelB _ (let '(_, _) := push_nl _ _ in _) _ => dpushB
  end.
Ltac simsB := repeat (cbv beta zeta; sim1B).

Lemma step_argsB pr acc acc' c c' : map de_e acc = map de_e acc' -> A c c' ->
  prelB orelB (step_args T pr acc c) (step_args T pr acc' c').
Proof.
  intros HA H. unfold step_args.
  assert (D : prelB orelB
    (ptry (expression T c) (fun '(e, c1) => call (QArgs pr (acc ++ [e]) (after_arg c1)))
          (fun c' es => if pr then ok (REs acc c) else reraise c' es))
    (ptry (expression T c') (fun '(e, c1) => call (QArgs pr (acc' ++ [e]) (after_arg c1)))
          (fun c'0 es => if pr then ok (REs acc' c') else reraise c'0 es))).
  { apply (ptryB (VR de_e)); [simsB|xr_introB; simsB|].
    intros c1 es c1' es'. destruct pr; simsB. }
  simsB; exact D.
Qed.

Lemma step_tupleB i acc acc' c c' : map de_e acc = map de_e acc' -> A c c' ->
  prelB orelB (step_tuple T i acc c) (step_tuple T i acc' c').
Proof. intros HA H. unfold step_tuple. simsB. Qed.

Lemma step_listB acc acc' c c' : map de_e acc = map de_e acc' -> A c c' ->
  prelB orelB (step_list T acc c) (step_list T acc' c').
Proof. intros HA H. unfold step_list. simsB. Qed.

Lemma step_fieldsB acc acc' c c' : de_fs acc = de_fs acc' -> A c c' ->
  prelB orelB (step_fields T acc c) (step_fields T acc' c').
Proof. intros HA H. unfold step_fields. simsB. Qed.

Lemma assignable_callB a a' c c' : de_a a = de_a a' -> A c c' -> isNL (token c) = false ->
  prelB orelB (assignable_call c a) (assignable_call c' a').
Proof.
  intros HA H NT. unfold assignable_call. cbv zeta.
  assert (H1 : A (skip 1 c) (skip 1 c')) by asolve.
  rewrite (A_is_k KPrime _ _ H), (A_nl _ _ H1).
  destruct (is_k KPrime c) eqn:Ep; simsB.
Qed.

Lemma de_e_int e e' : de_e e = de_e e' -> match e with EInt _ => e' = e | _ => match e' with EInt _ => False | _ => True end end.
Proof. intros H. destruct e, e'; try discriminate H; try exact I. cbn in H. symmetry. exact H. Qed.

Lemma assignable_indexB a a' c c' : de_a a = de_a a' -> A c c' -> isNL (token c) = false ->
  prelB orelB (assignable_index T c a) (assignable_index T c' a').
Proof.
  intros HA H NT. unfold assignable_index. simsB.
  match goal with
  | HE : de_e ?x = de_e ?y |- _ =>
      pose proof (de_e_int _ _ HE) as X; destruct x;
      first [ (subst y; simsB) | (destruct y; try contradiction; simsB) ]
  end.
Qed.

Lemma variant_name a a' : de_a a = de_a a' ->
  match a with ARead n => Some n | AAccess _ n => Some n | _ => None end
  = match a' with ARead n => Some n | AAccess _ n => Some n | _ => None end.
Proof. intros H. destruct a, a'; try discriminate H; try reflexivity; cbn in H; congruence. Qed.

Lemma assignable_variantB a a' c c' : de_a a = de_a a' -> A c c' ->
  prelB orelB (assignable_variant T c a) (assignable_variant T c' a').
Proof.
  intros HA H. unfold assignable_variant. rewrite (variant_name a a' HA).
  destruct (match a' with ARead n => Some n | AAccess _ n => Some n | _ => None end); simsB.
  apply (ptryB (VR de_e)); [simsB|xr_introB; simsB|]. intros. simsB.
Qed.

Lemma assignable_dotB a a' c c' : de_a a = de_a a' -> A c c' -> isNL (token c) = false ->
  prelB orelB (assignable_dot c a) (assignable_dot c' a').
Proof. intros HA H NT. unfold assignable_dot. simsB. Qed.

Lemma step_subB a a' c c' : de_a a = de_a a' -> A c c' -> prelB orelB (step_sub T a c) (step_sub T a' c').
Proof.
  intros HA H. unfold step_sub. simsB;
    first [apply assignable_callB; [exact HA|exact H|rewrite Tk; reflexivity]
          | apply assignable_indexB; [exact HA|exact H|rewrite Tk; reflexivity] | idtac].
  apply (ptryB orelB); [apply assignable_variantB; assumption|intros o o' Ho; apply pb_ok; exact Ho|].
  intros. apply assignable_dotB; [exact HA|exact H|rewrite Tk; reflexivity].
Qed.

Lemma valueB c c' : A c c' -> prelB orelB (value c) (value c').
Proof. intros H. unfold value. simsB. Qed.

Lemma unaryB c c' : A c c' -> isNL (token c) = false -> prelB orelB (unary T c) (unary T c').
Proof. intros H NT. unfold unary. rewrite (A_token _ _ H). simsB. destruct (pt_unary T (token c)); simsB. Qed.

Lemma groupingB c c' : A c c' -> isNL (token c) = false -> prelB orelB (grouping_or_tuple c) (grouping_or_tuple c').
Proof.
  intros H NT. unfold grouping_or_tuple. cbv beta zeta. dpushB.
  rewrite (A_is_k KComma _ _ HP), (A_is_k KRightParen _ _ HP). simsB.
  destruct l, l0; try discriminate HE0; simsB.
Qed.

Lemma list_exprB c c' : A c c' -> isNL (token c) = false -> prelB orelB (list_expr c) (list_expr c').
Proof. intros H NT. unfold list_expr. simsB. Qed.

Lemma blobB c c' : A c c' -> prelB orelB (blob c) (blob c').
Proof. intros H. unfold blob. simsB. Qed.

Lemma if_expressionB c c' : A c c' -> isNL (token c) = false -> prelB orelB (if_expression T c) (if_expression T c').
Proof. intros H NT. unfold if_expression. simsB. Qed.

Lemma step_elifsB acc acc' c c' : map de_ib acc = map de_ib acc' -> A c c' ->
  prelB orelB (step_elifs T acc c) (step_elifs T acc' c').
Proof. intros HA H. unfold step_elifs. simsB. Qed.

Lemma AU_skip1_nl c c' : A c c' -> isNL (token c) = true -> AU (skip 1 c) (skip 1 c').
Proof.
  intros H Et. destruct (nl c) eqn:En.
  - left. apply A_skip1_nlt; assumption.
  - right. split; [rewrite SimGen.skip_nl; exact En|apply A_skip1_nl; assumption].
Qed.

Lemma case_expressionB c c' : A c c' -> prelB orelB (case_expression T c) (case_expression T c').
Proof. intros H. unfold case_expression. simsB. Qed.

Lemma step_casesB acc acc' c c' : map de_cb acc = map de_cb acc' -> A c c' ->
  prelB orelB (step_cases acc c) (step_cases acc' c').
Proof.
  intros HA H. unfold step_cases. simsB.
  apply callB. cbn [qrelB]. split; [exact HA|]. apply AU_skip1_nl; [exact H|rewrite Tk; reflexivity].
Qed.

Lemma functionB c c' : A c c' -> isNL (token c) = false -> prelB orelB (function c) (function c').
Proof.
  intros H NT. unfold function. rewrite (A_is_k KPu _ _ H). simsB.
  apply pb_ok. cbn [orelB]. split; [|asolve]. cbn [de_e]. f_equal.
  match goal with |- drop_with de_s (pop_trailing_empty ?x) = drop_with de_s (pop_trailing_empty ?y) =>
    change (de_ss (pop_trailing_empty x) = de_ss (pop_trailing_empty y)) end.
  rewrite !de_ss_pop. assumption.
Qed.

Lemma step_paramsB acc c c' : A c c' -> prelB orelB (step_params acc c) (step_params acc c').
Proof.
  intros H. unfold step_params. simsB.
  apply (ptryB (VR idf)); [simsB|xr_introB; simsB|]. intros. simsB.
Qed.

Lemma assignable_pB c c' : A c c' -> prelB (VR de_a) (assignable_p c) (assignable_p c').
Proof. intros H. unfold assignable_p. simsB. Qed.

Lemma prefixB c c' : A c c' -> prelB orelB (prefix T c) (prefix T c').
Proof.
  intros H. unfold prefix.
  assert (D : forall t, token c = t -> prelB orelB (match pt_unary T t with Some _ => unary T c | None => praise c end)
                                  (match pt_unary T t with Some _ => unary T c' | None => praise c' end)).
  { intros t Et. destruct (pt_unary T t) eqn:Eu; [apply unaryB; [exact H|rewrite Et; apply (unary_notNL _ _ Eu)]|simsB]. }
  simsB; first [(apply D; first [assumption|reflexivity]) | apply valueB; exact H
              | (apply functionB; [exact H|rewrite Tk; reflexivity])
              | (apply if_expressionB; [exact H|rewrite Tk; reflexivity])
              | apply case_expressionB; exact H
              | (apply groupingB; [exact H|rewrite Tk; reflexivity])
              | (apply list_exprB; [exact H|rewrite Tk; reflexivity]) | idtac].
  pose proof (taB _ _ H) as TA.
  destruct (type_assignable c) as [[b0 c1]|ce es| |], (type_assignable c') as [[b0' c1']|ce' es'| |];
    try contradiction.
  - destruct TA as [_ TA]. cbn [snd] in TA. rewrite (A_is_k KLeftBrace _ _ TA).
    destruct (is_k KLeftBrace c1).
    + apply (ptryB orelB); [apply blobB; exact H|intros o o' Ho; apply pb_ok; exact Ho|].
      intros cx es cx' es'. apply pb_err.
    + apply (bindB (VR de_a)); [apply assignable_pB; exact H|xr_introB; simsB].
  - apply (bindB (VR de_a)); [apply assignable_pB; exact H|xr_introB; simsB].
  - apply pb_ret. exact I.
  - apply pb_ret. exact I.
Qed.

Lemma step_precB p c c' : A c c' -> prelB orelB (step_prec T p c) (step_prec T p c').
Proof.
  intros H. unfold step_prec. apply (bindB (VR de_e)).
  - apply (bindB orelB); [apply prefixB; exact H|]. apply get_E_B.
  - xr_introB. simsB.
Qed.

Lemma arrow_callB lhs lhs' c c' : de_e lhs = de_e lhs' -> A c c' ->
  prelB orelB (arrow_call T c lhs) (arrow_call T c' lhs').
Proof.
  intros HL H. unfold arrow_call. simsB.
  match goal with HE : de_e ?x = de_e ?y |- _ => pose proof (prepend_de x y lhs lhs' HL HE) as X end.
  match goal with |- context [prepend lhs ?x] => destruct (prepend lhs x) end;
  match goal with |- context [prepend lhs' ?y] => destruct (prepend lhs' y) end; try contradiction; simsB.
Qed.

Lemma infixB lhs lhs' c c' : de_e lhs = de_e lhs' -> A c c' -> isNL (token c) = false ->
  prelB orelB (infix T c lhs) (infix T c' lhs').
Proof.
  intros HL H NT. unfold infix. cbv zeta. rewrite (A_token _ _ H).
  destruct (tok_is KArrow (token c)); [apply arrow_callB; assumption|].
  destruct (pt_postfix T (token c)); [simsB|].
  destruct (pt_bin T (token c)); [simsB|].
  assert (H1 : A (skip 1 c) (skip 1 c')) by asolve.
  destruct (A_prev_some _ _ H1) as (cp & cp' & -> & ->). simsB.
Qed.

Lemma step_loopB p lhs lhs' c c' : de_e lhs = de_e lhs' -> A c c' ->
  prelB orelB (step_loop T p lhs c) (step_loop T p lhs' c').
Proof.
  intros HL H. unfold step_loop. rewrite (A_token _ _ H).
  destruct ((p <=? pt_prec T (token c)) && pt_valid T (token c)) eqn:G; [|simsB].
  apply andb_prop in G. destruct G as [_ V].
  apply (bindB (VR de_e)).
  - apply (bindB orelB); [apply infixB; [exact HL|exact H|apply valid_notNL; exact V]|]. apply get_E_B.
  - xr_introB. simsB.
Qed.

(* ---- types ---- *)

Lemma paren_typesB c c' : A c c' -> prelB (VR idf) (paren_types c) (paren_types c').
Proof. intros H. unfold paren_types. simsB. Qed.

Lemma step_typeB c c' : A c c' -> prelB orelB (step_type c) (step_type c').
Proof.
  intros H. unfold step_type. simsB.
  all: try (apply paren_typesB; assumption).
  all: try (rewrite (A_is_k KPu _ _ H)).
  all: try (rewrite (A_is_k KComma _ _ HP), (A_is_k KRightParen _ _ HP)).
  all: simsB.
  all: try (destruct l; simsB).
  all: try (assert (H1 : A (skip 1 c) (skip 1 c')) by asolve;
            apply pb_ret; rewrite (A_is_k KLess _ _ H1);
            destruct (is_k KLess (skip 1 c)) eqn:El; [|psimsB];
            rewrite (SimGen.sat_constraints_outer (local_fuel (skip 1 c)) (lf2 (skip 1 c) (skip 1 c')) (skip 1 (skip 1 c))),
                    (SimGen.sat_constraints_outer (local_fuel (skip 1 c')) (lf2 (skip 1 c) (skip 1 c')) (skip 1 (skip 1 c')));
            [apply constraints_outerB; asolve|apply SimGen.lf_ok; apply SimGen.plen_skip|apply SimGen.lf2_r; apply SimGen.plen_skip
            |apply SimGen.lf_ok; apply SimGen.plen_skip|apply SimGen.lf2_l; apply SimGen.plen_skip]).
Qed.

Lemma step_sep_typesB old c c' : A c c' -> prelB orelB (step_sep_types old c) (step_sep_types old c').
Proof. intros H. unfold step_sep_types. simsB. Qed.

Lemma step_fnty_paramsB acc c c' : A c c' -> prelB orelB (step_fnty_params acc c) (step_fnty_params acc c').
Proof.
  intros H. unfold step_fnty_params. simsB.
  all: try (apply (ptryB (VR idf)); [simsB|xr_introB; simsB|intros; simsB]).
Qed.

Lemma step_ty_tupleB i acc c c' : A c c' -> prelB orelB (step_ty_tuple i acc c) (step_ty_tuple i acc c').
Proof.
  intros H. unfold step_ty_tuple. simsB.
  all: rewrite (A_is_k KComma _ _ HR); simsB.
Qed.

(* ---- blocks, declarations, statements ---- *)

Lemma step_stmtsB acc acc' c c' : de_ss acc = de_ss acc' -> A c c' ->
  prelB orelB (step_stmts acc [] c) (step_stmts acc' [] c').
Proof.
  intros HA H. unfold step_stmts.
  assert (D : prelB orelB
     (ptry (statement c) (fun '(s, c1) => call (QStmts (acc ++ [s]) [] c1))
        (fun c' es => call (QStmts acc ([] ++ es) (skip_if KNewline (skip_until KNewline (pop_nl false c'))))))
     (ptry (statement c') (fun '(s, c1) => call (QStmts (acc' ++ [s]) [] c1))
        (fun c' es => call (QStmts acc' ([] ++ es) (skip_if KNewline (skip_until KNewline (pop_nl false c'))))))).
  { apply (ptryB_stmt (fun _ _ => True)); [exact H| |].
    - intros s c1 s' c1' Hs Hc _ _. apply callB. cbn [qrelB]. left.
      split; [apply de_ss_snoc; assumption|split; [reflexivity|split; [reflexivity|exact Hc]]].
    - intros c1 es c1' es' He He'. apply callB. cbn [qrelB app]. right. split; assumption. }
  simsB; exact D.
Qed.

Definition EIR (x x' : name * ty * nat * ctx) : Prop :=
  fst (fst x) = fst (fst x') /\ A (snd x) (snd x').

Lemma enum_itemB c c' : U c c' -> prelB EIR (enum_item c) (enum_item c').
Proof.
  intros H. unfold enum_item. cbv zeta.
  assert (H0 : A (skip_nls c) (skip_nls c')) by (apply U_skip_nls; exact H).
  replace (token (skip_nls c')) with (token (skip_nls c)) by (symmetry; apply A_token; exact H0).
  destruct (token (skip_nls c)) as [v| | | | | | |] eqn:Tk; try apply pb_raise.
  simsB.
  apply pb_ok. unfold EIR. cbn [fst snd]. split; [reflexivity|asolve].
Qed.

Lemma unpos_app l x : unpos (l ++ [x]) = unpos l ++ [fst x].
Proof. unfold unpos. rewrite map_app. reflexivity. Qed.

Lemma step_enum_itemsB acc acc' c c' : unpos acc = unpos acc' -> U c c' ->
  prelB orelB (step_enum_items acc c) (step_enum_items acc' c').
Proof.
  intros HA H. unfold step_enum_items. cbv zeta.
  assert (H0 : A (skip_nls c) (skip_nls c')) by (apply U_skip_nls; exact H).
  rewrite (A_is_k KEnd _ _ H0).
  destruct (is_k KEnd (skip_nls c)) eqn:Ee.
  { apply pb_ok. cbn [orelB]. split; [exact HA|asolve]. }
  apply (bindB EIR); [apply enum_itemB; exact H|].
  intros [[[v t0] pos] c1] [[[v' t0'] pos'] c1'] [HE HR]. cbn [fst snd] in HE, HR. injection HE as -> ->.
  assert (H1 : A (skip_nls c1) (skip_nls c1')) by asolve.
  rewrite (A_is_k KEnd _ _ H1).
  assert (HA' : unpos (acc ++ [(v', t0', pos)]) = unpos (acc' ++ [(v', t0', pos')]))
    by (rewrite !unpos_app, HA; reflexivity).
  destruct (is_k KEnd (skip_nls c1)) eqn:Ee1.
  - apply pb_ok. cbn [orelB]. split; [exact HA'|asolve].
  - apply callB. cbn [qrelB]. split; [exact HA'|]. apply A_U. asolve.
Qed.

Lemma step_blob_fieldsB acc c c' : A c c' -> prelB orelB (step_blob_fields acc c) (step_blob_fields acc c').
Proof.
  intros H. unfold step_blob_fields. simsB.
  apply callB. cbn [qrelB]. split; [reflexivity|]. apply AU_skip1_nl; [exact H|rewrite Tk; reflexivity].
Qed.

Definition EnR (x x' : list (name * ty * nat) * ctx) : Prop := unpos (fst x) = unpos (fst x') /\ A (snd x) (snd x').

Lemma get_EnumB o o' : orelB o o' -> prelB EnR (get_Enum o) (get_Enum o').
Proof.
  intros Ho. destruct o, o'; cbn [orelB] in Ho; try contradiction; try apply pb_panic.
  apply pb_ok. exact Ho.
Qed.

Lemma stmt_enumB nm c c' : A c c' -> nl c = false -> token c = TIdent nm -> token (skip 1 c) = TK KColonColon ->
  token (skip 1 (skip 1 c)) = TK KEnum -> prelB (VR de_s) (stmt_enum nm c) (stmt_enum nm c').
Proof.
  intros H En T1 T2 T3. unfold stmt_enum. destruct (negb (is_capitalized nm)); [simsB|]. cbv zeta.
  assert (H3 : A (skip 3 c) (skip 3 c')).
  { apply (A_skip3 c c' (TIdent nm) (TK KColonColon) (TK KEnum)); try assumption; reflexivity. }
  dpushB.
  apply (bindB (VR idf)); [simsB|]. xr_introB.
  apply (bindB EnR).
  - unfold call_Enum. apply call_getB; [apply get_EnumB|]. cbn [qrelB]. split; [reflexivity|apply A_U; exact HR].
  - intros [items c4] [items' c4'] [HU HR4]. cbn [fst snd] in HU, HR4.
    pose proof (SimGen.first_dup_unpos items items' [] HU) as FD.
    destruct (first_dup [] items), (first_dup [] items'); try contradiction.
    + apply pb_err.
    + apply pb_ok. unfold VR. cbn [fst snd]. rewrite !SimGen.unpos_map. change (SimGen.unpos items) with (unpos items).
      change (SimGen.unpos items') with (unpos items'). rewrite HU. split; [reflexivity|asolve].
Qed.

Lemma stmt_blobB nm c c' t3 : A c c' -> nl c = false -> token c = TIdent nm -> token (skip 1 c) = TK KColonColon ->
  token (skip 1 (skip 1 c)) = t3 -> isNL t3 = false ->
  prelB (VR de_s) (stmt_blob nm c) (stmt_blob nm c').
Proof.
  intros H En T1 T2 T3 N3. unfold stmt_blob. cbv zeta.
  assert (H2 : A (skip 2 c) (skip 2 c')).
  { apply (A_skip2 c c' (TIdent nm) (TK KColonColon)); try assumption; reflexivity. }
  assert (T3' : token (skip 2 c) = t3) by (rewrite (LayoutStmt.skip2_eq c En); exact T3).
  rewrite <- T3' in N3.
  rewrite (A_is_k KExternBlob _ _ H2). simsB.
Qed.

Lemma stmt_def_impliedB nm c c' : A c c' -> token c = TIdent nm ->
  prelB (VR de_s) (stmt_def_implied T nm c) (stmt_def_implied T nm c').
Proof.
  intros H T1. unfold stmt_def_implied. simsB.
  all: assert (H1 : A (skip 1 c) (skip 1 c')) by asolve; rewrite (A_is_k KColonColon _ _ H1); simsB.
Qed.

Lemma is_k_notNL k c : is_k k c = true -> k <> KNewline -> isNL (token c) = false.
Proof.
  intros E N. unfold is_k in E. destruct (token c) as [| | | | | |k0|]; try reflexivity.
  cbn [tok_is] in E. destruct k0; try reflexivity. destruct k; try discriminate E. congruence.
Qed.

Lemma stmt_def_typedB nm c c' : A c c' -> nl c = false -> token c = TIdent nm -> token (skip 1 c) = TK KColon ->
  prelB (VR de_s) (stmt_def_typed T nm c) (stmt_def_typed T nm c').
Proof.
  intros H En T1 T2. unfold stmt_def_typed.
  assert (H2 : A (skip 2 c) (skip 2 c')).
  { apply (A_skip2 c c' (TIdent nm) (TK KColon)); try assumption; reflexivity. }
  simsB.
  match goal with HR : A ?c1 ?c0 |- prelB _ (ptry (if is_k KColon ?c1 then _ else _) _ _) _ =>
    apply (bindB (fun k k' : varkind => k = k' /\ isNL (token c1) = false));
      [rewrite (A_is_k KColon _ _ HR), (A_is_k KEqual _ _ HR);
       destruct (is_k KColon c1) eqn:E1;
         [apply pb_ok; split; [reflexivity|apply (is_k_notNL KColon); [exact E1|discriminate]]|];
       destruct (is_k KEqual c1) eqn:E2;
         [apply pb_ok; split; [reflexivity|apply (is_k_notNL KEqual); [exact E2|discriminate]]|apply pb_raise]
      |intros k k' [<- NT]; simsB]
  end.
Qed.

Lemma stmt_exprB c c' : A c c' -> prelB (VR de_s) (stmt_expr T c) (stmt_expr T c').
Proof. intros H. unfold stmt_expr. simsB. Qed.

Lemma assign_op_notNL t op : assign_op t = Some op -> isNL t = false.
Proof. destruct t as [| | | | | |k|]; try discriminate. destruct k; try discriminate; reflexivity. Qed.

Lemma stmt_assign_or_exprB c c' : A c c' -> prelB (VR de_s) (stmt_assign_or_expr T c) (stmt_assign_or_expr T c').
Proof.
  intros H. unfold stmt_assign_or_expr. pose proof (taB _ _ H) as TA.
  apply (ptryB (VR de_a)); [apply assignable_pB; exact H| |].
  - xr_introB. rewrite (A_token _ _ HR).
    match goal with |- context [assign_op (token ?x)] => destruct (assign_op (token x)) eqn:Eo end.
    + pose proof (assign_op_notNL _ _ Eo) as NT. simsB.
    + destruct (type_assignable c) as [[b0 cb]|ce es| |], (type_assignable c') as [[b0' cb']|ce' es'| |];
        try contradiction; try (apply pb_ret; exact I).
      * destruct TA as [_ TA]. cbn [snd] in TA. rewrite (A_is_k KLeftBrace _ _ TA).
        destruct (is_k KLeftBrace cb); [apply stmt_exprB; exact H|unfold expression_after; simsB].
      * unfold expression_after. simsB.
  - intros cx es cx' es'. rewrite (A_token _ _ H).
    destruct (token c); try (apply stmt_exprB; exact H).
    destruct (type_assignable c) as [[b0 cb]|ce es0| |], (type_assignable c') as [[b0' cb']|ce' es0'| |];
      try contradiction; try (apply pb_ret; exact I).
    + destruct TA as [_ TA]. cbn [snd] in TA. rewrite (A_is_k KLeftBrace _ _ TA).
      destruct (is_k KLeftBrace cb); [apply stmt_exprB; exact H|apply pb_reraise].
Qed.

Lemma stmt_fromB c c' : A c c' -> token c = TK KFrom -> prelB (VR de_s) (stmt_from c) (stmt_from c').
Proof.
  intros H T1. unfold stmt_from. simsB. cbv zeta.
  rewrite (A_is_k KLeftParen _ _ HR0).
  destruct (is_k KLeftParen cx) eqn:Ep.
  - dpushB. apply (bindB (VR idf)).
    + apply pb_ret.
      rewrite (SimGen.sat_from_imports (local_fuel cp) (lf2 cp cp') cp), (SimGen.sat_from_imports (local_fuel cp') (lf2 cp cp') cp');
        try (unfold lf2, SimGen.lf2, local_fuel; lia).
      apply from_importsB. exact HP.
    + xr_introB. destruct l; simsB.
  - dpushB. apply (bindB (VR idf)).
    + apply pb_ret.
      rewrite (SimGen.sat_from_imports (local_fuel cp) (lf2 cp cp') cp), (SimGen.sat_from_imports (local_fuel cp') (lf2 cp cp') cp');
        try (unfold lf2, SimGen.lf2, local_fuel; lia).
      apply from_importsB. exact HP.
    + xr_introB. destruct l; simsB.
Qed.

Lemma stmt_useB c c' : A c c' -> token c = TK KUse -> prelB (VR de_s) (stmt_use c) (stmt_use c').
Proof.
  intros H T1. unfold stmt_use.
  assert (H1 : A (skip 1 c) (skip 1 c')) by asolve.
  pose proof (use_pathB _ _ H1) as UR.
  destruct (use_path (skip 1 c)) as [[[p file] c1]|ce es| |], (use_path (skip 1 c')) as [[[p' file'] c1']|ce' es'| |];
    try contradiction; cbn [ptry]; try (apply pb_ret; exact I).
  destruct UR as [UE UR]. cbn [fst snd idf] in UE, UR. injection UE as -> ->.
  unfold look2. cbv iota beta.
  destruct (u_nc _ _ _ UR) as (N1 & N2 & N3 & N4).
  rewrite (use_prev_ok_true p' c1 N1 N2), (use_prev_ok_true p' c1' N3 N4).
  rewrite (A_token _ _ UR). destruct (token c1) as [| | | | | |k|] eqn:Tk1; try (destruct (name_eqb p' [slash]); simsB).
  all: try (destruct k; try (destruct (name_eqb p' [slash]); simsB)).
  all: apply pb_ok; unfold VR; cbn [fst snd]; (split; [reflexivity|]).
  all: match goal with Tk : token (skip 1 ?x) = TIdent ?s, Tk1 : token ?x = _, UR : A ?x ?y |- _ =>
         apply (A_skip2_any x y (TIdent s)); [exact UR|rewrite Tk1; reflexivity|exact Tk|reflexivity|discriminate] end.
Qed.

(* the `loop` arm: what comes out is either aligned, or stands on the newline the body's statement consumed *)
Definition LR (x x' : stmt * ctx) : Prop :=
  de_s (fst x) = de_s (fst x') /\
  (A (snd x) (snd x') \/
   (is_k KNewline (snd x) = true /\ is_k KNewline (snd x') = true /\ U (skip 1 (snd x)) (skip 1 (snd x')))).

Lemma loop_armB c c' : A c c' -> token c = TK KLoop ->
  prelB LR
    (let c1 := skip 1 c in
     let* '(cond, c2) := (if is_k KDo c1 then ok (EBool true, c1) else expression T c1) in
     let* '(body, c3) := statement c2 in
     match prev c3 with
     | Some cp => ok (SLoop cond body, if is_k KNewline cp then cp else c3)
     | None => panic
     end)
    (let c1 := skip 1 c' in
     let* '(cond, c2) := (if is_k KDo c1 then ok (EBool true, c1) else expression T c1) in
     let* '(body, c3) := statement c2 in
     match prev c3 with
     | Some cp => ok (SLoop cond body, if is_k KNewline cp then cp else c3)
     | None => panic
     end).
Proof.
  intros H T1. cbv zeta. apply (bindB (VR de_e)); [simsB|]. xr_introB.
  apply (ptryB_stmt (fun _ _ => True)); [exact HR| |].
  - intros s c3 s' c3' Hs Hc L3 _. destruct Hc as [k Hk]. destruct (u_nc _ _ _ Hk) as (N1 & N2 & N3 & N4).
    rewrite (prev_eq c3 N1 N2), (prev_eq c3' N3 N4).
    assert (Hne : pre c3 <> []).
    { destruct L3 as (_ & l & El & Ml). rewrite El. destruct l as [|x l]; [discriminate Ml|discriminate]. }
    destruct (U_prev c3 c3' _ _ (ex_intro _ k Hk) Hne (prev_eq c3 N1 N2) (prev_eq c3' N3 N4)) as (E1 & E2 & E3).
    apply pb_ok. unfold LR. cbn [fst snd]. split; [cbn [de_s]; congruence|].
    rewrite E1. destruct (is_k KNewline (prev_spec c3)) eqn:En.
    + right. split; [exact En|split; [exact E1|apply E3; reflexivity]].
    + left. apply E2. reflexivity.
  - intros. apply pb_reraise.
Qed.

Lemma prelB_weaken {X : Type} (RX RY : X -> X -> Prop) m m' :
  (forall a a', RX a a' -> RY a a') -> prelB RX m m' -> prelB RY m m'.
Proof.
  intros W H. induction H as [r r' Hr|q q' k k' e e' Hq Hk IHk He IHe].
  - constructor. destruct r, r'; try contradiction; try exact I. apply W. exact Hr.
  - constructor; [exact Hq| |]; assumption.
Qed.

Lemma LR_of_VR m m' : prelB (VR de_s) m m' -> prelB LR m m'.
Proof. apply prelB_weaken. intros a a' [H1 H2]. split; [exact H1|left; exact H2]. Qed.

Lemma is_k_NL_others c : is_k KNewline c = true -> is_k KEnd c || is_k KElse c || is_k KElif c = false.
Proof.
  unfold is_k. destruct (token c) as [| | | | | |k|]; try discriminate. destruct k; try discriminate. reflexivity.
Qed.

Lemma step_stmtB c0 c0' : A c0 c0' -> prelB orelB (step_stmt T c0) (step_stmt T c0').
Proof.
  intros H. unfold step_stmt.
  destruct (push_nl false c0) as [cp old] eqn:E. destruct (push_nl false c0') as [cp' old'] eqn:E'.
  destruct (A_pushE c0 c0' false cp old cp' old' H E E') as [HP ->].
  assert (En : nl cp = false).
  { unfold push_nl in E. injection E as <- _. rewrite SimGen.skip_nl. reflexivity. }
  clear E E'.
  apply (bindB LR).
  - unfold look3. cbv iota beta.
    replace (token cp') with (token cp) by (symmetry; apply A_token; exact HP).
    assert (HD : prelB LR (stmt_assign_or_expr T cp) (stmt_assign_or_expr T cp'))
      by (apply LR_of_VR; apply stmt_assign_or_exprB; exact HP).
    destruct (token cp) as [nm| | | | | |k|] eqn:Tk; try exact HD.
    + assert (H1 : A (skip 1 cp) (skip 1 cp')) by asolve. rewrite (A_token _ _ H1).
      destruct (token (skip 1 cp)) as [| | | | | |k2|] eqn:Tk2; try exact HD.
      destruct k2; first [exact HD
                         |(apply LR_of_VR; apply stmt_def_typedB; assumption)
                         |(apply LR_of_VR; apply stmt_def_impliedB; assumption)
                         |idtac].
      assert (H2 : A (skip 1 (skip 1 cp)) (skip 1 (skip 1 cp'))) by asolve. rewrite (A_token _ _ H2).
      destruct (token (skip 1 (skip 1 cp))) as [| | | | | |k3|] eqn:Tk3;
        try (apply LR_of_VR; apply stmt_def_impliedB; assumption).
      destruct k3; first [(apply LR_of_VR; apply stmt_def_impliedB; assumption)
                         |(apply LR_of_VR; apply stmt_enumB; assumption)
                         |(apply LR_of_VR; eapply stmt_blobB; try eassumption; reflexivity)].
    + destruct k;
        first [exact HD
              |(apply LR_of_VR; apply stmt_useB; assumption)
              |(apply LR_of_VR; apply stmt_fromB; assumption)
              |apply (loop_armB cp cp' HP Tk)
              |(apply LR_of_VR; solve [simsB])
              |(apply LR_of_VR; cbv zeta; apply (ptryB (VR de_e)); [simsB|xr_introB; simsB|intros; simsB])].
  - intros [s c1] [s' c1'] [Hs Hc]. cbn [fst snd] in Hs, Hc.
    apply (bindB U).
    + destruct Hc as [Hc|(N1 & N2 & Hc)].
      * rewrite (A_is_k KEnd _ _ Hc), (A_is_k KElse _ _ Hc), (A_is_k KElif _ _ Hc).
        destruct (is_k KEnd c1 || is_k KElse c1 || is_k KElif c1); [apply pb_ok; apply A_U; exact Hc|].
        unfold pexpect, expect. rewrite (A_is_k KNewline _ _ Hc).
        destruct (is_k KNewline c1); [apply pb_ret; apply A_skip1_anynl; exact Hc|apply pb_ret; exact I].
      * rewrite (is_k_NL_others c1 N1), (is_k_NL_others c1' N2). unfold pexpect, expect. rewrite N1, N2.
        apply pb_ret. exact Hc.
    + intros c2 c2' Hc2. apply pb_ok. cbn [orelB]. split; [exact Hs|]. unfold pop_nl. apply U_set_nl. exact Hc2.
Qed.

Theorem step_relB q q' : qrelB q q' ->
  match q, q' with
  | QStmts _ errs c, QStmts _ errs' c' => errs = [] -> errs' = [] -> A c c' -> prelB orelB (step T q) (step T q')
  | QCases _ c, QCases _ c' => A c c' -> prelB orelB (step T q) (step T q')
  | QBlobFields _ c, QBlobFields _ c' => A c c' -> prelB orelB (step T q) (step T q')
  | _, _ => prelB orelB (step T q) (step T q')
  end.
Proof.
  intros H. destruct q, q'; cbn [qrelB] in H; try contradiction; cbn [step].
  - destruct H as [-> H]. apply step_precB. exact H.
  - destruct H as (-> & HL & H). apply step_loopB; assumption.
  - destruct H as [HA H]. apply step_subB; assumption.
  - destruct H as (-> & HA & H). apply step_argsB; assumption.
  - destruct H as (-> & HA & H). apply step_tupleB; assumption.
  - destruct H as [HA H]. apply step_listB; assumption.
  - destruct H as [HA H]. apply step_fieldsB; assumption.
  - destruct H as [HA H]. apply step_elifsB; assumption.
  - destruct H as [HA _]. intros H. apply step_casesB; assumption.
  - destruct H as [-> H]. apply step_paramsB. exact H.
  - apply step_typeB. exact H.
  - destruct H as [-> H]. apply step_sep_typesB. exact H.
  - destruct H as [-> H]. apply step_fnty_paramsB. exact H.
  - destruct H as (-> & -> & H). apply step_ty_tupleB. exact H.
  - intros -> -> HA. destruct H as [(HD & _)|[X _]]; [apply step_stmtsB; assumption|congruence].
  - apply step_stmtB. exact H.
  - destruct H as [HA H]. apply step_enum_itemsB; assumption.
  - destruct H as [-> _]. intros H. apply step_blob_fieldsB. exact H.
Qed.

(* ------------------------------------------------------------------------------------------- *)
(* the runs *)

Lemma go_big f q : exists F, f <= F /\ mu q < F.
Proof. exists (Nat.max f (S (mu q))). split; lia. Qed.

Lemma go_uok f q o : go T f q = Ok o -> UOk q o.
Proof.
  intros H. destruct q; try exact I. destruct o; try exact I. cbn [UOk].
  destruct (go_big f (QStmt c)) as (F & Hf & Hm).
  pose proof (go_ok_le T f F _ _ Hf H) as HF. pose proof (go_good T TOK F (QStmt c) I Hm) as G.
  rewrite HF in G. exact G.
Qed.

Lemma go_uerr f q c es : go T f q = Err c es -> UErr q es.
Proof.
  intros H. destruct q; try exact I. cbn [UErr].
  destruct (go_big f (QStmt c0)) as (F & Hf & Hm).
  pose proof (go_err_le T f F _ _ _ Hf H) as HF. pose proof (go_good T TOK F (QStmt c0) I Hm) as G.
  rewrite HF in G. apply G.
Qed.

(* a block request that has already recorded an error never answers Ok (and never panics) *)
Lemma go_doomed f acc errs c : errs <> [] ->
  go T f (QStmts acc errs c) = Fuel \/ exists ce es, go T f (QStmts acc errs c) = Err ce es.
Proof.
  intros He. destruct (go_big f (QStmts acc errs c)) as (F & Hf & Hm).
  pose proof (go_good T TOK F (QStmts acc errs c) I Hm) as G.
  destruct (go T f (QStmts acc errs c)) as [o|ce es| |] eqn:H.
  - exfalso. rewrite (go_ok_le T f F _ _ Hf H) in G. cbn [good] in G.
    destruct o; cbn [Post] in G; try contradiction. destruct G as [X _]. exact (He X).
  - right. eexists. eexists. reflexivity.
  - left. reflexivity.
  - exfalso. rewrite (go_mono_le T f F _ Hf) in G; rewrite H in *; [exact G|discriminate].
Qed.

(* the empty statement *)
Lemma run_stmt_nl (rec : req -> res out) c' : token c' = NLt -> nocom (post c') ->
  run rec (step_stmt T c') = Ok (RS SEmpty (set_nl (nl c') (skip 1 (set_nl false c')))).
Proof.
  intros Ht N. unfold step_stmt, push_nl.
  rewrite (skip0_false (set_nl false c')) by (cbn [set_nl post nl]; first [exact N|reflexivity]).
  unfold look3. change (token (set_nl false c')) with (token c'). rewrite Ht. unfold NLt. cbv iota beta.
  cbn [ptry ok run]. unfold is_k. change (token (set_nl false c')) with (token c'). rewrite Ht. unfold NLt.
  cbn [tok_is kw_eqb orb]. unfold pexpect, expect, is_k. change (token (set_nl false c')) with (token c'). rewrite Ht.
  unfold NLt. cbn [tok_is kw_eqb ptry ok run pop_nl]. reflexivity.
Qed.

Lemma stutter_stmts f acc c' : token c' = NLt -> nocom (post c') ->
  go T (S f) (QStmts acc [] c') =
  match f with
  | 0 => Fuel
  | S _ => go T f (QStmts (acc ++ [SEmpty]) [] (set_nl (nl c') (skip 1 (set_nl false c'))))
  end.
Proof.
  intros Ht N. rewrite go_S. cbn [step]. unfold step_stmts. rewrite Ht. unfold NLt. cbv iota beta.
  unfold statement, call_S. cbn [ptry run]. destruct f as [|f]; [reflexivity|].
  rewrite go_S, (run_stmt_nl _ c' Ht N). cbn [get_S ok ptry run]. apply run_call.
Qed.

Lemma stutter_cases f acc c' : token c' = NLt -> go T (S f) (QCases acc c') = go T f (QCases acc (skip 1 c')).
Proof. intros Ht. rewrite go_S. cbn [step]. unfold step_cases. rewrite Ht. unfold NLt. apply run_call. Qed.

Lemma stutter_blob f acc c' : token c' = NLt -> go T (S f) (QBlobFields acc c') = go T f (QBlobFields acc (skip 1 c')).
Proof. intros Ht. rewrite go_S. cbn [step]. unfold step_blob_fields. rewrite Ht. unfold NLt. apply run_call. Qed.

Lemma U_cases c c' : U c c' -> A c c' \/ exists k, Uk (S k) c c'.
Proof. intros [[|k] H]; [left; exact H|right; exists k; exact H]. Qed.

Lemma Uk_nocom k c c' : Uk k c c' -> nocom (post c').
Proof. intros H. destruct (u_nc _ _ _ H) as (_ & _ & _ & N). exact N. Qed.

Theorem go_relB : forall f' f q q', qrelB q q' -> resrelF orelB (go T f q) (go T f' q').
Proof.
  induction f' as [|f' IH]; intros f q q' H; [right; left; reflexivity|].
  destruct f as [|f]; [left; reflexivity|].
  assert (Step : prelB orelB (step T q) (step T q') -> resrelF orelB (go T (S f) q) (go T (S f') q')).
  { intros P. rewrite !go_S. apply (run_relF orelB); [intros q0 q0' H0; apply IH; exact H0| | | | |exact P].
    - intros q0 c0 es. apply go_uerr.
    - intros q0 c0 es. apply go_uerr.
    - intros q0 o. apply go_uok.
    - intros q0 o. apply go_uok. }
  pose proof (step_relB q q' H) as SR.
  destruct q, q'; cbn [qrelB] in H; try contradiction; try (apply Step; exact SR).
  - (* case branches *)
    destruct H as [HA [HC|[En HU]]]; [apply Step; apply SR; exact HC|].
    destruct (U_cases _ _ HU) as [HC|[k Hk]]; [apply Step; apply SR; exact HC|].
    assert (En' : nl c0 = false) by (rewrite (u_nl _ _ _ Hk); exact En).
    destruct (Uk_stutter k c c0 Hk En') as [Hk' Ht]. rewrite (stutter_cases f' acc0 c0 Ht).
    apply IH. cbn [qrelB]. split; [exact HA|]. right. split; [exact En|exists k; exact Hk'].
  - (* blocks *)
    destruct H as [(HA & -> & -> & HU)|[D D']].
    + destruct (U_cases _ _ HU) as [HC|[k Hk]]; [apply Step; apply SR; [reflexivity|reflexivity|exact HC]|].
      destruct (Uk_stutter_stmt k c c0 Hk) as [Hk' Ht].
      rewrite (stutter_stmts f' acc0 c0 Ht (Uk_nocom _ _ _ Hk)).
      destruct f' as [|f'']; [right; left; reflexivity|].
      apply IH. cbn [qrelB]. left. split; [rewrite de_ss_snoc_empty; exact HA|].
      split; [reflexivity|split; [reflexivity|exists k; exact Hk']].
    + destruct (go_doomed (S f) acc errs c D) as [->|(ce & es & ->)]; [left; reflexivity|].
      destruct (go_doomed (S f') acc0 errs0 c0 D') as [->|(ce' & es' & ->)]; [right; left; reflexivity|].
      right. right. exact I.
  - (* blob fields *)
    destruct H as [HA [HC|[En HU]]]; [apply Step; apply SR; exact HC|].
    destruct (U_cases _ _ HU) as [HC|[k Hk]]; [apply Step; apply SR; exact HC|].
    assert (En' : nl c0 = false) by (rewrite (u_nl _ _ _ Hk); exact En).
    destruct (Uk_stutter k c c0 Hk En') as [Hk' Ht]. rewrite (stutter_blob f' acc0 c0 Ht).
    apply IH. cbn [qrelB]. split; [exact HA|]. right. split; [exact En|exists k; exact Hk'].
Qed.

(* ------------------------------------------------------------------------------------------- *)
(* whole files *)

Definition mrelB (r r' : res out) : Prop :=
  r = Fuel \/ r' = Fuel \/
  match r, r' with
  | Ok (RSs ss _), Ok (RSs ss' _) => de_ss ss = de_ss ss'
  | Ok _, Ok _ => False
  | Err _ _, Err _ _ => True
  | Panic, Panic => True
  | _, _ => False
  end.

Lemma go_doomed_module f acc errs last c : errs <> [] ->
  go T f (QModule acc errs last c) = Fuel \/ exists ce es, go T f (QModule acc errs last c) = Err ce es.
Proof.
  intros He. destruct (go_big f (QModule acc errs last c)) as (F & Hf & Hm).
  pose proof (go_good T TOK F (QModule acc errs last c) I Hm) as G.
  destruct (go T f (QModule acc errs last c)) as [o|ce es| |] eqn:H.
  - exfalso. rewrite (go_ok_le T f F _ _ Hf H) in G. cbn [good] in G.
    destruct o; cbn [Post] in G; try contradiction. destruct G as [X _]. exact (He X).
  - right. eexists. eexists. reflexivity.
  - left. reflexivity.
  - exfalso. rewrite (go_mono_le T f F _ Hf) in G; rewrite H in *; [exact G|discriminate].
Qed.

Lemma mrelB_doomed f f' acc acc' errs errs' last last' c c' : errs <> [] -> errs' <> [] ->
  mrelB (go T f (QModule acc errs last c)) (go T f' (QModule acc' errs' last' c')).
Proof.
  intros D D'. destruct (go_doomed_module f acc errs last c D) as [->|(ce & es & ->)]; [left; reflexivity|].
  destruct (go_doomed_module f' acc' errs' last' c' D') as [->|(ce' & es' & ->)]; [right; left; reflexivity|].
  right. right. exact I.
Qed.

(* a statement hands the newline flag back as it found it *)
Lemma stmt_nl f c0 s c1 : go T f (QStmt c0) = Ok (RS s c1) -> nl c1 = nl c0.
Proof.
  destruct f as [|f]; [discriminate|]. rewrite go_S. cbn [step]. unfold step_stmt, push_nl.
  rewrite run_ptry. destruct (run (go T f) _) as [[s1 c2]|ce es| |]; try discriminate.
  rewrite run_ptry. destruct (run (go T f) _) as [c3|ce es| |]; try discriminate.
  cbn [run ok]. intros E. injection E as _ <-. reflexivity.
Qed.

Lemma stutter_module f acc last c' : token c' = NLt ->
  go T (S f) (QModule acc [] last c') = go T f (QModule acc [] last (skip 1 c')).
Proof. intros Ht. rewrite go_S. cbn [step]. unfold step_module. rewrite Ht. unfold NLt. apply run_call. Qed.

Lemma in_firstn {X : Type} (x : X) : forall n l, In x (firstn n l) -> In x l.
Proof.
  induction n as [|n IH]; intros l H; [destruct H|]. destruct l as [|y l]; [destruct H|].
  cbn [firstn] in H. destruct H as [H|H]; [left; exact H|right; apply IH; exact H].
Qed.

Lemma comment_in_nocom n c : nocom (pre c) -> comment_in n c = false.
Proof.
  intros N. unfold comment_in. apply not_true_is_false. intros E. apply existsb_exists in E. destruct E as (t & Hin & Ht).
  apply in_firstn in Hin. unfold nocom in N. rewrite forallb_forall in N. specialize (N t Hin). destruct t; discriminate.
Qed.

Theorem module_relB : forall f' f acc acc' last last' c c',
  de_ss acc = de_ss acc' -> nl c = false -> U c c' ->
  mrelB (go T f (QModule acc [] last c)) (go T f' (QModule acc' [] last' c')).
Proof.
  induction f' as [|f' IH]; intros f acc acc' last last' c c' HA En HU; [right; left; reflexivity|].
  destruct f as [|f]; [left; reflexivity|].
  destruct (U_cases _ _ HU) as [H|[k Hk]].
  2:{ assert (En' : nl c' = false) by (rewrite (u_nl _ _ _ Hk); exact En).
      destruct (Uk_stutter k c c' Hk En') as [Hk' Ht]. rewrite (stutter_module f' acc' last' c' Ht).
      apply IH; [exact HA|exact En|exists k; exact Hk']. }
  rewrite !go_S. cbn [step]. unfold step_module. rewrite (A_token _ _ H).
  assert (D : mrelB
    (run (go T f) (ptry (outer_statement c) (fun '(s, c1) => call (QModule (acc ++ [s]) [] (consumed c1) c1))
                     (fun c' es => call (QModule acc ([] ++ es) last (skip_until KNewline c')))))
    (run (go T f') (ptry (outer_statement c') (fun '(s, c1) => call (QModule (acc' ++ [s]) [] (consumed c1) c1))
                     (fun c' es => call (QModule acc' ([] ++ es) last' (skip_until KNewline c')))))).
  { rewrite !run_ptry, !SimGen.run_outer.
    pose proof (go_relB f' f (QStmt c) (QStmt c') H) as G.
    pose proof (go_uerr f (QStmt c)) as V. pose proof (go_uerr f' (QStmt c')) as V'.
    pose proof (stmt_nl f c) as SN.
    destruct (go T f (QStmt c)) as [o|ce es| |]; [| |left; reflexivity|].
    - destruct (go T f' (QStmt c')) as [o'|ce' es'| |]; [| |right; left; reflexivity|];
        destruct G as [X|[X|X]]; try discriminate X; cbn [resrelB] in X; try contradiction.
      destruct o as [| | | | | | | | | | | | |st c1| |], o' as [| | | | | | | | | | | | |st' c1'| |];
        cbn [orelB] in X; try contradiction; try (right; right; exact I). destruct X as [E1 R1].
      rewrite (is_outer_de st st' E1). destruct (is_outer st').
      + rewrite !run_call. apply IH; [apply de_ss_snoc; assumption|rewrite (SN st c1 eq_refl); exact En|exact R1].
      + rewrite !run_call. apply mrelB_doomed; discriminate.
    - destruct (go T f' (QStmt c')) as [o'|ce' es'| |]; [| |right; left; reflexivity|];
        destruct G as [X|[X|X]]; try discriminate X; cbn [resrelB] in X; try contradiction.
      rewrite !run_call. cbn [app]. apply mrelB_doomed; [exact (V ce es eq_refl)|exact (V' ce' es' eq_refl)].
    - destruct (go T f' (QStmt c')) as [o'|ce' es'| |]; [| |right; left; reflexivity|];
        destruct G as [X|[X|X]]; try discriminate X; cbn [resrelB] in X; try contradiction.
      right. right. exact I. }
  destruct (token c) as [| | | | | |k|] eqn:Tk; try exact D.
  - destruct k; try exact D. rewrite !run_call. apply IH; [exact HA|rewrite SimGen.skip_nl; exact En|].
    apply A_skip1_nl; [exact H|exact En|rewrite Tk; reflexivity].
  - right. right. cbn [run ok]. destruct (u_nc _ _ _ H) as (N1 & _ & N3 & _).
    rewrite (comment_in_nocom _ c N1), (comment_in_nocom _ c' N3). exact HA.
Qed.

End Sim.

(* ------------------------------------------------------------------------------------------- *)
(* the statements *)

(* [ts'] is [ts] with more blank lines: newlines added next to newlines, and at the start of the file *)
Definition more_blank_lines (ts ts' : list tok) : Prop := exists k r0, ts' = repeat NLt k ++ r0 /\ BL ts r0.

Lemma BL_nocom l l' : BL l l' -> nocom l -> nocom l'.
Proof.
  intros H. induction H as [|t l l' H IH|l l' H IH]; intros N; [exact N| |].
  - apply nocom_cons in N. destruct N as [Nt Nl]. apply nocom_cons. split; [exact Nt|apply IH; exact Nl].
  - apply nocom_cons. split; [reflexivity|apply IH; exact N].
Qed.

Lemma init_U ts ts' : nocom ts -> more_blank_lines ts ts' -> U (init ts) (init ts').
Proof.
  intros N (k & r0 & -> & B). exists k. constructor; cbn [init nl over pre post]; try reflexivity.
  - lia.
  - left. reflexivity.
  - exists r0. split; [reflexivity|exact B].
  - intros _. left. reflexivity.
  - repeat split; try reflexivity; [exact N|]. apply nocom_app. split; [apply nocom_repeat|apply (BL_nocom _ _ B N)].
Qed.

(* C14 blank lines, token lists without comments: with enough fuel on both sides both files are accepted, with
   the same tree up to EmptyStatements at every level, or both are rejected *)
Theorem blank_lines_program_nocom T : total_ok T -> nl_plain T ->
  forall ts ts' f f', nocom ts -> more_blank_lines ts ts' -> parse_fuel ts <= f -> parse_fuel ts' <= f' ->
  match parse_program T f ts, parse_program T f' ts' with
  | Ok (ss, _), Ok (ss', _) => de_program ss = de_program ss'
  | Err _ _, Err _ _ => True
  | _, _ => False
  end.
Proof.
  intros TOK NLP ts ts' f f' N HB Hf Hf'.
  pose proof (module_relB T TOK NLP f' f [] [] 0 0 (init ts) (init ts') eq_refl eq_refl (init_U ts ts' N HB)) as G.
  pose proof (parse_program_total T TOK ts f Hf) as S1. pose proof (parse_program_total T TOK ts' f' Hf') as S2.
  unfold parse_program in *.
  destruct (go T f (QModule [] [] 0 (init ts))) as [o|ce es| |], (go T f' (QModule [] [] 0 (init ts'))) as [o'|ce' es'| |];
    cbn [as_Ss ParserTotal.settled] in *; try contradiction;
    destruct G as [X|[X|X]]; try discriminate X; try contradiction; try exact I;
    try (destruct o; contradiction).
  destruct o, o'; try contradiction. exact X.
Qed.

(* ... and with comments anywhere (CommentSim.v): what is compared are the token lists without their comments, so a
   comment-only line counts as a blank line *)
From Sylt Require Parse.CommentSim.

Lemma nocom_ec l : nocom (CommentSim.ec l).
Proof.
  unfold nocom, CommentSim.ec. apply forallb_forall. intros x Hx. apply filter_In in Hx. exact (proj2 Hx).
Qed.

Lemma ec_length l : length (CommentSim.ec l) <= length l.
Proof. unfold CommentSim.ec. induction l as [|x l IH]; [cbn; lia|]. cbn [filter]. destruct (not_comment x); cbn [length]; lia. Qed.

Theorem blank_lines_program T : total_ok T -> nl_plain T ->
  forall ts ts' f f', more_blank_lines (CommentSim.ec ts) (CommentSim.ec ts') -> hd TEOF (CommentSim.ec ts) <> TEOF ->
  parse_fuel ts <= f -> parse_fuel ts' <= f' ->
  match parse_program T f ts, parse_program T f' ts' with
  | Ok (ss, _), Ok (ss', _) => de_program ss = de_program ss'
  | Err _ _, Err _ _ => True
  | _, _ => False
  end.
Proof.
  intros TOK NLP ts ts' f f' HB Hne Hf Hf'.
  assert (Hne' : hd TEOF (CommentSim.ec ts') <> TEOF).
  { destruct HB as (k & r0 & E & B). rewrite E. destruct k as [|k]; [|discriminate]. cbn [repeat app].
    destruct (CommentSim.ec ts) as [|t l]; [contradiction|]. inversion B; subst; [exact Hne|discriminate]. }
  pose proof (CommentSim.comments_anywhere T TOK ts (CommentSim.ec ts) f (eq_sym (CommentSim.ec_idem ts)) Hne) as C1.
  pose proof (CommentSim.comments_anywhere T TOK ts' (CommentSim.ec ts') f' (eq_sym (CommentSim.ec_idem ts')) Hne') as C2.
  assert (F1 : parse_fuel (CommentSim.ec ts) <= f) by (unfold parse_fuel in *; pose proof (ec_length ts); lia).
  assert (F2 : parse_fuel (CommentSim.ec ts') <= f') by (unfold parse_fuel in *; pose proof (ec_length ts'); lia).
  pose proof (blank_lines_program_nocom T TOK NLP (CommentSim.ec ts) (CommentSim.ec ts') f f' (nocom_ec ts) HB F1 F2) as B.
  unfold CommentSim.prog_rel in C1, C2.
  destruct (parse_program T f ts) as [[ss c]|ce es| |], (parse_program T f (CommentSim.ec ts)) as [[ss0 c0]|ce0 es0| |];
    try contradiction;
    destruct (parse_program T f' ts') as [[ss' c']|ce' es'| |], (parse_program T f' (CommentSim.ec ts')) as [[ss0' c0']|ce0' es0'| |];
    try contradiction; try exact I.
  unfold de_program in *. rewrite (noempty_de ss), (noempty_de ss'), C1, C2, <- !noempty_de. exact B.
Qed.

(* blank lines added to a token list with its comments *)
Lemma BL_ec l l' : BL l l' -> BL (CommentSim.ec l) (CommentSim.ec l').
Proof.
  intros H. induction H as [|t l l' H IH|l l' H IH]; [constructor| |].
  - unfold CommentSim.ec in *. cbn [filter]. destruct (not_comment t); [constructor; exact IH|exact IH].
  - unfold CommentSim.ec in *. cbn [filter not_comment NLt] in *. apply BL_dup. exact IH.
Qed.

Lemma more_blank_lines_ec ts ts' : more_blank_lines ts ts' -> more_blank_lines (CommentSim.ec ts) (CommentSim.ec ts').
Proof.
  intros (k & r0 & -> & B). exists k, (CommentSim.ec r0). split; [|apply BL_ec; exact B].
  rewrite CommentSim.ec_app. f_equal. unfold CommentSim.ec. induction k as [|k IH]; [reflexivity|]. cbn. f_equal. exact IH.
Qed.
